package main

import (
	"github.com/bronlabs/bron-crypto/pkg/base/algebra"
	"github.com/bronlabs/bron-crypto/pkg/encryption/elgamal"
)

// egImmut wraps one ElGamal key path with the input-immutability oracle of c16_immut.go.
type egImmut[E elgamal.FiniteCyclicGroupElement[E, S], S algebra.UintLike[S]] struct {
	c     *Ctx
	e     *egEnv[E, S]
	path  string
	inner egOps[E, S]
}

func (w *egImmut[E, S]) g(op string) *immGuard {
	return newGuard(w.c, "elgamal."+w.e.name+"."+w.path+"."+op)
}

func (w *egImmut[E, S]) sCt(ct *elgamal.Ciphertext[E, S]) string {
	if ct == nil {
		return "nil"
	}
	return w.e.ctStr(ct)
}

func (w *egImmut[E, S]) sPt(p *elgamal.Plaintext[E, S]) string {
	if p == nil {
		return "nil"
	}
	return w.e.ptStr(p.Value())
}

func (w *egImmut[E, S]) sNc(n *elgamal.Nonce[S]) string {
	if n == nil {
		return "nil"
	}
	return hexNat(w.e.scBig(n.Value()))
}

func (w *egImmut[E, S]) sSc(s S) string { return hexNat(w.e.scBig(s)) }

func (w *egImmut[E, S]) EncryptWithNonce(p *elgamal.Plaintext[E, S], n *elgamal.Nonce[S]) (*elgamal.Ciphertext[E, S], error) {
	g := w.g("EncryptWithNonce")
	g.val("plaintext", func() string { return w.sPt(p) })
	g.val("nonce", func() string { return w.sNc(n) })
	defer g.done()
	return w.inner.EncryptWithNonce(p, n)
}

func (w *egImmut[E, S]) ReRandomise(a *elgamal.Ciphertext[E, S], n *elgamal.Nonce[S]) (*elgamal.Ciphertext[E, S], error) {
	g := w.g("ReRandomise")
	g.val("ciphertext", func() string { return w.sCt(a) })
	g.val("nonce", func() string { return w.sNc(n) })
	defer g.done()
	return w.inner.ReRandomise(a, n)
}

func (w *egImmut[E, S]) CiphertextOp(a, b *elgamal.Ciphertext[E, S], rest ...*elgamal.Ciphertext[E, S]) (*elgamal.Ciphertext[E, S], error) {
	g := w.g("CiphertextOp")
	g.val("first", func() string { return w.sCt(a) })
	g.val("second", func() string { return w.sCt(b) })
	guardSlice(g, "rest", rest, w.sCt)
	defer g.done()
	return w.inner.CiphertextOp(a, b, rest...)
}

func (w *egImmut[E, S]) CiphertextOpInv(a *elgamal.Ciphertext[E, S]) (*elgamal.Ciphertext[E, S], error) {
	g := w.g("CiphertextOpInv")
	g.val("ciphertext", func() string { return w.sCt(a) })
	defer g.done()
	return w.inner.CiphertextOpInv(a)
}

func (w *egImmut[E, S]) CiphertextScalarOp(a *elgamal.Ciphertext[E, S], s S) (*elgamal.Ciphertext[E, S], error) {
	g := w.g("CiphertextScalarOp")
	g.val("ciphertext", func() string { return w.sCt(a) })
	g.val("scalar", func() string { return w.sSc(s) })
	defer g.done()
	return w.inner.CiphertextScalarOp(a, s)
}

func (w *egImmut[E, S]) Shift(a *elgamal.Ciphertext[E, S], p *elgamal.Plaintext[E, S]) (*elgamal.Ciphertext[E, S], error) {
	g := w.g("Shift")
	g.val("ciphertext", func() string { return w.sCt(a) })
	g.val("plaintext", func() string { return w.sPt(p) })
	defer g.done()
	return w.inner.Shift(a, p)
}

func (w *egImmut[E, S]) PlaintextOp(a, b *elgamal.Plaintext[E, S], rest ...*elgamal.Plaintext[E, S]) (*elgamal.Plaintext[E, S], error) {
	g := w.g("PlaintextOp")
	g.val("first", func() string { return w.sPt(a) })
	g.val("second", func() string { return w.sPt(b) })
	guardSlice(g, "rest", rest, w.sPt)
	defer g.done()
	return w.inner.PlaintextOp(a, b, rest...)
}

func (w *egImmut[E, S]) PlaintextOpInv(a *elgamal.Plaintext[E, S]) (*elgamal.Plaintext[E, S], error) {
	g := w.g("PlaintextOpInv")
	g.val("plaintext", func() string { return w.sPt(a) })
	defer g.done()
	return w.inner.PlaintextOpInv(a)
}

func (w *egImmut[E, S]) PlaintextScalarOp(a *elgamal.Plaintext[E, S], s S) (*elgamal.Plaintext[E, S], error) {
	g := w.g("PlaintextScalarOp")
	g.val("plaintext", func() string { return w.sPt(a) })
	g.val("scalar", func() string { return w.sSc(s) })
	defer g.done()
	return w.inner.PlaintextScalarOp(a, s)
}

func (w *egImmut[E, S]) NonceOp(a, b *elgamal.Nonce[S], rest ...*elgamal.Nonce[S]) (*elgamal.Nonce[S], error) {
	g := w.g("NonceOp")
	g.val("first", func() string { return w.sNc(a) })
	g.val("second", func() string { return w.sNc(b) })
	guardSlice(g, "rest", rest, w.sNc)
	defer g.done()
	return w.inner.NonceOp(a, b, rest...)
}

func (w *egImmut[E, S]) NonceOpInv(a *elgamal.Nonce[S]) (*elgamal.Nonce[S], error) {
	g := w.g("NonceOpInv")
	g.val("nonce", func() string { return w.sNc(a) })
	defer g.done()
	return w.inner.NonceOpInv(a)
}

func (w *egImmut[E, S]) NonceScalarOp(a *elgamal.Nonce[S], s S) (*elgamal.Nonce[S], error) {
	g := w.g("NonceScalarOp")
	g.val("nonce", func() string { return w.sNc(a) })
	g.val("scalar", func() string { return w.sSc(s) })
	defer g.done()
	return w.inner.NonceScalarOp(a, s)
}
