package main

import (
	"fmt"
	"math/big"
	"reflect"

	"github.com/bronlabs/bron-crypto/pkg/base/algebra"
)

// c14Group is a runtime view of one public point type.
type c14Group[P any] struct {
	cn      string // curve name understood by Drive/C14.lean
	n       *big.Int
	id, gen P
	str     func(P) string
	add     func(P, P) P
	sub     func(P, P) P
	dbl     func(P) P
	neg     func(P) P
	eq      func(P, P) bool
	isid    func(P) bool
	smul    func(P, *big.Int) P // through the Scalar type (k is reduced mod n)
	smulRaw func(P, []byte) P   // aimpl.ScalarMulLowLevel on raw little-endian bytes
	baseMul func(*big.Int) P    // nil if the type has none
	msm     func([]*big.Int, []P) (P, error)
	extra   []P // exceptional points specific to the curve (small order)
	// window stream (c14_window.go)
	msmRaw func([][]byte, []P) P // aimpl.MultiScalarMulLowLevel on raw little-endian byte strings
	auSmul func(P, []byte) P     // algebrautils.ScalarMul, exponent = raw big-endian bytes
	auMsm  func([][]byte, []P) P // algebrautils.MultiScalarMul, scalars = raw big-endian bytes
}

type c14PointAPI[P any, S any] interface {
	Add(P) P
	Double() P
	Neg() P
	Sub(P) P
	Equal(P) bool
	IsOpIdentity() bool
	ScalarMul(S) P
}

type c14CurveAPI[P any, S algebra.PrimeFieldElement[S]] interface {
	ScalarBaseMul(S) P
	MultiScalarMul([]S, []P) (P, error)
	Generator() P
	OpIdentity() P
	ScalarField() algebra.PrimeField[S]
}

func isNilPtr(x any) bool {
	v := reflect.ValueOf(x)
	return v.Kind() == reflect.Ptr && v.IsNil()
}

func mkGroup[P interface {
	c14PointAPI[P, S]
	algebra.MonoidElement[P]
}, S algebra.PrimeFieldElement[S], C c14CurveAPI[P, S]](cn string, cv C, str func(P) string, raw func(P, []byte) P) *c14Group[P] {
	sf := cv.ScalarField()
	return &c14Group[P]{
		cn: cn, n: fieldOrder(sf), id: cv.OpIdentity(), gen: cv.Generator(), str: str,
		add:     func(a, b P) P { return a.Add(b) },
		sub:     func(a, b P) P { return a.Sub(b) },
		dbl:     func(a P) P { return a.Double() },
		neg:     func(a P) P { return a.Neg() },
		eq:      func(a, b P) bool { return a.Equal(b) },
		isid:    func(a P) bool { return a.IsOpIdentity() },
		smul:    func(a P, k *big.Int) P { return a.ScalarMul(scalarFromBig(sf, k)) },
		smulRaw: raw,
		baseMul: func(k *big.Int) P { return cv.ScalarBaseMul(scalarFromBig(sf, k)) },
		msm: func(ks []*big.Int, ps []P) (P, error) {
			scs := make([]S, len(ks))
			for i, k := range ks {
				scs[i] = scalarFromBig(sf, k)
			}
			return cv.MultiScalarMul(scs, ps)
		},
		auSmul: c14AuSmul[P],
		auMsm:  c14AuMsm[P],
	}
}

type c14Pt[P any] struct {
	p P
	k *big.Int // known discrete log w.r.t. the generator, nil if unknown (torsion component)
}

func boolStr(b bool) string {
	if b {
		return "true"
	}
	return "false"
}

// interesting scalars: 0, 1, 2, n-1, n, n+1, small, random
func c14Scalar(r *Rng, n *big.Int) *big.Int {
	switch r.IntN(12) {
	case 0:
		return big.NewInt(0)
	case 1:
		return big.NewInt(1)
	case 2:
		return new(big.Int).Sub(n, big.NewInt(1))
	case 3:
		return big.NewInt(2)
	case 4:
		return big.NewInt(int64(r.IntN(1 << 16)))
	case 5:
		return new(big.Int).Sub(n, big.NewInt(int64(2+r.IntN(14))))
	default:
		return r.BigBelow(n)
	}
}

func runGroup[P any](c *Ctx, g *c14Group[P], stream uint64, q int) {
	r := NewRng(c.Seed, 1400+stream)
	cn := g.cn
	one := big.NewInt(1)
	nm1 := new(big.Int).Sub(g.n, one)
	np1 := new(big.Int).Add(g.n, one)

	// pool of points with known discrete logs, computed along different routes so that the
	// projective representatives differ (non-normalised Z)
	pool := []c14Pt[P]{{g.id, big.NewInt(0)}, {g.gen, big.NewInt(1)}, {g.neg(g.gen), nm1},
		{g.dbl(g.gen), big.NewInt(2)}, {g.add(g.dbl(g.gen), g.gen), big.NewInt(3)}}
	for i := 0; i < 4+2*q; i++ {
		k := c14Scalar(r, g.n)
		pool = append(pool, c14Pt[P]{g.smul(g.gen, k), k})
	}
	for _, t := range g.extra {
		pool = append(pool, c14Pt[P]{t, nil})
		// generator plus torsion: outside the prime subgroup
		pool = append(pool, c14Pt[P]{g.add(g.gen, t), nil})
	}
	pick := func() c14Pt[P] { return pool[r.IntN(len(pool))] }
	cat := func(a, b c14Pt[P]) string {
		sa, sb := g.str(a.p), g.str(b.p)
		switch {
		case sa == "inf" && sb == "inf":
			return "id+id"
		case sa == "inf" || sb == "inf":
			return "id-operand"
		case sa == sb:
			return "P+P"
		case sa == g.str(g.neg(b.p)):
			return "P+(-P)"
		default:
			return "generic"
		}
	}

	// 1. all exceptional combinations, exhaustively over the first pool entries + extras
	var exc []c14Pt[P]
	exc = append(exc, pool[:6]...)
	for _, t := range g.extra {
		exc = append(exc, c14Pt[P]{t, nil})
	}
	for _, a := range exc {
		for _, b := range exc {
			c.Count(cn + ".add." + cat(a, b))
			c.Emit(fmt.Sprintf("add %s %s %s", cn, g.str(a.p), g.str(b.p)), safely(func() string { return g.str(g.add(a.p, b.p)) }))
			c.Emit(fmt.Sprintf("sub %s %s %s", cn, g.str(a.p), g.str(b.p)), safely(func() string { return g.str(g.sub(a.p, b.p)) }))
			c.Emit(fmt.Sprintf("eq %s %s %s", cn, g.str(a.p), g.str(b.p)), safely(func() string { return boolStr(g.eq(a.p, b.p)) }))
		}
		c.Emit(fmt.Sprintf("dbl %s %s", cn, g.str(a.p)), safely(func() string { return g.str(g.dbl(a.p)) }))
		c.Emit(fmt.Sprintf("neg %s %s", cn, g.str(a.p)), safely(func() string { return g.str(g.neg(a.p)) }))
		c.Emit(fmt.Sprintf("isid %s %s", cn, g.str(a.p)), safely(func() string { return boolStr(g.isid(a.p)) }))
		// P + (-P) must be recognised as the identity by IsOpIdentity and Equal (Go-side oracle)
		z := g.add(a.p, g.neg(a.p))
		if !g.isid(z) || !g.eq(z, g.id) {
			c.Violation(fmt.Sprintf("%s P+(-P) not identity for P=%s", cn, g.str(a.p)))
		}
		for _, k := range []*big.Int{big.NewInt(0), one, big.NewInt(2), nm1} {
			c.Emit(fmt.Sprintf("smul %s %s %s", cn, hexNat(k), g.str(a.p)), safely(func() string { return g.str(g.smul(a.p, k)) }))
		}
		for _, k := range []*big.Int{big.NewInt(0), one, nm1, g.n, np1, big.NewInt(8), big.NewInt(255), big.NewInt(256)} {
			kb := bigLE(k, 1+r.IntN(40))
			c.Emit(fmt.Sprintf("smulraw %s %s %s", cn, hexNat(k), g.str(a.p)), safely(func() string { return g.str(g.smulRaw(a.p, kb)) }))
		}
	}
	// empty scalar byte string = 0
	c.Emit(fmt.Sprintf("smulraw %s 0 %s", cn, g.str(g.gen)), safely(func() string { return g.str(g.smulRaw(g.gen, nil)) }))

	// 2. random pairs from the pool
	for i := 0; i < 30*q; i++ {
		a, b := pick(), pick()
		c.Count(cn + ".add." + cat(a, b))
		sum := g.add(a.p, b.p)
		c.Emit(fmt.Sprintf("add %s %s %s", cn, g.str(a.p), g.str(b.p)), safely(func() string { return g.str(sum) }))
		if i%3 == 0 {
			c.Emit(fmt.Sprintf("sub %s %s %s", cn, g.str(a.p), g.str(b.p)), safely(func() string { return g.str(g.sub(a.p, b.p)) }))
		}
		// Equal across different projective representatives of possibly equal points
		c.Emit(fmt.Sprintf("eq %s %s %s", cn, g.str(sum), g.str(b.p)), safely(func() string { return boolStr(g.eq(sum, b.p)) }))
		if a.k != nil && b.k != nil && g.baseMul != nil {
			// Go-side relation: aG + bG = (a+b)G
			ab := new(big.Int).Add(a.k, b.k)
			want := g.baseMul(ab)
			if !g.eq(sum, want) || !g.eq(want, sum) || g.str(sum) != g.str(want) {
				c.Violation(fmt.Sprintf("%s aG+bG != (a+b)G a=%s b=%s", cn, hexNat(a.k), hexNat(b.k)))
			}
			c.Count(cn + ".homomorphism-checks")
		}
	}

	// 3. scalar multiplication
	for i := 0; i < 10*q; i++ {
		a := pick()
		k := c14Scalar(r, g.n)
		res := g.smul(a.p, k)
		c.Emit(fmt.Sprintf("smul %s %s %s", cn, hexNat(k), g.str(a.p)), safely(func() string { return g.str(res) }))
		if a.k != nil && g.baseMul != nil {
			want := g.baseMul(new(big.Int).Mul(a.k, k))
			if !g.eq(res, want) {
				c.Violation(fmt.Sprintf("%s k(aG) != (ka)G a=%s k=%s", cn, hexNat(a.k), hexNat(k)))
			}
		}
		c.Count(cn + ".smul")
	}
	if g.baseMul != nil {
		for _, k := range []*big.Int{big.NewInt(0), one, big.NewInt(2), nm1, g.n, np1} {
			c.Emit(fmt.Sprintf("basemul %s %s", cn, hexNat(new(big.Int).Mod(k, g.n))), safely(func() string { return g.str(g.baseMul(k)) }))
		}
		for i := 0; i < 6*q; i++ {
			k := c14Scalar(r, g.n)
			c.Emit(fmt.Sprintf("basemul %s %s", cn, hexNat(k)), safely(func() string { return g.str(g.baseMul(k)) }))
		}
	}

	// 4. multi-scalar multiplication, every length 0..8 and a spread up to 64 (thorough: all 0..64)
	if g.msm != nil {
		var lens []int
		if c.Thorough() {
			for l := 0; l <= 64; l++ {
				lens = append(lens, l)
			}
			lens = append(lens, 100, 129)
		} else {
			lens = []int{0, 1, 2, 3, 4, 5, 6, 7, 8, 9, 15, 16, 17, 31, 33, 64}
		}
		for _, l := range lens {
			ks := make([]*big.Int, l)
			ps := make([]P, l)
			small := l > 9 // long vectors: mostly short scalars (the model's cost is per scalar bit)
			for j := range ks {
				a := pick()
				ps[j] = a.p
				switch {
				case small && r.IntN(8) != 0:
					ks[j] = big.NewInt(int64(r.IntN(1 << 12)))
				default:
					ks[j] = c14Scalar(r, g.n)
				}
			}
			if l > 0 && r.IntN(3) == 0 { // repeated point / cancelling pair
				j, k2 := r.IntN(l), r.IntN(l)
				ps[j] = ps[k2]
			}
			strs := make([]string, l)
			kh := make([]string, l)
			for j := range ps {
				strs[j] = g.str(ps[j])
				kh[j] = hexNat(ks[j])
			}
			if l == 0 {
				c.Note("msm of the empty family: the empty sum is the identity")
			}
			c.Count(fmt.Sprintf("%s.msm.len", cn))
			c.Emit(fmt.Sprintf("msm %s %s %s", cn, joinComma(kh), joinComma(strs)), safely(func() string {
				res, err := g.msm(ks, ps)
				if err != nil {
					return "err:msm"
				}
				return g.str(res)
			}))
		}
		// mismatched lengths must be rejected, not computed
		got := safely(func() string {
			_, err := g.msm([]*big.Int{one}, nil)
			if err != nil {
				return "reject"
			}
			return "accepted"
		})
		if got != "reject" {
			c.Violation(fmt.Sprintf("%s msm with mismatched lengths: %s", cn, got))
		}
	}
}

// implSeeds exposes the impl-level values of pool-like points of a group (for the raw formula stream).
func implSeeds[P any, T any](seed int64, g *c14Group[P], v func(P) *T) []*T {
	r := NewRng(seed, 1499)
	out := []*T{v(g.id), v(g.gen), v(g.neg(g.gen)), v(g.dbl(g.gen))}
	for i := 0; i < 6; i++ {
		out = append(out, v(g.smul(g.gen, r.BigBelow(g.n))))
	}
	for _, t := range g.extra {
		out = append(out, v(t), v(g.add(g.gen, t)))
	}
	return out
}
