// proto_sign.go — threshold signing through the shared protocol layer (see proto.go).
//
//   runDKLs23(variant "bbot"|"softspoken", suite, baseShards, quorum, ctxs, msg, rngs, hook) *ECDSAResult
//        bbot 4 rounds, softspoken 5 rounds; Partials, NoncePoints (broadcast R_i), PkShares
//        (broadcast additive public key shares), Sig (dkls23.Aggregate over the partials in ID order),
//        SigAlt (aggregated in reverse order: "every aggregator obtains the same signature").
//   runDKLs23Runner(variant, …)                   the same through NewRunner over routers
//   runLindell22(mkScheme, baseShards, quorum, ctxs, msg, rngs, hook) *SchnorrResult
//        generic over the Schnorr flavour: mkScheme(rng) builds the party's own scheme instance
//        (vanilla schnorr.NewScheme, bip340.NewScheme, mina.NewRandomisedScheme); 3 rounds + Aggregate.
//   runLindell22Runner(…)                          through signing.NewRunner
//   runBoldyrevaShort / runBoldyrevaLong(baseShards, quorum, ctxs, msg, alg, hook) *BLSResult
//        non-interactive: the partial signatures are the only messages (round 1, to the aggregator).
//   runLindell17Deal(curve, ac, keyLen, rng)      trusted dealer with Paillier material
//   runLindell17Sign(suite, shards, primary, secondary, ctxs, msg, rngs, hook, nic) *ECDSAResult   5 rounds
//
// In every result `Net` carries statuses/log; a result's Sig is nil unless the run was ok.
//
// Times (purego, this sandbox; measured by `harness PROTO`, k256 unless noted, quorum of 2):
//   dkls23-bbot ≈ 1.5 s, dkls23-softspoken ≈ 1.1 s (each +≈ 0.9 s per extra pair),
//   lindell22 ≈ 60 ms (bip340), boldyreva short ≈ 350 ms, long ≈ 300 ms,
//   lindell17 dealer (3 × 3072-bit Paillier keys; the library refuses shorter keys outside `go test`)
//   ≈ 10–60 s, sign ≈ 8 s.  CGGMP21 is not wrapped (keygen alone ≈ 170 s in the repo's own tests).

package main

import (
	"io"
	"slices"

	"github.com/bronlabs/bron-crypto/pkg/base/algebra"
	"github.com/bronlabs/bron-crypto/pkg/base/curves"
	"github.com/bronlabs/bron-crypto/pkg/base/curves/pairable/bls12381"
	ds "github.com/bronlabs/bron-crypto/pkg/base/datastructures"
	"github.com/bronlabs/bron-crypto/pkg/base/datastructures/hashmap"
	"github.com/bronlabs/bron-crypto/pkg/mpc"
	"github.com/bronlabs/bron-crypto/pkg/mpc/session"
	"github.com/bronlabs/bron-crypto/pkg/mpc/signatures/bls/boldyreva02"
	blskeygen "github.com/bronlabs/bron-crypto/pkg/mpc/signatures/bls/boldyreva02/keygen"
	blssigning "github.com/bronlabs/bron-crypto/pkg/mpc/signatures/bls/boldyreva02/signing"
	"github.com/bronlabs/bron-crypto/pkg/mpc/signatures/ecdsa/dkls23"
	dklskeygen "github.com/bronlabs/bron-crypto/pkg/mpc/signatures/ecdsa/dkls23/keygen"
	"github.com/bronlabs/bron-crypto/pkg/mpc/signatures/ecdsa/dkls23/signing_bbot"
	"github.com/bronlabs/bron-crypto/pkg/mpc/signatures/ecdsa/dkls23/signing_softspoken"
	mpcschnorr "github.com/bronlabs/bron-crypto/pkg/mpc/signatures/schnorr"
	"github.com/bronlabs/bron-crypto/pkg/mpc/signatures/schnorr/lindell22"
	l22keygen "github.com/bronlabs/bron-crypto/pkg/mpc/signatures/schnorr/lindell22/keygen"
	l22signing "github.com/bronlabs/bron-crypto/pkg/mpc/signatures/schnorr/lindell22/signing"
	"github.com/bronlabs/bron-crypto/pkg/network"
	"github.com/bronlabs/bron-crypto/pkg/proofs/sigma/compiler"
	"github.com/bronlabs/bron-crypto/pkg/signatures/bls"
	"github.com/bronlabs/bron-crypto/pkg/signatures/ecdsa"
	"github.com/bronlabs/bron-crypto/pkg/signatures/schnorrlike"
)

// ---------------------------------------------------------------------------------------------
// DKLs23

// ECDSAResult is the outcome of a threshold ECDSA signing run.
type ECDSAResult[P curves.Point[P, B, S], B algebra.PrimeFieldElement[B], S algebra.PrimeFieldElement[S]] struct {
	Net         *Net
	PK          P
	Partials    map[ID]*dkls23.PartialSignature[P, B, S]
	NoncePoints map[ID]P // broadcast R_i
	PkShares    map[ID]P // broadcast additive public key shares (Σ = pk)
	Sig         *ecdsa.Signature[S]
	SigAlt      *ecdsa.Signature[S] // aggregated from the partials in reverse order
	AggStatus   string              // class of dkls23.Aggregate
}

func dklsShards[P curves.Point[P, B, S], B algebra.PrimeFieldElement[B], S algebra.PrimeFieldElement[S]](base map[ID]*mpc.BaseShard[P, S], quorum []ID) (map[ID]*dkls23.Shard[P, B, S], error) {
	out := map[ID]*dkls23.Shard[P, B, S]{}
	for _, id := range quorum {
		sh, err := dklskeygen.NewShard[P, B, S](base[id])
		if err != nil {
			return nil, err
		}
		out[id] = sh
	}
	return out, nil
}

func (r *ECDSAResult[P, B, S]) aggregate(suite *ecdsa.Suite[P, B, S], msg []byte) {
	ids := sortedKeys(r.Partials)
	ps := make([]*dkls23.PartialSignature[P, B, S], 0, len(ids))
	for _, id := range ids {
		ps = append(ps, r.Partials[id])
	}
	pk, err := ecdsa.NewPublicKey(r.PK)
	if err != nil {
		r.AggStatus = classify(err)
		return
	}
	cls := "ok"
	func() {
		defer func() {
			if e := recover(); e != nil {
				cls = "panic"
			}
		}()
		sig, err := dkls23.Aggregate(suite, pk, msg, ps...)
		if err != nil {
			cls = classify(err)
			return
		}
		r.Sig = sig
		rev := slices.Clone(ps)
		slices.Reverse(rev)
		alt, err := dkls23.Aggregate(suite, pk, msg, rev...)
		if err != nil {
			cls = "alt-" + classify(err)
			return
		}
		r.SigAlt = alt
	}()
	r.AggStatus = cls
}

// runDKLs23 signs msg with the quorum's shards. ctxs are session contexts over exactly `quorum`.
func runDKLs23[P curves.Point[P, B, S], B algebra.PrimeFieldElement[B], S algebra.PrimeFieldElement[S]](variant string, suite *ecdsa.Suite[P, B, S], base map[ID]*mpc.BaseShard[P, S], quorum []ID, ctxs map[ID]*session.Context, msg []byte, rngs map[ID]io.Reader, hook Hook) *ECDSAResult[P, B, S] {
	quorum = sortedIDs(quorum)
	n := newNet("dkls23-"+variant, quorum, rngs, hook)
	res := &ECDSAResult[P, B, S]{Net: n, NoncePoints: map[ID]P{}, PkShares: map[ID]P{}}
	n.watchdog(func() {
		shards, err := dklsShards[P, B, S](base, quorum)
		if err != nil {
			for _, id := range quorum {
				n.Status[id] = classify(err)
			}
			n.FailedRound = -1
			return
		}
		res.PK = shards[quorum[0]].PublicKeyValue()
		switch variant {
		case "bbot":
			dklsBbot(n, res, suite, shards, quorum, ctxs, msg)
		case "softspoken":
			dklsSoftspoken(n, res, suite, shards, quorum, ctxs, msg)
		default:
			panic("runDKLs23: unknown variant " + variant)
		}
		if res.Partials != nil {
			res.aggregate(suite, msg)
		}
	})
	return res
}

func dklsBbot[P curves.Point[P, B, S], B algebra.PrimeFieldElement[B], S algebra.PrimeFieldElement[S]](n *Net, res *ECDSAResult[P, B, S], suite *ecdsa.Suite[P, B, S], shards map[ID]*dkls23.Shard[P, B, S], ids []ID, ctxs map[ID]*session.Context, msg []byte) {
	type C = *signing_bbot.Cosigner[P, B, S]
	type B1 = *signing_bbot.Round1Broadcast[P, B, S]
	type U1 = *signing_bbot.Round1P2P[P, B, S]
	type B2 = *signing_bbot.Round2Broadcast[P, B, S]
	type U2 = *signing_bbot.Round2P2P[P, B, S]
	type B3 = *signing_bbot.Round3Broadcast[P, B, S]
	type U3 = *signing_bbot.Round3P2P[P, B, S]
	cs, ok := construct(n, ids, func(id ID) (C, error) {
		return signing_bbot.NewCosigner(ctxs[id], suite, shards[id], n.Rng(id))
	})
	if !ok {
		return
	}
	r1, ok := stepAll(n, 1, cs, func(_ ID, c C) (pair[B1, network.OutgoingUnicasts[U1, C]], error) {
		b, u, err := c.Round1()
		return pair[B1, network.OutgoingUnicasts[U1, C]]{b, u}, err
	})
	if !ok {
		return
	}
	r1b, r1u := splitPairs(r1)
	b2i, u2i := routeB[B1, C](n, 1, ids, r1b), routeU[U1, C](n, 1, ids, r1u)
	r2, ok := stepAll(n, 2, cs, func(id ID, c C) (pair[B2, network.OutgoingUnicasts[U2, C]], error) {
		b, u, err := c.Round2(b2i[id], u2i[id])
		return pair[B2, network.OutgoingUnicasts[U2, C]]{b, u}, err
	})
	if !ok {
		return
	}
	r2b, r2u := splitPairs(r2)
	for id, b := range r2b {
		if b != nil {
			res.NoncePoints[id] = b.BigR
		}
	}
	b3i, u3i := routeB[B2, C](n, 2, ids, r2b), routeU[U2, C](n, 2, ids, r2u)
	r3, ok := stepAll(n, 3, cs, func(id ID, c C) (pair[B3, network.OutgoingUnicasts[U3, C]], error) {
		b, u, err := c.Round3(b3i[id], u3i[id])
		return pair[B3, network.OutgoingUnicasts[U3, C]]{b, u}, err
	})
	if !ok {
		return
	}
	r3b, r3u := splitPairs(r3)
	for id, b := range r3b {
		if b != nil {
			res.PkShares[id] = b.Pk
		}
	}
	b4i, u4i := routeB[B3, C](n, 3, ids, r3b), routeU[U3, C](n, 3, ids, r3u)
	out, ok := stepAll(n, 4, cs, func(id ID, c C) (*dkls23.PartialSignature[P, B, S], error) {
		return c.Round4(b4i[id], u4i[id], msg)
	})
	if ok {
		res.Partials = out
	}
}

func dklsSoftspoken[P curves.Point[P, B, S], B algebra.PrimeFieldElement[B], S algebra.PrimeFieldElement[S]](n *Net, res *ECDSAResult[P, B, S], suite *ecdsa.Suite[P, B, S], shards map[ID]*dkls23.Shard[P, B, S], ids []ID, ctxs map[ID]*session.Context, msg []byte) {
	type C = *signing_softspoken.Cosigner[P, B, S]
	type U1 = *signing_softspoken.Round1P2P[P, B, S]
	type U2 = *signing_softspoken.Round2P2P[P, B, S]
	type B3 = *signing_softspoken.Round3Broadcast[P, B, S]
	type U3 = *signing_softspoken.Round3P2P[P, B, S]
	type B4 = *signing_softspoken.Round4Broadcast[P, B, S]
	type U4 = *signing_softspoken.Round4P2P[P, B, S]
	cs, ok := construct(n, ids, func(id ID) (C, error) {
		return signing_softspoken.NewCosigner(ctxs[id], suite, shards[id], n.Rng(id))
	})
	if !ok {
		return
	}
	r1, ok := stepAll(n, 1, cs, func(_ ID, c C) (network.OutgoingUnicasts[U1, C], error) { return c.Round1() })
	if !ok {
		return
	}
	u2i := routeU[U1, C](n, 1, ids, r1)
	r2, ok := stepAll(n, 2, cs, func(id ID, c C) (network.OutgoingUnicasts[U2, C], error) { return c.Round2(u2i[id]) })
	if !ok {
		return
	}
	u3i := routeU[U2, C](n, 2, ids, r2)
	r3, ok := stepAll(n, 3, cs, func(id ID, c C) (pair[B3, network.OutgoingUnicasts[U3, C]], error) {
		b, u, err := c.Round3(u3i[id])
		return pair[B3, network.OutgoingUnicasts[U3, C]]{b, u}, err
	})
	if !ok {
		return
	}
	r3b, r3u := splitPairs(r3)
	b4i, u4i := routeB[B3, C](n, 3, ids, r3b), routeU[U3, C](n, 3, ids, r3u)
	r4, ok := stepAll(n, 4, cs, func(id ID, c C) (pair[B4, network.OutgoingUnicasts[U4, C]], error) {
		b, u, err := c.Round4(b4i[id], u4i[id])
		return pair[B4, network.OutgoingUnicasts[U4, C]]{b, u}, err
	})
	if !ok {
		return
	}
	r4b, r4u := splitPairs(r4)
	for id, b := range r4b {
		if b != nil {
			res.NoncePoints[id] = b.BigR
			res.PkShares[id] = b.Pk
		}
	}
	b5i, u5i := routeB[B4, C](n, 4, ids, r4b), routeU[U4, C](n, 4, ids, r4u)
	out, ok := stepAll(n, 5, cs, func(id ID, c C) (*dkls23.PartialSignature[P, B, S], error) {
		return c.Round5(b5i[id], u5i[id], msg)
	})
	if ok {
		res.Partials = out
	}
}

// runDKLs23Runner signs through the packages' NewRunner over routers.
func runDKLs23Runner[P curves.Point[P, B, S], B algebra.PrimeFieldElement[B], S algebra.PrimeFieldElement[S]](variant string, suite *ecdsa.Suite[P, B, S], base map[ID]*mpc.BaseShard[P, S], quorum []ID, ctxs map[ID]*session.Context, msg []byte, rngs map[ID]io.Reader) *ECDSAResult[P, B, S] {
	quorum = sortedIDs(quorum)
	n := newNet("dkls23-"+variant+"-runner", quorum, rngs, nil)
	res := &ECDSAResult[P, B, S]{Net: n}
	shards, err := dklsShards[P, B, S](base, quorum)
	if err != nil {
		for _, id := range quorum {
			n.Status[id] = classify(err)
		}
		n.FailedRound = -1
		return res
	}
	res.PK = shards[quorum[0]].PublicKeyValue()
	runners, ok := construct(n, quorum, func(id ID) (network.Runner[*dkls23.PartialSignature[P, B, S]], error) {
		if variant == "bbot" {
			return signing_bbot.NewRunner(ctxs[id], suite, shards[id], msg, n.Rng(id))
		}
		return signing_softspoken.NewRunner(ctxs[id], suite, shards[id], msg, n.Rng(id))
	})
	if !ok {
		return res
	}
	out := runRunners(n, runners)
	if n.OK() {
		res.Partials = out
		res.aggregate(suite, msg)
	}
	return res
}

// ---------------------------------------------------------------------------------------------
// Lindell22 (threshold Schnorr, all flavours)

// SchnorrResult is the outcome of a Lindell22 run.
type SchnorrResult[GE algebra.PrimeGroupElement[GE, S], S algebra.PrimeFieldElement[S]] struct {
	Net         *Net
	PK          GE
	Partials    map[ID]*lindell22.PartialSignature[GE, S]
	NoncePoints map[ID]GE // broadcast R_i (uncorrected)
	Sig         *schnorrlike.Signature[GE, S]
	SigAlt      *schnorrlike.Signature[GE, S] // from a second, independent aggregator
	AggStatus   string
	VerifyOK    bool // the scheme's own single-party verifier accepted Sig
	// Aggs: every aggregation path over the same partial signatures — for each quorum member the plain
	// aggregator built from that member's own public material ("plain") and, in the round-by-round API
	// where the cosigner is at hand, that member's cosigning (identifiable-abort) aggregator ("cosign").
	Aggs []SchnorrAgg[GE, S]
}

// SchnorrAgg is the outcome of one Lindell22 aggregator instance.
type SchnorrAgg[GE algebra.PrimeGroupElement[GE, S], S algebra.PrimeFieldElement[S]] struct {
	Kind   string // "plain" | "cosign"
	ID     ID     // whose public material / cosigner state
	Sig    *schnorrlike.Signature[GE, S]
	Bytes  []byte // Sig in the variant's canonical serialisation (nil when it cannot be serialised)
	Status string // "ok" or the error class
}

func l22Shards[GE algebra.PrimeGroupElement[GE, S], S algebra.PrimeFieldElement[S]](base map[ID]*mpc.BaseShard[GE, S], quorum []ID) (map[ID]*lindell22.Shard[GE, S], error) {
	out := map[ID]*lindell22.Shard[GE, S]{}
	for _, id := range quorum {
		sh, err := l22keygen.NewShard(base[id])
		if err != nil {
			return nil, err
		}
		out[id] = sh
	}
	return out, nil
}

func l22Aggregate[
	SCH mpcschnorr.MPCFriendlyScheme[VR, GE, S, M, KG, SG, VF],
	VR mpcschnorr.MPCFriendlyVariant[GE, S, M],
	GE algebra.PrimeGroupElement[GE, S], S algebra.PrimeFieldElement[S], M schnorrlike.Message,
	KG schnorrlike.KeyGenerator[GE, S], SG schnorrlike.Signer[VR, GE, S, M], VF schnorrlike.Verifier[VR, GE, S, M],
](res *SchnorrResult[GE, S], mkScheme func(io.Reader) (SCH, error), aggRng io.Reader, shard *lindell22.Shard[GE, S], msg M) {
	cls := "ok"
	func() {
		defer func() {
			if e := recover(); e != nil {
				cls = "panic"
			}
		}()
		for k := range 2 {
			scheme, err := mkScheme(aggRng)
			if err != nil {
				cls = classify(err)
				return
			}
			agg, err := l22signing.NewAggregator(shard.PublicKeyMaterial(), scheme)
			if err != nil {
				cls = classify(err)
				return
			}
			sig, err := agg.Aggregate(hashmap.NewComparableFromNativeLike(res.Partials).Freeze(), msg)
			if err != nil {
				cls = classify(err)
				return
			}
			if k == 0 {
				res.Sig = sig
				vf, err := scheme.Verifier()
				if err != nil {
					cls = classify(err)
					return
				}
				res.VerifyOK = vf.Verify(sig, shard.PublicKey(), msg) == nil
			} else {
				res.SigAlt = sig
			}
		}
	}()
	res.AggStatus = cls
}

// l22AggregateAll runs every aggregation path the package offers over res.Partials (see SchnorrResult.Aggs).
func l22AggregateAll[
	SCH mpcschnorr.MPCFriendlyScheme[VR, GE, S, M, KG, SG, VF],
	VR mpcschnorr.MPCFriendlyVariant[GE, S, M],
	GE algebra.PrimeGroupElement[GE, S], S algebra.PrimeFieldElement[S], M schnorrlike.Message,
	KG schnorrlike.KeyGenerator[GE, S], SG schnorrlike.Signer[VR, GE, S, M], VF schnorrlike.Verifier[VR, GE, S, M],
](res *SchnorrResult[GE, S], mkScheme func(io.Reader) (SCH, error), aggRng io.Reader, shards map[ID]*lindell22.Shard[GE, S], cosigners map[ID]*l22signing.Cosigner[GE, S, M], msg M) {
	if res.Partials == nil {
		return
	}
	one := func(kind string, id ID) {
		out := SchnorrAgg[GE, S]{Kind: kind, ID: id, Status: "ok"}
		func() {
			defer func() {
				if e := recover(); e != nil {
					out.Status = "panic"
				}
			}()
			scheme, err := mkScheme(aggRng)
			if err != nil {
				out.Status = "scheme-" + classify(err)
				return
			}
			var agg *l22signing.Aggregator[VR, GE, S, M]
			if kind == "cosign" {
				agg, err = l22signing.NewCosigningAggregator(cosigners[id], shards[id].PublicKeyMaterial(), scheme)
			} else {
				agg, err = l22signing.NewAggregator(shards[id].PublicKeyMaterial(), scheme)
			}
			if err != nil {
				out.Status = "new-" + classify(err)
				return
			}
			sig, err := agg.Aggregate(hashmap.NewComparableFromNativeLike(res.Partials).Freeze(), msg)
			if err != nil {
				out.Status = classify(err)
				return
			}
			out.Sig = sig
			if b, err := scheme.Variant().SerializeSignature(sig); err == nil {
				out.Bytes = b
			}
		}()
		res.Aggs = append(res.Aggs, out)
	}
	for _, id := range sortedKeys(shards) {
		one("plain", id)
		if cosigners != nil && cosigners[id] != nil {
			one("cosign", id)
		}
	}
}

// runLindell22 signs msg round by round (3 rounds) and aggregates.
func runLindell22[
	SCH mpcschnorr.MPCFriendlyScheme[VR, GE, S, M, KG, SG, VF],
	VR mpcschnorr.MPCFriendlyVariant[GE, S, M],
	GE algebra.PrimeGroupElement[GE, S], S algebra.PrimeFieldElement[S], M schnorrlike.Message,
	KG schnorrlike.KeyGenerator[GE, S], SG schnorrlike.Signer[VR, GE, S, M], VF schnorrlike.Verifier[VR, GE, S, M],
](mkScheme func(io.Reader) (SCH, error), base map[ID]*mpc.BaseShard[GE, S], quorum []ID, ctxs map[ID]*session.Context, msg M, rngs map[ID]io.Reader, aggRng io.Reader, hook Hook, nic compiler.Name) *SchnorrResult[GE, S] {
	type C = *l22signing.Cosigner[GE, S, M]
	type B1 = *l22signing.Round1Broadcast[GE, S, M]
	type U1 = *l22signing.Round1P2P[GE, S, M]
	type B2 = *l22signing.Round2Broadcast[GE, S, M]
	ids := sortedIDs(quorum)
	n := newNet("lindell22", ids, rngs, hook)
	res := &SchnorrResult[GE, S]{Net: n, NoncePoints: map[ID]GE{}}
	n.watchdog(func() {
		shards, err := l22Shards(base, ids)
		if err != nil {
			for _, id := range ids {
				n.Status[id] = classify(err)
			}
			n.FailedRound = -1
			return
		}
		res.PK = shards[ids[0]].PublicKeyValue()
		cs, ok := construct(n, ids, func(id ID) (C, error) {
			scheme, err := mkScheme(n.Rng(id))
			if err != nil {
				return nil, err
			}
			return l22signing.NewCosigner[GE, S, M](ctxs[id], shards[id], nic, scheme.Variant(), n.Rng(id))
		})
		if !ok {
			return
		}
		r1, ok := stepAll(n, 1, cs, func(_ ID, c C) (pair[B1, network.OutgoingUnicasts[U1, C]], error) {
			b, u, err := c.Round1()
			return pair[B1, network.OutgoingUnicasts[U1, C]]{b, u}, err
		})
		if !ok {
			return
		}
		r1b, r1u := splitPairs(r1)
		b2i, u2i := routeB[B1, C](n, 1, ids, r1b), routeU[U1, C](n, 1, ids, r1u)
		r2, ok := stepAll(n, 2, cs, func(id ID, c C) (B2, error) { return c.Round2(b2i[id], u2i[id]) })
		if !ok {
			return
		}
		for id, b := range r2 {
			if b != nil && b.BigR != nil {
				res.NoncePoints[id] = b.BigR.Value()
			}
		}
		b3i := routeB[B2, C](n, 2, ids, r2)
		out, ok := stepAll(n, 3, cs, func(id ID, c C) (*lindell22.PartialSignature[GE, S], error) { return c.Round3(b3i[id], msg) })
		if !ok {
			return
		}
		res.Partials = out
		l22Aggregate(res, mkScheme, aggRng, shards[ids[0]], msg)
		l22AggregateAll(res, mkScheme, aggRng, shards, cs, msg)
	})
	return res
}

// runLindell22Runner signs through signing.NewRunner over routers.
func runLindell22Runner[
	SCH mpcschnorr.MPCFriendlyScheme[VR, GE, S, M, KG, SG, VF],
	VR mpcschnorr.MPCFriendlyVariant[GE, S, M],
	GE algebra.PrimeGroupElement[GE, S], S algebra.PrimeFieldElement[S], M schnorrlike.Message,
	KG schnorrlike.KeyGenerator[GE, S], SG schnorrlike.Signer[VR, GE, S, M], VF schnorrlike.Verifier[VR, GE, S, M],
](mkScheme func(io.Reader) (SCH, error), base map[ID]*mpc.BaseShard[GE, S], quorum []ID, ctxs map[ID]*session.Context, msg M, rngs map[ID]io.Reader, aggRng io.Reader, nic compiler.Name) *SchnorrResult[GE, S] {
	ids := sortedIDs(quorum)
	n := newNet("lindell22-runner", ids, rngs, nil)
	res := &SchnorrResult[GE, S]{Net: n}
	shards, err := l22Shards(base, ids)
	if err != nil {
		for _, id := range ids {
			n.Status[id] = classify(err)
		}
		n.FailedRound = -1
		return res
	}
	res.PK = shards[ids[0]].PublicKeyValue()
	runners, ok := construct(n, ids, func(id ID) (network.Runner[*lindell22.PartialSignature[GE, S]], error) {
		scheme, err := mkScheme(n.Rng(id))
		if err != nil {
			return nil, err
		}
		return l22signing.NewRunner[GE, S, M](ctxs[id], shards[id], nic, scheme.Variant(), msg, n.Rng(id))
	})
	if !ok {
		return res
	}
	out := runRunners(n, runners)
	if n.OK() {
		res.Partials = out
		l22Aggregate(res, mkScheme, aggRng, shards[ids[0]], msg)
		l22AggregateAll[SCH, VR, GE, S, M, KG, SG, VF](res, mkScheme, aggRng, shards, nil, msg)
	}
	return res
}

// ---------------------------------------------------------------------------------------------
// Boldyreva02 threshold BLS on BLS12-381 (short keys: pk ∈ G1, sig ∈ G2; long keys: the converse)

type (
	g1  = *bls12381.PointG1
	g1f = *bls12381.BaseFieldElementG1
	g2  = *bls12381.PointG2
	g2f = *bls12381.BaseFieldElementG2
	gt  = *bls12381.GtElement
	bsc = *bls12381.Scalar
)

// BLSResult is the outcome of a Boldyreva run; PK/Sig are in the groups of the key-size variant.
type BLSResult[PK curves.PairingFriendlyPoint[PK, PKF, SG, SGF, gt, bsc], PKF algebra.FieldElement[PKF], SG curves.PairingFriendlyPoint[SG, SGF, PK, PKF, gt, bsc], SGF algebra.FieldElement[SGF]] struct {
	Net       *Net
	PK        PK
	Partials  map[ID]*boldyreva02.PartialSignature[SG, SGF, PK, PKF, gt, bsc]
	Sig       *bls.Signature[SG, SGF, PK, PKF, gt, bsc]
	SigAlt    *bls.Signature[SG, SGF, PK, PKF, gt, bsc]
	AggStatus string
}

func runBoldyrevaShort(base map[ID]*mpc.BaseShard[g1, bsc], quorum []ID, ctxs map[ID]*session.Context, msg []byte, alg bls.RogueKeyPreventionAlgorithm, hook Hook) *BLSResult[g1, g1f, g2, g2f] {
	type PS = *boldyreva02.PartialSignature[g2, g2f, g1, g1f, gt, bsc]
	type C = *blssigning.Cosigner[g1, g1f, g2, g2f, gt, bsc]
	fam := &bls12381.FamilyTrait{}
	ids := sortedIDs(quorum)
	rngs := map[ID]io.Reader{}
	for _, id := range ids {
		rngs[id] = zeroReader{}
	}
	n := newNet("boldyreva-short", ids, rngs, hook)
	res := &BLSResult[g1, g1f, g2, g2f]{Net: n}
	n.watchdog(func() {
		shards := map[ID]*boldyreva02.Shard[g1, g1f, g2, g2f, gt, bsc]{}
		cs, ok := construct(n, ids, func(id ID) (C, error) {
			sh, err := blskeygen.NewShortKeyShard[g1, g1f, g2, g2f, gt, bsc](base[id])
			if err != nil {
				return nil, err
			}
			shards[id] = sh
			return blssigning.NewShortKeyCosigner(ctxs[id], fam, sh, alg)
		})
		if !ok {
			return
		}
		res.PK = base[ids[0]].PublicKeyValue()
		out, ok := stepAll(n, 1, cs, func(_ ID, c C) (PS, error) { return c.ProducePartialSignature(msg) })
		if !ok {
			return
		}
		res.Partials = out
		in := blsRoute[PS](n, out)
		cls := "ok"
		func() {
			defer func() {
				if e := recover(); e != nil {
					cls = "panic"
				}
			}()
			for k := range 2 {
				agg, err := blssigning.NewShortKeyAggregator(fam, shards[ids[0]].PublicKeyMaterial(), alg)
				if err != nil {
					cls = classify(err)
					return
				}
				sig, err := agg.Aggregate(in, msg)
				if err != nil {
					cls = classify(err)
					return
				}
				if k == 0 {
					res.Sig = sig
				} else {
					res.SigAlt = sig
				}
			}
		}()
		res.AggStatus = cls
	})
	return res
}

func runBoldyrevaLong(base map[ID]*mpc.BaseShard[g2, bsc], quorum []ID, ctxs map[ID]*session.Context, msg []byte, alg bls.RogueKeyPreventionAlgorithm, hook Hook) *BLSResult[g2, g2f, g1, g1f] {
	type PS = *boldyreva02.PartialSignature[g1, g1f, g2, g2f, gt, bsc]
	type C = *blssigning.Cosigner[g2, g2f, g1, g1f, gt, bsc]
	fam := &bls12381.FamilyTrait{}
	ids := sortedIDs(quorum)
	rngs := map[ID]io.Reader{}
	for _, id := range ids {
		rngs[id] = zeroReader{}
	}
	n := newNet("boldyreva-long", ids, rngs, hook)
	res := &BLSResult[g2, g2f, g1, g1f]{Net: n}
	n.watchdog(func() {
		shards := map[ID]*boldyreva02.Shard[g2, g2f, g1, g1f, gt, bsc]{}
		cs, ok := construct(n, ids, func(id ID) (C, error) {
			sh, err := blskeygen.NewLongKeyShard[g2, g2f, g1, g1f, gt, bsc](base[id])
			if err != nil {
				return nil, err
			}
			shards[id] = sh
			return blssigning.NewLongKeyCosigner(ctxs[id], fam, sh, alg)
		})
		if !ok {
			return
		}
		res.PK = base[ids[0]].PublicKeyValue()
		out, ok := stepAll(n, 1, cs, func(_ ID, c C) (PS, error) { return c.ProducePartialSignature(msg) })
		if !ok {
			return
		}
		res.Partials = out
		in := blsRoute[PS](n, out)
		cls := "ok"
		func() {
			defer func() {
				if e := recover(); e != nil {
					cls = "panic"
				}
			}()
			for k := range 2 {
				agg, err := blssigning.NewLongKeyAggregator(fam, shards[ids[0]].PublicKeyMaterial(), alg)
				if err != nil {
					cls = classify(err)
					return
				}
				sig, err := agg.Aggregate(in, msg)
				if err != nil {
					cls = classify(err)
					return
				}
				if k == 0 {
					res.Sig = sig
				} else {
					res.SigAlt = sig
				}
			}
		}()
		res.AggStatus = cls
	})
	return res
}

// blsRoute passes every partial signature through the router (round 1, broadcast to the aggregator).
func blsRoute[PS any](n *Net, out map[ID]PS) ds.Map[ID, PS] {
	in := hashmap.NewComparable[ID, PS]()
	for _, from := range sortedKeys(out) {
		v, drop := n.deliver(1, from, 0, true, out[from])
		if drop {
			continue
		}
		m, ok := decodeAs[PS](v)
		if !ok {
			n.markUndecodable(1, from, 0, true, 0)
			continue
		}
		in.Put(from, m)
	}
	return in.Freeze()
}

type zeroReader struct{}

func (zeroReader) Read(p []byte) (int, error) {
	for i := range p {
		p[i] = 0
	}
	return len(p), nil
}
