package main

import (
	"fmt"
	"strings"

	"github.com/bronlabs/bron-crypto/pkg/base/algebra"
	"github.com/bronlabs/bron-crypto/pkg/base/curves"
	"github.com/bronlabs/bron-crypto/pkg/commitments/indcpacom"
	"github.com/bronlabs/bron-crypto/pkg/encryption/elgamal"
	"github.com/bronlabs/bron-crypto/pkg/proofs/dlog/batch_schnorr"
	"github.com/bronlabs/bron-crypto/pkg/proofs/dlog/schnorr"
	"github.com/bronlabs/bron-crypto/pkg/proofs/elgamal/elcomop"
	"github.com/bronlabs/bron-crypto/pkg/proofs/elgamal/elog"
	"github.com/bronlabs/bron-crypto/pkg/proofs/okamoto"
	"github.com/bronlabs/bron-crypto/pkg/proofs/sigma"
	"github.com/bronlabs/bron-crypto/pkg/proofs/sigma/compose/sigand"
	"github.com/bronlabs/bron-crypto/pkg/proofs/sigma/compose/sigor"
)

func joinSemi(xs []string) string {
	if len(xs) == 0 {
		return "-"
	}
	return strings.Join(xs, ";")
}

func mapStr[T any](xs []T, f func(T) string) []string {
	out := make([]string, len(xs))
	for i, x := range xs {
		out[i] = f(x)
	}
	return out
}

func c08bits(ts []bool) string {
	out := make([]string, len(ts))
	for i, t := range ts {
		if t {
			out[i] = "1"
		} else {
			out[i] = "0"
		}
	}
	return joinComma(out)
}

// maurerLines builds the line renderers of a Maurer-type instance `<kind> <cv> <params>`.
func maurerLines[X sigma.Statement, A sigma.Statement, Z sigma.Response](prefix string, rX func(X) string, rA func(A) string, rZ func(Z) string) (
	line func(op string, x X, a A, e []byte, z Z, extra string) string,
	fl func(rho int, x X, as []A, es [][]byte, zs []Z, ts []bool) string,
	el func(x X, a A, e1 []byte, z1 Z, e2 []byte, z2 Z) string,
) {
	line = func(op string, x X, a A, e []byte, z Z, extra string) string {
		switch op {
		case "verify":
			return fmt.Sprintf("verify %s %s %s %s %s", prefix, rX(x), rA(a), eHex(e), rZ(z))
		case "fs":
			return fmt.Sprintf("fs %s %s %s %s %s %s", prefix, rX(x), rA(a), hexBytes(e), extra, rZ(z))
		case "zk":
			return fmt.Sprintf("zk %s %s %s %s %s %s", prefix, rX(x), rA(a), eHex(e), rZ(z), extra)
		case "sim":
			return fmt.Sprintf("sim %s %s %s %s %s", prefix, rX(x), eHex(e), rA(a), rZ(z))
		}
		return ""
	}
	fl = func(rho int, x X, as []A, es [][]byte, zs []Z, ts []bool) string {
		return fmt.Sprintf("fischlin %s %d %s %s %s %s %s", prefix, rho, rX(x), joinSemi(mapStr(as, rA)),
			joinComma(mapStr(es, eHex)), joinSemi(mapStr(zs, rZ)), c08bits(ts))
	}
	el = func(x X, a A, e1 []byte, z1 Z, e2 []byte, z2 Z) string {
		return fmt.Sprintf("extract %s %s %s %s %s %s %s", prefix, rX(x), rA(a), eHex(e1), rZ(z1), eHex(e2), rZ(z2))
	}
	return line, fl, el
}

func c08Curve[P curves.Point[P, F, S], F algebra.FiniteFieldElement[F], S algebra.PrimeFieldElement[S]](c *Ctx, cv string, curve curves.Curve[P, F, S], stream uint64) {
	r := NewRng(c.Seed, 800+stream)
	sf := curve.ScalarField()
	rounds := 1
	if c.Thorough() {
		rounds = 1 // one round already takes ~15 min of harness time (Fischlin provers); wider mutation, all curves/compilers
	}
	rs := func() S { return scalarFromBig(sf, r.BigBelow(fieldOrder(sf))) }
	// quick tier: the 381-bit curve only runs Schnorr, its OR composition and batch Schnorr
	// (model arithmetic there is ~3x slower); everything in the thorough tier
	full := c.Thorough() || cv != "bls12381g1"
	for round := 0; round < rounds; round++ {
		// ----- Schnorr (base: the generator, or a random base)
		{
			g := curve.Generator()
			if round%2 == 1 {
				g = g.ScalarOp(rs())
			}
			proto, err := schnorr.NewProtocol(g, r)
			if err != nil {
				c.Violation("schnorr.NewProtocol failed")
				return
			}
			w, w2 := rs(), rs()
			type X = *schnorr.Statement[P, S]
			type A = *schnorr.Commitment[P, S]
			type Z = *schnorr.Response[S]
			prefix := fmt.Sprintf("schnorr %s %s", cv, pointStr(g))
			rX := func(x X) string { return pointStr(x.X) }
			rA := func(a A) string { return pointStr(a.A) }
			rZ := func(z Z) string { return scalarHex(z.Z) }
			line, fl, el := maurerLines(prefix, rX, rA, rZ)
			cs := &sigCase[X, *schnorr.Witness[S], A, *schnorr.State[S], Z]{
				tag: "schnorr." + cv, proto: proto, fischlinQuick: true, advFull: true,
				x: schnorr.NewStatement(g.ScalarOp(w)), w: schnorr.NewWitness(w),
				x2: schnorr.NewStatement(g.ScalarOp(w2)), w2: schnorr.NewWitness(w2),
				line: line, fischlinLine: fl, extractLine: el,
				extract: func(x X, a A, es []sigma.ChallengeBytes, zs []Z) (string, bool, error) {
					wit, err := proto.Extract(x, a, es, zs)
					if err != nil {
						return "", false, err
					}
					return scalarHex(wit.W), proto.ValidateStatement(x, wit) == nil, nil
				},
			}
			// cross-protocol replay: the same bytes presented to Schnorr over another base, and to batch
			// Schnorr (k = 2, same base) whose proofs have the same encoding
			{
				g2 := g.ScalarOp(rs())
				if proto2, err := schnorr.NewProtocol(g2, r); err == nil {
					line2, _, _ := maurerLines(fmt.Sprintf("schnorr %s %s", cv, pointStr(g2)), rX, rA, rZ)
					cs.foreign = append(cs.foreign, fsForeign("schnorr-other-base", proto2, cs.x, line2))
				}
				if bproto, err := batch_schnorr.NewProtocol(2, curve, r); err == nil {
					bx := batch_schnorr.NewStatement(g, cs.x.X, cs.x2.X)
					cs.foreign = append(cs.foreign, fsForeign("batch-schnorr", bproto, bx, batchLine[P, F, S](cv, 2)))
				}
			}
			runSigma(c, r, cs)

			// AND^n and OR^n of Schnorr over the same base
			n := 2 + r.IntN(2)
			if full {
				c08And(c, r, cv, prefix, proto, g, n, rs, rX, rA, rZ)
			}
			for b := 0; b < n; b++ {
				c08Or(c, r, cv, prefix, proto, g, n, b, rs, rX, rA, rZ)
			}
		}
		// ----- batch Schnorr
		{
			k := 2 + r.IntN(3)
			proto, err := batch_schnorr.NewProtocol(k, curve, r)
			if err != nil {
				c.Violation("batch_schnorr.NewProtocol failed")
				return
			}
			g := curve.Generator().ScalarOp(rs())
			mk := func() (*batch_schnorr.Statement[P, S], *batch_schnorr.Witness[S]) {
				ws := make([]S, k)
				xs := make([]P, k)
				for i := range ws {
					ws[i] = rs()
					xs[i] = g.ScalarOp(ws[i])
				}
				return batch_schnorr.NewStatement(g, xs...), batch_schnorr.NewWitness(ws...)
			}
			x, w := mk()
			x2, w2 := mk()
			type X = *batch_schnorr.Statement[P, S]
			type A = *batch_schnorr.Commitment[P, S]
			type Z = *batch_schnorr.Response[S]
			cs := &sigCase[X, *batch_schnorr.Witness[S], A, *batch_schnorr.State[S], Z]{
				tag: "batch." + cv, proto: proto, x: x, w: w, x2: x2, w2: w2, fischlinQuick: cv == "k256",
				line: batchLine[P, F, S](cv, k),
				xVariants: func(x X) []namedX[X] {
					var out []namedX[X]
					for i := range x.Xs {
						xs := append([]P{}, x.Xs...)
						xs[i] = xs[i].Op(x.Gen)
						out = append(out, namedX[X]{"component", batch_schnorr.NewStatement(x.Gen, xs...)})
					}
					xs := append([]P{}, x.Xs...)
					xs[0], xs[1] = xs[1], xs[0]
					out = append(out, namedX[X]{"order", batch_schnorr.NewStatement(x.Gen, xs...)})
					out = append(out, namedX[X]{"component", batch_schnorr.NewStatement(x.Gen.Op(x.Gen), x.Xs...)})
					return out
				},
			}
			// the protocol configured for k-1 / k+1 statements (its name does not depend on k)
			for _, dk := range []int{-1, 1} {
				if k+dk < 2 {
					continue
				}
				kind := "fewer"
				if dk > 0 {
					kind = "more"
				}
				if rp, err := batch_schnorr.NewProtocol(k+dk, curve, r); err == nil {
					xs := append([]P{}, x.Xs...)
					ws := append([]S{}, w.Ws...)
					if dk < 0 {
						xs, ws = xs[:k-1], ws[:k-1]
					} else {
						wn := rs()
						xs, ws = append(xs, g.ScalarOp(wn)), append(ws, wn)
					}
					cs.resized = append(cs.resized, resized[X, *batch_schnorr.Witness[S], A, *batch_schnorr.State[S], Z]{
						kind: kind, proto: rp, x: batch_schnorr.NewStatement(g, xs...), w: batch_schnorr.NewWitness(ws...)})
				}
			}
			runSigma(c, r, cs)
		}
		// ----- Okamoto
		if full {
			m := 2 + r.IntN(2)
			gens := make([]P, m)
			for i := range gens {
				gens[i] = curve.Generator().ScalarOp(rs())
			}
			proto, err := okamoto.NewProtocol(gens, r)
			if err != nil {
				c.Violation("okamoto.NewProtocol failed")
				return
			}
			type X = *okamoto.Statement[P, S]
			type A = *okamoto.Commitment[P, S]
			type Z = *okamoto.Response[S]
			mk := func() (X, *okamoto.Witness[S]) {
				ws := make([]S, m)
				acc := curve.OpIdentity()
				for i := range ws {
					ws[i] = rs()
					acc = acc.Op(gens[i].ScalarOp(ws[i]))
				}
				wit, err := okamoto.NewWitness(ws...)
				if err != nil {
					panic(err)
				}
				st, err := okamoto.NewStatement(acc)
				if err != nil {
					panic(err)
				}
				return st, wit
			}
			x, w := mk()
			x2, w2 := mk()
			prefix := fmt.Sprintf("okamoto %s %s", cv, pointsStr(gens))
			rZ := func(z Z) string { return scalarsHex(z.Z.Components()) }
			line, fl, el := maurerLines(prefix, func(x X) string { return pointStr(x.X) }, func(a A) string { return pointStr(a.A) }, rZ)
			cs := &sigCase[X, *okamoto.Witness[S], A, *okamoto.State[S], Z]{
				tag: "okamoto." + cv, proto: proto, x: x, w: w, x2: x2, w2: w2, fischlinQuick: cv == "ed25519",
				line: line, fischlinLine: fl, extractLine: el,
				extract: func(x X, a A, es []sigma.ChallengeBytes, zs []Z) (string, bool, error) {
					wit, err := proto.Extract(x, a, es, zs)
					if err != nil {
						return "", false, err
					}
					return scalarsHex(wit.W.Components()), proto.ValidateStatement(x, wit) == nil, nil
				},
			}
			runSigma(c, r, cs)
		}
		// ----- ElGamal commitment opening and elog (= elcomop AND Schnorr)
		if full {
			sk, err := elgamal.SampleSecretKey(curve, r)
			if err != nil {
				c.Violation("elgamal.SampleSecretKey failed")
				return
			}
			pk := sk.Public()
			key, err := indcpacom.NewCommitmentKey(pk)
			if err != nil {
				c.Violation("indcpacom.NewCommitmentKey failed")
				return
			}
			proto, err := elcomop.NewProtocol(curve, key, r)
			if err != nil {
				c.Violation("elcomop.NewProtocol failed")
				return
			}
			type X = *elcomop.Statement[P, S]
			type A = *elcomop.Commitment[P, S]
			type Z = *elcomop.Response[P, S]
			mk := func(y, lambda S) (X, *elcomop.Witness[P, S]) {
				nonce, err := elgamal.NewNonce(lambda)
				if err != nil {
					panic(err)
				}
				wit, err := indcpacom.NewWitness(nonce)
				if err != nil {
					panic(err)
				}
				pt, err := elgamal.NewPlaintext(curve.Generator().ScalarOp(y))
				if err != nil {
					panic(err)
				}
				msg, err := indcpacom.NewMessage(pt)
				if err != nil {
					panic(err)
				}
				com, err := key.CommitWithWitness(msg, wit)
				if err != nil {
					panic(err)
				}
				w, err := elcomop.NewWitness(msg, wit)
				if err != nil {
					panic(err)
				}
				x, err := elcomop.NewStatement(com)
				if err != nil {
					panic(err)
				}
				return x, w
			}
			y, y2 := rs(), rs()
			x, w := mk(y, rs())
			x2, w2 := mk(y2, rs())
			prefix := fmt.Sprintf("elcomop %s %s,%s", cv, pointStr(pk.Generator()), pointStr(pk.Value()))
			rX := func(x X) string { return pointsStr(x.X.Components()) }
			rA := func(a A) string { return pointsStr(a.A.Components()) }
			rZ := func(z Z) string { m, l := z.Z.Components(); return pointStr(m) + "," + scalarHex(l) }
			line, fl, el := maurerLines(prefix, rX, rA, rZ)
			cs := &sigCase[X, *elcomop.Witness[P, S], A, *elcomop.State[P, S], Z]{
				tag: "elcomop." + cv, proto: proto, x: x, w: w, x2: x2, w2: w2, fischlinQuick: cv == "k256" && c.Seed%2 == 1,
				line: line, fischlinLine: fl, extractLine: el,
				xVariants: func(x X) []namedX[X] {
					var out []namedX[X]
					comps := x.X.Components()
					for i := range comps {
						cc := append([]P{}, comps...)
						cc[i] = cc[i].Op(curve.Generator())
						if st := mkElcomopStatement[P, F, S](cc[0], cc[1]); st != nil {
							out = append(out, namedX[X]{"component", st})
						}
					}
					if st := mkElcomopStatement[P, F, S](comps[1], comps[0]); st != nil {
						out = append(out, namedX[X]{"order", st})
					}
					return out
				},
				extract: func(x X, a A, es []sigma.ChallengeBytes, zs []Z) (string, bool, error) {
					wit, err := proto.Extract(x, a, es, zs)
					if err != nil {
						return "", false, err
					}
					m, l := wit.W.Components()
					return pointStr(m) + "," + scalarHex(l), proto.ValidateStatement(x, wit) == nil, nil
				},
			}
			runSigma(c, r, cs)

			// elog
			h := curve.Generator().ScalarOp(rs())
			eproto, err := elog.NewProtocol(curve, key, h, r)
			if err != nil {
				c.Violation("elog.NewProtocol failed")
				return
			}
			mkE := func(x1 X, w1 *elcomop.Witness[P, S], y S) (*elog.Statement[P, S], *elog.Witness[P, S]) {
				ew, err := elog.NewWitness(w1, schnorr.NewWitness(y))
				if err != nil {
					panic(err)
				}
				ex, err := elog.NewStatement(x1, schnorr.NewStatement(h.ScalarOp(y)))
				if err != nil {
					panic(err)
				}
				return ex, ew
			}
			ex, ew := mkE(x, w, y)
			ex2, ew2 := mkE(x2, w2, y2)
			eprefix := fmt.Sprintf("%s %s,%s,%s", cv, pointStr(pk.Generator()), pointStr(pk.Value()), pointStr(h))
			ecs := &sigCase[*elog.Statement[P, S], *elog.Witness[P, S], *elog.Commitment[P, S], *elog.State[P, S], *elog.Response[P, S]]{
				tag: "elog." + cv, proto: eproto, x: ex, w: ew, x2: ex2, w2: ew2, fischlinQuick: cv == "ed25519" && c.Seed%2 == 0,
				xVariants: func(x *elog.Statement[P, S]) []namedX[*elog.Statement[P, S]] {
					var out []namedX[*elog.Statement[P, S]]
					if st, err := elog.NewStatement(x.X0, ex2.X1); err == nil {
						out = append(out, namedX[*elog.Statement[P, S]]{"component", st})
					}
					if st, err := elog.NewStatement(ex2.X0, x.X1); err == nil {
						out = append(out, namedX[*elog.Statement[P, S]]{"component", st})
					}
					return out
				},
				line: func(op string, x *elog.Statement[P, S], a *elog.Commitment[P, S], e []byte, z *elog.Response[P, S], extra string) string {
					body := fmt.Sprintf("elog %s %s %s %s %s %s %s %s", eprefix, rX(x.X0), pointStr(x.X1.X), rA(a.A0), pointStr(a.A1.A), eHex(e), rZ(z.Z0), scalarHex(z.Z1.Z))
					switch op {
					case "verify", "sim":
						return body
					case "fs":
						return body + " " + hexBytes(e) + " " + extra
					}
					return ""
				},
			}
			runSigma(c, r, ecs)
		}
	}
}

func c08And[P curves.Point[P, F, S], F algebra.FiniteFieldElement[F], S algebra.PrimeFieldElement[S]](
	c *Ctx, r *Rng, cv, prefix string, base *schnorr.Protocol[P, S], g P, n int, rs func() S,
	rX func(*schnorr.Statement[P, S]) string, rA func(*schnorr.Commitment[P, S]) string, rZ func(*schnorr.Response[S]) string,
) {
	proto, err := sigand.Compose(base, uint(n))
	if err != nil {
		c.Violation("sigand.Compose failed")
		return
	}
	mk := func() (sigand.Statement[*schnorr.Statement[P, S]], sigand.Witness[*schnorr.Witness[S]]) {
		xs := make([]*schnorr.Statement[P, S], n)
		ws := make([]*schnorr.Witness[S], n)
		for i := range xs {
			w := rs()
			ws[i] = schnorr.NewWitness(w)
			xs[i] = schnorr.NewStatement(g.ScalarOp(w))
		}
		return xs, ws
	}
	x, w := mk()
	x2, w2 := mk()
	type X = sigand.Statement[*schnorr.Statement[P, S]]
	type A = sigand.Commitment[*schnorr.Commitment[P, S]]
	type Z = sigand.Response[*schnorr.Response[S]]
	cs := &sigCase[X, sigand.Witness[*schnorr.Witness[S]], A, sigand.State[*schnorr.State[S]], Z]{
		tag: fmt.Sprintf("and.%s", cv), proto: proto, x: x, w: w, x2: x2, w2: w2, heavy: true, fischlinQuick: cv == "k256" && c.Seed%3 == 0,
		line: func(op string, x X, a A, e []byte, z Z, extra string) string {
			for i := range x {
				if x[i] == nil {
					return ""
				}
			}
			for i := range a {
				if a[i] == nil {
					return ""
				}
			}
			for i := range z {
				if z[i] == nil {
					return ""
				}
			}
			body := fmt.Sprintf("and %s %d %s %s %s %s", prefix, n, joinSemi(mapStr(x, rX)), joinSemi(mapStr(a, rA)), eHex(e), joinSemi(mapStr(z, rZ)))
			switch op {
			case "verify", "sim", "zk":
				return body
			case "fs":
				return body + " " + hexBytes(e) + " " + extra
			}
			return ""
		},
		xVariants: func(x X) []namedX[X] {
			var out []namedX[X]
			for i := range x {
				v := append(X{}, x...)
				v[i] = x2[i]
				out = append(out, namedX[X]{"component", v})
			}
			v := append(X{}, x...)
			v[0], v[1] = v[1], v[0]
			out = append(out, namedX[X]{"order", v})
			return out
		},
	}
	// the same composition (same name) over n-1 / n+1 branches
	for _, dn := range []int{-1, 1} {
		kind := "fewer"
		if dn > 0 {
			kind = "more"
		}
		rp, err := sigand.ComposeNamed(proto.Name(), base, uint(n+dn))
		if err != nil {
			continue
		}
		xs := append(X{}, x...)
		ws := append(sigand.Witness[*schnorr.Witness[S]]{}, w...)
		if dn < 0 {
			xs, ws = xs[:n-1], ws[:n-1]
		} else {
			wn := rs()
			xs, ws = append(xs, schnorr.NewStatement(g.ScalarOp(wn))), append(ws, schnorr.NewWitness(wn))
		}
		cs.resized = append(cs.resized, resized[X, sigand.Witness[*schnorr.Witness[S]], A, sigand.State[*schnorr.State[S]], Z]{kind: kind, proto: rp, x: xs, w: ws})
	}
	runSigma(c, r, cs)
}

func c08Or[P curves.Point[P, F, S], F algebra.FiniteFieldElement[F], S algebra.PrimeFieldElement[S]](
	c *Ctx, r *Rng, cv, prefix string, base *schnorr.Protocol[P, S], g P, n, real int, rs func() S,
	rX func(*schnorr.Statement[P, S]) string, rA func(*schnorr.Commitment[P, S]) string, rZ func(*schnorr.Response[S]) string,
) {
	proto, err := sigor.Compose(base, uint(n), r)
	if err != nil {
		c.Violation("sigor.Compose failed")
		return
	}
	// exactly one branch (position `real`) has a witness known to the prover
	mk := func() (sigor.Statement[*schnorr.Statement[P, S]], sigor.Witness[*schnorr.Witness[S]]) {
		xs := make([]*schnorr.Statement[P, S], n)
		w := rs()
		for i := range xs {
			if i == real {
				xs[i] = schnorr.NewStatement(g.ScalarOp(w))
			} else {
				xs[i] = schnorr.NewStatement(g.ScalarOp(rs()))
			}
		}
		return xs, sigor.NewWitness(schnorr.NewWitness(w))
	}
	x, w := mk()
	x2, w2 := mk()
	type X = sigor.Statement[*schnorr.Statement[P, S]]
	type A = sigor.Commitment[*schnorr.Commitment[P, S]]
	type Z = *sigor.Response[*schnorr.Response[S]]
	cs := &sigCase[X, sigor.Witness[*schnorr.Witness[S]], A, *sigor.State[*schnorr.State[S], *schnorr.Response[S]], Z]{
		tag: fmt.Sprintf("or.%s.real%d", cv, real), proto: proto, x: x, w: w, x2: x2, w2: w2, heavy: true, fischlinQuick: cv == "k256" && real == int(c.Seed)%n && c.Seed%3 != 0,
		sigmaOnly: real != int(c.Seed)%n,
		line: func(op string, x X, a A, e []byte, z Z, extra string) string {
			if z == nil || len(z.E) != len(z.Z) {
				return ""
			}
			for i, zi := range z.Z {
				if zi == nil || len(z.E[i]) != base.GetChallengeBytesLength() {
					return "" // malformed response: decided by the Go-side oracle only
				}
			}
			for i := range x {
				if x[i] == nil {
					return ""
				}
			}
			for i := range a {
				if a[i] == nil {
					return ""
				}
			}
			body := fmt.Sprintf("or %s %d %s %s %s %s %s", prefix, n, joinSemi(mapStr(x, rX)), joinSemi(mapStr(a, rA)), eHex(e),
				joinComma(mapStr(z.E, eHex)), joinSemi(mapStr(z.Z, rZ)))
			switch op {
			case "verify", "sim", "zk":
				return body
			case "fs":
				return body + " " + hexBytes(e) + " " + extra
			}
			return ""
		},
		xVariants: func(x X) []namedX[X] {
			var out []namedX[X]
			for i := range x {
				v := append(X{}, x...)
				v[i] = x2[(i+1)%n] // a statement of the other instance at another position
				out = append(out, namedX[X]{"component", v})
			}
			v := append(X{}, x...)
			v[0], v[1] = v[1], v[0]
			out = append(out, namedX[X]{"order", v})
			return out
		},
	}
	// the same composition (same name) over n-1 / n+1 branches; the real branch stays inside
	for _, dn := range []int{-1, 1} {
		if n+dn < 2 {
			continue
		}
		kind := "fewer"
		if dn > 0 {
			kind = "more"
		}
		rp, err := sigor.ComposeNamed(proto.Name(), base, uint(n+dn), r)
		if err != nil {
			continue
		}
		xs := append(X{}, x...)
		if dn < 0 {
			if real == n-1 {
				xs = xs[1:]
			} else {
				xs = xs[:n-1]
			}
		} else {
			xs = append(xs, schnorr.NewStatement(g.ScalarOp(rs())))
		}
		cs.resized = append(cs.resized, resized[X, sigor.Witness[*schnorr.Witness[S]], A, *sigor.State[*schnorr.State[S], *schnorr.Response[S]], Z]{kind: kind, proto: rp, x: xs, w: w})
	}
	c.Count(fmt.Sprintf("or.real-position.%d", real))
	runSigma(c, r, cs)
}

// batchLine renders the model lines of batch Schnorr configured for k statements.
func batchLine[P curves.Point[P, F, S], F algebra.FiniteFieldElement[F], S algebra.PrimeFieldElement[S]](cv string, k int) func(op string, x *batch_schnorr.Statement[P, S], a *batch_schnorr.Commitment[P, S], e []byte, z *batch_schnorr.Response[S], extra string) string {
	return func(op string, x *batch_schnorr.Statement[P, S], a *batch_schnorr.Commitment[P, S], e []byte, z *batch_schnorr.Response[S], extra string) string {
		switch op {
		case "verify", "zk":
			return fmt.Sprintf("batch %s %d %s %s %s %s %s", cv, k, pointStr(x.Gen), pointsStr(x.Xs), pointStr(a.A), eHex(e), scalarHex(z.Z))
		case "fs":
			return fmt.Sprintf("batchfs %s %d %s %s %s %s %s %s", cv, k, pointStr(x.Gen), pointsStr(x.Xs), pointStr(a.A), hexBytes(e), extra, scalarHex(z.Z))
		case "sim":
			return fmt.Sprintf("batchsim %s %d %s %s %s %s %s", cv, k, pointStr(x.Gen), pointsStr(x.Xs), eHex(e), pointStr(a.A), scalarHex(z.Z))
		}
		return ""
	}
}

// mkElcomopStatement builds the elcomop statement (c1, c2); nil if the library refuses the pair.
func mkElcomopStatement[P curves.Point[P, F, S], F algebra.FiniteFieldElement[F], S algebra.PrimeFieldElement[S]](c1, c2 P) (st *elcomop.Statement[P, S]) {
	defer func() {
		if recover() != nil {
			st = nil
		}
	}()
	ct, err := elgamal.NewCiphertext(c1, c2)
	if err != nil {
		return nil
	}
	com, err := indcpacom.NewCommitment(ct)
	if err != nil {
		return nil
	}
	st, err = elcomop.NewStatement(com)
	if err != nil {
		return nil
	}
	return st
}
