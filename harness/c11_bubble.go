package main

// Running the router traces needs a reliable way to tell that "every goroutine of this trace is
// blocked" (quiescence), so that each trace is a deterministic, linearised list of steps.
// testing/synctest provides exactly that (synctest.Wait), but only below a *testing.T.  The
// harness is an ordinary binary, so it creates one through testing.MainStart with a minimal
// dependency stub.  Nothing else of package testing is used.

import (
	"io"
	"os"
	"reflect"
	"testing"
	"time"
)

type c11CorpusEntry = struct {
	Parent     string
	Path       string
	Data       []byte
	Values     []any
	Generation int
	IsSeed     bool
}

type c11TestDeps struct{}

func (c11TestDeps) ImportPath() string                          { return "" }
func (c11TestDeps) ModulePath() string                          { return "" }
func (c11TestDeps) MatchString(pat, str string) (bool, error)   { return true, nil }
func (c11TestDeps) SetPanicOnExit0(bool)                        {}
func (c11TestDeps) StartCPUProfile(io.Writer) error             { return nil }
func (c11TestDeps) StopCPUProfile()                             {}
func (c11TestDeps) StartTestLog(io.Writer)                      {}
func (c11TestDeps) StopTestLog() error                          { return nil }
func (c11TestDeps) WriteProfileTo(string, io.Writer, int) error { return nil }
func (c11TestDeps) CoordinateFuzzing(time.Duration, int64, time.Duration, int64, int, []c11CorpusEntry, []reflect.Type, string, string) error {
	return nil
}
func (c11TestDeps) RunFuzzWorker(func(c11CorpusEntry) error) error { return nil }
func (c11TestDeps) ReadCorpus(string, []reflect.Type) ([]c11CorpusEntry, error) {
	return nil, nil
}
func (c11TestDeps) CheckCorpus([]any, []reflect.Type) error { return nil }
func (c11TestDeps) ResetCoverage()                           {}
func (c11TestDeps) SnapshotCoverage()                        {}
func (c11TestDeps) InitRuntimeCoverage() (string, func(string, string) (string, error), func() float64) {
	return "", nil, nil
}

// c11WithT runs f with a real *testing.T (needed by synctest.Test).  Package testing prints
// PASS/FAIL to os.Stdout; the stream's own output goes through Ctx.Out, which holds the original
// descriptor, so os.Stdout is pointed at /dev/null for the duration.
func c11WithT(f func(t *testing.T)) int {
	old := os.Stdout
	null, err := os.OpenFile(os.DevNull, os.O_WRONLY, 0)
	if err == nil {
		os.Stdout = null
		defer func() { os.Stdout = old; null.Close() }()
	}
	savedArgs := os.Args
	os.Args = os.Args[:1] // testing parses flags; the harness arguments are not flags
	defer func() { os.Args = savedArgs }()
	m := testing.MainStart(c11TestDeps{}, []testing.InternalTest{{Name: "c11", F: f}}, nil, nil, nil)
	return m.Run()
}
