package main

import (
	"github.com/bronlabs/bron-crypto/pkg/base/curves/edwards25519"
	"github.com/bronlabs/bron-crypto/pkg/base/curves/k256"
	"github.com/bronlabs/bron-crypto/pkg/base/curves/p256"
	"github.com/bronlabs/bron-crypto/pkg/base/curves/pairable/bls12381"
	"github.com/bronlabs/bron-crypto/pkg/base/curves/pasta"
)

// Instantiated scalar fields used by the generic streams.
var (
	fK256    = k256.NewScalarField()
	fP256    = p256.NewScalarField()
	fEd25519 = edwards25519.NewScalarField()
	fPallas  = pasta.NewPallasScalarField()
	fBLS     = bls12381.NewScalarField()
)
