// c06.go — C06: refresh, recovery and redistribution never change the key.
//
// The stream runs random operation HISTORIES on one key: starting from a trusted-dealer or Gennaro key,
// a sequence of {refresh by adding an HJKY zero sharing, refresh by redistribution to the same
// structure, recover lost shares (redistribute to the same structure from a qualified subset; the
// others are newcomers), redistribute to a new structure / holder set (with and without a trusted
// anchor, round-by-round and through the Runner), sign with a qualified quorum}.
//
// Lines (rhs `ok`; every relation is decided by the Lean driver in model curve arithmetic):
//   C06 step <curve> <kind> <pk0> <oR> <oC> <oLabels> <oM> <oShares> <nR> <nC> <nLabels> <nM> <nV> <nShares> <qsets> <usets> => ok
//        state BEFORE (o…) and AFTER (n…) one operation; pk0 is the ORIGINAL public key of the history.
//        driver: V has one entry per MSP column, V₀ = pk0; lift(share_j) = M_j·V for every holder;
//        every listed qualified set of the CURRENT structure reconstructs (model solveLeft) a secret s
//        with s•G = pk0 and s = the secret reconstructed from the state before; every listed
//        unqualified set fails the span test.
//   C06 redist <curve> <pk0> <oR> <oC> <oLabels> <oM> <oV> <Q> <zR> <zC> <zLabels> <zM> <zeroV>
//              <nR> <nC> <nLabels> <nM> <nV> <senders> <contribVs> <subshares> <nShares> => ok
//        the round-2 messages of one redistribution as seen on the wire: driver evaluates Round3's
//        acceptance conditions in the model (sub-share verifies against the sender's vector, the
//        sender's 0-th commitment is its blinded partial public key computed from the OLD public data
//        with the model's reconstruction coefficients, Σ partial keys = pk0) and the aggregation
//        (V' = Σ contributions, share' = Σ sub-shares, V'₀ = pk0).
//   C06 mix <curve> <pk0> <R> <C> <labels> <M> <sharesA> <sharesB> <S/B|S/B…> => ok
//        two epochs of the SAME structure; for a minimal qualified S and ∅ ≠ B ⊊ S, the holders of B
//        use epoch-B shares and the rest epoch-A shares: driver reconstructs with the model's
//        coefficients and demands a value different from the secret.
//   C06 sign-ecdsa / sign-schnorr …  post-epoch signature, verified by the driver under pk0 (C01 handlers).
// Go-side oracles (!VIOLATION): an honest run fails; parties disagree on the public data; a party's
// public key differs from pk0; feldman Verify / Reconstruct disagree with the secret of the first
// epoch; an unqualified set is accepted; mixed-epoch shares reconstruct the secret or sign validly;
// post-epoch signing fails or the signature does not verify under the ORIGINAL pk (library verifier,
// crypto/ecdsa where applicable); a redistribution in which one previous holder re-shares a wrong
// value is accepted by an honest next holder.

package main

import (
	"fmt"
	"io"
	"slices"
	"strings"

	"github.com/bronlabs/bron-crypto/pkg/base/algebra"
	"github.com/bronlabs/bron-crypto/pkg/base/curves"
	"github.com/bronlabs/bron-crypto/pkg/base/mat"
	"github.com/bronlabs/bron-crypto/pkg/mpc"
	"github.com/bronlabs/bron-crypto/pkg/mpc/redistribute"
	"github.com/bronlabs/bron-crypto/pkg/mpc/sharing/accessstructures"
	"github.com/bronlabs/bron-crypto/pkg/mpc/sharing/accessstructures/unanimity"
	"github.com/bronlabs/bron-crypto/pkg/mpc/sharing/scheme/kw"
	"github.com/bronlabs/bron-crypto/pkg/mpc/sharing/scheme/kw/msp"
	"github.com/bronlabs/bron-crypto/pkg/mpc/sharing/vss/feldman"
)

func init() { register("C06", runC06) }

const c06Prop = "C06"

// c06MaxID: all holder IDs of the stream are ≤ 64 (cnf.InducedMSP panics above; known finding).
const c06MaxID = 64

type c06View struct {
	rows, cols           int
	labels, m, v, shares string
}

type c06Epoch[P curves.Point[P, F, S], F algebra.FiniteFieldElement[F], S algebra.PrimeFieldElement[S]] struct {
	spec   string
	ac     accessstructures.Monotone
	ids    []ID
	shards map[ID]*mpc.BaseShard[P, S]
	view   c06View
	kind   string
}

// c06Signer signs with the given shards and reports whether a signature valid under pk0 came out;
// it emits the driver line for valid signatures of honest (non-mixed) runs.
type c06Signer[P curves.Point[P, F, S], F algebra.FiniteFieldElement[F], S algebra.PrimeFieldElement[S]] func(h *c06Hist[P, F, S], sub uint64, shards map[ID]*mpc.BaseShard[P, S], q []ID, mixed bool) (proto string, valid bool, detail string)

type c06Hist[P curves.Point[P, F, S], F algebra.FiniteFieldElement[F], S algebra.PrimeFieldElement[S]] struct {
	o        *jobOut
	seed     int64
	stream   uint64
	g        c03Group[P, F, S]
	sign     c06Signer[P, F, S]
	r        *Rng
	pk0      P
	secret0  S
	epochs   []*c06Epoch[P, F, S]
	tag      string
	maxSets  int
	sub      uint64 // sub-stream counter for the randomness of the protocol runs
	thorough bool
}

func (h *c06Hist[P, F, S]) nextSub() uint64 {
	h.sub++
	return h.stream*4096 + h.sub*16
}

func (h *c06Hist[P, F, S]) cur() *c06Epoch[P, F, S] { return h.epochs[len(h.epochs)-1] }

// c06RemapSpec renames the holders of spec order-preservingly onto the sorted target IDs.
func c06RemapSpec(spec string, target []ID) string {
	ac := mustAccess(spec)
	src := accessIDs(ac)
	tgt := sortedIDs(target)
	if len(src) != len(tgt) {
		panic("c06RemapSpec: size mismatch")
	}
	m := map[string]string{}
	for i, id := range src {
		m[fmt.Sprint(uint64(id))] = fmt.Sprint(uint64(tgt[i]))
	}
	var b strings.Builder
	i := 0
	for i < len(spec) {
		if spec[i] < '0' || spec[i] > '9' {
			b.WriteByte(spec[i])
			i++
			continue
		}
		j := i
		for j < len(spec) && spec[j] >= '0' && spec[j] <= '9' {
			j++
		}
		word := spec[i:j]
		isID := j == len(spec) || spec[j] == ',' || spec[j] == '|' || spec[j] == ')'
		if isID {
			if w, ok := m[word]; ok {
				word = w
			}
		}
		b.WriteString(word)
		i = j
	}
	return b.String()
}

// c06GenSpec draws a structure of the family over n holders taken from `keep` (old holders that stay)
// and fresh IDs ≤ 64.
// c06SameIDSet: the two ID lists contain the same holders
func c06SameIDSet(a, b []ID) bool {
	if len(a) != len(b) {
		return false
	}
	m := map[ID]bool{}
	for _, x := range a {
		m[x] = true
	}
	for _, x := range b {
		if !m[x] {
			return false
		}
	}
	return true
}

func c06GenSpec(r *Rng, family string, n int, old []ID, keepN int) string {
	for range 200 {
		base := genSpec(r, family, n, true)
		n2 := len(accessIDs(mustAccess(base)))
		var tgt []ID
		seen := map[ID]bool{}
		perm := r.Perm(len(old))
		for _, i := range perm {
			if len(tgt) < keepN && len(tgt) < n2 {
				tgt = append(tgt, old[i])
				seen[old[i]] = true
			}
		}
		for len(tgt) < n2 {
			id := ID(1 + r.IntN(c06MaxID))
			if !seen[id] {
				seen[id] = true
				tgt = append(tgt, id)
			}
		}
		spec := c06RemapSpec(base, tgt)
		if _, err := parseAccess(spec); err != nil {
			continue
		}
		if cnfPowerlessHolder(spec) {
			continue
		}
		return spec
	}
	panic("c06GenSpec: no spec")
}

func mspViewOf[S algebra.PrimeFieldElement[S]](m *msp.MSP[S]) (rows [][]S, labels []ID) {
	mx := m.Matrix()
	r, c := mx.Dimensions()
	rows = make([][]S, r)
	labels = make([]ID, r)
	for i := range r {
		rows[i] = make([]S, c)
		for j := range c {
			rows[i][j], _ = mx.Get(i, j)
		}
		labels[i], _ = m.RowsToHolders().Get(i)
	}
	return rows, labels
}

// viewOf renders the public data and the shares of an epoch and runs the Go-side consistency oracles.
func (h *c06Hist[P, F, S]) viewOf(ep *c06Epoch[P, F, S], what string) bool {
	o := h.o
	var shares []string
	var first ShardView[P, S]
	for i, id := range ep.ids {
		sh := ep.shards[id]
		if sh == nil {
			o.Violation(c06Prop, fmt.Sprintf("missing-shard party=%d after=%s %s", id, what, h.tag))
			return false
		}
		v := shardView(sh)
		if i == 0 {
			first = v
		} else if matHex(v.Rows) != matHex(first.Rows) || idsStr(v.Labels) != idsStr(first.Labels) || pointsStr(v.V) != pointsStr(first.V) {
			o.Violation(c06Prop, fmt.Sprintf("parties-disagree-on-public-data party=%d after=%s %s", id, what, h.tag))
			return false
		}
		if v.ShareID != id {
			o.Violation(c06Prop, fmt.Sprintf("share-id-mismatch party=%d share=%d after=%s %s", id, v.ShareID, what, h.tag))
			return false
		}
		if !v.PK.Equal(h.pk0) {
			o.Violation(c06Prop, fmt.Sprintf("public-key-changed party=%d after=%s pk=%s pk0=%s %s", id, what, pointStr(v.PK), pointStr(h.pk0), h.tag))
		}
		shares = append(shares, shareStr(id, v.Share))
	}
	cols := 0
	if len(first.Rows) > 0 {
		cols = len(first.Rows[0])
	}
	ep.view = c06View{len(first.Rows), cols, idsStr(first.Labels), matHex(first.Rows), pointsStr(first.V), strings.Join(shares, "|")}
	return true
}

func (v c06View) mspStr() string { return fmt.Sprintf("%d %d %s %s", v.rows, v.cols, v.labels, v.m) }

// goOracles: library-side checks of one epoch against the secret of the first epoch.
func (h *c06Hist[P, F, S]) goOracles(ep *c06Epoch[P, F, S], what string, q, u [][]ID) {
	o := h.o
	scheme, err := feldman.NewScheme(h.g.group, ep.ac)
	if err != nil {
		o.Violation(c06Prop, "feldman.NewScheme "+classify(err)+" "+h.tag)
		return
	}
	for _, id := range ep.ids {
		sh := ep.shards[id]
		if r := safely(func() string { return classify(scheme.Verify(sh.Share(), sh.VerificationVector())) }); r != "ok" {
			o.Violation(c06Prop, fmt.Sprintf("new-share-does-not-verify party=%d after=%s %s %s", id, what, r, h.tag))
		}
	}
	for _, set := range q {
		r := safely(func() string {
			var shs []*kw.Share[S]
			for _, id := range set {
				shs = append(shs, ep.shards[id].Share())
			}
			sec, err := scheme.Reconstruct(shs...)
			if err != nil {
				return "reconstruct-" + classify(err)
			}
			if !sec.Value().Equal(h.secret0) {
				return "reconstructs-a-different-secret"
			}
			return "ok"
		})
		if r != "ok" {
			o.Violation(c06Prop, fmt.Sprintf("qualified-set %s %s after=%s %s", idsStr(set), r, what, h.tag))
		}
	}
	for _, set := range u {
		r := safely(func() string {
			var shs []*kw.Share[S]
			for _, id := range set {
				shs = append(shs, ep.shards[id].Share())
			}
			if _, err := scheme.Reconstruct(shs...); err == nil {
				return "accepted"
			}
			return "ok"
		})
		if r != "ok" {
			o.Violation(c06Prop, fmt.Sprintf("unqualified-set %s %s after=%s %s", idsStr(set), r, what, h.tag))
		}
	}
}

// push appends the epoch, emits the step line and runs the oracles. old == nil for the first epoch.
func (h *c06Hist[P, F, S]) push(ep *c06Epoch[P, F, S]) bool {
	if !h.viewOf(ep, ep.kind) {
		return false
	}
	old := ep
	if len(h.epochs) > 0 {
		old = h.cur()
	}
	q, u := qualifiedSets(ep.ac)
	q, u = sampleSets(h.seed, h.nextSub(), q, h.maxSets), sampleSets(h.seed, h.nextSub(), u, h.maxSets)
	h.goOracles(ep, ep.kind, q, u)
	h.o.Emit(c06Prop, fmt.Sprintf("step %s %s %s %s %s %s %s %s %s %s", h.g.name, ep.kind, pointStr(h.pk0),
		old.view.mspStr(), old.view.shares, ep.view.mspStr(), ep.view.v, ep.view.shares, setsStr(q), setsStr(u)), "ok")
	h.o.Count("op." + ep.kind)
	h.o.Count("family." + strings.SplitN(ep.spec, ":", 2)[0])
	h.o.Count(fmt.Sprintf("holders.%d", len(ep.ids)))
	if ep.view.rows > len(ep.ids) {
		h.o.Count("msp.non-ideal")
	}
	h.epochs = append(h.epochs, ep)
	return true
}

func (h *c06Hist[P, F, S]) buildVV(pts []P, m *msp.MSP[S]) (*feldman.VerificationVector[P, S], error) {
	mod, err := mat.NewModuleValuedColumnVectorModule(uint(len(pts)), algebra.FiniteModule[P, S](h.g.group))
	if err != nil {
		return nil, err
	}
	col, err := mod.NewRowMajor(pts...)
	if err != nil {
		return nil, err
	}
	return feldman.NewVerificationVector(col, m)
}

// failed reports a protocol run that did not end ok.
func (h *c06Hist[P, F, S]) failed(what string, n *Net) {
	h.o.Violation(c06Prop, fmt.Sprintf("honest-run-failed op=%s %s status=%s %s", what, h.tag, n.StatusStr(), n.statusSummary()))
}

// ---------------------------------------------------------------------------------------------
// operations

// opRefreshHJKY: every holder adds its share of a jointly generated sharing of zero.
func (h *c06Hist[P, F, S]) opRefreshHJKY() bool {
	cur := h.cur()
	sub := h.nextSub()
	ctxs := dealerContexts(cur.ids, NewRng(h.seed, sub+1))
	res := runHJKY(h.g.group, cur.ac, ctxs, partyRngs(h.seed, sub+2, cur.ids), nil)
	if !res.Net.OK() {
		h.failed("refresh-hjky", res.Net)
		return false
	}
	ep := &c06Epoch[P, F, S]{spec: cur.spec, ac: cur.ac, ids: cur.ids, shards: map[ID]*mpc.BaseShard[P, S]{}, kind: "refresh-hjky"}
	for _, id := range cur.ids {
		old := cur.shards[id]
		zs, zv := res.Shares[id], res.VV[id]
		if zs == nil || len(zv) == 0 {
			h.o.Violation(c06Prop, fmt.Sprintf("zero-sharing-missing-output party=%d %s", id, h.tag))
			return false
		}
		if !zv[0].IsOpIdentity() {
			h.o.Violation(c06Prop, fmt.Sprintf("zero-sharing-public-value-not-identity party=%d %s", id, h.tag))
		}
		r := safely(func() string {
			zvv, err := h.buildVV(zv, old.MSP())
			if err != nil {
				return "zero-vv-" + classify(err)
			}
			nv, err := old.VerificationVector().Op(zvv)
			if err != nil {
				return "vv-op-" + classify(err)
			}
			sh, err := mpc.NewBaseShard(old.Share().Add(zs), nv, old.MSP())
			if err != nil {
				return "new-base-shard-" + classify(err)
			}
			ep.shards[id] = sh
			return "ok"
		})
		if r != "ok" {
			h.o.Violation(c06Prop, fmt.Sprintf("refreshed-shard-rejected party=%d %s %s", id, r, h.tag))
			return false
		}
	}
	return h.push(ep)
}

// c06Rec records the round-2 messages of a redistribution.
type c06Rec[P curves.Point[P, F, S], F algebra.FiniteFieldElement[F], S algebra.PrimeFieldElement[S]] struct {
	contribV map[ID][]P
	zeroV    map[ID][]P
	sub      map[ID]map[ID][]S
}

func (rec *c06Rec[P, F, S]) OnMessage(_ string, round int, from, to ID, _ bool, msg any) (any, bool) {
	if round != 2 {
		return msg, false
	}
	switch m := msg.(type) {
	case *redistribute.Round2Broadcast[P, S]:
		if m != nil && m.NextVerificationVectorContribution != nil {
			rec.contribV[from] = vvPoints[P](m.NextVerificationVectorContribution.Value())
		}
		if m != nil && m.ZeroVerificationVector != nil {
			rec.zeroV[from] = vvPoints[P](m.ZeroVerificationVector.Value())
		}
	case *redistribute.Round2P2P[P, S]:
		if m != nil && m.NextShareContribution != nil {
			if rec.sub[from] == nil {
				rec.sub[from] = map[ID][]S{}
			}
			rec.sub[from][to] = slices.Clone(m.NextShareContribution.Value())
		}
	}
	return msg, false
}

// opRedistribute runs one redistribution from the qualified set Q of current holders to nextSpec.
func (h *c06Hist[P, F, S]) opRedistribute(kind string, Q []ID, nextSpec string, anchor bool, runner bool) bool {
	cur := h.cur()
	nextAC, err := parseAccess(nextSpec)
	if err != nil {
		h.o.Note("rejected spec " + nextSpec)
		return true
	}
	nextIDs := accessIDs(nextAC)
	Q = sortedIDs(Q)
	all := sortedIDs(idSet(append(append([]ID{}, Q...), nextIDs...)...).List())
	sub := h.nextSub()
	ctxs := dealerContexts(all, NewRng(h.seed, sub+1))
	rngs := partyRngs(h.seed, sub+2, all)
	prev := map[ID]*mpc.BaseShard[P, S]{}
	for _, id := range Q {
		prev[id] = cur.shards[id]
	}
	var opts []redistribute.Option
	what := kind
	if anchor {
		a := Q[h.r.IntN(len(Q))]
		opts = append(opts, redistribute.WithTrustedAnchorID(a))
		what += "+anchor"
		h.o.Count("redistribute.with-anchor")
	} else {
		h.o.Count("redistribute.without-anchor")
	}
	newcomers := 0
	for _, id := range nextIDs {
		if !slices.Contains(Q, id) {
			newcomers++
		}
	}
	h.o.Count(fmt.Sprintf("redistribute.newcomers.%d", min(newcomers, 3)))
	h.tag += fmt.Sprintf(" [%s Q=%s -> %s]", what, idsStr(Q), nextSpec)
	var res *DKGResult[P, S]
	rec := &c06Rec[P, F, S]{contribV: map[ID][]P{}, zeroV: map[ID][]P{}, sub: map[ID]map[ID][]S{}}
	if runner {
		res = runRedistributeRunner(Q, prev, nextAC, ctxs, rngs, opts...)
		h.o.Count("redistribute.runner")
	} else {
		res = runRedistribute(Q, prev, nextAC, ctxs, rngs, rec, opts...)
	}
	if !res.Net.OK() || res.Shards == nil {
		h.failed(what, res.Net)
		return false
	}
	ep := &c06Epoch[P, F, S]{spec: nextSpec, ac: nextAC, ids: nextIDs, shards: res.Shards, kind: kind}
	for id := range res.Shards {
		if !slices.Contains(nextIDs, id) {
			h.o.Violation(c06Prop, fmt.Sprintf("shard-for-non-holder party=%d %s", id, h.tag))
		}
	}
	if !h.push(ep) {
		return false
	}
	if !runner {
		h.emitRedist(cur, ep, Q, rec)
	}
	return true
}

func (h *c06Hist[P, F, S]) emitRedist(old, ep *c06Epoch[P, F, S], Q []ID, rec *c06Rec[P, F, S]) {
	o := h.o
	un, err := unanimity.NewUnanimityAccessStructure(idSet(Q...))
	if err != nil {
		o.Violation(c06Prop, "unanimity "+classify(err)+" "+h.tag)
		return
	}
	zs, err := feldman.NewScheme(h.g.group, un)
	if err != nil {
		o.Violation(c06Prop, "zero scheme "+classify(err)+" "+h.tag)
		return
	}
	zRows, zLabels := mspViewOf(zs.MSP())
	zc := 0
	if len(zRows) > 0 {
		zc = len(zRows[0])
	}
	var zeroV []P
	var contribs, subs []string
	for i, id := range Q {
		zv, ok := rec.zeroV[id]
		cv, ok2 := rec.contribV[id]
		if !ok || !ok2 {
			o.Violation(c06Prop, fmt.Sprintf("round2-broadcast-missing sender=%d %s", id, h.tag))
			return
		}
		if i == 0 {
			zeroV = zv
		} else if pointsStr(zv) != pointsStr(zeroV) {
			o.Violation(c06Prop, fmt.Sprintf("previous-holders-disagree-on-zero-vector sender=%d %s", id, h.tag))
			return
		}
		contribs = append(contribs, pointsStr(cv))
		var per []string
		for _, to := range sortedKeys(rec.sub[id]) {
			per = append(per, shareStr(to, rec.sub[id][to]))
		}
		if len(per) == 0 {
			per = []string{"-"}
		}
		subs = append(subs, strings.Join(per, ";"))
	}
	o.Emit(c06Prop, fmt.Sprintf("redist %s %s %s %s %s %d %d %s %s %s %s %s %s %s %s %s", h.g.name, pointStr(h.pk0),
		old.view.mspStr(), old.view.v, idsStr(Q), len(zRows), zc, idsStr(zLabels), matHex(zRows), pointsStr(zeroV),
		ep.view.mspStr(), ep.view.v, idsStr(Q), strings.Join(contribs, "|"), strings.Join(subs, "|"), ep.view.shares), "ok")
	o.Count("redist.lines")
}

// tamperHook: the previous holder `bad` re-shares a wrong value consistently (a fresh dealing of a
// random secret under the next structure): every per-sub-share verification passes, only the
// partial-public-key / old-pk checks can notice.
type c06Tamper[P curves.Point[P, F, S], F algebra.FiniteFieldElement[F], S algebra.PrimeFieldElement[S]] struct {
	bad    ID
	vv     *feldman.VerificationVector[P, S]
	shares map[ID]*kw.Share[S]
	hits   int
}

func (t *c06Tamper[P, F, S]) OnMessage(_ string, round int, from, to ID, _ bool, msg any) (any, bool) {
	if round != 2 || from != t.bad {
		return msg, false
	}
	switch m := msg.(type) {
	case *redistribute.Round2Broadcast[P, S]:
		if m == nil || m.NextVerificationVectorContribution == nil {
			return msg, false
		}
		c := *m
		c.NextVerificationVectorContribution = t.vv
		t.hits++
		return &c, false
	case *redistribute.Round2P2P[P, S]:
		if sh, ok := t.shares[to]; ok && m != nil {
			t.hits++
			return &redistribute.Round2P2P[P, S]{NextShareContribution: sh}, false
		}
	}
	return msg, false
}

// opTamper: a side run (not adopted) of a redistribution with one cheating previous holder.
func (h *c06Hist[P, F, S]) opTamper(Q []ID, nextSpec string, anchor bool) {
	cur := h.cur()
	nextAC, err := parseAccess(nextSpec)
	if err != nil {
		return
	}
	nextIDs := accessIDs(nextAC)
	Q = sortedIDs(Q)
	all := sortedIDs(idSet(append(append([]ID{}, Q...), nextIDs...)...).List())
	sub := h.nextSub()
	ctxs := dealerContexts(all, NewRng(h.seed, sub+1))
	rngs := partyRngs(h.seed, sub+2, all)
	prev := map[ID]*mpc.BaseShard[P, S]{}
	for _, id := range Q {
		prev[id] = cur.shards[id]
	}
	bad := Q[h.r.IntN(len(Q))]
	var opts []redistribute.Option
	if anchor {
		// the anchor is an honest previous holder when there is one
		a := bad
		for _, id := range Q {
			if id != bad {
				a = id
			}
		}
		opts = append(opts, redistribute.WithTrustedAnchorID(a))
	}
	scheme, err := feldman.NewScheme(h.g.group, nextAC)
	if err != nil {
		return
	}
	out, _, err := scheme.DealRandom(NewRng(h.seed, sub+3))
	if err != nil {
		return
	}
	t := &c06Tamper[P, F, S]{bad: bad, vv: out.VerificationMaterial(), shares: map[ID]*kw.Share[S]{}}
	for id, sh := range out.Shares().Iter() {
		t.shares[id] = sh
	}
	res := runRedistribute(Q, prev, nextAC, ctxs, rngs, t, opts...)
	if t.hits == 0 {
		h.o.Note("tamper: no message replaced")
		return
	}
	h.o.Count("tamper.runs")
	if anchor {
		h.o.Count("tamper.with-anchor")
	}
	if len(res.Net.RoundStatus) < 4 { // constructor + 3 rounds
		h.o.Violation(c06Prop, fmt.Sprintf("tampered-redistribution-stopped-early bad=%d Q=%s next=%s %s status=%s", bad, idsStr(Q), nextSpec, h.tag, res.Net.StatusStr()))
		return
	}
	r3 := res.Net.RoundStatus[3]
	for _, id := range nextIDs {
		if id == bad {
			continue
		}
		if r3[id] == "ok" {
			h.o.Violation(c06Prop, fmt.Sprintf("tampered-redistribution-accepted party=%d bad=%d anchor=%v Q=%s next=%s %s", id, bad, anchor, idsStr(Q), nextSpec, h.tag))
		} else {
			h.o.Count("tamper.rejected." + strings.SplitN(r3[id], ":", 2)[0])
		}
	}
}

// sameMSP finds earlier epochs whose MSP (matrix and labels) equals the current one.
func (h *c06Hist[P, F, S]) sameMSP() []*c06Epoch[P, F, S] {
	cur := h.cur()
	var out []*c06Epoch[P, F, S]
	for _, e := range h.epochs[:len(h.epochs)-1] {
		if e.view.mspStr() == cur.view.mspStr() && idsStr(e.ids) == idsStr(cur.ids) {
			out = append(out, e)
		}
	}
	return out
}

// mixPairs: minimal qualified sets S with a non-empty proper subset B.
func (h *c06Hist[P, F, S]) mixPairs(ac accessstructures.Monotone, max int) (ss, bs [][]ID) {
	mins := minimalQualifiedSets(ac)
	h.r.Shuffle(len(mins), func(i, j int) { mins[i], mins[j] = mins[j], mins[i] })
	for _, s := range mins {
		if len(s) < 2 || len(ss) >= max {
			continue
		}
		mask := 1 + h.r.IntN(1<<len(s)-2)
		var b []ID
		for i, id := range s {
			if mask>>i&1 == 1 {
				b = append(b, id)
			}
		}
		ss, bs = append(ss, s), append(bs, b)
	}
	return ss, bs
}

// opMix: shares of two epochs of the same structure must not combine into the secret.
func (h *c06Hist[P, F, S]) opMix(a *c06Epoch[P, F, S]) {
	b := h.cur()
	ss, bs := h.mixPairs(b.ac, 6)
	if len(ss) == 0 {
		h.o.Count("mix.no-minimal-set-with-two-holders")
		return
	}
	scheme, err := feldman.NewScheme(h.g.group, b.ac)
	if err != nil {
		return
	}
	var pairs []string
	for i, s := range ss {
		r := safely(func() string {
			var shs []*kw.Share[S]
			for _, id := range s {
				if slices.Contains(bs[i], id) {
					shs = append(shs, b.shards[id].Share())
				} else {
					shs = append(shs, a.shards[id].Share())
				}
			}
			sec, err := scheme.Reconstruct(shs...)
			if err != nil {
				return "ok"
			}
			if sec.Value().Equal(h.secret0) {
				return "reconstructs-the-secret"
			}
			return "ok"
		})
		if r != "ok" {
			h.o.Violation(c06Prop, fmt.Sprintf("mixed-epoch-shares S=%s B=%s %s %s", idsStr(s), idsStr(bs[i]), r, h.tag))
		}
		pairs = append(pairs, idsStr(s)+"/"+idsStr(bs[i]))
	}
	h.o.Emit(c06Prop, fmt.Sprintf("mix %s %s %s %s %s %s", h.g.name, pointStr(h.pk0), b.view.mspStr(), a.view.shares, b.view.shares, strings.Join(pairs, "|")), "ok")
	h.o.Count("mix.lines")
}

// opSign: post-epoch signing with a qualified quorum of the current structure.
func (h *c06Hist[P, F, S]) opSign() {
	cur := h.cur()
	q := c01Quorum(h.r, cur.ac, h.r.IntN(3))
	if len(q) < 2 {
		h.o.Count("sign.skipped-single-holder-quorum")
		return
	}
	if len(q) > 3 {
		q = c01Quorum(h.r, cur.ac, 0)
		if len(q) < 2 {
			return
		}
	}
	proto, valid, detail := h.sign(h, h.nextSub(), cur.shards, q, false)
	if !valid {
		h.o.Violation(c06Prop, fmt.Sprintf("post-epoch-signing-failed proto=%s quorum=%s epoch=%d %s %s", proto, idsStr(q), len(h.epochs)-1, detail, h.tag))
		return
	}
	h.o.Count("sign." + proto)
	h.o.Count(fmt.Sprintf("sign.after-epoch.%d", min(len(h.epochs)-1, 8)))
}

// opMixedSign: a minimal quorum in which some holders still use the shard of an earlier epoch.
func (h *c06Hist[P, F, S]) opMixedSign(a *c06Epoch[P, F, S]) {
	b := h.cur()
	ss, bs := h.mixPairs(b.ac, 1)
	if len(ss) == 0 {
		return
	}
	shards := map[ID]*mpc.BaseShard[P, S]{}
	for _, id := range ss[0] {
		if slices.Contains(bs[0], id) {
			shards[id] = b.shards[id]
		} else {
			shards[id] = a.shards[id]
		}
	}
	proto, valid, _ := h.sign(h, h.nextSub(), shards, ss[0], true)
	if valid {
		h.o.Violation(c06Prop, fmt.Sprintf("mixed-epoch-signature-valid proto=%s S=%s B=%s %s", proto, idsStr(ss[0]), idsStr(bs[0]), h.tag))
		return
	}
	h.o.Count("mixed-sign." + proto)
}

// ---------------------------------------------------------------------------------------------

// qualifiedProperSubset picks a qualified set of current holders that misses at least one holder.
func (h *c06Hist[P, F, S]) qualifiedProperSubset(ac accessstructures.Monotone) []ID {
	q, _ := qualifiedSets(ac)
	n := len(accessIDs(ac))
	var proper [][]ID
	for _, s := range q {
		if len(s) < n {
			proper = append(proper, s)
		}
	}
	if len(proper) == 0 {
		return nil
	}
	return proper[h.r.IntN(len(proper))]
}

func (h *c06Hist[P, F, S]) anyQualified(ac accessstructures.Monotone) []ID {
	q, _ := qualifiedSets(ac)
	return q[h.r.IntN(len(q))]
}

func c06History[P curves.Point[P, F, S], F algebra.FiniteFieldElement[F], S algebra.PrimeFieldElement[S]](o *jobOut, seed int64, stream uint64, g c03Group[P, F, S], sign c06Signer[P, F, S], length int, thorough bool) {
	h := &c06Hist[P, F, S]{o: o, seed: seed, stream: stream, g: g, sign: sign, r: NewRng(seed, 6000+stream), maxSets: 32, thorough: thorough}
	r := h.r
	maxN := 4
	if thorough {
		maxN = 5
	}
	newSpec := func(old []ID, keep int) string {
		fam := accessFamilies[r.IntN(len(accessFamilies))]
		n := 2 + r.IntN(maxN-1)
		if (fam == "bool" || fam == "hier") && n < 3 {
			n = 3
		}
		return c06GenSpec(r, fam, n, old, keep)
	}
	spec := newSpec(nil, 0)
	keygen := []string{"dealer", "gennaro"}[r.IntN(2)]
	h.tag = fmt.Sprintf("curve=%s seed=%d/%d keygen=%s spec0=%s", g.name, seed, stream, keygen, spec)
	ac := mustAccess(spec)
	ids := accessIDs(ac)
	var res *DKGResult[P, S]
	sub := h.nextSub()
	if keygen == "dealer" {
		res = runTrustedDealer(g.group, ac, NewRng(seed, sub+1))
	} else {
		res = runGennaro(g.group, ac, dealerContexts(ids, NewRng(seed, sub+1)), partyRngs(seed, sub+2, ids), nil, defaultCompiler)
	}
	if !res.Net.OK() || res.Shards == nil {
		if res.Net.Refused() {
			o.Note("keygen refused " + h.tag)
			o.Count("keygen-refused")
			return
		}
		h.failed("keygen-"+keygen, res.Net)
		return
	}
	ep := &c06Epoch[P, F, S]{spec: spec, ac: ac, ids: ids, shards: res.Shards, kind: "init-" + keygen}
	if ep.shards[ids[0]] == nil {
		o.Violation(c06Prop, "missing-shard after keygen "+h.tag)
		return
	}
	h.pk0 = ep.shards[ids[0]].PublicKeyValue()
	// the secret of the first epoch (library reconstruction over all holders)
	scheme, err := feldman.NewScheme(g.group, ac)
	if err != nil {
		o.Violation(c06Prop, "feldman.NewScheme "+classify(err)+" "+h.tag)
		return
	}
	var shs []*kw.Share[S]
	for _, id := range ids {
		if ep.shards[id] == nil {
			o.Violation(c06Prop, fmt.Sprintf("missing-shard party=%d after keygen %s", id, h.tag))
			return
		}
		shs = append(shs, ep.shards[id].Share())
	}
	sec, err := scheme.Reconstruct(shs...)
	if err != nil {
		o.Violation(c06Prop, "initial-reconstruct "+classify(err)+" "+h.tag)
		return
	}
	h.secret0 = sec.Value()
	if !g.group.Generator().ScalarOp(h.secret0).Equal(h.pk0) {
		o.Violation(c06Prop, "initial-secret-is-not-dlog-pk "+h.tag)
		return
	}
	if !h.push(ep) {
		return
	}
	o.Count("history.start." + keygen)
	o.Count("curve." + g.name)
	signed := false
	for step := 1; step <= length; step++ {
		cur := h.cur()
		nEpochs := len(h.epochs)
		sameStructure := false
		switch k := r.IntN(100); {
		case k < 14:
			if !h.opRefreshHJKY() {
				return
			}
			sameStructure = true
		case k < 26:
			Q := cur.ids
			if r.IntN(3) == 0 {
				Q = h.anyQualified(cur.ac)
			}
			if !h.opRedistribute("refresh-redistribute", Q, cur.spec, r.IntN(2) == 0, r.IntN(4) == 0) {
				return
			}
			sameStructure = true
		case k < 46:
			Q := h.qualifiedProperSubset(cur.ac)
			if Q == nil {
				o.Count("recover.no-proper-qualified-subset")
				Q = cur.ids
			}
			anchor := r.IntN(2) == 0
			if r.IntN(3) == 0 {
				h.opTamper(Q, cur.spec, anchor)
			}
			if !h.opRedistribute("recover", Q, cur.spec, anchor, r.IntN(4) == 0) {
				return
			}
			sameStructure = true
		case k < 80:
			next := ""
			if r.IntN(3) == 0 {
				// another structure over exactly the same holder set (tighten / loosen / change family in place)
				for range 20 {
					fam := accessFamilies[r.IntN(len(accessFamilies))]
					n := len(cur.ids)
					if (fam == "bool" || fam == "hier") && n < 3 {
						continue
					}
					cand := c06GenSpec(r, fam, n, cur.ids, n)
					if cand != cur.spec && c06SameIDSet(accessIDs(mustAccess(cand)), cur.ids) {
						next = cand
						o.Count("redistribute.same-holders-other-structure")
						break
					}
				}
			}
			if next == "" {
				next = newSpec(cur.ids, r.IntN(len(cur.ids)+1))
			}
			Q := h.anyQualified(cur.ac)
			anchor := r.IntN(2) == 0
			if r.IntN(3) == 0 {
				h.opTamper(Q, next, anchor)
			}
			if !h.opRedistribute("redistribute", Q, next, anchor, r.IntN(4) == 0) {
				return
			}
		default:
			h.opSign()
			signed = true
		}
		if len(h.epochs) > nEpochs && sameStructure {
			same := h.sameMSP()
			if len(same) > 0 {
				a := same[len(same)-1]
				h.opMix(a)
				if len(same) > 1 && r.IntN(2) == 0 {
					h.opMix(same[r.IntN(len(same)-1)])
					o.Count("mix.non-adjacent-epochs")
				}
				if r.IntN(3) == 0 {
					h.opMixedSign(a)
				}
			}
		}
	}
	if !signed || r.IntN(2) == 0 {
		h.opSign()
	}
	o.Count(fmt.Sprintf("history.epochs.%d", min(len(h.epochs)-1, 16)))
}

var _ io.Reader = (*Rng)(nil)

func runC06(c *Ctx) {
	type job = func(*jobOut)
	var jobs []job
	r := NewRng(c.Seed, 6000)
	stream := uint64(1)
	k := c03Group[*k256Point, *k256Base, *k256Scalar]{"k256", cK256}
	ed := c03Group[*edPoint, *edBase, *edScalar]{"ed25519", cEd25519}
	bl := c03Group[g1, g1f, bsc]{"bls12381g1", cBLSG1}
	nK, nEd, nBl, maxLen := 7, 3, 2, 6
	if c.Thorough() {
		nK, nEd, nBl, maxLen = 40, 14, 10, 16
	}
	length := func() int { return 2 + r.IntN(maxLen-1) }
	for range nK {
		s, l := stream, length()
		jobs = append(jobs, func(o *jobOut) { c06History(o, c.Seed, s, k, c06SignK256, l, c.Thorough()) })
		stream++
	}
	for range nEd {
		s, l := stream, length()
		jobs = append(jobs, func(o *jobOut) { c06History(o, c.Seed, s, ed, c06SignEd25519, l, c.Thorough()) })
		stream++
	}
	for range nBl {
		s, l := stream, length()
		jobs = append(jobs, func(o *jobOut) { c06History(o, c.Seed, s, bl, c06SignBLS, l, c.Thorough()) })
		stream++
	}
	runJobs(c, 12, jobs)
}
