//go:build verif

package main

// C09, second part of the pkg/ot/bits.go stream: the byte-level operations (Get / Set / Clear / Swap),
// Repeat at boundary sizes (empty input, 0 repetitions, long runs crossing several bytes) and
// TransposePackedBits on every shape class (slow path, 64x64 path, multi-block, and the shapes the
// function must refuse: no rows, row count not a multiple of 8, ragged, 64 rows without columns).
// The Lean side decides each line on Model/PackedBits.lean (theorems: Props/C09Bits.lean).

import (
	"fmt"
	"strings"

	"github.com/bronlabs/bron-crypto/pkg/ot"
)

// matrixStr renders a byte matrix so that empty rows and the empty matrix stay distinguishable:
// "<nrows>:<row>,<row>,…" with "-" for an empty row.
func c09MatrixStr(m [][]byte) string {
	rows := make([]string, len(m))
	for i, r := range m {
		rows[i] = hexBytes(r)
	}
	return fmt.Sprintf("%d:%s", len(m), strings.Join(rows, ","))
}

func c09BitsBytes(c *Ctx) {
	r := NewRng(c.Seed, 9012)
	n := 120
	if c.Thorough() {
		n = 3000
	}
	pickIdx := func(nbits int) uint {
		switch r.IntN(4) {
		case 0:
			return 0
		case 1:
			return uint(nbits - 1)
		case 2:
			return uint(8*r.IntN(nbits/8) + 7*r.IntN(2)) // first / last bit of a byte
		default:
			return uint(r.IntN(nbits))
		}
	}
	for it := 0; it < n; it++ {
		k := 1 + r.IntN(9)
		if r.IntN(8) == 0 {
			k = 32 + r.IntN(40)
		}
		p := make([]byte, k)
		switch r.IntN(4) {
		case 0:
			_, _ = r.Read(p)
		case 1: // all ones
			for i := range p {
				p[i] = 0xff
			}
		case 2: // all zeros
		default:
			_, _ = r.Read(p)
			p[r.IntN(k)] = 0x80
		}
		i := pickIdx(8 * k)
		j := pickIdx(8 * k)
		switch r.IntN(6) {
		case 0:
			j = i // swap with itself
		case 1:
			j = (i/8)*8 + uint(r.IntN(8)) // same byte
		}
		switch r.IntN(4) {
		case 0:
			c.Count("bits.get")
			c.Emit(fmt.Sprintf("bitsget %s %d", hexBytes(p), i), safely(func() string {
				return fmt.Sprintf("%d", ot.PackedBits(p).Get(i))
			}))
		case 1:
			c.Count("bits.set")
			c.Emit(fmt.Sprintf("bitsset %s %d", hexBytes(p), i), safely(func() string {
				q := append([]byte{}, p...)
				ot.PackedBits(q).Set(i)
				return hexBytes(q)
			}))
		case 2:
			c.Count("bits.clear")
			c.Emit(fmt.Sprintf("bitsclear %s %d", hexBytes(p), i), safely(func() string {
				q := append([]byte{}, p...)
				ot.PackedBits(q).Clear(i)
				return hexBytes(q)
			}))
		default:
			c.Count(fmt.Sprintf("bits.swap.samebyte=%v", i/8 == j/8))
			c.Emit(fmt.Sprintf("bitsswap %s %d %d", hexBytes(p), i, j), safely(func() string {
				q := append([]byte{}, p...)
				ot.PackedBits(q).Swap(i, j)
				return hexBytes(q)
			}))
		}
	}

	// Repeat at boundary sizes
	type rp struct{ k, rep int }
	reps := []rp{{0, 3}, {0, 0}, {1, 0}, {3, 0}, {1, 1}, {1, 7}, {1, 8}, {1, 9}, {2, 13}, {5, 16}, {7, 3}, {16, 5}, {33, 2}, {64, 3}}
	extra := 10
	if c.Thorough() {
		extra = 300
	}
	for e := 0; e < extra; e++ {
		reps = append(reps, rp{1 + r.IntN(24), 1 + r.IntN(20)})
	}
	for _, q := range reps {
		p := make([]byte, q.k)
		_, _ = r.Read(p)
		if q.k > 0 && r.IntN(3) == 0 { // a 1 followed by a 0 at a byte boundary
			p[0] = 0x80
		}
		if q.k == 0 || q.rep == 0 {
			c.Note("TRIVIAL")
		}
		c.Count("bits.repeat.boundary")
		c.Emit(fmt.Sprintf("bitsrepeat %s %d", hexBytes(p), q.rep), safely(func() string { return hexBytes(ot.PackedBits(p).Repeat(q.rep)) }))
	}

	// TransposePackedBits on every shape class
	type shape struct {
		rows, cols int
		ragged     int // 0 = no; otherwise the length of one altered row
	}
	shapes := []shape{
		{0, 0, 0}, {8, 0, 0}, {16, 0, 0}, {64, 0, 0}, {1, 1, 0}, {7, 2, 0}, {12, 1, 0}, {63, 8, 0}, {65, 8, 0},
		{8, 1, 0}, {8, 8, 0}, {8, 9, 0}, {56, 8, 0}, {64, 1, 0}, {64, 7, 0}, {64, 8, 0}, {64, 16, 0}, {128, 8, 0}, {128, 24, 0},
		{72, 8, 0}, {8, 3, 2}, {8, 3, 4}, {64, 8, 16}, {64, 8, 7}, {64, 8, 0x100}, {16, 2, 0x100},
	}
	for e := 0; e < extra; e++ {
		if r.IntN(2) == 0 {
			shapes = append(shapes, shape{8 * (1 + r.IntN(12)), 1 + r.IntN(12), 0})
		} else {
			shapes = append(shapes, shape{64 * (1 + r.IntN(3)), 8 * (1 + r.IntN(3)), 0})
		}
	}
	for _, s := range shapes {
		m := make([][]byte, s.rows)
		for i := range m {
			m[i] = make([]byte, s.cols)
			_, _ = r.Read(m[i])
		}
		if s.ragged == 0x100 && s.rows > 0 { // a single set bit: its image is a single set bit
			for i := range m {
				for j := range m[i] {
					m[i][j] = 0
				}
			}
			m[r.IntN(s.rows)][r.IntN(s.cols)] = 1 << r.IntN(8)
		} else if s.ragged != 0 && s.rows > 0 {
			at := r.IntN(s.rows)
			m[at] = make([]byte, s.ragged)
			_, _ = r.Read(m[at])
		}
		if s.rows == 0 || s.cols == 0 {
			c.Note("TRIVIAL")
		}
		c.Count(fmt.Sprintf("bits.transpose2.fast=%v", s.rows%64 == 0 && s.cols%8 == 0))
		in := c09MatrixStr(m)
		c.Emit("bitstp "+in, safely(func() string {
			t, err := ot.TransposePackedBits(m)
			if err != nil {
				return "reject"
			}
			// involution on the implementation itself (needs no model)
			if len(t) > 0 {
				tt, err2 := ot.TransposePackedBits(t)
				if err2 != nil || c09MatrixStr(tt) != in {
					c.Violation("TransposePackedBits twice is not the identity on " + in)
				}
			}
			return c09MatrixStr(t)
		}))
	}
}
