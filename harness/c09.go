package main

// C09 — oblivious transfer and multiplication outputs are correctly correlated.
//
// Streams (all two-party protocols are driven directly, round by round, with this file's own
// message interception):
//   bf*        GF(2^128) arithmetic of pkg/base/binaryfields/bf128 vs the Lean carry-less model
//   bits*      pkg/ot/bits.go packing / repeat / transpose vs the Lean bit-matrix model
//   ot         outputs of ecbbot, vsot, softspoken (correlation + distinctness decided by the model)
//   ssrecv     SoftSpoken Receiver.Round1 as a function of (x, sigma bits, PRG rows, challenge)
//   sssend     SoftSpoken Sender.Round2 consistency check, honest and with every single field altered
//   rvole      rvole-bbot / rvole-softspoken outputs (c + d = a∘b decided by the model)
//   rvchk      rvole Alice.Round3 → Bob.Round4 check values, honest and altered, decided by the model
//   fault      Go-side oracle: a run with one altered field must not complete

import (
	"bufio"
	"bytes"
	"sync"
	"encoding/hex"
	"fmt"
	"math/big"
	"reflect"
	"strings"
	"time"
	"unsafe"

	"github.com/bronlabs/bron-crypto/pkg/base"
	"github.com/bronlabs/bron-crypto/pkg/base/binaryfields/bf128"
	"github.com/bronlabs/bron-crypto/pkg/base/datastructures/hashset"
	"github.com/bronlabs/bron-crypto/pkg/mpc/session"
	"github.com/bronlabs/bron-crypto/pkg/mpc/sharing"
	"github.com/bronlabs/bron-crypto/pkg/ot"
	"github.com/bronlabs/bron-crypto/pkg/transcripts"
)

func init() { register("C09", runC09) }

func runC09(c *Ctx) {
	c09Bf128(c)
	c09Bits(c)
	c09BitsBytes(c)
	c09BaseOTs(c)
	c09Softspoken(c)
	c09Rvole(c)
}

// ---------------------------------------------------------------------------------------------
// helpers

// c09Parallel runs independent sub-streams concurrently, each into its own buffer, and appends
// their output in the fixed job order (deterministic output).
func c09Parallel(c *Ctx, jobs []func(*Ctx)) {
	bufs := make([]*bytes.Buffer, len(jobs))
	subs := make([]*Ctx, len(jobs))
	var wg sync.WaitGroup
	for i, job := range jobs {
		bufs[i] = &bytes.Buffer{}
		subs[i] = &Ctx{Prop: c.Prop, Tier: c.Tier, Seed: c.Seed, Out: bufio.NewWriterSize(bufs[i], 1<<20), Stats: map[string]int{}}
		wg.Add(1)
		go func() {
			defer wg.Done()
			job(subs[i])
			subs[i].Out.Flush()
		}()
	}
	wg.Wait()
	for i := range jobs {
		_, _ = c.Out.Write(bufs[i].Bytes())
		for k, v := range subs[i].Stats {
			c.Stats[k] += v
		}
	}
}

// c09Guard runs fn with panic capture and a watchdog; a hang is an implementation-side violation.
func c09Guard(c *Ctx, what string, fn func() string) string {
	ch := make(chan string, 1)
	go func() { ch <- safely(fn) }()
	select {
	case s := <-ch:
		if strings.HasPrefix(s, "panic:") {
			c.Violation(what + " " + s)
		}
		return s
	case <-time.After(10 * time.Minute):
		c.Violation(what + " hang(watchdog)")
		return "hang"
	}
}

// errClass maps an error to the small enum of the line protocol.
func c09ErrClass(err error) string {
	if err == nil {
		return "ok"
	}
	if base.ShouldAbort(err) {
		return "abort"
	}
	return "reject"
}

// c09Sess holds the seed material of a two-party session so that identical fresh contexts can be
// produced repeatedly (one per fault-injection run).
type c09Sess struct {
	common []byte
	pair   []byte
}

func newC09Sess(r *Rng) *c09Sess {
	s := &c09Sess{common: make([]byte, 64), pair: make([]byte, 64)}
	_, _ = r.Read(s.common)
	_, _ = r.Read(s.pair)
	return s
}

// ctxs returns fresh contexts of parties 1 and 2.
func (s *c09Sess) ctxs() (*session.Context, *session.Context) {
	quorum := hashset.NewComparable[sharing.ID](1, 2).Freeze()
	c1, err := session.NewContext(1, quorum, s.common, map[sharing.ID][]byte{2: s.pair})
	if err != nil {
		panic(err)
	}
	c2, err := session.NewContext(2, quorum, s.common, map[sharing.ID][]byte{1: s.pair})
	if err != nil {
		panic(err)
	}
	return c1, c2
}

// privField gives access to an unexported field of *ptr (observation of protocol-internal values
// that the property's check equations are stated over; never used to alter a party's secrets).
func privField(ptr any, name string) reflect.Value {
	v := reflect.ValueOf(ptr).Elem()
	f := v.FieldByName(name)
	if !f.IsValid() {
		panic("no field " + name)
	}
	return reflect.NewAt(f.Type(), unsafe.Pointer(f.UnsafeAddr())).Elem()
}

// setTranscript replaces the transcript of a context (used to restore a party to the state it had
// before it processed — and rejected — an altered message, so that many alterations can be tried
// against the same protocol state).
func setTranscript(ctx *session.Context, t transcripts.Transcript) {
	privField(ctx, "tape").Set(reflect.ValueOf(t))
}

func bytesListHex(xs [][]byte) string {
	out := make([]string, len(xs))
	for i, x := range xs {
		out[i] = hex.EncodeToString(x)
	}
	return joinComma(out)
}

func bitsStr(packed []byte, n int) string {
	var sb strings.Builder
	for i := 0; i < n; i++ {
		if (packed[i/8]>>(i%8))&1 == 1 {
			sb.WriteByte('1')
		} else {
			sb.WriteByte('0')
		}
	}
	if n == 0 {
		return "-"
	}
	return sb.String()
}

// choice vectors: all-0, all-1, random, alternating, single bit
func c09Choices(r *Rng, kind int, nbits int) []byte {
	out := make([]byte, nbits/8)
	switch kind % 5 {
	case 0:
	case 1:
		for i := range out {
			out[i] = 0xff
		}
	case 2:
		_, _ = r.Read(out)
	case 3:
		for i := range out {
			out[i] = 0xaa
		}
	default:
		out[r.IntN(len(out))] = 1 << r.IntN(8)
	}
	return out
}

var c09ChoiceKind = []string{"zeros", "ones", "random", "alt", "single"}

// ---------------------------------------------------------------------------------------------
// bf128

func bfHex(e *bf128.FieldElement) string { return new(big.Int).SetBytes(e.Bytes()).Text(16) }

func c09BfElem(r *Rng) *bf128.FieldElement {
	switch r.IntN(12) {
	case 0:
		return &bf128.FieldElement{0, 0}
	case 1:
		return &bf128.FieldElement{1, 0}
	case 2:
		return &bf128.FieldElement{0, 1 << 63} // X^127
	case 3:
		return &bf128.FieldElement{^uint64(0), ^uint64(0)}
	case 4:
		return &bf128.FieldElement{0x87, 0} // X^128 mod f
	case 5: // single bit
		k := r.IntN(128)
		e := &bf128.FieldElement{}
		e[k/64] = 1 << (k % 64)
		return e
	case 6: // two bits
		e := &bf128.FieldElement{}
		for range 2 {
			k := r.IntN(128)
			e[k/64] ^= 1 << (k % 64)
		}
		return e
	case 7: // only high limb
		return &bf128.FieldElement{0, r.Uint64()}
	case 8: // only low limb
		return &bf128.FieldElement{r.Uint64(), 0}
	default:
		return &bf128.FieldElement{r.Uint64(), r.Uint64()}
	}
}

func c09Bf128(c *Ctx) {
	r := NewRng(c.Seed, 9001)
	n := 1500
	if c.Thorough() {
		n = 40000
	}
	for it := 0; it < n; it++ {
		a, b := c09BfElem(r), c09BfElem(r)
		switch r.IntN(6) {
		case 0, 1:
			c.Count("bf.mul")
			c.Emit("bfmul "+bfHex(a)+" "+bfHex(b), safely(func() string { return bfHex(a.Mul(b)) }))
		case 2:
			c.Count("bf.add")
			c.Emit("bfadd "+bfHex(a)+" "+bfHex(b), safely(func() string { return bfHex(a.Add(b)) + ";" + bfHex(a.Sub(b)) + ";" + bfHex(a.Neg()) }))
		case 3:
			c.Count("bf.inv")
			c.Emit("bfinv "+bfHex(a), safely(func() string {
				x, err := a.TryInv()
				if err != nil {
					return "err:zero"
				}
				return bfHex(x)
			}))
		case 4:
			c.Count("bf.div")
			c.Emit("bfdiv "+bfHex(a)+" "+bfHex(b), safely(func() string {
				x, err := a.TryDiv(b)
				if err != nil {
					return "err:zero"
				}
				return bfHex(x)
			}))
		default: // bytes round trip + square + select
			c.Count("bf.misc")
			c.Emit("bfmisc "+bfHex(a)+" "+bfHex(b), safely(func() string {
				x, err := bf128.NewField().FromBytes(a.Bytes())
				if err != nil || !x.Equal(a) {
					return "err:roundtrip"
				}
				s0 := bf128.NewField().Select(0, a, b)
				s1 := bf128.NewField().Select(1, a, b)
				return hex.EncodeToString(a.Bytes()) + ";" + bfHex(a.Square()) + ";" + bfHex(s0) + ";" + bfHex(s1)
			}))
		}
	}
	// exhaustive single-bit products X^i * X^j (reduction boundary)
	lim := 128
	step := 7
	if c.Thorough() {
		step = 1
	}
	for i := 0; i < lim; i += step {
		for j := 121; j < 128; j++ {
			a, b := &bf128.FieldElement{}, &bf128.FieldElement{}
			a[i/64] = 1 << (i % 64)
			b[j/64] = 1 << (j % 64)
			c.Count("bf.mul.monomial")
			c.Emit("bfmul "+bfHex(a)+" "+bfHex(b), safely(func() string { return bfHex(a.Mul(b)) }))
		}
	}
}

// ---------------------------------------------------------------------------------------------
// pkg/ot/bits.go

func c09Bits(c *Ctx) {
	r := NewRng(c.Seed, 9002)
	n := 60
	if c.Thorough() {
		n = 800
	}
	for it := 0; it < n; it++ {
		switch r.IntN(3) {
		case 0: // Pack / Unpack
			k := r.IntN(40)
			bitsIn := make([]byte, k)
			for i := range bitsIn {
				bitsIn[i] = byte(r.IntN(2))
			}
			if k > 0 && r.IntN(6) == 0 {
				bitsIn[r.IntN(k)] = byte(2 + r.IntN(254))
			}
			if k == 0 {
				c.Note("TRIVIAL")
			}
			c.Count("bits.pack")
			c.Emit("bitspack "+hexBytes(bitsIn), safely(func() string {
				p, err := ot.Pack(bitsIn)
				if err != nil {
					return "reject"
				}
				return hexBytes(p) + ";" + hexBytes(p.Unpack())
			}))
		case 1: // Repeat
			k := 1 + r.IntN(6)
			rep := 1 + r.IntN(5)
			p := make([]byte, k)
			_, _ = r.Read(p)
			c.Count("bits.repeat")
			c.Emit(fmt.Sprintf("bitsrepeat %s %d", hexBytes(p), rep), safely(func() string { return hexBytes(ot.PackedBits(p).Repeat(rep)) }))
		default: // Transpose (slow and fast paths)
			rows := 8 * (1 + r.IntN(4))
			colBytes := 1 + r.IntN(5)
			if r.IntN(3) == 0 {
				rows = 64 * (1 + r.IntN(2))
				colBytes = 8 * (1 + r.IntN(2))
			}
			m := make([][]byte, rows)
			for i := range m {
				m[i] = make([]byte, colBytes)
				_, _ = r.Read(m[i])
			}
			c.Count(fmt.Sprintf("bits.transpose.fast=%v", rows%64 == 0 && colBytes%8 == 0))
			c.Emit(fmt.Sprintf("bitstranspose %d %d %s", rows, colBytes, bytesListHex(m)), safely(func() string {
				t, err := ot.TransposePackedBits(m)
				if err != nil {
					return "reject"
				}
				return bytesListHex(t)
			}))
		}
	}
}
