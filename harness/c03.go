// c03.go — C03: key generation ends with one consistent, reconstructible key.
//
// Lines (all relations are decided by the Lean driver in model curve arithmetic; rhs is `ok`):
//   C03 dkg <proto> <curve> <spec> <rows> <cols> <labels> <M> <dealers> <dealerVVs> <parties> <partyVs> <partyPKs> <shares> => ok
//        driver: V = Σ V⁽ⁱ⁾ (when dealers are given), every party reports that V and pk = V₀,
//        lift(share_j) = M_j·V for every row of every party.
//   C03 recon <curve> <rows> <cols> <labels> <M> <pk> <shares> <qsets> <usets> => ok
//        driver: for every set the access structure calls qualified, model solveLeft coefficients c
//        with c·M_S = e₀ exist and (Σ c_k share_k)•G = pk; for every unqualified set e₀ ∉ span.
// Go-side oracles (!VIOLATION): a run that does not end ok; parties disagree on M; shard CBOR
// round-trip changes the shard or its bytes; feldman Reconstruct ≠ dlog pk / accepts an unqualified
// set; two runs with different seeds produce the same pk.

package main

import (
	"bytes"
	"fmt"
	"io"
	"sort"
	"strings"
	"sync"

	"github.com/bronlabs/bron-crypto/pkg/base/algebra"
	"github.com/bronlabs/bron-crypto/pkg/base/curves"
	"github.com/bronlabs/bron-crypto/pkg/base/serde"
	"github.com/bronlabs/bron-crypto/pkg/mpc"
	"github.com/bronlabs/bron-crypto/pkg/mpc/session"
	"github.com/bronlabs/bron-crypto/pkg/mpc/sharing/accessstructures"
	"github.com/bronlabs/bron-crypto/pkg/mpc/sharing/scheme/kw"
	"github.com/bronlabs/bron-crypto/pkg/mpc/sharing/vss/feldman"
)

func init() { register("C03", runC03) }

// jobOut buffers the output of one concurrently executed case; flushed in case order.
type jobOut struct {
	lines []string
	stats []string
}

func (j *jobOut) Emit(prop, lhs, rhs string) { j.lines = append(j.lines, prop+" "+lhs+" => "+rhs) }
func (j *jobOut) Violation(prop, d string)   { j.lines = append(j.lines, "!VIOLATION "+prop+" "+d) }
func (j *jobOut) Note(s string)              { j.lines = append(j.lines, "# "+s) }
func (j *jobOut) Count(k string)             { j.stats = append(j.stats, k) }

func (j *jobOut) flush(c *Ctx) {
	for _, l := range j.lines {
		fmt.Fprintln(c.Out, l)
	}
	for _, k := range j.stats {
		c.Count(k)
	}
}

// runJobs executes jobs on `par` workers and flushes their outputs in order.
func runJobs(c *Ctx, par int, jobs []func(*jobOut)) {
	outs := make([]*jobOut, len(jobs))
	var wg sync.WaitGroup
	sem := make(chan struct{}, par)
	for i, job := range jobs {
		wg.Add(1)
		sem <- struct{}{}
		go func() {
			defer wg.Done()
			defer func() { <-sem }()
			o := &jobOut{}
			func() {
				defer func() {
					if e := recover(); e != nil {
						o.Violation(c.Prop, fmt.Sprintf("harness-panic job=%d %v", i, strings.ReplaceAll(fmt.Sprint(e), " ", "_")))
					}
				}()
				job(o)
			}()
			outs[i] = o
		}()
	}
	wg.Wait()
	for _, o := range outs {
		o.flush(c)
	}
}

// ---------------------------------------------------------------------------------------------
// generators for access structures with arbitrary IDs

// genIDs draws n distinct non-zero IDs: consecutive, small sparse, medium sparse, > 2^32, or extreme;
// maxID > 0 caps them (families whose constructors restrict the ID range). The order is shuffled.
func genIDs(r *Rng, n int, maxID uint64) []ID {
	seen := map[ID]bool{}
	var out []ID
	mode := r.IntN(5)
	for len(out) < n {
		var id ID
		switch mode {
		case 0:
			id = ID(len(out) + 1)
		case 1:
			id = ID(1 + r.IntN(60))
		case 2:
			id = ID(1 + r.IntN(100000))
		case 3:
			id = ID(uint64(1)<<32 + r.Uint64()>>(1+uint(r.IntN(31))))
		default:
			switch r.IntN(3) {
			case 0:
				id = ID(1 + r.IntN(9))
			case 1:
				id = ID(^uint64(0) - uint64(r.IntN(5)))
			default:
				id = ID(r.Uint64())
			}
		}
		if maxID > 0 && uint64(id) > maxID {
			id = ID(1 + uint64(id)%maxID)
		}
		if id == 0 || seen[id] {
			continue
		}
		seen[id] = true
		out = append(out, id)
	}
	r.Shuffle(len(out), func(i, j int) { out[i], out[j] = out[j], out[i] })
	return out
}

// c03CNFMaxID: cnf.InducedMSP panics for shareholder IDs > 64 (bitset "element out of range"; the C02
// candidate defect). Quick-tier generators keep CNF IDs ≤ 64 so that the rest of the property is
// exercised; the thorough tier lifts the cap and reports the panic under the stable key
// `cnf-id-above-64-panic`.
const c03CNFMaxID = 64

// genSpec draws an access structure of the given family over n holders.
func genSpec(r *Rng, family string, n int, capCNF bool) string {
	for {
		s := genSpec1(r, family, n, capCNF)
		// quick tier: no holder that belongs to every maximal unqualified set (it owns no MSP row; see
		// cnfPowerlessHolder) — the thorough tier keeps such structures and reports under a stable key
		if capCNF && cnfPowerlessHolder(s) {
			continue
		}
		return s
	}
}

// cnfPowerlessHolder reports whether some holder of a CNF spec is a member of every maximal
// unqualified set: such a holder never matters for qualification and the induced MSP gives it no row.
// Observed on the unchanged library: the trusted dealer then returns no shard for that shareholder
// and an honest Canetti run aborts blaming an honest party.
func cnfPowerlessHolder(spec string) bool {
	if !strings.HasPrefix(spec, "cnf:") {
		return false
	}
	ac, err := parseAccess(spec)
	if err != nil {
		return false
	}
	for _, id := range accessIDs(ac) {
		inAll := true
		for u := range ac.MaximalUnqualifiedSetsIter() {
			if !u.Contains(id) {
				inAll = false
				break
			}
		}
		if inAll {
			return true
		}
	}
	return false
}

func genSpec1(r *Rng, family string, n int, capCNF bool) string {
	var ids []ID
	switch {
	case family == "cnf" && capCNF:
		ids = genIDs(r, n, c03CNFMaxID)
	case family == "hier":
		// hierarchical.CheckConstraints: IDs of later levels exceed those of earlier levels and
		// N^((k-1)(k-2)/2) must stay below the field order
		ids = sortedIDs(genIDs(r, n, 1<<20))
	default:
		ids = genIDs(r, n, 0)
	}
	s := func(xs []ID) string { return idsStr(xs) }
	switch family {
	case "th":
		t := 2
		if n > 2 {
			t = 2 + r.IntN(n-1)
		}
		return fmt.Sprintf("th:%d:%s", t, s(ids))
	case "un":
		return "un:" + s(ids)
	case "cnf":
		// maximal unqualified sets: a few random proper subsets that together cover all holders
		for {
			k := 2 + r.IntN(3)
			var sets []string
			cover := map[ID]bool{}
			for range k {
				var set []ID
				for _, id := range ids {
					if r.IntN(2) == 0 {
						set = append(set, id)
					}
				}
				if len(set) == 0 || len(set) == n {
					continue
				}
				for _, id := range set {
					cover[id] = true
				}
				sets = append(sets, s(set))
			}
			if len(cover) == n && len(sets) >= 2 {
				return "cnf:" + strings.Join(sets, "|")
			}
		}
	case "hier":
		cut := 1 + r.IntN(n-1)
		t1 := 1 + r.IntN(cut)
		t2 := t1 + 1 + r.IntN(n-t1)
		return fmt.Sprintf("hier:%d:%s|%d:%s", t1, s(ids[:cut]), t2, s(ids[cut:]))
	case "bool":
		leaf := func(i int) string { return fmt.Sprint(uint64(ids[i%n])) }
		switch r.IntN(5) {
		case 0:
			if n >= 3 {
				return fmt.Sprintf("bool:and(%s,or(%s,%s))", leaf(0), leaf(1), leaf(2))
			}
		case 1: // repeated holder: several rows for ids[0]
			if n >= 3 {
				return fmt.Sprintf("bool:or(and(%s,%s),and(%s,%s))", leaf(0), leaf(1), leaf(0), leaf(2))
			}
		case 2:
			if n >= 4 {
				return fmt.Sprintf("bool:th2(%s,and(%s,%s),%s)", leaf(0), leaf(1), leaf(2), leaf(3))
			}
		case 3:
			if n >= 4 {
				return fmt.Sprintf("bool:th2(or(%s,%s),%s,and(%s,%s))", leaf(0), leaf(1), leaf(2), leaf(3), leaf(0))
			}
		}
		var ls []string
		for i := range n {
			ls = append(ls, leaf(i))
		}
		t := 1 + r.IntN(n)
		if t < 2 && n >= 2 {
			t = 2
		}
		return fmt.Sprintf("bool:th%d(%s)", t, strings.Join(ls, ","))
	}
	panic("genSpec: family " + family)
}

func cnfHasLargeID(spec string) bool {
	if !strings.HasPrefix(spec, "cnf:") {
		return false
	}
	for _, part := range strings.Split(spec[4:], "|") {
		ids, _ := parseIDs(part)
		for _, id := range ids {
			if id > c03CNFMaxID {
				return true
			}
		}
	}
	return false
}

var accessFamilies = []string{"th", "un", "cnf", "hier", "bool"}

// ---------------------------------------------------------------------------------------------

type c03Group[P curves.Point[P, F, S], F algebra.FiniteFieldElement[F], S algebra.PrimeFieldElement[S]] struct {
	name  string
	group algebra.PrimeGroup[P, S]
}

var c03PKs sync.Map // curve/pk string -> description of the run that produced it

func shareStr[S algebra.PrimeFieldElement[S]](id ID, vals []S) string {
	return fmt.Sprintf("%d:%s", uint64(id), scalarsHex(vals))
}

func setsStr(sets [][]ID) string {
	if len(sets) == 0 {
		return "-"
	}
	out := make([]string, len(sets))
	for i, s := range sets {
		out[i] = idsStr(s)
	}
	return strings.Join(out, "|")
}

// c03Case runs one key generation and emits its lines.
func c03Case[P curves.Point[P, F, S], F algebra.FiniteFieldElement[F], S algebra.PrimeFieldElement[S]](o *jobOut, seed int64, stream uint64, g c03Group[P, F, S], proto, spec string, maxSets int) {
	const prop = "C03"
	tag := fmt.Sprintf("proto=%s curve=%s spec=%s seed=%d/%d", proto, g.name, spec, seed, stream)
	var ac accessstructures.Monotone
	if res := safely(func() string {
		a, err := parseAccess(spec)
		if err != nil {
			return "err:" + rootClass(err)
		}
		ac = a
		return "ok"
	}); res != "ok" {
		if strings.HasPrefix(res, "panic") {
			o.Violation(prop, "access-structure-constructor-panic "+tag+" "+res)
		} else {
			o.Note("rejected spec " + spec + " " + res)
			o.Count("spec-rejected." + strings.SplitN(spec, ":", 2)[0])
		}
		return
	}
	ids := accessIDs(ac)
	rngs := partyRngs(seed, stream*64+8, ids)
	var ctxs map[ID]*session.Context
	if proto != "dealer" {
		// half of the runs derive the contexts from a real session run, half from a trusted setup
		if stream%2 == 0 {
			sn, cs := runSession(ids, partyRngs(seed, stream*64+40, ids), nil)
			if !sn.OK() {
				o.Violation(prop, "session-failed "+tag+" "+sn.StatusStr())
				return
			}
			ctxs = cs
		} else {
			ctxs = dealerContexts(ids, NewRng(seed, stream*64+7))
		}
	}
	var res *DKGResult[P, S]
	switch proto {
	case "dealer":
		res = runTrustedDealer(g.group, ac, NewRng(seed, stream*64+6))
	case "gennaro":
		res = runGennaro(g.group, ac, ctxs, rngs, nil, defaultCompiler)
	case "canetti":
		res = runCanetti(g.group, ac, ctxs, rngs, nil)
	case "gennaro-runner":
		res = runGennaroRunner(g.group, ac, ctxs, rngs, defaultCompiler)
	case "canetti-runner":
		res = runCanettiRunner(g.group, ac, ctxs, rngs)
	default:
		panic("c03Case: proto " + proto)
	}
	fam := strings.SplitN(spec, ":", 2)[0]
	if !res.Net.OK() || res.Shards == nil {
		cls := res.Net.StatusStr()
		// a constructor that refuses the configuration with an ordinary error is not a property
		// failure (the property speaks about runs that the library accepts to start)
		if res.Net.Refused() {
			o.Note("configuration refused " + tag + " " + cls)
			o.Count("refused." + proto + "." + fam)
			return
		}
		if cnfHasLargeID(spec) && strings.Contains(cls, "panic") && res.Net.FailedRound <= 1 {
			o.Violation(prop, "cnf-id-above-64-panic "+tag+" status="+cls)
			return
		}
		if cnfPowerlessHolder(spec) {
			o.Violation(prop, "cnf-powerless-holder honest-run-failed "+tag+" status="+cls+" "+res.Net.statusSummary())
			return
		}
		o.Violation(prop, "honest-run-failed "+tag+" status="+cls+" "+res.Net.statusSummary())
		return
	}
	o.Count("run." + proto)
	o.Count("family." + fam)
	o.Count("curve." + g.name)
	o.Count(fmt.Sprintf("parties.%d", len(ids)))

	views := map[ID]ShardView[P, S]{}
	for _, id := range ids {
		sh, ok := res.Shards[id]
		if !ok || sh == nil {
			key := "missing-shard"
			if cnfPowerlessHolder(spec) {
				key = "cnf-powerless-holder missing-shard"
			}
			o.Violation(prop, fmt.Sprintf("%s party=%d %s", key, id, tag))
			return
		}
		views[id] = shardView(sh)
	}
	v0 := views[ids[0]]
	rows, cols := len(v0.Rows), 0
	if rows > 0 {
		cols = len(v0.Rows[0])
	}
	if !strings.HasPrefix(proto, "dealer") {
		o.Count(fmt.Sprintf("msp.rows%d-cols%d", rows, cols))
	}
	mStr := matHex(v0.Rows)
	labels := idsStr(v0.Labels)
	nonIdeal := len(v0.Labels) > len(ids)
	if nonIdeal {
		o.Count("msp.non-ideal")
	}
	var partyVs, partyPKs, shares []string
	for _, id := range ids {
		v := views[id]
		if matHex(v.Rows) != mStr || idsStr(v.Labels) != labels {
			o.Violation(prop, fmt.Sprintf("parties-disagree-on-MSP party=%d %s", id, tag))
		}
		if v.ShareID != id {
			o.Violation(prop, fmt.Sprintf("share-id-mismatch party=%d share=%d %s", id, v.ShareID, tag))
		}
		partyVs = append(partyVs, pointsStr(v.V))
		partyPKs = append(partyPKs, pointStr(v.PK))
		shares = append(shares, shareStr(id, v.Share))
	}
	dealers, dealerVVs := "-", "-"
	if len(res.DealerVV) > 0 {
		var dv []string
		dids := sortedKeys(res.DealerVV)
		for _, id := range dids {
			dv = append(dv, pointsStr(res.DealerVV[id]))
		}
		dealers, dealerVVs = idsStr(dids), strings.Join(dv, "|")
	}
	o.Emit(prop, fmt.Sprintf("dkg %s %s %s %d %d %s %s %s %s %s %s %s %s", proto, g.name, spec, rows, cols, labels, mStr,
		dealers, dealerVVs, idsStr(ids), strings.Join(partyVs, "|"), strings.Join(partyPKs, ","), strings.Join(shares, "|")), "ok")

	// independence of keys across runs (different seeds / streams must give different keys)
	pkKey := g.name + "/" + pointStr(v0.PK)
	if prev, dup := c03PKs.LoadOrStore(pkKey, tag); dup {
		o.Violation(prop, fmt.Sprintf("same-public-key-in-independent-runs %s AND %s", prev, tag))
	}

	// store / reload
	for _, id := range ids {
		sh := res.Shards[id]
		r := safely(func() string {
			b1, err := serde.MarshalCBOR(sh)
			if err != nil {
				return "marshal-err:" + rootClass(err)
			}
			back, err := serde.UnmarshalCBOR[*mpc.BaseShard[P, S]](b1)
			if err != nil {
				return "unmarshal-err:" + rootClass(err)
			}
			if !back.Equal(sh) {
				return "not-equal"
			}
			b2, err := serde.MarshalCBOR(back)
			if err != nil {
				return "remarshal-err:" + rootClass(err)
			}
			if !bytes.Equal(b1, b2) {
				return "bytes-differ"
			}
			if !back.PublicKeyValue().Equal(sh.PublicKeyValue()) || scalarsHex(back.Share().Value()) != scalarsHex(sh.Share().Value()) {
				return "content-differs"
			}
			return "ok"
		})
		if r != "ok" {
			o.Violation(prop, fmt.Sprintf("shard-store-reload party=%d %s %s", id, r, tag))
		}
	}
	o.Count("reload.ok")

	// reconstruction over subsets: library oracle + driver line
	q, u := qualifiedSets(ac)
	q, u = sampleSets(seed, stream, q, maxSets), sampleSets(seed, stream+1, u, maxSets)
	scheme, err := feldman.NewScheme(g.group, ac)
	if err != nil {
		o.Violation(prop, "feldman.NewScheme "+classify(err)+" "+tag)
		return
	}
	gen := g.group.Generator()
	for _, set := range q {
		r := safely(func() string {
			var shs []*kw.Share[S]
			for _, id := range set {
				shs = append(shs, res.Shards[id].Share())
			}
			sec, err := scheme.Reconstruct(shs...)
			if err != nil {
				return "reconstruct-" + classify(err)
			}
			if !gen.ScalarOp(sec.Value()).Equal(v0.PK) {
				return "reconstructed-secret-is-not-dlog-pk"
			}
			return "ok"
		})
		if r != "ok" {
			o.Violation(prop, fmt.Sprintf("qualified-set %s %s %s", idsStr(set), r, tag))
		}
	}
	for _, set := range u {
		r := safely(func() string {
			var shs []*kw.Share[S]
			for _, id := range set {
				shs = append(shs, res.Shards[id].Share())
			}
			_, err := scheme.Reconstruct(shs...)
			if err == nil {
				return "accepted"
			}
			return "ok"
		})
		if r != "ok" {
			o.Violation(prop, fmt.Sprintf("unqualified-set %s %s %s", idsStr(set), r, tag))
		}
	}
	o.Count(fmt.Sprintf("recon.qualified-sets"))
	o.Emit(prop, fmt.Sprintf("recon %s %d %d %s %s %s %s %s %s", g.name, rows, cols, labels, mStr, pointStr(v0.PK),
		strings.Join(shares, "|"), setsStr(q), setsStr(u)), "ok")
}

// sampleSets keeps at most max sets (deterministically: the smallest, the largest and a spread).
func sampleSets(seed int64, stream uint64, sets [][]ID, max int) [][]ID {
	if len(sets) <= max {
		return sets
	}
	r := NewRng(seed, 77000+stream)
	idx := r.Perm(len(sets))[:max]
	sort.Ints(idx)
	out := make([][]ID, 0, max)
	for _, i := range idx {
		out = append(out, sets[i])
	}
	return out
}

var _ io.Reader = (*Rng)(nil)

func runC03(c *Ctx) {
	type job = func(*jobOut)
	var jobs []job
	r := NewRng(c.Seed, 3000)
	stream := uint64(1)
	add := func(mk func(stream uint64, proto, spec string) job, protos []string, families []string, nMin, nMax int) {
		for _, proto := range protos {
			for _, fam := range families {
				n := nMin + r.IntN(nMax-nMin+1)
				if (fam == "bool" || fam == "hier") && n < 3 {
					n = 3
				}
				spec := genSpec(r, fam, n, !c.Thorough())
				jobs = append(jobs, mk(stream, proto, spec))
				stream++
			}
		}
	}
	maxSets := 24
	if c.Thorough() {
		maxSets = 64
	}
	mkFor := func(name string) func(stream uint64, proto, spec string) job {
		return func(stream uint64, proto, spec string) job {
			return func(o *jobOut) {
				switch name {
				case "k256":
					c03Case(o, c.Seed, stream, c03Group[*k256Point, *k256Base, *k256Scalar]{name, cK256}, proto, spec, maxSets)
				case "p256":
					c03Case(o, c.Seed, stream, c03Group[*p256Point, *p256Base, *p256Scalar]{name, cP256}, proto, spec, maxSets)
				case "ed25519":
					c03Case(o, c.Seed, stream, c03Group[*edPoint, *edBase, *edScalar]{name, cEd25519}, proto, spec, maxSets)
				case "pallas":
					c03Case(o, c.Seed, stream, c03Group[*pallasPoint, *pallasBase, *pallasScalar]{name, cPallas}, proto, spec, maxSets)
				case "vesta":
					c03Case(o, c.Seed, stream, c03Group[*vestaPoint, *vestaBase, *vestaScalar]{name, cVesta}, proto, spec, maxSets)
				case "bls12381g1":
					c03Case(o, c.Seed, stream, c03Group[g1, g1f, bsc]{name, cBLSG1}, proto, spec, maxSets)
				case "bls12381g2":
					c03Case(o, c.Seed, stream, c03Group[g2, g2f, bsc]{name, cBLSG2}, proto, spec, maxSets)
				}
			}
		}
	}
	allProtos := []string{"dealer", "gennaro", "canetti", "gennaro-runner", "canetti-runner"}
	if !c.Thorough() {
		add(mkFor("k256"), allProtos, accessFamilies, 2, 5)
		add(mkFor("ed25519"), []string{"gennaro", "canetti", "canetti-runner"}, []string{"th", "cnf", "bool"}, 2, 4)
		add(mkFor("bls12381g1"), []string{"dealer", "canetti", "gennaro-runner"}, []string{"hier", "un"}, 2, 3)
	} else {
		for range 3 {
			add(mkFor("k256"), allProtos, accessFamilies, 2, 6)
		}
		for _, name := range []string{"ed25519", "bls12381g1", "p256", "pallas", "vesta"} {
			add(mkFor(name), allProtos, accessFamilies, 2, 5)
		}
		add(mkFor("bls12381g2"), allProtos, []string{"th", "cnf", "bool"}, 2, 4)
	}
	runJobs(c, 12, jobs)
}
