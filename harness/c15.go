package main

// C15 — single-party signatures verify exactly for the signed message and key.
// This file: stream entry point, shared helpers, ECDSA.  c15_schnorr.go: BIP-340, configurable
// Schnorr, Mina.  c15_bls.go: BLS.  c15_vectors.go: published vectors.

import (
	"crypto"
	nativeEcdsa "crypto/ecdsa"
	"crypto/elliptic"
	"crypto/sha1"
	"crypto/sha256"
	"crypto/sha3"
	"crypto/sha512"
	"fmt"
	"hash"
	"math/big"

	"golang.org/x/crypto/blake2b"

	"github.com/bronlabs/bron-crypto/pkg/base/algebra"
	"github.com/bronlabs/bron-crypto/pkg/base/curves"
	"github.com/bronlabs/bron-crypto/pkg/signatures/ecdsa"
)

func init() { register("C15", runC15) }

func runC15(c *Ctx) {
	c15EcdsaAll(c)
	c15EcdsaForgeAll(c) // c15_adv.go: freely chosen (r,s,v) under the recovered key
	c15SchnorrAll(c)
	c15BlsAll(c)
	c15Vectors(c)
}

func c15Verdict(err error) string {
	if err == nil {
		return "accept"
	}
	return "reject"
}

// c15Messages: empty, one byte, random short, long (multi-block for every hash used).
func c15Messages(r *Rng, thorough bool) [][]byte {
	long := make([]byte, 300+r.IntN(200))
	_, _ = r.Read(long)
	short := make([]byte, 1+r.IntN(40))
	_, _ = r.Read(short)
	out := [][]byte{{}, short, long}
	if thorough {
		huge := make([]byte, 4096+r.IntN(1000))
		_, _ = r.Read(huge)
		out = append(out, []byte{0}, huge)
	}
	return out
}

// c15AlterMsg returns single-component alterations of a message (each differs from m).
func c15AlterMsg(r *Rng, m []byte) [][]byte {
	var out [][]byte
	out = append(out, append(append([]byte{}, m...), 0)) // one zero byte appended
	if len(m) > 0 {
		f := append([]byte{}, m...)
		f[r.IntN(len(f))] ^= 1 << uint(r.IntN(8))
		out = append(out, f)
		out = append(out, append([]byte{}, m[:len(m)-1]...)) // truncated
	}
	return out
}

// ---------------------------------------------------------------- independent big.Int curve arithmetic

type bigCurve struct{ p, a, b, gx, gy, n *big.Int }

func c15hexBig(s string) *big.Int {
	v, ok := new(big.Int).SetString(s, 16)
	if !ok {
		panic("c15hexBig")
	}
	return v
}

var c15BigCurves = map[string]*bigCurve{
	"k256": {
		p: c15hexBig("fffffffffffffffffffffffffffffffffffffffffffffffffffffffefffffc2f"), a: big.NewInt(0), b: big.NewInt(7),
		gx: c15hexBig("79be667ef9dcbbac55a06295ce870b07029bfcdb2dce28d959f2815b16f81798"),
		gy: c15hexBig("483ada7726a3c4655da4fbfc0e1108a8fd17b448a68554199c47d08ffb10d4b8"),
		n:  c15hexBig("fffffffffffffffffffffffffffffffebaaedce6af48a03bbfd25e8cd0364141")},
	"p256": {
		p: c15hexBig("ffffffff00000001000000000000000000000000ffffffffffffffffffffffff"),
		a: c15hexBig("ffffffff00000001000000000000000000000000fffffffffffffffffffffffc"),
		b: c15hexBig("5ac635d8aa3a93e7b3ebbd55769886bc651d06b0cc53b0f63bce3c3e27d2604b"),
		gx: c15hexBig("6b17d1f2e12c4247f8bce6e563a440f277037d812deb33a0f4a13945d898c296"),
		gy: c15hexBig("4fe342e2fe1a7f9b8ee7eb4a7c0f9e162bce33576b315ececbb6406837bf51f5"),
		n:  c15hexBig("ffffffff00000000ffffffffffffffffbce6faada7179e84f3b9cac2fc632551")},
}

// affine points: nil x = infinity
type bigPt struct{ x, y *big.Int }

func (c *bigCurve) add(P, Q bigPt) bigPt {
	if P.x == nil {
		return Q
	}
	if Q.x == nil {
		return P
	}
	var l *big.Int
	if P.x.Cmp(Q.x) == 0 {
		if P.y.Cmp(Q.y) != 0 || P.y.Sign() == 0 {
			return bigPt{}
		}
		num := new(big.Int).Mul(P.x, P.x)
		num.Mul(num, big.NewInt(3)).Add(num, c.a)
		den := new(big.Int).Lsh(P.y, 1)
		l = num.Mul(num, den.ModInverse(den, c.p))
	} else {
		num := new(big.Int).Sub(Q.y, P.y)
		den := new(big.Int).Sub(Q.x, P.x)
		den.Mod(den, c.p)
		l = num.Mul(num, den.ModInverse(den, c.p))
	}
	l.Mod(l, c.p)
	x3 := new(big.Int).Mul(l, l)
	x3.Sub(x3, P.x).Sub(x3, Q.x).Mod(x3, c.p)
	y3 := new(big.Int).Sub(P.x, x3)
	y3.Mul(y3, l).Sub(y3, P.y).Mod(y3, c.p)
	return bigPt{x3, y3}
}

func (c *bigCurve) mul(k *big.Int, P bigPt) bigPt {
	acc := bigPt{}
	for i := k.BitLen() - 1; i >= 0; i-- {
		acc = c.add(acc, acc)
		if k.Bit(i) == 1 {
			acc = c.add(acc, P)
		}
	}
	return acc
}

// bits2int of FIPS 186 / SEC1
func (c *bigCurve) digestInt(digest []byte) *big.Int {
	nb := (c.n.BitLen() + 7) / 8
	if len(digest) > nb {
		digest = digest[:nb]
	}
	e := new(big.Int).SetBytes(digest)
	if ex := len(digest)*8 - c.n.BitLen(); ex > 0 {
		e.Rsh(e, uint(ex))
	}
	return e
}

// textbook ECDSA verification (SEC1 4.1.4), independent of the library and of crypto/ecdsa
func (c *bigCurve) ecdsaVerify(qx, qy *big.Int, digest []byte, r, s *big.Int) bool {
	if r.Sign() <= 0 || s.Sign() <= 0 || r.Cmp(c.n) >= 0 || s.Cmp(c.n) >= 0 {
		return false
	}
	w := new(big.Int).ModInverse(s, c.n)
	u1 := new(big.Int).Mul(c.digestInt(digest), w)
	u1.Mod(u1, c.n)
	u2 := new(big.Int).Mul(r, w)
	u2.Mod(u2, c.n)
	R := c.add(c.mul(u1, bigPt{c.gx, c.gy}), c.mul(u2, bigPt{qx, qy}))
	if R.x == nil {
		return false
	}
	return new(big.Int).Mod(R.x, c.n).Cmp(r) == 0
}

// ---------------------------------------------------------------- ECDSA

type c15Hash struct {
	name string
	fn   func() hash.Hash
	id   crypto.Hash // non-zero: also offered as deterministic (RFC 6979) suite
}

func c15Hashes() []c15Hash {
	return []c15Hash{
		{"sha256", sha256.New, crypto.SHA256},
		{"sha512", sha512.New, crypto.SHA512},
		{"sha3-256", func() hash.Hash { return sha3.New256() }, 0},
		{"sha1", sha1.New, crypto.SHA1},
		{"sha224", sha256.New224, crypto.SHA224},
		{"sha384", sha512.New384, crypto.SHA384},
		{"sha512-256", sha512.New512_256, crypto.SHA512_256},
		{"sha3-512", func() hash.Hash { return sha3.New512() }, 0},
		{"blake2b-256", func() hash.Hash { h, _ := blake2b.New256(nil); return h }, 0},
	}
}

func c15EcdsaAll(c *Ctx) {
	r := NewRng(c.Seed, 1500)
	hs := c15Hashes()
	// quick: every (curve, hash, mode) pairing once with a rotating key/message class;
	// thorough: every pairing with every key and message class.
	idx := 0
	for _, h := range hs {
		for _, det := range []bool{false, true} {
			if det && h.id == 0 {
				continue
			}
			// quick: the complete alteration set for a rotating quarter of the pairings, the core set for the rest
			// quick: every pairing gets sign/honest/one alteration/the malleable form (level 0); a rotating
			// subset gets the core alteration set (1) or the complete set (2); thorough: complete everywhere
			lvl := func(j int) int {
				if c.Thorough() {
					return 2
				}
				switch (j + int(c.Seed)) % 12 {
				case 0:
					return 2
				case 4, 8:
					return 1
				}
				return 0
			}
			c15Ecdsa(c, r, "k256", cK256, fK256, h, det, idx, lvl(idx))
			c15Ecdsa(c, r, "p256", cP256, fP256, h, det, idx+1, lvl(idx+7))
			idx += 2
		}
	}
}

func c15EcdsaKeys[S algebra.PrimeFieldElement[S]](r *Rng, f algebra.PrimeField[S]) []S {
	n := fieldOrder(f)
	return []S{
		f.One(),
		f.One().Neg(),
		scalarFromBig(f, r.BigBelow(n)),
		scalarFromBig(f, new(big.Int).Rsh(n, 1)),                          // (n-1)/2
		scalarFromBig(f, new(big.Int).Add(new(big.Int).Rsh(n, 1), big.NewInt(1))), // (n+1)/2
		f.FromUint64(2),
	}
}

func c15Ecdsa[P curves.Point[P, B, S], B algebra.PrimeFieldElement[B], S algebra.PrimeFieldElement[S]](
	c *Ctx, r *Rng, cname string, curve ecdsa.Curve[P, B, S], sf algebra.PrimeField[S], h c15Hash, det bool, rot int, level int,
) {
	hname := h.name
	var suite *ecdsa.Suite[P, B, S]
	var err error
	if det {
		hname += "-rfc6979"
		suite, err = ecdsa.NewDeterministicSuite(curve, h.id)
	} else {
		suite, err = ecdsa.NewSuite(curve, h.fn)
	}
	if err != nil {
		c.Violation(fmt.Sprintf("ecdsa suite %s/%s: %v", cname, hname, err))
		return
	}
	scheme, err := ecdsa.NewScheme(suite, r)
	if err != nil {
		c.Violation(fmt.Sprintf("ecdsa scheme %s/%s: %v", cname, hname, err))
		return
	}
	vDefault, err1 := scheme.Verifier()
	vStrict, err2 := scheme.Verifier(ecdsa.VerifyNonMalleably[P, B, S])
	if err1 != nil || err2 != nil {
		c.Violation(fmt.Sprintf("ecdsa verifier %s/%s: %v %v", cname, hname, err1, err2))
		return
	}
	keys := c15EcdsaKeys(r, sf)
	msgs := c15Messages(r, c.Thorough())
	type km struct{ k, m int }
	var cases []km
	if c.Thorough() {
		for k := range keys {
			for m := range msgs {
				cases = append(cases, km{k, m})
			}
		}
	} else {
		cases = []km{{rot % len(keys), rot % len(msgs)}}
	}
	bc := c15BigCurves[cname]
	n := fieldOrder(sf)
	G := curve.Generator()

	for _, cs := range cases {
		skv := keys[cs.k]
		msg := msgs[cs.m]
		pkv := curve.ScalarBaseMul(skv)
		pk, err := ecdsa.NewPublicKey(pkv)
		if err != nil {
			c.Violation(fmt.Sprintf("ecdsa NewPublicKey %s sk=%s: %v", cname, scalarHex(skv), err))
			continue
		}
		sk, err := ecdsa.NewPrivateKey(skv, pk)
		if err != nil {
			c.Violation(fmt.Sprintf("ecdsa NewPrivateKey %s sk=%s: %v", cname, scalarHex(skv), err))
			continue
		}
		hh := h.fn()
		hh.Write(msg)
		digest := hh.Sum(nil)
		c.Count(fmt.Sprintf("ecdsa.%s.%s", cname, hname))
		c.Count(fmt.Sprintf("ecdsa.key%d.msg%d", cs.k, cs.m))

		var sig *ecdsa.Signature[S]
		res := safely(func() string {
			signer, err := scheme.Signer(sk)
			if err != nil {
				return "err:signer"
			}
			sg, err := signer.Sign(msg)
			if err != nil {
				return "err:sign"
			}
			if sg.V() == nil {
				return "err:no-v"
			}
			sig = sg
			return fmt.Sprintf("%s,%s,%d", scalarHex(sg.R()), scalarHex(sg.S()), *sg.V())
		})
		if sig == nil {
			// RFC 6979 signing is delegated to crypto/ecdsa, which refuses curves it does not implement
			// natively; when the standard library itself refuses, no signature exists to be checked.
			if det {
				if nsk, err := sk.ToElliptic(); err == nil && nsk != nil {
					if _, err := nsk.Sign(nil, digest, h.id); err != nil {
						c.Note(fmt.Sprintf("deterministic ECDSA unavailable for %s/%s: crypto/ecdsa refuses (%v)", cname, hname, err))
						c.Count("ecdsa.rfc6979-unsupported-by-stdlib." + cname)
						continue
					}
				}
			}
			c.Emit(fmt.Sprintf("ecdsa.sign %s %s %s %s %s", cname, hname, scalarHex(skv), hexBytes(msg), hexBytes(digest)), res)
			c.Violation(fmt.Sprintf("ecdsa Sign failed %s %s sk=%s msg=%s: %s", cname, hname, scalarHex(skv), hexBytes(msg), res))
			continue
		}
		c.Emit(fmt.Sprintf("ecdsa.sign %s %s %s %s %s", cname, hname, scalarHex(skv), hexBytes(msg), hexBytes(digest)), res)
		rr, ss, v0 := sig.R(), sig.S(), *sig.V()

		// one verification case: library verdict, independent oracles, model line, expectation
		try := func(tag string, strict bool, pkP P, m []byte, rS, sS S, v *int, expect string) {
			hh := h.fn()
			hh.Write(m)
			dg := hh.Sum(nil)
			mode := "d"
			vf := vDefault
			if strict {
				mode, vf = "s", vStrict
			}
			vs := "-"
			if v != nil {
				vs = fmt.Sprint(*v)
			}
			out := safely(func() string {
				sg, err := ecdsa.NewSignature(rS, sS, v)
				if err != nil {
					return "reject"
				}
				p, err := ecdsa.NewPublicKey(pkP)
				if err != nil {
					return "reject"
				}
				return c15Verdict(vf.Verify(sg, p, m))
			})
			lhs := fmt.Sprintf("ecdsa.verify %s %s %s %s %s %s %s %s %s %s", cname, hname, mode, pointStr(pkP), hexBytes(m), hexBytes(dg), scalarHex(rS), scalarHex(sS), vs, tag)
			c.Emit(lhs, out)
			c.Count("ecdsa.verify." + tag + "." + out)
			if expect != "" && out != expect {
				c.Violation(fmt.Sprintf("ecdsa %s: expected %s, library says %s: %s", tag, expect, out, lhs))
			}
			// independent oracles decide the (r,s) part: an accepted signature must pass them;
			// with v absent and the default verifier the verdicts must coincide exactly.
			if !pkP.IsZero() && bc != nil {
				ax, _ := pkP.AffineX()
				ay, _ := pkP.AffineY()
				qx, qy := new(big.Int).SetBytes(ax.Bytes()), new(big.Int).SetBytes(ay.Bytes())
				rb, sb := new(big.Int).SetBytes(rS.BytesBE()), new(big.Int).SetBytes(sS.BytesBE())
				ind := bc.ecdsaVerify(qx, qy, dg, rb, sb)
				if cname == "p256" {
					std := nativeEcdsa.Verify(&nativeEcdsa.PublicKey{Curve: elliptic.P256(), X: qx, Y: qy}, dg, rb, sb)
					if std != ind {
						c.Violation(fmt.Sprintf("crypto/ecdsa and the textbook verifier disagree (harness bug?): %s", lhs))
					}
				}
				if out == "accept" && !ind {
					c.Violation(fmt.Sprintf("ecdsa: library accepts, independent verifier rejects: %s", lhs))
				}
				if v == nil && !strict && (out == "accept") != ind {
					c.Violation(fmt.Sprintf("ecdsa: library %s, independent verifier %v: %s", out, ind, lhs))
				}
			}
		}
		vp := func(v int) *int { return &v }
		low := sig.IsNormalized()
		strictExpect := "reject"
		if low {
			strictExpect = "accept"
			c.Count("ecdsa.signed.low")
		} else {
			c.Count("ecdsa.signed.high")
		}
		negS := ss.Neg()
		// RecoverPublicKey on all four v (and on the malleable form)
		recoverAll := func() {
			// RecoverPublicKey: the true v gives the signing key; every v is compared with the model
			for v := 0; v < 4; v++ {
				sg, _ := ecdsa.NewSignature(rr, ss, vp(v))
				rec := safely(func() string {
					p, err := ecdsa.RecoverPublicKey(suite, sg, msg)
					if err != nil {
						return "none"
					}
					return pointStr(p.Value())
				})
				c.Emit(fmt.Sprintf("ecdsa.recover %s %s %s %s %d", cname, hexBytes(digest), scalarHex(rr), scalarHex(ss), v), rec)
				if v == v0 && rec != pointStr(pkv) {
					c.Violation(fmt.Sprintf("ecdsa RecoverPublicKey(true v=%d) = %s, signing key %s (%s %s)", v, rec, pointStr(pkv), cname, hname))
				}
				if v != v0 && rec == pointStr(pkv) {
					c.Violation(fmt.Sprintf("ecdsa RecoverPublicKey(v=%d != true v=%d) returned the signing key (%s %s)", v, v0, cname, hname))
				}
			}
			sgNeg, _ := ecdsa.NewSignature(rr, negS, vp(v0^1))
			rec := safely(func() string {
				p, err := ecdsa.RecoverPublicKey(suite, sgNeg, msg)
				if err != nil {
					return "none"
				}
				return pointStr(p.Value())
			})
			c.Emit(fmt.Sprintf("ecdsa.recover %s %s %s %s %d", cname, hexBytes(digest), scalarHex(rr), scalarHex(negS), v0^1), rec)
			if rec != pointStr(pkv) {
				c.Violation(fmt.Sprintf("ecdsa RecoverPublicKey on (r,n-s,v^1) = %s, signing key %s", rec, pointStr(pkv)))
			}
		}
		// honest
		try("honest", false, pkv, msg, rr, ss, vp(v0), "accept")
		if level == 0 {
			m2 := c15AlterMsg(r, msg)
			try("alt-m", false, pkv, m2[len(m2)-1], rr, ss, vp(v0), "reject")
			try("mall-negs-flipv", false, pkv, msg, rr, negS, vp(v0^1), "accept")
			continue
		}
		try("honest-strict", true, pkv, msg, rr, ss, vp(v0), strictExpect)
		// documented malleability
		try("mall-negs-flipv", false, pkv, msg, rr, negS, vp(v0^1), "accept")
		try("mall-noV", false, pkv, msg, rr, ss, nil, "accept")
		try("mall-negs-noV", false, pkv, msg, rr, negS, nil, "accept")
		if level == 1 {
			// core set
			try("alt-negs-keepv", false, pkv, msg, rr, negS, vp(v0), "reject")
			try("alt-v-flip", false, pkv, msg, rr, ss, vp(v0^1), "reject")
			m2 := c15AlterMsg(r, msg)
			try("alt-m", false, pkv, m2[len(m2)-1], rr, ss, vp(v0), "reject")
			try("alt-r", false, pkv, msg, rr.Add(sf.One()), ss, nil, "reject")
			try("alt-s", false, pkv, msg, rr, ss.Add(sf.One()), nil, "reject")
			try("alt-pk", false, pkv.Add(G), msg, rr, ss, nil, "reject")
			sgN, _ := ecdsa.NewSignature(rr, negS, vp(v0^1))
			if !low {
				sgN, _ = ecdsa.NewSignature(rr, ss, vp(v0))
			}
			sgN.Normalise()
			try("normalised-strict", true, pkv, msg, sgN.R(), sgN.S(), sgN.V(), "accept")
			recoverAll()
			continue
		}
		if low {
			try("mall-negs-flipv-strict", true, pkv, msg, rr, negS, vp(v0^1), "reject")
			try("mall-negs-noV-strict", true, pkv, msg, rr, negS, nil, "reject")
			try("noV-strict", true, pkv, msg, rr, ss, nil, "accept")
		} else {
			try("mall-negs-flipv-strict", true, pkv, msg, rr, negS, vp(v0^1), "accept")
			try("mall-negs-noV-strict", true, pkv, msg, rr, negS, nil, "accept")
			try("noV-strict", true, pkv, msg, rr, ss, nil, "reject")
		}
		// single-component alterations: must be rejected
		try("alt-negs-keepv", false, pkv, msg, rr, negS, vp(v0), "reject")
		for v := 0; v < 4; v++ {
			if v != v0 {
				try(fmt.Sprintf("alt-v%d", v), false, pkv, msg, rr, ss, vp(v), "reject")
			}
		}
		try("alt-v4", false, pkv, msg, rr, ss, vp(4), "reject")
		for i, m2 := range c15AlterMsg(r, msg) {
			try(fmt.Sprintf("alt-m%d", i), false, pkv, m2, rr, ss, vp(v0), "reject")
			try(fmt.Sprintf("alt-m%d-noV", i), false, pkv, m2, rr, ss, nil, "reject")
		}
		one := sf.One()
		rnd := scalarFromBig(sf, r.BigBelow(n))
		for i, r2 := range []S{rr.Add(one), rr.Neg(), rnd} {
			if r2.Equal(rr) {
				continue
			}
			try(fmt.Sprintf("alt-r%d", i), false, pkv, msg, r2, ss, vp(v0), "reject")
			try(fmt.Sprintf("alt-r%d-noV", i), false, pkv, msg, r2, ss, nil, "reject")
		}
		for i, s2 := range []S{ss.Add(one), ss.Double(), rnd} {
			if s2.Equal(ss) || s2.Equal(negS) {
				continue
			}
			try(fmt.Sprintf("alt-s%d", i), false, pkv, msg, rr, s2, vp(v0), "reject")
			try(fmt.Sprintf("alt-s%d-noV", i), false, pkv, msg, rr, s2, nil, "reject")
		}
		try("alt-s-zero", false, pkv, msg, rr, sf.Zero(), vp(v0), "reject")
		try("alt-r-zero", false, pkv, msg, sf.Zero(), ss, vp(v0), "reject")
		for i, p2 := range []P{pkv.Add(G), pkv.Neg(), pkv.Double(), curve.ScalarBaseMul(rnd)} {
			if p2.Equal(pkv) {
				continue
			}
			try(fmt.Sprintf("alt-pk%d", i), false, p2, msg, rr, ss, vp(v0), "reject")
			try(fmt.Sprintf("alt-pk%d-noV", i), false, p2, msg, rr, ss, nil, "reject")
		}

		// Normalise: preserves validity, yields low-S, flips v exactly when s is negated
		for _, sg0 := range []struct {
			s S
			v *int
		}{{ss, vp(v0)}, {negS, vp(v0 ^ 1)}, {ss, nil}} {
			sg, err := ecdsa.NewSignature(rr, sg0.s, sg0.v)
			if err != nil {
				c.Violation("ecdsa NewSignature failed on a valid signature")
				continue
			}
			vs := "-"
			if sg0.v != nil {
				vs = fmt.Sprint(*sg0.v)
			}
			nres := safely(func() string {
				sg.Normalise()
				nv := "-"
				if sg.V() != nil {
					nv = fmt.Sprint(*sg.V())
				}
				lh := "high"
				if sg.IsNormalized() {
					lh = "low"
				}
				return fmt.Sprintf("%s,%s,%s,%s", scalarHex(sg.R()), scalarHex(sg.S()), nv, lh)
			})
			c.Emit(fmt.Sprintf("ecdsa.normalise %s %s %s %s", cname, scalarHex(rr), scalarHex(sg0.s), vs), nres)
			try("normalised-strict", true, pkv, msg, sg.R(), sg.S(), sg.V(), "accept")
		}

		recoverAll()
	}
}
