package main

import (
	"bytes"
	"fmt"
	"slices"

	"github.com/fxamacker/cbor/v2"

	"github.com/bronlabs/bron-crypto/pkg/base/algebra"
	ds "github.com/bronlabs/bron-crypto/pkg/base/datastructures"
	"github.com/bronlabs/bron-crypto/pkg/base/datastructures/hashset"
	"github.com/bronlabs/bron-crypto/pkg/base/curves/k256"
	"github.com/bronlabs/bron-crypto/pkg/base/curves/pairable/bls12381"
	"github.com/bronlabs/bron-crypto/pkg/base/mat"
	"github.com/bronlabs/bron-crypto/pkg/mpc"
	"github.com/bronlabs/bron-crypto/pkg/mpc/dkg/trusteddealer"
	"github.com/bronlabs/bron-crypto/pkg/mpc/sharing"
	"github.com/bronlabs/bron-crypto/pkg/mpc/sharing/accessstructures"
	"github.com/bronlabs/bron-crypto/pkg/mpc/sharing/accessstructures/boolexpr"
	"github.com/bronlabs/bron-crypto/pkg/mpc/sharing/accessstructures/cnf"
	"github.com/bronlabs/bron-crypto/pkg/mpc/sharing/accessstructures/hierarchical"
	"github.com/bronlabs/bron-crypto/pkg/mpc/sharing/accessstructures/threshold"
	"github.com/bronlabs/bron-crypto/pkg/mpc/sharing/accessstructures/unanimity"
	"github.com/bronlabs/bron-crypto/pkg/mpc/sharing/scheme/kw"
	"github.com/bronlabs/bron-crypto/pkg/mpc/sharing/scheme/kw/msp"
	"github.com/bronlabs/bron-crypto/pkg/mpc/sharing/scheme/shamir"
	"github.com/bronlabs/bron-crypto/pkg/mpc/sharing/vss/feldman"
)

// c12EqBytes: equality through the (deterministic) encoding, for types without an Equal method.
func c12EqBytes[T any](a, b T) bool {
	x, r1 := c12Marshal(a)
	y, r2 := c12Marshal(b)
	return r1 == "ok" && r2 == "ok" && bytes.Equal(x, y)
}

func c12IDSet(r *Rng, lo, hi int) ds.Set[sharing.ID] {
	n := lo + r.IntN(hi-lo+1)
	s := hashset.NewComparable[sharing.ID]()
	for s.Size() < n {
		s.Add(sharing.ID(1 + r.IntN(9)))
	}
	return s.Freeze()
}

func c12GenThreshold(r *Rng) (*threshold.Threshold, error) {
	ps := c12IDSet(r, 2, 6)
	t := 2 + r.IntN(ps.Size()-1)
	return threshold.NewThresholdAccessStructure(uint(t), ps)
}

func c12GenUnanimity(r *Rng) (*unanimity.Unanimity, error) {
	return unanimity.NewUnanimityAccessStructure(c12IDSet(r, 2, 5))
}

func c12GenCNF(r *Rng) (*cnf.CNF, error) {
	for {
		k := 2 + r.IntN(3)
		sets := make([]ds.Set[sharing.ID], k)
		for i := range sets {
			sets[i] = c12IDSet(r, 1, 3)
		}
		c, err := cnf.NewCNFAccessStructure(sets...)
		if err == nil {
			return c, nil
		}
	}
}

func c12GenHierarchical(r *Rng) (*hierarchical.HierarchicalConjunctiveThreshold, error) {
	return c12GenHierarchicalOpt(r, false)
}

// with allowEmpty some levels (never the first) have no parties: the public constructor admits them
func c12GenHierarchicalOpt(r *Rng, allowEmpty bool) (*hierarchical.HierarchicalConjunctiveThreshold, error) {
	for {
		nl := 2 + r.IntN(2)
		id := sharing.ID(1)
		levels := make([]*hierarchical.ThresholdLevel, nl)
		cum := 0
		for i := range levels {
			cnt := 1 + r.IntN(3)
			if allowEmpty && i > 0 && r.IntN(8) == 0 {
				cnt = 0 // a level without parties: the constructor admits it
			}
			ids := make([]sharing.ID, cnt)
			for j := range ids {
				ids[j] = id
				id++
			}
			cum += 1 + r.IntN(max(cnt, 1))
			levels[i] = hierarchical.WithLevel(cum, ids...)
		}
		h, err := hierarchical.NewHierarchicalConjunctiveThresholdAccessStructure(levels...)
		if err == nil {
			return h, nil
		}
	}
}

// semantic equality (levels as threshold + party *set*): the wire order of a level's parties is
// not a function of the value (see the determinism check), so byte equality cannot be used here.
func c12EqHierarchical(a, b *hierarchical.HierarchicalConjunctiveThreshold) bool {
	la, lb := a.Levels(), b.Levels()
	if len(la) != len(lb) {
		return false
	}
	for i := range la {
		if la[i].Threshold() != lb[i].Threshold() || !la[i].Shareholders().Equal(lb[i].Shareholders()) {
			return false
		}
	}
	return true
}

func c12GenBoolNode(r *Rng, depth int, next *sharing.ID) *boolexpr.Node {
	if depth == 0 || r.IntN(3) == 0 {
		n := boolexpr.ID(*next)
		*next++
		return n
	}
	k := 2 + r.IntN(2)
	kids := make([]*boolexpr.Node, k)
	for i := range kids {
		kids[i] = c12GenBoolNode(r, depth-1, next)
	}
	return boolexpr.Threshold(1+r.IntN(k), kids...)
}

func c12GenBoolexpr(r *Rng) (*boolexpr.ThresholdGateAccessStructure, error) {
	next := sharing.ID(1)
	k := 2 + r.IntN(2)
	kids := make([]*boolexpr.Node, k)
	for i := range kids {
		kids[i] = c12GenBoolNode(r, 2, &next)
	}
	return boolexpr.NewThresholdGateAccessStructure(boolexpr.Threshold(1+r.IntN(k), kids...))
}

// mirror of the boolexpr wire format, used to rebuild the tree through the public constructors
type c12BoolNode struct {
	Kind      uint8          `cbor:"kind"`
	Attr      uint64         `cbor:"attr,omitempty"`
	Threshold int            `cbor:"threshold,omitempty"`
	Children  []*c12BoolNode `cbor:"children,omitempty"`
}
type c12BoolAS struct {
	Root         *c12BoolNode    `cbor:"root"`
	Shareholders map[uint64]bool `cbor:"shareholders"`
}

func (n *c12BoolNode) build() (*boolexpr.Node, error) {
	if n == nil {
		return nil, errC12("nil node")
	}
	switch n.Kind {
	case 2:
		if n.Threshold != 0 || len(n.Children) != 0 {
			return nil, errC12("attribute node with gate data")
		}
		return boolexpr.ID(sharing.ID(n.Attr)), nil
	case 1:
		if n.Attr != 0 {
			return nil, errC12("gate node with attribute data")
		}
		kids := make([]*boolexpr.Node, len(n.Children))
		for i, k := range n.Children {
			b, err := k.build()
			if err != nil {
				return nil, err
			}
			kids[i] = b
		}
		return boolexpr.Threshold(n.Threshold, kids...), nil
	default:
		return nil, fmt.Errorf("node kind %d", n.Kind)
	}
}

func c12ValidBoolexpr(v *boolexpr.ThresholdGateAccessStructure) error {
	b, err := v.MarshalCBOR()
	if err != nil {
		return err
	}
	var tagged cbor.Tag
	if err := cbor.Unmarshal(b, &tagged); err != nil {
		return err
	}
	inner, err := cbor.Marshal(tagged.Content)
	if err != nil {
		return err
	}
	var m c12BoolAS
	if err := cbor.Unmarshal(inner, &m); err != nil {
		return err
	}
	root, err := m.Root.build()
	if err != nil {
		return err
	}
	w, err := boolexpr.NewThresholdGateAccessStructure(root)
	if err != nil {
		return err
	}
	if !c12EqBytes(v, w) {
		return errC12("re-constructed access structure encodes differently")
	}
	if !v.Shareholders().Equal(w.Shareholders()) {
		return errC12("shareholder set differs from the tree's leaves")
	}
	return nil
}

func c12GenAnyAS(r *Rng) (accessstructures.Monotone, error) {
	switch r.IntN(5) {
	case 0:
		return c12GenThreshold(r)
	case 1:
		return c12GenUnanimity(r)
	case 2:
		return c12GenCNF(r)
	case 3:
		return c12GenHierarchical(r)
	default:
		return c12GenBoolexpr(r)
	}
}

func c12ValidMSP[S algebra.PrimeFieldElement[S]](v *msp.MSP[S]) error {
	if v.Matrix() == nil || v.RowsToHolders() == nil {
		return errC12("nil matrix / labelling")
	}
	lab := map[int]sharing.ID{}
	for k, id := range v.RowsToHolders().Iter() {
		lab[k] = id
	}
	// the rules themselves, independently of the constructor: a non-zero label for exactly the
	// rows 0 .. rows-1
	rows, cols := v.Matrix().Dimensions()
	if rows < 1 || cols < 1 || len(lab) != rows {
		return fmt.Errorf("%d labels for a %dx%d matrix", len(lab), rows, cols)
	}
	for i := 0; i < rows; i++ {
		if id, ok := lab[i]; !ok || id == 0 {
			return fmt.Errorf("row %d has no label or the label 0", i)
		}
	}
	w, err := msp.NewMSP(v.Matrix(), lab)
	if err != nil {
		return err
	}
	if !w.Equal(v) {
		return errC12("re-constructed MSP differs")
	}
	return nil
}

// c12ExpectedLifted computes, from public getters and plain group operations only (no library
// share / matrix / Equal helper), the public share of holder id: the rows of M labelled id, in
// ascending row order, applied to the verification vector: (M_i · V) = Σ_j M_ij · V_j.
func c12ExpectedLifted[E algebra.PrimeGroupElement[E, S], S algebra.PrimeFieldElement[S]](g algebra.PrimeGroup[E, S], m *msp.MSP[S], vv *feldman.VerificationVector[E, S], id sharing.ID) ([]E, error) {
	if m == nil || vv == nil || m.Matrix() == nil || vv.Value() == nil {
		return nil, errC12("nil MSP / verification vector")
	}
	_, cols := m.Matrix().Dimensions()
	vr, vc := vv.Value().Dimensions()
	if vc != 1 || vr != cols {
		return nil, fmt.Errorf("verification vector of shape %dx%d against an MSP with %d columns", vr, vc, cols)
	}
	var rows []int
	for k, h := range m.RowsToHolders().Iter() {
		if h == id {
			rows = append(rows, k)
		}
	}
	slices.Sort(rows)
	if len(rows) == 0 {
		return nil, fmt.Errorf("holder %d labels no MSP row", id)
	}
	out := make([]E, len(rows))
	for k, i := range rows {
		acc := g.OpIdentity()
		for j := 0; j < cols; j++ {
			mij, err := m.Matrix().Get(i, j)
			if err != nil {
				return nil, err
			}
			vj, err := vv.Value().Get(j, 0)
			if err != nil {
				return nil, err
			}
			acc = acc.Op(vj.ScalarOp(mij))
		}
		out[k] = acc
	}
	return out, nil
}

func c12ValidBasePM[E algebra.PrimeGroupElement[E, S], S algebra.PrimeFieldElement[S]](g algebra.PrimeGroup[E, S], v *mpc.BasePublicMaterial[E, S]) error {
	if err := c12ValidMSP(v.MSP()); err != nil {
		return err
	}
	w, err := mpc.NewBasePublicMaterial(v.MSP(), v.VerificationVector())
	if err != nil {
		return err
	}
	if !w.Equal(v) || !w.PublicKeyValue().Equal(v.PublicKeyValue()) {
		return errC12("re-constructed public material differs")
	}
	// independent of the constructor: every derived public key share is M_rows · V, component by
	// component, and the public key is V_0 (target e_0)
	holders := map[sharing.ID]bool{}
	for _, h := range v.MSP().RowsToHolders().Iter() {
		holders[h] = true
	}
	if v.PublicKeyShares() == nil || v.PublicKeyShares().Size() != len(holders) {
		return errC12("public key shares are not indexed by exactly the MSP's holders")
	}
	for id := range holders {
		exp, err := c12ExpectedLifted(g, v.MSP(), v.VerificationVector(), id)
		if err != nil {
			return err
		}
		t, ok := v.PublicKeyShares().Get(id)
		if !ok || t == nil || t.ID() != id || len(t.Value()) != len(exp) {
			return fmt.Errorf("public key share of holder %d missing or of the wrong length", id)
		}
		for k := range exp {
			if !t.Value()[k].Equal(exp[k]) {
				return fmt.Errorf("public key share of holder %d differs from M_row*V in component %d", id, k)
			}
		}
	}
	v0, err := v.VerificationVector().Value().Get(0, 0)
	if err != nil {
		return err
	}
	if !v.PublicKeyValue().Equal(v0) {
		return errC12("public key differs from the first entry of the verification vector")
	}
	return nil
}

func c12ValidShard[E algebra.PrimeGroupElement[E, S], S algebra.PrimeFieldElement[S]](g algebra.PrimeGroup[E, S], v *mpc.BaseShard[E, S]) error {
	if err := c12ValidBasePM(g, &v.BasePublicMaterial); err != nil {
		return err
	}
	if v.Share() == nil {
		return errC12("nil share")
	}
	w, err := mpc.NewBaseShard(v.Share(), v.VerificationVector(), v.MSP())
	if err != nil {
		return err
	}
	if !w.Equal(v) {
		return errC12("re-constructed shard differs")
	}
	// independent of the constructor and of every library comparison helper: each component of the
	// private share lifted to the group equals the corresponding row of M applied to V
	exp, err := c12ExpectedLifted(g, v.MSP(), v.VerificationVector(), v.Share().ID())
	if err != nil {
		return err
	}
	if len(v.Share().Value()) != len(exp) {
		return fmt.Errorf("private share has %d components, the holder owns %d MSP rows", len(v.Share().Value()), len(exp))
	}
	for k, s := range v.Share().Value() {
		if !g.Generator().ScalarOp(s).Equal(exp[k]) {
			return fmt.Errorf("private share component %d does not match the public data", k)
		}
	}
	return nil
}

// c12GenNonIdealCNF: a CNF structure in which some holder is missing from at least two maximal
// unqualified sets, i.e. owns at least two MSP rows (a multi-component share).
func c12GenNonIdealCNF(r *Rng) (*cnf.CNF, error) {
	for {
		n := 3 + r.IntN(4) // holders 1..n (small ids: the induced MSP uses a 64-bit set)
		k := 2 + r.IntN(3)
		sets := make([]ds.Set[sharing.ID], k)
		for i := range sets {
			s := hashset.NewComparable[sharing.ID]()
			sz := 1 + r.IntN(n-1)
			for s.Size() < sz {
				s.Add(sharing.ID(1 + r.IntN(n)))
			}
			sets[i] = s.Freeze()
		}
		c, err := cnf.NewCNFAccessStructure(sets...)
		if err != nil {
			continue
		}
		multi := false
		for id := range c.Shareholders().Iter() {
			absent := 0
			for u := range c.MaximalUnqualifiedSetsIter() {
				if !u.Contains(id) {
					absent++
				}
			}
			if absent >= 2 {
				multi = true
			}
		}
		if multi {
			return c, nil
		}
	}
}

// c12GenBoolRepeated: a threshold-gate tree whose leaves are drawn from a small pool, so that the
// same shareholder occurs under several gates (siblings stay distinct, as checkTree demands).
func c12GenBoolRepeated(r *Rng) (*boolexpr.ThresholdGateAccessStructure, error) {
	pool := 3 + r.IntN(3)
	var gen func(depth int) *boolexpr.Node
	gen = func(depth int) *boolexpr.Node {
		k := 2 + r.IntN(2)
		if k > pool {
			k = pool
		}
		kids := make([]*boolexpr.Node, 0, k)
		used := map[int]bool{}
		for len(kids) < k {
			if depth > 0 && r.IntN(3) == 0 {
				kids = append(kids, gen(depth-1))
				continue
			}
			id := 1 + r.IntN(pool)
			if used[id] {
				continue
			}
			used[id] = true
			kids = append(kids, boolexpr.ID(sharing.ID(id)))
		}
		return boolexpr.Threshold(1+r.IntN(k), kids...)
	}
	for {
		k := 2 + r.IntN(2)
		kids := make([]*boolexpr.Node, k)
		for i := range kids {
			kids[i] = gen(1)
		}
		a, err := boolexpr.NewThresholdGateAccessStructure(boolexpr.Threshold(1+r.IntN(k), kids...))
		if err == nil && a.CountLeaves() > a.Shareholders().Size() {
			return a, nil
		}
	}
}

// c12GenNonIdealAS: an access structure whose induced MSP gives some holder several rows.
func c12GenNonIdealAS(r *Rng) (accessstructures.Monotone, error) {
	if r.IntN(2) == 0 {
		return c12GenNonIdealCNF(r)
	}
	return c12GenBoolRepeated(r)
}

// c12Deal deals a fresh key over a generated access structure; with nonIdeal the structure is a CNF
// / boolean-formula structure in which some holder owns several MSP rows.  The shards are returned
// sorted by holder, those with the most share components first when nonIdeal.
func c12Deal[E algebra.PrimeGroupElement[E, S], S algebra.PrimeFieldElement[S]](r *Rng, g algebra.PrimeGroup[E, S], nonIdeal bool) ([]*mpc.BaseShard[E, S], error) {
	// some generated structures are refused by the Feldman scheme (e.g. hierarchical constraints
	// over the field): draw again
	var shards ds.Map[sharing.ID, *mpc.BaseShard[E, S]]
	var err error
	for try := 0; try < 40; try++ {
		var ac accessstructures.Monotone
		if nonIdeal {
			ac, err = c12GenNonIdealAS(r)
		} else {
			ac, err = c12GenAnyAS(r)
		}
		if err != nil {
			continue
		}
		shards, err = trusteddealer.Deal(g, ac, r)
		if err != nil {
			continue
		}
		if nonIdeal {
			multi := false
			for _, sh := range shards.Values() {
				if len(sh.Share().Value()) >= 2 {
					multi = true
				}
			}
			if !multi {
				err = errC12("no multi-row holder")
				continue
			}
		}
		break
	}
	if err != nil {
		return nil, err
	}
	ids := shards.Keys()
	slices.Sort(ids)
	out := make([]*mpc.BaseShard[E, S], len(ids))
	for i, id := range ids {
		out[i], _ = shards.Get(id)
	}
	if nonIdeal {
		slices.SortStableFunc(out, func(a, b *mpc.BaseShard[E, S]) int {
			return len(b.Share().Value()) - len(a.Share().Value())
		})
	}
	return out, nil
}

// c12PickShard: every second value is the shard of a multi-row holder of a non-ideal structure.
func c12PickShard[E algebra.PrimeGroupElement[E, S], S algebra.PrimeFieldElement[S]](c *c12Alt, r *Rng, g algebra.PrimeGroup[E, S]) (*mpc.BaseShard[E, S], error) {
	nonIdeal := c.next()
	sh, err := c12Deal(r, g, nonIdeal)
	if err != nil {
		return nil, err
	}
	if nonIdeal {
		return sh[0], nil
	}
	return sh[r.IntN(len(sh))], nil
}

// c12Alt alternates between the two value sources of a case (first call: true).
type c12Alt struct{ n int }

func (a *c12Alt) next() bool { a.n++; return a.n%2 == 1 }

func c12RegisterSharing[E algebra.PrimeGroupElement[E, S], S algebra.PrimeFieldElement[S]](cn string, g algebra.PrimeGroup[E, S], f algebra.PrimeField[S]) {
	fam := c12NewFamily(cn, g, f)
	heavy := 2
	if cn != "k256" {
		heavy = 5 // BLS12-381 arithmetic in pure Go is an order of magnitude slower
	}
	c12Register(c12Case[*mpc.BaseShard[E, S]]{
		name:   "mpc.BaseShard/" + cn,
		weight: heavy,
		fam:    fam,
		gen: func() func(r *Rng) (*mpc.BaseShard[E, S], error) {
			alt := &c12Alt{}
			return func(r *Rng) (*mpc.BaseShard[E, S], error) { return c12PickShard(alt, r, g) }
		}(),
		equal: func(a, b *mpc.BaseShard[E, S]) bool { return a.Equal(b) && a.Share().Equal(b.Share()) },
		valid: func(v *mpc.BaseShard[E, S]) error { return c12ValidShard(g, v) },
	})
	c12Register(c12Case[*mpc.BasePublicMaterial[E, S]]{
		name:   "mpc.BasePublicMaterial/" + cn,
		weight: heavy,
		fam:    fam,
		gen: func() func(r *Rng) (*mpc.BasePublicMaterial[E, S], error) {
			alt := &c12Alt{}
			return func(r *Rng) (*mpc.BasePublicMaterial[E, S], error) {
				sh, err := c12Deal(r, g, alt.next())
				if err != nil {
					return nil, err
				}
				return &sh[0].BasePublicMaterial, nil
			}
		}(),
		equal: func(a, b *mpc.BasePublicMaterial[E, S]) bool { return a.Equal(b) },
		valid: func(v *mpc.BasePublicMaterial[E, S]) error { return c12ValidBasePM(g, v) },
	})
	c12Register(c12Case[*feldman.VerificationVector[E, S]]{
		name:   "feldman.VerificationVector/" + cn,
		weight: 2,
		fam:    fam,
		gen: func() func(r *Rng) (*feldman.VerificationVector[E, S], error) {
			alt := &c12Alt{}
			return func(r *Rng) (*feldman.VerificationVector[E, S], error) {
				sh, err := c12Deal(r, g, alt.next())
				if err != nil {
					return nil, err
				}
				return sh[0].VerificationVector(), nil
			}
		}(),
		equal: func(a, b *feldman.VerificationVector[E, S]) bool { return a.Equal(b) },
		valid: func(v *feldman.VerificationVector[E, S]) error {
			if v.Value() == nil {
				return errC12("nil value")
			}
			rows, cols := v.Value().Dimensions()
			if cols != 1 || rows < 1 {
				return fmt.Errorf("verification vector of shape %dx%d", rows, cols)
			}
			for i := 0; i < rows; i++ {
				p, err := v.Value().Get(i, 0)
				if err != nil {
					return err
				}
				if c12IsNil(any(p)) {
					return fmt.Errorf("verification vector entry %d is nil", i)
				}
			}
			w, err := feldman.NewVerificationVector(v.Value(), nil)
			if err != nil {
				return err
			}
			if !w.Equal(v) {
				return errC12("re-constructed verification vector differs")
			}
			return nil
		},
	})
	c12Register(c12Case[*msp.MSP[S]]{
		name: "msp.MSP/" + cn,
		fam:  fam,
		gen: func() func(r *Rng) (*msp.MSP[S], error) {
			alt := &c12Alt{}
			return func(r *Rng) (*msp.MSP[S], error) {
				var ac accessstructures.Monotone
				var err error
				if alt.next() {
					ac, err = c12GenNonIdealAS(r)
				} else {
					ac, err = c12GenAnyAS(r)
				}
				if err != nil {
					return nil, err
				}
				return accessstructures.InducedMSP(f, ac)
			}
		}(),
		equal: func(a, b *msp.MSP[S]) bool { return a.Equal(b) },
		valid: c12ValidMSP[S],
	})
	c12Register(c12Case[*kw.Share[S]]{
		name: "kw.Share/" + cn,
		fam:  fam,
		gen: func(r *Rng) (*kw.Share[S], error) {
			vals := make([]S, 1+r.IntN(3))
			for i := range vals {
				vals[i] = smallOrRandom(r, f, 30)
			}
			return kw.NewShare(sharing.ID(1+r.IntN(9)), vals...)
		},
		equal: func(a, b *kw.Share[S]) bool { return a.Equal(b) },
		valid: func(v *kw.Share[S]) error {
			if v.ID() == 0 || len(v.Value()) == 0 {
				return errC12("share with ID 0 or without components")
			}
			w, err := kw.NewShare(v.ID(), v.Value()...)
			if err != nil {
				return err
			}
			if !w.Equal(v) {
				return errC12("re-constructed share differs")
			}
			return nil
		},
	})
	c12Register(c12Case[*feldman.LiftedShare[E, S]]{
		name: "feldman.LiftedShare/" + cn,
		fam:  fam,
		gen: func(r *Rng) (*feldman.LiftedShare[E, S], error) {
			vals := make([]E, 1+r.IntN(3))
			for i := range vals {
				vals[i] = g.Generator().ScalarOp(smallOrRandom(r, f, 30))
			}
			return feldman.NewLiftedShare(sharing.ID(1+r.IntN(9)), vals...)
		},
		// component-wise, not through LiftedShare.Equal
		equal: func(a, b *feldman.LiftedShare[E, S]) bool {
			if a.ID() != b.ID() || len(a.Value()) != len(b.Value()) {
				return false
			}
			for i := range a.Value() {
				if !a.Value()[i].Equal(b.Value()[i]) {
					return false
				}
			}
			return true
		},
		valid: func(v *feldman.LiftedShare[E, S]) error {
			if v.ID() == 0 || len(v.Value()) == 0 {
				return errC12("lifted share with ID 0 or without components")
			}
			if _, err := feldman.NewLiftedShare(v.ID(), v.Value()...); err != nil {
				return err
			}
			return nil
		},
	})
	c12Register(c12Case[*shamir.Share[S]]{
		name: "shamir.Share/" + cn,
		fam:  fam,
		gen: func(r *Rng) (*shamir.Share[S], error) {
			ac, err := c12GenThreshold(r)
			if err != nil {
				return nil, err
			}
			ids := slices.Sorted(ac.Shareholders().Iter())
			return shamir.NewShare(ids[r.IntN(len(ids))], smallOrRandom(r, f, 30), ac)
		},
		equal: func(a, b *shamir.Share[S]) bool { return a.Equal(b) },
		valid: func(v *shamir.Share[S]) error {
			if v.ID() == 0 {
				return errC12("share with ID 0")
			}
			w, err := shamir.NewShare(v.ID(), v.Value(), nil)
			if err != nil {
				return err
			}
			if !w.Equal(v) {
				return errC12("re-constructed share differs")
			}
			return nil
		},
	})
	c12Register(c12Case[*mat.Matrix[S]]{
		name: "mat.Matrix/" + cn,
		fam:  fam,
		gen: func(r *Rng) (*mat.Matrix[S], error) {
			m, n := 1+r.IntN(4), 1+r.IntN(4)
			mod, err := mat.NewMatrixModule(uint(m), uint(n), f)
			if err != nil {
				return nil, err
			}
			return mod.New(genRows(r, f, m, n))
		},
		equal: func(a, b *mat.Matrix[S]) bool { return a.Equal(b) },
		valid: func(v *mat.Matrix[S]) error {
			m, n := v.Dimensions()
			if m < 1 || n < 1 {
				return fmt.Errorf("matrix of shape %dx%d", m, n)
			}
			mod, err := mat.NewMatrixModule(uint(m), uint(n), f)
			if err != nil {
				return err
			}
			rows := make([][]S, m)
			for i := range rows {
				rows[i] = make([]S, n)
				for j := range rows[i] {
					x, err := v.Get(i, j)
					if err != nil {
						return err
					}
					rows[i][j] = x
				}
			}
			w, err := mod.New(rows)
			if err != nil {
				return err
			}
			if !w.Equal(v) {
				return errC12("re-constructed matrix differs")
			}
			return nil
		},
	})
}

func init() {
	c12Register(c12Case[*threshold.Threshold]{
		name:  "threshold.Threshold",
		gen:   c12GenThreshold,
		equal: func(a, b *threshold.Threshold) bool { return a.Equal(b) },
		valid: func(v *threshold.Threshold) error {
			// the rules themselves, independently of the constructor
			if v.Shareholders() == nil || v.Shareholders().Contains(0) || v.Threshold() < 2 || int(v.Threshold()) > v.Shareholders().Size() {
				return fmt.Errorf("threshold %d over %d shareholders (or shareholder 0)", v.Threshold(), v.Shareholders().Size())
			}
			w, err := threshold.NewThresholdAccessStructure(v.Threshold(), v.Shareholders())
			if err != nil {
				return err
			}
			if !w.Equal(v) {
				return errC12("re-constructed structure differs")
			}
			return nil
		},
	})
	c12Register(c12Case[*unanimity.Unanimity]{
		name:  "unanimity.Unanimity",
		gen:   c12GenUnanimity,
		equal: func(a, b *unanimity.Unanimity) bool { return a.Equal(b) },
		valid: func(v *unanimity.Unanimity) error {
			if v.Shareholders() == nil || v.Shareholders().Contains(0) || v.Shareholders().Size() < 2 {
				return errC12("fewer than 2 shareholders or shareholder 0")
			}
			w, err := unanimity.NewUnanimityAccessStructure(v.Shareholders())
			if err != nil {
				return err
			}
			if !w.Equal(v) {
				return errC12("re-constructed structure differs")
			}
			return nil
		},
	})
	c12Register(c12Case[*cnf.CNF]{
		name:  "cnf.CNF",
		gen: func() func(r *Rng) (*cnf.CNF, error) {
			alt := &c12Alt{}
			return func(r *Rng) (*cnf.CNF, error) {
				if alt.next() {
					return c12GenNonIdealCNF(r)
				}
				return c12GenCNF(r)
			}
		}(),
		equal: c12EqBytes[*cnf.CNF],
		valid: func(v *cnf.CNF) error {
			// the rules themselves: non-empty antichain of non-empty sets without 0, at least two
			// shareholders, shareholders = union of the sets
			sets := slices.Collect(v.MaximalUnqualifiedSetsIter())
			if len(sets) == 0 {
				return errC12("no maximal unqualified set")
			}
			union := hashset.NewComparable[sharing.ID]()
			for i, a := range sets {
				if a == nil || a.IsEmpty() || a.Contains(0) {
					return errC12("empty unqualified set or shareholder 0")
				}
				union.AddAll(a.List()...)
				for j, b := range sets {
					if i != j && a.IsSubSet(b) {
						return errC12("unqualified sets are not an antichain")
					}
				}
			}
			if union.Size() < 2 || !union.Freeze().Equal(v.Shareholders()) {
				return errC12("shareholders are not the union of the unqualified sets (or fewer than 2)")
			}
			w, err := cnf.NewCNFAccessStructure(slices.Collect(v.MaximalUnqualifiedSetsIter())...)
			if err != nil {
				return err
			}
			if !c12EqBytes(v, w) {
				return errC12("re-constructed (normalised) CNF encodes differently")
			}
			return nil
		},
	})
	c12Register(c12Case[*hierarchical.HierarchicalConjunctiveThreshold]{
		name:  "hierarchical.HierarchicalConjunctiveThreshold",
		gen:   func(r *Rng) (*hierarchical.HierarchicalConjunctiveThreshold, error) { return c12GenHierarchicalOpt(r, true) },
		equal: c12EqHierarchical,
		valid: func(v *hierarchical.HierarchicalConjunctiveThreshold) error {
			// the rules themselves: thresholds strictly increasing from above 0, parties without 0,
			// levels disjoint, each threshold at most the number of parties so far
			prev, seen := 0, map[sharing.ID]bool{}
			if len(v.Levels()) == 0 {
				return errC12("no level")
			}
			for _, l := range v.Levels() {
				if l == nil || l.Threshold() <= prev {
					return errC12("thresholds not strictly increasing")
				}
				prev = l.Threshold()
				for p := range l.Shareholders().Iter() {
					if p == 0 || seen[p] {
						return errC12("party 0 or a party in two levels")
					}
					seen[p] = true
				}
				if len(seen) < l.Threshold() {
					return errC12("threshold above the number of parties so far")
				}
			}
			w, err := hierarchical.NewHierarchicalConjunctiveThresholdAccessStructure(v.Levels()...)
			if err != nil {
				return err
			}
			if !c12EqHierarchical(v, w) {
				return errC12("re-constructed structure differs")
			}
			return nil
		},
	})
	c12Register(c12Case[*boolexpr.ThresholdGateAccessStructure]{
		name:  "boolexpr.ThresholdGateAccessStructure",
		gen: func() func(r *Rng) (*boolexpr.ThresholdGateAccessStructure, error) {
			alt := &c12Alt{}
			return func(r *Rng) (*boolexpr.ThresholdGateAccessStructure, error) {
				if alt.next() {
					return c12GenBoolRepeated(r)
				}
				return c12GenBoolexpr(r)
			}
		}(),
		equal: c12EqBytes[*boolexpr.ThresholdGateAccessStructure],
		valid: c12ValidBoolexpr,
	})
	c12RegisterSharing("k256", cK256, fK256)
	c12RegisterSharing[*bls12381.PointG1, *bls12381.Scalar]("bls12381g1", cBLSG1, fBLS)
	_ = k256.NewCurve
}
