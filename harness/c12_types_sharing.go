package main

import (
	"bytes"
	"fmt"
	"slices"

	"github.com/fxamacker/cbor/v2"

	"github.com/bronlabs/bron-crypto/pkg/base/algebra"
	ds "github.com/bronlabs/bron-crypto/pkg/base/datastructures"
	"github.com/bronlabs/bron-crypto/pkg/base/datastructures/hashset"
	"github.com/bronlabs/bron-crypto/pkg/base/curves/k256"
	"github.com/bronlabs/bron-crypto/pkg/base/curves/pairable/bls12381"
	"github.com/bronlabs/bron-crypto/pkg/base/mat"
	"github.com/bronlabs/bron-crypto/pkg/mpc"
	"github.com/bronlabs/bron-crypto/pkg/mpc/dkg/trusteddealer"
	"github.com/bronlabs/bron-crypto/pkg/mpc/sharing"
	"github.com/bronlabs/bron-crypto/pkg/mpc/sharing/accessstructures"
	"github.com/bronlabs/bron-crypto/pkg/mpc/sharing/accessstructures/boolexpr"
	"github.com/bronlabs/bron-crypto/pkg/mpc/sharing/accessstructures/cnf"
	"github.com/bronlabs/bron-crypto/pkg/mpc/sharing/accessstructures/hierarchical"
	"github.com/bronlabs/bron-crypto/pkg/mpc/sharing/accessstructures/threshold"
	"github.com/bronlabs/bron-crypto/pkg/mpc/sharing/accessstructures/unanimity"
	"github.com/bronlabs/bron-crypto/pkg/mpc/sharing/scheme/kw"
	"github.com/bronlabs/bron-crypto/pkg/mpc/sharing/scheme/kw/msp"
	"github.com/bronlabs/bron-crypto/pkg/mpc/sharing/scheme/shamir"
	"github.com/bronlabs/bron-crypto/pkg/mpc/sharing/vss/feldman"
)

// c12EqBytes: equality through the (deterministic) encoding, for types without an Equal method.
func c12EqBytes[T any](a, b T) bool {
	x, r1 := c12Marshal(a)
	y, r2 := c12Marshal(b)
	return r1 == "ok" && r2 == "ok" && bytes.Equal(x, y)
}

func c12IDSet(r *Rng, lo, hi int) ds.Set[sharing.ID] {
	n := lo + r.IntN(hi-lo+1)
	s := hashset.NewComparable[sharing.ID]()
	for s.Size() < n {
		s.Add(sharing.ID(1 + r.IntN(9)))
	}
	return s.Freeze()
}

func c12GenThreshold(r *Rng) (*threshold.Threshold, error) {
	ps := c12IDSet(r, 2, 6)
	t := 2 + r.IntN(ps.Size()-1)
	return threshold.NewThresholdAccessStructure(uint(t), ps)
}

func c12GenUnanimity(r *Rng) (*unanimity.Unanimity, error) {
	return unanimity.NewUnanimityAccessStructure(c12IDSet(r, 2, 5))
}

func c12GenCNF(r *Rng) (*cnf.CNF, error) {
	for {
		k := 2 + r.IntN(3)
		sets := make([]ds.Set[sharing.ID], k)
		for i := range sets {
			sets[i] = c12IDSet(r, 1, 3)
		}
		c, err := cnf.NewCNFAccessStructure(sets...)
		if err == nil {
			return c, nil
		}
	}
}

func c12GenHierarchical(r *Rng) (*hierarchical.HierarchicalConjunctiveThreshold, error) {
	for {
		nl := 2 + r.IntN(2)
		id := sharing.ID(1)
		levels := make([]*hierarchical.ThresholdLevel, nl)
		cum := 0
		for i := range levels {
			cnt := 1 + r.IntN(3)
			ids := make([]sharing.ID, cnt)
			for j := range ids {
				ids[j] = id
				id++
			}
			cum += 1 + r.IntN(cnt)
			levels[i] = hierarchical.WithLevel(cum, ids...)
		}
		h, err := hierarchical.NewHierarchicalConjunctiveThresholdAccessStructure(levels...)
		if err == nil {
			return h, nil
		}
	}
}

// semantic equality (levels as threshold + party *set*): the wire order of a level's parties is
// not a function of the value (see the determinism check), so byte equality cannot be used here.
func c12EqHierarchical(a, b *hierarchical.HierarchicalConjunctiveThreshold) bool {
	la, lb := a.Levels(), b.Levels()
	if len(la) != len(lb) {
		return false
	}
	for i := range la {
		if la[i].Threshold() != lb[i].Threshold() || !la[i].Shareholders().Equal(lb[i].Shareholders()) {
			return false
		}
	}
	return true
}

func c12GenBoolNode(r *Rng, depth int, next *sharing.ID) *boolexpr.Node {
	if depth == 0 || r.IntN(3) == 0 {
		n := boolexpr.ID(*next)
		*next++
		return n
	}
	k := 2 + r.IntN(2)
	kids := make([]*boolexpr.Node, k)
	for i := range kids {
		kids[i] = c12GenBoolNode(r, depth-1, next)
	}
	return boolexpr.Threshold(1+r.IntN(k), kids...)
}

func c12GenBoolexpr(r *Rng) (*boolexpr.ThresholdGateAccessStructure, error) {
	next := sharing.ID(1)
	k := 2 + r.IntN(2)
	kids := make([]*boolexpr.Node, k)
	for i := range kids {
		kids[i] = c12GenBoolNode(r, 2, &next)
	}
	return boolexpr.NewThresholdGateAccessStructure(boolexpr.Threshold(1+r.IntN(k), kids...))
}

// mirror of the boolexpr wire format, used to rebuild the tree through the public constructors
type c12BoolNode struct {
	Kind      uint8          `cbor:"kind"`
	Attr      uint64         `cbor:"attr,omitempty"`
	Threshold int            `cbor:"threshold,omitempty"`
	Children  []*c12BoolNode `cbor:"children,omitempty"`
}
type c12BoolAS struct {
	Root         *c12BoolNode    `cbor:"root"`
	Shareholders map[uint64]bool `cbor:"shareholders"`
}

func (n *c12BoolNode) build() (*boolexpr.Node, error) {
	if n == nil {
		return nil, errC12("nil node")
	}
	switch n.Kind {
	case 2:
		if n.Threshold != 0 || len(n.Children) != 0 {
			return nil, errC12("attribute node with gate data")
		}
		return boolexpr.ID(sharing.ID(n.Attr)), nil
	case 1:
		if n.Attr != 0 {
			return nil, errC12("gate node with attribute data")
		}
		kids := make([]*boolexpr.Node, len(n.Children))
		for i, k := range n.Children {
			b, err := k.build()
			if err != nil {
				return nil, err
			}
			kids[i] = b
		}
		return boolexpr.Threshold(n.Threshold, kids...), nil
	default:
		return nil, fmt.Errorf("node kind %d", n.Kind)
	}
}

func c12ValidBoolexpr(v *boolexpr.ThresholdGateAccessStructure) error {
	b, err := v.MarshalCBOR()
	if err != nil {
		return err
	}
	var tagged cbor.Tag
	if err := cbor.Unmarshal(b, &tagged); err != nil {
		return err
	}
	inner, err := cbor.Marshal(tagged.Content)
	if err != nil {
		return err
	}
	var m c12BoolAS
	if err := cbor.Unmarshal(inner, &m); err != nil {
		return err
	}
	root, err := m.Root.build()
	if err != nil {
		return err
	}
	w, err := boolexpr.NewThresholdGateAccessStructure(root)
	if err != nil {
		return err
	}
	if !c12EqBytes(v, w) {
		return errC12("re-constructed access structure encodes differently")
	}
	if !v.Shareholders().Equal(w.Shareholders()) {
		return errC12("shareholder set differs from the tree's leaves")
	}
	return nil
}

func c12GenAnyAS(r *Rng) (accessstructures.Monotone, error) {
	switch r.IntN(5) {
	case 0:
		return c12GenThreshold(r)
	case 1:
		return c12GenUnanimity(r)
	case 2:
		return c12GenCNF(r)
	case 3:
		return c12GenHierarchical(r)
	default:
		return c12GenBoolexpr(r)
	}
}

func c12ValidMSP[S algebra.PrimeFieldElement[S]](v *msp.MSP[S]) error {
	if v.Matrix() == nil || v.RowsToHolders() == nil {
		return errC12("nil matrix / labelling")
	}
	lab := map[int]sharing.ID{}
	for k, id := range v.RowsToHolders().Iter() {
		lab[k] = id
	}
	w, err := msp.NewMSP(v.Matrix(), lab)
	if err != nil {
		return err
	}
	if !w.Equal(v) {
		return errC12("re-constructed MSP differs")
	}
	return nil
}

func c12ValidBasePM[E algebra.PrimeGroupElement[E, S], S algebra.PrimeFieldElement[S]](v *mpc.BasePublicMaterial[E, S]) error {
	if err := c12ValidMSP(v.MSP()); err != nil {
		return err
	}
	w, err := mpc.NewBasePublicMaterial(v.MSP(), v.VerificationVector())
	if err != nil {
		return err
	}
	if !w.Equal(v) || !w.PublicKeyValue().Equal(v.PublicKeyValue()) {
		return errC12("re-constructed public material differs")
	}
	for id, s := range w.PublicKeyShares().Iter() {
		t, ok := v.PublicKeyShares().Get(id)
		if !ok || !t.Equal(s) {
			return errC12("public key shares differ from those derived from the verification vector")
		}
	}
	return nil
}

func c12ValidShard[E algebra.PrimeGroupElement[E, S], S algebra.PrimeFieldElement[S]](v *mpc.BaseShard[E, S]) error {
	if err := c12ValidBasePM(&v.BasePublicMaterial); err != nil {
		return err
	}
	w, err := mpc.NewBaseShard(v.Share(), v.VerificationVector(), v.MSP())
	if err != nil {
		return err
	}
	if !w.Equal(v) {
		return errC12("re-constructed shard differs")
	}
	// independent of the constructor: the private share lifted to the group equals the public
	// key share derived from the verification vector
	group := algebra.StructureMustBeAs[algebra.PrimeGroup[E, S]](v.VerificationVector().Value().Module().BaseModule())
	lifted, err := feldman.LiftShare(v.Share(), group.Generator())
	if err != nil {
		return err
	}
	pks, ok := v.PublicKeyShares().Get(v.Share().ID())
	if !ok || !lifted.Equal(pks) {
		return errC12("private share does not match the public data")
	}
	return nil
}

func c12Deal[E algebra.PrimeGroupElement[E, S], S algebra.PrimeFieldElement[S]](r *Rng, g algebra.PrimeGroup[E, S]) ([]*mpc.BaseShard[E, S], error) {
	// some generated structures are refused by the Feldman scheme (e.g. hierarchical constraints
	// over the field): draw again
	var shards ds.Map[sharing.ID, *mpc.BaseShard[E, S]]
	var err error
	for try := 0; try < 20; try++ {
		var ac accessstructures.Monotone
		ac, err = c12GenAnyAS(r)
		if err != nil {
			continue
		}
		shards, err = trusteddealer.Deal(g, ac, r)
		if err == nil {
			break
		}
	}
	if err != nil {
		return nil, err
	}
	ids := shards.Keys()
	slices.Sort(ids)
	out := make([]*mpc.BaseShard[E, S], len(ids))
	for i, id := range ids {
		out[i], _ = shards.Get(id)
	}
	return out, nil
}

func c12RegisterSharing[E algebra.PrimeGroupElement[E, S], S algebra.PrimeFieldElement[S]](cn string, g algebra.PrimeGroup[E, S], f algebra.PrimeField[S]) {
	c12Register(c12Case[*mpc.BaseShard[E, S]]{
		name:   "mpc.BaseShard/" + cn,
		weight: 2,
		gen: func(r *Rng) (*mpc.BaseShard[E, S], error) {
			sh, err := c12Deal(r, g)
			if err != nil {
				return nil, err
			}
			return sh[r.IntN(len(sh))], nil
		},
		equal: func(a, b *mpc.BaseShard[E, S]) bool { return a.Equal(b) && a.Share().Equal(b.Share()) },
		valid: c12ValidShard[E, S],
	})
	c12Register(c12Case[*mpc.BasePublicMaterial[E, S]]{
		name:   "mpc.BasePublicMaterial/" + cn,
		weight: 2,
		gen: func(r *Rng) (*mpc.BasePublicMaterial[E, S], error) {
			sh, err := c12Deal(r, g)
			if err != nil {
				return nil, err
			}
			return &sh[0].BasePublicMaterial, nil
		},
		equal: func(a, b *mpc.BasePublicMaterial[E, S]) bool { return a.Equal(b) },
		valid: c12ValidBasePM[E, S],
	})
	c12Register(c12Case[*feldman.VerificationVector[E, S]]{
		name:   "feldman.VerificationVector/" + cn,
		weight: 2,
		gen: func(r *Rng) (*feldman.VerificationVector[E, S], error) {
			sh, err := c12Deal(r, g)
			if err != nil {
				return nil, err
			}
			return sh[0].VerificationVector(), nil
		},
		equal: func(a, b *feldman.VerificationVector[E, S]) bool { return a.Equal(b) },
		valid: func(v *feldman.VerificationVector[E, S]) error {
			if v.Value() == nil {
				return errC12("nil value")
			}
			rows, cols := v.Value().Dimensions()
			if cols != 1 || rows < 1 {
				return fmt.Errorf("verification vector of shape %dx%d", rows, cols)
			}
			return nil
		},
	})
	c12Register(c12Case[*msp.MSP[S]]{
		name: "msp.MSP/" + cn,
		gen: func(r *Rng) (*msp.MSP[S], error) {
			ac, err := c12GenAnyAS(r)
			if err != nil {
				return nil, err
			}
			return accessstructures.InducedMSP(f, ac)
		},
		equal: func(a, b *msp.MSP[S]) bool { return a.Equal(b) },
		valid: c12ValidMSP[S],
	})
	c12Register(c12Case[*kw.Share[S]]{
		name: "kw.Share/" + cn,
		gen: func(r *Rng) (*kw.Share[S], error) {
			vals := make([]S, 1+r.IntN(3))
			for i := range vals {
				vals[i] = smallOrRandom(r, f, 30)
			}
			return kw.NewShare(sharing.ID(1+r.IntN(9)), vals...)
		},
		equal: func(a, b *kw.Share[S]) bool { return a.Equal(b) },
		valid: func(v *kw.Share[S]) error {
			w, err := kw.NewShare(v.ID(), v.Value()...)
			if err != nil {
				return err
			}
			if !w.Equal(v) {
				return errC12("re-constructed share differs")
			}
			return nil
		},
	})
	c12Register(c12Case[*feldman.LiftedShare[E, S]]{
		name: "feldman.LiftedShare/" + cn,
		gen: func(r *Rng) (*feldman.LiftedShare[E, S], error) {
			vals := make([]E, 1+r.IntN(3))
			for i := range vals {
				vals[i] = g.Generator().ScalarOp(smallOrRandom(r, f, 30))
			}
			return feldman.NewLiftedShare(sharing.ID(1+r.IntN(9)), vals...)
		},
		equal: func(a, b *feldman.LiftedShare[E, S]) bool { return a.Equal(b) },
		valid: func(v *feldman.LiftedShare[E, S]) error {
			w, err := feldman.NewLiftedShare(v.ID(), v.Value()...)
			if err != nil {
				return err
			}
			if !w.Equal(v) {
				return errC12("re-constructed lifted share differs")
			}
			return nil
		},
	})
	c12Register(c12Case[*shamir.Share[S]]{
		name: "shamir.Share/" + cn,
		gen: func(r *Rng) (*shamir.Share[S], error) {
			ac, err := c12GenThreshold(r)
			if err != nil {
				return nil, err
			}
			ids := slices.Sorted(ac.Shareholders().Iter())
			return shamir.NewShare(ids[r.IntN(len(ids))], smallOrRandom(r, f, 30), ac)
		},
		equal: func(a, b *shamir.Share[S]) bool { return a.Equal(b) },
		valid: func(v *shamir.Share[S]) error {
			if v.ID() == 0 {
				return errC12("share with ID 0")
			}
			w, err := shamir.NewShare(v.ID(), v.Value(), nil)
			if err != nil {
				return err
			}
			if !w.Equal(v) {
				return errC12("re-constructed share differs")
			}
			return nil
		},
	})
	c12Register(c12Case[*mat.Matrix[S]]{
		name: "mat.Matrix/" + cn,
		gen: func(r *Rng) (*mat.Matrix[S], error) {
			m, n := 1+r.IntN(4), 1+r.IntN(4)
			mod, err := mat.NewMatrixModule(uint(m), uint(n), f)
			if err != nil {
				return nil, err
			}
			return mod.New(genRows(r, f, m, n))
		},
		equal: func(a, b *mat.Matrix[S]) bool { return a.Equal(b) },
		valid: func(v *mat.Matrix[S]) error {
			m, n := v.Dimensions()
			if m < 1 || n < 1 {
				return fmt.Errorf("matrix of shape %dx%d", m, n)
			}
			mod, err := mat.NewMatrixModule(uint(m), uint(n), f)
			if err != nil {
				return err
			}
			rows := make([][]S, m)
			for i := range rows {
				rows[i] = make([]S, n)
				for j := range rows[i] {
					x, err := v.Get(i, j)
					if err != nil {
						return err
					}
					rows[i][j] = x
				}
			}
			w, err := mod.New(rows)
			if err != nil {
				return err
			}
			if !w.Equal(v) {
				return errC12("re-constructed matrix differs")
			}
			return nil
		},
	})
}

func init() {
	c12Register(c12Case[*threshold.Threshold]{
		name:  "threshold.Threshold",
		gen:   c12GenThreshold,
		equal: func(a, b *threshold.Threshold) bool { return a.Equal(b) },
		valid: func(v *threshold.Threshold) error {
			w, err := threshold.NewThresholdAccessStructure(v.Threshold(), v.Shareholders())
			if err != nil {
				return err
			}
			if !w.Equal(v) {
				return errC12("re-constructed structure differs")
			}
			return nil
		},
	})
	c12Register(c12Case[*unanimity.Unanimity]{
		name:  "unanimity.Unanimity",
		gen:   c12GenUnanimity,
		equal: func(a, b *unanimity.Unanimity) bool { return a.Equal(b) },
		valid: func(v *unanimity.Unanimity) error {
			w, err := unanimity.NewUnanimityAccessStructure(v.Shareholders())
			if err != nil {
				return err
			}
			if !w.Equal(v) {
				return errC12("re-constructed structure differs")
			}
			return nil
		},
	})
	c12Register(c12Case[*cnf.CNF]{
		name:  "cnf.CNF",
		gen:   c12GenCNF,
		equal: c12EqBytes[*cnf.CNF],
		valid: func(v *cnf.CNF) error {
			w, err := cnf.NewCNFAccessStructure(slices.Collect(v.MaximalUnqualifiedSetsIter())...)
			if err != nil {
				return err
			}
			if !c12EqBytes(v, w) {
				return errC12("re-constructed (normalised) CNF encodes differently")
			}
			return nil
		},
	})
	c12Register(c12Case[*hierarchical.HierarchicalConjunctiveThreshold]{
		name:  "hierarchical.HierarchicalConjunctiveThreshold",
		gen:   c12GenHierarchical,
		equal: c12EqHierarchical,
		valid: func(v *hierarchical.HierarchicalConjunctiveThreshold) error {
			w, err := hierarchical.NewHierarchicalConjunctiveThresholdAccessStructure(v.Levels()...)
			if err != nil {
				return err
			}
			if !c12EqHierarchical(v, w) {
				return errC12("re-constructed structure differs")
			}
			return nil
		},
	})
	c12Register(c12Case[*boolexpr.ThresholdGateAccessStructure]{
		name:  "boolexpr.ThresholdGateAccessStructure",
		gen:   c12GenBoolexpr,
		equal: c12EqBytes[*boolexpr.ThresholdGateAccessStructure],
		valid: c12ValidBoolexpr,
	})
	c12RegisterSharing("k256", cK256, fK256)
	c12RegisterSharing[*bls12381.PointG1, *bls12381.Scalar]("bls12381g1", cBLSG1, fBLS)
	_ = k256.NewCurve
}
