package main

import (
	"fmt"
	"math/bits"
	"slices"
	"sort"
	"strings"

	"github.com/bronlabs/bron-crypto/pkg/base/algebra"
	"github.com/bronlabs/bron-crypto/pkg/mpc/session"
	"github.com/bronlabs/bron-crypto/pkg/mpc/sharing"
	"github.com/bronlabs/bron-crypto/pkg/mpc/zero/przs"
)

func init() { register("C10", runC10) }

// ID assignments: dense, unsorted, sparse, large (top bit set, 2^64-1), and values whose numeric
// order differs from the lexicographic order of their little-endian encodings (1 vs 256 vs 65536).
// Quorum sizes: 2-6 with every sub-quorum (fixed sets + random ones), and a spread of larger sizes
// (quick: 7,8,9,10,12,16,17,20 + two more per seed; thorough: every size 7..20 and a spread up to
// 40) in rotating ID styles, because buffer handling in the setup depends on the accumulated length
// 35+136*n of the common seed and 8+8*k of the sub-quorum frame (allocation size classes).
func c10IDSets(r *Rng, thorough bool, seed int64) [][]sharing.ID {
	const top = uint64(1) << 63
	sets := [][]sharing.ID{
		{1, 2},
		{^sharing.ID(0), 1},
		{3, 1, 2},
		{70000, 5, 300},
		{sharing.ID(top), 1, sharing.ID(top + 1)},
		{4, 3, 2, 1},
		{256, 1, 65536, 255},
		{50, 10, 40, 20, 30},
		{1, 2, 3, 4, 5, 6},
	}
	rnd := func(n int) []sharing.ID {
		out := make([]sharing.ID, 0, n)
		seen := map[sharing.ID]bool{}
		for len(out) < n {
			var id sharing.ID
			switch r.IntN(4) {
			case 0:
				id = sharing.ID(1 + r.IntN(8))
			case 1:
				id = sharing.ID(1 + r.IntN(70000))
			case 2:
				id = sharing.ID(uint64(1) << uint(r.IntN(64)))
			default:
				id = sharing.ID(r.Uint64())
			}
			if id == 0 || seen[id] {
				continue
			}
			seen[id] = true
			out = append(out, id)
		}
		return out
	}
	extra := 4
	if thorough {
		extra = 120
	}
	for i := 0; i < extra; i++ {
		sets = append(sets, rnd(2+(i+3)%5))
	}
	// larger quorums
	sizes := []int{7, 8, 9, 10, 12, 16, 17, 20}
	if thorough {
		sizes = []int{7, 8, 9, 10, 11, 12, 13, 14, 15, 16, 17, 18, 19, 20, 21, 24, 25, 28, 31, 32, 33, 36, 40}
	} else {
		rest := []int{11, 13, 14, 15, 18, 19}
		a := r.IntN(len(rest))
		b := (a + 1 + r.IntN(len(rest)-1)) % len(rest)
		sizes = append(sizes, rest[a], rest[b])
	}
	for k, n := range sizes {
		sets = append(sets, c10BigIDs(r, n, k+int(seed)))
	}
	return sets
}

// c10BigIDs: n distinct IDs in one of seven styles.
func c10BigIDs(r *Rng, n int, style int) []sharing.ID {
	out := make([]sharing.ID, 0, n)
	seen := map[sharing.ID]bool{}
	add := func(id sharing.ID) {
		if id != 0 && !seen[id] && len(out) < n {
			seen[id] = true
			out = append(out, id)
		}
	}
	switch ((style % 7) + 7) % 7 {
	case 0: // ordinal 1..n, in order
		for i := 1; i <= n; i++ {
			add(sharing.ID(i))
		}
	case 1: // ordinal, shuffled (decimal/hex string order differs from numeric order: "10" < "9")
		for i := 1; i <= n; i++ {
			add(sharing.ID(i))
		}
	case 2: // sparse
		for len(out) < n {
			add(sharing.ID(1 + r.IntN(70000)))
		}
	case 3: // 64-bit random
		for len(out) < n {
			add(sharing.ID(r.Uint64()))
		}
	case 4: // powers of two and their neighbours (little-endian byte order differs from numeric order)
		for len(out) < n {
			p := uint64(1) << uint(r.IntN(64))
			add(sharing.ID(p + uint64(r.IntN(3)) - 1))
		}
	case 5: // top of the range, descending
		for i := 0; len(out) < n; i++ {
			add(^sharing.ID(0) - sharing.ID(i*i))
		}
	default: // mixture
		for len(out) < n {
			switch r.IntN(4) {
			case 0:
				add(sharing.ID(1 + r.IntN(2*n)))
			case 1:
				add(sharing.ID(255 + r.IntN(3) + 256*r.IntN(3)))
			case 2:
				add(sharing.ID(uint64(1)<<63 + uint64(r.IntN(n))))
			default:
				add(sharing.ID(r.Uint64()))
			}
		}
	}
	if s := ((style % 7) + 7) % 7; s != 0 && s != 5 {
		r.Shuffle(len(out), func(i, j int) { out[i], out[j] = out[j], out[i] })
	}
	return out
}

// lengths around allocation size-class / sponge-rate boundaries
var c10Lens = []int{16, 17, 23, 24, 25, 31, 32, 33, 40, 47, 48, 49, 63, 64, 65, 79, 80, 81, 95, 96, 97, 103, 104, 105,
	111, 112, 113, 127, 128, 129, 135, 136, 137, 143, 144, 145, 167, 168, 169, 191, 192, 193, 255, 256, 257, 271, 272, 273, 300}

func c10Len(r *Rng, min int) int {
	for {
		var l int
		if r.IntN(4) == 0 {
			l = 1 + r.IntN(320)
		} else {
			l = c10Lens[r.IntN(len(c10Lens))]
		}
		if l >= min {
			return l
		}
	}
}

func c10Label(r *Rng, n int) []byte {
	const alphabet = "ABCDEFGHIJKLMNOPQRSTUVWXYZabcdefghijklmnopqrstuvwxyz0123456789-_"
	out := make([]byte, n)
	for i := range out {
		out[i] = alphabet[r.IntN(len(alphabet))]
	}
	return out
}

// c10Params: what is read from a context (see c10CtxOut).  Output lengths stay >= 16 bytes so that
// "different pairs / sub-quorums / sessions give different bytes" is never a coincidence.
type c10Params struct {
	extLabel         []byte
	extLen, seedLen  int
	seedSplit        int    // the seed bytes are read in two calls: seedSplit, then the rest
	appLabel, appMsg []byte // appended to (a clone of) the transcript before extracting; nil label: nothing
}

var c10DefaultParams = c10Params{extLabel: []byte("C10-extract"), extLen: 32, seedLen: 32, seedSplit: 32}

func c10RandParams(r *Rng) c10Params {
	labLens := []int{1, 7, 8, 9, 15, 16, 17, 31, 32, 33, 47, 48, 49, 63, 64, 65, 95, 96, 97, 127, 128, 129, 255, 256, 257}
	p := c10Params{
		extLabel: c10Label(r, labLens[r.IntN(len(labLens))]),
		extLen:   c10Len(r, 16),
		seedLen:  c10Len(r, 16),
	}
	p.seedSplit = r.IntN(p.seedLen + 1)
	if r.IntN(3) != 0 {
		p.appLabel = c10Label(r, labLens[r.IntN(len(labLens))])
		p.appMsg = make([]byte, []int{0, 1, 8, 16, 31, 32, 33, 64, 96, 128, 136, 137, 256, 300}[r.IntN(14)])
		_, _ = r.Read(p.appMsg)
	}
	return p
}

func (p c10Params) String() string {
	lab, msg := "-", "-"
	if p.appLabel != nil {
		lab, msg = hexBytes(p.appLabel), hexBytes(p.appMsg)
	}
	return fmt.Sprintf("%s;%d;%d;%s;%s", hexBytes(p.extLabel), p.extLen, p.seedLen, lab, msg)
}

func c10IDs(ids []sharing.ID, sep string) string {
	out := make([]string, len(ids))
	for i, id := range ids {
		out[i] = fmt.Sprintf("%x", uint64(id))
	}
	return strings.Join(out, sep)
}

// Sub-quorums (size >= 2) of the sorted quorum.  Up to 6 parties: all of them, by increasing bitmask.
// Larger quorums: for EVERY size k = 2..n-1 one random k-subset, plus the first two, the last two,
// {first,last}, and the n-1 subsets dropping the first, the last and a random party (so that every
// party is a member of several sub-quorums and every frame length 8+8k occurs).
func c10SubQuorums(r *Rng, sorted []sharing.ID) [][]sharing.ID {
	var out [][]sharing.ID
	n := len(sorted)
	if n <= 6 {
		for mask := 1; mask < 1<<n; mask++ {
			if bits.OnesCount(uint(mask)) < 2 {
				continue
			}
			var q []sharing.ID
			for i, id := range sorted {
				if mask>>i&1 == 1 {
					q = append(q, id)
				}
			}
			out = append(out, q)
		}
		return out
	}
	seen := map[string]bool{}
	add := func(idx []int) {
		sort.Ints(idx)
		q := make([]sharing.ID, len(idx))
		for i, k := range idx {
			q[i] = sorted[k]
		}
		key := c10IDs(q, ".")
		if !seen[key] {
			seen[key] = true
			out = append(out, q)
		}
	}
	without := func(drop int) []int {
		var idx []int
		for i := 0; i < n; i++ {
			if i != drop {
				idx = append(idx, i)
			}
		}
		return idx
	}
	add([]int{0, 1})
	add([]int{n - 2, n - 1})
	add([]int{0, n - 1})
	for k := 2; k < n; k++ {
		add(r.Perm(n)[:k])
	}
	add(without(0))
	add(without(n - 1))
	add(without(1 + r.IntN(n-2)))
	// neighbours: sub-quorums of equal size that differ in exactly one member (the largest, the
	// smallest, a random one) must still be separated; sizes n/2 and max(n-3, 2)
	for _, k := range []int{n / 2, max(n-3, 2)} {
		base := r.Perm(n)
		in, rest := slices.Clone(base[:k]), base[k:]
		sort.Ints(in)
		add(slices.Clone(in))
		for _, pos := range []int{k - 1, 0, r.IntN(k)} {
			v := slices.Clone(in)
			v[pos] = rest[r.IntN(len(rest))]
			add(v)
		}
	}
	return out
}

type c10Sub struct {
	q    []sharing.ID
	ctxs []*session.Context // per member of q, in order
}

func runC10(c *Ctx) {
	r := NewRng(c.Seed, 1000)
	sets := c10IDSets(r, c.Thorough(), c.Seed)
	var xs []string
	for k, ids := range sets {
		stream := uint64(10_000 + 100*k)
		big := len(ids) > 6
		s, err := c10Run(ids, c.Seed, stream, nil)
		if err != nil {
			c.Violation(fmt.Sprintf("NewParticipant failed ids=%s", c10IDs(ids, ",")))
			continue
		}
		c.Count(fmt.Sprintf("session.n%d", len(ids)))
		desc := s.c10Desc()
		if s.stopRound != 4 || len(s.ctxs) != len(ids) {
			c.Violation(fmt.Sprintf("honest session setup failed ids=%s outcome=%s", c10IDs(ids, ","), s.c10Outcomes()))
			continue
		}
		c.Emit("fault "+desc+" -", s.c10Outcomes())

		// determinism: the same PRNG streams give the same messages (rerun)
		if s2, err := c10Run(ids, c.Seed, stream, nil); err != nil || s2.c10Desc() != desc {
			c.Violation("harness: rerun with equal PRNG streams produced different messages ids=" + c10IDs(ids, ","))
		}

		// what is read from the contexts: the first sessions with the fixed label / 32 bytes, the others
		// with label, extraction, seed-read and appended-message lengths around size-class boundaries
		prm := c10DefaultParams
		if k >= 4 {
			prm = c10RandParams(r)
		}
		ps := prm.String()

		before := make([]string, len(s.sorted))
		for i, id := range s.sorted {
			before[i] = safely(func() string { return c10CtxOut(s.ctxs[id], prm) })
		}

		// sub-contexts for every (sampled) sub-quorum, by every member
		var subs []c10Sub
		subOK := true
		for _, q := range c10SubQuorums(r, s.sorted) {
			sub := c10Sub{q: q}
			for _, id := range q {
				var sc *session.Context
				// hand the sub-quorum over in a member-dependent order (it is a set; SubContext must sort)
				rot := append(append([]sharing.ID{}, q[len(q)/2:]...), q[:len(q)/2]...)
				res := safely(func() string {
					var err error
					sc, err = s.ctxs[id].SubContext(c10Quorum(rot))
					if err != nil {
						return "err"
					}
					return "ok"
				})
				if res != "ok" || sc == nil {
					c.Violation(fmt.Sprintf("SubContext failed (%s) ids=%s sub=%s holder=%x", res, c10IDs(ids, ","), c10IDs(q, "."), uint64(id)))
					subOK = false
					continue
				}
				sub.ctxs = append(sub.ctxs, sc)
			}
			subs = append(subs, sub)
			c.Count(fmt.Sprintf("subquorum.k%d", len(q)))
		}
		if !subOK {
			continue
		}
		entries := make([]string, len(subs))
		for i, sub := range subs {
			parts := []string{c10IDs(sub.q, ".")}
			for _, sc := range sub.ctxs {
				parts = append(parts, safely(func() string { return c10CtxOut(sc, prm) }))
			}
			entries[i] = strings.Join(parts, "|")
		}
		// nested: sub-contexts of sub-contexts (largest proper sub-quorum, [a random half of it,] then
		// two of its members); every member of the innermost quorum walks the whole chain
		if len(s.sorted) >= 3 {
			chain := [][]sharing.ID{s.sorted[1:]}
			if big {
				outer := chain[0]
				idx := r.Perm(len(outer))[:(len(outer)+1)/2]
				sort.Ints(idx)
				mid := make([]sharing.ID, len(idx))
				for i, j := range idx {
					mid[i] = outer[j]
				}
				chain = append(chain, mid)
				a := r.IntN(len(mid) - 1)
				chain = append(chain, []sharing.ID{mid[a], mid[a+1+r.IntN(len(mid)-1-a)]})
			} else {
				chain = append(chain, chain[0][:2])
			}
			keys := make([]string, len(chain))
			for i, q := range chain {
				keys[i] = c10IDs(q, ".")
			}
			parts := []string{strings.Join(keys, ">")}
			for _, id := range chain[len(chain)-1] {
				parts = append(parts, safely(func() string {
					cur := s.ctxs[id]
					for _, q := range chain {
						next, err := cur.SubContext(c10Quorum(q))
						if err != nil {
							return "err"
						}
						cur = next
					}
					return c10CtxOut(cur, prm)
				}))
			}
			entries = append(entries, strings.Join(parts, "|"))
			c.Count(fmt.Sprintf("subquorum.nested%d", len(chain)))
		}

		// zero shares in scalar fields and groups, for the full quorum and every sub-quorum
		all := append([]c10Sub{{q: s.sorted, ctxs: c10Ordered(s)}}, subs...)
		c10Przs(c, "F"+hexNat(fieldOrder(fK256)), all, fK256, scalarHex)
		c10Przs(c, "F"+hexNat(fieldOrder(fEd25519)), all, fEd25519, scalarHex)
		c10Przs(c, "F"+hexNat(fieldOrder(fBLS)), all, fBLS, scalarHex)
		// (curve points are long: above 12 parties the curve groups take the full quorum, the smallest,
		// the largest and three random sub-quorums; the scalar fields take all of them)
		some := all
		if len(ids) > 12 {
			some = []c10Sub{all[0], all[1], all[len(all)-1]}
			for _, j := range r.Perm(len(all) - 3)[:3] {
				some = append(some, all[2+j])
			}
			for _, sub := range all[1:] {
				if len(sub.q) == len(ids)-1 {
					some = append(some, sub)
					break
				}
			}
		}
		c10Przs(c, "k256", some, cK256, pointStr)
		c10Przs(c, "ed25519", some, cEd25519, pointStr)
		c10Przs(c, "bls12381g1", some, cBLSG1, pointStr)

		// the parent contexts are unchanged by everything derived from them
		after := make([]string, len(s.sorted))
		for i, id := range s.sorted {
			after[i] = safely(func() string { return c10CtxOut(s.ctxs[id], prm) })
			if after[i] != before[i] {
				c.Violation(fmt.Sprintf("context of %x changed by SubContext/Seeds/SampleZeroShare ids=%s", uint64(id), c10IDs(ids, ",")))
			}
		}
		c.Emit("setup "+desc+" "+ps, strings.Join(after, "|"))
		c.Emit("subctx "+desc+" "+ps+" "+strings.Join(after, "|"), joinComma(entries))
		xs = append(xs, strings.Join(after, "|"))
		// every third quorum runs a second session with other randomness: "differs from the seeds of
		// any other session" for the SAME parties (compared on the xsession line)
		if k%3 == 0 {
			if tw, err := c10Run(ids, c.Seed, stream+50, nil); err == nil && len(tw.ctxs) == len(ids) {
				outs := make([]string, len(tw.sorted))
				for i, id := range tw.sorted {
					outs[i] = safely(func() string { return c10CtxOut(tw.ctxs[id], prm) })
				}
				xs = append(xs, strings.Join(outs, "|"))
				c.Count("session.twin")
			} else {
				c.Violation("honest session setup (second run) failed ids=" + c10IDs(ids, ","))
			}
		}

		c10Faults(c, r, s, desc, stream)
	}
	// distinctness across sessions
	c.Emit(fmt.Sprintf("xsession %d", len(xs)), joinComma(xs))

	c10NewContexts(c, NewRng(c.Seed, 1001))
}

func c10Ordered(s *c10Session) []*session.Context {
	out := make([]*session.Context, len(s.sorted))
	for i, id := range s.sorted {
		out[i] = s.ctxs[id]
	}
	return out
}

// c10Przs emits, for one group and every (sub)quorum, each member's zero share together with the
// per-peer elements v(i,j) = g.Random(seed_i[j]) it is built from:
//
//	przs <group> <ids> <sid> => q.q.q|id;share;peer=v&peer=v|…,…
func c10Przs[GE algebra.GroupElement[GE]](c *Ctx, name string, all []c10Sub, g algebra.FiniteGroup[GE], render func(GE) string) {
	entries := make([]string, 0, len(all))
	for _, sub := range all {
		parts := []string{c10IDs(sub.q, ".")}
		for _, ctx := range sub.ctxs {
			parts = append(parts, safely(func() string {
				sh, err := przs.SampleZeroShare(ctx, g)
				if err != nil {
					return "err"
				}
				var vs []string
				seeds := ctx.Seeds()
				for j := range ctx.OtherPartiesOrdered() {
					v, err := g.Random(seeds[j])
					if err != nil {
						return "err"
					}
					vs = append(vs, fmt.Sprintf("%x=%s", uint64(j), render(v)))
				}
				return fmt.Sprintf("%x;%s;%s", uint64(ctx.HolderID()), render(sh.Value()), strings.Join(vs, "&"))
			}))
		}
		entries = append(entries, strings.Join(parts, "|"))
		c.Count("przs." + fmt.Sprintf("k%d", len(sub.q)))
	}
	sid := all[0].ctxs[0].SessionID()
	c.Emit(fmt.Sprintf("przs %s %s %s", name, c10IDs(all[0].q, ","), hexBytes(sid[:])), joinComma(entries))
}

type c10Field struct{ kind, field string }

var c10Fields = []c10Field{
	{c10R1B, "com"}, {c10R2B, "msg"}, {c10R2B, "wit"}, {c10R2U, "com"}, {c10R3U, "msg"}, {c10R3U, "wit"},
}

func (s *c10Session) c10FieldValue(f c10Field, from, to sharing.ID) [32]byte {
	switch f {
	case c10Field{c10R1B, "com"}:
		return s.r1b[from].CommonCommitment
	case c10Field{c10R2B, "msg"}:
		return s.r2b[from].CommonContribution
	case c10Field{c10R2B, "wit"}:
		return s.r2b[from].CommonContributionWitness
	case c10Field{c10R2U, "com"}:
		return s.r2u[from][to].PairwiseContributionCommitment
	case c10Field{c10R3U, "msg"}:
		return s.r3u[from][to].PairwiseContribution
	default:
		return s.r3u[from][to].PairwiseContributionWitness
	}
}

// c10Faults: single-field alterations of a commitment, opening or contribution in every round,
// delivered to one recipient or (broadcasts) uniformly to all; plus dropped messages.
func c10Faults(c *Ctx, r *Rng, s *c10Session, desc string, stream uint64) {
	n := len(s.sorted)
	modes := []string{"flip", "random", "zero", "swap", "drop"}
	reps := 1
	if c.Thorough() {
		reps = 4
	}
	big := n > 6 // the line carries all n(n-1) unicast messages: fewer, randomly chosen fault lines
	if big {
		reps = 1
	}
	for _, f := range c10Fields {
		ms := modes
		if big {
			ms = []string{"flip", modes[1+r.IntN(4)]}
		}
		for _, mode := range ms {
			for rep := 0; rep < reps; rep++ {
				from := s.sorted[r.IntN(n)]
				to := from
				for to == from {
					to = s.sorted[r.IntN(n)]
				}
				broadcast := f.kind == c10R1B || f.kind == c10R2B
				uniform := broadcast && r.IntN(2) == 0
				t := c10Tamper{Kind: f.kind, Field: f.field, From: from, To: to}
				if uniform {
					t.To = 0
				}
				orig := s.c10FieldValue(f, from, to)
				switch mode {
				case "flip":
					t.Value = orig
					t.Value[r.IntN(32)] ^= 1 << uint(r.IntN(8))
				case "random":
					_, _ = r.Read(t.Value[:])
				case "zero":
				case "swap": // a value of the same field taken from another honest message
					other := from
					for other == from {
						other = s.sorted[r.IntN(n)]
					}
					if broadcast {
						t.Value = s.c10FieldValue(f, other, from)
					} else if n >= 3 && r.IntN(2) == 0 {
						third := from // what `from` sent to a third party
						for third == from || third == to {
							third = s.sorted[r.IntN(n)]
						}
						t.Value = s.c10FieldValue(f, from, third)
					} else {
						t.Value = s.c10FieldValue(f, to, from) // what the recipient itself sent to `from`
					}
				case "drop":
					t.Field = "drop"
				}
				c10OneFault(c, s, desc, stream, []c10Tamper{t})
			}
		}
	}
	// the commitment key: the commitments of later rounds depend on it, so the line carries the
	// messages of the faulty run itself; the model decides (with the BLAKE2b model) who fails to open.
	ckModes := []string{"flip", "random", "zero"}
	if big {
		ckModes = ckModes[r.IntN(3):][:1]
	}
	for _, mode := range ckModes {
		from := s.sorted[r.IntN(n)]
		to := from
		for to == from {
			to = s.sorted[r.IntN(n)]
		}
		t := c10Tamper{Kind: c10R1B, Field: "ck", From: from, To: to}
		if r.IntN(2) == 0 {
			t.To = 0
		}
		switch mode {
		case "flip":
			t.Value = *s.r1b[from].Ck
			t.Value[r.IntN(32)] ^= 1 << uint(r.IntN(8))
		case "random":
			_, _ = r.Read(t.Value[:])
		}
		c10OneFault(c, s, desc, stream, []c10Tamper{t})
	}
	// thorough: every (sender, recipient) pair for every field of small quorums
	if c.Thorough() && n <= 4 {
		for _, f := range c10Fields {
			for _, from := range s.sorted {
				for _, to := range s.sorted {
					if to == from {
						continue
					}
					for _, mode := range []string{"flip", "zero", "drop"} {
						t := c10Tamper{Kind: f.kind, Field: f.field, From: from, To: to}
						switch mode {
						case "flip":
							t.Value = s.c10FieldValue(f, from, to)
							t.Value[r.IntN(32)] ^= 1 << uint(r.IntN(8))
						case "drop":
							t.Field = "drop"
						}
						c10OneFault(c, s, desc, stream, []c10Tamper{t})
					}
				}
			}
		}
	}
	// control: copying another party's commitment AND its opening is consistent, hence accepted
	if n >= 3 {
		a, b := s.sorted[0], s.sorted[n-1]
		ts := []c10Tamper{
			{Kind: c10R1B, Field: "com", From: a, Value: s.r1b[b].CommonCommitment},
			{Kind: c10R2B, Field: "msg", From: a, Value: s.r2b[b].CommonContribution},
			{Kind: c10R2B, Field: "wit", From: a, Value: s.r2b[b].CommonContributionWitness},
		}
		c10OneFault(c, s, desc, stream, ts)
	}
	// two different senders cheat towards the same recipient (the first in ID order is reported)
	if n >= 3 {
		to := s.sorted[r.IntN(n)]
		var ts []c10Tamper
		for _, from := range s.sorted {
			if from != to && len(ts) < 2 {
				f := c10Fields[3+r.IntN(3)]
				v := s.c10FieldValue(f, from, to)
				v[r.IntN(32)] ^= 0x80
				ts = append(ts, c10Tamper{Kind: f.kind, Field: f.field, From: from, To: to, Value: v})
			}
		}
		c10OneFault(c, s, desc, stream, ts)
	}
}

func c10OneFault(c *Ctx, s *c10Session, desc string, stream uint64, ts []c10Tamper) {
	t2, err := c10Run(s.ids, c.Seed, stream, c10TamperHook(ts))
	if err != nil {
		c.Violation("harness: NewParticipant failed in fault run")
		return
	}
	tdesc := make([]string, len(ts))
	for i, t := range ts {
		tdesc[i] = t.String()
	}
	key := "fault." + ts[0].Kind + "." + ts[0].Field
	if len(ts) > 1 {
		key = "fault.multi"
	}
	c.Count(key)
	// no message of this protocol depends on a received commitment/opening/contribution
	ckFault := false
	for _, t := range ts {
		ckFault = ckFault || t.Field == "ck"
	}
	out := t2.c10Outcomes()
	if ckFault {
		if strings.Contains(out, "panic:") {
			c.Violation("panic under fault " + strings.Join(tdesc, ",") + " ids=" + c10IDs(s.ids, ",") + " outcome=" + out)
		}
		c.Emit("fault "+t2.c10Desc()+" "+strings.Join(tdesc, ","), out)
		return
	}
	// (a run that stopped early has sent fewer messages; those it did send must be the same)
	if !c10DescSubset(t2.c10Desc(), desc) {
		c.Violation("harness: messages of the faulty run differ from the honest run: " + strings.Join(tdesc, ","))
	}
	// implementation-side oracle for single faults: every targeted recipient rejects and blames
	// exactly the sender; nobody else is affected; no panic.
	if strings.Contains(out, "panic:") {
		c.Violation("panic under fault " + strings.Join(tdesc, ",") + " ids=" + c10IDs(s.ids, ",") + " outcome=" + out)
	}
	if len(ts) == 1 {
		t := ts[0]
		changed := t.Field == "drop" || t.Value != s.c10FieldValue(c10Field{t.Kind, t.Field}, t.From, c10AnyTarget(s, t))
		for _, id := range s.sorted {
			target := changed && id != t.From && (t.To == 0 || t.To == id)
			o := t2.outcome[id]
			want := fmt.Sprintf("abort-blame:%x", uint64(t.From))
			switch {
			case target && o == "ok":
				c.Violation(fmt.Sprintf("accepted tampering %s by recipient %x ids=%s", t.String(), uint64(id), c10IDs(s.ids, ",")))
			case target && o != want:
				c.Violation(fmt.Sprintf("tampering %s: recipient %x reports %s, expected %s ids=%s", t.String(), uint64(id), o, want, c10IDs(s.ids, ",")))
			case !target && o != "ok":
				c.Violation(fmt.Sprintf("tampering %s: untargeted party %x reports %s ids=%s", t.String(), uint64(id), o, c10IDs(s.ids, ",")))
			}
		}
	}
	c.Emit("fault "+desc+" "+strings.Join(tdesc, ","), out)
}

func c10AnyTarget(s *c10Session, t c10Tamper) sharing.ID {
	if t.To != 0 {
		return t.To
	}
	for _, id := range s.sorted {
		if id != t.From {
			return id
		}
	}
	return t.From
}

// every message listed in `got` (a run that may have stopped early) is listed identically in `full`
func c10DescSubset(got, full string) bool {
	g, f := strings.Split(got, " "), strings.Split(full, " ")
	if len(g) != len(f) {
		return false
	}
	for i := range g {
		if g[i] == "-" {
			continue
		}
		have := map[string]bool{}
		for _, e := range strings.Split(f[i], ",") {
			have[e] = true
		}
		for _, e := range strings.Split(g[i], ",") {
			if !have[e] {
				return false
			}
		}
	}
	return true
}

// c10NewContexts: session.NewContext called directly with a common seed and pairwise seeds of many
// lengths (the constructor is public API and copies/absorbs caller-supplied byte strings), both ends
// of a pair passing equal bytes:
//
//	newctx <ids> <commonSeed> <i;j;seed,… (i<j)> <params> => id;sid;extract;peer=seed&…|…   (or err)
func c10NewContexts(c *Ctx, r *Rng) {
	cases := 24
	if c.Thorough() {
		cases = 300
	}
	for k := 0; k < cases; k++ {
		n := 2 + r.IntN(11)
		if k%6 == 5 {
			n = 13 + r.IntN(12)
		}
		ids := c10BigIDs(r, n, r.IntN(7))
		sorted := slices.Clone(ids)
		slices.Sort(sorted)
		short := 0 // 1: common seed too short, 2: one pairwise seed too short
		if k%8 == 7 {
			short = 1 + r.IntN(2)
		}
		common := make([]byte, c10Len(r, 32))
		if short == 1 {
			common = make([]byte, r.IntN(32))
		}
		_, _ = r.Read(common)
		type pair struct{ a, b sharing.ID }
		seeds := map[pair][]byte{}
		var pdesc []string
		shortPair := r.IntN(n * (n - 1) / 2)
		for i, a := range sorted {
			for _, b := range sorted[i+1:] {
				l := c10Len(r, 32)
				if short == 2 && len(seeds) == shortPair {
					l = r.IntN(32)
				}
				sd := make([]byte, l)
				_, _ = r.Read(sd)
				seeds[pair{a, b}] = sd
				pdesc = append(pdesc, fmt.Sprintf("%x;%x;%s", uint64(a), uint64(b), hexBytes(sd)))
			}
		}
		prm := c10RandParams(r)
		outs := make([]string, 0, n)
		failed := false
		for _, id := range sorted {
			m := map[sharing.ID][]byte{}
			for _, o := range sorted {
				if o != id {
					m[o] = slices.Clone(seeds[pair{min(id, o), max(id, o)}])
				}
			}
			res := safely(func() string {
				ctx, err := session.NewContext(id, c10Quorum(ids), slices.Clone(common), m)
				if err != nil {
					return "err"
				}
				return c10CtxOut(ctx, prm)
			})
			if res == "err" {
				failed = true
			}
			outs = append(outs, res)
		}
		rhs := strings.Join(outs, "|")
		if failed {
			// with a too-short pairwise seed only its two ends fail
			for i, o := range outs {
				if o != "err" {
					outs[i] = "ok"
				}
			}
			rhs = strings.Join(outs, "|")
		}
		if short != 0 {
			c.Count("newctx.short")
		} else {
			c.Count(fmt.Sprintf("newctx.n%d", n))
		}
		c.Emit(fmt.Sprintf("newctx %s %s %s %s", c10IDs(ids, ","), hexBytes(common), joinComma(pdesc), prm.String()), rhs)
	}
}
