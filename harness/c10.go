package main

import (
	"fmt"
	"math/bits"
	"strings"

	"github.com/bronlabs/bron-crypto/pkg/base/algebra"
	"github.com/bronlabs/bron-crypto/pkg/mpc/session"
	"github.com/bronlabs/bron-crypto/pkg/mpc/sharing"
	"github.com/bronlabs/bron-crypto/pkg/mpc/zero/przs"
)

func init() { register("C10", runC10) }

// ID assignments: dense, unsorted, sparse, large (top bit set, 2^64-1), and values whose numeric
// order differs from the lexicographic order of their little-endian encodings (1 vs 256 vs 65536).
func c10IDSets(r *Rng, thorough bool) [][]sharing.ID {
	const top = uint64(1) << 63
	sets := [][]sharing.ID{
		{1, 2},
		{^sharing.ID(0), 1},
		{3, 1, 2},
		{70000, 5, 300},
		{sharing.ID(top), 1, sharing.ID(top + 1)},
		{4, 3, 2, 1},
		{256, 1, 65536, 255},
		{50, 10, 40, 20, 30},
		{1, 2, 3, 4, 5, 6},
	}
	rnd := func(n int) []sharing.ID {
		out := make([]sharing.ID, 0, n)
		seen := map[sharing.ID]bool{}
		for len(out) < n {
			var id sharing.ID
			switch r.IntN(4) {
			case 0:
				id = sharing.ID(1 + r.IntN(8))
			case 1:
				id = sharing.ID(1 + r.IntN(70000))
			case 2:
				id = sharing.ID(uint64(1) << uint(r.IntN(64)))
			default:
				id = sharing.ID(r.Uint64())
			}
			if id == 0 || seen[id] {
				continue
			}
			seen[id] = true
			out = append(out, id)
		}
		return out
	}
	extra := 4
	if thorough {
		extra = 120
	}
	for i := 0; i < extra; i++ {
		sets = append(sets, rnd(2+(i+3)%5))
	}
	return sets
}

func c10IDs(ids []sharing.ID, sep string) string {
	out := make([]string, len(ids))
	for i, id := range ids {
		out[i] = fmt.Sprintf("%x", uint64(id))
	}
	return strings.Join(out, sep)
}

// all sub-quorums (size >= 2) of the sorted quorum, by increasing bitmask
func c10SubQuorums(sorted []sharing.ID) [][]sharing.ID {
	var out [][]sharing.ID
	for mask := 1; mask < 1<<len(sorted); mask++ {
		if bits.OnesCount(uint(mask)) < 2 {
			continue
		}
		var q []sharing.ID
		for i, id := range sorted {
			if mask>>i&1 == 1 {
				q = append(q, id)
			}
		}
		out = append(out, q)
	}
	return out
}

type c10Sub struct {
	q    []sharing.ID
	ctxs []*session.Context // per member of q, in order
}

func runC10(c *Ctx) {
	r := NewRng(c.Seed, 1000)
	sets := c10IDSets(r, c.Thorough())
	var xs []string
	for k, ids := range sets {
		stream := uint64(10_000 + 100*k)
		s, err := c10Run(ids, c.Seed, stream, nil)
		if err != nil {
			c.Violation(fmt.Sprintf("NewParticipant failed ids=%s", c10IDs(ids, ",")))
			continue
		}
		c.Count(fmt.Sprintf("session.n%d", len(ids)))
		desc := s.c10Desc()
		if s.stopRound != 4 || len(s.ctxs) != len(ids) {
			c.Violation(fmt.Sprintf("honest session setup failed ids=%s outcome=%s", c10IDs(ids, ","), s.c10Outcomes()))
			continue
		}
		c.Emit("fault "+desc+" -", s.c10Outcomes())

		// determinism: the same PRNG streams give the same messages (rerun)
		if s2, err := c10Run(ids, c.Seed, stream, nil); err != nil || s2.c10Desc() != desc {
			c.Violation("harness: rerun with equal PRNG streams produced different messages ids=" + c10IDs(ids, ","))
		}

		before := make([]string, len(s.sorted))
		for i, id := range s.sorted {
			before[i] = safely(func() string { return c10CtxOut(s.ctxs[id]) })
		}

		// sub-contexts for every sub-quorum, by every member
		var subs []c10Sub
		subOK := true
		for _, q := range c10SubQuorums(s.sorted) {
			sub := c10Sub{q: q}
			for _, id := range q {
				var sc *session.Context
				// hand the sub-quorum over in a member-dependent order (it is a set; SubContext must sort)
				rot := append(append([]sharing.ID{}, q[len(q)/2:]...), q[:len(q)/2]...)
				res := safely(func() string {
					var err error
					sc, err = s.ctxs[id].SubContext(c10Quorum(rot))
					if err != nil {
						return "err"
					}
					return "ok"
				})
				if res != "ok" || sc == nil {
					c.Violation(fmt.Sprintf("SubContext failed (%s) ids=%s sub=%s holder=%x", res, c10IDs(ids, ","), c10IDs(q, "."), uint64(id)))
					subOK = false
					continue
				}
				sub.ctxs = append(sub.ctxs, sc)
			}
			subs = append(subs, sub)
			c.Count(fmt.Sprintf("subquorum.k%d", len(q)))
		}
		if !subOK {
			continue
		}
		entries := make([]string, len(subs))
		for i, sub := range subs {
			parts := []string{c10IDs(sub.q, ".")}
			for _, sc := range sub.ctxs {
				parts = append(parts, safely(func() string { return c10CtxOut(sc) }))
			}
			entries[i] = strings.Join(parts, "|")
		}
		// nested: a sub-context of a sub-context (largest proper sub-quorum, then its first two members)
		if len(s.sorted) >= 3 {
			outer := s.sorted[1:]
			inner := outer[:2]
			parts := []string{c10IDs(outer, ".") + ">" + c10IDs(inner, ".")}
			for _, id := range inner {
				parts = append(parts, safely(func() string {
					a, err := s.ctxs[id].SubContext(c10Quorum(outer))
					if err != nil {
						return "err"
					}
					b, err := a.SubContext(c10Quorum(inner))
					if err != nil {
						return "err"
					}
					return c10CtxOut(b)
				}))
			}
			entries = append(entries, strings.Join(parts, "|"))
			c.Count("subquorum.nested")
		}

		// zero shares in scalar fields and groups, for the full quorum and every sub-quorum
		all := append([]c10Sub{{q: s.sorted, ctxs: c10Ordered(s)}}, subs...)
		c10Przs(c, "F"+hexNat(fieldOrder(fK256)), all, fK256, scalarHex)
		c10Przs(c, "F"+hexNat(fieldOrder(fEd25519)), all, fEd25519, scalarHex)
		c10Przs(c, "F"+hexNat(fieldOrder(fBLS)), all, fBLS, scalarHex)
		c10Przs(c, "k256", all, cK256, pointStr)
		c10Przs(c, "ed25519", all, cEd25519, pointStr)
		c10Przs(c, "bls12381g1", all, cBLSG1, pointStr)

		// the parent contexts are unchanged by everything derived from them
		after := make([]string, len(s.sorted))
		for i, id := range s.sorted {
			after[i] = safely(func() string { return c10CtxOut(s.ctxs[id]) })
			if after[i] != before[i] {
				c.Violation(fmt.Sprintf("context of %x changed by SubContext/Seeds/SampleZeroShare ids=%s", uint64(id), c10IDs(ids, ",")))
			}
		}
		c.Emit("setup "+desc, strings.Join(after, "|"))
		c.Emit("subctx "+desc+" "+strings.Join(after, "|"), joinComma(entries))
		xs = append(xs, strings.Join(after, "|"))

		c10Faults(c, r, s, desc, stream)
	}
	// distinctness across sessions
	c.Emit(fmt.Sprintf("xsession %d", len(xs)), joinComma(xs))
}

func c10Ordered(s *c10Session) []*session.Context {
	out := make([]*session.Context, len(s.sorted))
	for i, id := range s.sorted {
		out[i] = s.ctxs[id]
	}
	return out
}

// c10Przs emits, for one group and every (sub)quorum, each member's zero share together with the
// per-peer elements v(i,j) = g.Random(seed_i[j]) it is built from:
//   przs <group> <ids> <sid> => q.q.q|id;share;peer=v&peer=v|…,…
func c10Przs[GE algebra.GroupElement[GE]](c *Ctx, name string, all []c10Sub, g algebra.FiniteGroup[GE], render func(GE) string) {
	entries := make([]string, 0, len(all))
	for _, sub := range all {
		parts := []string{c10IDs(sub.q, ".")}
		for _, ctx := range sub.ctxs {
			parts = append(parts, safely(func() string {
				sh, err := przs.SampleZeroShare(ctx, g)
				if err != nil {
					return "err"
				}
				var vs []string
				seeds := ctx.Seeds()
				for j := range ctx.OtherPartiesOrdered() {
					v, err := g.Random(seeds[j])
					if err != nil {
						return "err"
					}
					vs = append(vs, fmt.Sprintf("%x=%s", uint64(j), render(v)))
				}
				return fmt.Sprintf("%x;%s;%s", uint64(ctx.HolderID()), render(sh.Value()), strings.Join(vs, "&"))
			}))
		}
		entries = append(entries, strings.Join(parts, "|"))
		c.Count("przs." + fmt.Sprintf("k%d", len(sub.q)))
	}
	sid := all[0].ctxs[0].SessionID()
	c.Emit(fmt.Sprintf("przs %s %s %s", name, c10IDs(all[0].q, ","), hexBytes(sid[:])), joinComma(entries))
}

type c10Field struct{ kind, field string }

var c10Fields = []c10Field{
	{c10R1B, "com"}, {c10R2B, "msg"}, {c10R2B, "wit"}, {c10R2U, "com"}, {c10R3U, "msg"}, {c10R3U, "wit"},
}

func (s *c10Session) c10FieldValue(f c10Field, from, to sharing.ID) [32]byte {
	switch f {
	case c10Field{c10R1B, "com"}:
		return s.r1b[from].CommonCommitment
	case c10Field{c10R2B, "msg"}:
		return s.r2b[from].CommonContribution
	case c10Field{c10R2B, "wit"}:
		return s.r2b[from].CommonContributionWitness
	case c10Field{c10R2U, "com"}:
		return s.r2u[from][to].PairwiseContributionCommitment
	case c10Field{c10R3U, "msg"}:
		return s.r3u[from][to].PairwiseContribution
	default:
		return s.r3u[from][to].PairwiseContributionWitness
	}
}

// c10Faults: single-field alterations of a commitment, opening or contribution in every round,
// delivered to one recipient or (broadcasts) uniformly to all; plus dropped messages.
func c10Faults(c *Ctx, r *Rng, s *c10Session, desc string, stream uint64) {
	n := len(s.sorted)
	modes := []string{"flip", "random", "zero", "swap", "drop"}
	reps := 1
	if c.Thorough() {
		reps = 4
	}
	for _, f := range c10Fields {
		for _, mode := range modes {
			for rep := 0; rep < reps; rep++ {
				from := s.sorted[r.IntN(n)]
				to := from
				for to == from {
					to = s.sorted[r.IntN(n)]
				}
				broadcast := f.kind == c10R1B || f.kind == c10R2B
				uniform := broadcast && r.IntN(2) == 0
				t := c10Tamper{Kind: f.kind, Field: f.field, From: from, To: to}
				if uniform {
					t.To = 0
				}
				orig := s.c10FieldValue(f, from, to)
				switch mode {
				case "flip":
					t.Value = orig
					t.Value[r.IntN(32)] ^= 1 << uint(r.IntN(8))
				case "random":
					_, _ = r.Read(t.Value[:])
				case "zero":
				case "swap": // a value of the same field taken from another honest message
					other := from
					for other == from {
						other = s.sorted[r.IntN(n)]
					}
					if broadcast {
						t.Value = s.c10FieldValue(f, other, from)
					} else if n >= 3 && r.IntN(2) == 0 {
						third := from // what `from` sent to a third party
						for third == from || third == to {
							third = s.sorted[r.IntN(n)]
						}
						t.Value = s.c10FieldValue(f, from, third)
					} else {
						t.Value = s.c10FieldValue(f, to, from) // what the recipient itself sent to `from`
					}
				case "drop":
					t.Field = "drop"
				}
				c10OneFault(c, s, desc, stream, []c10Tamper{t})
			}
		}
	}
	// the commitment key: the commitments of later rounds depend on it, so the line carries the
	// messages of the faulty run itself; the model decides (with the BLAKE2b model) who fails to open.
	for _, mode := range []string{"flip", "random", "zero"} {
		from := s.sorted[r.IntN(n)]
		to := from
		for to == from {
			to = s.sorted[r.IntN(n)]
		}
		t := c10Tamper{Kind: c10R1B, Field: "ck", From: from, To: to}
		if r.IntN(2) == 0 {
			t.To = 0
		}
		switch mode {
		case "flip":
			t.Value = *s.r1b[from].Ck
			t.Value[r.IntN(32)] ^= 1 << uint(r.IntN(8))
		case "random":
			_, _ = r.Read(t.Value[:])
		}
		c10OneFault(c, s, desc, stream, []c10Tamper{t})
	}
	// thorough: every (sender, recipient) pair for every field of small quorums
	if c.Thorough() && n <= 4 {
		for _, f := range c10Fields {
			for _, from := range s.sorted {
				for _, to := range s.sorted {
					if to == from {
						continue
					}
					for _, mode := range []string{"flip", "zero", "drop"} {
						t := c10Tamper{Kind: f.kind, Field: f.field, From: from, To: to}
						switch mode {
						case "flip":
							t.Value = s.c10FieldValue(f, from, to)
							t.Value[r.IntN(32)] ^= 1 << uint(r.IntN(8))
						case "drop":
							t.Field = "drop"
						}
						c10OneFault(c, s, desc, stream, []c10Tamper{t})
					}
				}
			}
		}
	}
	// control: copying another party's commitment AND its opening is consistent, hence accepted
	if n >= 3 {
		a, b := s.sorted[0], s.sorted[n-1]
		ts := []c10Tamper{
			{Kind: c10R1B, Field: "com", From: a, Value: s.r1b[b].CommonCommitment},
			{Kind: c10R2B, Field: "msg", From: a, Value: s.r2b[b].CommonContribution},
			{Kind: c10R2B, Field: "wit", From: a, Value: s.r2b[b].CommonContributionWitness},
		}
		c10OneFault(c, s, desc, stream, ts)
	}
	// two different senders cheat towards the same recipient (the first in ID order is reported)
	if n >= 3 {
		to := s.sorted[r.IntN(n)]
		var ts []c10Tamper
		for _, from := range s.sorted {
			if from != to && len(ts) < 2 {
				f := c10Fields[3+r.IntN(3)]
				v := s.c10FieldValue(f, from, to)
				v[r.IntN(32)] ^= 0x80
				ts = append(ts, c10Tamper{Kind: f.kind, Field: f.field, From: from, To: to, Value: v})
			}
		}
		c10OneFault(c, s, desc, stream, ts)
	}
}

func c10OneFault(c *Ctx, s *c10Session, desc string, stream uint64, ts []c10Tamper) {
	t2, err := c10Run(s.ids, c.Seed, stream, c10TamperHook(ts))
	if err != nil {
		c.Violation("harness: NewParticipant failed in fault run")
		return
	}
	tdesc := make([]string, len(ts))
	for i, t := range ts {
		tdesc[i] = t.String()
	}
	key := "fault." + ts[0].Kind + "." + ts[0].Field
	if len(ts) > 1 {
		key = "fault.multi"
	}
	c.Count(key)
	// no message of this protocol depends on a received commitment/opening/contribution
	ckFault := false
	for _, t := range ts {
		ckFault = ckFault || t.Field == "ck"
	}
	out := t2.c10Outcomes()
	if ckFault {
		if strings.Contains(out, "panic:") {
			c.Violation("panic under fault " + strings.Join(tdesc, ",") + " ids=" + c10IDs(s.ids, ",") + " outcome=" + out)
		}
		c.Emit("fault "+t2.c10Desc()+" "+strings.Join(tdesc, ","), out)
		return
	}
	// (a run that stopped early has sent fewer messages; those it did send must be the same)
	if !c10DescSubset(t2.c10Desc(), desc) {
		c.Violation("harness: messages of the faulty run differ from the honest run: " + strings.Join(tdesc, ","))
	}
	// implementation-side oracle for single faults: every targeted recipient rejects and blames
	// exactly the sender; nobody else is affected; no panic.
	if strings.Contains(out, "panic:") {
		c.Violation("panic under fault " + strings.Join(tdesc, ",") + " ids=" + c10IDs(s.ids, ",") + " outcome=" + out)
	}
	if len(ts) == 1 {
		t := ts[0]
		changed := t.Field == "drop" || t.Value != s.c10FieldValue(c10Field{t.Kind, t.Field}, t.From, c10AnyTarget(s, t))
		for _, id := range s.sorted {
			target := changed && id != t.From && (t.To == 0 || t.To == id)
			o := t2.outcome[id]
			want := fmt.Sprintf("abort-blame:%x", uint64(t.From))
			switch {
			case target && o == "ok":
				c.Violation(fmt.Sprintf("accepted tampering %s by recipient %x ids=%s", t.String(), uint64(id), c10IDs(s.ids, ",")))
			case target && o != want:
				c.Violation(fmt.Sprintf("tampering %s: recipient %x reports %s, expected %s ids=%s", t.String(), uint64(id), o, want, c10IDs(s.ids, ",")))
			case !target && o != "ok":
				c.Violation(fmt.Sprintf("tampering %s: untargeted party %x reports %s ids=%s", t.String(), uint64(id), o, c10IDs(s.ids, ",")))
			}
		}
	}
	c.Emit("fault "+desc+" "+strings.Join(tdesc, ","), out)
}

func c10AnyTarget(s *c10Session, t c10Tamper) sharing.ID {
	if t.To != 0 {
		return t.To
	}
	for _, id := range s.sorted {
		if id != t.From {
			return id
		}
	}
	return t.From
}

// every message listed in `got` (a run that may have stopped early) is listed identically in `full`
func c10DescSubset(got, full string) bool {
	g, f := strings.Split(got, " "), strings.Split(full, " ")
	if len(g) != len(f) {
		return false
	}
	for i := range g {
		if g[i] == "-" {
			continue
		}
		have := map[string]bool{}
		for _, e := range strings.Split(f[i], ",") {
			have[e] = true
		}
		for _, e := range strings.Split(g[i], ",") {
			if !have[e] {
				return false
			}
		}
	}
	return true
}
