module bronverif/harness

go 1.26

require (
	github.com/bronlabs/bron-crypto v0.0.0
	github.com/bronlabs/errs-go v0.2.2
	github.com/cronokirby/saferith v0.33.0
	github.com/fxamacker/cbor/v2 v2.9.0
	github.com/stretchr/testify v1.11.1
	golang.org/x/crypto v0.52.0
	golang.org/x/exp v0.0.0-20260209203927-2842357ff358
	golang.org/x/sync v0.20.0
	golang.org/x/sys v0.45.0
	pgregory.net/rapid v1.2.0
)

require (
	github.com/davecgh/go-spew v1.1.1 // indirect
	github.com/kr/pretty v0.3.1 // indirect
	github.com/pmezard/go-difflib v1.0.0 // indirect
	github.com/rogpeppe/go-internal v1.14.1 // indirect
	github.com/x448/float16 v0.8.4 // indirect
	gopkg.in/check.v1 v1.0.0-20201130134442-10cb98267c6c // indirect
	gopkg.in/yaml.v3 v3.0.1 // indirect
)

replace github.com/bronlabs/bron-crypto => /repo
