package main

// C19, part 1: known-answer stream for the Lean hash models (Model/Hash/*.lean).
// Every line is "C19 hash <alg> <params…> <msg> => <digest>" computed by the Go standard library /
// x/crypto implementation that the repository itself calls; the driver recomputes the digest with the
// executable Lean model (verdict `spec`: must be equal).

import (
	"crypto/hkdf"
	"crypto/hmac"
	"crypto/sha256"
	"crypto/sha3"
	"crypto/sha512"
	"fmt"
	"hash"
	"io"

	"golang.org/x/crypto/blake2b"

	"github.com/bronlabs/bron-crypto/pkg/hashing"
	"github.com/bronlabs/bron-crypto/pkg/hashing/kmac"
)

func c19RandBytes(r *Rng, n int) []byte {
	b := make([]byte, n)
	_, _ = r.Read(b)
	// make structured inputs frequent: all-zero, all-0xff, short period
	switch r.IntN(12) {
	case 0:
		for i := range b {
			b[i] = 0
		}
	case 1:
		for i := range b {
			b[i] = 0xff
		}
	case 2:
		for i := range b {
			b[i] = byte(i)
		}
	}
	return b
}

func c19Sum(h hash.Hash, msg []byte) []byte {
	// write in irregular pieces so that the streaming code paths of the Go implementation are exercised
	for len(msg) > 0 {
		n := 1 + (len(msg)*7)/13
		if n > len(msg) {
			n = len(msg)
		}
		_, _ = h.Write(msg[:n])
		msg = msg[n:]
	}
	return h.Sum(nil)
}

func c19HashOne(c *Ctx, r *Rng, alg string, msg []byte) {
	c.Count("hash." + alg)
	switch alg {
	case "sha256":
		c.Emit(fmt.Sprintf("hash sha256 %s", hexBytes(msg)), hexBytes(c19Sum(sha256.New(), msg)))
	case "sha224":
		c.Emit(fmt.Sprintf("hash sha224 %s", hexBytes(msg)), hexBytes(c19Sum(sha256.New224(), msg)))
	case "sha512":
		c.Emit(fmt.Sprintf("hash sha512 %s", hexBytes(msg)), hexBytes(c19Sum(sha512.New(), msg)))
	case "sha384":
		c.Emit(fmt.Sprintf("hash sha384 %s", hexBytes(msg)), hexBytes(c19Sum(sha512.New384(), msg)))
	case "sha512_256":
		c.Emit(fmt.Sprintf("hash sha512_256 %s", hexBytes(msg)), hexBytes(c19Sum(sha512.New512_256(), msg)))
	case "sha3_256":
		c.Emit(fmt.Sprintf("hash sha3_256 %s", hexBytes(msg)), hexBytes(c19Sum(sha3.New256(), msg)))
	case "sha3_512":
		c.Emit(fmt.Sprintf("hash sha3_512 %s", hexBytes(msg)), hexBytes(c19Sum(sha3.New512(), msg)))
	case "sha3_384":
		c.Emit(fmt.Sprintf("hash sha3_384 %s", hexBytes(msg)), hexBytes(c19Sum(sha3.New384(), msg)))
	case "sha3_224":
		c.Emit(fmt.Sprintf("hash sha3_224 %s", hexBytes(msg)), hexBytes(c19Sum(sha3.New224(), msg)))
	case "shake128", "shake256":
		outLen := c19OutLen(r)
		var h *sha3.SHAKE
		if alg == "shake128" {
			h = sha3.NewSHAKE128()
		} else {
			h = sha3.NewSHAKE256()
		}
		_, _ = h.Write(msg)
		out := make([]byte, outLen)
		_, _ = io.ReadFull(h, out)
		c.Emit(fmt.Sprintf("hash %s %d %s", alg, outLen, hexBytes(msg)), hexBytes(out))
	case "cshake128", "cshake256":
		outLen := c19OutLen(r)
		N := c19RandBytes(r, []int{0, 0, 4, 1, 20, 200}[r.IntN(6)])
		S := c19RandBytes(r, []int{0, 1, 15, 30, 135, 136, 137, 160, 170, 400}[r.IntN(10)])
		var h *sha3.SHAKE
		if alg == "cshake128" {
			h = sha3.NewCSHAKE128(N, S)
		} else {
			h = sha3.NewCSHAKE256(N, S)
		}
		_, _ = h.Write(msg)
		out := make([]byte, outLen)
		_, _ = io.ReadFull(h, out)
		c.Emit(fmt.Sprintf("hash %s %s %s %d %s", alg, hexBytes(N), hexBytes(S), outLen, hexBytes(msg)), hexBytes(out))
	case "kmac128", "kmac256":
		outLen := 8 + r.IntN(120)
		key := c19RandBytes(r, []int{32, 33, 64, 128, 132, 168, 200}[r.IntN(7)])
		S := c19RandBytes(r, []int{0, 1, 15, 130, 170}[r.IntN(5)])
		var k *kmac.Kmac
		var err error
		if alg == "kmac128" {
			k, err = kmac.NewKMAC128(key, outLen, S)
		} else {
			k, err = kmac.NewKMAC256(key, outLen, S)
		}
		if err != nil {
			c.Violation(fmt.Sprintf("hash %s constructor failed on valid parameters keyLen=%d tag=%d", alg, len(key), outLen))
			return
		}
		c.Emit(fmt.Sprintf("hash %s %s %s %d %s", alg, hexBytes(key), hexBytes(S), outLen, hexBytes(msg)), hexBytes(c19Sum(k, msg)))
	case "blake2b":
		outLen := []int{32, 64, 16, 1 + r.IntN(64)}[r.IntN(4)]
		key := c19RandBytes(r, []int{0, 0, 32, 64, 1 + r.IntN(63)}[r.IntN(5)])
		h, err := blake2b.New(outLen, key)
		if err != nil {
			c.Violation(fmt.Sprintf("hash blake2b constructor failed keyLen=%d size=%d", len(key), outLen))
			return
		}
		c.Emit(fmt.Sprintf("hash blake2b %s %d %s", hexBytes(key), outLen, hexBytes(msg)), hexBytes(c19Sum(h, msg)))
	case "blake2xb":
		outLen := c19OutLen(r)
		xofLen := outLen
		switch r.IntN(3) {
		case 0:
			xofLen = 0 // unknown length
		case 1:
			xofLen = outLen + r.IntN(100) // read only a prefix of the announced length
		}
		key := c19RandBytes(r, []int{0, 32, 64, 1 + r.IntN(63)}[r.IntN(4)])
		x, err := blake2b.NewXOF(uint32(xofLen), key)
		if err != nil {
			c.Violation(fmt.Sprintf("hash blake2xb constructor failed keyLen=%d", len(key)))
			return
		}
		_, _ = x.Write(msg)
		out := make([]byte, outLen)
		// read in two pieces to exercise the buffered path
		cut := r.IntN(outLen + 1)
		_, _ = io.ReadFull(x, out[:cut])
		_, _ = io.ReadFull(x, out[cut:])
		c.Emit(fmt.Sprintf("hash blake2xb %s %d %d %s", hexBytes(key), xofLen, outLen, hexBytes(msg)), hexBytes(out))
	case "hmacSha256", "hmacSha512", "hmacSha3_256":
		key := c19RandBytes(r, []int{0, 1, 32, 64, 65, 128, 129, 136, 137, 200}[r.IntN(10)])
		var out []byte
		var err error
		// through the repository's wrapper (pkg/hashing.Hmac) on the pieces of msg
		cut := r.IntN(len(msg) + 1)
		switch alg {
		case "hmacSha256":
			out, err = hashing.Hmac(key, sha256.New, msg[:cut], msg[cut:])
		case "hmacSha512":
			out, err = hashing.Hmac(key, sha512.New, msg[:cut], msg[cut:])
		default:
			out = c19Sum(hmac.New(func() hash.Hash { return sha3.New256() }, key), msg)
		}
		if err != nil {
			c.Violation("hashing.Hmac failed")
			return
		}
		c.Emit(fmt.Sprintf("hash %s %s %s", alg, hexBytes(key), hexBytes(msg)), hexBytes(out))
	case "hkdfSha256", "hkdfSha3_256":
		salt := c19RandBytes(r, []int{0, 16, 32, 200}[r.IntN(4)])
		info := c19RandBytes(r, []int{0, 2, 40}[r.IntN(3)])
		outLen := 1 + r.IntN(255*32)
		if r.IntN(3) > 0 {
			outLen = 1 + r.IntN(200)
		}
		var out []byte
		if alg == "hkdfSha256" {
			prk, err := hkdf.Extract(sha256.New, msg, salt)
			if err != nil {
				c.Violation("hkdf.Extract failed")
				return
			}
			out, err = hkdf.Expand(sha256.New, prk, string(info), outLen)
			if err != nil {
				c.Violation("hkdf.Expand failed")
				return
			}
		} else {
			prk, err := hkdf.Extract(sha3.New256, msg, salt)
			if err != nil {
				c.Violation("hkdf.Extract failed")
				return
			}
			out, err = hkdf.Expand(sha3.New256, prk, string(info), outLen)
			if err != nil {
				c.Violation("hkdf.Expand failed")
				return
			}
		}
		c.Emit(fmt.Sprintf("hash %s %s %s %d %s", alg, hexBytes(salt), hexBytes(info), outLen, hexBytes(msg)), hexBytes(out))
	}
}

// c19Trivial marks the next line as a degenerate case (not counted as non-trivial by check).
func c19Trivial(c *Ctx) { fmt.Fprintln(c.Out, "#TRIVIAL") }

func c19OutLen(r *Rng) int {
	switch r.IntN(6) {
	case 0:
		return 1 + r.IntN(8)
	case 1:
		return []int{32, 64, 63, 65, 128, 135, 136, 137, 167, 168, 169, 272, 336}[r.IntN(13)]
	case 2:
		return 300 + r.IntN(700)
	default:
		return 1 + r.IntN(200)
	}
}

var c19HashAlgs = []string{
	"sha256", "sha224", "sha512", "sha384", "sha512_256",
	"sha3_256", "sha3_512", "sha3_384", "sha3_224",
	"shake128", "shake256", "cshake128", "cshake256", "kmac128", "kmac256",
	"blake2b", "blake2xb", "hmacSha256", "hmacSha512", "hmacSha3_256", "hkdfSha256", "hkdfSha3_256",
}

// c19Hashes: every algorithm on every message length 0..300 (all block boundaries of 64/72/104/128/136/144/168
// byte blocks and the length-field boundaries 55/56, 111/112), plus long messages.
func c19Hashes(c *Ctx) {
	r := NewRng(c.Seed, 1900)
	step := 1
	maxLen := 300
	if c.Thorough() {
		maxLen = 700
	}
	for _, alg := range c19HashAlgs {
		for n := 0; n <= maxLen; n += step {
			if n == 0 {
				c19Trivial(c)
			}
			c19HashOne(c, r, alg, c19RandBytes(r, n))
		}
		long := []int{1000, 4096, 4097, 10000}
		if c.Thorough() {
			long = append(long, 65536, 100001, 1<<20)
		}
		for _, n := range long {
			c19HashOne(c, r, alg, c19RandBytes(r, n))
		}
	}
}
