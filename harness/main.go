// Command harness drives the real bron-crypto packages in-process and writes
// one line per operation: "<PROP> <op> <args...> => <canonical result>".
// The left part is replayed by the Lean driver; the right part is compared.
package main

import (
	"bufio"
	"fmt"
	"os"
	"sort"
	"strconv"
)

// Ctx is handed to each property stream.
type Ctx struct {
	Prop  string
	Tier  string // quick | thorough
	Seed  int64
	Out   *bufio.Writer
	Stats map[string]int
}

// Emit writes a correspondence line.
func (c *Ctx) Emit(lhs, rhs string) {
	fmt.Fprintf(c.Out, "%s %s => %s\n", c.Prop, lhs, rhs)
}

// Violation reports an implementation-side oracle failure (decided without the model).
func (c *Ctx) Violation(desc string) {
	fmt.Fprintf(c.Out, "!VIOLATION %s %s\n", c.Prop, desc)
}

// Note writes a comment line that is kept in logs but not compared.
func (c *Ctx) Note(s string) { fmt.Fprintf(c.Out, "# %s\n", s) }

func (c *Ctx) Count(k string) { c.Stats[k]++ }

func (c *Ctx) Thorough() bool { return c.Tier == "thorough" }

var streams = map[string]func(*Ctx){}

func register(prop string, f func(*Ctx)) { streams[prop] = f }

func main() {
	if len(os.Args) < 2 {
		fmt.Fprintln(os.Stderr, "usage: harness <PROP> [tier] [seed]")
		os.Exit(2)
	}
	prop := os.Args[1]
	tier := "quick"
	if len(os.Args) > 2 {
		tier = os.Args[2]
	}
	var seed int64 = 1
	if len(os.Args) > 3 {
		s, err := strconv.ParseInt(os.Args[3], 10, 64)
		if err != nil {
			fmt.Fprintln(os.Stderr, "bad seed")
			os.Exit(2)
		}
		seed = s
	}
	f, ok := streams[prop]
	if !ok {
		fmt.Fprintln(os.Stderr, "unknown property", prop)
		os.Exit(2)
	}
	w := bufio.NewWriterSize(os.Stdout, 1<<20)
	ctx := &Ctx{Prop: prop, Tier: tier, Seed: seed, Out: w, Stats: map[string]int{}}
	f(ctx)
	keys := make([]string, 0, len(ctx.Stats))
	for k := range ctx.Stats {
		keys = append(keys, k)
	}
	sort.Strings(keys)
	for _, k := range keys {
		fmt.Fprintf(w, "#STAT %s %d\n", k, ctx.Stats[k])
	}
	fmt.Fprintln(w, "#DONE")
	w.Flush()
}
