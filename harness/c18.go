package main

// C18 — commitments open only to what was committed.
//
// One generic runner drives every homomorphic scheme (Pedersen, ring-Pedersen integer commitments,
// ElGamal- and Paillier-based IND-CPA commitments) through a type-erased adapter around
// commitments.HomomorphicCommitmentKey; the hash commitments have their own stream (c18_hash.go).
// Line syntax: see lean/BronVerif/Drive/C18.lean.

import (
	"fmt"
	"math/big"
	"os"

	"github.com/bronlabs/bron-crypto/pkg/base/nt/num"
	"github.com/bronlabs/bron-crypto/pkg/commitments"
)

func init() { register("C18", runC18) }

func runC18(c *Ctx) {
	// C18_ONLY=<section> restricts the stream to one section (development aid only)
	only := os.Getenv("C18_ONLY")
	for _, s := range []struct {
		name string
		run  func(*Ctx)
	}{{"hash", c18Hash}, {"ped", c18Pedersen}, {"eg", c18ElGamal}, {"int", c18Int}, {"pai", c18Paillier}} {
		if only == "" || only == s.name {
			s.run(c)
		}
	}
}

// c18Ops is a type-erased commitments.HomomorphicCommitmentKey.
type c18Ops struct {
	commit              func(m, w any) (any, error)
	open                func(cm, m, w any) error
	mOp, wOp, cOp       func(a, b any, rest []any) (any, error)
	mInv, wInv, cInv    func(a any) (any, error)
	mSc, wSc, cSc       func(a, k any) (any, error)
	rerand              func(cm, w any) (any, error)
	shift               func(cm, m any) (any, error)
	sampleW             func(r *Rng) (any, error)
	commitFresh         func(m any, r *Rng) (any, any, error) // commitments.Commit
	rerandFresh         func(cm any, r *Rng) (any, any, error) // commitments.ReRandomise
	eqC                 func(a, b any) bool
	// the package-level double-and-add helpers (…ScalarOpUnsignedNumeric) on all three components
	nScalar func(t c18Triple, n *big.Int) (c18Triple, error)
}

func c18Cast[T any](xs []any) []T {
	out := make([]T, len(xs))
	for i, x := range xs {
		out[i] = x.(T)
	}
	return out
}

func c18Adapt[K commitments.HomomorphicCommitmentKey[K, M, W, C, S], M commitments.Message, W commitments.Witness, C commitments.Commitment[C], S any](k K) *c18Ops {
	return &c18Ops{
		commit: func(m, w any) (any, error) { return k.CommitWithWitness(m.(M), w.(W)) },
		open:   func(cm, m, w any) error { return k.Open(cm.(C), m.(M), w.(W)) },
		mOp: func(a, b any, rest []any) (any, error) {
			return k.MessageOp(a.(M), b.(M), c18Cast[M](rest)...)
		},
		wOp: func(a, b any, rest []any) (any, error) {
			return k.WitnessOp(a.(W), b.(W), c18Cast[W](rest)...)
		},
		cOp: func(a, b any, rest []any) (any, error) {
			return k.CommitmentOp(a.(C), b.(C), c18Cast[C](rest)...)
		},
		mInv:    func(a any) (any, error) { return k.MessageOpInv(a.(M)) },
		wInv:    func(a any) (any, error) { return k.WitnessOpInv(a.(W)) },
		cInv:    func(a any) (any, error) { return k.CommitmentOpInv(a.(C)) },
		mSc:     func(a, s any) (any, error) { return k.MessageScalarOp(a.(M), s.(S)) },
		wSc:     func(a, s any) (any, error) { return k.WitnessScalarOp(a.(W), s.(S)) },
		cSc:     func(a, s any) (any, error) { return k.CommitmentScalarOp(a.(C), s.(S)) },
		rerand:  func(cm, w any) (any, error) { return k.ReRandomise(cm.(C), w.(W)) },
		shift:   func(cm, m any) (any, error) { return k.Shift(cm.(C), m.(M)) },
		sampleW: func(r *Rng) (any, error) { return k.SampleWitness(r) },
		commitFresh: func(m any, r *Rng) (any, any, error) {
			return commitments.Commit[K, M, W, C](k, m.(M), r)
		},
		rerandFresh: func(cm any, r *Rng) (any, any, error) {
			return commitments.ReRandomise[K, M, W, C, S](k, cm.(C), r)
		},
		eqC: func(a, b any) bool { return a.(C).Equal(b.(C)) },
		nScalar: func(t c18Triple, n *big.Int) (c18Triple, error) {
			nn, err := num.N().FromBig(n)
			if err != nil {
				return c18Triple{}, err
			}
			cm, err := commitments.CommitmentScalarOpUnsignedNumeric[K, M, W, C, S](k, t.cm.(C), nn)
			if err != nil {
				return c18Triple{}, err
			}
			m, err := commitments.MessageScalarOpUnsignedNumeric[K, M, W, C, S](k, t.m.(M), nn)
			if err != nil {
				return c18Triple{}, err
			}
			w, err := commitments.WitnessScalarOpUnsignedNumeric[K, M, W, C, S](k, t.w.(W), nn)
			if err != nil {
				return c18Triple{}, err
			}
			return c18Triple{cm, m, w}, nil
		},
	}
}

// c18Dom is a key of a scheme together with the canonical renderings and the generators of the
// values the stream feeds it.
type c18Dom struct {
	sch, par, key    string
	ops              *c18Ops
	strM, strW, strC func(any) string
	strS             func(any) string
	genM, genW, genS func(r *Rng) any
	// single-bit / single-component changes (each different from x); all=false returns a sample
	mutM, mutW func(r *Rng, x any, all bool) []any
	mutC       func(r *Rng, cm any) []any
	// cost control: how many of the mutations of one kind are sent to the model per case
	emitMut int
	// optional: rebuild a value from its rendering (kind m|w|c)
	parse func(kind, s string) any
}

func (d *c18Dom) head(op string) string { return op + " " + d.sch + " " + d.par + " " + d.key }

func c18Acc(err error) string {
	if err == nil {
		return "accept"
	}
	return "reject"
}

func c18Res(err error, ok func() string) string {
	if err != nil {
		return "err"
	}
	return ok()
}

type c18Triple struct{ cm, m, w any }

func (d *c18Dom) triple(t c18Triple) string {
	return d.strC(t.cm) + ";" + d.strM(t.m) + ";" + d.strW(t.w)
}

// commitOpen: commit with an explicit witness, the honest opening must accept.
func (d *c18Dom) commitOpen(c *Ctx, m, w any) (c18Triple, bool) {
	var cm any
	res := safely(func() string {
		var err error
		cm, err = d.ops.commit(m, w)
		return c18Res(err, func() string { return d.strC(cm) })
	})
	c.Emit(fmt.Sprintf("%s %s %s", d.head("commit"), d.strM(m), d.strW(w)), res)
	if cm == nil || res == "err" || len(res) > 5 && res[:6] == "panic:" {
		c.Violation(fmt.Sprintf("%s: CommitWithWitness failed (%s) m=%s w=%s", d.head("commit"), res, d.strM(m), d.strW(w)))
		return c18Triple{}, false
	}
	t := c18Triple{cm, m, w}
	d.openLine(c, t, "honest", true, true)
	return t, true
}

// openLine calls Open and emits the line; the model predicts accept/reject by recomputation.
// mustReject: the harness itself knows that this is a single-component change that must fail.
func (d *c18Dom) openLine(c *Ctx, t c18Triple, what string, emit bool, mustAccept bool) string {
	res := safely(func() string { return c18Acc(d.ops.open(t.cm, t.m, t.w)) })
	if emit {
		c.Emit(fmt.Sprintf("%s %s %s %s", d.head("open"), d.strC(t.cm), d.strM(t.m), d.strW(t.w)), res)
	}
	c.Count(d.sch + ".open." + what + "." + res)
	if mustAccept && res != "accept" {
		c.Violation(fmt.Sprintf("%s: %s opening rejected (%s) c=%s m=%s w=%s", d.head("open"), what, res, d.strC(t.cm), d.strM(t.m), d.strW(t.w)))
	}
	return res
}

func (d *c18Dom) mustReject(c *Ctx, t c18Triple, what string, emit bool) {
	res := d.openLine(c, t, what, emit, false)
	if res != "reject" {
		c.Violation(fmt.Sprintf("%s: opening with changed %s not rejected (%s) c=%s m=%s w=%s", d.head("open"), what, res, d.strC(t.cm), d.strM(t.m), d.strW(t.w)))
	}
}

// pick says which of n mutations are sent to the model: the first, the last and a random sample.
func c18Pick(r *Rng, n, k int) map[int]bool {
	out := map[int]bool{}
	if n == 0 {
		return out
	}
	out[0], out[n-1] = true, true
	for i := 0; i < k; i++ {
		out[r.IntN(n)] = true
	}
	return out
}

// bindingCase: every single-bit / single-component change of message, witness and commitment
// on its own must be rejected.
func (d *c18Dom) bindingCase(c *Ctx, r *Rng, t c18Triple, all bool) {
	ms := d.mutM(r, t.m, all)
	pk := c18Pick(r, len(ms), d.emitMut)
	for i, m2 := range ms {
		d.mustReject(c, c18Triple{t.cm, m2, t.w}, "message", pk[i])
	}
	ws := d.mutW(r, t.w, all)
	pk = c18Pick(r, len(ws), d.emitMut)
	for i, w2 := range ws {
		d.mustReject(c, c18Triple{t.cm, t.m, w2}, "witness", pk[i])
	}
	cs := d.mutC(r, t.cm)
	first := r.IntN(len(cs) + 1)
	for i, c2 := range cs {
		if d.ops.eqC(c2, t.cm) {
			continue
		}
		d.mustReject(c, c18Triple{c2, t.m, t.w}, "commitment", all || i == first || r.IntN(4) == 0)
	}
}

// keyCase: the same opening under a changed key. The model decides by recomputation; `clean`
// tells that the harness itself knows the change cannot be absorbed (no zero component).
func (d *c18Dom) keyCase(c *Ctx, alt *c18Dom, t c18Triple, clean bool) {
	if clean {
		alt.mustReject(c, t, "key", true)
	} else {
		alt.openLine(c, t, "key-degenerate", true, false)
	}
}

// homSequence: a random sequence of homomorphic combinations on opening triples; after every
// step the combination must open to the combined message and witness.
func (d *c18Dom) homSequence(c *Ctx, r *Rng, pool []c18Triple, steps int) {
	fail := func(kind string, err error) {
		c.Violation(fmt.Sprintf("%s: homomorphic %s failed: %s", d.head("step"), kind, c18errClass(err)))
	}
	for it := 0; it < steps; it++ {
		x := pool[r.IntN(len(pool))]
		var kind, extra string
		var y c18Triple
		var err error
		switch r.IntN(7) {
		case 6: // scalar multiple through the generic double-and-add helpers
			n := big.NewInt(int64(r.IntN(13)))
			if r.IntN(3) == 0 {
				n = r.BigBelow(new(big.Int).Lsh(big.NewInt(1), 64))
			}
			kind, extra = "scalar", bigHex(n)
			res := safely(func() string {
				if y, err = d.ops.nScalar(x, n); err != nil {
					return "err"
				}
				return "ok"
			})
			if res != "ok" {
				fail("nscalar:"+res, err)
				continue
			}
			c.Count(d.sch + ".hom.nscalar")
		case 0, 1: // Op with one or more further operands
			n := 1
			if r.IntN(3) == 0 {
				n = 2 + r.IntN(2)
			}
			others := make([]c18Triple, n)
			var cs, ms, ws []any
			for i := range others {
				others[i] = pool[r.IntN(len(pool))]
				cs, ms, ws = append(cs, others[i].cm), append(ms, others[i].m), append(ws, others[i].w)
				if i > 0 {
					extra += ";"
				}
				extra += d.triple(others[i])
			}
			kind = "op"
			res := safely(func() string {
				if y.cm, err = d.ops.cOp(x.cm, cs[0], cs[1:]); err != nil {
					return "err"
				}
				if y.m, err = d.ops.mOp(x.m, ms[0], ms[1:]); err != nil {
					return "err"
				}
				if y.w, err = d.ops.wOp(x.w, ws[0], ws[1:]); err != nil {
					return "err"
				}
				return "ok"
			})
			if res != "ok" {
				fail(kind+":"+res, err)
				continue
			}
		case 2:
			kind, extra = "inv", "-"
			res := safely(func() string {
				if y.cm, err = d.ops.cInv(x.cm); err != nil {
					return "err"
				}
				if y.m, err = d.ops.mInv(x.m); err != nil {
					return "err"
				}
				if y.w, err = d.ops.wInv(x.w); err != nil {
					return "err"
				}
				return "ok"
			})
			if res != "ok" {
				fail(kind+":"+res, err)
				continue
			}
		case 3:
			k := d.genS(r)
			kind, extra = "scalar", d.strS(k)
			res := safely(func() string {
				if y.cm, err = d.ops.cSc(x.cm, k); err != nil {
					return "err"
				}
				if y.m, err = d.ops.mSc(x.m, k); err != nil {
					return "err"
				}
				if y.w, err = d.ops.wSc(x.w, k); err != nil {
					return "err"
				}
				return "ok"
			})
			if res != "ok" {
				fail(kind+":"+res, err)
				continue
			}
		case 4:
			kind = "rerand"
			var s any
			res := safely(func() string {
				if r.IntN(2) == 0 {
					// the package-level helper samples the shift itself
					if y.cm, s, err = d.ops.rerandFresh(x.cm, r); err != nil {
						return "err"
					}
				} else {
					s = d.genW(r)
					if y.cm, err = d.ops.rerand(x.cm, s); err != nil {
						return "err"
					}
				}
				y.m = x.m
				if y.w, err = d.ops.wOp(x.w, s, nil); err != nil {
					return "err"
				}
				return "ok"
			})
			if res != "ok" {
				fail(kind+":"+res, err)
				continue
			}
			extra = d.strW(s)
		default:
			dm := d.genM(r)
			kind, extra = "shift", d.strM(dm)
			res := safely(func() string {
				if y.cm, err = d.ops.shift(x.cm, dm); err != nil {
					return "err"
				}
				if y.m, err = d.ops.mOp(x.m, dm, nil); err != nil {
					return "err"
				}
				y.w = x.w
				return "ok"
			})
			if res != "ok" {
				fail(kind+":"+res, err)
				continue
			}
		}
		c.Count(d.sch + ".hom." + kind)
		c.Emit(fmt.Sprintf("%s %s %s %s", d.head("step"), kind, d.triple(x), extra), d.triple(y))
		d.openLine(c, y, "combined", it%4 == 3, true)
		pool = append(pool, y)
	}
	// the final combination, recomputed from scratch by the model
	d.openLine(c, pool[len(pool)-1], "combined", true, true)
}

func c18errClass(err error) string {
	if err == nil {
		return "nil"
	}
	return "err"
}

// ---- integers ------------------------------------------------------------------------------

func bigHex(v *big.Int) string { return v.Text(16) }

// bitFlips returns v with one bit of its magnitude flipped, for every bit below `bits`
// (keep decides which results are representable), plus the neighbours v±1.
func c18BitFlips(v *big.Int, bits int, keep func(*big.Int) bool) []*big.Int {
	var out []*big.Int
	for i := 0; i < bits; i++ {
		x := new(big.Int).Abs(v)
		x.SetBit(x, i, x.Bit(i)^1)
		if v.Sign() < 0 {
			x.Neg(x)
		}
		if keep(x) && x.Cmp(v) != 0 {
			out = append(out, x)
		}
	}
	for _, dlt := range []int64{1, -1} {
		x := new(big.Int).Add(v, big.NewInt(dlt))
		if keep(x) && x.Cmp(v) != 0 {
			out = append(out, x)
		}
	}
	return out
}

func c18Sample[T any](r *Rng, xs []T, all bool, k int) []T {
	if all || len(xs) <= k {
		return xs
	}
	out := []T{xs[0], xs[len(xs)-1]}
	for i := 0; i < k; i++ {
		out = append(out, xs[r.IntN(len(xs))])
	}
	return out
}
