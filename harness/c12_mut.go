package main

import (
	"encoding/binary"
)

// ---- a tiny CBOR tree used only to *produce* mutants (the judge of a mutant is the Lean model,
// never this file).  It parses the library's own (well-formed, definite-length) output.

type c12Node struct {
	major byte
	arg   uint64    // argument of the head (value, length, count, tag number, simple/float bits)
	ai    byte      // additional information of the original head (for major 7)
	data  []byte    // payload of byte/text strings
	kids  []*c12Node // array elements; map k,v flattened; tag content
	// mutation flags
	longHead bool // encode the head with a longer-than-needed argument
	indef    bool // encode as indefinite length (strings: one chunk)
	raw      []byte // if non-nil, emitted verbatim instead of the node
}

func c12Parse(b []byte) (*c12Node, []byte, bool) {
	if len(b) == 0 {
		return nil, nil, false
	}
	n := &c12Node{major: b[0] >> 5, ai: b[0] & 31}
	rest := b[1:]
	switch {
	case n.ai < 24:
		n.arg = uint64(n.ai)
	case n.ai == 24:
		if len(rest) < 1 {
			return nil, nil, false
		}
		n.arg, rest = uint64(rest[0]), rest[1:]
	case n.ai == 25:
		if len(rest) < 2 {
			return nil, nil, false
		}
		n.arg, rest = uint64(binary.BigEndian.Uint16(rest)), rest[2:]
	case n.ai == 26:
		if len(rest) < 4 {
			return nil, nil, false
		}
		n.arg, rest = uint64(binary.BigEndian.Uint32(rest)), rest[4:]
	case n.ai == 27:
		if len(rest) < 8 {
			return nil, nil, false
		}
		n.arg, rest = binary.BigEndian.Uint64(rest), rest[8:]
	default:
		return nil, nil, false
	}
	switch n.major {
	case 2, 3:
		if uint64(len(rest)) < n.arg {
			return nil, nil, false
		}
		n.data, rest = append([]byte{}, rest[:n.arg]...), rest[n.arg:]
	case 4, 5:
		cnt := n.arg
		if n.major == 5 {
			cnt *= 2
		}
		if cnt > uint64(len(rest)) {
			return nil, nil, false
		}
		for i := uint64(0); i < cnt; i++ {
			k, r, ok := c12Parse(rest)
			if !ok {
				return nil, nil, false
			}
			n.kids = append(n.kids, k)
			rest = r
		}
	case 6:
		k, r, ok := c12Parse(rest)
		if !ok {
			return nil, nil, false
		}
		n.kids = []*c12Node{k}
		rest = r
	}
	return n, rest, true
}

func c12Head(major byte, arg uint64, long bool) []byte {
	m := major << 5
	lvl := 0
	switch {
	case arg < 24:
		lvl = 0
	case arg < 1<<8:
		lvl = 1
	case arg < 1<<16:
		lvl = 2
	case arg < 1<<32:
		lvl = 3
	default:
		lvl = 4
	}
	if long && lvl < 4 {
		lvl++
	}
	switch lvl {
	case 0:
		return []byte{m | byte(arg)}
	case 1:
		return []byte{m | 24, byte(arg)}
	case 2:
		return []byte{m | 25, byte(arg >> 8), byte(arg)}
	case 3:
		return []byte{m | 26, byte(arg >> 24), byte(arg >> 16), byte(arg >> 8), byte(arg)}
	default:
		out := make([]byte, 9)
		out[0] = m | 27
		binary.BigEndian.PutUint64(out[1:], arg)
		return out
	}
}

func (n *c12Node) enc() []byte {
	if n.raw != nil {
		return n.raw
	}
	switch n.major {
	case 0, 1:
		return c12Head(n.major, n.arg, n.longHead)
	case 2, 3:
		if n.indef {
			out := []byte{n.major<<5 | 31}
			out = append(out, c12Head(n.major, uint64(len(n.data)), false)...)
			out = append(out, n.data...)
			return append(out, 0xff)
		}
		return append(c12Head(n.major, uint64(len(n.data)), n.longHead), n.data...)
	case 4, 5:
		cnt := uint64(len(n.kids))
		if n.major == 5 {
			cnt /= 2
		}
		var out []byte
		if n.indef {
			out = []byte{n.major<<5 | 31}
		} else {
			out = c12Head(n.major, cnt, n.longHead)
		}
		for _, k := range n.kids {
			out = append(out, k.enc()...)
		}
		if n.indef {
			out = append(out, 0xff)
		}
		return out
	case 6:
		return append(c12Head(6, n.arg, n.longHead), n.kids[0].enc()...)
	default:
		switch {
		case n.ai < 24:
			return []byte{7<<5 | n.ai}
		case n.ai == 24:
			return []byte{0xf8, byte(n.arg)}
		case n.ai == 25:
			return []byte{0xf9, byte(n.arg >> 8), byte(n.arg)}
		case n.ai == 26:
			return []byte{0xfa, byte(n.arg >> 24), byte(n.arg >> 16), byte(n.arg >> 8), byte(n.arg)}
		default:
			out := make([]byte, 9)
			out[0] = 0xfb
			binary.BigEndian.PutUint64(out[1:], n.arg)
			return out
		}
	}
}

func (n *c12Node) clone() *c12Node {
	c := *n
	c.data = append([]byte{}, n.data...)
	if n.raw != nil {
		c.raw = append([]byte{}, n.raw...)
	}
	c.kids = make([]*c12Node, len(n.kids))
	for i, k := range n.kids {
		c.kids[i] = k.clone()
	}
	return &c
}

func (n *c12Node) all(out *[]*c12Node) {
	*out = append(*out, n)
	for _, k := range n.kids {
		k.all(out)
	}
}

func c12Pick(r *Rng, root *c12Node, pred func(*c12Node) bool) *c12Node {
	var all, sel []*c12Node
	root.all(&all)
	for _, n := range all {
		if pred(n) {
			sel = append(sel, n)
		}
	}
	if len(sel) == 0 {
		return nil
	}
	return sel[r.IntN(len(sel))]
}

func c12Text(s string) *c12Node { return &c12Node{major: 3, data: []byte(s)} }
func c12Uint(v uint64) *c12Node { return &c12Node{major: 0, arg: v} }
func c12Null() *c12Node         { return &c12Node{major: 7, ai: 22} }

// c12Mutant is one altered encoding.  kind names the generator; `preserving` says that the mutant
// denotes the same data item (another admissible encoding of it), so that an accepting decoder must
// return the original value; `mustReject` says that the property itself demands rejection.
type c12Mutant struct {
	// label refines kind in violation texts (dropfield:r = the entry "r" removed, nullfield:r = its
	// value replaced by null)
	label      string
	kind       string
	bytes      []byte
	preserving bool
	mustReject bool
}

var c12ByteKinds = []string{"flipbit", "setbyte", "truncate", "trailing", "insert", "delete", "reserved"}
var c12TreeKinds = []string{
	"swapentries", "dupkey", "unknownfield", "indef", "nonshortest", "tagwrap",
	"dropentry", "nullvalue", "uintedit", "bytesedit", "arrayedit", "swapvalues", "bigcount", "typeswap",
}

// c12Mutate produces one mutant of the valid encoding b (nil if the chosen kind does not apply).
func c12Mutate(r *Rng, b []byte, kind string) *c12Mutant {
	m := &c12Mutant{kind: kind}
	cp := append([]byte{}, b...)
	switch kind {
	case "flipbit":
		i := r.IntN(len(cp))
		cp[i] ^= 1 << r.IntN(8)
		m.bytes = cp
	case "setbyte":
		i := r.IntN(len(cp))
		cp[i] = []byte{0x00, 0xff, 0x1f, 0x5f, 0x7f, 0x9f, 0xbf, 0xf6, 0xc2, 0x1c, byte(r.IntN(256))}[r.IntN(11)]
		m.bytes = cp
	case "truncate":
		m.bytes = cp[:r.IntN(len(cp))]
		m.mustReject = true
	case "trailing":
		k := 1 + r.IntN(3)
		for i := 0; i < k; i++ {
			cp = append(cp, []byte{0x00, 0xf6, 0xff, byte(r.IntN(256))}[r.IntN(4)])
		}
		m.bytes = cp
		m.mustReject = true
	case "insert":
		i := r.IntN(len(cp) + 1)
		cp = append(cp[:i], append([]byte{byte(r.IntN(256))}, cp[i:]...)...)
		m.bytes = cp
	case "delete":
		i := r.IntN(len(cp))
		m.bytes = append(cp[:i], cp[i+1:]...)
	default:
		root, rest, ok := c12Parse(b)
		if !ok || len(rest) != 0 {
			return nil
		}
		if !c12TreeMutate(r, root, m) {
			return nil
		}
		m.bytes = root.enc()
	}
	if string(m.bytes) == string(b) {
		return nil
	}
	return m
}

func c12TreeMutate(r *Rng, root *c12Node, m *c12Mutant) bool {
	isMap := func(n *c12Node) bool { return n.major == 5 && len(n.kids) >= 2 }
	switch m.kind {
	case "reserved": // reserved additional information 28..30 on some head
		n := c12Pick(r, root, func(n *c12Node) bool { return n.major <= 6 })
		if n == nil {
			return false
		}
		n.raw = []byte{n.major<<5 | byte(28+r.IntN(3))}
		m.mustReject = true
	case "swapentries":
		n := c12Pick(r, root, func(n *c12Node) bool { return n.major == 5 && len(n.kids) >= 4 })
		if n == nil {
			return false
		}
		i := r.IntN(len(n.kids) / 2)
		j := (i + 1 + r.IntN(len(n.kids)/2-1)) % (len(n.kids) / 2)
		n.kids[2*i], n.kids[2*j] = n.kids[2*j], n.kids[2*i]
		n.kids[2*i+1], n.kids[2*j+1] = n.kids[2*j+1], n.kids[2*i+1]
		m.preserving = true
	case "dupkey":
		n := c12Pick(r, root, isMap)
		if n == nil {
			return false
		}
		i := r.IntN(len(n.kids) / 2)
		k, v := n.kids[2*i].clone(), n.kids[2*i+1].clone()
		if r.IntN(2) == 0 { // same key, another value
			v = c12Uint(uint64(r.IntN(5)))
		}
		if r.IntN(2) == 0 {
			k.longHead = true // same key in a different (non-shortest) spelling
		}
		pos := 2 * r.IntN(len(n.kids)/2+1)
		n.kids = append(n.kids[:pos], append([]*c12Node{k, v}, n.kids[pos:]...)...)
		m.mustReject = true
	case "unknownfield":
		n := c12Pick(r, root, func(n *c12Node) bool { return n.major == 5 })
		if n == nil {
			return false
		}
		n.kids = append(n.kids, c12Text("zzUnknownField"), []*c12Node{c12Uint(0), c12Null(), {major: 2, data: []byte{1}}}[r.IntN(3)])
		m.mustReject = true
	case "indef":
		n := c12Pick(r, root, func(n *c12Node) bool { return n.major >= 2 && n.major <= 5 })
		if n == nil {
			return false
		}
		n.indef = true
		m.mustReject = true
	case "nonshortest":
		n := c12Pick(r, root, func(n *c12Node) bool { return n.major <= 6 && n.arg < 1<<32 })
		if n == nil {
			return false
		}
		n.longHead = true
		m.preserving = true
	case "tagwrap":
		n := c12Pick(r, root, func(n *c12Node) bool { return true })
		c := *n
		*n = c12Node{major: 6, arg: []uint64{6, 100, 1000, 65536, 2, 3, 0, 55799}[r.IntN(8)], kids: []*c12Node{&c}}
	case "dropentry":
		n := c12Pick(r, root, isMap)
		if n == nil {
			return false
		}
		i := r.IntN(len(n.kids) / 2)
		n.kids = append(n.kids[:2*i], n.kids[2*i+2:]...)
	case "nullvalue":
		n := c12Pick(r, root, func(n *c12Node) bool { return n != root })
		if n == nil {
			return false
		}
		*n = *[]*c12Node{c12Null(), {major: 7, ai: 23}, {major: 4}, {major: 5}, {major: 2}, c12Uint(0)}[r.IntN(6)]
	case "uintedit":
		n := c12Pick(r, root, func(n *c12Node) bool { return n.major == 0 })
		if n == nil {
			return false
		}
		switch r.IntN(7) {
		case 0:
			n.arg = 0
		case 1:
			n.arg++
		case 2:
			n.arg--
		case 3:
			n.arg = 1 << 16
		case 4:
			n.arg = 1<<64 - 1
		case 5:
			n.arg = 1 << 31
		default:
			n.major = 1
		}
	case "bytesedit":
		n := c12Pick(r, root, func(n *c12Node) bool { return n.major == 2 })
		if n == nil {
			return false
		}
		switch r.IntN(9) {
		case 0:
			for i := range n.data {
				n.data[i] = 0
			}
		case 1:
			for i := range n.data {
				n.data[i] = 0xff
			}
		case 2:
			if len(n.data) > 0 {
				n.data = n.data[:len(n.data)-1]
			}
		case 3:
			n.data = append(n.data, byte(r.IntN(256)))
		case 4:
			n.data = nil
		case 5:
			if len(n.data) > 0 {
				n.data[0] ^= 0x80
			}
		case 6:
			if len(n.data) > 0 {
				n.data = append([]byte{0}, n.data...)
			}
		case 7:
			if len(n.data) > 0 {
				n.data[len(n.data)-1] ^= 1
			}
		default:
			if len(n.data) > 0 {
				n.data[r.IntN(len(n.data))] = byte(r.IntN(256))
			}
		}
	case "arrayedit":
		n := c12Pick(r, root, func(n *c12Node) bool { return n.major == 4 })
		if n == nil {
			return false
		}
		switch r.IntN(4) {
		case 0:
			n.kids = nil
		case 1:
			if len(n.kids) > 0 {
				i := r.IntN(len(n.kids))
				n.kids = append(n.kids[:i], n.kids[i+1:]...)
			}
		case 2:
			if len(n.kids) > 0 {
				n.kids = append(n.kids, n.kids[r.IntN(len(n.kids))].clone())
			}
		default:
			if len(n.kids) > 1 {
				i, j := r.IntN(len(n.kids)), r.IntN(len(n.kids))
				n.kids[i], n.kids[j] = n.kids[j], n.kids[i]
			}
		}
	case "swapvalues": // exchange two leaves of the same major type anywhere in the tree
		a := c12Pick(r, root, func(n *c12Node) bool { return n.major == 0 || n.major == 2 })
		if a == nil {
			return false
		}
		b := c12Pick(r, root, func(n *c12Node) bool { return n != a && n.major == a.major })
		if b == nil {
			return false
		}
		*a, *b = *b, *a
	case "bigcount": // a head that promises far more elements/bytes than present
		n := c12Pick(r, root, func(n *c12Node) bool { return n.major >= 2 && n.major <= 5 })
		if n == nil {
			return false
		}
		full := n.enc()
		hl := len(c12Head(n.major, n.arg, false))
		if n.major == 2 || n.major == 3 {
			hl = len(c12Head(n.major, uint64(len(n.data)), false))
		} else if n.major == 5 {
			hl = len(c12Head(n.major, uint64(len(n.kids)/2), false))
		} else {
			hl = len(c12Head(n.major, uint64(len(n.kids)), false))
		}
		big := []uint64{1 << 17, 1<<17 + 1, 1 << 32, 1<<64 - 1, 1 << 62}[r.IntN(5)]
		n.raw = append(c12Head(n.major, big, false), full[hl:]...)
	case "typeswap": // same payload under another major type
		n := c12Pick(r, root, func(n *c12Node) bool { return n.major == 2 || n.major == 3 || n.major == 0 })
		if n == nil {
			return false
		}
		switch n.major {
		case 2:
			n.major = 3
		case 3:
			n.major = 2
		default:
			n.major = 1
		}
	default:
		return false
	}
	return true
}

// c12FieldMutants enumerates, for every map entry at every level of the encoding, the mutant with
// that value replaced by null and the mutant with the entry removed.
func c12FieldMutants(b []byte) []*c12Mutant {
	root, rest, ok := c12Parse(b)
	if !ok || len(rest) != 0 {
		return nil
	}
	var all []*c12Node
	root.all(&all)
	var out []*c12Mutant
	for idx, n := range all {
		if n.major != 5 {
			continue
		}
		for e := 0; e < len(n.kids)/2; e++ {
			for _, kind := range []string{"nullfield", "dropfield"} {
				cp := root.clone()
				var cps []*c12Node
				cp.all(&cps)
				t := cps[idx]
				if kind == "nullfield" {
					t.kids[2*e+1] = c12Null()
				} else {
					t.kids = append(t.kids[:2*e], t.kids[2*e+2:]...)
				}
				label := kind
				if k := n.kids[2*e]; k.major == 3 {
					label = kind + ":" + string(k.data)
				}
				out = append(out, &c12Mutant{kind: kind, label: label, bytes: cp.enc()})
			}
		}
	}
	return out
}
