package main

import (
	"fmt"
	"math/big"
	"strings"

	"github.com/bronlabs/bron-crypto/pkg/base/algebra"
	"github.com/bronlabs/bron-crypto/pkg/base/curves/edwards25519"
	"github.com/bronlabs/bron-crypto/pkg/base/curves/k256"
	"github.com/bronlabs/bron-crypto/pkg/base/curves/p256"
	"github.com/bronlabs/bron-crypto/pkg/base/curves/pairable/bls12381"
	"github.com/bronlabs/bron-crypto/pkg/base/curves/pasta"
	"github.com/bronlabs/bron-crypto/pkg/encryption/elgamal"
)

// egEnv carries the curve-specific conversions so that one generic stream serves every group.
type egEnv[E elgamal.FiniteCyclicGroupElement[E, S], S algebra.UintLike[S]] struct {
	name  string
	group elgamal.FiniteCyclicGroup[E, S]
	order *big.Int
	ptStr func(E) string
	scOf  func(*big.Int) S
	scBig func(S) *big.Int
}

type egTriple[E elgamal.FiniteCyclicGroupElement[E, S], S algebra.UintLike[S]] struct {
	pt *elgamal.Plaintext[E, S]
	nc *elgamal.Nonce[S]
	ct *elgamal.Ciphertext[E, S]
}

func (e *egEnv[E, S]) ctStr(ct *elgamal.Ciphertext[E, S]) string {
	cs := ct.Value().Components()
	return e.ptStr(cs[0]) + "," + e.ptStr(cs[1])
}

func (e *egEnv[E, S]) tripleStr(t *egTriple[E, S]) string {
	cs := t.ct.Value().Components()
	return e.ptStr(t.pt.Value()) + " " + hexNat(e.scBig(t.nc.Value())) + " " + e.ptStr(cs[0]) + " " + e.ptStr(cs[1])
}

func (e *egEnv[E, S]) randScalar(r *Rng) *big.Int {
	switch r.IntN(8) {
	case 0:
		return big.NewInt(0)
	case 1:
		return big.NewInt(1)
	case 2:
		return new(big.Int).Sub(e.order, big.NewInt(1))
	case 3:
		return big.NewInt(int64(2 + r.IntN(1000)))
	default:
		return r.BigBelow(e.order)
	}
}

func (e *egEnv[E, S]) randPoint(r *Rng) E {
	if r.IntN(8) == 0 {
		return e.group.OpIdentity()
	}
	return e.group.Generator().ScalarOp(e.scOf(e.randScalar(r)))
}

// egOps is the part of the API shared by the public and the secret key.
type egOps[E elgamal.FiniteCyclicGroupElement[E, S], S algebra.UintLike[S]] interface {
	EncryptWithNonce(*elgamal.Plaintext[E, S], *elgamal.Nonce[S]) (*elgamal.Ciphertext[E, S], error)
	ReRandomise(*elgamal.Ciphertext[E, S], *elgamal.Nonce[S]) (*elgamal.Ciphertext[E, S], error)
	CiphertextOp(*elgamal.Ciphertext[E, S], *elgamal.Ciphertext[E, S], ...*elgamal.Ciphertext[E, S]) (*elgamal.Ciphertext[E, S], error)
	CiphertextOpInv(*elgamal.Ciphertext[E, S]) (*elgamal.Ciphertext[E, S], error)
	CiphertextScalarOp(*elgamal.Ciphertext[E, S], S) (*elgamal.Ciphertext[E, S], error)
	Shift(*elgamal.Ciphertext[E, S], *elgamal.Plaintext[E, S]) (*elgamal.Ciphertext[E, S], error)
	PlaintextOp(*elgamal.Plaintext[E, S], *elgamal.Plaintext[E, S], ...*elgamal.Plaintext[E, S]) (*elgamal.Plaintext[E, S], error)
	PlaintextOpInv(*elgamal.Plaintext[E, S]) (*elgamal.Plaintext[E, S], error)
	PlaintextScalarOp(*elgamal.Plaintext[E, S], S) (*elgamal.Plaintext[E, S], error)
	NonceOp(*elgamal.Nonce[S], *elgamal.Nonce[S], ...*elgamal.Nonce[S]) (*elgamal.Nonce[S], error)
	NonceOpInv(*elgamal.Nonce[S]) (*elgamal.Nonce[S], error)
	NonceScalarOp(*elgamal.Nonce[S], S) (*elgamal.Nonce[S], error)
}

func c16EGCurve[E elgamal.FiniteCyclicGroupElement[E, S], S algebra.UintLike[S]](c *Ctx, e *egEnv[E, S], keys, chains, steps int, stream uint64) {
	r := NewRng(c.Seed, 1650+stream)
	// rejected secret exponents
	for _, a := range []*big.Int{big.NewInt(0), big.NewInt(1)} {
		res := safely(func() string {
			sk, err := elgamal.NewSecretKey(e.group.Generator(), e.scOf(a))
			if err != nil {
				return c16Err(err)
			}
			return "ok:" + e.ptStr(sk.H())
		})
		c.Emit(fmt.Sprintf("eg-key %s %s", e.name, hexNat(a)), res)
	}
	for ki := 0; ki < keys; ki++ {
		a := r.BigBelow(e.order)
		if ki == 0 {
			a = new(big.Int).Sub(e.order, big.NewInt(1))
		}
		if a.Cmp(big.NewInt(2)) < 0 {
			a = big.NewInt(2)
		}
		aHex := hexNat(a)
		sk, err := elgamal.NewSecretKey(e.group.Generator(), e.scOf(a))
		if err != nil {
			c.Violation(fmt.Sprintf("elgamal.NewSecretKey rejected a valid exponent curve=%s a=%s: %s", e.name, aHex, c16Err(err)))
			continue
		}
		pk, err := elgamal.NewPublicKey(sk.H())
		if err != nil {
			c.Violation(fmt.Sprintf("elgamal.NewPublicKey rejected h=g^a curve=%s a=%s", e.name, aHex))
			continue
		}
		c.Emit(fmt.Sprintf("eg-key %s %s", e.name, aHex), "ok:"+e.ptStr(sk.H()))
		c.Count("eg.key." + e.name)
		ops := func(path string) egOps[E, S] {
			var inner egOps[E, S] = pk
			if path == "sk" {
				inner = sk
			}
			return &egImmut[E, S]{c: c, e: e, path: path, inner: inner} // input-immutability oracle
		}
		fresh := func(path string) *egTriple[E, S] {
			pt, err := elgamal.NewPlaintext[E, S](e.randPoint(r))
			if err != nil {
				panic(err)
			}
			nc, err := elgamal.NewNonce(e.scOf(e.randScalar(r)))
			if err != nil {
				panic(err)
			}
			ct, err := ops(path).EncryptWithNonce(pt, nc)
			if err != nil {
				panic(fmt.Sprintf("EncryptWithNonce: %v", err))
			}
			return &egTriple[E, S]{pt, nc, ct}
		}
		emitDec := func(ct *elgamal.Ciphertext[E, S], want E) {
			cs := ct.Value().Components()
			res := safely(func() string {
				m, err := sk.Decrypt(ct)
				if err != nil {
					return c16Err(err)
				}
				if !m.Value().Equal(want) {
					c.Violation(fmt.Sprintf("ElGamal Decrypt returned a different plaintext curve=%s a=%s c=%s want=%s got=%s", e.name, aHex, e.ctStr(ct), e.ptStr(want), e.ptStr(m.Value())))
				}
				return "ok:" + e.ptStr(m.Value())
			})
			c.Emit(fmt.Sprintf("eg-dec %s %s %s %s", e.name, aHex, e.ptStr(cs[0]), e.ptStr(cs[1])), res)
			c.Count("eg.dec." + e.name)
		}
		// encryption with given nonce through both paths: first the forced edge grid
		// {identity, generator, (n-1)G} x {0, 1, n-1}, then random draws
		nm1 := new(big.Int).Sub(e.order, big.NewInt(1))
		type egCase struct {
			M  E
			rr *big.Int
		}
		var cases []egCase
		if ki == 0 {
			gen := e.group.Generator()
			for _, M := range []E{e.group.OpIdentity(), gen, gen.ScalarOp(e.scOf(nm1))} {
				for _, rr := range []*big.Int{big.NewInt(0), big.NewInt(1), nm1} {
					cases = append(cases, egCase{M, rr})
					c.Count("eg.edge." + e.name)
				}
			}
		}
		for i := 0; i < 4+chains; i++ {
			cases = append(cases, egCase{e.randPoint(r), e.randScalar(r)})
		}
		for _, cs := range cases {
			M := cs.M
			rr := cs.rr
			var outs [2]string
			for j, path := range []string{"pk", "sk"} {
				var ctOut *elgamal.Ciphertext[E, S]
				res := safely(func() string {
					pt, err := elgamal.NewPlaintext[E, S](M)
					if err != nil {
						return c16Err(err)
					}
					nc, err := elgamal.NewNonce(e.scOf(rr))
					if err != nil {
						return c16Err(err)
					}
					ct, err := ops(path).EncryptWithNonce(pt, nc)
					if err != nil {
						return c16Err(err)
					}
					ctOut = ct
					return "ok:" + e.ctStr(ct)
				})
				outs[j] = res
				c.Emit(fmt.Sprintf("eg-enc %s %s %s %s %s", path, e.name, aHex, e.ptStr(M), hexNat(rr)), res)
				c.Count("eg.enc." + e.name)
				if ctOut != nil && j == 1 {
					emitDec(ctOut, M)
				}
			}
			if outs[0] != outs[1] {
				c.Violation(fmt.Sprintf("ElGamal secret-key and public-key encryption differ curve=%s a=%s M=%s r=%s", e.name, aHex, e.ptStr(M), hexNat(rr)))
			}
		}
		// chains of homomorphic operations
		for ch := 0; ch < chains; ch++ {
			path := []string{"pk", "sk"}[ch%2]
			t := fresh(path)
			for st := 0; st < steps; st++ {
				o := ops(path)
				before := e.tripleStr(t)
				var kind, operands string
				var out *egTriple[E, S]
				res := safely(func() string {
					var err error
					out = &egTriple[E, S]{}
					switch r.IntN(6) {
					case 0, 1:
						kind = "op"
						u := fresh([]string{"pk", "sk"}[r.IntN(2)])
						if r.IntN(6) == 0 {
							u = t
						}
						operands = e.tripleStr(u)
						if out.ct, err = o.CiphertextOp(t.ct, u.ct); err != nil {
							return c16Err(err)
						}
						if out.pt, err = o.PlaintextOp(t.pt, u.pt); err != nil {
							return c16Err(err)
						}
						out.nc, err = o.NonceOp(t.nc, u.nc)
					case 2:
						kind = "inv"
						if out.ct, err = o.CiphertextOpInv(t.ct); err != nil {
							return c16Err(err)
						}
						if out.pt, err = o.PlaintextOpInv(t.pt); err != nil {
							return c16Err(err)
						}
						out.nc, err = o.NonceOpInv(t.nc)
					case 3:
						kind = "scal"
						k := e.randScalar(r)
						operands = hexNat(k)
						ks := e.scOf(k)
						if out.ct, err = o.CiphertextScalarOp(t.ct, ks); err != nil {
							return c16Err(err)
						}
						if out.pt, err = o.PlaintextScalarOp(t.pt, ks); err != nil {
							return c16Err(err)
						}
						out.nc, err = o.NonceScalarOp(t.nc, ks)
					case 4:
						kind = "shift"
						D := e.randPoint(r)
						operands = e.ptStr(D)
						var dp *elgamal.Plaintext[E, S]
						if dp, err = elgamal.NewPlaintext[E, S](D); err != nil {
							return c16Err(err)
						}
						out.nc = t.nc
						if out.ct, err = o.Shift(t.ct, dp); err != nil {
							return c16Err(err)
						}
						out.pt, err = o.PlaintextOp(t.pt, dp)
					default:
						kind = "rerand"
						s := e.randScalar(r)
						operands = hexNat(s)
						var sn *elgamal.Nonce[S]
						if sn, err = elgamal.NewNonce(e.scOf(s)); err != nil {
							return c16Err(err)
						}
						out.pt = t.pt
						if out.ct, err = o.ReRandomise(t.ct, sn); err != nil {
							return c16Err(err)
						}
						out.nc, err = o.NonceOp(t.nc, sn)
					}
					if err != nil {
						return c16Err(err)
					}
					return "ok:" + e.ctStr(out.ct) + "," + e.ptStr(out.pt.Value()) + "," + hexNat(e.scBig(out.nc.Value()))
				})
				lhs := fmt.Sprintf("eg-hom %s %s %s %s %s", path, e.name, aHex, kind, before)
				if operands != "" {
					lhs += " " + operands
				}
				c.Emit(lhs, res)
				c.Count("eg.hom." + kind + "." + e.name)
				if !strings.HasPrefix(res, "ok:") {
					c.Violation(fmt.Sprintf("ElGamal homomorphic operation failed on valid inputs: %s => %s", lhs, res))
					break
				}
				t = out
				emitDec(t.ct, t.pt.Value())
			}
		}
		// aggregation over one batch: variadic operations on sub-slices xs[lo:hi] (hi < len <= cap)
		// of the same arrays, prefix / sliding window / total, results re-used; the line carries
		// the values recorded at creation
		if ki == 0 {
			batch := 5
			for _, path := range []string{"sk", "pk"} {
				o := ops(path)
				pts := make([]*elgamal.Plaintext[E, S], batch, batch+2)
				ncs := make([]*elgamal.Nonce[S], batch, batch+2)
				cts := make([]*elgamal.Ciphertext[E, S], batch, batch+2)
				type rec struct{ m, r, c1, c2 string }
				recs := make([]rec, batch)
				for i := 0; i < batch; i++ {
					t := fresh([]string{"pk", "sk"}[i%2])
					pts[i], ncs[i], cts[i] = t.pt, t.nc, t.ct
					cs := t.ct.Value().Components()
					recs[i] = rec{e.ptStr(t.pt.Value()), hexNat(e.scBig(t.nc.Value())), e.ptStr(cs[0]), e.ptStr(cs[1])}
				}
				emit := func(kind string, a, b, lo, hi int) *egTriple[E, S] {
					out := &egTriple[E, S]{}
					res := safely(func() string {
						var err error
						if out.ct, err = o.CiphertextOp(cts[a], cts[b], cts[lo:hi]...); err != nil {
							return c16Err(err)
						}
						if out.pt, err = o.PlaintextOp(pts[a], pts[b], pts[lo:hi]...); err != nil {
							return c16Err(err)
						}
						if out.nc, err = o.NonceOp(ncs[a], ncs[b], ncs[lo:hi]...); err != nil {
							return c16Err(err)
						}
						return "ok:" + e.ctStr(out.ct) + "," + e.ptStr(out.pt.Value()) + "," + hexNat(e.scBig(out.nc.Value()))
					})
					idx := []int{b}
					for i := lo; i < hi; i++ {
						idx = append(idx, i)
					}
					ms, rs, c1s, c2s := make([]string, len(idx)), make([]string, len(idx)), make([]string, len(idx)), make([]string, len(idx))
					for j, i := range idx {
						ms[j], rs[j], c1s[j], c2s[j] = recs[i].m, recs[i].r, recs[i].c1, recs[i].c2
					}
					lhs := fmt.Sprintf("eg-hom %s %s %s op %s %s %s %s %s %s %s %s", path, e.name, aHex, recs[a].m, recs[a].r, recs[a].c1, recs[a].c2,
						strings.Join(ms, ","), strings.Join(rs, ","), strings.Join(c1s, ","), strings.Join(c2s, ","))
					c.Emit(lhs, res)
					c.Count("eg.agg." + kind + "." + e.name)
					if !strings.HasPrefix(res, "ok:") {
						c.Violation(fmt.Sprintf("ElGamal aggregation failed on valid inputs: curve=%s path=%s %s => %s", e.name, path, kind, res))
						return nil
					}
					emitDec(out.ct, out.pt.Value())
					return out
				}
				for i := 2; i <= batch; i++ {
					emit("prefix", 0, 1, 2, i)
				}
				for j := 0; j+3 <= batch; j++ {
					emit("window", j, j+1, j+2, j+3)
				}
				emit("suffix", batch-1, batch-2, 1, batch-2)
				emit("total", 0, 1, 2, batch)
				for i := 0; i < batch; i++ {
					cs := cts[i].Value().Components()
					if e.ptStr(pts[i].Value()) != recs[i].m || hexNat(e.scBig(ncs[i].Value())) != recs[i].r || e.ptStr(cs[0]) != recs[i].c1 || e.ptStr(cs[1]) != recs[i].c2 {
						c.Violation(fmt.Sprintf("input-mutated ElGamal batch element %d differs from its record after the aggregation sequence curve=%s path=%s", i, e.name, path))
					}
				}
			}
		}
	}
}

func c16ElGamal(c *Ctx) {
	keys, chains, steps := 1, 2, 4
	if c.Thorough() {
		keys, chains, steps = 3, 8, 8
	}
	kE := &egEnv[*k256.Point, *k256.Scalar]{
		name: "k256", group: cK256, order: fieldOrder(fK256),
		ptStr: func(p *k256.Point) string { return pointStr(p) },
		scOf:  func(v *big.Int) *k256.Scalar { return scalarFromBig(fK256, v) },
		scBig: func(s *k256.Scalar) *big.Int { return new(big.Int).SetBytes(s.BytesBE()) },
	}
	c16EGCurve(c, kE, keys, chains, steps, 1)
	eE := &egEnv[*edwards25519.PrimeSubGroupPoint, *edwards25519.Scalar]{
		name: "ed25519", group: cEd25519, order: fieldOrder(fEd25519),
		ptStr: func(p *edwards25519.PrimeSubGroupPoint) string { return pointStr(p) },
		scOf:  func(v *big.Int) *edwards25519.Scalar { return scalarFromBig(fEd25519, v) },
		scBig: func(s *edwards25519.Scalar) *big.Int { return new(big.Int).SetBytes(s.BytesBE()) },
	}
	c16EGCurve(c, eE, keys, chains, steps, 2)
	bE := &egEnv[*bls12381.PointG1, *bls12381.Scalar]{
		name: "bls12381g1", group: cBLSG1, order: fieldOrder(fBLS),
		ptStr: func(p *bls12381.PointG1) string { return pointStr(p) },
		scOf:  func(v *big.Int) *bls12381.Scalar { return scalarFromBig(fBLS, v) },
		scBig: func(s *bls12381.Scalar) *big.Int { return new(big.Int).SetBytes(s.BytesBE()) },
	}
	c16EGCurve(c, bE, keys, chains, steps, 3)
	// the remaining supported groups: fewer / shorter chains in the quick tier
	chains2, steps2 := 1, 5
	if c.Thorough() {
		chains2, steps2 = chains, steps
	}
	pE := &egEnv[*p256.Point, *p256.Scalar]{
		name: "p256", group: cP256, order: fieldOrder(fP256),
		ptStr: func(p *p256.Point) string { return pointStr(p) },
		scOf:  func(v *big.Int) *p256.Scalar { return scalarFromBig(fP256, v) },
		scBig: func(s *p256.Scalar) *big.Int { return new(big.Int).SetBytes(s.BytesBE()) },
	}
	c16EGCurve(c, pE, keys, chains2, steps2, 4)
	paE := &egEnv[*pasta.PallasPoint, *pasta.PallasScalar]{
		name: "pallas", group: cPallas, order: fieldOrder(fPallas),
		ptStr: func(p *pasta.PallasPoint) string { return pointStr(p) },
		scOf:  func(v *big.Int) *pasta.PallasScalar { return scalarFromBig(fPallas, v) },
		scBig: func(s *pasta.PallasScalar) *big.Int { return new(big.Int).SetBytes(s.BytesBE()) },
	}
	c16EGCurve(c, paE, keys, chains2, steps2, 5)
	fVesta := pasta.NewVestaScalarField()
	vE := &egEnv[*pasta.VestaPoint, *pasta.VestaScalar]{
		name: "vesta", group: cVesta, order: fieldOrder(fVesta),
		ptStr: func(p *pasta.VestaPoint) string { return pointStr(p) },
		scOf:  func(v *big.Int) *pasta.VestaScalar { return scalarFromBig(fVesta, v) },
		scBig: func(s *pasta.VestaScalar) *big.Int { return new(big.Int).SetBytes(s.BytesBE()) },
	}
	c16EGCurve(c, vE, keys, chains2, steps2, 6)
	g2E := &egEnv[*bls12381.PointG2, *bls12381.Scalar]{
		name: "bls12381g2", group: cBLSG2, order: fieldOrder(fBLS),
		ptStr: func(p *bls12381.PointG2) string { return pointStr(p) },
		scOf:  func(v *big.Int) *bls12381.Scalar { return scalarFromBig(fBLS, v) },
		scBig: func(s *bls12381.Scalar) *big.Int { return new(big.Int).SetBytes(s.BytesBE()) },
	}
	c16EGCurve(c, g2E, keys, chains2, steps2, 7)
}
