package main

import (
	"github.com/bronlabs/bron-crypto/pkg/base/algebra"
	"github.com/bronlabs/bron-crypto/pkg/base/curves"
)

func c05Pedersen[P curves.Point[P, F, S], F algebra.FiniteFieldElement[F], S algebra.PrimeFieldElement[S]](
	c *Ctx, r *Rng, curve string, group curves.Curve[P, F, S], field algebra.PrimeField[S], as c05AS, full bool,
) {
}
