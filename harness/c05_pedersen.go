package main

import (
	"fmt"
	"slices"
	"strings"

	"github.com/bronlabs/bron-crypto/pkg/base/algebra"
	"github.com/bronlabs/bron-crypto/pkg/base/curves"
	"github.com/bronlabs/bron-crypto/pkg/base/mat"
	pedcom "github.com/bronlabs/bron-crypto/pkg/commitments/pedersencom"
	"github.com/bronlabs/bron-crypto/pkg/mpc/sharing"
	"github.com/bronlabs/bron-crypto/pkg/mpc/sharing/scheme/kw"
	"github.com/bronlabs/bron-crypto/pkg/mpc/sharing/scheme/kw/msp"
	"github.com/bronlabs/bron-crypto/pkg/mpc/sharing/vss/feldman"
	"github.com/bronlabs/bron-crypto/pkg/mpc/sharing/vss/pedersen"
)

// c05PShare is a Pedersen share as two scalar vectors (secret part, blinding part).
type c05PShare[S any] struct {
	s []S
	b []S
}

type c05PDealing[P any, S algebra.PrimeFieldElement[S]] struct {
	rg, rh []S
	pts    []P
	shares map[sharing.ID]c05PShare[S]
}

type c05P[P curves.Point[P, F, S], F algebra.FiniteFieldElement[F], S algebra.PrimeFieldElement[S]] struct {
	c      *Ctx
	r      *Rng
	curve  string
	group  curves.Curve[P, F, S]
	field  algebra.PrimeField[S]
	key    *pedcom.CommitmentKey[P, S]
	h      P
	hLog   S // log_G H, known to the harness only (used to build a second opening)
	scheme *pedersen.Scheme[P, S]
	M      *c05Msp[S]
	// object-reuse mode (c05_reuse.go), as in c05F
	obj   *pedersen.VerificationVector[P, S]
	shObj *pedersen.Share[S]
}

func (x *c05P[P, F, S]) tag() string {
	if x.obj != nil || x.shObj != nil {
		return "@reuse"
	}
	return ""
}

func (x *c05P[P, F, S]) pre() string { return x.curve + " " + x.M.ctx() + " " + pointStr(x.h) }

func (x *c05P[P, F, S]) buildVV(pts []P) (*pedersen.VerificationVector[P, S], error) {
	if x.obj != nil {
		return x.obj, nil
	}
	mod, err := mat.NewModuleValuedColumnVectorModule(uint(len(pts)), algebra.FiniteModule[P, S](x.group))
	if err != nil {
		return nil, err
	}
	col, err := mod.NewRowMajor(pts...)
	if err != nil {
		return nil, err
	}
	return newPedVV[P, S](col)
}

func (x *c05P[P, F, S]) mkShare(id sharing.ID, sh c05PShare[S]) (*pedersen.Share[S], error) {
	if x.shObj != nil {
		return x.shObj, nil
	}
	ss, err := kw.NewShare(id, sh.s...)
	if err != nil {
		return nil, err
	}
	bs, err := kw.NewShare(id, sh.b...)
	if err != nil {
		return nil, err
	}
	return pedersen.NewShare(id, ss, bs)
}

func (x *c05P[P, F, S]) verify(kind string, pts []P, id sharing.ID, sh c05PShare[S]) string {
	res := safely(func() string {
		ref, err := x.buildVV(pts)
		if err != nil {
			return "reject"
		}
		share, err := x.mkShare(id, sh)
		if err != nil {
			return "reject"
		}
		if err := x.scheme.Verify(share, ref); err != nil {
			return "reject"
		}
		return "accept"
	})
	x.c.Count("pverify" + x.tag() + "." + kind + "." + res)
	x.c.Emit(fmt.Sprintf("pverify%s %s %s %s %d %s %s", x.tag(), kind, x.pre(), pointsStr(pts), id, scalarsHex(sh.s), scalarsHex(sh.b)), res)
	return res
}

func (x *c05P[P, F, S]) smallNonZero() S {
	for {
		s := smallScalar(x.r, x.field)
		if !s.IsZero() {
			return s
		}
	}
}

func pSharesStr[S algebra.PrimeFieldElement[S]](shares map[sharing.ID]c05PShare[S], order []sharing.ID) string {
	parts := make([]string, len(order))
	for i, id := range order {
		parts[i] = fmt.Sprintf("%d:%s/%s", id, scalarsHex(shares[id].s), scalarsHex(shares[id].b))
	}
	return strings.Join(parts, ";")
}

func witnessValues[S algebra.PrimeFieldElement[S]](ws []*pedcom.Witness[S]) []S {
	out := make([]S, len(ws))
	for i, w := range ws {
		out[i] = w.Value()
	}
	return out
}

func (x *c05P[P, F, S]) collect(d *c05PDealing[P, S], get func(id sharing.ID) (*pedersen.Share[S], error)) error {
	for _, id := range x.M.ids {
		sh, err := get(id)
		if err != nil {
			return err
		}
		d.shares[id] = c05PShare[S]{sh.Value(), witnessValues(sh.Blinding())}
	}
	return nil
}

// dealColumns: trusted-dealer path from two explicit columns.
func (x *c05P[P, F, S]) dealColumns(rg, rh []S) (*c05PDealing[P, S], bool) {
	d := &c05PDealing[P, S]{rg: rg, rh: rh, shares: map[sharing.ID]c05PShare[S]{}}
	res := safely(func() string {
		mod, err := mat.NewColumnVectorModule(uint(len(rg)), x.field)
		if err != nil {
			return "reject"
		}
		cg, err := mod.NewRowMajor(rg...)
		if err != nil {
			return "reject"
		}
		ch, err := mod.NewRowMajor(rh...)
		if err != nil {
			return "reject"
		}
		dg, err := kw.NewDealerFunc(cg, x.M.m)
		if err != nil {
			return "reject"
		}
		dh, err := kw.NewDealerFunc(ch, x.M.m)
		if err != nil {
			return "reject"
		}
		df, err := pedersen.NewDealerFunc(dg, dh)
		if err != nil {
			return "reject"
		}
		ldf, err := pedersen.LiftDealerFunc(df, x.key)
		if err != nil {
			return "reject"
		}
		d.pts = c05Points(ldf.VerificationVector().Value())
		if err := x.collect(d, df.ShareOf); err != nil {
			return "reject"
		}
		return pointsStr(d.pts) + "|" + pSharesStr(d.shares, x.M.ids)
	})
	x.c.Emit(fmt.Sprintf("pdeal column %s %s %s", x.pre(), scalarsHex(rg), scalarsHex(rh)), res)
	return d, !strings.HasPrefix(res, "panic") && res != "reject"
}

func (x *c05P[P, F, S]) smallColumn() []S {
	col := make([]S, x.M.cols)
	for i := range col {
		col[i] = smallScalar(x.r, x.field)
	}
	return col
}

func (x *c05P[P, F, S]) dealScheme() (*c05PDealing[P, S], bool) {
	d := &c05PDealing[P, S]{shares: map[sharing.ID]c05PShare[S]{}}
	secret := kw.NewSecret(scalarFromBig(x.field, x.r.BigBelow(fieldOrder(x.field))))
	res := safely(func() string {
		out, df, err := x.scheme.DealAndRevealDealerFunc(secret, x.r)
		if err != nil {
			return "reject"
		}
		d.rg = c05Column(df.G().RandomColumn())
		d.rh = c05Column(df.H().RandomColumn())
		d.pts = c05Points(out.VerificationMaterial().Value())
		if err := x.collect(d, func(id sharing.ID) (*pedersen.Share[S], error) {
			sh, ok := out.Shares().Get(id)
			if !ok {
				return nil, fmt.Errorf("missing")
			}
			return sh, nil
		}); err != nil {
			return "reject"
		}
		if !d.rg[0].Equal(secret.Value()) {
			x.c.Violation("Pedersen: dealt column does not start with the secret")
		}
		return pointsStr(d.pts) + "|" + pSharesStr(d.shares, x.M.ids)
	})
	x.c.Emit(fmt.Sprintf("pdeal scheme %s %s %s", x.pre(), scalarsHex(d.rg), scalarsHex(d.rh)), res)
	return d, !strings.HasPrefix(res, "panic") && res != "reject"
}

func (x *c05P[P, F, S]) recVer(kind string, pts []P, shares map[sharing.ID]c05PShare[S], order []sharing.ID) {
	res := safely(func() string {
		ref, err := x.buildVV(pts)
		if err != nil {
			return "reject"
		}
		var ss []*pedersen.Share[S]
		for _, id := range order {
			sh, err := x.mkShare(id, shares[id])
			if err != nil {
				return "reject"
			}
			ss = append(ss, sh)
		}
		sec, err := x.scheme.ReconstructAndVerify(ref, ss...)
		if err != nil {
			return "reject"
		}
		return "ok:" + scalarHex(sec.Value())
	})
	x.c.Count("precver" + x.tag() + "." + kind + "." + strings.SplitN(res, ":", 2)[0])
	x.c.Emit(fmt.Sprintf("precver%s %s %s %s %s", x.tag(), kind, x.pre(), pointsStr(pts), pSharesStr(shares, order)), res)
}

// sum: VerificationVector.Op over several dealings and Share.Add for one holder, then Verify.
func (x *c05P[P, F, S]) sum(ds []*c05PDealing[P, S], id sharing.ID) ([]P, c05PShare[S], bool) {
	vparts := make([]string, len(ds))
	sparts := make([]string, len(ds))
	bparts := make([]string, len(ds))
	for i, d := range ds {
		vparts[i] = pointsStr(d.pts)
		sparts[i] = scalarsHex(d.shares[id].s)
		bparts[i] = scalarsHex(d.shares[id].b)
	}
	var outP []P
	var outS c05PShare[S]
	ok := false
	res := safely(func() string {
		acc, err := x.buildVV(ds[0].pts)
		if err != nil {
			return "reject"
		}
		sh, err := x.mkShare(id, ds[0].shares[id])
		if err != nil {
			return "reject"
		}
		for _, d := range ds[1:] {
			o, err := x.buildVV(d.pts)
			if err != nil {
				return "reject"
			}
			acc, err = acc.Op(o)
			if err != nil {
				return "reject"
			}
			o2, err := x.mkShare(id, d.shares[id])
			if err != nil {
				return "reject"
			}
			sh = sh.Add(o2)
		}
		outP = c05Points(acc.Value())
		outS = c05PShare[S]{sh.Value(), witnessValues(sh.Blinding())}
		ok = true
		v := "accept"
		if err := x.scheme.Verify(sh, acc); err != nil {
			v = "reject"
		}
		return pointsStr(outP) + "|" + scalarsHex(outS.s) + "|" + scalarsHex(outS.b) + "|" + v
	})
	x.c.Count(fmt.Sprintf("psum.%d", len(ds)))
	x.c.Emit(fmt.Sprintf("psum %s %s %d %s %s", x.pre(), strings.Join(vparts, ";"), id, strings.Join(sparts, ";"), strings.Join(bparts, ";")), res)
	return outP, outS, ok
}

func c05Pedersen[P curves.Point[P, F, S], F algebra.FiniteFieldElement[F], S algebra.PrimeFieldElement[S]](
	c *Ctx, r *Rng, curve string, group curves.Curve[P, F, S], field algebra.PrimeField[S], as c05AS, full bool,
) {
	x := &c05P[P, F, S]{c: c, r: r, curve: curve, group: group, field: field}
	for {
		x.hLog = scalarFromBig(field, r.BigBelow(fieldOrder(field)))
		if !x.hLog.IsZero() && !x.hLog.IsOne() {
			break
		}
	}
	x.h = group.Generator().ScalarOp(x.hLog)
	key, err := pedcom.NewCommitmentKeyUnchecked(group.Generator(), x.h)
	if err != nil {
		c.Violation("pedersen key rejected")
		return
	}
	x.key = key
	var scheme *pedersen.Scheme[P, S]
	if p := safely(func() string { scheme, err = pedersen.NewScheme(key, as.ac); return "" }); p != "" {
		c.Violation("pedersen.NewScheme panicked for " + as.family + ": " + p)
		return
	}
	if err != nil {
		c.Note("pedersen.NewScheme rejected " + as.family)
		c.Count("pedersen.scheme.rejected." + as.family)
		return
	}
	x.scheme = scheme
	pm := mspOfPedersen(scheme, field, as)
	if pm == nil {
		c.Violation("induced MSP is not a function of the access structure: " + as.family)
		return
	}
	x.M = c05ReadMSP(pm)
	M := x.M
	var qual, unqual [][]sharing.ID
	for _, s := range c05Subsets(M.ids) {
		if scheme.CanReconstruct(s...) {
			qual = append(qual, s)
		} else {
			unqual = append(unqual, s)
		}
	}
	sub := func(d *c05PDealing[P, S], ids []sharing.ID) map[sharing.ID]c05PShare[S] {
		out := map[sharing.ID]c05PShare[S]{}
		for _, id := range ids {
			out[id] = d.shares[id]
		}
		return out
	}

	if full {
		if d, ok := x.dealScheme(); ok {
			for _, id := range M.ids {
				if x.verify("honest", d.pts, id, d.shares[id]) != "accept" {
					c.Violation(fmt.Sprintf("honest Pedersen share rejected %s id=%d", x.pre(), id))
				}
			}
			id := M.ids[r.IntN(len(M.ids))]
			sh := d.shares[id]
			t := c05PShare[S]{slices.Clone(sh.s), slices.Clone(sh.b)}
			k := r.IntN(len(t.s))
			if r.IntN(2) == 0 {
				t.s[k] = t.s[k].Add(field.One())
			} else {
				t.b[k] = t.b[k].Add(field.One())
			}
			x.verify("coord", d.pts, id, t)
			q := qual[r.IntN(len(qual))]
			x.recVer("honest", d.pts, sub(d, q), q)
		}
	}

	d, ok := x.dealColumns(x.smallColumn(), x.smallColumn())
	if !ok {
		return
	}
	// 1. honest
	for _, id := range M.ids {
		if x.verify("honest", d.pts, id, d.shares[id]) != "accept" {
			c.Violation(fmt.Sprintf("honest Pedersen share rejected %s id=%d", x.pre(), id))
		}
	}
	// 2. every single coordinate of the secret part and of the blinding part
	for _, id := range M.ids {
		sh := d.shares[id]
		for k := range sh.s {
			t := c05PShare[S]{slices.Clone(sh.s), sh.b}
			t.s[k] = t.s[k].Add(x.smallNonZero())
			x.verify("coord-secret", d.pts, id, t)
			t = c05PShare[S]{sh.s, slices.Clone(sh.b)}
			t.b[k] = t.b[k].Add(x.smallNonZero())
			x.verify("coord-blind", d.pts, id, t)
		}
		if len(sh.s) >= 2 {
			t := c05PShare[S]{slices.Clone(sh.s), slices.Clone(sh.b)}
			t.s[0], t.s[1] = t.s[1], t.s[0]
			t.b[0], t.b[1] = t.b[1], t.b[0]
			x.verify("coord-swap", d.pts, id, t)
		}
		x.verify("parts-swapped", d.pts, id, c05PShare[S]{sh.b, sh.s})
	}
	// 3. lengths
	{
		id := M.ids[r.IntN(len(M.ids))]
		sh := d.shares[id]
		n := len(sh.s)
		x.verify("len-short", d.pts, id, c05PShare[S]{sh.s[:n-1], sh.b[:n-1]})
		x.verify("len-long", d.pts, id, c05PShare[S]{append(slices.Clone(sh.s), field.Zero()), append(slices.Clone(sh.b), field.Zero())})
		x.verify("len-mismatch", d.pts, id, c05PShare[S]{sh.s, append(slices.Clone(sh.b), field.Zero())})
		x.verify("len-mismatch", d.pts, id, c05PShare[S]{append(slices.Clone(sh.s), field.Zero()), sh.b})
	}
	// 4. wrong / unknown holder
	pairs := 0
	for _, i := range M.ids {
		for _, j := range M.ids {
			if i == j || (!c.Thorough() && pairs >= 6) {
				continue
			}
			pairs++
			x.verify("wrong-id", d.pts, i, d.shares[j])
		}
	}
	x.verify("unknown-id", d.pts, sharing.ID(70000+r.IntN(1000)), d.shares[M.ids[0]])
	if zd, ok := x.dealColumns(make0(field, M.cols), make0(field, M.cols)); ok {
		i, j := M.ids[r.IntN(len(M.ids))], M.ids[r.IntN(len(M.ids))]
		x.verify("wrong-id-zero", zd.pts, i, zd.shares[j])
	}
	// 5. single entries of V
	for k := range d.pts {
		tv := slices.Clone(d.pts)
		switch r.IntN(3) {
		case 0:
			tv[k] = tv[k].Op(group.Generator().ScalarOp(x.smallNonZero()))
		case 1:
			tv[k] = group.OpIdentity()
		default:
			tv[k] = tv[k].Op(x.h)
		}
		for _, id := range M.ids {
			x.verify("vv-entry", tv, id, d.shares[id])
		}
	}
	// 6. V shorter / longer / extended by the identity
	{
		id := M.ids[r.IntN(len(M.ids))]
		if len(d.pts) >= 2 {
			x.verify("vv-len", d.pts[:len(d.pts)-1], id, d.shares[id])
		}
		x.verify("vv-len", append(slices.Clone(d.pts), group.OpIdentity()), id, d.shares[id])
		x.verify("vv-len", append([]P{group.OpIdentity()}, d.pts...), id, d.shares[id])
	}
	// 7. sums of dealings
	{
		ds := []*c05PDealing[P, S]{d}
		top := 3
		if c.Thorough() {
			top = 5
		}
		for n := 2; n <= top; n++ {
			nd, ok := x.dealColumns(x.smallColumn(), x.smallColumn())
			if !ok {
				break
			}
			ds = append(ds, nd)
			for _, id := range M.ids {
				sv, ss, ok := x.sum(ds, id)
				if !ok {
					continue
				}
				x.verify("sum-part", sv, id, ds[0].shares[id])
				t := c05PShare[S]{slices.Clone(ss.s), slices.Clone(ss.b)}
				k := r.IntN(len(t.s))
				t.b[k] = t.b[k].Add(x.smallNonZero())
				x.verify("sum-coord", sv, id, t)
				if !c.Thorough() {
					break
				}
			}
		}
	}
	// 8. ReconstructAndVerify
	{
		q := qual[r.IntN(len(qual))]
		x.recVer("honest", d.pts, sub(d, q), q)
		h := q[r.IntN(len(q))]
		ts := sub(d, q)
		t := c05PShare[S]{slices.Clone(ts[h].s), slices.Clone(ts[h].b)}
		k := r.IntN(len(t.s))
		t.s[k] = t.s[k].Add(x.smallNonZero())
		ts[h] = t
		x.recVer("tampered", d.pts, ts, q)
		if len(unqual) > 0 {
			u := unqual[r.IntN(len(unqual))]
			x.recVer("unqualified", d.pts, sub(d, u), u)
		}
	}
	// 9. a second opening built with log_G H verifies as well (binding is computational); the
	//    model accepts both and extracts log_G H from the two openings
	for _, id := range M.ids {
		sh := d.shares[id]
		t := c05PShare[S]{slices.Clone(sh.s), slices.Clone(sh.b)}
		k := r.IntN(len(t.s))
		dlt := x.smallNonZero()
		t.s[k] = t.s[k].Add(x.hLog.Mul(dlt))
		t.b[k] = t.b[k].Sub(dlt)
		r1 := x.verifyQuiet(d.pts, id, sh)
		r2 := x.verifyQuiet(d.pts, id, t)
		c.Count("pextract." + r1 + "." + r2)
		c.Emit(fmt.Sprintf("pextract %s %s %d %s %s %s %s", x.pre(), pointsStr(d.pts), id,
			scalarsHex(sh.s), scalarsHex(sh.b), scalarsHex(t.s), scalarsHex(t.b)), r1+","+r2)
		if !c.Thorough() {
			break
		}
	}
	// 10. objects used, changed in place and used again (c05_reuse.go)
	x.reuse(d, as)
}

func (x *c05P[P, F, S]) verifyQuiet(pts []P, id sharing.ID, sh c05PShare[S]) string {
	return safely(func() string {
		ref, err := x.buildVV(pts)
		if err != nil {
			return "reject"
		}
		share, err := x.mkShare(id, sh)
		if err != nil {
			return "reject"
		}
		if err := x.scheme.Verify(share, ref); err != nil {
			return "reject"
		}
		return "accept"
	})
}

func newPedVV[P algebra.PrimeGroupElement[P, S], S algebra.PrimeFieldElement[S]](col *mat.ModuleValuedMatrix[P, S]) (*pedersen.VerificationVector[P, S], error) {
	return feldman.NewVerificationVector(col, nil)
}

// mspOfPedersen: pedersen.Scheme does not expose its MSP; kw.NewScheme is the constructor it
// uses internally, and the induced MSP is a function of the access structure (checked here by
// building it twice; the pdeal/pverify lines would expose any difference as well).
func mspOfPedersen[P algebra.PrimeGroupElement[P, S], S algebra.PrimeFieldElement[S]](_ *pedersen.Scheme[P, S], field algebra.PrimeField[S], as c05AS) *msp.MSP[S] {
	a, err := kw.NewScheme(field, as.ac)
	if err != nil {
		return nil
	}
	b, err := kw.NewScheme(field, as.ac)
	if err != nil || !a.MSP().Equal(b.MSP()) {
		return nil
	}
	return a.MSP()
}
