// proto_epoch.go — zero sharing, refresh / recovery / redistribution, and Lindell17 two-party ECDSA
// through the shared protocol layer (see proto.go).
//
//   runHJKY(group, ac, ctxs, rngs, hook) *HJKYResult              2 rounds: every party ends with a share
//        of zero under `ac` and the common verification vector (V₀ = identity)
//   runRedistribute(prevHolders, prevShards, nextAC, ctxs, rngs, hook, opts…) *DKGResult   3 rounds
//        ctxs over prevHolders ∪ holders(nextAC); newcomers have no entry in prevShards. refresh =
//        same structure; recover = same structure with a newcomer; opts e.g.
//        redistribute.WithTrustedAnchorID(id). runRedistributeRunner: the same through NewRunner.
//   runLindell17Deal(curve, ac, keyLen, rng) (map[ID]*lindell17.Shard, class)   trusted dealer
//        (keyLen ≥ 3072 is enforced by the library outside `go test`: ≈ 5–40 s per Paillier key here)
//   runLindell17Sign(suite, shards, primary, secondary, ctxs, msg, rngs, hook, nic) *L17Result   5 rounds
//        of alternating unicasts primary→secondary→…; Sig is the primary's output.
//
// Times (purego, this sandbox): HJKY k256 3 parties ≈ 30 ms; redistribute th2of3→th2of4 ≈ 150 ms.

package main

import (
	"io"

	"github.com/bronlabs/bron-crypto/pkg/base/algebra"
	"github.com/bronlabs/bron-crypto/pkg/base/curves"
	"github.com/bronlabs/bron-crypto/pkg/mpc"
	"github.com/bronlabs/bron-crypto/pkg/mpc/redistribute"
	"github.com/bronlabs/bron-crypto/pkg/mpc/session"
	"github.com/bronlabs/bron-crypto/pkg/mpc/sharing/accessstructures"
	"github.com/bronlabs/bron-crypto/pkg/mpc/sharing/vss/feldman"
	"github.com/bronlabs/bron-crypto/pkg/mpc/signatures/ecdsa/lindell17"
	l17dealer "github.com/bronlabs/bron-crypto/pkg/mpc/signatures/ecdsa/lindell17/keygen/trusted_dealer"
	l17signing "github.com/bronlabs/bron-crypto/pkg/mpc/signatures/ecdsa/lindell17/signing"
	"github.com/bronlabs/bron-crypto/pkg/mpc/zero/hjky"
	"github.com/bronlabs/bron-crypto/pkg/network"
	"github.com/bronlabs/bron-crypto/pkg/proofs/sigma/compiler"
	"github.com/bronlabs/bron-crypto/pkg/signatures/ecdsa"
)

// HJKYResult is the outcome of a zero-sharing run.
type HJKYResult[G algebra.PrimeGroupElement[G, S], S algebra.PrimeFieldElement[S]] struct {
	Net      *Net
	Shares   map[ID]*feldman.Share[S]
	VV       map[ID][]G // each party's view of the summed verification vector
	DealerVV map[ID][]G // each dealer's broadcast vector
	// outputs of EVERY party that completed round 2, also when another party failed (Shares / VV are
	// set only when all completed)
	ReleasedShares map[ID]*feldman.Share[S]
	ReleasedVV     map[ID][]G
}

type hjkyOut[G algebra.PrimeGroupElement[G, S], S algebra.PrimeFieldElement[S]] struct {
	share *feldman.Share[S]
	vv    *feldman.VerificationVector[G, S]
}

func runHJKY[G algebra.PrimeGroupElement[G, S], S algebra.PrimeFieldElement[S]](group algebra.PrimeGroup[G, S], ac accessstructures.Monotone, ctxs map[ID]*session.Context, rngs map[ID]io.Reader, hook Hook) *HJKYResult[G, S] {
	type P = *hjky.Participant[G, S]
	type B1 = *hjky.Round1Broadcast[G, S]
	type U1 = *hjky.Round1P2P[G, S]
	ids := accessIDs(ac)
	n := newNet("hjky", ids, rngs, hook)
	res := &HJKYResult[G, S]{Net: n, Shares: map[ID]*feldman.Share[S]{}, VV: map[ID][]G{}, DealerVV: map[ID][]G{}}
	n.watchdog(func() {
		ps, ok := construct(n, ids, func(id ID) (P, error) { return hjky.NewParticipant(ctxs[id], ac, group, n.Rng(id)) })
		if !ok {
			return
		}
		r1, ok := stepAll(n, 1, ps, func(_ ID, p P) (pair[B1, network.OutgoingUnicasts[U1, P]], error) {
			b, u, err := p.Round1()
			return pair[B1, network.OutgoingUnicasts[U1, P]]{b, u}, err
		})
		if !ok {
			return
		}
		r1b, r1u := splitPairs(r1)
		bi, ui := routeB[B1, P](n, 1, ids, r1b), routeU[U1, P](n, 1, ids, r1u)
		out, ok := stepAll(n, 2, ps, func(id ID, p P) (hjkyOut[G, S], error) {
			s, v, err := p.Round2(bi[id], ui[id])
			return hjkyOut[G, S]{s, v}, err
		})
		// Released*: outputs of the parties that completed, also when another party failed in this round
		res.ReleasedShares, res.ReleasedVV = map[ID]*feldman.Share[S]{}, map[ID][]G{}
		for id, o := range out {
			res.ReleasedShares[id] = o.share
			if o.vv != nil {
				res.ReleasedVV[id] = vvPoints[G](o.vv.Value())
			}
		}
		if !ok {
			return
		}
		for id, o := range out {
			res.Shares[id] = o.share
			if o.vv != nil {
				res.VV[id] = vvPoints[G](o.vv.Value())
			}
		}
	})
	return res
}

// runRedistribute re-shares the key of prevShards (held by the qualified set prevHolders) under nextAC.
func runRedistribute[G algebra.PrimeGroupElement[G, S], S algebra.PrimeFieldElement[S]](prevHolders []ID, prevShards map[ID]*mpc.BaseShard[G, S], nextAC accessstructures.Monotone, ctxs map[ID]*session.Context, rngs map[ID]io.Reader, hook Hook, opts ...redistribute.Option) *DKGResult[G, S] {
	type P = *redistribute.Participant[G, S]
	type B1 = *redistribute.Round1Broadcast[G, S]
	type U1 = *redistribute.Round1P2P[G, S]
	type B2 = *redistribute.Round2Broadcast[G, S]
	type U2 = *redistribute.Round2P2P[G, S]
	ids := sortedIDs(idSet(append(append([]ID{}, prevHolders...), accessIDs(nextAC)...)...).List())
	n := newNet("redistribute", ids, rngs, hook)
	res := &DKGResult[G, S]{Net: n}
	prev := idSet(prevHolders...)
	n.watchdog(func() {
		ps, ok := construct(n, ids, func(id ID) (P, error) {
			return redistribute.NewParticipant(ctxs[id], prev, prevShards[id], nextAC, n.Rng(id), opts...)
		})
		if !ok {
			return
		}
		r1, ok := stepAll(n, 1, ps, func(_ ID, p P) (pair[B1, network.OutgoingUnicasts[U1, P]], error) {
			b, u, err := p.Round1()
			return pair[B1, network.OutgoingUnicasts[U1, P]]{b, u}, err
		})
		if !ok {
			return
		}
		r1b, r1u := splitPairs(r1)
		b2i, u2i := routeB[B1, P](n, 1, ids, r1b), routeU[U1, P](n, 1, ids, r1u)
		r2, ok := stepAll(n, 2, ps, func(id ID, p P) (pair[B2, network.OutgoingUnicasts[U2, P]], error) {
			b, u, err := p.Round2(b2i[id], u2i[id])
			return pair[B2, network.OutgoingUnicasts[U2, P]]{b, u}, err
		})
		if !ok {
			return
		}
		r2b, r2u := splitPairs(r2)
		b3i, u3i := routeB[B2, P](n, 2, ids, r2b), routeU[U2, P](n, 2, ids, r2u)
		out, ok := stepAll(n, 3, ps, func(id ID, p P) (*mpc.BaseShard[G, S], error) { return p.Round3(b3i[id], u3i[id]) })
		res.Released = map[ID]*mpc.BaseShard[G, S]{}
		for id, sh := range out {
			if sh != nil {
				res.Released[id] = sh
			}
		}
		if ok {
			res.Shards = map[ID]*mpc.BaseShard[G, S]{}
			for id, sh := range out {
				if sh != nil { // parties that are not holders of nextAC end without a shard
					res.Shards[id] = sh
				}
			}
		}
	})
	return res
}

// runRedistributeRunner: the same through redistribute.NewRunner over routers.
func runRedistributeRunner[G algebra.PrimeGroupElement[G, S], S algebra.PrimeFieldElement[S]](prevHolders []ID, prevShards map[ID]*mpc.BaseShard[G, S], nextAC accessstructures.Monotone, ctxs map[ID]*session.Context, rngs map[ID]io.Reader, opts ...redistribute.Option) *DKGResult[G, S] {
	ids := sortedIDs(idSet(append(append([]ID{}, prevHolders...), accessIDs(nextAC)...)...).List())
	n := newNet("redistribute-runner", ids, rngs, nil)
	res := &DKGResult[G, S]{Net: n}
	prev := idSet(prevHolders...)
	runners, ok := construct(n, ids, func(id ID) (network.Runner[*mpc.BaseShard[G, S]], error) {
		return redistribute.NewRunner(ctxs[id], prev, prevShards[id], nextAC, n.Rng(id), opts...)
	})
	if !ok {
		return res
	}
	out := runRunners(n, runners)
	if n.OK() {
		res.Shards = map[ID]*mpc.BaseShard[G, S]{}
		for id, sh := range out {
			if sh != nil {
				res.Shards[id] = sh
			}
		}
	}
	return res
}

// ---------------------------------------------------------------------------------------------
// Lindell17

func runLindell17Deal[P curves.Point[P, B, S], B algebra.PrimeFieldElement[B], S algebra.PrimeFieldElement[S]](curve ecdsa.Curve[P, B, S], ac accessstructures.Monotone, keyLen uint, rng io.Reader) (shards map[ID]*lindell17.Shard[P, B, S], class string) {
	class = safely(func() string {
		m, _, err := l17dealer.DealRandom(curve, ac, keyLen, rng)
		if err != nil {
			return classify(err)
		}
		shards = map[ID]*lindell17.Shard[P, B, S]{}
		for id, sh := range m.Iter() {
			shards[id] = sh
		}
		return "ok"
	})
	return shards, class
}

// L17Result is the outcome of a Lindell17 signing run.
type L17Result[S algebra.PrimeFieldElement[S]] struct {
	Net *Net
	Sig *ecdsa.Signature[S]
}

// l17Route delivers one unicast through the router.
func l17Route[M any](n *Net, round int, from, to ID, msg M) (M, bool) {
	var zero M
	v, drop := n.deliver(round, from, to, false, msg)
	if drop {
		return zero, false
	}
	m, ok := decodeAs[M](v)
	if !ok {
		n.markUndecodable(round, from, to, false, to)
		return zero, false
	}
	return m, true
}

func runLindell17Sign[P curves.Point[P, B, S], B algebra.PrimeFieldElement[B], S algebra.PrimeFieldElement[S]](suite *ecdsa.Suite[P, B, S], shards map[ID]*lindell17.Shard[P, B, S], primary, secondary ID, ctxs map[ID]*session.Context, msg []byte, rngs map[ID]io.Reader, hook Hook, nic compiler.Name) *L17Result[S] {
	n := newNet("lindell17", []ID{primary, secondary}, rngs, hook)
	res := &L17Result[S]{Net: n}
	one := func(round int, id ID, f func() error) bool {
		_, ok := stepAll(n, round, map[ID]struct{}{id: {}}, func(ID, struct{}) (struct{}, error) { return struct{}{}, f() })
		return ok
	}
	n.watchdog(func() {
		var pc *l17signing.PrimaryCosigner[P, B, S]
		var sc *l17signing.SecondaryCosigner[P, B, S]
		var err error
		if !one(0, primary, func() error {
			pc, err = l17signing.NewPrimaryCosigner(ctxs[primary], suite, secondary, shards[primary], nic, n.Rng(primary))
			return err
		}) || !one(0, secondary, func() error {
			sc, err = l17signing.NewSecondaryCosigner(ctxs[secondary], suite, primary, shards[secondary], nic, n.Rng(secondary))
			return err
		}) {
			return
		}
		var m1 *l17signing.Round1OutputP2P[P, B, S]
		var m2 *l17signing.Round2OutputP2P[P, B, S]
		var m3 *l17signing.Round3OutputP2P[P, B, S]
		var m4 *l17signing.Round4OutputP2P[P, B, S]
		ok := false
		if !one(1, primary, func() error { m1, err = pc.Round1(); return err }) {
			return
		}
		if m1, ok = l17Route(n, 1, primary, secondary, m1); !ok {
			m1 = nil
		}
		if !one(2, secondary, func() error { m2, err = sc.Round2(m1); return err }) {
			return
		}
		if m2, ok = l17Route(n, 2, secondary, primary, m2); !ok {
			m2 = nil
		}
		if !one(3, primary, func() error { m3, err = pc.Round3(m2); return err }) {
			return
		}
		if m3, ok = l17Route(n, 3, primary, secondary, m3); !ok {
			m3 = nil
		}
		if !one(4, secondary, func() error { m4, err = sc.Round4(m3, msg); return err }) {
			return
		}
		if m4, ok = l17Route(n, 4, secondary, primary, m4); !ok {
			m4 = nil
		}
		one(5, primary, func() error { res.Sig, err = pc.Round5(m4, msg); return err })
	})
	return res
}
