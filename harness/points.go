package main

import (
	"math/big"
	"strings"

	"github.com/bronlabs/bron-crypto/pkg/base/algebra"
	"github.com/bronlabs/bron-crypto/pkg/base/curves"
	"github.com/bronlabs/bron-crypto/pkg/base/curves/edwards25519"
	"github.com/bronlabs/bron-crypto/pkg/base/curves/k256"
	"github.com/bronlabs/bron-crypto/pkg/base/curves/p256"
	"github.com/bronlabs/bron-crypto/pkg/base/curves/pairable/bls12381"
	"github.com/bronlabs/bron-crypto/pkg/base/curves/pasta"
)

// Curve instances; the string names are those of lean/BronVerif/Model/Curves.lean.
var (
	cK256    = k256.NewCurve()
	cP256    = p256.NewCurve()
	cPallas  = pasta.NewPallasCurve()
	cVesta   = pasta.NewVestaCurve()
	cBLSG1   = bls12381.NewG1()
	cBLSG2   = bls12381.NewG2()
	cEd25519 = edwards25519.NewPrimeSubGroup()
)

// feHex renders a (possibly extension-) field element as its components, hex, joined by '/'.
func feHex[F algebra.FiniteFieldElement[F]](x F) string {
	cb, ok := any(x).(interface{ ComponentsBytes() [][]byte })
	var comps [][]byte
	if ok {
		comps = cb.ComponentsBytes()
	} else {
		comps = [][]byte{x.Bytes()}
	}
	out := make([]string, len(comps))
	for i, c := range comps {
		out[i] = new(big.Int).SetBytes(c).Text(16)
	}
	return strings.Join(out, "/")
}

// pointStr is the canonical rendering shared with the Lean driver: "inf" for the point at
// infinity of a Weierstrass curve, else "<x>:<y>" in affine coordinates (Edwards identity is 0:1).
func pointStr[P curves.Point[P, F, S], F algebra.FiniteFieldElement[F], S algebra.PrimeFieldElement[S]](p P) string {
	x, errX := p.AffineX()
	y, errY := p.AffineY()
	if errX != nil || errY != nil {
		return "inf"
	}
	return feHex(x) + ":" + feHex(y)
}

func pointsStr[P curves.Point[P, F, S], F algebra.FiniteFieldElement[F], S algebra.PrimeFieldElement[S]](ps []P) string {
	out := make([]string, len(ps))
	for i, p := range ps {
		out[i] = pointStr(p)
	}
	return joinComma(out)
}
