// c04.go — C04: a deviating party is detected, blamed correctly, and cannot cause a bad output.
//
// THE TAMPER MATRIX.  For each scenario (protocol × configuration, c04_scen.go) the stream
//   1. runs the protocol honestly (all messages pass the router of proto.go; every party has its own
//      seeded reader) and a second, *parallel* session with other seeds;
//   2. lists every tampering (message record × site × operator, c04_tree.go): the message of
//      (round, sender, recipient | broadcast) is replaced, through the Hook, by a mutated CBOR
//      encoding — a broadcast identically for all recipients, a unicast for its recipient; plus the
//      RELATIONAL tamperings (c04_rel.go): two sites of one message changed together so that sums /
//      aggregates stay intact (paired shift, inverse scaling, swap, copy), and the same leaf of the
//      unicasts of one sender to TWO recipients (both messages replaced);
//   3. re-runs the protocol with the SAME seeds and that one replacement and records the final class
//      of every party (ok | abort | abort-blame:<ids> | err:<class> | panic | hang), the class of the
//      aggregator (signing protocols; `-` otherwise) and the validity of whatever honest parties /
//      the aggregator released (`valid` | `none` | `invalid:<why>`, decided by independent verifiers).
//
// Lines
//   C04 honest <proto> <cfg> <ids> => <id=class;…>|agg=<class>|out=<valid|none|invalid:…>
//   C04 tamper <proto> <cfg> <round> <sender> <rcpt|b> <path> <op> <changed> <ids> => (same rhs)
//        round   the round whose OUTPUT the message is; partial signatures travel to the aggregator in
//                the round after the last protocol round, as broadcasts
//        rcpt    recipient of the unicast, `b` for a broadcast, `<A>+<B>` when the unicasts to two
//                recipients are changed together (ushift uscale uswap)
//        path    site inside the message (c04_tree.go), `msg` for whole-message operators,
//                `<pathA>~<pathB>` for the relational operators inside one message
//        changed 1 the decoded value differs / 0 same value re-encoded / u undecodable at the
//                recipient (= missing message) / d dropped; `<cA>+<cB>` per recipient for `<A>+<B>`
//   The Lean driver (Drive/C04.lean) classifies <proto,round,b|u,path> against the check graph
//   (Model/CheckGraph.lean) and decides the verdict; BAD keys accepted-bound-leaf, blamed-honest,
//   bad-output-released, panic, hang.
//
// Go-side oracles (!VIOLATION, independent of the model): an honest party (≠ sender) or the
// aggregator blames somebody else than the sender; a panic or a hang of an honest party; a released
// output that an independent verifier rejects (signature: library verifier and crypto/ecdsa; shard:
// lift(share) ≠ M·V, public keys of completing honest parties differ, redistribution changed pk).
//
// quick: a stratified sample per scenario — strata = (round, kind, leaf path with array position 0 and
// the later positions as different strata), all map sites resp. all array sites of a message kind
// being one stratum each; relational tamperings have their own strata (round, kind, SENDER, path pair)
// and their own budget; strata are visited in turn, inside a stratum the senders take turns and
// operators that substitute another VALID value (par / replay / swapr / swapf: they reach the semantic
// checks; relational strata: the aggregate-preserving shift) alternate with the others; the rest by
// the seed. Scenarios: ideal AND non-ideal access structures (a party owning several MSP rows), minimal
// and non-minimal quorums, sparse IDs (c04_scen.go). thorough: every
// applicable tampering of the 3-party runs (capped per scenario for the slow protocols: the cap and
// the population are in the statistics).
// `site=<proto>/r<round>/<b|u>/<normalised path>/<op>` in a !VIOLATION (and in the driver's BAD) is the
// stable identifier of a finding.

package main

import (
	"fmt"
	"os"
	"runtime"
	"sort"
	"strings"
)

func init() { register("C04", runC04) }

const c04Prop = "C04"

// c04Res is the observable outcome of one run of a scenario.
type c04Res struct {
	net *Net
	agg string // class of the aggregator, "-" when the protocol has none
	// out judges what the parties other than dev (0: nobody deviates) and the aggregator released.
	out func(dev ID) string
}

// c04Scn is one protocol × configuration.
type c04Scn struct {
	proto, cfg string
	quick      int // sample size in the quick tier (0: thorough only)
	quickRel   int // additional sample of RELATIONAL tamperings (c04_rel.go) in the quick tier
	cap        int // cap in the thorough tier (0: exhaustive)
	curve      string // scalar field of the 32-byte scalars in the messages: "" = secp256k1, "bls"
	run        func(seed int64, base uint64, hook Hook) *c04Res
	runWith    func(seed int64, base uint64, hook Hook, coh *c04Coh) *c04Res // run = runWith(…, nil); runCoh = runWith(…, nil hook, coh)
	// coherent deviations (c04_coh.go): kinds × deviators to run, the dealers (for the position token),
	// and the runner (nil: none for this scenario)
	cohKinds   []string
	cohDevs    []ID
	cohDevsAll []ID
	runCoh     func(seed int64, base uint64, coh *c04Coh) *c04Res
	// trusted: the party the caller configured as trusted (redistribution anchor); it never deviates
	trusted ID
	// label renames the protocol for a sender whose role differs (redistribution newcomer: it deals
	// nothing, its placeholder messages are ignored by everybody); nil: proto
	label func(sender ID) string
}

type c04Case struct {
	rec      int // index into the honest log
	path, op string
	mut      []byte // nil for drop
	// relational tampering between the unicasts to two recipients: the second message (-1: none)
	rec2 int
	mut2 []byte
}

type c04Prepared struct {
	scn    c04Scn
	ids    []ID
	log    []MsgRecord
	cases  []c04Case
	groups map[string][]int
	// strata of the relational tamperings: (round, kind, SENDER, normalised path pair)
	relGroups map[string][]int
	pop    int
	failed bool
}

func c04StatusOf(res *c04Res) string {
	return fmt.Sprintf("%s|agg=%s|out=", res.net.StatusStr(), res.agg)
}

func c04FindRec(log []MsgRecord, round int, from, to ID, bcast bool) (int, bool) {
	for i, r := range log {
		if r.Round == round && r.From == from && r.Broadcast == bcast && (bcast || r.To == to) {
			return i, true
		}
	}
	return 0, false
}

func c04Tree(b []byte) *c12Node {
	if len(b) == 0 {
		return nil
	}
	root, rest, ok := c12Parse(b)
	if !ok || len(rest) != 0 {
		return nil
	}
	return root
}

// c04Prepare runs the honest and the parallel session and lists the tamperings.
func c04Prepare(o *jobOut, seed int64, idx int, scn c04Scn, thorough bool) *c04Prepared {
	base := uint64(4000 + 1000*idx)
	p := &c04Prepared{scn: scn, groups: map[string][]int{}, relGroups: map[string][]int{}}
	relRng := NewRng(seed, base+900)
	h := scn.run(seed, base, nil)
	p.ids = h.net.IDs
	rhs := c04StatusOf(h) + h.out(0)
	o.Emit(c04Prop, fmt.Sprintf("honest %s %s %s", scn.proto, scn.cfg, idsStr(p.ids)), rhs)
	if !h.net.OK() || (h.agg != "-" && h.agg != "ok") || h.out(0) != "valid" {
		o.Violation(c04Prop, fmt.Sprintf("honest-run-failed proto=%s cfg=%s %s %s", scn.proto, scn.cfg, rhs, h.net.statusSummary()))
		p.failed = true
		return p
	}
	par := scn.run(seed, base+500, nil)
	p.log = h.net.Log
	for ri, rec := range p.log {
		root := c04Tree(rec.Orig)
		if root == nil || (scn.trusted != 0 && rec.From == scn.trusted) {
			continue
		}
		var d c04Donors
		if j, ok := c04FindRec(par.net.Log, rec.Round, rec.From, rec.To, rec.Broadcast); ok {
			d.par = c04Tree(par.net.Log[j].Orig)
		}
		for _, other := range p.ids {
			if other == rec.From || (!rec.Broadcast && other == rec.To) {
				continue
			}
			if j, ok := c04FindRec(p.log, rec.Round, other, rec.To, rec.Broadcast); ok {
				d.replay = c04Tree(p.log[j].Orig)
				break
			}
		}
		if !rec.Broadcast {
			for _, other := range p.ids {
				if other == rec.From || other == rec.To {
					continue
				}
				if j, ok := c04FindRec(p.log, rec.Round, rec.From, other, false); ok {
					d.swapr = c04Tree(p.log[j].Orig)
					break
				}
			}
		}
		kind := "u"
		if rec.Broadcast {
			kind = "b"
		}
		add := func(path, op string, mut []byte) {
			// strata: one per leaf path; all map sites (resp. array sites) of a message kind form ONE
			// stratum, so that container operators do not crowd out the leaves in the quick sample
			np := c04StratPath(path)
			switch {
			case strings.HasSuffix(np, "{}"):
				np = "{}"
			case strings.HasSuffix(np, "[]"):
				np = "[]"
			}
			key := fmt.Sprintf("r%d.%s.%s", rec.Round, kind, np)
			p.groups[key] = append(p.groups[key], len(p.cases))
			p.cases = append(p.cases, c04Case{ri, path, op, mut, -1, nil})
		}
		addRel := func(path, op string, mut []byte, rec2 int, mut2 []byte) {
			key := fmt.Sprintf("rel.r%d.%s.s%d.%s", rec.Round, kind, rec.From, c04NormPath(path))
			p.relGroups[key] = append(p.relGroups[key], len(p.cases))
			p.cases = append(p.cases, c04Case{ri, path, op, mut, rec2, mut2})
		}
		add("msg", "drop", nil)
		for _, op := range []string{"par", "replay", "swapr"} {
			if mut, ok := c04Apply(rec.Orig, "msg", op, d); ok {
				add("msg", op, mut)
			}
		}
		for _, s := range c04Sites(root) {
			for _, op := range c04OpsFor(s, !rec.Broadcast) {
				if mut, ok := c04Apply(rec.Orig, s.path, op, d); ok {
					add(s.path, op, mut)
				}
			}
		}
		// relational operators: two sites of one message; the unicasts to two recipients
		for _, rc := range c04RelCases(rec.Orig, scn.curve, relRng) {
			addRel(rc.path, rc.op, rc.mut, -1, nil)
		}
		if !rec.Broadcast {
			for _, other := range p.ids {
				if other <= rec.To || other == rec.From {
					continue
				}
				if j, ok := c04FindRec(p.log, rec.Round, rec.From, other, false); ok {
					for _, rc := range c04RelPairCases(rec.Orig, p.log[j].Orig, scn.curve, relRng) {
						addRel(rc.path, rc.op, rc.mutA, j, rc.mutB)
					}
					break
				}
			}
		}
	}
	p.pop = len(p.cases)
	o.Count(fmt.Sprintf("population.%s.%s", scn.proto, scn.cfg))
	nrel := 0
	for _, g := range p.relGroups {
		nrel += len(g)
	}
	o.Note(fmt.Sprintf("population %s %s tamperings=%d (relational %d) groups=%d relgroups=%d messages=%d", scn.proto, scn.cfg, p.pop, nrel, len(p.groups), len(p.relGroups), len(p.log)))
	if os.Getenv("C04_DUMP") != "" {
		keys := make([]string, 0, len(p.groups))
		for k := range p.groups {
			keys = append(keys, k)
		}
		sort.Strings(keys)
		for _, k := range keys {
			o.Note(fmt.Sprintf("site %s %s %s n=%d", scn.proto, scn.cfg, k, len(p.groups[k])))
		}
		keys = keys[:0]
		for k := range p.relGroups {
			keys = append(keys, k)
		}
		sort.Strings(keys)
		for _, k := range keys {
			o.Note(fmt.Sprintf("site %s %s %s n=%d", scn.proto, scn.cfg, k, len(p.relGroups[k])))
		}
	}
	_ = thorough
	return p
}

// c04Order orders the cases of one stratum: the senders take turns (random start), and for each sender
// operators that substitute another VALID value of the same kind (par / replay / swapr / swapf: they
// reach the semantic checks) alternate with the others (mostly caught by decoding / validation);
// relational strata: the aggregate-preserving shift first.
func c04Order(p *c04Prepared, g []int, r *Rng) []int {
	g = append([]int{}, g...)
	r.Shuffle(len(g), func(i, j int) { g[i], g[j] = g[j], g[i] })
	type lane struct{ pref, rest []int }
	lanes := map[ID]*lane{}
	var senders []ID
	for _, ci := range g {
		from := p.log[p.cases[ci].rec].From
		l, ok := lanes[from]
		if !ok {
			l = &lane{}
			lanes[from] = l
			senders = append(senders, from)
		}
		switch p.cases[ci].op {
		case "par", "replay", "swapr", "swapf", "pshift", "ushift":
			l.pref = append(l.pref, ci)
		default:
			l.rest = append(l.rest, ci)
		}
	}
	var out []int
	for turn := 0; len(out) < len(g); turn++ {
		for si, s := range senders {
			l := lanes[s]
			wantPref := (turn+si)%2 == 0
			switch {
			case len(l.pref) > 0 && (wantPref || len(l.rest) == 0):
				out, l.pref = append(out, l.pref[0]), l.pref[1:]
			case len(l.rest) > 0:
				out, l.rest = append(out, l.rest[0]), l.rest[1:]
			}
		}
	}
	return out
}

// c04Sample: round-robin over the strata (shuffled), `want` cases.
func c04Sample(p *c04Prepared, groups map[string][]int, r *Rng, want int) []int {
	keys := make([]string, 0, len(groups))
	for k := range groups {
		keys = append(keys, k)
	}
	sort.Strings(keys)
	r.Shuffle(len(keys), func(i, j int) { keys[i], keys[j] = keys[j], keys[i] })
	perm := map[string][]int{}
	for _, k := range keys {
		perm[k] = c04Order(p, groups[k], r)
	}
	var out []int
	for len(out) < want {
		progressed := false
		for _, k := range keys {
			if len(perm[k]) == 0 {
				continue
			}
			out = append(out, perm[k][0])
			perm[k] = perm[k][1:]
			progressed = true
			if len(out) == want {
				break
			}
		}
		if !progressed {
			break
		}
	}
	return out
}

// c04Select picks the cases to run: all (thorough, up to the cap) or a stratified sample of the
// single-site tamperings plus a stratified sample of the relational ones.
func c04Select(p *c04Prepared, r *Rng, thorough bool) []int {
	if thorough {
		if p.scn.cap == 0 || p.scn.cap >= len(p.cases) {
			out := make([]int, len(p.cases))
			for i := range out {
				out[i] = i
			}
			return out
		}
		nrel := 0
		for _, g := range p.relGroups {
			nrel += len(g)
		}
		// the cap is split in proportion, at least a quarter for the relational operators
		wantRel := max(p.scn.cap*nrel/len(p.cases), p.scn.cap/4)
		out := append(c04Sample(p, p.groups, r, p.scn.cap-wantRel), c04Sample(p, p.relGroups, r, wantRel)...)
		sort.Ints(out)
		return out
	}
	out := append(c04Sample(p, p.groups, r, p.scn.quick), c04Sample(p, p.relGroups, r, p.scn.quickRel)...)
	sort.Ints(out)
	return out
}

func c04Blamed(cls string) []ID {
	if !strings.HasPrefix(cls, "abort-blame:") {
		return nil
	}
	ids, _ := parseIDs(strings.TrimPrefix(cls, "abort-blame:"))
	return ids
}

// c04RunCase executes one tampering and emits its line (+ Go-side oracles).
func c04RunCase(o *jobOut, seed int64, idx int, p *c04Prepared, cs c04Case) {
	base := uint64(4000 + 1000*idx)
	rec := p.log[cs.rec]
	hits, hits2 := 0, 0
	typedChanged, typedChanged2 := "", ""
	var rec2 MsgRecord
	if cs.rec2 >= 0 {
		rec2 = p.log[cs.rec2]
	}
	hook := HookFunc(func(_ string, round int, from, to ID, bcast bool, msg any) (any, bool) {
		if cs.rec2 >= 0 && round == rec2.Round && from == rec2.From && !bcast && to == rec2.To && hits2 == 0 {
			hits2++
			typedChanged2 = c04ChangedTyped(msg, rec2.Orig, cs.mut2)
			return cs.mut2, false
		}
		if round != rec.Round || from != rec.From || bcast != rec.Broadcast || (!bcast && to != rec.To) || hits > 0 {
			return msg, false
		}
		hits++
		if cs.op == "drop" {
			return nil, true
		}
		typedChanged = c04ChangedTyped(msg, rec.Orig, cs.mut)
		return cs.mut, false
	})
	res := p.scn.run(seed, base, hook)
	rcpt := "b"
	kind := "b"
	if !rec.Broadcast {
		rcpt = fmt.Sprintf("%d", rec.To)
		kind = "u"
		if cs.rec2 >= 0 {
			rcpt = fmt.Sprintf("%d+%d", rec.To, rec2.To)
		}
	}
	proto := p.scn.proto
	if p.scn.label != nil {
		proto = p.scn.label(rec.From)
	}
	// `site=` is the stable identifier of a finding (protocol / round / kind / normalised path / operator)
	tag := fmt.Sprintf("site=%s/r%d/%s/%s/%s cfg=%s sender=%d rcpt=%s path=%s seed=%d", proto, rec.Round, kind, c04NormPath(cs.path), cs.op, p.scn.cfg, rec.From, rcpt, cs.path, seed)
	if hits == 0 || (cs.rec2 >= 0 && hits2 == 0) {
		o.Note("tampering not reached " + tag)
		o.Count("not-reached")
		return
	}
	changed := "d"
	if cs.op != "drop" {
		changed = typedChanged
		if j, ok := c04FindRec(res.net.Log, rec.Round, rec.From, rec.To, rec.Broadcast); ok && len(res.net.Log[j].Undecodable) > 0 {
			changed = "u"
		}
		if cs.rec2 >= 0 {
			c2 := typedChanged2
			if j, ok := c04FindRec(res.net.Log, rec2.Round, rec2.From, rec2.To, false); ok && len(res.net.Log[j].Undecodable) > 0 {
				c2 = "u"
			}
			changed += "+" + c2
		}
	}
	out := res.out(rec.From)
	rhs := c04StatusOf(res) + out
	o.Emit(c04Prop, fmt.Sprintf("tamper %s %s %d %d %s %s %s %s %s", proto, p.scn.cfg, rec.Round, rec.From, rcpt, cs.path, cs.op, changed, idsStr(p.ids)), rhs)

	// statistics
	o.Count("tamper." + proto)
	o.Count("op." + cs.op)
	o.Count("changed." + changed)
	rejected := res.agg != "-" && res.agg != "ok"
	for _, id := range p.ids {
		if id == rec.From {
			continue
		}
		cls := res.net.Status[id]
		if cls != "ok" && cls != "" {
			rejected = true
		}
	}
	site := fmt.Sprintf("%s.r%d.%s.%s", proto, rec.Round, kind, c04NormPath(cs.path))
	if rejected {
		o.Count("outcome.rejected")
	} else {
		o.Count("outcome.accepted")
		if changed != "0" && changed != "0+0" {
			o.Count("accepted-changed." + site)
		}
	}

	// Go-side oracles
	check := func(who, cls string) {
		switch {
		case cls == "panic":
			o.Violation(c04Prop, "panic who="+who+" "+tag)
		case cls == "hang":
			o.Violation(c04Prop, "hang who="+who+" "+tag)
		}
		for _, b := range c04Blamed(cls) {
			if b != rec.From {
				o.Violation(c04Prop, fmt.Sprintf("blamed-honest who=%s blamed=%d class=%s %s", who, b, cls, tag))
			}
		}
	}
	for _, id := range p.ids {
		if id != rec.From {
			check(fmt.Sprintf("%d", id), res.net.Status[id])
		}
	}
	if res.agg != "-" {
		check("agg", strings.TrimPrefix(res.agg, "alt-"))
	}
	if strings.HasPrefix(out, "invalid") {
		o.Violation(c04Prop, "bad-output-released "+out+" "+tag)
	}
}

func runC04(c *Ctx) {
	scns := c04Scenarios(c.Thorough())
	if only := os.Getenv("C04_ONLY"); only != "" { // debugging aid: C04_ONLY=boldyreva.n2,gennaro.n
		var keep []c04Scn
		for _, s := range scns {
			if strings.Contains(","+only+",", ","+s.proto+"."+s.cfg+",") || strings.Contains(","+only+",", ","+s.proto+",") {
				keep = append(keep, s)
			}
		}
		scns = keep
	}
	par := runtime.NumCPU() - 2
	if par < 4 {
		par = 4
	}
	preps := make([]*c04Prepared, len(scns))
	var jobs []func(*jobOut)
	for i, s := range scns {
		jobs = append(jobs, func(o *jobOut) { preps[i] = c04Prepare(o, c.Seed, i, s, c.Thorough()) })
	}
	runJobs(c, par, jobs)
	jobs = nil
	for i, p := range preps {
		if p == nil || p.failed {
			continue
		}
		sel := c04Select(p, NewRng(c.Seed, uint64(40000+i)), c.Thorough())
		c.Note(fmt.Sprintf("selected %s %s %d of %d", p.scn.proto, p.scn.cfg, len(sel), p.pop))
		c.Stats[fmt.Sprintf("selected.%s.%s", p.scn.proto, p.scn.cfg)] += len(sel)
		c.Stats[fmt.Sprintf("population-size.%s.%s", p.scn.proto, p.scn.cfg)] += p.pop
		for _, ci := range sel {
			cs := p.cases[ci]
			jobs = append(jobs, func(o *jobOut) { c04RunCase(o, c.Seed, i, p, cs) })
		}
		// coherent deviations: every kind × every deviator of the scenario (both tiers)
		if p.scn.runCoh != nil {
			for _, dev := range p.scn.cohDevs {
				for _, kind := range p.scn.cohKinds {
					coh := c04Coh{kind: kind, dev: dev}
					jobs = append(jobs, func(o *jobOut) { c04RunCoherent(o, c.Seed, i, p, coh) })
				}
			}
		}
	}
	runJobs(c, par, jobs)
}
