package main

import (
	"errors"
	"fmt"
	"slices"
	"strconv"
	"strings"

	ds "github.com/bronlabs/bron-crypto/pkg/base/datastructures"
	"github.com/bronlabs/bron-crypto/pkg/base/datastructures/hashset"
	"github.com/bronlabs/bron-crypto/pkg/base/mat"
	"github.com/bronlabs/bron-crypto/pkg/base/polynomials"
	"github.com/bronlabs/bron-crypto/pkg/mpc/sharing"
	"github.com/bronlabs/bron-crypto/pkg/mpc/sharing/accessstructures"
	"github.com/bronlabs/bron-crypto/pkg/mpc/sharing/accessstructures/boolexpr"
	"github.com/bronlabs/bron-crypto/pkg/mpc/sharing/accessstructures/cnf"
	"github.com/bronlabs/bron-crypto/pkg/mpc/sharing/accessstructures/hierarchical"
	"github.com/bronlabs/bron-crypto/pkg/mpc/sharing/accessstructures/threshold"
	"github.com/bronlabs/bron-crypto/pkg/mpc/sharing/accessstructures/unanimity"
)

// ---- policy descriptions (the token is what the Lean driver parses) ----
//
//	th:<t>:<ids>            threshold            (t decimal, ids hex comma separated)
//	un:<ids>                unanimity
//	cnf:<ids>|<ids>|…       CNF given by (not necessarily maximal) unqualified sets, in input order
//	hi:<t>/<ids>|<t>/<ids>  hierarchical conjunctive threshold levels, in input order
//	bx:<node>               gate tree; node = <hexid> | [<t>:<node>,<node>,…]
type c02Level struct {
	t   int
	ids []uint64
}

type c02Node struct {
	leaf     bool
	id       uint64
	t        int
	children []*c02Node
}

type c02Policy struct {
	kind   string
	t      int
	ids    []uint64
	sets   [][]uint64
	levels []c02Level
	root   *c02Node
}

func idsHex(ids []uint64) string {
	out := make([]string, len(ids))
	for i, id := range ids {
		out[i] = strconv.FormatUint(id, 16)
	}
	return joinComma(out)
}

func (n *c02Node) token() string {
	if n.leaf {
		return strconv.FormatUint(n.id, 16)
	}
	parts := make([]string, len(n.children))
	for i, ch := range n.children {
		parts[i] = ch.token()
	}
	return fmt.Sprintf("[%d:%s]", n.t, strings.Join(parts, ","))
}

func (p *c02Policy) token() string {
	switch p.kind {
	case "th":
		return fmt.Sprintf("th:%d:%s", p.t, idsHex(p.ids))
	case "un":
		return "un:" + idsHex(p.ids)
	case "cnf":
		parts := make([]string, len(p.sets))
		for i, s := range p.sets {
			parts[i] = idsHex(s)
		}
		return "cnf:" + strings.Join(parts, "|")
	case "hi":
		parts := make([]string, len(p.levels))
		for i, l := range p.levels {
			parts[i] = fmt.Sprintf("%d/%s", l.t, idsHex(l.ids))
		}
		return "hi:" + strings.Join(parts, "|")
	case "bx":
		return "bx:" + p.root.token()
	}
	panic("bad policy kind")
}

func toIDs(xs []uint64) []sharing.ID {
	out := make([]sharing.ID, len(xs))
	for i, x := range xs {
		out[i] = sharing.ID(x)
	}
	return out
}

func c02idSet(xs []uint64) ds.Set[sharing.ID] {
	return hashset.NewComparable(toIDs(xs)...).Freeze()
}

func (n *c02Node) build() *boolexpr.Node {
	if n.leaf {
		return boolexpr.ID(sharing.ID(n.id))
	}
	ch := make([]*boolexpr.Node, len(n.children))
	for i, c := range n.children {
		ch[i] = c.build()
	}
	return boolexpr.Threshold(n.t, ch...)
}

// build calls the library constructor of the family.
func (p *c02Policy) build() (accessstructures.Monotone, error) {
	switch p.kind {
	case "th":
		ac, err := threshold.NewThresholdAccessStructure(uint(p.t), c02idSet(p.ids))
		if err != nil {
			return nil, err
		}
		return ac, nil
	case "un":
		ac, err := unanimity.NewUnanimityAccessStructure(c02idSet(p.ids))
		if err != nil {
			return nil, err
		}
		return ac, nil
	case "cnf":
		sets := make([]ds.Set[sharing.ID], len(p.sets))
		for i, s := range p.sets {
			sets[i] = c02idSet(s)
		}
		ac, err := cnf.NewCNFAccessStructure(sets...)
		if err != nil {
			return nil, err
		}
		return ac, nil
	case "hi":
		lv := make([]*hierarchical.ThresholdLevel, len(p.levels))
		for i, l := range p.levels {
			lv[i] = hierarchical.WithLevel(l.t, toIDs(l.ids)...)
		}
		ac, err := hierarchical.NewHierarchicalConjunctiveThresholdAccessStructure(lv...)
		if err != nil {
			return nil, err
		}
		return ac, nil
	case "bx":
		ac, err := boolexpr.NewThresholdGateAccessStructure(p.root.build())
		if err != nil {
			return nil, err
		}
		return ac, nil
	}
	panic("bad policy kind")
}

// c02errClass maps a library error to the small enum shared with the model.
func c02errClass(err error) string {
	switch {
	case err == nil:
		return "ok"
	case errors.Is(err, sharing.ErrIsNil):
		return "err:nil"
	case errors.Is(err, sharing.ErrValue):
		return "err:value"
	case errors.Is(err, sharing.ErrMembership):
		return "err:membership"
	case errors.Is(err, sharing.ErrFailed):
		return "err:failed"
	case errors.Is(err, sharing.ErrArgument):
		return "err:argument"
	case errors.Is(err, sharing.ErrVerification):
		return "err:verification"
	case errors.Is(err, sharing.ErrUnauthorized):
		return "err:unauthorised"
	case errors.Is(err, mat.ErrDimension):
		return "err:dimension"
	case errors.Is(err, polynomials.ErrValidation):
		return "err:polyinvalid"
	case errors.Is(err, polynomials.ErrFailed):
		return "err:polyfailed"
	}
	return "err:other"
}

func sortedHolders(ac accessstructures.Monotone) []uint64 {
	l := ac.Shareholders().List()
	out := make([]uint64, len(l))
	for i, id := range l {
		out[i] = uint64(id)
	}
	slices.Sort(out)
	return out
}

// subsetOf returns the members of the sorted universe selected by mask (bit i = universe[i]).
func subsetOf(universe []uint64, mask int) []uint64 {
	var out []uint64
	for i, id := range universe {
		if mask>>i&1 == 1 {
			out = append(out, id)
		}
	}
	return out
}

func c02bitsStr(bs []bool) string {
	var sb strings.Builder
	for _, b := range bs {
		if b {
			sb.WriteByte('1')
		} else {
			sb.WriteByte('0')
		}
	}
	if sb.Len() == 0 {
		return "-"
	}
	return sb.String()
}

// ---- generators ----

// idLayout returns n distinct non-zero IDs: 1..n, sparse small (≤ 64), or large (up to maxBits bits).
func idLayout(r *Rng, n int, style int, maxBits int) []uint64 {
	seen := map[uint64]bool{}
	out := make([]uint64, 0, n)
	for len(out) < n {
		var id uint64
		switch style {
		case 0:
			id = uint64(len(out) + 1)
		case 1:
			id = uint64(1 + r.IntN(64))
		default:
			id = r.Uint64() >> (64 - maxBits)
			if r.IntN(8) == 0 {
				id = ^uint64(0) >> (64 - maxBits) - uint64(r.IntN(3))
			}
		}
		if id == 0 || seen[id] {
			continue
		}
		seen[id] = true
		out = append(out, id)
	}
	if style != 0 && r.IntN(2) == 0 {
		slices.Sort(out)
	}
	return out
}

func shuffled(r *Rng, xs []uint64) []uint64 {
	out := slices.Clone(xs)
	r.Shuffle(len(out), func(i, j int) { out[i], out[j] = out[j], out[i] })
	return out
}

func genThreshold(r *Rng, ids []uint64) *c02Policy {
	return &c02Policy{kind: "th", t: 2 + r.IntN(len(ids)-1), ids: ids}
}

// genCNF draws 1..4 unqualified sets (sometimes nested or duplicated so that normalisation matters).
func genCNF(r *Rng, ids []uint64) *c02Policy {
	n := len(ids)
	k := 1 + r.IntN(4)
	var sets [][]uint64
	for len(sets) < k {
		mask := 1 + r.IntN(1<<n-1)
		s := shuffled(r, subsetOf(ids, mask))
		sets = append(sets, s)
	}
	if r.IntN(4) == 0 {
		sets = append(sets, slices.Clone(sets[r.IntN(len(sets))]))
	}
	return &c02Policy{kind: "cnf", sets: sets}
}

// genHier splits sorted ids into 1..3 consecutive levels with increasing thresholds.
func genHier(r *Rng, ids []uint64) *c02Policy {
	ids = slices.Clone(ids)
	slices.Sort(ids)
	n := len(ids)
	nl := 1 + r.IntN(min(3, n))
	// cut points
	cuts := []int{0}
	for len(cuts) < nl {
		c := 1 + r.IntN(n-1)
		if !slices.Contains(cuts, c) {
			cuts = append(cuts, c)
		}
	}
	slices.Sort(cuts)
	cuts = append(cuts, n)
	var levels []c02Level
	prevT := 0
	for i := 0; i < nl; i++ {
		cum := cuts[i+1]
		lo := prevT + 1
		if lo > cum {
			// cannot satisfy; still emit (the constructor refuses) with lo
			levels = append(levels, c02Level{t: lo, ids: shuffled(r, ids[cuts[i]:cuts[i+1]])})
			prevT = lo
			continue
		}
		t := lo + r.IntN(cum-lo+1)
		if i == nl-1 && t < 2 && cum >= 2 && r.IntN(4) != 0 {
			t = 2
		}
		levels = append(levels, c02Level{t: t, ids: shuffled(r, ids[cuts[i]:cuts[i+1]])})
		prevT = t
	}
	return &c02Policy{kind: "hi", levels: levels}
}

// genTree draws a gate tree over ids with repeated leaves (never twice under the same gate).
func genTree(r *Rng, ids []uint64, depth int, budget *int) *c02Node {
	if depth == 0 || *budget <= 1 || (depth < 3 && r.IntN(3) == 0) {
		*budget--
		return &c02Node{leaf: true, id: ids[r.IntN(len(ids))]}
	}
	nc := 1 + r.IntN(4)
	if depth == 3 && nc < 2 {
		nc = 2
	}
	n := &c02Node{}
	used := map[uint64]bool{}
	for i := 0; i < nc && *budget > 0; i++ {
		ch := genTree(r, ids, depth-1, budget)
		if ch.leaf {
			if used[ch.id] {
				// pick an unused id if there is one, else drop the child
				found := false
				for _, id := range ids {
					if !used[id] {
						ch.id = id
						found = true
						break
					}
				}
				if !found {
					continue
				}
			}
			used[ch.id] = true
		}
		n.children = append(n.children, ch)
	}
	if len(n.children) == 0 {
		*budget--
		return &c02Node{leaf: true, id: ids[r.IntN(len(ids))]}
	}
	switch r.IntN(3) {
	case 0:
		n.t = 1
	case 1:
		n.t = len(n.children)
	default:
		n.t = 1 + r.IntN(len(n.children))
	}
	return n
}

func genBoolexpr(r *Rng, ids []uint64) *c02Policy {
	budget := 9
	root := genTree(r, ids, 3, &budget)
	if root.leaf {
		root = &c02Node{t: 1, children: []*c02Node{root}}
	}
	return &c02Policy{kind: "bx", root: root}
}
