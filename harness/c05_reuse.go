package main

import (
	"fmt"
	"slices"
	"strings"

	"github.com/bronlabs/bron-crypto/pkg/base/algebra"
	"github.com/bronlabs/bron-crypto/pkg/base/mat"
	pedcom "github.com/bronlabs/bron-crypto/pkg/commitments/pedersencom"
	"github.com/bronlabs/bron-crypto/pkg/mpc"
	"github.com/bronlabs/bron-crypto/pkg/mpc/sharing"
	"github.com/bronlabs/bron-crypto/pkg/mpc/sharing/scheme/kw"
	"github.com/bronlabs/bron-crypto/pkg/mpc/sharing/scheme/kw/msp"
	"github.com/bronlabs/bron-crypto/pkg/mpc/sharing/vss/feldman"
	"github.com/bronlabs/bron-crypto/pkg/mpc/sharing/vss/pedersen"
)

// C05 — the object-reuse dimension.
//
// Everything in c05_feldman.go / c05_pedersen.go hands the library FRESH objects built from the
// values of the line.  Here ONE object (verification vector, share, MSP of a scheme, public
// material, shard) lives across many steps: it is used (verify / reconstruct / public material),
// changed through every mutating entry point the public API offers (in-place setters of the matrix
// returned by Value(), UnmarshalCBOR into the used object, Op into itself, struct assignment, the
// slice returned by Share.Value()), and used again with the same scheme, with a scheme of equal
// content but different pointers, and with schemes of different content.  Every step is its own
// line carrying the value the object holds NOW (read back from the object), with the op tagged
// "@reuse"; the (stateless) Lean model predicts the verdict a fresh object with that value gets.
// The library disagreeing means that the verdict depends on the object's history.

type c05Obj[P algebra.PrimeGroupElement[P, S], S algebra.PrimeFieldElement[S]] struct {
	vv  *feldman.VerificationVector[P, S]
	exp c05VV[P, S] // what the harness expects the object to hold (points and their logarithms)
}

// c05Sch is a Feldman scheme together with its MSP as rendered for the lines.
type c05Sch[P algebra.PrimeGroupElement[P, S], S algebra.PrimeFieldElement[S]] struct {
	name string
	sch  *feldman.Scheme[P, S]
	M    *c05Msp[S]
}

func c05PtsEqual[P algebra.PrimeGroupElement[P, S], S algebra.PrimeFieldElement[S]](a, b []P) bool {
	if len(a) != len(b) {
		return false
	}
	for i := range a {
		if !a[i].Equal(b[i]) {
			return false
		}
	}
	return true
}

func (x *c05F[P, F, S]) freshVV(pts []P) *feldman.VerificationVector[P, S] {
	saved := x.obj
	x.obj = nil
	defer func() { x.obj = saved }()
	v, err := x.buildVV(slices.Clone(pts))
	if err != nil {
		return nil
	}
	return v
}

func (x *c05F[P, F, S]) newObj(v c05VV[P, S]) *c05Obj[P, S] {
	vv := x.freshVV(v.pts)
	if vv == nil {
		return nil
	}
	return &c05Obj[P, S]{vv: vv, exp: v.clone()}
}

// readback: the points the object reports now.
func (x *c05F[P, F, S]) readback(vv *feldman.VerificationVector[P, S]) (pts []P, ok bool) {
	res := safely(func() string {
		val := vv.Value()
		if !val.IsColumnVector() {
			return "not-a-column"
		}
		pts = c05Points(val)
		return ""
	})
	return pts, res == ""
}

// cur is the value the object reports, with the logarithms when it is the value the harness expects.
func (x *c05F[P, F, S]) cur(o *c05Obj[P, S]) c05VV[P, S] {
	pts, ok := x.readback(o.vv)
	if !ok {
		x.c.Count("reuse.readback-failed")
		return c05VV[P, S]{}
	}
	if c05PtsEqual[P, S](pts, o.exp.pts) && len(o.exp.dl) == len(pts) {
		return c05VV[P, S]{pts, slices.Clone(o.exp.dl)}
	}
	return c05VV[P, S]{pts, nil}
}

// settle records the outcome of a mutation: the candidate value when the object reports it, the
// previous expectation when the mutator had no effect, otherwise the reported points with unknown
// logarithms (the lines then carry "-" for them and the driver skips the scalar cross-check).
func (x *c05F[P, F, S]) settle(how string, o *c05Obj[P, S], cand c05VV[P, S]) {
	pts, ok := x.readback(o.vv)
	switch {
	case !ok:
		x.c.Count("reuse.mutate." + how + ".unreadable")
	case c05PtsEqual[P, S](pts, cand.pts):
		o.exp = cand.clone()
		x.c.Count("reuse.mutate." + how + ".applied")
	case c05PtsEqual[P, S](pts, o.exp.pts):
		x.c.Count("reuse.mutate." + how + ".noop")
	default:
		o.exp = c05VV[P, S]{pts, nil}
		x.c.Count("reuse.mutate." + how + ".other")
	}
}

// on runs f in object-reuse mode on o; f gets the object's current value for the line.
func (x *c05F[P, F, S]) on(o *c05Obj[P, S], f func(cur c05VV[P, S])) {
	cur := x.cur(o)
	x.obj = o.vv
	defer func() { x.obj = nil }()
	f(cur)
}

func (x *c05F[P, F, S]) withScheme(s c05Sch[P, S], f func()) {
	os, om := x.scheme, x.M
	x.scheme, x.M = s.sch, s.M
	defer func() { x.scheme, x.M = os, om }()
	f()
}

// shareFor: the share M_id * dl that a vector with logarithms dl assigns to id (nil when unknown).
func c05ShareFor[S algebra.PrimeFieldElement[S]](f algebra.PrimeField[S], M *c05Msp[S], dl []S, id sharing.ID) []S {
	if dl == nil || len(dl) != M.cols {
		return nil
	}
	var out []S
	for _, row := range M.rowsOf(id) {
		acc := f.Zero()
		for j := range dl {
			acc = acc.Add(M.data[row][j].Mul(dl[j]))
		}
		out = append(out, acc)
	}
	return out
}

func c05ScalarsEqual[S algebra.PrimeFieldElement[S]](a, b []S) bool {
	if len(a) != len(b) {
		return false
	}
	for i := range a {
		if !a[i].Equal(b[i]) {
			return false
		}
	}
	return true
}

// schemeFromRows builds a Feldman scheme over the MSP with the given rows and labels (new MSP,
// matrix and scheme objects every time).
func (x *c05F[P, F, S]) schemeFromRows(name string, rows [][]S, labels []sharing.ID) (c05Sch[P, S], bool) {
	var out c05Sch[P, S]
	res := safely(func() string {
		if len(rows) == 0 {
			return "reject"
		}
		mod, err := mat.NewMatrixModule(uint(len(rows)), uint(len(rows[0])), x.field)
		if err != nil {
			return "reject"
		}
		mm, err := mod.New(rows)
		if err != nil {
			return "reject"
		}
		r2h := map[int]msp.ID{}
		for i, l := range labels {
			r2h[i] = l
		}
		m2, err := msp.NewMSP(mm, r2h)
		if err != nil {
			return "reject"
		}
		lsss, err := kw.NewInducedScheme(m2)
		if err != nil {
			return "reject"
		}
		sch, err := feldman.NewSchemeFromKW(algebra.PrimeGroup[P, S](x.group), lsss)
		if err != nil {
			return "reject"
		}
		out = c05Sch[P, S]{name, sch, c05ReadMSP(sch.MSP())}
		return "ok"
	})
	if res != "ok" {
		x.c.Note("reuse: scheme variant " + name + " not built: " + res)
		x.c.Count("reuse.scheme-notbuilt." + name)
	}
	return out, res == "ok"
}

func c05CloneRows[S any](rows [][]S) [][]S {
	out := make([][]S, len(rows))
	for i := range rows {
		out[i] = slices.Clone(rows[i])
	}
	return out
}

// variants: B = equal content / other pointers, C = same shape / other content, D = one more column.
func (x *c05F[P, F, S]) variants() []c05Sch[P, S] {
	M := x.M
	out := []c05Sch[P, S]{{"A", x.scheme, M}}
	if b, ok := x.schemeFromRows("B", c05CloneRows(M.data), M.labels); ok {
		out = append(out, b)
	}
	rowsC := c05CloneRows(M.data)
	for i := range rowsC {
		e := x.smallNonZero()
		if i > 0 && x.r.IntN(3) == 0 {
			e = x.field.Zero()
		}
		rowsC[i][M.cols-1] = rowsC[i][M.cols-1].Add(e)
	}
	if c, ok := x.schemeFromRows("C", rowsC, M.labels); ok {
		out = append(out, c)
	}
	rowsD := c05CloneRows(M.data)
	for i := range rowsD {
		rowsD[i] = append(rowsD[i], smallScalar(x.r, x.field))
	}
	if d, ok := x.schemeFromRows("D", rowsD, M.labels); ok {
		out = append(out, d)
	}
	return out
}

// probe uses the object once more: the share a fresh vector of the current value assigns to id
// under s (when the logarithms are known), and (withOld) the share that was valid before the last
// change; when neither exists the fallback share is presented.
func (x *c05F[P, F, S]) probe(kind string, o *c05Obj[P, S], s c05Sch[P, S], id sharing.ID, prev []S, withOld bool, fallback []S) []S {
	var valid []S
	x.on(o, func(cur c05VV[P, S]) {
		valid = c05ShareFor(x.field, s.M, cur.dl, id)
		if valid != nil {
			x.verify(kind+"."+s.name+".new", s.sch, s.M, cur, id, valid)
		}
		switch {
		case withOld && prev != nil && !c05ScalarsEqual(prev, valid):
			x.verify(kind+"."+s.name+".old", s.sch, s.M, cur, id, prev)
		case valid == nil && fallback != nil:
			x.verify(kind+"."+s.name+".dealt", s.sch, s.M, cur, id, fallback)
		}
	})
	return valid
}

type c05Mut[P algebra.PrimeGroupElement[P, S], S algebra.PrimeFieldElement[S]] struct {
	name string
	// apply changes the object in place and returns the value it should hold afterwards
	apply func(o *c05Obj[P, S]) (c05VV[P, S], bool)
}

func (x *c05F[P, F, S]) vvBytes(pts []P) ([]byte, bool) {
	v := x.freshVV(pts)
	if v == nil {
		return nil, false
	}
	b, err := v.MarshalCBOR()
	return b, err == nil
}

// mutators: every in-place change of a verification vector object the public API offers. d2, d3 are
// other dealings over the same MSP (values of known logarithm).
func (x *c05F[P, F, S]) mutators(d2, d3 *c05Dealing[P, S]) []c05Mut[P, S] {
	type O = *c05Obj[P, S]
	type V = c05VV[P, S]
	sumWith := func(a V, b V) V {
		out := a.clone()
		for i := range out.pts {
			out.pts[i] = out.pts[i].Op(b.pts[i])
			if out.dl != nil && b.dl != nil {
				out.dl[i] = out.dl[i].Add(b.dl[i])
			}
		}
		return out
	}
	known := func(a V) bool { return a.dl != nil && len(a.dl) == len(a.pts) }
	decodeInto := func(name string, src func(cur V) V) c05Mut[P, S] {
		return c05Mut[P, S]{name, func(o O) (V, bool) {
			cand := src(x.cur(o))
			b, ok := x.vvBytes(cand.pts)
			if !ok {
				return V{}, false
			}
			if err := o.vv.UnmarshalCBOR(b); err != nil {
				return V{}, false
			}
			return cand, true
		}}
	}
	return []c05Mut[P, S]{
		{"setassign", func(o O) (V, bool) {
			cur := x.cur(o)
			if len(cur.pts) == 0 {
				return V{}, false
			}
			k := x.r.IntN(len(cur.pts))
			p, dl := x.knownPoint(true)
			cand := cur.clone()
			cand.pts[k] = cand.pts[k].Op(p)
			if known(cand) {
				cand.dl[k] = cand.dl[k].Add(dl)
			}
			if err := o.vv.Value().SetAssign(k, 0, cand.pts[k]); err != nil {
				return V{}, false
			}
			return cand, true
		}},
		decodeInto("unmarshal-other", func(V) V { return d2.vv }),
		{"opassign-other", func(o O) (V, bool) {
			cur := x.cur(o)
			other := x.freshVV(d3.vv.pts)
			if other == nil || len(cur.pts) != len(d3.vv.pts) {
				return V{}, false
			}
			o.vv.Value().OpAssign(other.Value())
			return sumWith(cur, d3.vv), true
		}},
		{"opassign-self", func(o O) (V, bool) {
			cur := x.cur(o)
			o.vv.Value().OpAssign(o.vv.Value())
			return sumWith(cur, cur), true
		}},
		decodeInto("unmarshal-short", func(cur V) V {
			if len(cur.pts) < 2 || !known(cur) {
				return V{d2.vv.pts[:len(d2.vv.pts)-1], d2.vv.dl[:len(d2.vv.dl)-1]}
			}
			return V{cur.pts[:len(cur.pts)-1], cur.dl[:len(cur.dl)-1]}
		}),
		decodeInto("unmarshal-back", func(V) V { return d3.vv }),
		{"scalaropassign", func(o O) (V, bool) {
			cur := x.cur(o)
			s := x.field.FromUint64(uint64(2 + x.r.IntN(4)))
			o.vv.Value().ScalarOpAssign(s)
			cand := cur.clone()
			for i := range cand.pts {
				cand.pts[i] = cand.pts[i].ScalarOp(s)
				if known(cand) {
					cand.dl[i] = cand.dl[i].Mul(s)
				}
			}
			return cand, true
		}},
		{"opinvassign", func(o O) (V, bool) {
			cur := x.cur(o)
			o.vv.Value().OpInvAssign()
			cand := cur.clone()
			for i := range cand.pts {
				cand.pts[i] = cand.pts[i].OpInv()
				if known(cand) {
					cand.dl[i] = cand.dl[i].Neg()
				}
			}
			return cand, true
		}},
		{"swaprowassign", func(o O) (V, bool) {
			cur := x.cur(o)
			if len(cur.pts) < 2 {
				return V{}, false
			}
			i := x.r.IntN(len(cur.pts))
			j := (i + 1 + x.r.IntN(len(cur.pts)-1)) % len(cur.pts)
			o.vv.Value().SwapRowAssign(i, j)
			cand := cur.clone()
			cand.pts[i], cand.pts[j] = cand.pts[j], cand.pts[i]
			if known(cand) {
				cand.dl[i], cand.dl[j] = cand.dl[j], cand.dl[i]
			}
			return cand, true
		}},
		decodeInto("unmarshal-long", func(cur V) V {
			p, dl := x.knownPoint(true)
			if !known(cur) {
				cur = d2.vv
			}
			return V{append(slices.Clone(cur.pts), p), append(slices.Clone(cur.dl), dl)}
		}),
		{"unmarshal-matrix", func(o O) (V, bool) { // decode into the matrix behind Value()
			src := x.freshVV(d2.vv.pts)
			if src == nil {
				return V{}, false
			}
			b, err := src.Value().MarshalCBOR()
			if err != nil {
				return V{}, false
			}
			if err := o.vv.Value().UnmarshalCBOR(b); err != nil {
				return V{}, false
			}
			return d2.vv, true
		}},
		{"setcolumnassign", func(o O) (V, bool) {
			if err := o.vv.Value().SetColumnAssign(0, slices.Clone(d3.vv.pts)); err != nil {
				return V{}, false
			}
			return d3.vv, true
		}},
		{"setrowassign", func(o O) (V, bool) {
			cur := x.cur(o)
			if len(cur.pts) == 0 {
				return V{}, false
			}
			k := x.r.IntN(len(cur.pts))
			p, dl := x.knownPoint(true)
			if err := o.vv.Value().SetRowAssign(k, []P{p}); err != nil {
				return V{}, false
			}
			cand := cur.clone()
			cand.pts[k] = p
			if known(cand) {
				cand.dl[k] = dl
			}
			return cand, true
		}},
		{"struct-assign", func(o O) (V, bool) { // *vv = *other (Set / clone-assign)
			src := x.freshVV(d2.vv.pts)
			if src == nil {
				return V{}, false
			}
			*o.vv = *src
			return d2.vv, true
		}},
		{"op-assign-back", func(o O) (V, bool) { // vv = vv.Op(other), stored in the same object
			cur := x.cur(o)
			other := x.freshVV(d3.vv.pts)
			if other == nil {
				return V{}, false
			}
			res, err := o.vv.Op(other)
			if err != nil {
				return V{}, false
			}
			*o.vv = *res
			return sumWith(cur, d3.vv), true
		}},
		{"op-self-assign-back", func(o O) (V, bool) { // Op into itself
			cur := x.cur(o)
			res, err := o.vv.Op(o.vv)
			if err != nil {
				return V{}, false
			}
			*o.vv = *res
			return sumWith(cur, cur), true
		}},
	}
}

// reuse runs the object-reuse sequences of one Feldman scheme. d is the dealing whose vector is the
// object's first value.
func (x *c05F[P, F, S]) reuse(d *c05Dealing[P, S], qual [][]sharing.ID) {
	M := x.M
	d2, ok2 := x.dealColumn(M)
	d3, ok3 := x.dealColumn(M)
	if !ok2 || !ok3 {
		return
	}
	vs := x.variants()
	A := vs[0]
	pick := func() sharing.ID { return M.ids[x.r.IntN(len(M.ids))] }

	// ---- S1: one vector object through the mutators; after each change it is used again.
	//      quick tier: a random half of the mutators per structure (all of them occur over the stream)
	if o := x.newObj(d.vv); o != nil {
		id := pick()
		fb := func() []S { return d.shares[id].Value() }
		prev := map[string][]S{}
		for _, s := range vs {
			prev[s.name] = x.probe("first-use", o, s, id, nil, false, fb())
		}
		last := vs[len(vs)-1]
		step := 0
		for _, m := range x.mutators(d2, d3) {
			if !x.c.Thorough() && x.r.IntN(2) == 0 {
				continue
			}
			var cand c05VV[P, S]
			applied := false
			res := safely(func() string {
				cand, applied = m.apply(o)
				return ""
			})
			if res != "" {
				x.c.Note("reuse: mutator " + m.name + " " + res)
				x.c.Count("reuse.mutate." + m.name + ".panic")
				applied = false
			}
			if !applied {
				x.c.Count("reuse.mutate." + m.name + ".skipped")
				// the object may still have been touched: settle on what it reports
				x.settle(m.name, o, o.exp)
				if !x.c.Thorough() {
					continue
				}
			} else {
				x.settle(m.name, o, cand)
			}
			step++
			// first the scheme that used the object last before the change, then the dealer's scheme,
			// then one of the others (all of them in the thorough tier)
			prev[last.name] = x.probe(m.name, o, last, id, prev[last.name], true, fb())
			if last.name != A.name {
				prev[A.name] = x.probe(m.name, o, A, id, prev[A.name], x.c.Thorough(), fb())
			}
			for k, s := range vs[1:] {
				if s.name != last.name && (x.c.Thorough() || k == step%max(len(vs)-1, 1)) {
					prev[s.name] = x.probe(m.name, o, s, id, prev[s.name], x.c.Thorough(), fb())
				}
			}
			if x.c.Thorough() {
				for _, h := range M.ids {
					if h != id {
						x.probe(m.name, o, A, h, d.shares[h].Value(), true, nil)
					}
				}
			}
			// derived objects built from the used vector: public material / shard, lifted dealer
			// function + reconstruction in the exponent, ReconstructAndVerify
			x.on(o, func(cur c05VV[P, S]) {
				valid := c05ShareFor(x.field, M, cur.dl, id)
				switch step % 3 {
				case 0:
					if valid != nil {
						x.shard(m.name, cur, id, valid)
					} else {
						x.shard(m.name, cur, id, fb())
					}
				case 1:
					x.recExp(&c05Dealing[P, S]{vv: cur}, qual[x.r.IntN(len(qual))])
				default:
					q := qual[x.r.IntN(len(qual))]
					hs := map[sharing.ID][]S{}
					for _, h := range q {
						if v := c05ShareFor(x.field, M, cur.dl, h); v != nil {
							hs[h] = v
						} else {
							hs[h] = d.shares[h].Value()
						}
					}
					x.recVer(m.name, &c05Dealing[P, S]{vv: cur}, hs, q)
				}
			})
			if x.r.IntN(3) == 0 {
				id = pick()
				for _, s := range vs {
					prev[s.name] = nil
				}
			}
			// the last user before the next change
			last = vs[x.r.IntN(len(vs))]
			prev[last.name] = x.probe(m.name+".last", o, last, id, prev[last.name], false, fb())
		}
	}

	// ---- S2: two vector objects interleaved under one scheme
	o1, o2 := x.newObj(d.vv), x.newObj(d2.vv)
	if o1 != nil && o2 != nil {
		id := pick()
		s1, s2 := d.shares[id].Value(), d2.shares[id].Value()
		for rep := range 2 {
			k := fmt.Sprintf("interleave-vectors%d", rep)
			x.on(o1, func(cur c05VV[P, S]) { x.verify(k+".v1s1", A.sch, A.M, cur, id, s1) })
			x.on(o2, func(cur c05VV[P, S]) { x.verify(k+".v2s2", A.sch, A.M, cur, id, s2) })
			x.on(o2, func(cur c05VV[P, S]) { x.verify(k+".v2s1", A.sch, A.M, cur, id, s1) })
			x.on(o1, func(cur c05VV[P, S]) { x.verify(k+".v1s2", A.sch, A.M, cur, id, s2) })
			if !x.c.Thorough() {
				break
			}
		}
		x.on(o1, func(cur c05VV[P, S]) { x.verify("interleave-vectors.v1s1-again", A.sch, A.M, cur, id, s1) })
	}

	// ---- S3: one vector object under alternating schemes / MSPs
	if o := x.newObj(d.vv); o != nil {
		id := pick()
		order := append(slices.Clone(vs), vs[0])
		if len(vs) > 2 {
			order = append(order, vs[2], vs[0])
		}
		for i, s := range order {
			x.on(o, func(cur c05VV[P, S]) {
				k := fmt.Sprintf("interleave-schemes%d.%s", i, s.name)
				v := c05ShareFor(x.field, s.M, cur.dl, id)
				if v != nil {
					x.verify(k+".own", s.sch, s.M, cur, id, v)
				}
				if v == nil || x.c.Thorough() || i%2 == 1 {
					x.verify(k+".A-share", s.sch, s.M, cur, id, d.shares[id].Value())
				}
			})
		}
		// derived objects under alternating MSPs
		for _, s := range order[:min(len(order), 3)] {
			x.withScheme(s, func() {
				x.on(o, func(cur c05VV[P, S]) {
					v := c05ShareFor(x.field, s.M, cur.dl, id)
					if v == nil {
						v = d.shares[id].Value()
					}
					x.shard("interleave-schemes."+s.name, cur, id, v)
				})
			})
		}
	}

	// ---- S4: the MSP of a scheme changed in place, the vector object kept
	if e, ok := x.schemeFromRows("E", c05CloneRows(M.data), M.labels); ok {
		if o := x.newObj(d.vv); o != nil {
			id := pick()
			prev := x.probe("msp-first-use", o, e, id, nil, false, nil)
			res := safely(func() string {
				rows := e.M.rowsOf(id)
				i, j := rows[x.r.IntN(len(rows))], x.r.IntN(e.M.cols)
				old, err := e.sch.MSP().Matrix().Get(i, j)
				if err != nil {
					return "reject"
				}
				if err := e.sch.MSP().Matrix().SetAssign(i, j, old.Add(x.smallNonZero())); err != nil {
					return "reject"
				}
				return "ok"
			})
			x.c.Count("reuse.mutate.msp-setassign." + res)
			e.M = c05ReadMSP(e.sch.MSP())
			prev = x.probe("msp-setassign", o, e, id, prev, true, nil)
			if len(vs) > 2 {
				res := safely(func() string {
					b, err := vs[2].sch.MSP().MarshalCBOR()
					if err != nil {
						return "marshal-failed"
					}
					if err := e.sch.MSP().UnmarshalCBOR(b); err != nil {
						return "unmarshal-failed"
					}
					return "ok"
				})
				x.c.Count("reuse.mutate.msp-unmarshal." + res)
				e.M = c05ReadMSP(e.sch.MSP())
				x.probe("msp-unmarshal", o, e, id, prev, true, nil)
				x.withScheme(e, func() {
					x.on(o, func(cur c05VV[P, S]) {
						v := c05ShareFor(x.field, e.M, cur.dl, id)
						if v == nil {
							v = d.shares[id].Value()
						}
						x.shard("msp-unmarshal", cur, id, v)
					})
				})
			}
		}
	}

	// ---- S5: a share object used, changed through Value() / UnmarshalCBOR, used again
	if o := x.newObj(d.vv); o != nil {
		ids := slices.Clone(M.ids)
		i, j := ids[0], ids[len(ids)-1]
		res := safely(func() string {
			sh, err := kw.NewShare(i, slices.Clone(d.shares[i].Value())...)
			if err != nil {
				return "reject"
			}
			x.shObj = sh
			defer func() { x.shObj = nil }()
			use := func(kind string) {
				x.on(o, func(cur c05VV[P, S]) {
					x.verify("share."+kind, A.sch, A.M, cur, sh.ID(), slices.Clone(sh.Value()))
				})
			}
			use("first-use")
			k := x.r.IntN(len(sh.Value()))
			sh.Value()[k] = sh.Value()[k].Add(x.smallNonZero())
			use("value-set")
			b, err := d.shares[j].MarshalCBOR()
			if err != nil {
				return "marshal-failed"
			}
			if err := sh.UnmarshalCBOR(b); err != nil {
				return "unmarshal-failed"
			}
			use("unmarshal-other-holder")
			b, err = d2.shares[j].MarshalCBOR()
			if err != nil {
				return "marshal-failed"
			}
			if err := sh.UnmarshalCBOR(b); err != nil {
				return "unmarshal-failed"
			}
			use("unmarshal-other-dealing")
			*sh = *d.shares[i]
			use("struct-assign")
			x.on(o, func(cur c05VV[P, S]) { x.shard("share", cur, sh.ID(), slices.Clone(sh.Value())) })
			return "ok"
		})
		x.c.Count("share." + strings.SplitN(res, ":", 2)[0])
	}

	// ---- S6: public material / shard decoded into an already used object
	x.pubmat(d, d2)
}

// pubmat: BasePublicMaterial and BaseShard objects reused as decode targets.
func (x *c05F[P, F, S]) pubmat(d, d2 *c05Dealing[P, S]) {
	M := x.M
	emit := func(kind string, pm *mpc.BasePublicMaterial[P, S]) {
		var lhs string
		res := safely(func() string {
			m := c05ReadMSP(pm.MSP())
			pts, ok := x.readback(pm.VerificationVector())
			if !ok {
				return "err:unreadable"
			}
			lhs = fmt.Sprintf("fpubmat@reuse %s %s %s", kind, x.pre(m), pointsStr(pts))
			parts := make([]string, 0, len(m.ids))
			for _, h := range m.ids {
				l, ok := pm.PublicKeyShares().Get(h)
				if !ok {
					return "err:missing-pkshare"
				}
				parts = append(parts, fmt.Sprintf("%d:%s", h, pointsStr(l.Value())))
			}
			return "ok:" + pointStr(pm.PublicKeyValue()) + "|" + strings.Join(parts, ";")
		})
		if lhs == "" {
			x.c.Count("fpubmat@reuse." + kind + ".skipped")
			return
		}
		x.c.Count("fpubmat@reuse." + kind)
		x.c.Emit(lhs, res)
	}
	res := safely(func() string {
		pm1, err := mpc.NewBasePublicMaterial(M.m, x.freshVV(d.vv.pts))
		if err != nil {
			return "reject"
		}
		emit("first-use", pm1)
		pm2, err := mpc.NewBasePublicMaterial(M.m, x.freshVV(d2.vv.pts))
		if err != nil {
			return "reject"
		}
		b, err := pm2.MarshalCBOR()
		if err != nil {
			return "marshal-failed"
		}
		if err := pm1.UnmarshalCBOR(b); err != nil {
			return "unmarshal-failed"
		}
		emit("unmarshal", pm1)
		id := M.ids[x.r.IntN(len(M.ids))]
		bs1, err := mpc.NewBaseShard(d.shares[id], x.freshVV(d.vv.pts), M.m)
		if err != nil {
			return "reject"
		}
		bs2, err := mpc.NewBaseShard(d2.shares[id], x.freshVV(d2.vv.pts), M.m)
		if err != nil {
			return "reject"
		}
		b, err = bs2.MarshalCBOR()
		if err != nil {
			return "shard-marshal-failed"
		}
		if err := bs1.UnmarshalCBOR(b); err != nil {
			return "shard-unmarshal-failed"
		}
		emit("shard-unmarshal", &bs1.BasePublicMaterial)
		// the decoded shard's share must verify against the decoded shard's own vector object
		o := &c05Obj[P, S]{vv: bs1.VerificationVector(), exp: d2.vv.clone()}
		x.on(o, func(cur c05VV[P, S]) {
			x.verify("shard-unmarshal", x.scheme, M, cur, bs1.Share().ID(), slices.Clone(bs1.Share().Value()))
		})
		return "ok"
	})
	x.c.Count("reuse.pubmat." + res)
}

// ---------------------------------------------------------------------------------- Pedersen

// c05PVal: a Pedersen verification vector with the openings (dg, dh) the harness knows.
type c05PVal[P any, S any] struct {
	pts    []P
	dg, dh []S
}

func (v c05PVal[P, S]) clone() c05PVal[P, S] {
	return c05PVal[P, S]{slices.Clone(v.pts), slices.Clone(v.dg), slices.Clone(v.dh)}
}

type c05PObj[P algebra.PrimeGroupElement[P, S], S algebra.PrimeFieldElement[S]] struct {
	vv  *pedersen.VerificationVector[P, S]
	exp c05PVal[P, S]
}

func (x *c05P[P, F, S]) freshVV(pts []P) *pedersen.VerificationVector[P, S] {
	saved := x.obj
	x.obj = nil
	defer func() { x.obj = saved }()
	v, err := x.buildVV(slices.Clone(pts))
	if err != nil {
		return nil
	}
	return v
}

func (x *c05P[P, F, S]) cur(o *c05PObj[P, S]) c05PVal[P, S] {
	var pts []P
	res := safely(func() string {
		if !o.vv.Value().IsColumnVector() {
			return "not-a-column"
		}
		pts = c05Points(o.vv.Value())
		return ""
	})
	if res != "" {
		x.c.Count("reuse.p.readback-failed")
		return c05PVal[P, S]{}
	}
	if c05PtsEqual[P, S](pts, o.exp.pts) && len(o.exp.dg) == len(pts) {
		return c05PVal[P, S]{pts, slices.Clone(o.exp.dg), slices.Clone(o.exp.dh)}
	}
	return c05PVal[P, S]{pts, nil, nil}
}

func (x *c05P[P, F, S]) settle(how string, o *c05PObj[P, S], cand c05PVal[P, S]) {
	cur := x.cur(o)
	switch {
	case c05PtsEqual[P, S](cur.pts, cand.pts):
		o.exp = cand.clone()
		x.c.Count("reuse.p.mutate." + how + ".applied")
	case c05PtsEqual[P, S](cur.pts, o.exp.pts):
		x.c.Count("reuse.p.mutate." + how + ".noop")
	default:
		o.exp = c05PVal[P, S]{cur.pts, nil, nil}
		x.c.Count("reuse.p.mutate." + how + ".other")
	}
}

func (x *c05P[P, F, S]) on(o *c05PObj[P, S], f func(cur c05PVal[P, S])) {
	cur := x.cur(o)
	x.obj = o.vv
	defer func() { x.obj = nil }()
	f(cur)
}

func (x *c05P[P, F, S]) shareFor(v c05PVal[P, S], id sharing.ID) (c05PShare[S], bool) {
	s := c05ShareFor(x.field, x.M, v.dg, id)
	b := c05ShareFor(x.field, x.M, v.dh, id)
	return c05PShare[S]{s, b}, s != nil && b != nil
}

func (x *c05P[P, F, S]) probe(kind string, o *c05PObj[P, S], id sharing.ID, prev *c05PShare[S]) *c05PShare[S] {
	var out *c05PShare[S]
	x.on(o, func(cur c05PVal[P, S]) {
		if v, ok := x.shareFor(cur, id); ok {
			out = &v
			x.verify(kind+".new", cur.pts, id, v)
		}
		if prev != nil && (out == nil || !c05ScalarsEqual(prev.s, out.s) || !c05ScalarsEqual(prev.b, out.b)) {
			x.verify(kind+".old", cur.pts, id, *prev)
		}
	})
	return out
}

func (x *c05P[P, F, S]) valOf(d *c05PDealing[P, S]) c05PVal[P, S] {
	return c05PVal[P, S]{slices.Clone(d.pts), slices.Clone(d.rg), slices.Clone(d.rh)}
}

// reuse: the object-reuse sequences of one Pedersen scheme; as is the access structure (a second
// scheme with another second generator is built over it).
func (x *c05P[P, F, S]) reuse(d *c05PDealing[P, S], as c05AS) {
	M := x.M
	d2, ok2 := x.dealColumns(x.smallColumn(), x.smallColumn())
	d3, ok3 := x.dealColumns(x.smallColumn(), x.smallColumn())
	if !ok2 || !ok3 {
		return
	}
	type O = *c05PObj[P, S]
	type V = c05PVal[P, S]
	pick := func() sharing.ID { return M.ids[x.r.IntN(len(M.ids))] }
	known := func(v V) bool { return v.dg != nil && len(v.dg) == len(v.pts) }
	sumWith := func(a, b V) V {
		out := a.clone()
		for i := range out.pts {
			out.pts[i] = out.pts[i].Op(b.pts[i])
			if known(out) && known(b) {
				out.dg[i] = out.dg[i].Add(b.dg[i])
				out.dh[i] = out.dh[i].Add(b.dh[i])
			}
		}
		return out
	}
	type mut struct {
		name  string
		apply func(o O) (V, bool)
	}
	muts := []mut{
		{"setassign", func(o O) (V, bool) {
			cur := x.cur(o)
			if len(cur.pts) == 0 {
				return V{}, false
			}
			k := x.r.IntN(len(cur.pts))
			a, b := x.smallNonZero(), smallScalar(x.r, x.field)
			cand := cur.clone()
			cand.pts[k] = cand.pts[k].Op(x.group.Generator().ScalarOp(a)).Op(x.h.ScalarOp(b))
			if known(cand) {
				cand.dg[k], cand.dh[k] = cand.dg[k].Add(a), cand.dh[k].Add(b)
			}
			if err := o.vv.Value().SetAssign(k, 0, cand.pts[k]); err != nil {
				return V{}, false
			}
			return cand, true
		}},
		{"unmarshal-other", func(o O) (V, bool) {
			src := x.freshVV(d2.pts)
			if src == nil {
				return V{}, false
			}
			b, err := src.MarshalCBOR()
			if err != nil {
				return V{}, false
			}
			if err := o.vv.UnmarshalCBOR(b); err != nil {
				return V{}, false
			}
			return x.valOf(d2), true
		}},
		{"opassign-other", func(o O) (V, bool) {
			cur := x.cur(o)
			other := x.freshVV(d3.pts)
			if other == nil || len(cur.pts) != len(d3.pts) {
				return V{}, false
			}
			o.vv.Value().OpAssign(other.Value())
			return sumWith(cur, x.valOf(d3)), true
		}},
		{"unmarshal-short", func(o O) (V, bool) {
			cur := x.cur(o)
			if len(cur.pts) < 2 || !known(cur) {
				return V{}, false
			}
			cand := V{cur.pts[:len(cur.pts)-1], cur.dg[:len(cur.dg)-1], cur.dh[:len(cur.dh)-1]}
			src := x.freshVV(cand.pts)
			if src == nil {
				return V{}, false
			}
			b, err := src.MarshalCBOR()
			if err != nil {
				return V{}, false
			}
			if err := o.vv.UnmarshalCBOR(b); err != nil {
				return V{}, false
			}
			return cand, true
		}},
		{"struct-assign", func(o O) (V, bool) {
			src := x.freshVV(d3.pts)
			if src == nil {
				return V{}, false
			}
			*o.vv = *src
			return x.valOf(d3), true
		}},
		{"opinvassign", func(o O) (V, bool) {
			cur := x.cur(o)
			o.vv.Value().OpInvAssign()
			cand := cur.clone()
			for i := range cand.pts {
				cand.pts[i] = cand.pts[i].OpInv()
				if known(cand) {
					cand.dg[i], cand.dh[i] = cand.dg[i].Neg(), cand.dh[i].Neg()
				}
			}
			return cand, true
		}},
		{"op-assign-back", func(o O) (V, bool) {
			cur := x.cur(o)
			other := x.freshVV(d2.pts)
			if other == nil {
				return V{}, false
			}
			res, err := o.vv.Op(other)
			if err != nil {
				return V{}, false
			}
			*o.vv = *res
			return sumWith(cur, x.valOf(d2)), true
		}},
	}

	// ---- P1: one vector object through the mutators
	o := &c05PObj[P, S]{vv: x.freshVV(d.pts), exp: x.valOf(d)}
	if o.vv != nil {
		id := pick()
		prev := x.probe("first-use", o, id, nil)
		step := 0
		for _, m := range muts {
			if !x.c.Thorough() && x.r.IntN(2) == 0 {
				continue
			}
			step++
			var cand V
			applied := false
			if res := safely(func() string { cand, applied = m.apply(o); return "" }); res != "" {
				x.c.Note("reuse: pedersen mutator " + m.name + " " + res)
				x.c.Count("reuse.p.mutate." + m.name + ".panic")
				applied = false
			}
			if !applied {
				x.c.Count("reuse.p.mutate." + m.name + ".skipped")
				x.settle(m.name, o, o.exp)
				if !x.c.Thorough() {
					continue
				}
			} else {
				x.settle(m.name, o, cand)
			}
			prev = x.probe(m.name, o, id, prev)
			if step%3 == 2 {
				x.on(o, func(cur V) {
					var q []sharing.ID
					for _, s := range c05Subsets(M.ids) {
						if x.scheme.CanReconstruct(s...) {
							q = s
							break
						}
					}
					hs := map[sharing.ID]c05PShare[S]{}
					for _, h := range q {
						if v, ok := x.shareFor(cur, h); ok {
							hs[h] = v
						} else {
							hs[h] = d.shares[h]
						}
					}
					x.recVer(m.name, cur.pts, hs, q)
				})
			}
			if x.r.IntN(3) == 0 {
				id, prev = pick(), nil
			}
		}
	}

	// ---- P2: two vector objects interleaved under one scheme
	o1 := &c05PObj[P, S]{vv: x.freshVV(d.pts), exp: x.valOf(d)}
	o2 := &c05PObj[P, S]{vv: x.freshVV(d2.pts), exp: x.valOf(d2)}
	if o1.vv != nil && o2.vv != nil {
		id := pick()
		x.on(o1, func(cur V) { x.verify("interleave-vectors.v1s1", cur.pts, id, d.shares[id]) })
		x.on(o2, func(cur V) { x.verify("interleave-vectors.v2s2", cur.pts, id, d2.shares[id]) })
		x.on(o2, func(cur V) { x.verify("interleave-vectors.v2s1", cur.pts, id, d.shares[id]) })
		x.on(o1, func(cur V) { x.verify("interleave-vectors.v1s2", cur.pts, id, d2.shares[id]) })
		x.on(o1, func(cur V) { x.verify("interleave-vectors.v1s1-again", cur.pts, id, d.shares[id]) })
	}

	// ---- P3: one vector object under two schemes that differ only in the second generator
	//      (V = dg*G + dh*H = (dg + log_G(H)*dh)*G + 0*H2, so both schemes have an accepted opening)
	res := safely(func() string {
		var l2 S
		for {
			l2 = scalarFromBig(x.field, x.r.BigBelow(fieldOrder(x.field)))
			if !l2.IsZero() && !l2.IsOne() && !l2.Equal(x.hLog) {
				break
			}
		}
		h2 := x.group.Generator().ScalarOp(l2)
		key2, err := pedcom.NewCommitmentKeyUnchecked(x.group.Generator(), h2)
		if err != nil {
			return "reject"
		}
		sch2, err := pedersen.NewScheme(key2, as.ac)
		if err != nil {
			return "reject"
		}
		o := &c05PObj[P, S]{vv: x.freshVV(d.pts), exp: x.valOf(d)}
		if o.vv == nil {
			return "reject"
		}
		id := pick()
		own1 := d.shares[id]
		zero := make0(x.field, len(own1.b))
		s2 := make([]S, len(own1.s))
		for i := range s2 {
			s2[i] = own1.s[i].Add(x.hLog.Mul(own1.b[i]))
		}
		own2 := c05PShare[S]{s2, zero}
		k1, h1, sc1 := x.key, x.h, x.scheme
		under := func(second bool, f func()) {
			if second {
				x.key, x.h, x.scheme = key2, h2, sch2
				defer func() { x.key, x.h, x.scheme = k1, h1, sc1 }()
			}
			f()
		}
		for i, second := range []bool{false, true, true, false} {
			under(second, func() {
				x.on(o, func(cur V) {
					k := fmt.Sprintf("interleave-generators%d.h%d", i, map[bool]int{false: 1, true: 2}[second])
					x.verify(k+".opening1", cur.pts, id, own1)
					x.verify(k+".opening2", cur.pts, id, own2)
				})
			})
		}
		return "ok"
	})
	x.c.Count("reuse.p.generators." + res)

	// ---- P4: a Pedersen share object decoded into / assigned after use
	res = safely(func() string {
		o := &c05PObj[P, S]{vv: x.freshVV(d.pts), exp: x.valOf(d)}
		if o.vv == nil {
			return "reject"
		}
		i, j := M.ids[0], M.ids[len(M.ids)-1]
		mk := func(id sharing.ID, v c05PShare[S]) *pedersen.Share[S] {
			saved := x.shObj
			x.shObj = nil
			defer func() { x.shObj = saved }()
			sh, err := x.mkShare(id, c05PShare[S]{slices.Clone(v.s), slices.Clone(v.b)})
			if err != nil {
				panic("share not built")
			}
			return sh
		}
		sh := mk(i, d.shares[i])
		x.shObj = sh
		defer func() { x.shObj = nil }()
		use := func(kind string) {
			x.on(o, func(cur V) {
				x.verify("share."+kind, cur.pts, sh.ID(), c05PShare[S]{slices.Clone(sh.Value()), witnessValues(sh.Blinding())})
			})
		}
		use("first-use")
		b, err := mk(j, d.shares[j]).MarshalCBOR()
		if err != nil {
			return "marshal-failed"
		}
		if err := sh.UnmarshalCBOR(b); err != nil {
			return "unmarshal-failed"
		}
		use("unmarshal-other-holder")
		b, err = mk(j, d2.shares[j]).MarshalCBOR()
		if err != nil {
			return "marshal-failed"
		}
		if err := sh.UnmarshalCBOR(b); err != nil {
			return "unmarshal-failed"
		}
		use("unmarshal-other-dealing")
		*sh = *mk(i, d.shares[i])
		use("struct-assign")
		return "ok"
	})
	x.c.Count("reuse.p.share." + strings.SplitN(res, ":", 2)[0])
}
