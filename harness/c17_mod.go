package main

import (
	"fmt"
	"math/big"
	"strconv"

	"github.com/bronlabs/bron-crypto/pkg/base/ct"
	"github.com/bronlabs/bron-crypto/pkg/base/nt/crt"
	"github.com/bronlabs/bron-crypto/pkg/base/nt/modular"
	"github.com/bronlabs/bron-crypto/pkg/base/nt/numct"
)

func mustModulus(m *big.Int) *numct.Modulus {
	mod, ok := numct.NewModulus(numct.NewNatFromBig(m, m.BitLen()))
	if ok != ct.True {
		panic("NewModulus rejected " + m.Text(16))
	}
	return mod
}

// opnd: an operand for a modular operation, with an announced capacity at least its length
func (g *g17) opnd(m *big.Int) cnat {
	v := g.residue(m)
	return cnat{v, g.capGE(v)}
}

// c17Modulus: every arithmetic method of numct.Modulus (ModulusBasic in the purego build).
func c17Modulus(g *g17, count int) {
	for it := 0; it < count; it++ {
		m := g.modulus()
		ms := m.Text(16)
		switch op := g.r.IntN(26); op {
		case 0: // constructors
			v := g.natN(200)
			if g.r.IntN(4) == 0 {
				v = bi(0)
			}
			x := cnat{v, g.capGE(v)}
			g.emit(fmt.Sprintf("m.new %s", x), func() string {
				mod, ok := numct.NewModulus(x.nat())
				var sm numct.Modulus
				ok2 := sm.SetNat(x.nat())
				mb, ok3 := numct.NewModulusFromBytesBE(x.val().Bytes())
				if ok != ok2 || ok != ok3 {
					g.c.Violation("m.new: NewModulus/SetNat/NewModulusFromBytesBE disagree on " + x.String())
				}
				if ok != ct.True {
					return "none"
				}
				if mb.Big().Cmp(mod.Big()) != 0 {
					g.c.Violation("m.new: NewModulusFromBytesBE value " + x.String())
				}
				return mod.Big().Text(16) + "," + strconv.Itoa(mod.BitLen()) + "," + hexBytes(mod.Bytes()) + "," + natS(mod.Nat())
			})
		case 1, 2: // Mod, ModI, ModSymmetric, Quo
			x := g.opnd(m)
			sx := x
			if g.r.IntN(2) == 0 {
				sx = cnat{new(big.Int).Neg(x.v), x.c}
			}
			ro := g.reuse()
			g.emit(fmt.Sprintf("%s %s %s", ro.op("m.mod"), ms, sx), func() string {
				mod := mustModulus(m)
				r, ri := *ro.nat(m.BitLen()), *ro.nat(m.BitLen())
				sym := *ro.int(m.BitLen())
				mod.Mod(&r, x.nat())
				mod.ModI(&ri, sx.int())
				mod.ModSymmetric(&sym, x.nat())
				g.xc("m.mod", r.Big(), new(big.Int).Mod(x.val(), m))
				g.xc("m.modi", ri.Big(), new(big.Int).Mod(sx.val(), m))
				return natS(&r) + "," + natS(&ri) + "," + sym.Big().Text(16)
			})
			if x.val().BitLen() <= 2*m.BitLen() { // Quo keeps BitLen(m) bits of the quotient
				rq := g.reuse()
				g.emit(fmt.Sprintf("%s %s %s", rq.op("m.quo"), ms, x), func() string {
					q := *rq.nat(x.c)
					mustModulus(m).Quo(&q, x.nat())
					return natS(&q)
				})
			}
		case 3, 4, 5, 6: // ModAdd / ModSub / ModMul / ModNeg, output aliasing an input
			x, y := g.opnd(m), g.opnd(m)
			name := []string{"modadd", "modsub", "modmul", "modneg"}[op-3]
			al := g.r.IntN(4)
			ro := g.reuseIf(al == 3)
			al %= 3
			g.emit(fmt.Sprintf("%s a%d %s %s %s", ro.op("m."+name), al, ms, x, y), func() string {
				mod := mustModulus(m)
				a, b := x.nat(), y.nat()
				out := ro.nat(m.BitLen())
				if al == 1 {
					out = a
				} else if al == 2 {
					out = b
				}
				want := new(big.Int)
				switch name {
				case "modadd":
					mod.ModAdd(out, a, b)
					want.Add(x.val(), y.val())
				case "modsub":
					mod.ModSub(out, a, b)
					want.Sub(x.val(), y.val())
				case "modmul":
					mod.ModMul(out, a, b)
					want.Mul(x.val(), y.val())
				default:
					mod.ModNeg(out, a)
					want.Neg(x.val())
				}
				g.xc("m."+name, out.Big(), want.Mod(want, m))
				return natS(out)
			})
		case 7, 8, 9: // ModInv: inverse exactly for units
			x := g.opnd(m)
			al := g.r.IntN(3)
			ro := g.reuseIf(al == 2)
			al %= 2
			g.emit(fmt.Sprintf("%s a%d %s %s", ro.op("m.modinv"), al, ms, x), func() string {
				mod := mustModulus(m)
				a := x.nat()
				out := ro.nat(m.BitLen())
				if al == 1 {
					out = a
				}
				unit := mod.IsUnit(x.nat())
				ok := mod.ModInv(out, a)
				if ok != ct.True {
					return "none," + b01(unit)
				}
				return "ok:" + out.Big().Text(16) + "," + b01(unit)
			})
		case 10, 11: // ModDiv
			x, y := g.opnd(m), g.opnd(m)
			ro := g.reuse()
			g.emit(fmt.Sprintf("%s %s %s %s", ro.op("m.moddiv"), ms, x, y), func() string {
				out := *ro.nat(m.BitLen())
				if mustModulus(m).ModDiv(&out, x.nat(), y.nat()) != ct.True {
					return "none"
				}
				return "ok:" + out.Big().Text(16)
			})
		case 12, 13, 14, 15: // ModExp / ModExpI
			x := g.opnd(m)
			e := g.natN([]int{8, 64, 300, m.BitLen() + 1}[g.r.IntN(4)])
			if m.BitLen() > 1100 {
				e = g.natN(200)
			}
			if g.r.IntN(8) == 0 {
				e = new(big.Int).Sub(m, bi(int64(g.r.IntN(3)))) // m, m-1, m-2 (Fermat exponents)
			}
			neg := op == 15 && new(big.Int).GCD(nil, nil, new(big.Int).Mod(x.val(), m), m).Cmp(bOne) == 0 && g.r.IntN(2) == 0
			ee := cnat{e, g.capGE(e)}
			if neg {
				ee.v = new(big.Int).Neg(e)
			}
			signed := op >= 14
			name := "m.modexp"
			if signed {
				name = "m.modexpi"
			}
			ro := g.reuse()
			g.emit(fmt.Sprintf("%s %s %s %s", ro.op(name), ms, x, ee), func() string {
				out := *ro.nat(m.BitLen())
				mod := mustModulus(m)
				if signed {
					mod.ModExpI(&out, x.nat(), ee.int())
				} else {
					mod.ModExp(&out, x.nat(), ee.nat())
				}
				if !neg {
					g.xc(name, out.Big(), new(big.Int).Exp(x.val(), ee.val(), m))
				}
				return out.Big().Text(16)
			})
		case 16: // ModMultiBaseExp
			k := 1 + g.r.IntN(4)
			xs := make([]cnat, k)
			strs := make([]string, k)
			for i := range xs {
				xs[i] = g.opnd(m)
				strs[i] = xs[i].String()
			}
			e := g.natN(128)
			ee := cnat{e, g.capGE(e)}
			ro := g.reuse()
			g.emit(fmt.Sprintf("%s %s %s %s", ro.op("m.multiexp"), ms, joinComma(strs), ee), func() string {
				bases, outs := make([]*numct.Nat, k), make([]*numct.Nat, k)
				for i := range xs {
					bases[i], outs[i] = xs[i].nat(), ro.nat(m.BitLen())
				}
				mustModulus(m).ModMultiBaseExp(outs, bases, ee.nat())
				res := make([]*big.Int, k)
				for i := range outs {
					res[i] = outs[i].Big()
				}
				return c17hexList(res)
			})
		case 17, 18, 19, 20: // ModSqrt (m = 2 excluded: the property claims odd primes; saferith rejects even prime moduli by panic)
			if m.Cmp(bTwo) == 0 {
				m = bi(3)
				ms = "3"
			}
			x := g.opnd(m)
			ro := g.reuse()
			g.emit(fmt.Sprintf("%s %s %s", ro.op("m.modsqrt"), ms, x), func() string {
				out := numct.NewNat(7)
				if ro.on {
					out = ro.nat(m.BitLen())
				}
				if mustModulus(m).ModSqrt(out, x.nat()) != ct.True {
					return "none"
				}
				return "ok:" + out.Big().Text(16)
			})
		default: // IsInRange / IsInRangeSymmetric / IsUnit
			x := g.opnd(m)
			sx := x
			switch g.r.IntN(4) {
			case 0:
				sx = cnat{new(big.Int).Neg(x.v), x.c}
			case 1: // around ±m/2
				h := new(big.Int).Rsh(m, 1)
				h.Add(h, bi(int64(g.r.IntN(3))-1))
				if g.r.IntN(2) == 0 {
					h.Neg(h)
				}
				sx = cnat{h, g.capGE(h)}
			}
			g.emit(fmt.Sprintf("m.range %s %s %s", ms, x, sx), func() string {
				mod := mustModulus(m)
				return b01(mod.IsInRange(x.nat())) + b01(mod.IsInRangeSymmetric(sx.int())) + b01(mod.IsUnit(x.nat()))
			})
		}
	}
}

// c17Modular: modular.SimpleModulus / OddPrimeFactors / OddPrimeSquareFactors (CRT-accelerated) and crt.*
func c17Modular(g *g17, count int) {
	for it := 0; it < count; it++ {
		pb := 8 + g.r.IntN(120)
		if g.r.IntN(10) == 0 {
			pb = 200 + g.r.IntN(320)
		}
		p, q := g.oddPrimeBits(pb), g.oddPrimeBits(max(3, pb-g.r.IntN(6)))
		for p.Cmp(q) == 0 {
			q = g.oddPrimeBits(pb)
		}
		n := new(big.Int).Mul(p, q)
		nn := new(big.Int).Mul(n, n)
		pn, qn := numct.NewNatFromBig(p, p.BitLen()), numct.NewNatFromBig(q, q.BitLen())
		ps, qs := p.Text(16), q.Text(16)
		var arith modular.Arithmetic
		var mod *big.Int
		kind := []string{"simple", "opf", "opsf"}[g.r.IntN(3)]
		switch kind {
		case "simple":
			s, ok := modular.NewSimple(mustModulus(n))
			if ok != ct.True {
				g.c.Violation("NewSimple rejected " + n.Text(16))
				continue
			}
			arith, mod = s, n
		case "opf":
			s, ok := modular.NewOddPrimeFactors(pn, qn)
			if ok != ct.True {
				g.c.Violation("NewOddPrimeFactors rejected primes " + ps + " " + qs)
				continue
			}
			arith, mod = s, n
		default:
			s, ok := modular.NewOddPrimeSquareFactors(pn, qn)
			if ok != ct.True {
				g.c.Violation("NewOddPrimeSquareFactors rejected primes " + ps + " " + qs)
				continue
			}
			arith, mod = s, nn
		}
		if arith.Modulus().Big().Cmp(mod) != 0 {
			g.c.Violation("modular.Modulus() wrong for " + kind + " " + ps + " " + qs)
		}
		operand := func() cnat { // also multiples of p, q
			v := g.residue(mod)
			switch g.r.IntN(8) {
			case 0:
				v = new(big.Int).Mul(p, g.r.BigBelow(q))
			case 1:
				v = new(big.Int).Mul(q, bi(int64(1+g.r.IntN(50))))
			}
			return cnat{v, g.capGE(v)}
		}
		x, y := operand(), operand()
		head := fmt.Sprintf("%s %s %s", kind, ps, qs)
		ro := g.reuse()
		switch g.r.IntN(9) {
		case 0:
			g.emit(fmt.Sprintf("%s %s %s %s", ro.op("ar.modmul"), head, x, y), func() string {
				out := *ro.nat(mod.BitLen())
				arith.ModMul(&out, x.nat(), y.nat())
				g.xc("ar.modmul", out.Big(), new(big.Int).Mod(new(big.Int).Mul(x.val(), y.val()), mod))
				return out.Big().Text(16)
			})
		case 1, 2:
			e := g.natN([]int{8, 64, mod.BitLen() + 4}[g.r.IntN(3)])
			if g.r.IntN(6) == 0 { // multiples of the group order and neighbours
				e = new(big.Int).Mul(new(big.Int).Sub(p, bOne), new(big.Int).Sub(q, bOne))
				e.Add(e, bi(int64(g.r.IntN(3))-1))
			}
			ee := cnat{e, g.capGE(e)}
			g.emit(fmt.Sprintf("%s %s %s %s", ro.op("ar.modexp"), head, x, ee), func() string {
				out := *ro.nat(mod.BitLen())
				arith.ModExp(&out, x.nat(), ee.nat())
				g.xc("ar.modexp", out.Big(), new(big.Int).Exp(x.val(), ee.val(), mod))
				return out.Big().Text(16)
			})
		case 3: // signed exponent; negative only for units
			e := g.intN(96)
			if new(big.Int).GCD(nil, nil, new(big.Int).Mod(x.val(), mod), mod).Cmp(bOne) != 0 {
				e.Abs(e)
			}
			ee := cnat{e, g.capGE(e)}
			g.emit(fmt.Sprintf("%s %s %s %s", ro.op("ar.modexpi"), head, x, ee), func() string {
				out := *ro.nat(mod.BitLen())
				arith.ModExpI(&out, x.nat(), ee.int())
				return out.Big().Text(16)
			})
		case 4, 5:
			g.emit(fmt.Sprintf("%s %s %s", ro.op("ar.modinv"), head, x), func() string {
				out := *ro.nat(mod.BitLen())
				if arith.ModInv(&out, x.nat()) != ct.True {
					return "none"
				}
				return "ok:" + out.Big().Text(16)
			})
		case 6:
			g.emit(fmt.Sprintf("%s %s %s %s", ro.op("ar.moddiv"), head, x, y), func() string {
				out := *ro.nat(mod.BitLen())
				if arith.ModDiv(&out, x.nat(), y.nat()) != ct.True {
					return "none"
				}
				return "ok:" + out.Big().Text(16)
			})
		case 7:
			e := g.natN(128)
			ee := cnat{e, g.capGE(e)}
			g.emit(fmt.Sprintf("%s %s %s,%s %s", ro.op("ar.multiexp"), head, x, y, ee), func() string {
				outs := []*numct.Nat{ro.nat(mod.BitLen()), ro.nat(mod.BitLen())}
				arith.MultiBaseExp(outs, []*numct.Nat{x.nat(), y.nat()}, ee.nat())
				return c17hexList([]*big.Int{outs[0].Big(), outs[1].Big()})
			})
		default: // CRT: Precompute / Recombine / Decompose / multi-factor, and the Paillier helpers
			a, b := g.residue(p), g.residue(q)
			a.Mod(a, p)
			b.Mod(b, q)
			g.emit(fmt.Sprintf("crt.recombine %s %s %s %s", ps, qs, a.Text(16), b.Text(16)), func() string {
				an, bn := numct.NewNatFromBig(a, g.capGE(a)), numct.NewNatFromBig(b, g.capGE(b))
				res, ok := crt.Recombine(an, bn, pn, qn)
				if ok != ct.True {
					return "none"
				}
				prm, ok2 := crt.PrecomputePairExtended(pn, qn)
				if ok2 != ct.True {
					return "none-extended"
				}
				mp, mq := prm.Decompose(mustModulus(res.Big().Add(res.Big(), n))) // residues of res+n
				if mp.Big().Cmp(a) != 0 || mq.Big().Cmp(b) != 0 {
					g.c.Violation(fmt.Sprintf("crt.Decompose(Recombine) != residues p=%s q=%s a=%s b=%s", ps, qs, a.Text(16), b.Text(16)))
				}
				return res.Big().Text(16)
			})
			// three pairwise coprime factors
			r3 := g.oddPrimeBits(7 + g.r.IntN(40))
			if r3.Cmp(p) != 0 && r3.Cmp(q) != 0 {
				c3 := g.r.BigBelow(r3)
				g.emit(fmt.Sprintf("crt.multi %s,%s,%s %s,%s,%s", ps, qs, r3.Text(16), a.Text(16), b.Text(16), c3.Text(16)), func() string {
					prm, ok := crt.PrecomputeMulti(pn, qn, numct.NewNatFromBig(r3, r3.BitLen()))
					if ok != ct.True {
						return "none"
					}
					res, ok := prm.Recombine(numct.NewNatFromBig(a, a.BitLen()), numct.NewNatFromBig(b, b.BitLen()), numct.NewNatFromBig(c3, c3.BitLen()))
					if ok != ct.True {
						return "none-recombine"
					}
					return res.Big().Text(16)
				})
			}
			// non-coprime factors must be refused
			if it%5 == 0 {
				f := bi(int64(3 + 2*g.r.IntN(10)))
				pp, qq := new(big.Int).Mul(p, f), new(big.Int).Mul(q, f)
				g.emit(fmt.Sprintf("crt.precompute %s %s", pp.Text(16), qq.Text(16)), func() string {
					_, ok := crt.Precompute(numct.NewNatFromBig(pp, pp.BitLen()), numct.NewNatFromBig(qq, qq.BitLen()))
					return b01(ok)
				})
				g.emit(fmt.Sprintf("crt.precompute %s %s", ps, qs), func() string {
					_, ok := crt.Precompute(pn, qn)
					return b01(ok)
				})
			}
			if s, ok := modular.NewOddPrimeSquareFactors(pn, qn); ok == ct.True {
				xx := cnat{g.residue(nn), 0}
				xx.c = g.capGE(xx.v)
				g.emit(fmt.Sprintf("%s %s %s %s", ro.op("ar.exptoN"), ps, qs, xx), func() string {
					out := *ro.nat(nn.BitLen())
					s.ExpToN(&out, xx.nat())
					g.xc("ar.exptoN", out.Big(), new(big.Int).Exp(xx.val(), n, nn))
					return out.Big().Text(16)
				})
			}
		}
	}
}
