package main

import (
	"fmt"
	"math/big"

	"github.com/bronlabs/bron-crypto/pkg/base/algebra"
	"github.com/bronlabs/bron-crypto/pkg/base/curves"
	"github.com/bronlabs/bron-crypto/pkg/base/nt/num"
	"github.com/bronlabs/bron-crypto/pkg/base/nt/znstar"
	"github.com/bronlabs/bron-crypto/pkg/commitments/indcpacom"
	"github.com/bronlabs/bron-crypto/pkg/encryption/elgamal"
	"github.com/bronlabs/bron-crypto/pkg/encryption/paillier"
)

// ---- ElGamal-based commitments ----------------------------------------------------------------

func c18ElGamal(c *Ctx) {
	n := 3
	if c.Thorough() {
		n = 20
	}
	c18ElGamalCurve(c, "k256", cK256, n, 1)
	if c.Thorough() {
		c18ElGamalCurve(c, "bls12381g1", cBLSG1, n/2, 2)
	}
}

type (
	egMsg[P elgamal.FiniteCyclicGroupElement[P, S], S algebra.UintLike[S]] = indcpacom.Message[*elgamal.Plaintext[P, S]]
	egWit[S algebra.UintLike[S]]                                            = indcpacom.Witness[*elgamal.Nonce[S]]
	egCom[P elgamal.FiniteCyclicGroupElement[P, S], S algebra.UintLike[S]] = indcpacom.Commitment[*elgamal.Ciphertext[P, S]]
)

func c18EgDom[P curves.Point[P, F, S], F algebra.FiniteFieldElement[F], S algebra.PrimeFieldElement[S]](
	name string, curve curves.Curve[P, F, S], h P, ops *c18Ops,
) *c18Dom {
	sf := curve.ScalarField()
	g := curve.Generator()
	mkM := func(v P) any {
		pt, err := elgamal.NewPlaintext[P, S](v)
		must(err)
		m, err := indcpacom.NewMessage(pt)
		must(err)
		return m
	}
	mkW := func(v S) any {
		nn, err := elgamal.NewNonce(v)
		must(err)
		w, err := indcpacom.NewWitness(nn)
		must(err)
		return w
	}
	mkC := func(c1, c2 P) any {
		ct, err := elgamal.NewCiphertext[P, S](c1, c2)
		must(err)
		cm, err := indcpacom.NewCommitment(ct)
		must(err)
		return cm
	}
	return &c18Dom{
		sch: "eg", par: name, key: pointStr(g) + "," + pointStr(h), ops: ops,
		strM: func(x any) string { return pointStr(x.(*egMsg[P, S]).Value().Value()) },
		strW: func(x any) string { return scalarHex(x.(*egWit[S]).Value().Value()) },
		strC: func(x any) string {
			cs := x.(*egCom[P, S]).Value().Value().Components()
			return pointStr(cs[0]) + "+" + pointStr(cs[1])
		},
		strS: func(x any) string { return scalarHex(x.(S)) },
		genM: func(r *Rng) any { return mkM(g.ScalarOp(c18Scalar(r, sf, 40))) },
		genW: func(r *Rng) any { return mkW(c18Scalar(r, sf, 15)) },
		genS: func(r *Rng) any { return c18Scalar(r, sf, 40) },
		mutM: func(r *Rng, x any, all bool) []any {
			v := x.(*egMsg[P, S]).Value().Value()
			var out []any
			for _, y := range []P{v.Op(g), v.Op(g.OpInv()), v.OpInv(), v.Op(v), curve.OpIdentity(), v.Op(h), g.ScalarOp(c18Scalar(r, sf, 0))} {
				if !y.Equal(v) {
					out = append(out, mkM(y))
				}
			}
			return out
		},
		mutW: func(r *Rng, x any, all bool) []any {
			var out []any
			for _, y := range c18ScalarMuts(sf, x.(*egWit[S]).Value().Value()) {
				out = append(out, mkW(y))
			}
			return c18Sample(r, out, all, 24)
		},
		mutC: func(r *Rng, x any) []any {
			cs := x.(*egCom[P, S]).Value().Value().Components()
			a, b := cs[0], cs[1]
			return []any{mkC(a.Op(g), b), mkC(a, b.Op(g)), mkC(b, a), mkC(a.OpInv(), b), mkC(a, b.OpInv()),
				mkC(curve.OpIdentity(), b), mkC(a, curve.OpIdentity()), mkC(a.Op(a), b.Op(b))}
		},
		emitMut: 1,
	}
}

func c18ElGamalCurve[P curves.Point[P, F, S], F algebra.FiniteFieldElement[F], S algebra.PrimeFieldElement[S]](
	c *Ctx, name string, curve curves.Curve[P, F, S], cases int, stream uint64,
) {
	r := NewRng(c.Seed, 1830+stream)
	sf := curve.ScalarField()
	sk, err := elgamal.SampleSecretKey[P, S](curve, r)
	if err != nil {
		c.Violation("elgamal.SampleSecretKey failed on " + name)
		return
	}
	mkDom := func(h P) *c18Dom {
		pk, err := elgamal.NewPublicKey[P, S](h)
		if err != nil {
			return nil
		}
		ck, err := indcpacom.NewHomomorphicCommitmentKey(pk)
		if err != nil {
			return nil
		}
		return c18EgDom(name, curve, h, c18Adapt(ck))
	}
	h := sk.Public().Value()
	d := mkDom(h)
	if d == nil {
		c.Violation("indcpacom.NewHomomorphicCommitmentKey failed for ElGamal on " + name)
		return
	}
	// the secret key as encryption key ("self-encrypt") must commit identically
	ckSelf, err := indcpacom.NewHomomorphicCommitmentKey(sk)
	if err != nil {
		c.Violation("indcpacom.NewHomomorphicCommitmentKey(secret key) failed on " + name)
		return
	}
	dSelf := c18EgDom(name, curve, h, c18Adapt(ckSelf))
	alts := []*c18Dom{mkDom(h.Op(curve.Generator())), mkDom(h.Op(h)), mkDom(h.OpInv())}

	var pool []c18Triple
	for it := 0; it < cases; it++ {
		m, w := d.genM(r), d.genW(r)
		if it == 0 {
			cm, w2, err := d.ops.commitFresh(m, r)
			if err != nil {
				c.Violation("commitments.Commit failed for ElGamal on " + name)
				continue
			}
			w = w2
			d.openLine(c, c18Triple{cm, m, w}, "fresh", true, true)
		}
		t, ok := d.commitOpen(c, m, w)
		if !ok {
			continue
		}
		dSelf.openLine(c, t, "self-encrypt", false, true)
		if t2, ok := dSelf.commitOpen(c, m, w); ok && !d.ops.eqC(t.cm, t2.cm) {
			c.Violation("ElGamal: commitment under the secret key differs from the one under the public key on " + name)
		}
		pool = append(pool, t)
		d.bindingCase(c, r, t, c.Thorough() || it == 0)
		wZero := w.(*egWit[S]).Value().Value().IsZero()
		if it < 2 || c.Thorough() {
			for _, alt := range alts {
				if alt != nil {
					d.keyCase(c, alt, t, !wZero)
				}
			}
		}
	}
	if len(pool) > 0 {
		steps := 8
		if c.Thorough() {
			steps = 40
		}
		d.homSequence(c, r, pool, steps)
	}
	_ = sf
}

// ---- Paillier-based commitments ---------------------------------------------------------------

type (
	paiMsg = indcpacom.Message[*paillier.Plaintext]
	paiWit = indcpacom.Witness[*paillier.Nonce]
	paiCom = indcpacom.Commitment[*paillier.Ciphertext]
)

func c18PaiDom(N *big.Int, group *znstar.PaillierGroupUnknownOrder, ops *c18Ops) *c18Dom {
	nPlus := c18NatPlus(N)
	mkM := func(v *big.Int) any {
		nat, err := num.N().FromBig(v)
		must(err)
		pt, err := paillier.NewPlaintextFromNat(nat, nPlus)
		must(err)
		m, err := indcpacom.NewMessage(pt)
		must(err)
		return m
	}
	mkW := func(v *big.Int) any {
		nn, err := paillier.NewNonce(group, c18NatPlus(v))
		if err != nil {
			return nil
		}
		w, err := indcpacom.NewWitness(nn)
		must(err)
		return w
	}
	mkC := func(v *big.Int) any {
		ct, err := paillier.NewCiphertext(group, c18NatPlus(v))
		if err != nil {
			return nil
		}
		cm, err := indcpacom.NewCommitment(ct)
		must(err)
		return cm
	}
	valM := func(x any) *big.Int { return x.(*paiMsg).Value().Value().Big() }
	valW := func(x any) *big.Int { return x.(*paiWit).Value().Value().Value().Big() }
	valC := func(x any) *big.Int { return x.(*paiCom).Value().Value().Value().Big() }
	N2 := new(big.Int).Mul(N, N)
	one := big.NewInt(1)
	gen := func(r *Rng, pBoundary int, zeroOK bool) *big.Int {
		if r.IntN(100) < pBoundary {
			switch r.IntN(6) {
			case 0:
				if zeroOK {
					return big.NewInt(0)
				}
				return big.NewInt(1)
			case 1:
				return big.NewInt(1)
			case 2:
				return new(big.Int).Sub(N, one)
			case 3:
				return new(big.Int).Rsh(N, 1)
			case 4:
				return big.NewInt(2)
			default:
				return new(big.Int).Lsh(one, uint(r.IntN(N.BitLen()-1)))
			}
		}
		return new(big.Int).Add(r.BigBelow(new(big.Int).Sub(N, one)), one)
	}
	return &c18Dom{
		sch: "pai", par: "-", key: bigHex(N), ops: ops,
		strM: func(x any) string { return bigHex(valM(x)) },
		strW: func(x any) string { return bigHex(valW(x)) },
		strC: func(x any) string { return bigHex(valC(x)) },
		strS: func(x any) string { return bigHex(x.(*num.Int).Big()) },
		genM: func(r *Rng) any { return mkM(gen(r, 50, true)) },
		genW: func(r *Rng) any { return mkW(gen(r, 30, false)) },
		genS: func(r *Rng) any {
			v := big.NewInt(int64(r.IntN(9) - 4))
			if r.IntN(2) == 0 {
				v = r.BigBelow(new(big.Int).Lsh(one, 96))
				if r.IntN(2) == 0 {
					v.Neg(v)
				}
			}
			return c18Z(v)
		},
		mutM: func(r *Rng, x any, all bool) []any {
			var out []any
			for _, y := range c18BitFlips(valM(x), N.BitLen(), func(y *big.Int) bool { return y.Sign() >= 0 && y.Cmp(N) < 0 }) {
				out = append(out, mkM(y))
			}
			return c18Sample(r, out, all, 10)
		},
		mutW: func(r *Rng, x any, all bool) []any {
			var out []any
			for _, y := range c18BitFlips(valW(x), N.BitLen(), func(y *big.Int) bool { return y.Sign() > 0 && y.Cmp(N) < 0 }) {
				if w := mkW(y); w != nil {
					out = append(out, w)
				}
			}
			return c18Sample(r, out, all, 10)
		},
		mutC: func(r *Rng, x any) []any {
			v := valC(x)
			var out []any
			for _, y := range []*big.Int{
				new(big.Int).Mod(new(big.Int).Mul(v, new(big.Int).Add(N, one)), N2),
				new(big.Int).Mod(new(big.Int).Mul(v, v), N2),
				new(big.Int).ModInverse(v, N2),
				new(big.Int).SetBit(v, 0, v.Bit(0)^1),
				one,
			} {
				if y != nil && y.Sign() > 0 {
					if cm := mkC(y); cm != nil {
						out = append(out, cm)
					}
				}
			}
			return out
		},
		emitMut: 1,
		parse: func(kind, s string) any {
			v := c18Hex(s)
			switch kind {
			case "m":
				return mkM(v)
			case "w":
				return mkW(v)
			}
			return mkC(v)
		},
	}
}

func c18Paillier(c *Ctx) {
	r := NewRng(c.Seed, 1840)
	res := safely(func() string {
		mkKey := func() (*big.Int, *paillier.SecretKey) {
			p, q := c18Prime(r, 1024, false), c18Prime(r, 1024, false)
			g, err := znstar.NewPaillierGroup(c18NatPlus(p), c18NatPlus(q))
			must(err)
			sk, err := paillier.NewLegacySecretKey(g)
			must(err)
			return new(big.Int).Mul(p, q), sk
		}
		N, sk := mkKey()
		ckPub, err := indcpacom.NewHomomorphicCommitmentKey(sk.Public())
		must(err)
		ckSelf, err := indcpacom.NewHomomorphicCommitmentKey(sk)
		must(err)
		d := c18PaiDom(N, sk.Public().Group(), c18Adapt(ckPub))
		dSelf := c18PaiDom(N, sk.Public().Group(), c18Adapt(ckSelf))
		// a second, larger modulus: the same numbers under another key
		var alt *c18Dom
		for i := 0; i < 4 && alt == nil; i++ {
			N2, sk2 := mkKey()
			if N2.Cmp(N) > 0 {
				ck2, err := indcpacom.NewHomomorphicCommitmentKey(sk2.Public())
				must(err)
				alt = c18PaiDom(N2, sk2.Public().Group(), c18Adapt(ck2))
			}
		}
		cases := 2
		if c.Thorough() {
			cases = 10
		}
		var pool []c18Triple
		for it := 0; it < cases; it++ {
			m, w := d.genM(r), d.genW(r)
			if it == 0 {
				cm, w2, err := d.ops.commitFresh(m, r)
				if err != nil {
					c.Violation("commitments.Commit failed for Paillier")
					continue
				}
				w = w2
				d.openLine(c, c18Triple{cm, m, w}, "fresh", true, true)
			}
			t, ok := d.commitOpen(c, m, w)
			if !ok {
				continue
			}
			if t2, ok := dSelf.commitOpen(c, m, w); ok && !d.ops.eqC(t.cm, t2.cm) {
				c.Violation("Paillier: commitment under the secret key differs from the one under the public key")
			}
			pool = append(pool, t)
			d.bindingCase(c, r, t, c.Thorough() && it == 0)
			if alt != nil {
				// rebuild the same numbers under the other key
				m2 := alt.genMFrom(d.strM(m))
				w2 := alt.genWFrom(d.strW(w))
				c2 := alt.genCFrom(d.strC(t.cm))
				if m2 != nil && w2 != nil && c2 != nil {
					alt.mustReject(c, c18Triple{c2, m2, w2}, "key", true)
				}
			}
		}
		if len(pool) > 0 {
			steps := 6
			if c.Thorough() {
				steps = 30
			}
			d.homSequence(c, r, pool, steps)
			dSelf.homSequence(c, r, pool, steps/2)
		}
		return "ok"
	})
	if res != "ok" {
		c.Violation("Paillier stream panicked: " + res)
	}
}

// the Paillier domain can rebuild values from their rendering (used for the other-key case)
func (d *c18Dom) genMFrom(s string) any { return d.fromStr("m", s) }
func (d *c18Dom) genWFrom(s string) any { return d.fromStr("w", s) }
func (d *c18Dom) genCFrom(s string) any { return d.fromStr("c", s) }

func (d *c18Dom) fromStr(kind, s string) any {
	if d.parse == nil {
		return nil
	}
	return d.parse(kind, s)
}

var _ = fmt.Sprintf
