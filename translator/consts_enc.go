package main

// Generator "EncConsts": the integer constants that the point encoders / decoders of /repo hard-code
// (lengths compared against len(input), tag bytes, flag masks, shift amounts, the byte indices they are
// applied to, buffer sizes).  For every listed function the generator evaluates the constant
// sub-expressions (literals, package-level constants of the same or an imported /repo package,
// arithmetic, shifts, conversions such as byte(…)) and files each *maximal* constant expression under
// the role of the operator it feeds:
//
//	lens    constants compared with len(…)
//	cmps    constants other than 0 / 1 compared (==, !=) with a non-constant value    (tag bytes)
//	masks   constant operand of & | &^ and the right-hand side of &= |= &^=
//	shifts  constant right operand of >> <<
//	idx     constant index a[C] and constant slice bounds a[C:], a[:C]
//	vals    constants other than 0 / 1 assigned, returned or passed as they are       (byte(2), byte(0xff))
//	sizes   array lengths [C]T and the size argument of make
//
// Each role is emitted as a sorted list without duplicates, so that reordering statements or writing
// input[FpBytes-1] for input[31] does not change the output, while a changed mask, tag, shift, index or
// length does.  Props/C13.lean proves (`decide`) that the tables equal the constants the encoding model
// of Model/CurveEnc.lean is written with (`enc_constants_match_source`).

import (
	"fmt"
	"go/ast"
	"go/parser"
	"go/token"
	"os"
	"path/filepath"
	"sort"
	"strconv"
	"strings"
)

func init() { register("EncConsts", genEncConsts) }

const ecModule = "github.com/bronlabs/bron-crypto/"

// ecTargets: Lean name → file (relative to the repository) and function name.
var ecTargets = []struct{ name, file, fn string }{
	{"k256_FromCompressed", "pkg/base/curves/k256/curve.go", "FromCompressed"},
	{"k256_FromUncompressed", "pkg/base/curves/k256/curve.go", "FromUncompressed"},
	{"k256_ToCompressed", "pkg/base/curves/k256/curve.go", "ToCompressed"},
	{"k256_ToUncompressed", "pkg/base/curves/k256/curve.go", "ToUncompressed"},
	{"p256_FromCompressed", "pkg/base/curves/p256/curve.go", "FromCompressed"},
	{"p256_FromUncompressed", "pkg/base/curves/p256/curve.go", "FromUncompressed"},
	{"p256_ToCompressed", "pkg/base/curves/p256/curve.go", "ToCompressed"},
	{"p256_ToUncompressed", "pkg/base/curves/p256/curve.go", "ToUncompressed"},
	{"pallas_FromCompressed", "pkg/base/curves/pasta/pallas.go", "FromCompressed"},
	{"pallas_FromUncompressed", "pkg/base/curves/pasta/pallas.go", "FromUncompressed"},
	{"pallas_ToCompressed", "pkg/base/curves/pasta/pallas.go", "ToCompressed"},
	{"pallas_ToUncompressed", "pkg/base/curves/pasta/pallas.go", "ToUncompressed"},
	{"vesta_FromCompressed", "pkg/base/curves/pasta/vesta.go", "FromCompressed"},
	{"vesta_FromUncompressed", "pkg/base/curves/pasta/vesta.go", "FromUncompressed"},
	{"vesta_ToCompressed", "pkg/base/curves/pasta/vesta.go", "ToCompressed"},
	{"vesta_ToUncompressed", "pkg/base/curves/pasta/vesta.go", "ToUncompressed"},
	{"ed25519_FromCompressed", "pkg/base/curves/edwards25519/curve.go", "FromCompressed"},
	{"ed25519_FromUncompressed", "pkg/base/curves/edwards25519/curve.go", "FromUncompressed"},
	{"ed25519_ToCompressed", "pkg/base/curves/edwards25519/curve.go", "ToCompressed"},
	{"ed25519_ToUncompressed", "pkg/base/curves/edwards25519/curve.go", "ToUncompressed"},
	{"ed25519_Fp_SetBytes", "pkg/base/curves/edwards25519/impl/fp.go", "SetBytes"},
	{"curve25519_FromCompressed", "pkg/base/curves/curve25519/curve.go", "FromCompressed"},
	{"curve25519_FromUncompressed", "pkg/base/curves/curve25519/curve.go", "FromUncompressed"},
	{"curve25519_ToCompressed", "pkg/base/curves/curve25519/curve.go", "ToCompressed"},
	{"curve25519_ToUncompressed", "pkg/base/curves/curve25519/curve.go", "ToUncompressed"},
	{"g1_FromCompressed", "pkg/base/curves/pairable/bls12381/g1.go", "FromCompressed"},
	{"g1_FromUncompressed", "pkg/base/curves/pairable/bls12381/g1.go", "FromUncompressed"},
	{"g1_ToCompressed", "pkg/base/curves/pairable/bls12381/g1.go", "ToCompressed"},
	{"g1_ToUncompressed", "pkg/base/curves/pairable/bls12381/g1.go", "ToUncompressed"},
	{"g2_FromCompressed", "pkg/base/curves/pairable/bls12381/g2.go", "FromCompressed"},
	{"g2_FromUncompressed", "pkg/base/curves/pairable/bls12381/g2.go", "FromUncompressed"},
	{"g2_ToCompressed", "pkg/base/curves/pairable/bls12381/g2.go", "ToCompressed"},
	{"g2_ToUncompressed", "pkg/base/curves/pairable/bls12381/g2.go", "ToUncompressed"},
	{"gt_FromBytes", "pkg/base/curves/pairable/bls12381/gt.go", "FromBytes"},
}

// ecPkg: the package-level integer constants of one directory (all non-test files).
type ecPkg struct {
	dir    string
	consts map[string]ast.Expr
	files  map[string]*ast.File // by base name
	fset   *token.FileSet
	// import alias → directory, per file
	imports map[*ast.File]map[string]string
	busy    map[string]bool
}

type ecWorld struct {
	repo string
	pkgs map[string]*ecPkg
}

func (w *ecWorld) load(dir string) (*ecPkg, error) {
	if p, ok := w.pkgs[dir]; ok {
		return p, nil
	}
	p := &ecPkg{dir: dir, consts: map[string]ast.Expr{}, files: map[string]*ast.File{}, fset: token.NewFileSet(),
		imports: map[*ast.File]map[string]string{}, busy: map[string]bool{}}
	w.pkgs[dir] = p
	entries, err := os.ReadDir(dir)
	if err != nil {
		return nil, err
	}
	for _, e := range entries {
		n := e.Name()
		if e.IsDir() || !strings.HasSuffix(n, ".go") || strings.HasSuffix(n, "_test.go") {
			continue
		}
		f, err := parser.ParseFile(p.fset, filepath.Join(dir, n), nil, parser.SkipObjectResolution)
		if err != nil {
			return nil, err
		}
		p.files[n] = f
		imps := map[string]string{}
		for _, im := range f.Imports {
			path, _ := strconv.Unquote(im.Path.Value)
			if !strings.HasPrefix(path, ecModule) {
				continue
			}
			alias := filepath.Base(path)
			if im.Name != nil {
				alias = im.Name.Name
			}
			imps[alias] = filepath.Join(w.repo, strings.TrimPrefix(path, ecModule))
		}
		p.imports[f] = imps
		for _, d := range f.Decls {
			gd, ok := d.(*ast.GenDecl)
			if !ok || gd.Tok != token.CONST {
				continue
			}
			for _, sp := range gd.Specs {
				vs := sp.(*ast.ValueSpec)
				if len(vs.Values) != len(vs.Names) {
					continue // iota continuation lines: not needed by the encoders
				}
				for i, nm := range vs.Names {
					// several build-tagged files may define the same constant; keep the first, they agree
					if _, dup := p.consts[nm.Name]; !dup {
						p.consts[nm.Name] = vs.Values[i]
						p.constFile(nm.Name, f)
					}
				}
			}
		}
	}
	return p, nil
}

var ecConstFiles = map[*ecPkg]map[string]*ast.File{}

func (p *ecPkg) constFile(name string, f *ast.File) {
	if ecConstFiles[p] == nil {
		ecConstFiles[p] = map[string]*ast.File{}
	}
	ecConstFiles[p][name] = f
}

var ecConv = map[string]int64{"byte": 0xff, "uint8": 0xff, "uint16": 0xffff, "uint32": 0xffffffff,
	"int": -1, "int64": -1, "uint": -1, "uint64": -1, "int32": -1}

// eval returns the value of e when e is a constant expression of the supported subset.
func (w *ecWorld) eval(p *ecPkg, f *ast.File, e ast.Expr, locals map[string]bool) (int64, bool) {
	switch v := e.(type) {
	case *ast.BasicLit:
		if v.Kind != token.INT {
			return 0, false
		}
		n, err := strconv.ParseInt(strings.ReplaceAll(v.Value, "_", ""), 0, 64)
		return n, err == nil
	case *ast.ParenExpr:
		return w.eval(p, f, v.X, locals)
	case *ast.Ident:
		if locals[v.Name] {
			return 0, false
		}
		ce, ok := p.consts[v.Name]
		if !ok || p.busy[v.Name] {
			return 0, false
		}
		p.busy[v.Name] = true
		defer delete(p.busy, v.Name)
		return w.eval(p, ecConstFiles[p][v.Name], ce, nil)
	case *ast.SelectorExpr:
		id, ok := v.X.(*ast.Ident)
		if !ok || locals[id.Name] {
			return 0, false
		}
		dir, ok := p.imports[f][id.Name]
		if !ok {
			return 0, false
		}
		q, err := w.load(dir)
		if err != nil {
			return 0, false
		}
		return w.eval(q, nil, &ast.Ident{Name: v.Sel.Name}, nil)
	case *ast.UnaryExpr:
		x, ok := w.eval(p, f, v.X, locals)
		if !ok {
			return 0, false
		}
		switch v.Op {
		case token.SUB:
			return -x, true
		case token.ADD:
			return x, true
		}
		return 0, false
	case *ast.CallExpr:
		if len(v.Args) != 1 {
			return 0, false
		}
		name := ""
		switch fn := v.Fun.(type) {
		case *ast.Ident:
			name = fn.Name
		case *ast.SelectorExpr: // ct.Bool(1), ct.Choice(0): integer types of /repo
			if id, ok := fn.X.(*ast.Ident); ok && id.Name == "ct" && (fn.Sel.Name == "Bool" || fn.Sel.Name == "Choice") {
				name = "uint64"
			}
		}
		mask, ok := ecConv[name]
		if !ok || locals[name] {
			return 0, false
		}
		x, ok := w.eval(p, f, v.Args[0], locals)
		if !ok {
			return 0, false
		}
		if mask >= 0 {
			x &= mask
		}
		return x, true
	case *ast.BinaryExpr:
		a, ok := w.eval(p, f, v.X, locals)
		if !ok {
			return 0, false
		}
		b, ok := w.eval(p, f, v.Y, locals)
		if !ok {
			return 0, false
		}
		switch v.Op {
		case token.ADD:
			return a + b, true
		case token.SUB:
			return a - b, true
		case token.MUL:
			return a * b, true
		case token.QUO:
			if b == 0 {
				return 0, false
			}
			return a / b, true
		case token.REM:
			if b == 0 {
				return 0, false
			}
			return a % b, true
		case token.SHL:
			if b < 0 || b > 62 {
				return 0, false
			}
			return a << uint(b), true
		case token.SHR:
			if b < 0 || b > 63 {
				return 0, false
			}
			return a >> uint(b), true
		case token.AND:
			return a & b, true
		case token.OR:
			return a | b, true
		case token.XOR:
			return a ^ b, true
		case token.AND_NOT:
			return a &^ b, true
		}
	}
	return 0, false
}

type ecFacts struct{ roles map[string]map[int64]bool }

var ecRoles = []string{"lens", "cmps", "masks", "shifts", "idx", "vals", "sizes"}

func (fa *ecFacts) add(role string, v int64) {
	if fa.roles[role] == nil {
		fa.roles[role] = map[int64]bool{}
	}
	fa.roles[role][v] = true
}

func ecIsLenCall(e ast.Expr) bool {
	for {
		pe, ok := e.(*ast.ParenExpr)
		if !ok {
			break
		}
		e = pe.X
	}
	c, ok := e.(*ast.CallExpr)
	if !ok {
		return false
	}
	if id, ok := c.Fun.(*ast.Ident); ok && id.Name == "len" {
		return true
	}
	// int(len(x)) and similar conversions
	if id, ok := c.Fun.(*ast.Ident); ok && len(c.Args) == 1 {
		if _, conv := ecConv[id.Name]; conv {
			return ecIsLenCall(c.Args[0])
		}
	}
	return false
}

// ecLocals: every name declared inside the function (parameters, :=, var, range, closures); such a name
// shadows a package-level constant.
func ecLocals(fd *ast.FuncDecl) map[string]bool {
	loc := map[string]bool{}
	addFields := func(fl *ast.FieldList) {
		if fl == nil {
			return
		}
		for _, f := range fl.List {
			for _, n := range f.Names {
				loc[n.Name] = true
			}
		}
	}
	addFields(fd.Recv)
	addFields(fd.Type.Params)
	addFields(fd.Type.Results)
	ast.Inspect(fd.Body, func(n ast.Node) bool {
		switch v := n.(type) {
		case *ast.AssignStmt:
			if v.Tok == token.DEFINE {
				for _, l := range v.Lhs {
					if id, ok := l.(*ast.Ident); ok {
						loc[id.Name] = true
					}
				}
			}
		case *ast.ValueSpec:
			for _, nm := range v.Names {
				loc[nm.Name] = true
			}
		case *ast.RangeStmt:
			for _, l := range []ast.Expr{v.Key, v.Value} {
				if id, ok := l.(*ast.Ident); ok {
					loc[id.Name] = true
				}
			}
		case *ast.FuncLit:
			addFields(v.Type.Params)
			addFields(v.Type.Results)
		}
		return true
	})
	return loc
}

func (w *ecWorld) facts(p *ecPkg, f *ast.File, fd *ast.FuncDecl) (*ecFacts, error) {
	fa := &ecFacts{roles: map[string]map[int64]bool{}}
	locals := ecLocals(fd)
	for name := range locals {
		if _, clash := p.consts[name]; clash {
			// a local shadowing a package constant is legal Go but would make the evaluation ambiguous here
			_ = clash
		}
	}
	ev := func(e ast.Expr) (int64, bool) {
		if e == nil {
			return 0, false
		}
		return w.eval(p, f, e, locals)
	}
	var visit func(n ast.Node, role string)
	// expr files a maximal constant expression under role; otherwise descends
	expr := func(e ast.Expr, role string) {
		if e == nil {
			return
		}
		if v, ok := ev(e); ok {
			if role == "vals" && (v == 0 || v == 1) {
				return
			}
			if role == "cmps" && (v == 0 || v == 1) {
				return
			}
			if role != "" {
				fa.add(role, v)
			}
			return
		}
		visit(e, role)
	}
	visit = func(n ast.Node, role string) {
		switch v := n.(type) {
		case nil:
			return
		case *ast.BinaryExpr:
			switch v.Op {
			case token.EQL, token.NEQ, token.LSS, token.LEQ, token.GTR, token.GEQ:
				r := "cmps"
				if ecIsLenCall(v.X) || ecIsLenCall(v.Y) {
					r = "lens"
				}
				expr(v.X, r)
				expr(v.Y, r)
			case token.AND, token.OR, token.AND_NOT, token.XOR:
				expr(v.X, "masks")
				expr(v.Y, "masks")
			case token.SHL, token.SHR:
				expr(v.X, "vals")
				expr(v.Y, "shifts")
			case token.LAND, token.LOR:
				expr(v.X, "")
				expr(v.Y, "")
			default: // arithmetic on non-constant values: constants in it are plain values
				expr(v.X, "vals")
				expr(v.Y, "vals")
			}
		case *ast.ParenExpr:
			expr(v.X, role)
		case *ast.UnaryExpr:
			expr(v.X, role)
		case *ast.StarExpr:
			expr(v.X, role)
		case *ast.IndexExpr:
			expr(v.X, "")
			expr(v.Index, "idx")
		case *ast.SliceExpr:
			expr(v.X, "")
			expr(v.Low, "idx")
			expr(v.High, "idx")
			expr(v.Max, "idx")
		case *ast.CallExpr:
			if id, ok := v.Fun.(*ast.Ident); ok {
				if _, conv := ecConv[id.Name]; conv && len(v.Args) == 1 && !locals[id.Name] {
					expr(v.Args[0], role) // a conversion keeps the role of its context
					return
				}
				if id.Name == "make" && !locals["make"] {
					for _, a := range v.Args[1:] {
						expr(a, "sizes")
					}
					visit(v.Args[0], "")
					return
				}
			}
			if sel, ok := v.Fun.(*ast.SelectorExpr); ok {
				if id, ok := sel.X.(*ast.Ident); ok && id.Name == "ct" && (sel.Sel.Name == "Bool" || sel.Sel.Name == "Choice") && len(v.Args) == 1 {
					expr(v.Args[0], role)
					return
				}
			}
			visit(v.Fun, "")
			for _, a := range v.Args {
				expr(a, "vals")
			}
		case *ast.SelectorExpr:
			expr(v.X, "")
		case *ast.ArrayType:
			expr(v.Len, "sizes")
			visit(v.Elt, "")
		case *ast.CompositeLit:
			visit(v.Type, "")
			for _, el := range v.Elts {
				expr(el, "vals")
			}
		case *ast.KeyValueExpr:
			expr(v.Value, "vals")
		case *ast.FuncLit:
			visit(v.Body, "")
		case *ast.TypeAssertExpr:
			expr(v.X, "")
		case *ast.Ident, *ast.BasicLit:
			return
		// statements
		case *ast.BlockStmt:
			for _, s := range v.List {
				visit(s, "")
			}
		case *ast.ExprStmt:
			expr(v.X, "")
		case *ast.AssignStmt:
			r := "vals"
			switch v.Tok {
			case token.AND_ASSIGN, token.OR_ASSIGN, token.AND_NOT_ASSIGN, token.XOR_ASSIGN:
				r = "masks"
			case token.SHL_ASSIGN, token.SHR_ASSIGN:
				r = "shifts"
			}
			for _, l := range v.Lhs {
				expr(l, "")
			}
			for _, x := range v.Rhs {
				expr(x, r)
			}
		case *ast.DeclStmt:
			gd, ok := v.Decl.(*ast.GenDecl)
			if !ok {
				return
			}
			for _, sp := range gd.Specs {
				if vs, ok := sp.(*ast.ValueSpec); ok {
					if vs.Type != nil {
						visit(vs.Type, "")
					}
					for _, x := range vs.Values {
						expr(x, "vals")
					}
				}
			}
		case *ast.IfStmt:
			visit(v.Init, "")
			expr(v.Cond, "")
			visit(v.Body, "")
			visit(v.Else, "")
		case *ast.ForStmt:
			visit(v.Init, "")
			expr(v.Cond, "")
			visit(v.Post, "")
			visit(v.Body, "")
		case *ast.RangeStmt:
			expr(v.X, "")
			visit(v.Body, "")
		case *ast.ReturnStmt:
			for _, x := range v.Results {
				expr(x, "vals")
			}
		case *ast.IncDecStmt:
			expr(v.X, "")
		case *ast.SwitchStmt:
			visit(v.Init, "")
			expr(v.Tag, "cmps")
			visit(v.Body, "")
		case *ast.CaseClause:
			for _, x := range v.List {
				expr(x, "cmps")
			}
			for _, s := range v.Body {
				visit(s, "")
			}
		case *ast.BranchStmt, *ast.EmptyStmt:
			return
		case *ast.MapType, *ast.ChanType, *ast.FuncType, *ast.StructType, *ast.InterfaceType, *ast.IndexListExpr, *ast.Ellipsis:
			return
		default:
			panic(fmt.Sprintf("unsupported syntax %T", n))
		}
	}
	var err error
	func() {
		defer func() {
			if r := recover(); r != nil {
				err = fmt.Errorf("%v", r)
			}
		}()
		visit(fd.Body, "")
	}()
	return fa, err
}

func genEncConsts(repo string) (string, error) {
	w := &ecWorld{repo: repo, pkgs: map[string]*ecPkg{}}
	var out strings.Builder
	out.WriteString("namespace BronVerif.Gen.EncConsts\n\n")
	out.WriteString("/-- the constants of one encoder / decoder, by role (each list sorted, without duplicates) -/\n")
	out.WriteString("structure Facts where\n")
	for _, r := range ecRoles {
		fmt.Fprintf(&out, "  %s : List Nat\n", r)
	}
	out.WriteString("  deriving DecidableEq, Repr\n\n")
	var names []string
	for _, t := range ecTargets {
		path := filepath.Join(repo, t.file)
		p, err := w.load(filepath.Dir(path))
		if err != nil {
			return "", err
		}
		f := p.files[filepath.Base(path)]
		if f == nil {
			return "", fmt.Errorf("%s: file not found", t.file)
		}
		var fd *ast.FuncDecl
		for _, d := range f.Decls {
			if x, ok := d.(*ast.FuncDecl); ok && x.Name.Name == t.fn && x.Body != nil {
				if fd != nil {
					return "", fmt.Errorf("%s: more than one function %s", t.file, t.fn)
				}
				fd = x
			}
		}
		if fd == nil {
			return "", fmt.Errorf("%s: function %s not found", t.file, t.fn)
		}
		fa, err := w.facts(p, f, fd)
		if err != nil {
			return "", fmt.Errorf("%s: %s: %w", t.file, t.fn, err)
		}
		fmt.Fprintf(&out, "/-- %s, func %s -/\ndef %s : Facts where\n", t.file, t.fn, t.name)
		for _, r := range ecRoles {
			var vs []int64
			for v := range fa.roles[r] {
				if v < 0 {
					return "", fmt.Errorf("%s: %s: negative constant %d in role %s", t.file, t.fn, v, r)
				}
				vs = append(vs, v)
			}
			sort.Slice(vs, func(i, j int) bool { return vs[i] < vs[j] })
			ss := make([]string, len(vs))
			for i, v := range vs {
				ss[i] = strconv.FormatInt(v, 10)
			}
			fmt.Fprintf(&out, "  %s := [%s]\n", r, strings.Join(ss, ", "))
		}
		out.WriteString("\n")
		names = append(names, t.name)
	}
	// field sizes the decoders refer to by name
	sizes := []struct{ name, dir, c string }{
		{"k256_FpBytes", "pkg/base/curves/k256/impl", "FpBytes"},
		{"p256_FpBytes", "pkg/base/curves/p256/impl", "FpBytes"},
		{"pasta_FpBytes", "pkg/base/curves/pasta/impl", "FpBytes"},
		{"pasta_FqBytes", "pkg/base/curves/pasta/impl", "FqBytes"},
		{"ed25519_FpBytes", "pkg/base/curves/edwards25519/impl", "FpBytes"},
		{"bls12381_FpBytes", "pkg/base/curves/pairable/bls12381/impl", "FpBytes"},
	}
	for _, s := range sizes {
		p, err := w.load(filepath.Join(repo, s.dir))
		if err != nil {
			return "", err
		}
		v, ok := w.eval(p, nil, &ast.Ident{Name: s.c}, nil)
		if !ok || v < 0 {
			return "", fmt.Errorf("%s: constant %s not evaluable", s.dir, s.c)
		}
		fmt.Fprintf(&out, "def %s : Nat := %d\n", s.name, v)
	}
	fmt.Fprintf(&out, "\ndef functions : List String := [%s]\n", strings.Join(func() []string {
		xs := make([]string, len(names))
		for i, n := range names {
			xs[i] = leanString(n)
		}
		return xs
	}(), ", "))
	out.WriteString("\nend BronVerif.Gen.EncConsts\n")
	return out.String(), nil
}
