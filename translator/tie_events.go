package main

// Shared helpers of the "tie" generators (SessionFacts, CommitFacts, RedistributeFacts, VssVerifyFacts,
// PaillierFacts): constants and the EVENT LIST of a function.
//
// Purely syntactic (go/parser + go/ast; /repo is never built).  The event list of a function is its
// body in source order, one string per statement, in a normal form that ignores layout, comments and
// the wording of error messages:
//
//   * a simple statement (assignment, call, declaration, ++/--) is printed as written, white space
//     normalised; every `.WithMessage(…)` decoration of an error value is dropped with its arguments;
//   * `if [init;] cond { return …, <non-nil error> }` (no else) is a GUARD and printed on one line
//       guard [init; ]cond => <returned expressions>
//     so the presence, order, condition and blame tag (`.WithTag(base.IdentifiableAbortPartyIDTag, id)`)
//     of every check are part of the list;
//   * any other `if` is printed as `if [init; ]cond {`, its body, `}` and, if present, `else {` … `}`;
//   * loops are printed as `for <header> {` … `}`; `switch` as `switch <header> {`, `case <exprs>:` …;
//   * `return <exprs>`, `continue`, `break`, `defer <call>`, `go <call>`.
//
// Local names are NOT renamed (the expectations in Props/*Facts.lean name the variables the doc
// comments talk about); a harmless rename therefore breaks the obligation like any other rewrite and
// the expectation is re-read against the model and updated by hand.

import (
	"bytes"
	"fmt"
	"go/ast"
	"go/parser"
	"go/printer"
	"go/token"
	"path/filepath"
	"strconv"
	"strings"
)

// tieStripMsg removes `.WithMessage(…)` links from a method chain.
func tieStripMsg(e ast.Expr) ast.Expr {
	c, ok := e.(*ast.CallExpr)
	if !ok {
		return e
	}
	sel, ok := c.Fun.(*ast.SelectorExpr)
	if !ok {
		return e
	}
	if sel.Sel.Name == "WithMessage" {
		return tieStripMsg(sel.X)
	}
	inner := tieStripMsg(sel.X)
	if inner == sel.X {
		return e
	}
	cp := *c
	cp.Fun = &ast.SelectorExpr{X: inner, Sel: sel.Sel}
	return &cp
}

func tiePrint(fset *token.FileSet, n ast.Node) string {
	if n == nil {
		return ""
	}
	if e, ok := n.(ast.Expr); ok {
		n = tieStripMsg(e)
	}
	var b bytes.Buffer
	_ = printer.Fprint(&b, fset, n)
	// method chains broken over several lines print as `x. WithTag(…)`
	return strings.ReplaceAll(strings.Join(strings.Fields(b.String()), " "), "). ", ").")
}

func tiePrintExprs(fset *token.FileSet, es []ast.Expr) string {
	out := make([]string, len(es))
	for i, e := range es {
		out[i] = tiePrint(fset, e)
	}
	return strings.Join(out, ", ")
}

type tieWalker struct {
	fset *token.FileSet
	ev   []string
}

func (w *tieWalker) emit(s string) { w.ev = append(w.ev, s) }

// errorReturn reports whether the statement list is exactly one `return …, <non-nil last result>`.
func tieErrorReturn(list []ast.Stmt) (*ast.ReturnStmt, bool) {
	if len(list) != 1 {
		return nil, false
	}
	r, ok := list[0].(*ast.ReturnStmt)
	if !ok || len(r.Results) == 0 {
		return nil, false
	}
	if id, ok := r.Results[len(r.Results)-1].(*ast.Ident); ok && (id.Name == "nil" || id.Name == "true" || id.Name == "false") {
		return nil, false
	}
	return r, true
}

func (w *tieWalker) simple(s ast.Stmt) string {
	switch x := s.(type) {
	case nil:
		return ""
	case *ast.ExprStmt:
		return tiePrint(w.fset, x.X)
	case *ast.AssignStmt:
		return tiePrintExprs(w.fset, x.Lhs) + " " + x.Tok.String() + " " + tiePrintExprs(w.fset, x.Rhs)
	default:
		return tiePrint(w.fset, s)
	}
}

func (w *tieWalker) block(list []ast.Stmt) {
	for _, s := range list {
		w.stmt(s)
	}
}

func (w *tieWalker) stmt(s ast.Stmt) {
	switch x := s.(type) {
	case *ast.BlockStmt:
		w.emit("{")
		w.block(x.List)
		w.emit("}")
	case *ast.LabeledStmt:
		w.emit(x.Label.Name + ":")
		w.stmt(x.Stmt)
	case *ast.IfStmt:
		head := ""
		if x.Init != nil {
			head = w.simple(x.Init) + "; "
		}
		head += tiePrint(w.fset, x.Cond)
		if r, ok := tieErrorReturn(x.Body.List); ok && x.Else == nil {
			w.emit("guard " + head + " => " + tiePrintExprs(w.fset, r.Results))
			return
		}
		w.emit("if " + head + " {")
		w.block(x.Body.List)
		w.emit("}")
		switch el := x.Else.(type) {
		case nil:
		case *ast.BlockStmt:
			w.emit("else {")
			w.block(el.List)
			w.emit("}")
		default:
			w.emit("else {")
			w.stmt(el)
			w.emit("}")
		}
	case *ast.ForStmt:
		if x.Init == nil && x.Cond == nil && x.Post == nil {
			w.emit("for {")
		} else {
			w.emit("for " + w.simple(x.Init) + "; " + tiePrint(w.fset, x.Cond) + "; " + w.simple(x.Post) + " {")
		}
		w.block(x.Body.List)
		w.emit("}")
	case *ast.RangeStmt:
		head := "for "
		if x.Key != nil {
			head += tiePrint(w.fset, x.Key)
			if x.Value != nil {
				head += ", " + tiePrint(w.fset, x.Value)
			}
			head += " " + x.Tok.String() + " "
		}
		w.emit(head + "range " + tiePrint(w.fset, x.X) + " {")
		w.block(x.Body.List)
		w.emit("}")
	case *ast.SwitchStmt:
		head := "switch "
		if x.Init != nil {
			head += w.simple(x.Init) + "; "
		}
		w.emit(head + tiePrint(w.fset, x.Tag) + " {")
		w.clauses(x.Body)
		w.emit("}")
	case *ast.TypeSwitchStmt:
		head := "switch "
		if x.Init != nil {
			head += w.simple(x.Init) + "; "
		}
		w.emit(head + w.simple(x.Assign) + " {")
		w.clauses(x.Body)
		w.emit("}")
	case *ast.ReturnStmt:
		if len(x.Results) == 0 {
			w.emit("return")
		} else {
			w.emit("return " + tiePrintExprs(w.fset, x.Results))
		}
	case *ast.DeferStmt:
		w.emit("defer " + tiePrint(w.fset, x.Call))
	case *ast.GoStmt:
		w.emit("go " + tiePrint(w.fset, x.Call))
	case *ast.EmptyStmt:
	default:
		w.emit(w.simple(s))
	}
}

func (w *tieWalker) clauses(b *ast.BlockStmt) {
	for _, c := range b.List {
		cc, ok := c.(*ast.CaseClause)
		if !ok {
			w.emit(tiePrint(w.fset, c))
			continue
		}
		if cc.List == nil {
			w.emit("default:")
		} else {
			w.emit("case " + tiePrintExprs(w.fset, cc.List) + ":")
		}
		w.block(cc.Body)
	}
}

// tieFiles parses files of /repo on demand.
type tieFiles struct {
	repo  string
	fset  *token.FileSet
	files map[string]*ast.File
}

func newTieFiles(repo string) *tieFiles {
	return &tieFiles{repo: repo, fset: token.NewFileSet(), files: map[string]*ast.File{}}
}

func (t *tieFiles) file(rel string) (*ast.File, error) {
	if f, ok := t.files[rel]; ok {
		return f, nil
	}
	f, err := parser.ParseFile(t.fset, filepath.Join(t.repo, rel), nil, parser.SkipObjectResolution)
	if err != nil {
		return nil, err
	}
	t.files[rel] = f
	return f, nil
}

// events returns the event list of function `name` with receiver base type `recv` ("" = plain function).
func (t *tieFiles) events(rel, recv, name string) ([]string, error) {
	f, err := t.file(rel)
	if err != nil {
		return nil, err
	}
	var found *ast.FuncDecl
	for _, d := range f.Decls {
		fd, ok := d.(*ast.FuncDecl)
		if !ok || fd.Name.Name != name || sfRecv(fd) != recv {
			continue
		}
		if found != nil {
			return nil, fmt.Errorf("%s: two declarations of %s", rel, name)
		}
		found = fd
	}
	if found == nil || found.Body == nil {
		return nil, fmt.Errorf("%s: function %s (receiver %q) not found (moved or renamed?)", rel, name, recv)
	}
	w := &tieWalker{fset: t.fset}
	w.block(found.Body.List)
	return w.ev, nil
}

// stringConsts returns every package-level constant of the file whose value is a string literal
// (typed or untyped), in declaration order, and every constant whose value is an integer literal.
func (t *tieFiles) consts(rel string) (strs [][2]string, ints [][2]string, err error) {
	f, err := t.file(rel)
	if err != nil {
		return nil, nil, err
	}
	for _, d := range f.Decls {
		gd, ok := d.(*ast.GenDecl)
		if !ok || gd.Tok != token.CONST {
			continue
		}
		for _, sp := range gd.Specs {
			vs := sp.(*ast.ValueSpec)
			for i, n := range vs.Names {
				if i >= len(vs.Values) {
					continue
				}
				lit, ok := vs.Values[i].(*ast.BasicLit)
				if !ok {
					// a computed constant: keep its source text (e.g. `base.CollisionResistanceBytesCeil`)
					ints = append(ints, [2]string{n.Name, tiePrint(t.fset, vs.Values[i])})
					continue
				}
				switch lit.Kind {
				case token.STRING:
					s, uerr := strconv.Unquote(lit.Value)
					if uerr != nil {
						return nil, nil, uerr
					}
					strs = append(strs, [2]string{n.Name, s})
				default:
					ints = append(ints, [2]string{n.Name, lit.Value})
				}
			}
		}
	}
	return strs, ints, nil
}

// packageVar returns the initialiser expression of a package-level `var name = …`.
func (t *tieFiles) packageVar(rel, name string) (ast.Expr, error) {
	f, err := t.file(rel)
	if err != nil {
		return nil, err
	}
	for _, d := range f.Decls {
		gd, ok := d.(*ast.GenDecl)
		if !ok || gd.Tok != token.VAR {
			continue
		}
		for _, sp := range gd.Specs {
			vs := sp.(*ast.ValueSpec)
			for i, n := range vs.Names {
				if n.Name == name && i < len(vs.Values) {
					return vs.Values[i], nil
				}
			}
		}
	}
	return nil, fmt.Errorf("%s: package variable %s not found", rel, name)
}

func tiePairs(name, doc string, ps [][2]string) string {
	var b strings.Builder
	fmt.Fprintf(&b, "/-- %s -/\ndef %s : List (String × String) := [", doc, name)
	for i, p := range ps {
		if i > 0 {
			b.WriteString(",")
		}
		fmt.Fprintf(&b, "\n  (%s, %s)", leanString(p[0]), leanString(p[1]))
	}
	b.WriteString("]\n\n")
	return b.String()
}

func tieList(name, doc string, xs []string) string {
	var b strings.Builder
	fmt.Fprintf(&b, "/-- %s -/\ndef %s : List String := [", doc, name)
	for i, x := range xs {
		if i > 0 {
			b.WriteString(",")
		}
		fmt.Fprintf(&b, "\n  %s", leanString(x))
	}
	b.WriteString("]\n\n")
	return b.String()
}

type tieTarget struct {
	file, recv, name, lean string
}

// tieModule renders a module with the event lists of the targets (after `pre`).
func tieModule(repo, module, intro, pre string, t *tieFiles, targets []tieTarget) (string, error) {
	var b strings.Builder
	fmt.Fprintf(&b, "/-! %s  See translator/tie_events.go for the normal form. -/\nnamespace BronVerif.Gen.%s\n\n", intro, module)
	b.WriteString(pre)
	var names []string
	for _, tg := range targets {
		ev, err := t.events(tg.file, tg.recv, tg.name)
		if err != nil {
			return "", err
		}
		fn := tg.name
		if tg.recv != "" {
			fn = tg.recv + "." + tg.name
		}
		b.WriteString(tieList(tg.lean, fmt.Sprintf("`%s` of %s", fn, tg.file), ev))
		names = append(names, tg.lean)
	}
	fmt.Fprintf(&b, "/-- the extracted functions, in order -/\ndef functions : List String := [%s]\n\n", strings.Join(func() []string {
		q := make([]string, len(names))
		for i, n := range names {
			q[i] = leanString(n)
		}
		return q
	}(), ", "))
	fmt.Fprintf(&b, "end BronVerif.Gen.%s\n", module)
	return b.String(), nil
}
