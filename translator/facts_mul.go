package main

// Generator "MulFacts" (property C14, "scalar and multi-scalar multiplication … for every scalar,
// every vector length").
//
// Purely syntactic (go/parser + go/ast + go/printer; /repo is never built).  The windowed ladder
// `ScalarMulLowLevel` and the Pippenger bucket method `MultiScalarMulLowLevel` of
// pkg/base/algebra/impl/mul.go are loops with table lookups, outside the straight-line subset of
// formulas.go.  Their hand-written Lean model is `Model/Window.lean`; this generator emits the
// STRUCTURE of the two Go functions so that `Props/C14.msm_structure_matches_model` (a `decide` over
// the whole table) ties the model's constants and loop shapes to the source:
//
//   * every statement of the function body, in order, compound statements flattened
//     (`if c {` … `}`, `for i; c; p {` … `}`, `x := func(…) T {` … `}`), printed by go/printer with
//     whitespace collapsed;
//   * locally declared identifiers (type parameters, parameters, `:=`/`var`/range variables, closure
//     parameters) are renamed v0, v1, … in order of declaration, so that renaming a variable does not
//     change the table; method names, package-qualified names and builtins are kept;
//   * integer literals are printed in decimal (`0b1111` → `15`).
//
// Anything the flattener does not know (switch, select, goto, labels, defer, go) makes the generator
// fail loudly.

import (
	"bytes"
	"fmt"
	"go/ast"
	"go/parser"
	"go/printer"
	"go/token"
	"path/filepath"
	"strconv"
	"strings"
)

func init() { register("MulFacts", genMulFacts) }

const mulFile = "pkg/base/algebra/impl/mul.go"

type mulNorm struct {
	fset  *token.FileSet
	names map[*ast.Object]string
}

// declare assigns the next canonical name to a locally declared identifier.
func (m *mulNorm) declare(id *ast.Ident) {
	if id == nil || id.Name == "_" || id.Obj == nil {
		return
	}
	if _, ok := m.names[id.Obj]; !ok {
		m.names[id.Obj] = fmt.Sprintf("v%d", len(m.names))
	}
}

func (m *mulNorm) declareFields(fl *ast.FieldList) {
	if fl == nil {
		return
	}
	for _, f := range fl.List {
		for _, n := range f.Names {
			m.declare(n)
		}
	}
}

// collect walks the function in source order and names every local declaration.
func (m *mulNorm) collect(fd *ast.FuncDecl) {
	m.declareFields(fd.Type.TypeParams)
	m.declareFields(fd.Type.Params)
	m.declareFields(fd.Type.Results)
	ast.Inspect(fd.Body, func(n ast.Node) bool {
		switch x := n.(type) {
		case *ast.AssignStmt:
			if x.Tok == token.DEFINE {
				for _, l := range x.Lhs {
					if id, ok := l.(*ast.Ident); ok {
						m.declare(id)
					}
				}
			}
		case *ast.ValueSpec:
			for _, id := range x.Names {
				m.declare(id)
			}
		case *ast.RangeStmt:
			if x.Tok == token.DEFINE {
				if id, ok := x.Key.(*ast.Ident); ok {
					m.declare(id)
				}
				if id, ok := x.Value.(*ast.Ident); ok {
					m.declare(id)
				}
			}
		case *ast.FuncLit:
			m.declareFields(x.Type.Params)
			m.declareFields(x.Type.Results)
		}
		return true
	})
}

// rename rewrites every use of a named local and normalises integer literals.
func (m *mulNorm) rename(fd *ast.FuncDecl) error {
	var err error
	ast.Inspect(fd, func(n ast.Node) bool {
		switch x := n.(type) {
		case *ast.Ident:
			if x.Obj != nil {
				if nn, ok := m.names[x.Obj]; ok {
					x.Name = nn
				}
			}
		case *ast.BasicLit:
			if x.Kind == token.INT {
				v, e := strconv.ParseInt(strings.ReplaceAll(x.Value, "_", ""), 0, 64)
				if e != nil {
					err = fmt.Errorf("integer literal %q: %v", x.Value, e)
					return false
				}
				x.Value = strconv.FormatInt(v, 10)
			}
		}
		return true
	})
	return err
}

func (m *mulNorm) src(n ast.Node) string {
	var b bytes.Buffer
	if err := printer.Fprint(&b, m.fset, n); err != nil {
		return "?print-error?"
	}
	// collapse the layout of the source (line breaks inside parameter lists / calls)
	t := strings.Join(strings.Fields(b.String()), " ")
	t = strings.ReplaceAll(t, "( ", "(")
	t = strings.ReplaceAll(t, ", )", ")")
	return t
}

func (m *mulNorm) stmtSrc(s ast.Stmt) string {
	if s == nil {
		return ""
	}
	return m.src(s)
}

func (m *mulNorm) flatBlock(b *ast.BlockStmt, out *[]string) error {
	for _, s := range b.List {
		if err := m.flat(s, out); err != nil {
			return err
		}
	}
	return nil
}

func (m *mulNorm) flat(s ast.Stmt, out *[]string) error {
	switch x := s.(type) {
	case *ast.BlockStmt:
		*out = append(*out, "{")
		if err := m.flatBlock(x, out); err != nil {
			return err
		}
		*out = append(*out, "}")
	case *ast.IfStmt:
		h := "if "
		if x.Init != nil {
			h += m.stmtSrc(x.Init) + "; "
		}
		*out = append(*out, h+m.src(x.Cond)+" {")
		if err := m.flatBlock(x.Body, out); err != nil {
			return err
		}
		switch e := x.Else.(type) {
		case nil:
			*out = append(*out, "}")
		case *ast.BlockStmt:
			*out = append(*out, "} else {")
			if err := m.flatBlock(e, out); err != nil {
				return err
			}
			*out = append(*out, "}")
		case *ast.IfStmt:
			*out = append(*out, "} else")
			if err := m.flat(e, out); err != nil {
				return err
			}
		default:
			return fmt.Errorf("%s: unsupported else branch", m.fset.Position(x.Pos()))
		}
	case *ast.ForStmt:
		cond := ""
		if x.Cond != nil {
			cond = m.src(x.Cond)
		}
		*out = append(*out, "for "+m.stmtSrc(x.Init)+"; "+cond+"; "+m.stmtSrc(x.Post)+" {")
		if err := m.flatBlock(x.Body, out); err != nil {
			return err
		}
		*out = append(*out, "}")
	case *ast.RangeStmt:
		h := "for "
		if x.Key != nil {
			h += m.src(x.Key)
			if x.Value != nil {
				h += ", " + m.src(x.Value)
			}
			h += " " + x.Tok.String() + " "
		}
		*out = append(*out, h+"range "+m.src(x.X)+" {")
		if err := m.flatBlock(x.Body, out); err != nil {
			return err
		}
		*out = append(*out, "}")
	case *ast.AssignStmt:
		if len(x.Rhs) == 1 {
			if fl, ok := x.Rhs[0].(*ast.FuncLit); ok {
				lhs := make([]string, len(x.Lhs))
				for i, l := range x.Lhs {
					lhs[i] = m.src(l)
				}
				*out = append(*out, strings.Join(lhs, ", ")+" "+x.Tok.String()+" "+m.src(fl.Type)+" {")
				if err := m.flatBlock(fl.Body, out); err != nil {
					return err
				}
				*out = append(*out, "}")
				return nil
			}
		}
		*out = append(*out, m.src(x))
	case *ast.DeclStmt, *ast.ExprStmt, *ast.IncDecStmt, *ast.ReturnStmt:
		*out = append(*out, m.src(x))
	case *ast.BranchStmt:
		if x.Label != nil || (x.Tok != token.BREAK && x.Tok != token.CONTINUE) {
			return fmt.Errorf("%s: unsupported branch statement", m.fset.Position(x.Pos()))
		}
		*out = append(*out, x.Tok.String())
	default:
		return fmt.Errorf("%s: unsupported statement %T", m.fset.Position(s.Pos()), s)
	}
	return nil
}

// nested function literals that are not the right-hand side of an assignment are not flattened
func mulHasStrayFuncLit(fd *ast.FuncDecl) bool {
	ok := map[*ast.FuncLit]bool{}
	ast.Inspect(fd, func(n ast.Node) bool {
		if a, is := n.(*ast.AssignStmt); is && len(a.Rhs) == 1 {
			if fl, is := a.Rhs[0].(*ast.FuncLit); is {
				ok[fl] = true
			}
		}
		return true
	})
	stray := false
	ast.Inspect(fd, func(n ast.Node) bool {
		if fl, is := n.(*ast.FuncLit); is && !ok[fl] {
			stray = true
		}
		return true
	})
	return stray
}

func mulShape(fset *token.FileSet, fd *ast.FuncDecl) ([]string, error) {
	if mulHasStrayFuncLit(fd) {
		return nil, fmt.Errorf("%s: function literal outside an assignment", fd.Name.Name)
	}
	m := &mulNorm{fset: fset, names: map[*ast.Object]string{}}
	m.collect(fd)
	if err := m.rename(fd); err != nil {
		return nil, err
	}
	var out []string
	out = append(out, m.src(fd.Type)+" {")
	if err := m.flatBlock(fd.Body, &out); err != nil {
		return nil, err
	}
	out = append(out, "}")
	return out, nil
}

func genMulFacts(repo string) (string, error) {
	fset := token.NewFileSet()
	path := filepath.Join(repo, mulFile)
	f, err := parser.ParseFile(fset, path, nil, 0)
	if err != nil {
		return "", err
	}
	want := []struct{ goName, leanName string }{
		{"ScalarMulLowLevel", "scalarMul"},
		{"MultiScalarMulLowLevel", "multiScalarMul"},
	}
	var b strings.Builder
	b.WriteString("-- Structure of ScalarMulLowLevel / MultiScalarMulLowLevel (" + mulFile + "), property C14.\n")
	b.WriteString("-- Field meanings: see translator/facts_mul.go.\n")
	b.WriteString("namespace BronVerif.Gen.MulFacts\n\n")
	b.WriteString("/-- Text as the list of its code points (kernel-friendly). -/\nabbrev Str := List Nat\n\n")
	b.WriteString("macro:max \"mulcps!\" s:str : term => do\n")
	b.WriteString("  let cs ← s.getString.toList.toArray.mapM fun c => `(nat_lit $(Lean.Syntax.mkNumLit (toString c.toNat)))\n")
	b.WriteString("  `(([$cs,*] : List Nat))\n\n")
	for _, w := range want {
		var fd *ast.FuncDecl
		for _, d := range f.Decls {
			if x, ok := d.(*ast.FuncDecl); ok && x.Recv == nil && x.Name.Name == w.goName {
				fd = x
			}
		}
		if fd == nil || fd.Body == nil {
			return "", fmt.Errorf("%s: function %s not found", mulFile, w.goName)
		}
		lines, err := mulShape(fset, fd)
		if err != nil {
			return "", err
		}
		fmt.Fprintf(&b, "/-- %s -/\ndef %s : List Str := [\n", w.goName, w.leanName)
		for i, l := range lines {
			sep := ","
			if i == len(lines)-1 {
				sep = ""
			}
			fmt.Fprintf(&b, "  mulcps!%s%s\n", strconv.Quote(l), sep)
		}
		b.WriteString("]\n\n")
	}
	b.WriteString("end BronVerif.Gen.MulFacts\n")
	return b.String(), nil
}
