package main

// Straight-line field formulas → Lean definitions (DESIGN.md §2.3 (T) item 1).
//
// Translates the bodies of the point-arithmetic methods of
//   pkg/base/curves/impl/points/weierstrass.go  (ShortWeierstrassPointImpl)
//   pkg/base/curves/impl/points/edwards.go      (TwistedEdwardsPointImpl)
// into `def`s over an abstract field (core notation classes only), as SSA-renamed `let` chains.
//
// Recognised subset (anything else is an error — the generator FAILS):
//   var a, b F                       field locals (reading one before it is written is an error)
//   var out PointType[...]           point local (fields X,Y,Z[,T])
//   var params C / var arith C       curve-parameter object
//   t0 := FP(&t0f) / x1 := FP(&lhs.X)   pointer aliases
//   DST.Op(args) for Op ∈ Set, SetZero, SetOne, Add, Sub, Mul, Square, Neg, Double, Select
//   params.{MulByA,MulBy3B,AddA,AddB,MulByD,MulBy2D,SetA}(dst, src)
//   ok = DST.Equal(x) | DST.IsZero() | DST.Sqrt(x) | DST.Inv(x)   (Sqrt/Inv through function parameters)
//   p.X = *x3                        receiver-field assignment
//   p.Select(ok, p, &out) / out.Neg(v) on whole points is NOT inlined except Select (per-field)
//   return <bool expr built from &, |, Equal, IsZero, identifiers>
//
// Aliasing: Go callers pass the receiver also as an operand (p.Add(p, q)).  The translation treats
// receiver and operands as distinct, which is only sound if no operand field is read after the
// same-named receiver field was written; the translator checks this and fails otherwise.

import (
	"fmt"
	"go/ast"
	"go/parser"
	"go/token"
	"path/filepath"
	"sort"
	"strings"
)

func init() {
	register("Weierstrass", func(repo string) (string, error) {
		return genFormulas(repo, "pkg/base/curves/impl/points/weierstrass.go", "ShortWeierstrassPointImpl", "Weierstrass",
			[]string{"X", "Y", "Z"},
			[]string{"Add", "Double", "Neg", "Equal", "IsZero", "SetZero", "SetAffine", "SetFromAffineX", "setFractions", "ToAffine"})
	})
	register("Edwards", func(repo string) (string, error) {
		return genFormulas(repo, "pkg/base/curves/impl/points/edwards.go", "TwistedEdwardsPointImpl", "Edwards",
			[]string{"X", "Y", "T", "Z"},
			[]string{"Add", "Double", "Neg", "Equal", "IsZero", "SetZero", "SetAffine", "setFractions", "ToAffine"})
	})
}

// curve-constant operations of the params interfaces: Lean constant name and operator
var paramOps = map[string]struct {
	c, op string
}{
	"MulByA":  {"cA", "*"},
	"MulBy3B": {"cB3", "*"},
	"MulByD":  {"cD", "*"},
	"MulBy2D": {"cD2", "*"},
	"AddA":    {"cA", "+"},
	"AddB":    {"cB", "+"},
}

var constOrder = []string{"cA", "cB", "cB3", "cD", "cD2"}

type ftrans struct {
	fset      *token.FileSet
	recvType  string
	fields    []string
	recv      string            // receiver identifier
	ptParams  map[string]int    // point-pointer parameters → index (1-based)
	fePtrs    map[string]bool   // field-element pointer parameters (x, y FP)
	paramsObj map[string]bool   // identifiers of the curve-parameter object
	alias     map[string]string // ident → location
	ptLocals  map[string]bool   // local point variables
	cur       map[string]string // location → current Lean name (absent: unwritten local)
	declared  map[string]bool   // declared field locals
	version   map[string]int
	inputs    []string // Lean input names in order of first use
	inputSet  map[string]bool
	consts    map[string]bool
	funs      map[string]bool // fsqrt / finv function parameters
	boolVars  map[string]string
	lines     []string
	written   map[string]bool // receiver fields written so far
	ptrOuts   []string        // field-element pointer parameters written (outputs), in order
	letNames  map[string]bool // names bound by let so far
	ret       string
	usesZero  bool
	usesOne   bool
}

func (t *ftrans) errf(n ast.Node, format string, args ...any) error {
	return fmt.Errorf("%s: %s", t.fset.Position(n.Pos()), fmt.Sprintf(format, args...))
}

func leanName(loc string) string {
	s := strings.ReplaceAll(loc, ".", "_")
	return s
}

// location of a pointer-valued expression: ident alias, &x, &p.X, FP(&x), FP(&p.X)
func (t *ftrans) loc(e ast.Expr) (string, error) {
	switch v := e.(type) {
	case *ast.Ident:
		if l, ok := t.alias[v.Name]; ok {
			return l, nil
		}
		if t.fePtrs[v.Name] {
			return v.Name, nil
		}
		return "", t.errf(e, "identifier %s is not a known field-element pointer", v.Name)
	case *ast.UnaryExpr:
		if v.Op != token.AND {
			return "", t.errf(e, "unsupported unary operator")
		}
		return t.place(v.X)
	case *ast.CallExpr: // FP(&x)
		if id, ok := v.Fun.(*ast.Ident); ok && id.Name == "FP" && len(v.Args) == 1 {
			return t.loc(v.Args[0])
		}
		return "", t.errf(e, "unsupported call in pointer position")
	case *ast.ParenExpr:
		return t.loc(v.X)
	}
	return "", t.errf(e, "unsupported pointer expression")
}

// place of an addressable expression: x (local), p.X, lhs.X
func (t *ftrans) place(e ast.Expr) (string, error) {
	switch v := e.(type) {
	case *ast.Ident:
		if t.declared[v.Name] {
			return v.Name, nil
		}
		return "", t.errf(e, "address of unknown variable %s", v.Name)
	case *ast.SelectorExpr:
		id, ok := v.X.(*ast.Ident)
		if !ok {
			return "", t.errf(e, "unsupported selector")
		}
		if !contains(t.fields, v.Sel.Name) {
			return "", t.errf(e, "unknown field %s", v.Sel.Name)
		}
		if id.Name == t.recv || t.ptParams[id.Name] > 0 || t.ptLocals[id.Name] {
			return id.Name + "." + v.Sel.Name, nil
		}
		return "", t.errf(e, "selector on unknown point %s", id.Name)
	}
	return "", t.errf(e, "unsupported addressable expression")
}

func contains(xs []string, x string) bool {
	for _, y := range xs {
		if y == x {
			return true
		}
	}
	return false
}

// read returns the Lean name holding the current value of a location
func (t *ftrans) read(n ast.Node, loc string) (string, error) {
	if name, ok := t.cur[loc]; ok {
		return name, nil
	}
	// inputs: fields of point parameters, of the receiver, and field-element pointer parameters
	if i := strings.Index(loc, "."); i > 0 {
		obj, f := loc[:i], loc[i+1:]
		if idx := t.ptParams[obj]; idx > 0 {
			if t.written[f] {
				return "", t.errf(n, "operand field %s read after receiver field %s was written (unsound under aliasing)", loc, f)
			}
			name := strings.ToLower(f) + fmt.Sprint(idx)
			t.addInput(name)
			t.cur[loc] = name
			return name, nil
		}
		if obj == t.recv {
			name := strings.ToLower(f) + "0"
			t.addInput(name)
			t.cur[loc] = name
			return name, nil
		}
		return "", t.errf(n, "field %s of local point read before being written", loc)
	}
	if t.fePtrs[loc] {
		t.addInput(loc)
		t.cur[loc] = loc
		return loc, nil
	}
	return "", t.errf(n, "local %s read before being written", loc)
}

func (t *ftrans) addInput(name string) {
	if t.letNames[name] {
		panic(fmt.Sprintf("translator: input %s collides with an earlier local of the same name", name))
	}
	if !t.inputSet[name] {
		t.inputSet[name] = true
		t.inputs = append(t.inputs, name)
	}
}

func (t *ftrans) write(loc, expr string) {
	t.version[loc]++
	base := leanName(loc)
	if i := strings.Index(loc, "."); i > 0 && loc[:i] == t.recv {
		base = strings.ToLower(loc[i+1:]) + "3"
		t.written[loc[i+1:]] = true
	}
	if t.fePtrs[loc] && !contains(t.ptrOuts, loc) {
		t.ptrOuts = append(t.ptrOuts, loc)
	}
	name := base
	if t.version[loc] > 1 || t.inputSet[base] {
		name = fmt.Sprintf("%s_%d", base, t.version[loc])
	}
	if t.letNames[name] {
		panic(fmt.Sprintf("translator: duplicate let name %s", name))
	}
	t.letNames[name] = true
	t.lines = append(t.lines, fmt.Sprintf("  let %s : F := %s", name, expr))
	t.cur[loc] = name
}

func (t *ftrans) boolExpr(e ast.Expr) (string, error) {
	switch v := e.(type) {
	case *ast.Ident:
		if b, ok := t.boolVars[v.Name]; ok {
			return b, nil
		}
		return "", t.errf(e, "unknown boolean %s", v.Name)
	case *ast.ParenExpr:
		s, err := t.boolExpr(v.X)
		return "(" + s + ")", err
	case *ast.BinaryExpr:
		l, err := t.boolExpr(v.X)
		if err != nil {
			return "", err
		}
		r, err := t.boolExpr(v.Y)
		if err != nil {
			return "", err
		}
		switch v.Op {
		case token.AND:
			return "(" + l + " && " + r + ")", nil
		case token.OR:
			return "(" + l + " || " + r + ")", nil
		}
		return "", t.errf(e, "unsupported boolean operator %s", v.Op)
	case *ast.CallExpr:
		sel, ok := v.Fun.(*ast.SelectorExpr)
		if !ok {
			return "", t.errf(e, "unsupported boolean call")
		}
		// p.IsZero().Not()
		if sel.Sel.Name == "Not" && len(v.Args) == 0 {
			inner, err := t.boolExpr(sel.X)
			return "(!" + inner + ")", err
		}
		dst, err := t.loc(sel.X)
		if err != nil {
			return "", err
		}
		switch sel.Sel.Name {
		case "Equal":
			if len(v.Args) != 1 {
				return "", t.errf(e, "Equal arity")
			}
			a, err := t.read(e, dst)
			if err != nil {
				return "", err
			}
			bl, err := t.loc(v.Args[0])
			if err != nil {
				return "", err
			}
			b, err := t.read(e, bl)
			if err != nil {
				return "", err
			}
			return "(" + a + " == " + b + ")", nil
		case "IsZero":
			a, err := t.read(e, dst)
			if err != nil {
				return "", err
			}
			t.usesZero = true
			return "(" + a + " == 0)", nil
		case "Sqrt", "Inv":
			// ok = DST.Sqrt(x): DST receives the root when ok; modelled by a function parameter
			// returning (ok, new value of DST)
			if len(v.Args) != 1 {
				return "", t.errf(e, "%s arity", sel.Sel.Name)
			}
			al, err := t.loc(v.Args[0])
			if err != nil {
				return "", err
			}
			a, err := t.read(e, al)
			if err != nil {
				return "", err
			}
			fn := "f" + strings.ToLower(sel.Sel.Name)
			t.funs[fn] = true
			t.write(dst, fmt.Sprintf("(%s %s).2", fn, a))
			return fmt.Sprintf("(%s %s).1", fn, a), nil
		}
		return "", t.errf(e, "unsupported boolean method %s", sel.Sel.Name)
	}
	return "", t.errf(e, "unsupported boolean expression")
}

func (t *ftrans) call(c *ast.CallExpr) error {
	sel, ok := c.Fun.(*ast.SelectorExpr)
	if !ok {
		return t.errf(c, "unsupported call")
	}
	m := sel.Sel.Name
	// curve-parameter operations
	if id, ok := sel.X.(*ast.Ident); ok && t.paramsObj[id.Name] {
		if m == "SetA" && len(c.Args) == 1 {
			dst, err := t.loc(c.Args[0])
			if err != nil {
				return err
			}
			t.consts["cA"] = true
			t.write(dst, "cA")
			return nil
		}
		po, ok := paramOps[m]
		if !ok || len(c.Args) != 2 {
			return t.errf(c, "unsupported curve-parameter operation %s", m)
		}
		dst, err := t.loc(c.Args[0])
		if err != nil {
			return err
		}
		sl, err := t.loc(c.Args[1])
		if err != nil {
			return err
		}
		src, err := t.read(c, sl)
		if err != nil {
			return err
		}
		t.consts[po.c] = true
		if po.op == "*" {
			t.write(dst, fmt.Sprintf("%s * %s", po.c, src))
		} else {
			t.write(dst, fmt.Sprintf("%s + %s", src, po.c))
		}
		return nil
	}
	// whole-point Select: p.Select(ok, z, nz)
	if id, ok := sel.X.(*ast.Ident); ok && (id.Name == t.recv || t.ptLocals[id.Name]) {
		if m != "Select" || len(c.Args) != 3 {
			return t.errf(c, "unsupported point-level call %s.%s", id.Name, m)
		}
		b, err := t.boolExpr(c.Args[0])
		if err != nil {
			return err
		}
		ptName := func(e ast.Expr) (string, error) {
			if u, ok := e.(*ast.UnaryExpr); ok && u.Op == token.AND {
				e = u.X
			}
			if i, ok := e.(*ast.Ident); ok && (i.Name == t.recv || t.ptLocals[i.Name] || t.ptParams[i.Name] > 0) {
				return i.Name, nil
			}
			return "", t.errf(e, "unsupported point argument")
		}
		z, err := ptName(c.Args[1])
		if err != nil {
			return err
		}
		nz, err := ptName(c.Args[2])
		if err != nil {
			return err
		}
		// read all first (the receiver may be one of the arguments), then write
		type pair struct{ f, zv, nzv string }
		var ps []pair
		for _, f := range t.fields {
			zv, err := t.read(c, z+"."+f)
			if err != nil {
				return err
			}
			nzv, err := t.read(c, nz+"."+f)
			if err != nil {
				return err
			}
			ps = append(ps, pair{f, zv, nzv})
		}
		for _, p := range ps {
			t.write(id.Name+"."+p.f, fmt.Sprintf("if %s then %s else %s", b, p.nzv, p.zv))
		}
		return nil
	}
	dst, err := t.loc(sel.X)
	if err != nil {
		return err
	}
	arg := func(i int) (string, error) {
		l, err := t.loc(c.Args[i])
		if err != nil {
			return "", err
		}
		return t.read(c, l)
	}
	need := func(n int) error {
		if len(c.Args) != n {
			return t.errf(c, "%s expects %d arguments", m, n)
		}
		return nil
	}
	switch m {
	case "SetZero":
		if err := need(0); err != nil {
			return err
		}
		t.usesZero = true
		t.write(dst, "0")
	case "SetOne":
		if err := need(0); err != nil {
			return err
		}
		t.usesOne = true
		t.write(dst, "1")
	case "Set":
		if err := need(1); err != nil {
			return err
		}
		a, err := arg(0)
		if err != nil {
			return err
		}
		t.write(dst, a)
	case "Neg":
		if err := need(1); err != nil {
			return err
		}
		a, err := arg(0)
		if err != nil {
			return err
		}
		t.write(dst, "-"+a)
	case "Square":
		if err := need(1); err != nil {
			return err
		}
		a, err := arg(0)
		if err != nil {
			return err
		}
		t.write(dst, a+" * "+a)
	case "Double":
		if err := need(1); err != nil {
			return err
		}
		a, err := arg(0)
		if err != nil {
			return err
		}
		t.write(dst, a+" + "+a)
	case "Add", "Sub", "Mul":
		if err := need(2); err != nil {
			return err
		}
		a, err := arg(0)
		if err != nil {
			return err
		}
		b, err := arg(1)
		if err != nil {
			return err
		}
		op := map[string]string{"Add": "+", "Sub": "-", "Mul": "*"}[m]
		t.write(dst, a+" "+op+" "+b)
	case "Select":
		if err := need(3); err != nil {
			return err
		}
		b, err := t.boolExpr(c.Args[0])
		if err != nil {
			return err
		}
		z, err := arg(1)
		if err != nil {
			return err
		}
		nz, err := arg(2)
		if err != nil {
			return err
		}
		t.write(dst, fmt.Sprintf("if %s then %s else %s", b, nz, z))
	default:
		return t.errf(c, "unsupported field method %s", m)
	}
	return nil
}

func typeName(e ast.Expr) string {
	switch v := e.(type) {
	case *ast.Ident:
		return v.Name
	case *ast.IndexListExpr:
		return typeName(v.X)
	case *ast.IndexExpr:
		return typeName(v.X)
	case *ast.StarExpr:
		return typeName(v.X)
	}
	return ""
}

func (t *ftrans) stmt(s ast.Stmt) error {
	switch v := s.(type) {
	case *ast.DeclStmt:
		gd, ok := v.Decl.(*ast.GenDecl)
		if !ok || gd.Tok != token.VAR {
			return t.errf(s, "unsupported declaration")
		}
		for _, sp := range gd.Specs {
			vs := sp.(*ast.ValueSpec)
			if len(vs.Values) != 0 {
				return t.errf(s, "var with initialiser")
			}
			tn := typeName(vs.Type)
			for _, n := range vs.Names {
				switch tn {
				case "F":
					t.declared[n.Name] = true
				case "C":
					t.paramsObj[n.Name] = true
				case t.recvType:
					t.ptLocals[n.Name] = true
				default:
					return t.errf(s, "unsupported local type %s", tn)
				}
			}
		}
		return nil
	case *ast.AssignStmt:
		if len(v.Lhs) != 1 || len(v.Rhs) != 1 {
			return t.errf(s, "unsupported multi-assignment")
		}
		// p.X = *x3
		if v.Tok == token.ASSIGN {
			if se, ok := v.Lhs[0].(*ast.SelectorExpr); ok {
				dst, err := t.place(se)
				if err != nil {
					return err
				}
				st, ok := v.Rhs[0].(*ast.StarExpr)
				if !ok {
					return t.errf(s, "unsupported field assignment")
				}
				l, err := t.loc(st.X)
				if err != nil {
					return err
				}
				a, err := t.read(s, l)
				if err != nil {
					return err
				}
				t.write(dst, a)
				return nil
			}
		}
		id, ok := v.Lhs[0].(*ast.Ident)
		if !ok {
			return t.errf(s, "unsupported assignment target")
		}
		// alias: t0 := FP(&t0f)
		if v.Tok == token.DEFINE {
			if ce, ok := v.Rhs[0].(*ast.CallExpr); ok {
				if f, ok := ce.Fun.(*ast.Ident); ok && f.Name == "FP" {
					l, err := t.loc(ce)
					if err != nil {
						return err
					}
					t.alias[id.Name] = l
					return nil
				}
			}
		}
		// boolean: ok = …  /  ok0 := …
		b, err := t.boolExpr(v.Rhs[0])
		if err != nil {
			return err
		}
		t.version["bool."+id.Name]++
		name := id.Name
		if t.version["bool."+id.Name] > 1 {
			name = fmt.Sprintf("%s_%d", id.Name, t.version["bool."+id.Name])
		}
		t.lines = append(t.lines, fmt.Sprintf("  let %s : Bool := %s", name, b))
		t.boolVars[id.Name] = name
		return nil
	case *ast.ExprStmt:
		c, ok := v.X.(*ast.CallExpr)
		if !ok {
			return t.errf(s, "unsupported expression statement")
		}
		return t.call(c)
	case *ast.ReturnStmt:
		if len(v.Results) == 0 {
			return nil
		}
		if len(v.Results) != 1 {
			return t.errf(s, "unsupported return")
		}
		b, err := t.boolExpr(v.Results[0])
		if err != nil {
			return err
		}
		t.ret = b
		return nil
	}
	return t.errf(s, "unsupported statement %T", s)
}

func lowerFirst(s string) string { return strings.ToLower(s[:1]) + s[1:] }

func genFormulas(repo, rel, recvType, module string, fields, methods []string) (text string, err error) {
	defer func() {
		if e := recover(); e != nil {
			text, err = "", fmt.Errorf("%v", e)
		}
	}()
	fset := token.NewFileSet()
	file, err := parser.ParseFile(fset, filepath.Join(repo, rel), nil, parser.ParseComments)
	if err != nil {
		return "", err
	}
	found := map[string]*ast.FuncDecl{}
	for _, d := range file.Decls {
		fd, ok := d.(*ast.FuncDecl)
		if !ok || fd.Recv == nil || len(fd.Recv.List) != 1 {
			continue
		}
		if typeName(fd.Recv.List[0].Type) == recvType {
			found[fd.Name.Name] = fd
		}
	}
	var sb strings.Builder
	sb.WriteString("/-! Straight-line formulas of `" + recvType + "` translated from `" + rel + "`.\n")
	sb.WriteString("Core-only; generic over the notation classes. `cA cB cB3 cD cD2` are the curve constants behind\n")
	sb.WriteString("`MulByA/AddB/MulBy3B/MulByD/MulBy2D`; `fsqrt`/`finv` model `Sqrt`/`Inv` as `x ↦ (ok, new receiver value)`.\n")
	sb.WriteString("Inputs `x1 y1 z1 …` are the coordinates of the 1st, 2nd point operand, `x0 …` the receiver's old value,\n")
	sb.WriteString("outputs `x3 …` the receiver's new value. -/\n")
	sb.WriteString("namespace BronVerif.Gen." + module + "\n\n")
	sb.WriteString("variable {F : Type} [Add F] [Mul F] [Sub F] [Neg F] [OfNat F 0] [OfNat F 1] [DecidableEq F]\n\n")
	for _, m := range methods {
		fd, ok := found[m]
		if !ok {
			return "", fmt.Errorf("%s: method %s.%s not found", rel, recvType, m)
		}
		t := &ftrans{fset: fset, recvType: recvType, fields: fields,
			ptParams: map[string]int{}, fePtrs: map[string]bool{}, paramsObj: map[string]bool{}, alias: map[string]string{},
			ptLocals: map[string]bool{}, cur: map[string]string{}, declared: map[string]bool{}, version: map[string]int{},
			inputSet: map[string]bool{}, consts: map[string]bool{}, funs: map[string]bool{}, boolVars: map[string]string{}, written: map[string]bool{}, letNames: map[string]bool{}}
		if len(fd.Recv.List[0].Names) == 1 {
			t.recv = fd.Recv.List[0].Names[0].Name
		}
		idx := 0
		for _, p := range fd.Type.Params.List {
			tn := typeName(p.Type)
			for _, n := range p.Names {
				switch {
				case tn == recvType:
					idx++
					t.ptParams[n.Name] = idx
				case tn == "FP":
					t.fePtrs[n.Name] = true
				default:
					return "", fmt.Errorf("%s: %s.%s: unsupported parameter type %s", rel, recvType, m, tn)
				}
			}
		}
		for _, s := range fd.Body.List {
			if err := t.stmt(s); err != nil {
				return "", fmt.Errorf("%s.%s: %w", recvType, m, err)
			}
		}
		// outputs: receiver fields written (final versions), in field order; plus the returned boolean
		var outs []string
		for _, f := range fields {
			if t.written[f] {
				outs = append(outs, t.cur[t.recv+"."+f])
			}
		}
		for _, l := range t.ptrOuts {
			outs = append(outs, t.cur[l])
		}
		if t.ret != "" {
			outs = append([]string{t.ret}, outs...)
		}
		if len(outs) == 0 {
			return "", fmt.Errorf("%s.%s: no outputs", recvType, m)
		}
		var outTypes []string
		for i := range outs {
			if i == 0 && t.ret != "" {
				outTypes = append(outTypes, "Bool")
			} else {
				outTypes = append(outTypes, "F")
			}
		}
		// signature: constants, function parameters, inputs sorted canonically (operand index, then field order)
		var sig []string
		var cs []string
		for _, cn := range constOrder {
			if t.consts[cn] {
				cs = append(cs, cn)
			}
		}
		if len(cs) > 0 {
			sig = append(sig, "("+strings.Join(cs, " ")+" : F)")
		}
		var fns []string
		for fn := range t.funs {
			fns = append(fns, fn)
		}
		sort.Strings(fns)
		for _, fn := range fns {
			sig = append(sig, "("+fn+" : F → Bool × F)")
		}
		ins := append([]string{}, t.inputs...)
		rank := func(s string) int {
			// x0,y0,.. receiver first; then operands by index; then plain field pointers
			last := s[len(s)-1]
			if last >= '0' && last <= '9' && len(s) == 2 {
				fi := 0
				for i, f := range fields {
					if strings.ToLower(f) == s[:1] {
						fi = i
					}
				}
				return int(last-'0')*10 + fi
			}
			return 1000
		}
		sort.SliceStable(ins, func(i, j int) bool { return rank(ins[i]) < rank(ins[j]) })
		if len(ins) > 0 {
			sig = append(sig, "("+strings.Join(ins, " ")+" : F)")
		}
		pos := fset.Position(fd.Pos())
		fmt.Fprintf(&sb, "/-- `%s.%s` (%s:%d) -/\n", recvType, m, filepath.Base(rel), pos.Line)
		fmt.Fprintf(&sb, "def %s %s : %s :=\n", lowerFirst(m), strings.Join(sig, " "), strings.Join(outTypes, " × "))
		for _, l := range t.lines {
			sb.WriteString(l + "\n")
		}
		if len(outs) == 1 {
			sb.WriteString("  " + outs[0] + "\n\n")
		} else {
			sb.WriteString("  (" + strings.Join(outs, ", ") + ")\n\n")
		}
	}
	sb.WriteString("end BronVerif.Gen." + module + "\n")
	return sb.String(), nil
}
