package main

// Generator "SessionFacts" (property C10, "session setup gives all parties the same context and
// symmetric pairwise secrets").
//
// From pkg/mpc/session/{context.go,participant.go}:
//   consts               every string constant of the two files (domain separators / labels), in order
//   commonCommitmentKey  the bytes of the hard-coded hash-commitment key (composite literal of character
//                        / integer literals)
//   newContext, subContext, round4, …  event lists (translator/tie_events.go): which label goes into
//                        which hash, the order in which IDs / seeds / contributions are written, the
//                        dummy read that closes a seed sponge, the openings and their blame tags.
// Props/C10Facts.lean compares all of it with the constants and layouts of Model/Session.lean.

import (
	"fmt"
	"go/ast"
	"go/token"
	"strconv"
	"strings"
)

func init() { register("SessionFacts", genSessionFacts) }

// tieByteLiteral evaluates a composite literal of character / small integer literals.
func tieByteLiteral(e ast.Expr) ([]int, error) {
	if u, ok := e.(*ast.UnaryExpr); ok && u.Op == token.AND {
		e = u.X
	}
	cl, ok := e.(*ast.CompositeLit)
	if !ok {
		return nil, fmt.Errorf("not a composite literal")
	}
	var out []int
	for _, el := range cl.Elts {
		lit, ok := el.(*ast.BasicLit)
		if !ok {
			return nil, fmt.Errorf("element is not a literal")
		}
		switch lit.Kind {
		case token.CHAR:
			r, _, _, err := strconv.UnquoteChar(strings.Trim(lit.Value, "'"), '\'')
			if err != nil {
				return nil, err
			}
			if r > 255 {
				return nil, fmt.Errorf("character %q does not fit a byte", r)
			}
			out = append(out, int(r))
		case token.INT:
			n, err := strconv.ParseInt(lit.Value, 0, 64)
			if err != nil || n < 0 || n > 255 {
				return nil, fmt.Errorf("integer %s does not fit a byte", lit.Value)
			}
			out = append(out, int(n))
		default:
			return nil, fmt.Errorf("unsupported literal %s", lit.Value)
		}
	}
	return out, nil
}

func genSessionFacts(repo string) (string, error) {
	t := newTieFiles(repo)
	var strs, others [][2]string
	for _, rel := range []string{"pkg/mpc/session/context.go", "pkg/mpc/session/participant.go"} {
		s, o, err := t.consts(rel)
		if err != nil {
			return "", err
		}
		strs = append(strs, s...)
		others = append(others, o...)
	}
	if len(strs) == 0 {
		return "", fmt.Errorf("pkg/mpc/session: no string constants found")
	}
	keyExpr, err := t.packageVar("pkg/mpc/session/participant.go", "commonCommitmentKey")
	if err != nil {
		return "", err
	}
	key, err := tieByteLiteral(keyExpr)
	if err != nil {
		return "", fmt.Errorf("commonCommitmentKey: %w", err)
	}
	var pre strings.Builder
	pre.WriteString(tiePairs("consts", "string constants of context.go and participant.go, in declaration order", strs))
	pre.WriteString(tiePairs("otherConsts", "non-string constants (source text of the value)", others))
	ks := make([]string, len(key))
	for i, k := range key {
		ks[i] = strconv.Itoa(k)
	}
	fmt.Fprintf(&pre, "/-- bytes of `commonCommitmentKey` -/\ndef commonCommitmentKey : List Nat := [%s]\n\n", strings.Join(ks, ", "))
	return tieModule(repo, "SessionFacts",
		"Constants and hash-input layouts of `pkg/mpc/session` (property C10).", pre.String(), t, []tieTarget{
			{"pkg/mpc/session/context.go", "", "NewContext", "newContext"},
			{"pkg/mpc/session/context.go", "Context", "SubContext", "subContext"},
			{"pkg/mpc/session/participant.go", "Participant", "Round3", "round3"},
			{"pkg/mpc/session/participant.go", "Participant", "Round4", "round4"},
		})
}
