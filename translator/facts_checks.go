package main

// Generator "CheckInventory" (property C04, "a deviating party is detected, blamed correctly, and
// cannot cause a bad output").
//
// Purely syntactic (go/parser + go/ast; /repo is never built).  For every function of the anchored
// round / aggregator files it records every GUARDED ERROR RETURN: a `return …, <non-nil error>` that
// is lexically inside at least one `if`.  For each such site:
//
//   proto    short name of the file's protocol (table ciFiles)
//   fn       enclosing function, "Recv.Method" or "Func"
//   calls    callee chains of all calls that decide the guard, innermost `if` first: the calls in the
//            `if`'s init statement and condition and — when the condition tests an identifier that is
//            assigned by the statement just before the `if` (`x, err := f(...)` / `err = f(...)`;
//            `if err != nil`) — the calls of that statement.  Index expressions are printed as `[·]`
//            (`c.bobMul[·].Round3`), so the chain does not depend on the index variable.
//   args     the printed arguments of those calls (flat, in order)
//   negs     printed operands `a.Equal(b)` of every `!a.Equal(b)` in the conditions
//   tag      second argument of `.WithTag(base.IdentifiableAbortPartyIDTag, X)` in the returned
//            error expression, "" if the return is not tagged
//   abort    the returned expression mentions base.ErrAbort
//   loopVar  key variable of the enclosing `for k[, v] := range E` whose key is the tag expression,
//            else of the innermost enclosing range loop ("" outside such loops)
//   loopOver printed E
//   gets     arguments of every one-argument `.Get(a)` call in that loop's body (which sender's
//            message the loop body inspects)
//   loops    printed range expressions of ALL enclosing `for … := range E` loops, innermost first: a
//            check that must hold for every component of a vector (one per MSP row of the sender)
//            sits in a loop over the row keys (`for i, pki := range partialPublicKey`); an aggregate
//            form of the same check (one call on sums) has no such loop
//
// Props/C04.lean states, per round function of every modelled protocol, which guards must exist
// (matched by role: function + callee chain + argument, never by line) and that each is tagged with
// the loop's sender variable; `decide` evaluates this over the whole regenerated table.

import (
	"bytes"
	"fmt"
	"go/ast"
	"go/parser"
	"go/printer"
	"go/token"
	"path/filepath"
	"strings"
)

func init() { register("CheckInventory", genCheckInventory) }

var ciFiles = []struct{ proto, file string }{
	{"network", "pkg/network/mpc.go"},
	{"baseshard", "pkg/mpc/base.go"},
	{"session", "pkg/mpc/session/participant.go"},
	{"gennaro", "pkg/mpc/dkg/gennaro/rounds.go"},
	{"canetti", "pkg/mpc/dkg/canetti/rounds.go"},
	{"hjky", "pkg/mpc/zero/hjky/rounds.go"},
	{"redistribute", "pkg/mpc/redistribute/rounds.go"},
	{"dkls23-softspoken", "pkg/mpc/signatures/ecdsa/dkls23/signing_softspoken/rounds.go"},
	{"dkls23-bbot", "pkg/mpc/signatures/ecdsa/dkls23/signing_bbot/rounds.go"},
	{"dkls23", "pkg/mpc/signatures/ecdsa/dkls23/dkls23.go"},
	{"rvole-bbot", "pkg/mpc/rvole/bbot/rounds.go"},
	{"rvole-softspoken", "pkg/mpc/rvole/softspoken/rounds.go"},
	{"lindell22", "pkg/mpc/signatures/schnorr/lindell22/signing/rounds.go"},
	{"lindell22-agg", "pkg/mpc/signatures/schnorr/lindell22/signing/aggregator.go"},
	{"boldyreva", "pkg/mpc/signatures/bls/boldyreva02/signing/aggregator.go"},
	{"lindell17", "pkg/mpc/signatures/ecdsa/lindell17/signing/rounds.go"},
}

type ciSite struct {
	proto, fn                string
	calls, args, negs, gets  []string
	tag, loopVar, loopOver   string
	abort                    bool
	pos                      string
	loops                    []string
}

type ciLoop struct {
	key, over string
	gets      []string
}

type ciGuard struct {
	calls, args, negs []string
}

type ciWalker struct {
	fset  *token.FileSet
	proto string
	fn    string
	sites *[]ciSite
}

func ciPrint(fset *token.FileSet, n ast.Node) string {
	var b bytes.Buffer
	_ = printer.Fprint(&b, fset, n)
	s := b.String()
	s = strings.Join(strings.Fields(s), " ")
	return s
}

// ciChain prints a callee expression as a dotted chain with indices abstracted.
func ciChain(fset *token.FileSet, e ast.Expr) string {
	switch x := e.(type) {
	case *ast.Ident:
		return x.Name
	case *ast.SelectorExpr:
		return ciChain(fset, x.X) + "." + x.Sel.Name
	case *ast.IndexExpr:
		// generic instantiation `f[T]` and element access `m[k]` look alike: both print `[·]`
		return ciChain(fset, x.X) + "[·]"
	case *ast.IndexListExpr:
		return ciChain(fset, x.X) + "[·]"
	case *ast.CallExpr:
		return ciChain(fset, x.Fun) + "()"
	case *ast.ParenExpr:
		return ciChain(fset, x.X)
	case *ast.StarExpr:
		return ciChain(fset, x.X)
	default:
		return ciPrint(fset, e)
	}
}

func (w *ciWalker) callsIn(n ast.Node, g *ciGuard) {
	if n == nil {
		return
	}
	ast.Inspect(n, func(m ast.Node) bool {
		switch x := m.(type) {
		case *ast.FuncLit:
			return false
		case *ast.CallExpr:
			g.calls = append(g.calls, ciChain(w.fset, x.Fun))
			for _, a := range x.Args {
				g.args = append(g.args, ciPrint(w.fset, a))
			}
		case *ast.UnaryExpr:
			if x.Op == token.NOT {
				if c, ok := x.X.(*ast.CallExpr); ok {
					if s, ok := c.Fun.(*ast.SelectorExpr); ok && s.Sel.Name == "Equal" {
						g.negs = append(g.negs, ciPrint(w.fset, c))
					}
				}
			}
		}
		return true
	})
}

// identsIn lists the identifiers tested by a condition.
func ciIdents(n ast.Node) map[string]bool {
	out := map[string]bool{}
	ast.Inspect(n, func(m ast.Node) bool {
		if id, ok := m.(*ast.Ident); ok {
			out[id.Name] = true
		}
		return true
	})
	return out
}

func (w *ciWalker) block(stmts []ast.Stmt, loops []ciLoop, guards []ciGuard) {
	for i, st := range stmts {
		var prev ast.Stmt
		if i > 0 {
			prev = stmts[i-1]
		}
		w.stmt(st, prev, loops, guards)
	}
}

func (w *ciWalker) stmt(st, prev ast.Stmt, loops []ciLoop, guards []ciGuard) {
	switch s := st.(type) {
	case *ast.BlockStmt:
		w.block(s.List, loops, guards)
	case *ast.LabeledStmt:
		w.stmt(s.Stmt, prev, loops, guards)
	case *ast.RangeStmt:
		l := ciLoop{over: ciPrint(w.fset, s.X)}
		if id, ok := s.Key.(*ast.Ident); ok {
			l.key = id.Name
		}
		ast.Inspect(s.Body, func(m ast.Node) bool {
			if c, ok := m.(*ast.CallExpr); ok && len(c.Args) == 1 {
				if sel, ok := c.Fun.(*ast.SelectorExpr); ok && sel.Sel.Name == "Get" {
					l.gets = append(l.gets, ciPrint(w.fset, c.Args[0]))
				}
			}
			return true
		})
		w.block(s.Body.List, append(append([]ciLoop{}, loops...), l), guards)
	case *ast.ForStmt:
		w.block(s.Body.List, append(append([]ciLoop{}, loops...), ciLoop{}), guards)
	case *ast.SwitchStmt:
		for _, c := range s.Body.List {
			if cc, ok := c.(*ast.CaseClause); ok {
				w.block(cc.Body, loops, guards)
			}
		}
	case *ast.TypeSwitchStmt:
		for _, c := range s.Body.List {
			if cc, ok := c.(*ast.CaseClause); ok {
				w.block(cc.Body, loops, guards)
			}
		}
	case *ast.IfStmt:
		var g ciGuard
		w.callsIn(s.Init, &g)
		w.callsIn(s.Cond, &g)
		// the statement just before decides the tested identifier
		if as, ok := prev.(*ast.AssignStmt); ok {
			tested := ciIdents(s.Cond)
			hit := false
			for _, l := range as.Lhs {
				if id, ok := l.(*ast.Ident); ok && id.Name != "_" && tested[id.Name] {
					hit = true
				}
			}
			if s.Init != nil {
				// `if err := f(); err != nil` shadows: the previous statement is unrelated
				if ia, ok := s.Init.(*ast.AssignStmt); ok {
					for _, l := range ia.Lhs {
						if id, ok := l.(*ast.Ident); ok && tested[id.Name] {
							hit = false
						}
					}
				}
			}
			if hit {
				for _, r := range as.Rhs {
					w.callsIn(r, &g)
				}
			}
		}
		inner := append([]ciGuard{g}, guards...)
		w.block(s.Body.List, loops, inner)
		if s.Else != nil {
			w.stmt(s.Else, nil, loops, inner)
		}
	case *ast.ReturnStmt:
		if len(guards) == 0 || len(s.Results) == 0 {
			return
		}
		last := s.Results[len(s.Results)-1]
		if id, ok := last.(*ast.Ident); ok && id.Name == "nil" {
			return
		}
		site := ciSite{proto: w.proto, fn: w.fn, pos: w.fset.Position(s.Pos()).String()}
		for _, g := range guards {
			site.calls = append(site.calls, g.calls...)
			site.args = append(site.args, g.args...)
			site.negs = append(site.negs, g.negs...)
		}
		ast.Inspect(last, func(m ast.Node) bool {
			switch x := m.(type) {
			case *ast.CallExpr:
				if sel, ok := x.Fun.(*ast.SelectorExpr); ok && sel.Sel.Name == "WithTag" && len(x.Args) == 2 {
					if strings.HasSuffix(ciPrint(w.fset, x.Args[0]), "IdentifiableAbortPartyIDTag") && site.tag == "" {
						site.tag = ciPrint(w.fset, x.Args[1])
					}
				}
			case *ast.SelectorExpr:
				if id, ok := x.X.(*ast.Ident); ok && id.Name == "base" && x.Sel.Name == "ErrAbort" {
					site.abort = true
				}
			}
			return true
		})
		// the loop the tag refers to (its key variable), else the innermost range loop
		pick := -1
		for i := len(loops) - 1; i >= 0; i-- {
			if site.tag != "" && loops[i].key == site.tag {
				pick = i
				break
			}
		}
		if pick < 0 {
			for i := len(loops) - 1; i >= 0; i-- {
				if loops[i].key != "" || loops[i].over != "" {
					pick = i
					break
				}
			}
		}
		if pick >= 0 {
			site.loopVar, site.loopOver, site.gets = loops[pick].key, loops[pick].over, loops[pick].gets
		}
		for i := len(loops) - 1; i >= 0; i-- {
			if loops[i].over != "" {
				site.loops = append(site.loops, loops[i].over)
			}
		}
		*w.sites = append(*w.sites, site)
	}
}

func ciCps(s string) string {
	if s == "" {
		return "[]"
	}
	return "cps!" + fmt.Sprintf("%q", s)
}

func ciCpsList(xs []string) string {
	out := make([]string, len(xs))
	for i, x := range xs {
		out[i] = ciCps(x)
	}
	return "[" + strings.Join(out, ", ") + "]"
}

func genCheckInventory(repo string) (string, error) {
	fset := token.NewFileSet()
	var sites []ciSite
	for _, cf := range ciFiles {
		f, err := parser.ParseFile(fset, filepath.Join(repo, cf.file), nil, parser.SkipObjectResolution)
		if err != nil {
			return "", err
		}
		n0 := len(sites)
		for _, d := range f.Decls {
			fd, ok := d.(*ast.FuncDecl)
			if !ok || fd.Body == nil {
				continue
			}
			name := fd.Name.Name
			if fd.Recv != nil && len(fd.Recv.List) == 1 {
				name = psTypeName(fd.Recv.List[0].Type) + "." + name
			}
			w := &ciWalker{fset: fset, proto: cf.proto, fn: name, sites: &sites}
			w.block(fd.Body.List, nil, nil)
		}
		if len(sites) == n0 {
			return "", fmt.Errorf("no guarded error return found in %s (file moved or rewritten?)", cf.file)
		}
	}
	var b strings.Builder
	b.WriteString(`-- Inventory of the guarded error returns of the round / aggregator functions of /repo (property C04).
-- Field meanings: see translator/facts_checks.go.
namespace BronVerif.Gen.CheckInventory

/-- Text as the list of its code points (kernel-friendly). -/
abbrev Str := List Nat

macro:max "cps!" s:str : term => do
  let cs ← s.getString.toList.toArray.mapM fun c => ` + "`" + `(nat_lit $(Lean.Syntax.mkNumLit (toString c.toNat)))
  ` + "`" + `([$cs,*])

structure Site where
  proto : Str
  fn : Str
  calls : List Str
  args : List Str
  negs : List Str
  tag : Str
  abort : Bool
  loopVar : Str
  loopOver : Str
  gets : List Str
  loops : List Str
  deriving DecidableEq, Repr

`)
	var chunks []string
	i := 0
	for i < len(sites) {
		j := i
		for j < len(sites) && sites[j].proto == sites[i].proto && sites[j].fn == sites[i].fn {
			j++
		}
		cname := fmt.Sprintf("c%d", len(chunks))
		chunks = append(chunks, cname)
		fmt.Fprintf(&b, "/-- %s %s -/\ndef %s : List Site := [\n", sites[i].proto, sites[i].fn, cname)
		for k := i; k < j; k++ {
			s := sites[k]
			rel := strings.TrimPrefix(s.pos, repo+"/")
			fmt.Fprintf(&b, "  -- %s\n  { proto := %s, fn := %s, calls := %s, args := %s, negs := %s, tag := %s, abort := %v, loopVar := %s, loopOver := %s, gets := %s, loops := %s }",
				rel, ciCps(s.proto), ciCps(s.fn), ciCpsList(s.calls), ciCpsList(s.args), ciCpsList(s.negs), ciCps(s.tag), s.abort, ciCps(s.loopVar), ciCps(s.loopOver), ciCpsList(s.gets), ciCpsList(s.loops))
			if k+1 < j {
				b.WriteString(",")
			}
			b.WriteString("\n")
		}
		b.WriteString("]\n\n")
		i = j
	}
	b.WriteString("def chunks : List (List Site) := [" + strings.Join(chunks, ", ") + "]\n\n/-- the whole table -/\ndef sites : List Site := chunks.flatten\n\n")
	fmt.Fprintf(&b, "def count : Nat := %d\n\nend BronVerif.Gen.CheckInventory\n", len(sites))
	return b.String(), nil
}
