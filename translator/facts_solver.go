package main

// Generator "SolverFacts" (property C20, "interpolation and linear algebra … are exact").
//
// Purely syntactic (go/parser + go/ast; /repo is never built).  Model/LinAlg.lean mirrors the
// Gauss–Jordan routines of pkg/base/mat by hand; this generator extracts their STRUCTURE so that
// Props/C20Facts.lean can compare it with hand-written expectations placed next to the model:
//
//   solver.go   solveAugmented          (model: gaussJordan / gjCol / findPivot / pivotStep /
//                                        the consistency test and `extract` of solveAugmented)
//   solver.go   SolveLeft               (model: solveLeft = solveRight ∘ transposeN)
//   square.go   (*SquareMatrix).Determinant   (model: det / detStep / elimBelow)
//   square.go   (*SquareMatrix).TryInv        (model: inverse / invStep / pivotStep on [A | I])
//   square.go   (*SquareMatrix).findPivotRow  (model: findPivot)
//   traits.go   (*MatrixGroupElementTrait).SwapRowAssign (model: swapRows)
//   traits.go   (*MatrixGroupElementTrait).idx    (row-major addressing; the model uses lists of rows)
//
// For each function it emits the complete statement skeleton in source order, one Step per
// statement: nesting depth and the statement printed in a normal form
//
//   * local variables (receiver, parameters, `:=`, `var`, `for`/`range` variables) are replaced by
//     v0, v1, … in order of binding, with Go's block scoping (so renaming a local changes nothing);
//   * string literals are printed as "…" and `.WithMessage(…)` decorations of errors are dropped
//     (so rewording a message changes nothing); comments and blank lines do not appear at all;
//   * a compound statement is printed as its header (`for v7 := v5; v7 < v0; v7++`, `if v8 < 0`,
//     `for v9 := range v1`, `else`) followed by its body one level deeper.
//
// So "the pivot search starts at row 0", "every row except none is eliminated", "no sign flip on
// swap", "the consistency test starts at row 0 / is missing" … each change a Step and break the
// regenerated obligation `solver_structure_matches_model` even if no generated matrix shows a
// difference.  Anything outside the printed subset (goto, labels, switch, select, func literals,
// composite literals …) makes the generator fail loudly.

import (
	"fmt"
	"go/ast"
	"go/parser"
	"go/token"
	"path/filepath"
	"strings"
)

func init() { register("SolverFacts", genSolverFacts) }

type sfStep struct {
	depth int
	text  string
}

type sfPrinter struct {
	scopes []map[string]string
	next   int
	steps  []sfStep
	err    error
}

func (p *sfPrinter) fail(format string, a ...any) {
	if p.err == nil {
		p.err = fmt.Errorf(format, a...)
	}
}

func (p *sfPrinter) push() { p.scopes = append(p.scopes, map[string]string{}) }
func (p *sfPrinter) pop()  { p.scopes = p.scopes[:len(p.scopes)-1] }

// bind introduces a new local in the innermost scope (redeclare=true: `:=` may re-use a name of
// the same scope).
func (p *sfPrinter) bind(name string, redeclare bool) string {
	if name == "_" {
		return "_"
	}
	top := p.scopes[len(p.scopes)-1]
	if redeclare {
		if v, ok := top[name]; ok {
			return v
		}
	}
	v := fmt.Sprintf("v%d", p.next)
	p.next++
	top[name] = v
	return v
}

func (p *sfPrinter) lookup(name string) string {
	for i := len(p.scopes) - 1; i >= 0; i-- {
		if v, ok := p.scopes[i][name]; ok {
			return v
		}
	}
	return name
}

func (p *sfPrinter) exprs(es []ast.Expr) string {
	out := make([]string, len(es))
	for i, e := range es {
		out[i] = p.expr(e)
	}
	return strings.Join(out, ", ")
}

func (p *sfPrinter) expr(e ast.Expr) string {
	switch x := e.(type) {
	case nil:
		return ""
	case *ast.Ident:
		return p.lookup(x.Name)
	case *ast.BasicLit:
		if x.Kind == token.STRING {
			return "\"…\""
		}
		return x.Value
	case *ast.ParenExpr:
		return "(" + p.expr(x.X) + ")"
	case *ast.SelectorExpr:
		return p.expr(x.X) + "." + x.Sel.Name
	case *ast.StarExpr:
		return "*" + p.expr(x.X)
	case *ast.UnaryExpr:
		return x.Op.String() + p.expr(x.X)
	case *ast.BinaryExpr:
		return p.expr(x.X) + " " + x.Op.String() + " " + p.expr(x.Y)
	case *ast.IndexExpr:
		return p.expr(x.X) + "[" + p.expr(x.Index) + "]"
	case *ast.IndexListExpr:
		return p.expr(x.X) + "[" + p.exprs(x.Indices) + "]"
	case *ast.ArrayType:
		return "[" + p.expr(x.Len) + "]" + p.expr(x.Elt)
	case *ast.CallExpr:
		if s, ok := x.Fun.(*ast.SelectorExpr); ok && s.Sel.Name == "WithMessage" {
			return p.expr(s.X)
		}
		dots := ""
		if x.Ellipsis.IsValid() {
			dots = "..."
		}
		return p.expr(x.Fun) + "(" + p.exprs(x.Args) + dots + ")"
	default:
		p.fail("unsupported expression %T", e)
		return "?"
	}
}

func (p *sfPrinter) emit(depth int, text string) { p.steps = append(p.steps, sfStep{depth, text}) }

// simple prints a statement that fits on one line (used for statements and for-/if-headers).
func (p *sfPrinter) simple(s ast.Stmt) string {
	switch x := s.(type) {
	case nil:
		return ""
	case *ast.ExprStmt:
		return p.expr(x.X)
	case *ast.IncDecStmt:
		return p.expr(x.X) + x.Tok.String()
	case *ast.AssignStmt:
		rhs := p.exprs(x.Rhs)
		var lhs string
		if x.Tok == token.DEFINE {
			names := make([]string, len(x.Lhs))
			for i, l := range x.Lhs {
				id, ok := l.(*ast.Ident)
				if !ok {
					p.fail("unsupported := target %T", l)
					return "?"
				}
				names[i] = p.bind(id.Name, true)
			}
			lhs = strings.Join(names, ", ")
		} else {
			lhs = p.exprs(x.Lhs)
		}
		return lhs + " " + x.Tok.String() + " " + rhs
	case *ast.ReturnStmt:
		if len(x.Results) == 0 {
			return "return"
		}
		return "return " + p.exprs(x.Results)
	case *ast.BranchStmt:
		if x.Label != nil || (x.Tok != token.CONTINUE && x.Tok != token.BREAK) {
			p.fail("unsupported branch statement")
		}
		return x.Tok.String()
	case *ast.DeclStmt:
		gd, ok := x.Decl.(*ast.GenDecl)
		if !ok || gd.Tok != token.VAR {
			p.fail("unsupported declaration")
			return "?"
		}
		var parts []string
		for _, sp := range gd.Specs {
			vs := sp.(*ast.ValueSpec)
			vals := p.exprs(vs.Values)
			typ := p.expr(vs.Type)
			names := make([]string, len(vs.Names))
			for i, n := range vs.Names {
				names[i] = p.bind(n.Name, false)
			}
			t := "var " + strings.Join(names, ", ")
			if typ != "" {
				t += " " + typ
			}
			if vals != "" {
				t += " = " + vals
			}
			parts = append(parts, t)
		}
		return strings.Join(parts, "; ")
	default:
		p.fail("unsupported statement %T", s)
		return "?"
	}
}

func (p *sfPrinter) block(depth int, b *ast.BlockStmt) {
	p.push()
	for _, s := range b.List {
		p.stmt(depth, s)
	}
	p.pop()
}

func (p *sfPrinter) stmt(depth int, s ast.Stmt) {
	switch x := s.(type) {
	case *ast.BlockStmt:
		p.emit(depth, "{")
		p.block(depth+1, x)
	case *ast.IfStmt:
		p.push()
		head := "if "
		if x.Init != nil {
			head += p.simple(x.Init) + "; "
		}
		head += p.expr(x.Cond)
		p.emit(depth, head)
		p.block(depth+1, x.Body)
		switch el := x.Else.(type) {
		case nil:
		case *ast.BlockStmt:
			p.emit(depth, "else")
			p.block(depth+1, el)
		case *ast.IfStmt:
			p.emit(depth, "else")
			p.stmt(depth+1, el)
		default:
			p.fail("unsupported else %T", x.Else)
		}
		p.pop()
	case *ast.ForStmt:
		p.push()
		init := p.simple(x.Init)
		p.emit(depth, "for "+init+"; "+p.expr(x.Cond)+"; "+p.simple(x.Post))
		p.block(depth+1, x.Body)
		p.pop()
	case *ast.RangeStmt:
		p.push()
		over := p.expr(x.X)
		head := "for "
		if x.Key != nil {
			if x.Tok != token.DEFINE {
				p.fail("unsupported range assignment")
			}
			vars := []string{}
			for _, kv := range []ast.Expr{x.Key, x.Value} {
				if kv == nil {
					continue
				}
				id, ok := kv.(*ast.Ident)
				if !ok {
					p.fail("unsupported range variable %T", kv)
					continue
				}
				vars = append(vars, p.bind(id.Name, false))
			}
			head += strings.Join(vars, ", ") + " := "
		}
		p.emit(depth, head+"range "+over)
		p.block(depth+1, x.Body)
		p.pop()
	default:
		p.emit(depth, p.simple(s))
	}
}

// sfFunc prints one function declaration: receiver and parameters are bound first (in that order).
func sfFunc(fd *ast.FuncDecl) ([]sfStep, error) {
	p := &sfPrinter{}
	p.push()
	for _, fl := range []*ast.FieldList{fd.Recv, fd.Type.Params} {
		if fl == nil {
			continue
		}
		for _, f := range fl.List {
			for _, n := range f.Names {
				p.bind(n.Name, false)
			}
		}
	}
	if fd.Type.Results != nil {
		for _, f := range fd.Type.Results.List {
			for _, n := range f.Names {
				p.bind(n.Name, false)
			}
		}
	}
	if fd.Body == nil {
		return nil, fmt.Errorf("%s has no body", fd.Name.Name)
	}
	p.block(0, fd.Body)
	return p.steps, p.err
}

// sfRecv returns the receiver's base type name ("" for a plain function).
func sfRecv(fd *ast.FuncDecl) string {
	if fd.Recv == nil || len(fd.Recv.List) == 0 {
		return ""
	}
	t := fd.Recv.List[0].Type
	for {
		switch x := t.(type) {
		case *ast.StarExpr:
			t = x.X
		case *ast.IndexExpr:
			t = x.X
		case *ast.IndexListExpr:
			t = x.X
		case *ast.Ident:
			return x.Name
		default:
			return "?"
		}
	}
}

type sfTarget struct {
	file, recv, name, lean string
}

var sfTargets = []sfTarget{
	{"solver.go", "", "solveAugmented", "solveAugmented"},
	{"solver.go", "", "SolveLeft", "solveLeft"},
	{"square.go", "SquareMatrix", "Determinant", "determinant"},
	{"square.go", "SquareMatrix", "TryInv", "tryInv"},
	{"square.go", "SquareMatrix", "findPivotRow", "findPivotRow"},
	{"traits.go", "MatrixGroupElementTrait", "SwapRowAssign", "swapRowAssign"},
	{"traits.go", "MatrixGroupElementTrait", "idx", "idx"},
}

func sfLeanStr(s string) string {
	s = strings.ReplaceAll(s, "\\", "\\\\")
	s = strings.ReplaceAll(s, "\"", "\\\"")
	return "sf!\"" + s + "\""
}

func genSolverFacts(repo string) (string, error) {
	dir := filepath.Join(repo, "pkg", "base", "mat")
	fset := token.NewFileSet()
	files := map[string]*ast.File{}
	var b strings.Builder
	b.WriteString("/-! Statement skeletons of the Gauss–Jordan routines of `pkg/base/mat` (locals renamed to\n" +
		"`v0, v1, …` in binding order, messages elided).  See translator/facts_solver.go. -/\n")
	b.WriteString("namespace BronVerif.Gen.SolverFacts\n\n")
	b.WriteString("/-- Text as the list of its code points (kernel-friendly). -/\nabbrev Str := List Nat\n\n")
	b.WriteString("macro:max \"sf!\" s:str : term => do\n" +
		"  let cs ← s.getString.toList.toArray.mapM fun c => `(nat_lit $(Lean.Syntax.mkNumLit (toString c.toNat)))\n" +
		"  `([$cs,*])\n\n")
	b.WriteString("structure Step where\n  depth : Nat\n  text : Str\n  deriving DecidableEq, Repr\n\n")
	for _, t := range sfTargets {
		f, ok := files[t.file]
		if !ok {
			var err error
			f, err = parser.ParseFile(fset, filepath.Join(dir, t.file), nil, 0)
			if err != nil {
				return "", err
			}
			files[t.file] = f
		}
		var found *ast.FuncDecl
		for _, d := range f.Decls {
			fd, ok := d.(*ast.FuncDecl)
			if !ok || fd.Name.Name != t.name || sfRecv(fd) != t.recv {
				continue
			}
			if found != nil {
				return "", fmt.Errorf("%s: two declarations of %s", t.file, t.name)
			}
			found = fd
		}
		if found == nil {
			return "", fmt.Errorf("%s: function %s (receiver %q) not found", t.file, t.name, t.recv)
		}
		steps, err := sfFunc(found)
		if err != nil {
			return "", fmt.Errorf("%s %s: %w", t.file, t.name, err)
		}
		fmt.Fprintf(&b, "/-- `%s` of pkg/base/mat/%s -/\ndef %s : List Step := [\n", t.name, t.file, t.lean)
		for i, s := range steps {
			sep := ","
			if i == len(steps)-1 {
				sep = ""
			}
			fmt.Fprintf(&b, "  ⟨%d, %s⟩%s\n", s.depth, sfLeanStr(s.text), sep)
		}
		b.WriteString("]\n\n")
	}
	b.WriteString("end BronVerif.Gen.SolverFacts\n")
	return b.String(), nil
}
