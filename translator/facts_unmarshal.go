package main

// Generator "UnmarshalFacts" (property C12, decoder discipline).
//
// For every method `func (r *T) UnmarshalCBOR(data []byte) error` in a non-test file under
// <repo>/pkg it records, purely syntactically (go/parser + go/ast, no type information):
//
//   pkg      package directory relative to the repository root
//   recv     receiver type name (type parameters dropped)
//   dto      the type(s) decoded into (type parameters and leading '*' dropped; several decode
//            sites in one body are joined by '|' in source order, duplicates removed)
//   decode   the decoding call ("serde.UnmarshalCBOR"), "" when the method only delegates,
//            "unknown" when neither a decode nor a delegation was recognised
//   calls    role names of every call in the body (source order, duplicates removed) except the
//            decode itself, builtins and pure error construction/wrapping.  A role name is the
//            dotted callee chain without arguments/type parameters: "NewBaseShard",
//            "NewCurve.FromCompressed", "num.NPlus.FromModulusCT"; a method on a local variable
//            or on a DTO field is "·.Method"; a method directly on the receiver is "recv.Method"
//   checks   guard conditions: every `if [init;] cond { …; return <non-nil> }` whose condition is
//            not just `err != nil` / `err == nil`, printed with the receiver variable renamed to
//            `recv` and every DTO variable renamed to `dto`
//   assigns  number of statements that write to the receiver: `*recv = …`, `recv.f = …`,
//            `recv.f.M(…)` (method on a receiver field, e.g. `recv.V.Set(&x.V)`), `copy(recv…, …)`
//   assignsDtoDirect  some such statement has a source expression that mentions a DTO variable
//            outside the arguments of a (non-transparent) call, i.e. DTO data reaches the receiver
//            without passing through a call result
//   dtoPtr   some decode site decodes into a pointer type (`[*fooDTO]`): CBOR null then yields a
//            nil DTO
//   nilGuard some guard condition has `dto == nil` as the whole condition or as a top-level
//            `||`-disjunct
//   delegates  role name of the call the data is forwarded to when there is no decode in the body;
//            if that is a plain function of the same package its body is analysed too (one level)
//            and its dto/decode/calls/checks are merged in
//
// Anything that does not parse, or a receiver/parameter list of unexpected shape, is an error.

import (
	"bytes"
	"fmt"
	"go/ast"
	"go/parser"
	"go/printer"
	"go/token"
	"io/fs"
	"os"
	"path/filepath"
	"sort"
	"strconv"
	"strings"
)

func init() { register("UnmarshalFacts", genUnmarshalFacts) }

type unmarshalFact struct {
	pkg, recv, dto, decode string
	calls, checks          []string
	direct                 bool
	assigns                int
	delegates              string
	dtoPtr, nilGuard       bool
	pos                    string
}

// goBuiltins are never recorded as calls.
var ufBuiltins = map[string]bool{
	"len": true, "cap": true, "make": true, "new": true, "append": true, "copy": true,
	"any": true, "min": true, "max": true, "delete": true, "panic": true, "clear": true,
	"string": true, "int": true, "uint": true, "uint64": true, "int64": true, "byte": true,
	"uint32": true, "int32": true, "uint16": true, "uint8": true, "bool": true,
}

// ufTransparent calls let their arguments flow through unchanged (for assignsDtoDirect).
var ufTransparent = map[string]bool{
	"slices.Clone": true, "bytes.Clone": true, "maps.Clone": true, "append": true, "any": true,
	"copy": true, "new": true,
}

func genUnmarshalFacts(repo string) (string, error) {
	root := filepath.Join(repo, "pkg")
	byDir := map[string][]string{}
	err := filepath.WalkDir(root, func(p string, d fs.DirEntry, err error) error {
		if err != nil {
			return err
		}
		if d.IsDir() || !strings.HasSuffix(p, ".go") || strings.HasSuffix(p, "_test.go") {
			return nil
		}
		dir := filepath.Dir(p)
		byDir[dir] = append(byDir[dir], p)
		return nil
	})
	if err != nil {
		return "", err
	}
	dirs := make([]string, 0, len(byDir))
	for d := range byDir {
		dirs = append(dirs, d)
	}
	sort.Strings(dirs)

	var facts []unmarshalFact
	for _, dir := range dirs {
		files := byDir[dir]
		sort.Strings(files)
		fset := token.NewFileSet()
		var parsed []*ast.File
		srcs := make([][]byte, len(files))
		relevant := false
		for i, p := range files {
			src, err := os.ReadFile(p)
			if err != nil {
				return "", err
			}
			srcs[i] = src
			if bytes.Contains(src, []byte("UnmarshalCBOR(")) {
				relevant = true
			}
		}
		if !relevant {
			continue
		}
		for i, p := range files {
			f, err := parser.ParseFile(fset, p, srcs[i], parser.SkipObjectResolution)
			if err != nil {
				return "", fmt.Errorf("parse %s: %w", p, err)
			}
			parsed = append(parsed, f)
		}
		// package-level plain functions (for one-level helper inlining)
		funcs := map[string]*ast.FuncDecl{}
		for _, f := range parsed {
			for _, d := range f.Decls {
				if fd, ok := d.(*ast.FuncDecl); ok && fd.Recv == nil && fd.Body != nil {
					funcs[fd.Name.Name] = fd
				}
			}
		}
		rel, err := filepath.Rel(repo, dir)
		if err != nil {
			return "", err
		}
		rel = filepath.ToSlash(rel)
		for _, f := range parsed {
			imports := ufImportNames(f)
			for _, d := range f.Decls {
				fd, ok := d.(*ast.FuncDecl)
				if !ok || fd.Recv == nil || fd.Name.Name != "UnmarshalCBOR" {
					continue
				}
				fact, err := ufAnalyse(fset, rel, fd, imports, funcs)
				if err != nil {
					return "", fmt.Errorf("%s: %w", fset.Position(fd.Pos()), err)
				}
				facts = append(facts, fact)
			}
		}
	}
	if len(facts) == 0 {
		return "", fmt.Errorf("no UnmarshalCBOR methods found under %s", root)
	}
	sort.SliceStable(facts, func(i, j int) bool {
		if facts[i].pkg != facts[j].pkg {
			return facts[i].pkg < facts[j].pkg
		}
		return facts[i].recv < facts[j].recv
	})
	for i := 1; i < len(facts); i++ {
		if facts[i].pkg == facts[i-1].pkg && facts[i].recv == facts[i-1].recv {
			return "", fmt.Errorf("duplicate UnmarshalCBOR for %s.%s", facts[i].pkg, facts[i].recv)
		}
	}

	var b strings.Builder
	b.WriteString("-- Table of all UnmarshalCBOR methods of /repo/pkg (decoder discipline, property C12).\n")
	b.WriteString("-- Field meanings: see translator/facts_unmarshal.go.\n")
	b.WriteString("namespace BronVerif.Gen.UnmarshalFacts\n\n")
	b.WriteString("/-- Text is stored as the list of its code points: every comparison in the discipline theorem is\n")
	b.WriteString("    evaluated by the kernel (`decide +kernel`), where `String` equality is ~300x slower than\n")
	b.WriteString("    equality of `List Nat` with raw literals.  `cps!\"abc\"` is notation for `[97, 98, 99]`. -/\n")
	b.WriteString("abbrev Str := List Nat\n\n")
	b.WriteString("macro:max \"cps!\" s:str : term => do\n")
	b.WriteString("  let cs ← s.getString.toList.toArray.mapM fun c => `(nat_lit $(Lean.Syntax.mkNumLit (toString c.toNat)))\n")
	b.WriteString("  `([$cs,*])\n\n")
	b.WriteString("/-- Back to text (for `#eval`/debugging only). -/\n")
	b.WriteString("def Str.render (s : Str) : String := String.ofList (s.map Char.ofNat)\n\n")
	b.WriteString("structure Fact where\n")
	b.WriteString("  pkg : Str\n  recv : Str\n  dto : Str\n  decode : Str\n")
	b.WriteString("  calls : List Str\n  checks : List Str\n")
	b.WriteString("  assignsDtoDirect : Bool\n  assigns : Nat\n  dtoPtr : Bool\n  nilGuard : Bool\n  delegates : Str\n")
	b.WriteString("  deriving DecidableEq, Repr\n\n")
	// one definition per package keeps every elaboration unit small
	var chunkNames []string
	i := 0
	for i < len(facts) {
		j := i
		for j < len(facts) && facts[j].pkg == facts[i].pkg {
			j++
		}
		name := "t" + strconv.Itoa(len(chunkNames))
		chunkNames = append(chunkNames, name)
		fmt.Fprintf(&b, "/-- %s -/\ndef %s : List Fact := [\n", facts[i].pkg, name)
		for k := i; k < j; k++ {
			f := facts[k]
			fmt.Fprintf(&b, "  -- %s\n", f.pos)
			fmt.Fprintf(&b, "  { pkg := %s, recv := %s, dto := %s, decode := %s,\n", leanStr(f.pkg), leanStr(f.recv), leanStr(f.dto), leanStr(f.decode))
			fmt.Fprintf(&b, "    calls := %s,\n", leanStrList(f.calls))
			fmt.Fprintf(&b, "    checks := %s,\n", leanStrList(f.checks))
			fmt.Fprintf(&b, "    assignsDtoDirect := %t, assigns := %d, dtoPtr := %t, nilGuard := %t, delegates := %s }", f.direct, f.assigns, f.dtoPtr, f.nilGuard, leanStr(f.delegates))
			if k+1 < j {
				b.WriteString(",")
			}
			b.WriteString("\n")
		}
		b.WriteString("]\n\n")
		i = j
	}
	b.WriteString("/-- The per-package chunks, in (pkg, recv) order. -/\n")
	b.WriteString("def chunks : List (List Fact) := [" + strings.Join(chunkNames, ", ") + "]\n\n")
	b.WriteString("def table : List Fact := chunks.flatten\n\n")
	fmt.Fprintf(&b, "def tableSize : Nat := %d\n\n", len(facts))
	b.WriteString("end BronVerif.Gen.UnmarshalFacts\n")
	return b.String(), nil
}

func leanStr(s string) string {
	var b strings.Builder
	b.WriteString("cps!\"")
	for _, r := range s {
		switch r {
		case '"':
			b.WriteString("\\\"")
		case '\\':
			b.WriteString("\\\\")
		case '\n':
			b.WriteString("\\n")
		case '\t':
			b.WriteString("\\t")
		case '\r':
			b.WriteString("\\r")
		default:
			if r < 0x20 {
				fmt.Fprintf(&b, "\\x%02x", r)
			} else {
				b.WriteRune(r)
			}
		}
	}
	b.WriteByte('"')
	return b.String()
}

func leanStrList(xs []string) string {
	parts := make([]string, len(xs))
	for i, x := range xs {
		parts[i] = leanStr(x)
	}
	return "[" + strings.Join(parts, ", ") + "]"
}

// ufImportNames returns the identifiers under which packages are visible in the file.
func ufImportNames(f *ast.File) map[string]bool {
	out := map[string]bool{}
	for _, im := range f.Imports {
		if im.Name != nil {
			if im.Name.Name != "_" && im.Name.Name != "." {
				out[im.Name.Name] = true
			}
			continue
		}
		p, err := strconv.Unquote(im.Path.Value)
		if err != nil {
			continue
		}
		parts := strings.Split(p, "/")
		last := parts[len(parts)-1]
		// ".../cbor/v2" is package cbor
		if len(parts) > 1 && len(last) > 1 && last[0] == 'v' && strings.Trim(last[1:], "0123456789") == "" {
			last = parts[len(parts)-2]
		}
		last = strings.TrimSuffix(last, "-go")
		last = strings.ReplaceAll(last, "-", "_")
		out[last] = true
	}
	return out
}

// typeName renders a type expression without type parameters and leading '*'.
func ufTypeName(e ast.Expr) string {
	switch t := e.(type) {
	case *ast.StarExpr:
		return ufTypeName(t.X)
	case *ast.ParenExpr:
		return ufTypeName(t.X)
	case *ast.IndexExpr:
		return ufTypeName(t.X)
	case *ast.IndexListExpr:
		return ufTypeName(t.X)
	case *ast.Ident:
		return t.Name
	case *ast.SelectorExpr:
		return ufTypeName(t.X) + "." + t.Sel.Name
	case *ast.ArrayType:
		return "[]" + ufTypeName(t.Elt)
	case *ast.MapType:
		return "map[" + ufTypeName(t.Key) + "]" + ufTypeName(t.Value)
	}
	return "?"
}

type ufScope struct {
	fset    *token.FileSet
	imports map[string]bool
	locals  map[string]bool // every identifier bound inside the function (params, :=, var, range)
	recv    string          // receiver variable name ("" in helpers) — after renaming: "recv"
	data    string          // name of the []byte parameter
}

// stripIndex removes explicit type arguments from a callee expression.
func ufStripIndex(e ast.Expr) (ast.Expr, []ast.Expr) {
	switch t := e.(type) {
	case *ast.IndexExpr:
		return t.X, []ast.Expr{t.Index}
	case *ast.IndexListExpr:
		return t.X, t.Indices
	case *ast.ParenExpr:
		return ufStripIndex(t.X)
	}
	return e, nil
}

// role renders the callee chain of a call (see file comment).
func (s *ufScope) role(fun ast.Expr) string {
	fun, _ = ufStripIndex(fun)
	switch t := fun.(type) {
	case *ast.Ident:
		if s.locals[t.Name] && !s.imports[t.Name] {
			return "·"
		}
		return t.Name
	case *ast.SelectorExpr:
		return s.base(t.X) + "." + t.Sel.Name
	case *ast.FuncLit:
		return "func"
	case *ast.ArrayType, *ast.MapType, *ast.StarExpr, *ast.InterfaceType, *ast.ChanType, *ast.FuncType:
		return "" // conversion
	}
	return "·"
}

// base renders what a method is selected from.
func (s *ufScope) base(x ast.Expr) string {
	switch t := x.(type) {
	case *ast.Ident:
		switch {
		case t.Name == "recv" && s.recv == "recv":
			return "recv"
		case s.locals[t.Name]:
			return "·"
		default:
			return t.Name // package name or package-level identifier
		}
	case *ast.CallExpr:
		r := s.role(t.Fun)
		if r == "" {
			return "·"
		}
		return r
	case *ast.SelectorExpr:
		b := s.base(t.X)
		if b == "·" {
			return "·" // field of a local / DTO: variable names and field paths do not matter
		}
		return b + "." + t.Sel.Name
	case *ast.ParenExpr:
		return s.base(t.X)
	case *ast.StarExpr:
		return s.base(t.X)
	case *ast.UnaryExpr:
		return s.base(t.X)
	case *ast.IndexExpr:
		b := s.base(t.X)
		if strings.HasPrefix(b, "recv") {
			return b
		}
		return "·"
	}
	return "·"
}

func ufIsErrWrapRole(r string) bool {
	if r == "" {
		return true
	}
	parts := strings.Split(r, ".")
	head, last := parts[0], parts[len(parts)-1]
	if head == "errs" || head == "fmt" || head == "errors" {
		return true
	}
	switch last {
	case "WithMessage", "WithStackFrame", "WithTag", "Errorf", "Error":
		return true
	}
	if strings.HasPrefix(head, "Err") && len(parts) > 1 {
		return true
	}
	return false
}

// rootIdent returns the identifier an lvalue-like expression is rooted at.
func ufRootIdent(e ast.Expr) *ast.Ident {
	for {
		switch t := e.(type) {
		case *ast.Ident:
			return t
		case *ast.SelectorExpr:
			e = t.X
		case *ast.StarExpr:
			e = t.X
		case *ast.ParenExpr:
			e = t.X
		case *ast.IndexExpr:
			e = t.X
		case *ast.SliceExpr:
			e = t.X
		case *ast.UnaryExpr:
			e = t.X
		case *ast.CallExpr:
			// recv.data() as a copy destination: follow the method's receiver
			if sel, ok := t.Fun.(*ast.SelectorExpr); ok {
				e = sel.X
				continue
			}
			return nil
		default:
			return nil
		}
	}
}

// mentionsDirect reports whether e mentions identifier `dto` outside the arguments of a
// non-transparent call.
func (s *ufScope) mentionsDirect(e ast.Expr) bool {
	found := false
	var walk func(n ast.Node)
	walk = func(n ast.Node) {
		if n == nil || found {
			return
		}
		switch t := n.(type) {
		case *ast.Ident:
			if t.Name == "dto" {
				found = true
			}
		case *ast.SelectorExpr:
			walk(t.X)
		case *ast.CallExpr:
			walk(t.Fun)
			r := s.role(t.Fun)
			if ufTransparent[r] || r == "" {
				for _, a := range t.Args {
					walk(a)
				}
			}
		case *ast.FuncLit:
			// opaque
		default:
			ast.Inspect(n, func(c ast.Node) bool {
				if c == nil || c == n {
					return true
				}
				walk(c)
				return false
			})
		}
	}
	walk(e)
	return found
}

func ufIsErrCond(e ast.Expr) bool {
	be, ok := e.(*ast.BinaryExpr)
	if !ok || (be.Op != token.NEQ && be.Op != token.EQL) {
		return false
	}
	x, ok1 := be.X.(*ast.Ident)
	y, ok2 := be.Y.(*ast.Ident)
	return ok1 && ok2 && strings.HasPrefix(strings.ToLower(x.Name), "err") && y.Name == "nil"
}

// ufHasNilGuard: cond is `dto == nil` or has it as a top-level ||-disjunct (after renaming).
func ufHasNilGuard(e ast.Expr) bool {
	switch t := e.(type) {
	case *ast.ParenExpr:
		return ufHasNilGuard(t.X)
	case *ast.BinaryExpr:
		if t.Op == token.LOR {
			return ufHasNilGuard(t.X) || ufHasNilGuard(t.Y)
		}
		if t.Op == token.EQL {
			x, ok1 := t.X.(*ast.Ident)
			y, ok2 := t.Y.(*ast.Ident)
			return ok1 && ok2 && x.Name == "dto" && y.Name == "nil"
		}
	}
	return false
}

func ufReturnsNonNil(body *ast.BlockStmt) bool {
	for _, st := range body.List {
		rs, ok := st.(*ast.ReturnStmt)
		if !ok || len(rs.Results) == 0 {
			continue
		}
		last := rs.Results[len(rs.Results)-1]
		if id, ok := last.(*ast.Ident); ok && id.Name == "nil" {
			continue
		}
		return true
	}
	return false
}

func (s *ufScope) print(n ast.Node) string {
	var b bytes.Buffer
	if err := printer.Fprint(&b, s.fset, n); err != nil {
		return "?"
	}
	return strings.Join(strings.Fields(b.String()), " ")
}

type ufBodyFacts struct {
	dtoTypes  []string
	decode    string
	calls     []string
	checks    []string
	direct    bool
	assigns   int
	dtoPtr    bool
	nilGuard  bool
	delegates string
	delegFun  string // plain identifier of the delegate when it is a same-package function
}

func ufAppendUnique(xs []string, x string) []string {
	for _, y := range xs {
		if y == x {
			return xs
		}
	}
	return append(xs, x)
}

// isDecodeCall recognises `pkg.UnmarshalXxx[T](data)` / `UnmarshalXxx[T](data)` and
// `x.Unmarshal(data, &v)`-style calls; returns the decode role and the DTO type ("" if the
// type is given by the destination variable).
func (s *ufScope) isDecodeCall(c *ast.CallExpr) (role string, dtoType string, dst *ast.Ident, ok bool) {
	role, dtoType, dst, _, ok = s.isDecodeCallP(c)
	return role, dtoType, dst, ok
}

func (s *ufScope) isDecodeCallP(c *ast.CallExpr) (role string, dtoType string, dst *ast.Ident, ptr bool, ok bool) {
	fun, targs := ufStripIndex(c.Fun)
	name := ""
	switch t := fun.(type) {
	case *ast.Ident:
		name = t.Name
	case *ast.SelectorExpr:
		name = t.Sel.Name
	default:
		return "", "", nil, false, false
	}
	if !strings.Contains(name, "Unmarshal") && !strings.Contains(name, "Decode") {
		return "", "", nil, false, false
	}
	hasData := false
	for _, a := range c.Args {
		if id, ok := a.(*ast.Ident); ok && id.Name == s.data {
			hasData = true
		}
	}
	if !hasData {
		return "", "", nil, false, false
	}
	if len(targs) == 1 {
		_, isPtr := targs[0].(*ast.StarExpr)
		return s.role(fun), ufTypeName(targs[0]), nil, isPtr, true
	}
	// Unmarshal(data, &v): destination must be a local (not the receiver → that is delegation)
	for _, a := range c.Args {
		if u, ok := a.(*ast.UnaryExpr); ok && u.Op == token.AND {
			if id, ok := u.X.(*ast.Ident); ok && id.Name != "recv" && s.locals[id.Name] {
				return s.role(fun), "", id, false, true
			}
		}
	}
	return "", "", nil, false, false
}

// ufCollectLocals gathers every identifier bound in the function.
func ufCollectLocals(fd *ast.FuncDecl) (map[string]bool, map[string]ast.Expr) {
	locals := map[string]bool{}
	varTypes := map[string]ast.Expr{}
	addFields := func(fl *ast.FieldList) {
		if fl == nil {
			return
		}
		for _, f := range fl.List {
			for _, n := range f.Names {
				locals[n.Name] = true
			}
		}
	}
	addFields(fd.Recv)
	addFields(fd.Type.Params)
	addFields(fd.Type.Results)
	ast.Inspect(fd.Body, func(n ast.Node) bool {
		switch t := n.(type) {
		case *ast.AssignStmt:
			if t.Tok == token.DEFINE {
				for _, l := range t.Lhs {
					if id, ok := l.(*ast.Ident); ok {
						locals[id.Name] = true
					}
				}
			}
		case *ast.RangeStmt:
			if t.Tok == token.DEFINE {
				for _, l := range []ast.Expr{t.Key, t.Value} {
					if id, ok := l.(*ast.Ident); ok {
						locals[id.Name] = true
					}
				}
			}
		case *ast.ValueSpec:
			for _, n := range t.Names {
				locals[n.Name] = true
				if t.Type != nil {
					varTypes[n.Name] = t.Type
				}
			}
		case *ast.FuncLit:
			addFields(t.Type.Params)
		case *ast.TypeSwitchStmt:
			if a, ok := t.Assign.(*ast.AssignStmt); ok {
				for _, l := range a.Lhs {
					if id, ok := l.(*ast.Ident); ok {
						locals[id.Name] = true
					}
				}
			}
		}
		return true
	})
	delete(locals, "_")
	return locals, varTypes
}

// ufRename renames identifiers (not selector field names, not struct-literal keys).
func ufRename(body ast.Node, ren map[string]string) {
	skip := map[*ast.Ident]bool{}
	ast.Inspect(body, func(n ast.Node) bool {
		switch t := n.(type) {
		case *ast.SelectorExpr:
			skip[t.Sel] = true
		case *ast.KeyValueExpr:
			if id, ok := t.Key.(*ast.Ident); ok {
				skip[id] = true
			}
		}
		return true
	})
	ast.Inspect(body, func(n ast.Node) bool {
		if id, ok := n.(*ast.Ident); ok && !skip[id] {
			if to, ok := ren[id.Name]; ok {
				id.Name = to
			}
		}
		return true
	})
}

// ufAnalyseBody analyses one function body.  recvName == "" for helper functions.
func ufAnalyseBody(fset *token.FileSet, fd *ast.FuncDecl, recvName string, imports map[string]bool) (ufBodyFacts, error) {
	var out ufBodyFacts
	// the []byte parameter
	dataName := ""
	if fd.Type.Params != nil {
		for _, f := range fd.Type.Params.List {
			if at, ok := f.Type.(*ast.ArrayType); ok && at.Len == nil {
				if id, ok := at.Elt.(*ast.Ident); ok && id.Name == "byte" && len(f.Names) == 1 {
					dataName = f.Names[0].Name
				}
			}
		}
	}
	if dataName == "" {
		return out, fmt.Errorf("no []byte parameter")
	}
	locals, varTypes := ufCollectLocals(fd)
	if recvName != "" && (locals["recv"] && recvName != "recv") {
		return out, fmt.Errorf("local named recv clashes with renaming")
	}
	s := &ufScope{fset: fset, imports: imports, locals: locals, data: dataName}

	// pass 1: find decode sites and the DTO variables
	dtoVars := map[string]bool{}
	ast.Inspect(fd.Body, func(n ast.Node) bool {
		as, ok := n.(*ast.AssignStmt)
		if ok && len(as.Rhs) == 1 {
			if c, ok := as.Rhs[0].(*ast.CallExpr); ok {
				if role, ty, dst, ptr, ok := s.isDecodeCallP(c); ok {
					out.decode = role
					out.dtoPtr = out.dtoPtr || ptr
					if dst != nil {
						dtoVars[dst.Name] = true
						if vt, ok := varTypes[dst.Name]; ok {
							ty = ufTypeName(vt)
						} else {
							ty = "?"
						}
					} else if id, ok := as.Lhs[0].(*ast.Ident); ok && id.Name != "_" {
						dtoVars[id.Name] = true
					}
					out.dtoTypes = ufAppendUnique(out.dtoTypes, ty)
				}
			}
		}
		return true
	})
	// decode calls not in an assignment (`if err := x.Unmarshal(data, &v); …` is an AssignStmt, so
	// this only catches bare expression statements)
	ast.Inspect(fd.Body, func(n ast.Node) bool {
		es, ok := n.(*ast.ExprStmt)
		if !ok {
			return true
		}
		if c, ok := es.X.(*ast.CallExpr); ok {
			if role, ty, dst, ok := s.isDecodeCall(c); ok && dst != nil {
				out.decode = role
				dtoVars[dst.Name] = true
				if vt, ok := varTypes[dst.Name]; ok {
					ty = ufTypeName(vt)
				} else {
					ty = "?"
				}
				out.dtoTypes = ufAppendUnique(out.dtoTypes, ty)
			}
		}
		return true
	})

	// rename receiver → recv, DTO variables → dto
	ren := map[string]string{}
	for v := range dtoVars {
		if v != "dto" {
			ren[v] = "dto"
		}
	}
	if len(dtoVars) > 0 && locals["dto"] && !dtoVars["dto"] {
		return out, fmt.Errorf("local named dto is not a decode result")
	}
	if recvName != "" {
		if dtoVars[recvName] {
			return out, fmt.Errorf("receiver used as DTO variable")
		}
		ren[recvName] = "recv"
		s.recv = "recv"
		delete(locals, recvName)
		locals["recv"] = true
	}
	for v := range dtoVars {
		delete(locals, v)
	}
	if len(dtoVars) > 0 {
		locals["dto"] = true
	}
	ufRename(fd.Body, ren)

	// pass 2: calls (custom walk so that chained calls are one role), checks, assignments
	var visit func(n ast.Node)
	emitCall := func(c *ast.CallExpr) {
		if _, _, _, ok := s.isDecodeCall(c); ok {
			return
		}
		r := s.role(c.Fun)
		if r == "" || r == "·" || ufBuiltins[r] || ufIsErrWrapRole(r) {
			return
		}
		// forwarding of the raw bytes when nothing was decoded here → delegation
		if out.decode == "" {
			for _, a := range c.Args {
				if id, ok := a.(*ast.Ident); ok && id.Name == dataName && out.delegates == "" {
					out.delegates = r
					if id, ok := c.Fun.(*ast.Ident); ok {
						out.delegFun = id.Name
					} else if f, _ := ufStripIndex(c.Fun); f != nil {
						if id, ok := f.(*ast.Ident); ok {
							out.delegFun = id.Name
						}
					}
				}
			}
		}
		out.calls = ufAppendUnique(out.calls, r)
	}
	var visitCallee func(fun ast.Expr)
	visitCallee = func(fun ast.Expr) {
		// walk the callee chain without emitting the inner calls of `A().B()` separately
		fun, _ = ufStripIndex(fun)
		switch t := fun.(type) {
		case *ast.SelectorExpr:
			switch x := t.X.(type) {
			case *ast.CallExpr:
				visitCallee(x.Fun)
				for _, a := range x.Args {
					visit(a)
				}
			default:
				visit(t.X)
			}
		case *ast.FuncLit:
			visit(t.Body)
		}
	}
	recordAssign := func(srcs []ast.Expr) {
		out.assigns++
		for _, e := range srcs {
			if s.mentionsDirect(e) {
				out.direct = true
			}
		}
	}
	isRecvRooted := func(e ast.Expr) bool {
		id := ufRootIdent(e)
		return id != nil && s.recv != "" && id.Name == "recv"
	}
	visit = func(n ast.Node) {
		if n == nil {
			return
		}
		switch t := n.(type) {
		case *ast.CallExpr:
			emitCall(t)
			visitCallee(t.Fun)
			for _, a := range t.Args {
				visit(a)
			}
			return
		case *ast.IfStmt:
			if !ufIsErrCond(t.Cond) && ufReturnsNonNil(t.Body) {
				txt := s.print(t.Cond)
				if t.Init != nil {
					txt = s.print(t.Init) + "; " + txt
				}
				out.checks = ufAppendUnique(out.checks, txt)
				if ufHasNilGuard(t.Cond) {
					out.nilGuard = true
				}
			}
		case *ast.AssignStmt:
			for _, l := range t.Lhs {
				if _, isIdent := l.(*ast.Ident); isIdent {
					continue // rebinding the receiver variable itself is not a write through it
				}
				if isRecvRooted(l) {
					recordAssign(t.Rhs)
					break
				}
			}
		case *ast.ExprStmt:
			if c, ok := t.X.(*ast.CallExpr); ok {
				fun, _ := ufStripIndex(c.Fun)
				if id, ok := fun.(*ast.Ident); ok && id.Name == "copy" && len(c.Args) == 2 && isRecvRooted(c.Args[0]) {
					recordAssign(c.Args[1:])
				}
				if sel, ok := fun.(*ast.SelectorExpr); ok {
					// recv.f.M(args): mutation of a receiver field (recv.M(args) is a call "recv.M")
					if _, direct := sel.X.(*ast.Ident); !direct && isRecvRooted(sel.X) {
						recordAssign(c.Args)
						for _, a := range c.Args {
							visit(a)
						}
						return
					}
				}
			}
		}
		// generic descent
		ast.Inspect(n, func(c ast.Node) bool {
			if c == nil || c == n {
				return true
			}
			visit(c)
			return false
		})
	}
	visit(fd.Body)
	return out, nil
}

func ufAnalyse(fset *token.FileSet, pkg string, fd *ast.FuncDecl, imports map[string]bool, funcs map[string]*ast.FuncDecl) (unmarshalFact, error) {
	var fact unmarshalFact
	fact.pkg = pkg
	p := fset.Position(fd.Pos())
	fact.pos = fmt.Sprintf("%s/%s:%d", pkg, filepath.Base(p.Filename), p.Line)
	if len(fd.Recv.List) != 1 || fd.Body == nil {
		return fact, fmt.Errorf("unexpected receiver list")
	}
	rf := fd.Recv.List[0]
	fact.recv = ufTypeName(rf.Type)
	if fact.recv == "?" {
		return fact, fmt.Errorf("unexpected receiver type")
	}
	recvName := ""
	if len(rf.Names) == 1 && rf.Names[0].Name != "_" {
		recvName = rf.Names[0].Name
	}
	if recvName == "" {
		recvName = "recv" // unnamed receiver: nothing can be assigned through it
	}
	bf, err := ufAnalyseBody(fset, fd, recvName, imports)
	if err != nil {
		return fact, err
	}
	fact.decode = bf.decode
	fact.calls = bf.calls
	fact.checks = bf.checks
	fact.direct = bf.direct
	fact.assigns = bf.assigns
	fact.dtoPtr = bf.dtoPtr
	fact.nilGuard = bf.nilGuard
	dtos := bf.dtoTypes
	if bf.decode == "" {
		if bf.delegates == "" {
			fact.decode = "unknown"
		} else {
			fact.delegates = bf.delegates
			if h, ok := funcs[bf.delegFun]; ok && bf.delegFun != "" {
				hf, err := ufAnalyseBody(fset, h, "", imports)
				if err != nil {
					return fact, fmt.Errorf("helper %s: %w", bf.delegFun, err)
				}
				fact.decode = hf.decode
				fact.dtoPtr = hf.dtoPtr
				fact.nilGuard = hf.nilGuard
				dtos = hf.dtoTypes
				for _, c := range hf.calls {
					fact.calls = ufAppendUnique(fact.calls, c)
				}
				for _, c := range hf.checks {
					fact.checks = ufAppendUnique(fact.checks, c)
				}
			}
		}
	}
	fact.dto = strings.Join(dtos, "|")
	if fact.calls == nil {
		fact.calls = []string{}
	}
	if fact.checks == nil {
		fact.checks = []string{}
	}
	return fact, nil
}
