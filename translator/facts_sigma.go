package main

// Generator "SigmaLenChecks" (property C08, "non-interactive proofs verify only for the right
// statement, prover and session … rejected after any change to … the number of its components").
//
// Purely syntactic (go/parser + go/ast; /repo is never built).  For the `Verify` method of every
// verifier that prescribes a component count (Fischlin, randomised Fischlin, AND / OR composition,
// batch Schnorr) it records every comparison in an `if` condition one side of which is `len(E)`:
//
//   proto   short name (table slcFiles)
//   what    last selector / identifier of E (`fischlinProof.A` → "A", `statement` → "statement",
//           `statement.Xs` → "Xs"; an index is printed `[·]`)
//   op      the comparison operator
//   other   the ROLE of the other side after stripping integer conversions and resolving ONE level
//           of local aliasing (`n := v.rho`):  "recv.<field>" (state of the verifier object the
//           compiler / composition configured), "pkg.<Name>" (identifier not declared in the
//           function: a package constant), "len.<what>" (the length of another component),
//           "call.<chain>", "lit", "local.<name>", "expr"
//
// Props/C08.lean states (decide over the whole regenerated table) that each prescribed component
// is compared with `!=` against configured state ("recv." / "pkg."), never merely against the
// length of another component of the same proof.

import (
	"fmt"
	"go/ast"
	"go/parser"
	"go/token"
	"path/filepath"
	"sort"
	"strings"
)

func init() { register("SigmaLenChecks", genSigmaLenChecks) }

var slcFiles = []struct{ proto, file, fn string }{
	{"fischlin", "pkg/proofs/sigma/compiler/fischlin/verifier.go", "Verify"},
	{"randfischlin", "pkg/proofs/sigma/compiler/randfischlin/verifier.go", "Verify"},
	{"sigand", "pkg/proofs/sigma/compose/sigand/and.go", "Verify"},
	{"sigor", "pkg/proofs/sigma/compose/sigor/or.go", "Verify"},
	{"batch", "pkg/proofs/dlog/batch_schnorr/protocol.go", "Verify"},
}

type slcGuard struct{ proto, what, op, other, pos string }

func slcStripConv(e ast.Expr) ast.Expr {
	for {
		switch x := e.(type) {
		case *ast.ParenExpr:
			e = x.X
			continue
		case *ast.CallExpr:
			if id, ok := x.Fun.(*ast.Ident); ok && len(x.Args) == 1 {
				switch id.Name {
				case "int", "uint", "int64", "uint64", "int32", "uint32":
					e = x.Args[0]
					continue
				}
			}
		}
		return e
	}
}

// slcLenArg returns the argument of `len(arg)` (after conversions), nil otherwise.
func slcLenArg(e ast.Expr) ast.Expr {
	e = slcStripConv(e)
	if c, ok := e.(*ast.CallExpr); ok {
		if id, ok := c.Fun.(*ast.Ident); ok && id.Name == "len" && len(c.Args) == 1 {
			return c.Args[0]
		}
	}
	return nil
}

func slcWhat(e ast.Expr) string {
	switch x := e.(type) {
	case *ast.Ident:
		return x.Name
	case *ast.SelectorExpr:
		return x.Sel.Name
	case *ast.IndexExpr:
		return slcWhat(x.X) + "[·]"
	case *ast.ParenExpr:
		return slcWhat(x.X)
	case *ast.StarExpr:
		return slcWhat(x.X)
	}
	return "expr"
}

type slcFn struct {
	fset   *token.FileSet
	recv   string
	locals map[string][]ast.Expr // name -> right-hand sides of its definitions / assignments (nil entry: unknown)
}

func (f *slcFn) role(e ast.Expr, depth int) string {
	e = slcStripConv(e)
	if a := slcLenArg(e); a != nil {
		return "len." + slcWhat(a)
	}
	switch x := e.(type) {
	case *ast.BasicLit:
		return "lit"
	case *ast.SelectorExpr:
		if id, ok := x.X.(*ast.Ident); ok && id.Name == f.recv && f.recv != "" {
			return "recv." + x.Sel.Name
		}
		if id, ok := x.X.(*ast.Ident); ok {
			if _, isLocal := f.locals[id.Name]; !isLocal {
				return "pkg." + id.Name + "." + x.Sel.Name // qualified constant of another package
			}
		}
		return "expr"
	case *ast.Ident:
		rhs, isLocal := f.locals[x.Name]
		if !isLocal {
			return "pkg." + x.Name
		}
		if depth == 0 && len(rhs) == 1 && rhs[0] != nil {
			return f.role(rhs[0], 1)
		}
		return "local." + x.Name
	case *ast.CallExpr:
		return "call." + ciChain(f.fset, x.Fun)
	}
	return "expr"
}

func genSigmaLenChecks(repo string) (string, error) {
	var guards []slcGuard
	for _, sf := range slcFiles {
		fset := token.NewFileSet()
		file, err := parser.ParseFile(fset, filepath.Join(repo, sf.file), nil, 0)
		if err != nil {
			return "", fmt.Errorf("%s: %w", sf.file, err)
		}
		found := false
		for _, d := range file.Decls {
			fd, ok := d.(*ast.FuncDecl)
			if !ok || fd.Name.Name != sf.fn || fd.Recv == nil || fd.Body == nil {
				continue
			}
			found = true
			fn := &slcFn{fset: fset, locals: map[string][]ast.Expr{}}
			if len(fd.Recv.List) == 1 && len(fd.Recv.List[0].Names) == 1 {
				fn.recv = fd.Recv.List[0].Names[0].Name
				fn.locals[fn.recv] = []ast.Expr{nil}
			}
			for _, p := range fd.Type.Params.List {
				for _, n := range p.Names {
					fn.locals[n.Name] = []ast.Expr{nil}
				}
			}
			if fd.Type.Results != nil {
				for _, p := range fd.Type.Results.List {
					for _, n := range p.Names {
						fn.locals[n.Name] = []ast.Expr{nil}
					}
				}
			}
			// local definitions / assignments
			ast.Inspect(fd.Body, func(m ast.Node) bool {
				switch s := m.(type) {
				case *ast.AssignStmt:
					for i, l := range s.Lhs {
						id, ok := l.(*ast.Ident)
						if !ok {
							continue
						}
						var rhs ast.Expr
						if len(s.Lhs) == len(s.Rhs) {
							rhs = s.Rhs[i]
						}
						if s.Tok == token.DEFINE || fn.locals[id.Name] != nil {
							fn.locals[id.Name] = append(fn.locals[id.Name], rhs)
						}
					}
				case *ast.RangeStmt:
					for _, k := range []ast.Expr{s.Key, s.Value} {
						if id, ok := k.(*ast.Ident); ok && s.Tok == token.DEFINE {
							fn.locals[id.Name] = append(fn.locals[id.Name], nil)
						}
					}
				case *ast.DeclStmt:
					if gd, ok := s.Decl.(*ast.GenDecl); ok {
						for _, sp := range gd.Specs {
							if vs, ok := sp.(*ast.ValueSpec); ok {
								for i, n := range vs.Names {
									var rhs ast.Expr
									if i < len(vs.Values) {
										rhs = vs.Values[i]
									}
									fn.locals[n.Name] = append(fn.locals[n.Name], rhs)
								}
							}
						}
					}
				}
				return true
			})
			// comparisons with a len(...) side in `if` conditions
			ast.Inspect(fd.Body, func(m ast.Node) bool {
				is, ok := m.(*ast.IfStmt)
				if !ok {
					return true
				}
				ast.Inspect(is.Cond, func(c ast.Node) bool {
					be, ok := c.(*ast.BinaryExpr)
					if !ok {
						return true
					}
					switch be.Op {
					case token.NEQ, token.EQL, token.LSS, token.GTR, token.LEQ, token.GEQ:
					default:
						return true
					}
					add := func(lenSide, other ast.Expr, op string) {
						if a := slcLenArg(lenSide); a != nil {
							guards = append(guards, slcGuard{proto: sf.proto, what: slcWhat(a), op: op, other: fn.role(other, 0),
								pos: fset.Position(be.Pos()).String()})
						}
					}
					flip := map[token.Token]string{token.NEQ: "!=", token.EQL: "==", token.LSS: ">", token.GTR: "<", token.LEQ: ">=", token.GEQ: "<="}
					add(be.X, be.Y, be.Op.String())
					if slcLenArg(be.X) == nil {
						add(be.Y, be.X, flip[be.Op])
					}
					return true
				})
				return true
			})
		}
		if !found {
			return "", fmt.Errorf("%s: method %s not found", sf.file, sf.fn)
		}
	}
	sort.SliceStable(guards, func(i, j int) bool { return guards[i].proto < guards[j].proto })
	var b strings.Builder
	b.WriteString("-- Length comparisons in the `Verify` methods of the count-prescribing verifiers of /repo (property C08).\n")
	b.WriteString("-- Field meanings: see translator/facts_sigma.go.\n")
	b.WriteString("namespace BronVerif.Gen.SigmaLenChecks\n\n")
	b.WriteString("/-- Text as the list of its code points (kernel-friendly). -/\nabbrev Str := List Nat\n\n")
	b.WriteString("macro:max \"slc!\" s:str : term => do\n  let cs ← s.getString.toList.toArray.mapM fun c => `(nat_lit $(Lean.Syntax.mkNumLit (toString c.toNat)))\n  `([$cs,*])\n\n")
	b.WriteString("structure Guard where\n  proto : Str\n  what : Str\n  op : Str\n  other : Str\n  deriving DecidableEq, Repr\n\n")
	b.WriteString("def guards : List Guard := [\n")
	for i, g := range guards {
		rel, _ := filepath.Rel(repo, strings.SplitN(g.pos, ":", 2)[0])
		rest := ""
		if parts := strings.SplitN(g.pos, ":", 2); len(parts) == 2 {
			rest = ":" + parts[1]
		}
		fmt.Fprintf(&b, "  -- %s%s\n  { proto := slc!%q, what := slc!%q, op := slc!%q, other := slc!%q }", rel, rest, g.proto, g.what, g.op, g.other)
		if i+1 < len(guards) {
			b.WriteString(",")
		}
		b.WriteString("\n")
	}
	b.WriteString("]\n\nend BronVerif.Gen.SigmaLenChecks\n")
	return b.String(), nil
}
