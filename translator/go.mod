module bronverif/translator

go 1.26
