from sympy import *
a,d,x,y,t,z=symbols('a d x y t z')
D=(2*x*y*(a*x**2+y**2-2*z**2),(a*x**2+y**2)*(a*x**2-y**2),2*x*y*(a*x**2-y**2),(a*x**2+y**2-2*z**2)*(a*x**2+y**2))
A=((x*y+y*x)*(z*z-d*t*t),(z*z+d*t*t)*(y*y-a*x*x),(x*y+y*x)*(y*y-a*x*x),(z*z-d*t*t)*(z*z+d*t*t))
hC=a*x**2+y**2-(z**2+d*t**2)
for i in range(4):
    q,r=div(expand(D[i]+A[i]),hC,a)
    print(i,r,factor(q))
