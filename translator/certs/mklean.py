certs={}
for line in open('certs.txt'):
    name,rest=line.split(' : ',1)
    certs[name.strip()]=rest.strip()
tpl=open('wlem.tpl').read()
for k,v in certs.items():
    tpl=tpl.replace('@@'+k+'@@',v)
open('/var/tmp/vw/c14/lean/BronVerif/Lemmas/Weierstrass.lean','w').write(tpl)
