from sympy import *
a,b,x1,y1,z1,x2,y2,z2=symbols('a b x1 y1 z1 x2 y2 z2')
def add(a,b3,x1,y1,z1,x2,y2,z2):
    X3=(x1*y2+x2*y1)*(y1*y2-a*(x1*z2+x2*z1)-b3*z1*z2)-(y1*z2+y2*z1)*(a*x1*x2+b3*(x1*z2+x2*z1)-a**2*z1*z2)
    Y3=(y1*y2+a*(x1*z2+x2*z1)+b3*z1*z2)*(y1*y2-a*(x1*z2+x2*z1)-b3*z1*z2)+(3*x1*x2+a*z1*z2)*(a*x1*x2+b3*(x1*z2+x2*z1)-a**2*z1*z2)
    Z3=(y1*z2+y2*z1)*(y1*y2+a*(x1*z2+x2*z1)+b3*z1*z2)+(x1*y2+x2*y1)*(3*x1*x2+a*z1*z2)
    return X3,Y3,Z3
E1 = y1**2 - (x1**3 + a*x1 + b)
E2 = y2**2 - (x2**3 + a*x2 + b)
bb = y1**2 - x1**3 - a*x1
def lean(e):
    s=str(e).replace('**','^')
    return s
def cert(T, name, two=True):
    T=expand(T)
    Tbb=expand(T.subs(b,bb))
    S=cancel((T-Tbb)/(b-bb))
    assert expand(S*(b-bb)-(T-Tbb))==0
    if two:
        h=expand(E2.subs(b,bb))
        q,r=div(Tbb,h,y2)
        assert r==0
        c2=q; c1=expand(-q-S)
        assert expand(c1*E1+c2*E2-T)==0
        print(name,': linear_combination (%s) * h1 + (%s) * h2'%(lean(c1),lean(c2)))
    else:
        assert Tbb==0, Tbb
        c1=expand(-S)
        assert expand(c1*E1-T)==0
        print(name,': linear_combination (%s) * h1'%lean(c1))
X3,Y3,Z3=add(a,3*b,x1,y1,1,x2,y2,1)
x3num=(y2-y1)**2-(x1+x2)*(x2-x1)**2
cert(X3*(x2-x1)**2 - x3num*Z3,'chord_x')
cert(Y3*(x2-x1)**3 - ((y2-y1)*(x1*(x2-x1)**2-x3num)-y1*(x2-x1)**3)*Z3,'chord_y')
Xs,Ys,Zs=add(a,3*b,x1,y1,1,x1,y1,1)
x3n=(3*x1**2+a)**2-2*x1*(2*y1)**2
cert(Xs*(2*y1)**2-x3n*Zs,'tan_x',False)
cert(Ys*(2*y1)**3-((3*x1**2+a)*(x1*(2*y1)**2-x3n)-y1*(2*y1)**3)*Zs,'tan_y',False)
cert(Zs-8*y1**3,'tan_z',False)
import sys
sys.setrecursionlimit(100000)
cert(Y3**2*Z3-X3**3-a*X3*Z3**2-b*Z3**3,'oncurve')
