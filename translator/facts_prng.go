package main

// Generator "PrngSites" (property C07, "protocol secrets come from the party's own randomness").
//
// Purely syntactic (go/parser + go/ast; /repo is never built).  Two passes.
//
// PASS 1 — signature index over ALL non-test files of <repo>/pkg: for every function, method and
// interface method the positions of the parameters whose type is `io.Reader` (the only reader type
// the library's APIs use).  Package functions are keyed by (import path, name); methods by
// (name, arity) — without type information a method call can only be matched by name, so the
// union over all methods of that name and arity is taken (`all` = every such method has a reader
// there, i.e. the position is unambiguous).  A few stdlib consumers are built in
// (io.ReadFull/ReadAtLeast, crypto/rand.Int/Prime, …).
//
// PASS 2 — over the PROTOCOL packages (pkg/mpc/**, pkg/ot/**, pkg/proofs/sigma/compiler/**;
// `testutils` directories and *_test.go excluded) every randomness-consuming site is recorded:
//
//   use   a call with an argument at a reader position of the callee (pass 1), or with an argument
//         that is recognisably a reader expression (reader parameter, reader field, crypto/rand,
//         a local traced to one of those), or ANY call into crypto/rand, math/rand, math/rand/v2
//         (implicit process-wide source), or any other mention of those packages' identifiers;
//   init  every place a reader-typed struct field is given a value: `T{…, f: E}` / `x.f = E`.
//
// For each site: package dir, enclosing function ("Recv.Method" / "Func"), callee (dotted chain,
// `·.M` for a method on a non-package value), and the ROOT of the reader expression:
//
//   param       identifier bound to an `io.Reader`-typed parameter of the enclosing function or of
//               an enclosing function literal                                 (name = parameter)
//   field       `x.f` (also `x.f[i]`) with `f` a reader-typed field of a struct of the package
//               (name = "T.f"; src = number of (pkg,T,f); the init records of that field carry the
//               same number as tgt — numbers are assigned afresh on every run, rules never mention them)
//   cryptoRand  crypto/rand.Reader or an implicit use of crypto/rand
//   mathRand    anything from math/rand, math/rand/v2
//   call        the value returned by a call (name = callee), e.g. `ctx.Seeds()[id]`,
//               `fkechacha20.NewPrng(seed, salt)`, `bytes.NewReader(msg)`
//   global      a package-level variable
//   other       anything else (literal, composite, nil, unresolved identifier …), printed
//
// and the LOOP POSITION of the site inside its function: `loop` = number of enclosing `for` /
// `for … range` statements (the range expression and a three-clause loop's init statement belong to
// the outside; function literals inherit the depth of the place they are written at), `over` = what
// the innermost enclosing loop ranges over (callee of a call such as `·.otherParticipantsOrdered`,
// else the printed expression; "for" for a three-clause loop).  A per-peer draw that is hoisted out of
// its loop shows as loop = 0 (rule `per_peer_sites_in_loop` in Props/C07.lean).
//
// Locals are traced through their assignments in the enclosing function (`r := E`, `r, err := f()`,
// `var r = E`); a local with several different roots is `other "mixed:…"`.
//
// The hand-written rules in Props/C07.lean are evaluated by `decide` over the whole table.
// Anything that does not parse is an error (the generated file then does not compile).

import (
	"bytes"
	"fmt"
	"go/ast"
	"go/parser"
	"go/printer"
	"go/token"
	"io/fs"
	"os"
	"path/filepath"
	"sort"
	"strconv"
	"strings"
)

func init() { register("PrngSites", genPrngSites) }

const psModule = "github.com/bronlabs/bron-crypto/"

var psScope = []string{"pkg/mpc", "pkg/ot", "pkg/proofs/sigma/compiler"}

var psRandPkgs = map[string]string{"crypto/rand": "cryptoRand", "math/rand": "mathRand", "math/rand/v2": "mathRand"}

// stdlib functions that consume a reader: import path + "." + name -> reader positions
var psStd = map[string][]int{
	"io.ReadFull": {0}, "io.ReadAtLeast": {0}, "io.ReadAll": {0}, "io.LimitReader": {0}, "io.TeeReader": {0},
	"io.CopyN": {1}, "io.Copy": {1}, "bufio.NewReader": {0}, "encoding/binary.Read": {0},
	"crypto/rand.Int": {0}, "crypto/rand.Prime": {0},
	"crypto/ecdsa.GenerateKey": {1}, "crypto/ecdsa.Sign": {0}, "crypto/ecdsa.SignASN1": {0},
	"crypto/ed25519.GenerateKey": {0}, "crypto/rsa.GenerateKey": {0}, "crypto/ecdh.GenerateKey": {0},
}

type psSig struct {
	pos map[int]int // position -> how many declarations have a reader there
	n   int         // number of declarations merged
}

type psIndex struct {
	funcs   map[string]*psSig // "<import path>.<Name>"
	methods map[string]*psSig // "<Name>/<arity>"   (arity -1 = variadic: matched separately)
}

type psSite struct {
	kind, pkg, fn, callee, root, name string
	src                               int    // field number of the root when root = field, else 0
	tgt                               int    // init records: number of the field being initialised, else 0
	loop                              int    // nesting depth of the enclosing for / for-range statements of the function (0: straight-line)
	over                              string // what the innermost enclosing loop ranges over ("for": a three-clause loop; "": no loop)
	pos                               string
}

type psFile struct {
	f       *ast.File
	imports map[string]string // local name -> import path
	ioName  map[string]bool   // local names of package "io"
}

type psPkg struct {
	dir          string // relative to repo
	files        []*psFile
	readerFields map[string]map[string]bool // struct -> field -> true
	fieldOrder   map[string][]string        // struct -> field names in declaration order ("" for embedded)
	globals      map[string]bool            // package-level var names
}

func psImportName(path string) string {
	b := filepath.Base(path)
	if strings.HasPrefix(b, "v") && len(b) > 1 && b[1] >= '0' && b[1] <= '9' {
		b = filepath.Base(filepath.Dir(path))
	}
	return strings.ReplaceAll(b, "-", "_")
}

func psParseDir(fset *token.FileSet, dir string) ([]*psFile, error) {
	entries, err := os.ReadDir(dir)
	if err != nil {
		return nil, err
	}
	var out []*psFile
	for _, e := range entries {
		n := e.Name()
		if e.IsDir() || !strings.HasSuffix(n, ".go") || strings.HasSuffix(n, "_test.go") {
			continue
		}
		f, err := parser.ParseFile(fset, filepath.Join(dir, n), nil, parser.SkipObjectResolution)
		if err != nil {
			return nil, err
		}
		pf := &psFile{f: f, imports: map[string]string{}, ioName: map[string]bool{}}
		for _, im := range f.Imports {
			p, _ := strconv.Unquote(im.Path.Value)
			name := psImportName(p)
			if im.Name != nil {
				name = im.Name.Name
			}
			if name == "_" || name == "." {
				continue
			}
			pf.imports[name] = p
			if p == "io" {
				pf.ioName[name] = true
			}
		}
		out = append(out, pf)
	}
	return out, nil
}

// isReaderType: exactly io.Reader
func (pf *psFile) isReaderType(t ast.Expr) bool {
	if s, ok := t.(*ast.SelectorExpr); ok {
		if x, ok := s.X.(*ast.Ident); ok && pf.ioName[x.Name] && s.Sel.Name == "Reader" {
			return true
		}
	}
	return false
}

// containsReaderType: io.Reader anywhere inside the type expression (map/slice/array/pointer/func result)
func (pf *psFile) containsReaderType(t ast.Expr) bool {
	found := false
	ast.Inspect(t, func(n ast.Node) bool {
		if _, ok := n.(*ast.FuncType); ok {
			return false // a function taking a reader is not a reader
		}
		if e, ok := n.(ast.Expr); ok && pf.isReaderType(e) {
			found = true
		}
		return !found
	})
	return found
}

func psParamPositions(pf *psFile, ft *ast.FuncType) (pos []int, arity int, variadic bool) {
	if ft.Params == nil {
		return nil, 0, false
	}
	i := 0
	for _, fld := range ft.Params.List {
		k := len(fld.Names)
		if k == 0 {
			k = 1
		}
		t := fld.Type
		if el, ok := t.(*ast.Ellipsis); ok {
			variadic = true
			t = el.Elt
		}
		for range k {
			if pf.isReaderType(t) {
				pos = append(pos, i)
			}
			i++
		}
	}
	return pos, i, variadic
}

func (s *psSig) add(pos []int) {
	if s.pos == nil {
		s.pos = map[int]int{}
	}
	s.n++
	for _, p := range pos {
		s.pos[p]++
	}
}

func psTypeName(t ast.Expr) string {
	for {
		switch x := t.(type) {
		case *ast.StarExpr:
			t = x.X
		case *ast.ParenExpr:
			t = x.X
		case *ast.IndexExpr:
			t = x.X
		case *ast.IndexListExpr:
			t = x.X
		case *ast.Ident:
			return x.Name
		case *ast.SelectorExpr:
			return x.Sel.Name
		default:
			return ""
		}
	}
}

func psInScope(rel string) bool {
	for _, s := range psScope {
		if rel == s || strings.HasPrefix(rel, s+"/") {
			return true
		}
	}
	return false
}

func genPrngSites(repo string) (string, error) {
	fset := token.NewFileSet()
	idx := &psIndex{funcs: map[string]*psSig{}, methods: map[string]*psSig{}}
	var pkgs []*psPkg
	root := filepath.Join(repo, "pkg")
	var dirs []string
	err := filepath.WalkDir(root, func(p string, d fs.DirEntry, err error) error {
		if err != nil {
			return err
		}
		if d.IsDir() {
			if d.Name() == "testdata" || d.Name() == "vendor" {
				return filepath.SkipDir
			}
			dirs = append(dirs, p)
		}
		return nil
	})
	if err != nil {
		return "", err
	}
	sort.Strings(dirs)
	for _, dir := range dirs {
		files, err := psParseDir(fset, dir)
		if err != nil {
			return "", err
		}
		if len(files) == 0 {
			continue
		}
		rel, _ := filepath.Rel(repo, dir)
		rel = filepath.ToSlash(rel)
		ipath := psModule + rel
		pk := &psPkg{dir: rel, files: files, readerFields: map[string]map[string]bool{}, globals: map[string]bool{}, fieldOrder: map[string][]string{}}
		for _, pf := range files {
			for _, d := range pf.f.Decls {
				switch dd := d.(type) {
				case *ast.FuncDecl:
					pos, ar, va := psParamPositions(pf, dd.Type)
					if dd.Recv == nil {
						key := ipath + "." + dd.Name.Name
						if idx.funcs[key] == nil {
							idx.funcs[key] = &psSig{}
						}
						idx.funcs[key].add(pos)
					} else {
						psAddMethod(idx, dd.Name.Name, ar, va, pos)
					}
				case *ast.GenDecl:
					for _, sp := range dd.Specs {
						switch s := sp.(type) {
						case *ast.TypeSpec:
							switch tt := s.Type.(type) {
							case *ast.InterfaceType:
								for _, m := range tt.Methods.List {
									if ft, ok := m.Type.(*ast.FuncType); ok && len(m.Names) == 1 {
										pos, ar, va := psParamPositions(pf, ft)
										psAddMethod(idx, m.Names[0].Name, ar, va, pos)
									}
								}
							case *ast.StructType:
								for _, fld := range tt.Fields.List {
									if len(fld.Names) == 0 {
										pk.fieldOrder[s.Name.Name] = append(pk.fieldOrder[s.Name.Name], "")
									}
									for _, nm := range fld.Names {
										pk.fieldOrder[s.Name.Name] = append(pk.fieldOrder[s.Name.Name], nm.Name)
									}
									if pf.containsReaderType(fld.Type) {
										for _, nm := range fld.Names {
											if pk.readerFields[s.Name.Name] == nil {
												pk.readerFields[s.Name.Name] = map[string]bool{}
											}
											pk.readerFields[s.Name.Name][nm.Name] = true
										}
									}
								}
							}
						case *ast.ValueSpec:
							if dd.Tok == token.VAR {
								for _, nm := range s.Names {
									pk.globals[nm.Name] = true
								}
							}
						}
					}
				}
			}
		}
		if psInScope(rel) && !strings.Contains("/"+rel+"/", "/testutils/") {
			pkgs = append(pkgs, pk)
		}
	}

	var sites []psSite
	fieldIDs := map[string]int{}
	fid := func(pkg, t, f string) int {
		k := pkg + "\x00" + t + "\x00" + f
		if v, ok := fieldIDs[k]; ok {
			return v
		}
		fieldIDs[k] = len(fieldIDs) + 1
		return fieldIDs[k]
	}
	for _, pk := range pkgs {
		for _, pf := range pk.files {
			for _, d := range pf.f.Decls {
				switch dd := d.(type) {
				case *ast.FuncDecl:
					if dd.Body == nil {
						continue
					}
					w := &psWalker{fset: fset, idx: idx, pk: pk, pf: pf, fid: fid, sites: &sites, repo: repo}
					w.fn = dd.Name.Name
					sc := &psScopeT{vars: map[string]*psVar{}}
					if dd.Recv != nil && len(dd.Recv.List) == 1 {
						rt := psTypeName(dd.Recv.List[0].Type)
						w.fn = rt + "." + dd.Name.Name
						for _, nm := range dd.Recv.List[0].Names {
							sc.vars[nm.Name] = &psVar{typ: rt, declared: true}
						}
					}
					w.bindParams(sc, dd.Type)
					w.collectAssigns(sc, dd.Body)
					w.markLoops(dd.Body, psLoop{})
					w.walk(dd.Body, sc)
				case *ast.GenDecl:
					// package-level initialisers: `var x = f(crand.Reader)` etc.
					for _, sp := range dd.Specs {
						if vs, ok := sp.(*ast.ValueSpec); ok {
							for _, v := range vs.Values {
								w := &psWalker{fset: fset, idx: idx, pk: pk, pf: pf, fid: fid, sites: &sites, repo: repo, fn: "<package-level>"}
								w.walk(v, &psScopeT{vars: map[string]*psVar{}})
							}
						}
					}
				}
			}
		}
	}
	sort.SliceStable(sites, func(i, j int) bool {
		if sites[i].pkg != sites[j].pkg {
			return sites[i].pkg < sites[j].pkg
		}
		return false
	})
	return psRender(sites), nil
}

func psAddMethod(idx *psIndex, name string, arity int, variadic bool, pos []int) {
	key := name + "/" + strconv.Itoa(arity)
	if variadic {
		key = name + "/v"
	}
	if idx.methods[key] == nil {
		idx.methods[key] = &psSig{}
	}
	idx.methods[key].add(pos)
}

// ------------------------------------------------------------------------------------------------

type psVar struct {
	reader   bool       // io.Reader-typed parameter
	typ      string     // declared type name when syntactically known
	declared bool       // parameter / receiver (not traced)
	rhs      []ast.Expr // assignments (locals)
	rhsScope *psScopeT
}

type psScopeT struct {
	vars   map[string]*psVar
	parent *psScopeT
}

func (s *psScopeT) lookup(n string) *psVar {
	for c := s; c != nil; c = c.parent {
		if v, ok := c.vars[n]; ok {
			return v
		}
	}
	return nil
}

type psWalker struct {
	fset  *token.FileSet
	idx   *psIndex
	pk    *psPkg
	pf    *psFile
	fn    string
	fid   func(pkg, t, f string) int
	sites *[]psSite
	repo  string
	busy  map[*psVar]bool
	loops map[ast.Node]psLoop
}

type psLoop struct {
	depth int
	over  string
}

// markLoops records for every node below n the loop position it is written at.
func (w *psWalker) markLoops(n ast.Node, cur psLoop) {
	if n == nil {
		return
	}
	if w.loops == nil {
		w.loops = map[ast.Node]psLoop{}
	}
	ast.Inspect(n, func(m ast.Node) bool {
		switch x := m.(type) {
		case nil:
			return false
		case *ast.RangeStmt:
			w.loops[x] = cur
			if x.Key != nil {
				w.markLoops(x.Key, cur)
			}
			if x.Value != nil {
				w.markLoops(x.Value, cur)
			}
			w.markLoops(x.X, cur)
			w.markLoops(x.Body, psLoop{cur.depth + 1, w.rangeOver(x.X)})
			return false
		case *ast.ForStmt:
			w.loops[x] = cur
			if x.Init != nil {
				w.markLoops(x.Init, cur)
			}
			inner := psLoop{cur.depth + 1, "for"}
			if x.Cond != nil {
				w.markLoops(x.Cond, inner)
			}
			if x.Post != nil {
				w.markLoops(x.Post, inner)
			}
			w.markLoops(x.Body, inner)
			return false
		}
		w.loops[m] = cur
		return true
	})
}

// rangeOver names what a range statement iterates over.
func (w *psWalker) rangeOver(e ast.Expr) string {
	for {
		if p, ok := e.(*ast.ParenExpr); ok {
			e = p.X
			continue
		}
		break
	}
	if c, ok := e.(*ast.CallExpr); ok {
		name, _, _ := w.calleeName(c.Fun, &psScopeT{vars: map[string]*psVar{}})
		return name
	}
	s := w.str(e)
	if len(s) > 60 {
		s = s[:60] + "…"
	}
	return s
}

func (w *psWalker) bindParams(sc *psScopeT, ft *ast.FuncType) {
	if ft.Params == nil {
		return
	}
	for _, fld := range ft.Params.List {
		t := fld.Type
		if el, ok := t.(*ast.Ellipsis); ok {
			t = el.Elt
		}
		for _, nm := range fld.Names {
			sc.vars[nm.Name] = &psVar{reader: w.pf.isReaderType(t), typ: psTypeName(t), declared: true}
		}
	}
	if ft.Results != nil {
		for _, fld := range ft.Results.List {
			for _, nm := range fld.Names {
				sc.vars[nm.Name] = &psVar{typ: psTypeName(fld.Type), rhsScope: sc}
			}
		}
	}
}

// collectAssigns records, for the function body (not descending into function literals), every
// assignment to a plain identifier, so that locals can be traced to their sources.
func (w *psWalker) collectAssigns(sc *psScopeT, body ast.Node) {
	add := func(name string, rhs ast.Expr, define bool) {
		if name == "_" {
			return
		}
		v := sc.vars[name]
		if v == nil {
			if !define {
				// assignment to a variable of an enclosing scope
				if ov := sc.lookup(name); ov != nil && !ov.declared {
					ov.rhs = append(ov.rhs, rhs)
				}
				return
			}
			v = &psVar{rhsScope: sc}
			sc.vars[name] = v
		}
		if v.declared {
			// re-assignment of a parameter: it stops being "the parameter"
			v.declared = false
			v.rhsScope = sc
			v.rhs = append(v.rhs, &ast.Ident{Name: "\x00param"})
		}
		v.rhs = append(v.rhs, rhs)
	}
	ast.Inspect(body, func(n ast.Node) bool {
		switch s := n.(type) {
		case *ast.FuncLit:
			return false
		case *ast.AssignStmt:
			if len(s.Lhs) == len(s.Rhs) {
				for i, l := range s.Lhs {
					if id, ok := l.(*ast.Ident); ok {
						add(id.Name, s.Rhs[i], s.Tok == token.DEFINE)
					}
				}
			} else if len(s.Rhs) == 1 {
				for _, l := range s.Lhs {
					if id, ok := l.(*ast.Ident); ok {
						add(id.Name, s.Rhs[0], s.Tok == token.DEFINE)
					}
				}
			}
		case *ast.DeclStmt:
			if gd, ok := s.Decl.(*ast.GenDecl); ok {
				for _, sp := range gd.Specs {
					if vs, ok := sp.(*ast.ValueSpec); ok {
						for i, nm := range vs.Names {
							if nm.Name == "_" {
								continue
							}
							if sc.vars[nm.Name] == nil {
								sc.vars[nm.Name] = &psVar{rhsScope: sc, typ: psTypeName(vs.Type)}
							}
							if len(vs.Values) == len(vs.Names) {
								sc.vars[nm.Name].rhs = append(sc.vars[nm.Name].rhs, vs.Values[i])
							} else if len(vs.Values) == 1 {
								sc.vars[nm.Name].rhs = append(sc.vars[nm.Name].rhs, vs.Values[0])
							}
						}
					}
				}
			}
		case *ast.RangeStmt:
			for _, l := range []ast.Expr{s.Key, s.Value} {
				if id, ok := l.(*ast.Ident); ok && s.Tok == token.DEFINE {
					add(id.Name, &ast.IndexExpr{X: s.X, Index: &ast.Ident{Name: "_"}}, true)
				}
			}
		}
		return true
	})
}

func (w *psWalker) str(e ast.Node) string {
	var b bytes.Buffer
	_ = printer.Fprint(&b, w.fset, e)
	s := strings.Join(strings.Fields(b.String()), " ")
	if len(s) > 120 {
		s = s[:120] + "…"
	}
	return s
}

// calleeName renders the callee as a dotted chain; methods on non-package values become "·.M".
func (w *psWalker) calleeName(fun ast.Expr, sc *psScopeT) (name string, qualified string, isMethod bool) {
	for {
		switch x := fun.(type) {
		case *ast.IndexExpr:
			fun = x.X
			continue
		case *ast.IndexListExpr:
			fun = x.X
			continue
		case *ast.ParenExpr:
			fun = x.X
			continue
		}
		break
	}
	switch x := fun.(type) {
	case *ast.Ident:
		if sc.lookup(x.Name) != nil {
			return "var:" + x.Name, "", false
		}
		return x.Name, psModule + w.pk.dir + "." + x.Name, false
	case *ast.SelectorExpr:
		if id, ok := x.X.(*ast.Ident); ok && sc.lookup(id.Name) == nil {
			if p, ok := w.pf.imports[id.Name]; ok {
				return id.Name + "." + x.Sel.Name, p + "." + x.Sel.Name, false
			}
		}
		return "·." + x.Sel.Name, "", true
	case *ast.FuncLit:
		return "func-literal", "", false
	}
	return "expr", "", false
}

type psRoot struct {
	kind, name string
	fid        int
}

func (w *psWalker) structOfExpr(x ast.Expr, sc *psScopeT) string {
	if id, ok := x.(*ast.Ident); ok {
		if v := sc.lookup(id.Name); v != nil && v.typ != "" {
			return v.typ
		}
	}
	return ""
}

// fieldRoot: is `x.f` a reader field of a struct of this package?
func (w *psWalker) fieldRoot(se *ast.SelectorExpr, sc *psScopeT) (psRoot, bool) {
	f := se.Sel.Name
	if t := w.structOfExpr(se.X, sc); t != "" {
		if w.pk.readerFields[t][f] {
			return psRoot{"field", t + "." + f, w.fid(w.pk.dir, t, f)}, true
		}
	}
	var cands []string
	for t, fs := range w.pk.readerFields {
		if fs[f] {
			cands = append(cands, t)
		}
	}
	sort.Strings(cands)
	if len(cands) == 1 {
		return psRoot{"field", cands[0] + "." + f, w.fid(w.pk.dir, cands[0], f)}, true
	}
	if len(cands) > 1 {
		// ambiguous without types: refuse to guess
		return psRoot{"other", "ambiguous-field:" + strings.Join(cands, "|") + "." + f, 0}, true
	}
	return psRoot{}, false
}

func (w *psWalker) classify(e ast.Expr, sc *psScopeT) psRoot {
	switch x := e.(type) {
	case *ast.ParenExpr:
		return w.classify(x.X, sc)
	case *ast.StarExpr:
		return w.classify(x.X, sc)
	case *ast.UnaryExpr:
		if x.Op == token.AND {
			return w.classify(x.X, sc)
		}
	case *ast.TypeAssertExpr:
		return w.classify(x.X, sc)
	case *ast.IndexExpr:
		return w.classify(x.X, sc)
	case *ast.Ident:
		if x.Name == "\x00param" {
			return psRoot{"param", "reassigned", 0}
		}
		if x.Name == "nil" {
			return psRoot{"other", "nil", 0}
		}
		v := sc.lookup(x.Name)
		if v == nil {
			if w.pk.globals[x.Name] {
				return psRoot{"global", x.Name, 0}
			}
			return psRoot{"other", "ident:" + x.Name, 0}
		}
		if v.declared {
			if v.reader {
				return psRoot{"param", x.Name, 0}
			}
			return psRoot{"other", "non-reader-param:" + x.Name, 0}
		}
		if len(v.rhs) == 0 {
			return psRoot{"other", "unassigned:" + x.Name, 0}
		}
		if w.busy == nil {
			w.busy = map[*psVar]bool{}
		}
		if w.busy[v] {
			return psRoot{"other", "cyclic:" + x.Name, 0}
		}
		w.busy[v] = true
		defer delete(w.busy, v)
		var rs []psRoot
		for _, r := range v.rhs {
			rr := w.classify(r, v.rhsScope)
			dup := false
			for _, o := range rs {
				if o == rr {
					dup = true
				}
			}
			if !dup {
				rs = append(rs, rr)
			}
		}
		if len(rs) == 1 {
			return rs[0]
		}
		var names []string
		for _, r := range rs {
			names = append(names, r.kind+":"+r.name)
		}
		return psRoot{"other", "mixed:" + strings.Join(names, "|"), 0}
	case *ast.SelectorExpr:
		if id, ok := x.X.(*ast.Ident); ok && sc.lookup(id.Name) == nil {
			if p, ok := w.pf.imports[id.Name]; ok {
				if k, ok := psRandPkgs[p]; ok {
					return psRoot{k, p + "." + x.Sel.Name, 0}
				}
				return psRoot{"global", p + "." + x.Sel.Name, 0}
			}
		}
		if r, ok := w.fieldRoot(x, sc); ok {
			return r
		}
		return psRoot{"other", "selector:" + w.str(x), 0}
	case *ast.CallExpr:
		name, _, _ := w.calleeName(x.Fun, sc)
		return psRoot{"call", name, 0}
	}
	return psRoot{"other", "expr:" + w.str(e), 0}
}

// isReaderExpr: is the expression recognisably a reader (without knowing the callee)?
func (w *psWalker) isReaderExpr(e ast.Expr, sc *psScopeT) bool {
	r := w.classify(e, sc)
	switch r.kind {
	case "param", "field", "cryptoRand", "mathRand":
		return true
	}
	return false
}

func (w *psWalker) emit(kind string, at ast.Node, callee string, r psRoot) {
	w.emitT(kind, at, callee, r, 0)
}

func (w *psWalker) emitT(kind string, at ast.Node, callee string, r psRoot, tgt int) {
	p := w.fset.Position(at.Pos())
	rel, _ := filepath.Rel(w.repo, p.Filename)
	lp := w.loops[at]
	*w.sites = append(*w.sites, psSite{kind: kind, pkg: w.pk.dir, fn: w.fn, callee: callee, root: r.kind, name: r.name, src: r.fid, tgt: tgt,
		loop: lp.depth, over: lp.over,
		pos: fmt.Sprintf("%s:%d", filepath.ToSlash(rel), p.Line)})
}

func (w *psWalker) readerPositions(call *ast.CallExpr, sc *psScopeT) (pos []int, certain map[int]bool, name string) {
	name, qual, isMethod := w.calleeName(call.Fun, sc)
	certain = map[int]bool{}
	n := len(call.Args)
	if qual != "" {
		if sig, ok := w.idx.funcs[qual]; ok {
			for p := range sig.pos {
				pos = append(pos, p)
				certain[p] = true
			}
		} else {
			// stdlib table is keyed by import path
			key := qual
			if ps, ok := psStd[key]; ok {
				for _, p := range ps {
					pos = append(pos, p)
					certain[p] = true
				}
			}
		}
	} else if isMethod {
		sel := name[len("·."):]
		for _, key := range []string{sel + "/" + strconv.Itoa(n), sel + "/v"} {
			if sig, ok := w.idx.methods[key]; ok {
				for p, c := range sig.pos {
					pos = append(pos, p)
					if c == sig.n {
						certain[p] = true
					}
				}
			}
		}
	}
	sort.Ints(pos)
	return pos, certain, name
}

func (w *psWalker) walk(n ast.Node, sc *psScopeT) {
	if n == nil {
		return
	}
	ast.Inspect(n, func(m ast.Node) bool {
		switch x := m.(type) {
		case *ast.FuncLit:
			inner := &psScopeT{vars: map[string]*psVar{}, parent: sc}
			w.bindParams(inner, x.Type)
			w.collectAssigns(inner, x.Body)
			w.walk(x.Body, inner)
			return false
		case *ast.CallExpr:
			w.visitCall(x, sc)
			return true
		case *ast.CompositeLit:
			t := psTypeName(x.Type)
			if fs := w.pk.readerFields[t]; fs != nil {
				for i, el := range x.Elts {
					kv, ok := el.(*ast.KeyValueExpr)
					if !ok {
						// positional struct literal: the i-th element initialises the i-th declared field
						ord := w.pk.fieldOrder[t]
						if i >= len(ord) {
							w.emit("init", el, "init:"+t+".#"+strconv.Itoa(i), psRoot{"other", "positional-literal", 0})
							continue
						}
						if fs[ord[i]] {
							r := w.classify(el, sc)
							w.emitT("init", el, "init:"+t+"."+ord[i], r, w.fid(w.pk.dir, t, ord[i]))
						}
						continue
					}
					if k, ok := kv.Key.(*ast.Ident); ok && fs[k.Name] {
						r := w.classify(kv.Value, sc)
						w.emitT("init", kv, "init:"+t+"."+k.Name, r, w.fid(w.pk.dir, t, k.Name))
					}
				}
			}
			return true
		case *ast.AssignStmt:
			for i, l := range x.Lhs {
				se, ok := l.(*ast.SelectorExpr)
				if !ok {
					if ie, ok2 := l.(*ast.IndexExpr); ok2 {
						se, ok = ie.X.(*ast.SelectorExpr)
					}
				}
				if !ok || se == nil {
					continue
				}
				fr, isField := w.fieldRoot(se, sc)
				if !isField {
					continue
				}
				var rhs ast.Expr
				if len(x.Rhs) == len(x.Lhs) {
					rhs = x.Rhs[i]
				} else if len(x.Rhs) == 1 {
					rhs = x.Rhs[0]
				}
				if rhs == nil {
					continue
				}
				r := w.classify(rhs, sc)
				w.emitT("init", x, "init:"+fr.name, r, fr.fid)
			}
			return true
		case *ast.SelectorExpr:
			// any other mention of crypto/rand / math/rand identifiers
			if id, ok := x.X.(*ast.Ident); ok && sc.lookup(id.Name) == nil {
				if p, ok := w.pf.imports[id.Name]; ok {
					if k, ok := psRandPkgs[p]; ok {
						w.emit("use", x, "ref:"+p+"."+x.Sel.Name, psRoot{k, p + "." + x.Sel.Name, 0})
					}
				}
			}
			return true
		}
		return true
	})
}

func (w *psWalker) visitCall(call *ast.CallExpr, sc *psScopeT) {
	pos, certain, name := w.readerPositions(call, sc)
	done := map[int]bool{}
	for _, p := range pos {
		if p >= len(call.Args) {
			continue
		}
		a := call.Args[p]
		if !certain[p] && !w.isReaderExpr(a, sc) {
			// a method of that name takes a reader there only in some declarations, and the
			// argument is not recognisably a reader: not a sampling site
			continue
		}
		done[p] = true
		w.emit("use", call, name, w.classify(a, sc))
	}
	for i, a := range call.Args {
		if done[i] {
			continue
		}
		switch a.(type) {
		case *ast.Ident, *ast.SelectorExpr, *ast.IndexExpr:
			if w.isReaderExpr(a, sc) {
				w.emit("use", call, name, w.classify(a, sc))
			}
		}
	}
}

// ------------------------------------------------------------------------------------------------

func psCps(s string) string {
	return "cps!" + strconv.Quote(s)
}

func psRender(sites []psSite) string {
	var b strings.Builder
	b.WriteString(`-- Table of all randomness-consuming call sites and reader-field initialisations of the protocol
-- packages of /repo (property C07).  Field meanings: see translator/facts_prng.go.
namespace BronVerif.Gen.PrngSites

/-- Text as the list of its code points (kernel-friendly; see Gen/UnmarshalFacts for the reason). -/
abbrev Str := List Nat

macro:max "cps!" s:str : term => do
  let cs ← s.getString.toList.toArray.mapM fun c => ` + "`" + `(nat_lit $(Lean.Syntax.mkNumLit (toString c.toNat)))
  ` + "`" + `([$cs,*])

def Str.render (s : Str) : String := String.ofList (s.map Char.ofNat)

inductive Kind where
  | use | init
  deriving DecidableEq, Repr

inductive Root where
  | param | field | cryptoRand | mathRand | call | global | other
  deriving DecidableEq, Repr

structure Site where
  kind : Kind
  pkg : Str
  fn : Str
  callee : Str
  root : Root
  name : Str
  src : Nat
  tgt : Nat
  /-- number of enclosing for / for-range statements of the enclosing function -/
  loop : Nat := 0
  /-- what the innermost enclosing loop ranges over (for: three-clause loop; empty: no loop) -/
  over : Str := []
  deriving DecidableEq, Repr

`)
	// init records in one literal list (the field rule scans only these); use records in one chunk
	// per package so that no single definition is huge
	var inits, uses []psSite
	for _, s := range sites {
		if s.kind == "init" {
			inits = append(inits, s)
		} else {
			uses = append(uses, s)
		}
	}
	writeList := func(name, doc string, xs []psSite) {
		fmt.Fprintf(&b, "/-- %s -/\ndef %s : List Site := [\n", doc, name)
		for k, s := range xs {
			fmt.Fprintf(&b, "  -- %s\n  { kind := .%s, pkg := %s, fn := %s, callee := %s, root := .%s, name := %s, src := %d, tgt := %d, loop := %d, over := %s }", s.pos, s.kind,
				psCps(s.pkg), psCps(s.fn), psCps(s.callee), s.root, psCps(s.name), s.src, s.tgt, s.loop, psCps(s.over))
			if k+1 < len(xs) {
				b.WriteString(",")
			}
			b.WriteString("\n")
		}
		b.WriteString("]\n\n")
	}
	writeList("inits", "every initialisation of a reader-typed struct field", inits)
	var chunks []string
	i := 0
	for i < len(uses) {
		j := i
		for j < len(uses) && uses[j].pkg == uses[i].pkg {
			j++
		}
		cname := fmt.Sprintf("u%d", len(chunks))
		chunks = append(chunks, cname)
		writeList(cname, "uses in "+uses[i].pkg, uses[i:j])
		i = j
	}
	b.WriteString("/-- all use sites, one chunk per package -/\ndef useChunks : List (List Site) := [")
	b.WriteString(strings.Join(chunks, ", "))
	b.WriteString("]\n\ndef uses : List Site := useChunks.flatten\n\n/-- the whole table -/\ndef sites : List Site := inits ++ uses\n\n")
	fmt.Fprintf(&b, "def count : Nat := %d\n\nend BronVerif.Gen.PrngSites\n", len(sites))
	return b.String()
}
