package main

// Generator "H2CMaps": the RFC 9380 map-to-curve code of /repo → Lean (DESIGN.md §2.3 (T) items 1 and 2).
//
// Part 1 — shared formulas (pkg/base/curves/impl/rfc9380/mappers/{sswu,elligator2}/*.go), translated
// statement by statement into SSA `let` chains over an abstract field (core notation classes only):
//   sswu, SqrtRatio3Mod4, SqrtRatio (incl. its count-down loop → a structurally recursive helper),
//   polyEval (Horner loop → List.foldl), mapIso, NonZeroPointMapper.Map, ZeroPointMapper.Map,
//   mapToCurveElligator2Curve25519, mapToCurveElligator2Edwards25519, Edwards25519PointMapper.Map.
// Everything the code obtains from elsewhere is an explicit parameter of the generated definition:
//   K        embedding of integer constants (SetLimbs of package-level limb tables, suite constants)
//   fpow     fieldsImpl.Pow (base, little-endian exponent bytes → Nat)
//   setZ mulByA mulByB sqrtRatio sgn0 xNum xDen yNum yDen   the methods of the mapper-params type P
//   a⁻¹      Div is `a * b⁻¹` (the code ignores Div's ok flag; Props/C19 proves the divisor non-zero)
//
// Part 2 — per suite (k256, p256, pallas, vesta, bls12381g1, bls12381g2, edwards25519/curve25519): the
// constants assigned in the params file's init() (Z, A', B', isogeny coefficient tables, sqrt_ratio
// constants), L, the expander, the suite strings, and the bodies of the mapper-params methods
// (MulByA, MulByB, SetZ, SqrtRatio, Sgn0, XNum…YDen) plus `map` = the curveMapper type alias applied to
// them.
//
// Recognised subset (anything else is an error — the generator FAILS, no file that compiles is left):
//   var a, b F | var params P                                      locals
//   FP(&x).Op(..) / x.Op(..)  Op ∈ Set SetZero SetOne Add Sub Mul Square Neg Double Select SetLimbs
//   _ = FP(x).Div(a, b)
//   params.{SetZ,MulByA,MulByB}(..) ; b := params.SqrtRatio(&y, &u, &v) ; params.Sgn0(x) ; params.XNum()
//   fieldsImpl.Pow[FP](&r, &b, e)    e ∈ []uint8 parameter | pkgByteArray[:] | binary.LittleEndian.AppendUint64(nil, n)
//   b := x.IsZero() | x.IsNonZero() | x.IsOne() | x.Equal(&y) | bool ^ bool | bool ^ 1 | & | '|'
//   n := i - 2 ; n = 1 << n                                          (uint64 scalars)
//   for i := c; i >= 2; i-- { straight-line }                          (SqrtRatio)
//   FP(r).Set(&cs[len(cs)-1]); for i := len(cs)-2; i >= 0; i-- {…}   (polyEval, exactly this shape)
//   f[FP](outs…, params, ins…) calls of other translated functions ; return <bool> ; return f(..)
// Aliasing: a call site must pass pairwise distinct locations for the callee's outputs and inputs.

import (
	"fmt"
	"go/ast"
	"go/parser"
	"go/token"
	"math/big"
	"os"
	"path/filepath"
	"sort"
	"strings"
)

func init() { register("H2CMaps", genH2CMaps) }

// ---------------------------------------------------------------------------------------------
// sources

type hsrc struct {
	fset  *token.FileSet
	funcs map[string]*ast.FuncDecl // "name" or "Recv.name"
	vars  map[string]*ast.ValueSpec
	varIx map[string]int // index of the name inside its ValueSpec
	types map[string]ast.Expr
	rel   string
}

func loadGoFiles(repo string, rels ...string) (*hsrc, error) {
	s := &hsrc{fset: token.NewFileSet(), funcs: map[string]*ast.FuncDecl{}, vars: map[string]*ast.ValueSpec{}, varIx: map[string]int{}, types: map[string]ast.Expr{}, rel: strings.Join(rels, ",")}
	for _, rel := range rels {
		f, err := parser.ParseFile(s.fset, filepath.Join(repo, rel), nil, 0)
		if err != nil {
			return nil, err
		}
		for _, d := range f.Decls {
			switch v := d.(type) {
			case *ast.FuncDecl:
				key := v.Name.Name
				if v.Recv != nil && len(v.Recv.List) == 1 {
					key = typeName(v.Recv.List[0].Type) + "." + key
				}
				if _, dup := s.funcs[key]; dup && key != "init" {
					return nil, fmt.Errorf("%s: duplicate function %s", rel, key)
				}
				s.funcs[key] = v
			case *ast.GenDecl:
				for _, sp := range v.Specs {
					switch x := sp.(type) {
					case *ast.ValueSpec:
						for i, n := range x.Names {
							s.vars[n.Name] = x
							s.varIx[n.Name] = i
						}
					case *ast.TypeSpec:
						s.types[x.Name.Name] = x.Type
					}
				}
			}
		}
	}
	return s, nil
}

func loadGoDir(repo, rel string) (*hsrc, error) {
	entries, err := os.ReadDir(filepath.Join(repo, rel))
	if err != nil {
		return nil, err
	}
	var rels []string
	for _, e := range entries {
		n := e.Name()
		if strings.HasSuffix(n, ".go") && !strings.HasSuffix(n, "_test.go") {
			rels = append(rels, filepath.Join(rel, n))
		}
	}
	sort.Strings(rels)
	return loadGoFiles(repo, rels...)
}

func (s *hsrc) varInit(name string) ast.Expr {
	vs, ok := s.vars[name]
	if !ok || len(vs.Values) == 0 {
		return nil
	}
	if len(vs.Values) != len(vs.Names) {
		return nil
	}
	return vs.Values[s.varIx[name]]
}

// evalUint evaluates the integer constant expressions used for uint64 parameters
func (s *hsrc) evalUint(e ast.Expr) (*big.Int, error) {
	switch v := e.(type) {
	case *ast.BasicLit:
		if v.Kind == token.INT {
			n, ok := new(big.Int).SetString(strings.ReplaceAll(v.Value, "_", ""), 0)
			if !ok {
				return nil, fmt.Errorf("bad integer literal %s", v.Value)
			}
			return n, nil
		}
	case *ast.ParenExpr:
		return s.evalUint(v.X)
	case *ast.Ident:
		if in := s.varInit(v.Name); in != nil {
			return s.evalUint(in)
		}
		return nil, fmt.Errorf("integer constant %s has no initialiser", v.Name)
	case *ast.CallExpr:
		if id, ok := v.Fun.(*ast.Ident); ok && (id.Name == "uint64" || id.Name == "uint") && len(v.Args) == 1 {
			return s.evalUint(v.Args[0])
		}
	case *ast.BinaryExpr:
		a, err := s.evalUint(v.X)
		if err != nil {
			return nil, err
		}
		b, err := s.evalUint(v.Y)
		if err != nil {
			return nil, err
		}
		switch v.Op {
		case token.ADD:
			return new(big.Int).Add(a, b), nil
		case token.SUB:
			if a.Cmp(b) < 0 {
				return nil, fmt.Errorf("negative constant")
			}
			return new(big.Int).Sub(a, b), nil
		case token.MUL:
			return new(big.Int).Mul(a, b), nil
		case token.SHL:
			if !b.IsUint64() || b.Uint64() > 63 {
				return nil, fmt.Errorf("shift out of range")
			}
			r := new(big.Int).Lsh(a, uint(b.Uint64()))
			if r.BitLen() > 64 {
				return nil, fmt.Errorf("uint64 overflow in constant")
			}
			return r, nil
		}
	}
	return nil, fmt.Errorf("%s: unsupported integer constant expression %s", s.fset.Position(e.Pos()), exprString(s.fset, e))
}

// byteArrayLE: `[...]uint8{0x.., …}` → little-endian integer
func (s *hsrc) byteArrayLE(e ast.Expr) (*big.Int, error) {
	cl, ok := e.(*ast.CompositeLit)
	if !ok {
		return nil, fmt.Errorf("not a composite literal")
	}
	at, ok := cl.Type.(*ast.ArrayType)
	if !ok || (typeName(at.Elt) != "uint8" && typeName(at.Elt) != "byte") {
		return nil, fmt.Errorf("not a byte array literal")
	}
	r := new(big.Int)
	for i, el := range cl.Elts {
		if _, kv := el.(*ast.KeyValueExpr); kv {
			return nil, fmt.Errorf("keyed byte array literal")
		}
		b, err := s.evalUint(el)
		if err != nil {
			return nil, err
		}
		if b.BitLen() > 8 {
			return nil, fmt.Errorf("byte out of range")
		}
		r.Add(r, new(big.Int).Lsh(b, uint(8*i)))
	}
	return r, nil
}

// limbArrayLE: `[...]uint64{…}` → little-endian integer (64-bit limbs)
func (s *hsrc) limbArrayLE(e ast.Expr) (*big.Int, error) {
	cl, ok := e.(*ast.CompositeLit)
	if !ok {
		return nil, fmt.Errorf("not a composite literal")
	}
	at, ok := cl.Type.(*ast.ArrayType)
	if !ok || typeName(at.Elt) != "uint64" {
		return nil, fmt.Errorf("not a uint64 array literal")
	}
	r := new(big.Int)
	for i, el := range cl.Elts {
		b, err := s.evalUint(el)
		if err != nil {
			return nil, err
		}
		if b.BitLen() > 64 {
			return nil, fmt.Errorf("limb out of range")
		}
		r.Add(r, new(big.Int).Lsh(b, uint(64*i)))
	}
	return r, nil
}

// ---------------------------------------------------------------------------------------------
// generated definitions

var hCtxOrder = []string{"K", "fpow", "lsb", "isZero", "u0", "u1", "setZ", "mulByA", "mulByB", "sqrtRatio", "sgn0", "xNum", "xDen", "yNum", "yDen"}

func hCtxType(name, constType string) string {
	switch name {
	case "K":
		return constType + " → F"
	case "fpow":
		return "F → Nat → F"
	case "lsb":
		return "F → Bool"
	case "setZ":
		return "F"
	case "mulByA", "mulByB":
		return "F → F"
	case "sqrtRatio":
		return "F → F → Bool × F"
	case "sgn0":
		return "F → Bool"
	case "xNum", "xDen", "yNum", "yDen":
		return "List F"
	}
	return "?"
}

type hparam struct {
	name string
	kind string // fe, params, nat, bytes, list
}

type hdef struct {
	lean    string
	ctx     []string // context parameters, canonical order
	goParam []hparam
	reads   map[string]bool // fe parameters read as inputs
	writes  map[string]bool // fe parameters written (outputs)
	retBool bool
	text    string
}

// outputs of a definition in order: returned bool first, then written fe parameters in Go order
func (d *hdef) outs() []string {
	var o []string
	if d.retBool {
		o = append(o, "ret")
	}
	for _, p := range d.goParam {
		if p.kind == "fe" && d.writes[p.name] {
			o = append(o, p.name)
		}
	}
	return o
}

func tupleProj(i, n int) string {
	if n == 1 {
		return ""
	}
	s := strings.Repeat(".2", i)
	if i < n-1 {
		s += ".1"
	}
	return s
}

type hgen struct {
	src       *hsrc
	defs      map[string]*hdef
	order     []string
	constDefs []string          // Lean `def name : Nat := …` of the shared section, in order
	constSeen map[string]string // name → value
	inflight  map[string]bool
	pkgPrefix string // package qualifier used by other packages for these functions (e.g. "sswu")
}

var leanKeywords = map[string]bool{"at": true, "in": true, "from": true, "fun": true, "do": true, "end": true, "open": true, "then": true, "else": true, "if": true, "let": true, "have": true, "show": true, "with": true, "match": true, "def": true, "by": true, "this": true, "where": true, "using": true, "section": true, "namespace": true, "variable": true, "instance": true, "structure": true, "class": true, "theorem": true, "example": true, "import": true, "export": true, "Type": true, "Prop": true, "Sort": true, "mutual": true, "infix": true, "notation": true, "macro": true, "syntax": true, "deriving": true, "extends": true, "for": true, "return": true, "universe": true, "private": true, "protected": true, "noncomputable": true, "partial": true, "unsafe": true, "local": true, "attribute": true, "set_option": true, "calc": true, "nomatch": true, "forall": true, "exists": true, "true": true, "false": true}

func leanIdent(s string) string {
	if leanKeywords[s] {
		return s + "_"
	}
	return s
}

func (g *hgen) addConst(name string, v *big.Int) error {
	val := "0x" + v.Text(16)
	if old, ok := g.constSeen[name]; ok {
		if old != val {
			return fmt.Errorf("constant %s defined twice with different values", name)
		}
		return nil
	}
	g.constSeen[name] = val
	g.constDefs = append(g.constDefs, fmt.Sprintf("def %s : Nat := %s", leanIdent(name), val))
	return nil
}

// ---------------------------------------------------------------------------------------------
// straight-line translator

type hT struct {
	g        *hgen
	src      *hsrc
	fname    string
	kind     map[string]string // identifier → fe | local | params | nat | bytes | list | bool
	cur      map[string]string // location → current Lean name
	version  map[string]int
	natCur   map[string]string
	boolCur  map[string]string
	used     map[string]bool // all let-bound / parameter names
	ctx      map[string]bool
	reads    map[string]bool // fe params read before being written
	writes   map[string]bool
	lines    []string
	ret      string
	retBool  bool
	fieldTys map[string]bool // names of field types (F, Fp, Fq, Fp2)
	permissive bool           // loop pre-pass: unknown locations read as themselves
	freeReads  []string       // (permissive) locations read without a current value
	writeOrder []string       // locations in order of first write
	pkgConst   func(name string) (string, error) // package-level field constant → Lean expression
	counter  *int
	natParamOrder []string // uint64 / []uint8 parameters in Go order
	constSink func(name string, v *big.Int) error
	qual      string // namespace qualifier for calls of shared definitions (suites)
}

func (t *hT) errf(n ast.Node, format string, args ...any) error {
	return fmt.Errorf("%s: %s: %s", t.src.fset.Position(n.Pos()), t.fname, fmt.Sprintf(format, args...))
}

func (t *hT) fresh(base string) string {
	base = leanIdent(base)
	name := base
	for i := 2; t.used[name]; i++ {
		name = fmt.Sprintf("%s_%d", base, i)
	}
	t.used[name] = true
	return name
}

func (t *hT) loc(e ast.Expr) (string, error) {
	switch v := e.(type) {
	case *ast.Ident:
		switch t.kind[v.Name] {
		case "fe", "local":
			return v.Name, nil
		}
		return "", t.errf(e, "identifier %s is not a field element", v.Name)
	case *ast.UnaryExpr:
		if v.Op != token.AND {
			return "", t.errf(e, "unsupported unary operator")
		}
		switch x := v.X.(type) {
		case *ast.Ident:
			if t.kind[x.Name] == "local" {
				return x.Name, nil
			}
			if t.kind[x.Name] == "" && t.pkgConst != nil {
				return "const:" + x.Name, nil
			}
			return "", t.errf(e, "address of %s: not a field local", x.Name)
		case *ast.IndexExpr:
			// &coefficients[i] inside the Horner loop
			if id, ok := x.X.(*ast.Ident); ok && t.kind[id.Name] == "list" {
				if ix, ok := x.Index.(*ast.Ident); ok && t.kind[ix.Name] == "loopindex" {
					return "elem:" + id.Name, nil
				}
			}
			return "", t.errf(e, "unsupported indexed address %s", exprString(t.src.fset, e))
		}
		return "", t.errf(e, "unsupported address expression %s", exprString(t.src.fset, e))
	case *ast.CallExpr:
		if id, ok := v.Fun.(*ast.Ident); ok && id.Name == "FP" && len(v.Args) == 1 {
			return t.loc(v.Args[0])
		}
		return "", t.errf(e, "unsupported call in pointer position: %s", exprString(t.src.fset, e))
	case *ast.ParenExpr:
		return t.loc(v.X)
	}
	return "", t.errf(e, "unsupported pointer expression %s", exprString(t.src.fset, e))
}

func (t *hT) read(n ast.Node, loc string) (string, error) {
	if strings.HasPrefix(loc, "const:") {
		return t.pkgConst(loc[len("const:"):])
	}
	if name, ok := t.cur[loc]; ok {
		return name, nil
	}
	if t.kind[loc] == "fe" {
		name := leanIdent(loc)
		if t.used[name] && !t.reads[loc] {
			return "", t.errf(n, "input %s collides with an earlier name", loc)
		}
		t.used[name] = true
		t.reads[loc] = true
		t.cur[loc] = name
		return name, nil
	}
	if t.permissive {
		t.freeReads = append(t.freeReads, loc)
		t.cur[loc] = leanIdent(loc)
		return t.cur[loc], nil
	}
	return "", t.errf(n, "%s read before being written", loc)
}

func (t *hT) write(loc, expr string) string {
	if strings.HasPrefix(loc, "const:") || strings.HasPrefix(loc, "elem:") {
		panic(fmt.Sprintf("%s: write to a constant (%s)", t.fname, loc))
	}
	if t.kind[loc] == "fe" {
		t.writes[loc] = true
	}
	if !contains(t.writeOrder, loc) {
		t.writeOrder = append(t.writeOrder, loc)
	}
	name := t.fresh(loc)
	t.lines = append(t.lines, fmt.Sprintf("  let %s : F := %s", name, expr))
	t.cur[loc] = name
	return name
}

func isIntLit(e ast.Expr, val string) bool {
	b, ok := e.(*ast.BasicLit)
	return ok && b.Kind == token.INT && b.Value == val
}

func (t *hT) natExpr(e ast.Expr) (string, error) {
	switch v := e.(type) {
	case *ast.Ident:
		if n, ok := t.natCur[v.Name]; ok {
			return n, nil
		}
		if t.kind[v.Name] == "bytes" {
			return leanIdent(v.Name), nil
		}
		return "", t.errf(e, "%s is not an integer variable", v.Name)
	case *ast.BasicLit:
		if v.Kind == token.INT {
			n, ok := new(big.Int).SetString(strings.ReplaceAll(v.Value, "_", ""), 0)
			if !ok {
				return "", t.errf(e, "bad literal")
			}
			return n.String(), nil
		}
	case *ast.ParenExpr:
		return t.natExpr(v.X)
	case *ast.BinaryExpr:
		a, err := t.natExpr(v.X)
		if err != nil {
			return "", err
		}
		b, err := t.natExpr(v.Y)
		if err != nil {
			return "", err
		}
		switch v.Op {
		case token.SUB:
			return "(" + a + " - " + b + ")", nil
		case token.ADD:
			return "(" + a + " + " + b + ")", nil
		case token.SHL:
			return "(" + a + " <<< " + b + ")", nil
		}
		return "", t.errf(e, "unsupported integer operator %s", v.Op)
	}
	return "", t.errf(e, "unsupported integer expression %s", exprString(t.src.fset, e))
}

// exponent argument of fieldsImpl.Pow
func (t *hT) expArg(e ast.Expr) (string, error) {
	switch v := e.(type) {
	case *ast.Ident:
		if t.kind[v.Name] == "bytes" {
			return leanIdent(v.Name), nil
		}
	case *ast.SliceExpr:
		if v.Low == nil && v.High == nil && v.Max == nil {
			if id, ok := v.X.(*ast.Ident); ok {
				if t.kind[id.Name] == "bytes" {
					return leanIdent(id.Name), nil
				}
				if t.kind[id.Name] == "" {
					return t.pkgBytes(e, id.Name)
				}
			}
		}
	case *ast.CallExpr:
		// binary.LittleEndian.AppendUint64(nil, n): the 8 little-endian bytes of n, i.e. the exponent n
		if exprString(t.src.fset, v.Fun) == "binary.LittleEndian.AppendUint64" && len(v.Args) == 2 {
			if id, ok := v.Args[0].(*ast.Ident); ok && id.Name == "nil" {
				return t.natExpr(v.Args[1])
			}
		}
	}
	return "", t.errf(e, "unsupported exponent expression %s", exprString(t.src.fset, e))
}

func (t *hT) pkgBytes(n ast.Node, name string) (string, error) {
	in := t.src.varInit(name)
	if in == nil {
		return "", t.errf(n, "no initialiser for %s", name)
	}
	v, err := t.src.byteArrayLE(in)
	if err != nil {
		return "", t.errf(n, "%s: %v", name, err)
	}
	if err := t.constSink(name, v); err != nil {
		return "", err
	}
	return leanIdent(name), nil
}

func (t *hT) boolExpr(e ast.Expr) (string, error) {
	switch v := e.(type) {
	case *ast.Ident:
		if b, ok := t.boolCur[v.Name]; ok {
			return b, nil
		}
		return "", t.errf(e, "unknown boolean %s", v.Name)
	case *ast.ParenExpr:
		return t.boolExpr(v.X)
	case *ast.BinaryExpr:
		if v.Op == token.XOR && isIntLit(v.Y, "1") {
			a, err := t.boolExpr(v.X)
			return "(!" + a + ")", err
		}
		a, err := t.boolExpr(v.X)
		if err != nil {
			return "", err
		}
		b, err := t.boolExpr(v.Y)
		if err != nil {
			return "", err
		}
		switch v.Op {
		case token.XOR:
			return "(" + a + " != " + b + ")", nil
		case token.AND:
			return "(" + a + " && " + b + ")", nil
		case token.OR:
			return "(" + a + " || " + b + ")", nil
		}
		return "", t.errf(e, "unsupported boolean operator %s", v.Op)
	case *ast.CallExpr:
		// sgn0(FP(&y)) — package-level helper, checked to be the least-significant-bit function
		if id, ok := v.Fun.(*ast.Ident); ok && id.Name == "sgn0" && len(v.Args) == 1 {
			if err := t.g.checkLsbHelper("sgn0"); err != nil {
				return "", err
			}
			l, err := t.loc(v.Args[0])
			if err != nil {
				return "", err
			}
			a, err := t.read(e, l)
			if err != nil {
				return "", err
			}
			t.ctx["sgn0"] = true
			return "sgn0 " + a, nil
		}
		sel, ok := v.Fun.(*ast.SelectorExpr)
		if !ok {
			return "", t.errf(e, "unsupported boolean call %s", exprString(t.src.fset, e))
		}
		if id, ok := sel.X.(*ast.Ident); ok && t.kind[id.Name] == "params" {
			if sel.Sel.Name == "Sgn0" && len(v.Args) == 1 {
				l, err := t.loc(v.Args[0])
				if err != nil {
					return "", err
				}
				a, err := t.read(e, l)
				if err != nil {
					return "", err
				}
				t.ctx["sgn0"] = true
				return "sgn0 " + a, nil
			}
			return "", t.errf(e, "unsupported params call in boolean position: %s", sel.Sel.Name)
		}
		dst, err := t.loc(sel.X)
		if err != nil {
			return "", err
		}
		a, err := t.read(e, dst)
		if err != nil {
			return "", err
		}
		switch sel.Sel.Name {
		case "IsZero":
			if len(v.Args) == 0 {
				return "(" + a + " == 0)", nil
			}
		case "IsNonZero":
			if len(v.Args) == 0 {
				return "(" + a + " != 0)", nil
			}
		case "IsOne":
			if len(v.Args) == 0 {
				return "(" + a + " == 1)", nil
			}
		case "Equal":
			if len(v.Args) == 1 {
				bl, err := t.loc(v.Args[0])
				if err != nil {
					return "", err
				}
				b, err := t.read(e, bl)
				if err != nil {
					return "", err
				}
				return "(" + a + " == " + b + ")", nil
			}
		}
		return "", t.errf(e, "unsupported boolean method %s", sel.Sel.Name)
	}
	return "", t.errf(e, "unsupported boolean expression %s", exprString(t.src.fset, e))
}

// the elligator2 package's own sgn0: must be exactly the least significant bit of the canonical bytes
func (g *hgen) checkLsbHelper(name string) error {
	fd, ok := g.src.funcs[name]
	if !ok {
		return fmt.Errorf("helper %s not found", name)
	}
	got := exprString(g.src.fset, fd.Body)
	want := "{ inBytes := in.Bytes() return ct.Bool(uint64(inBytes[0] & 0b1)) }"
	if got != want {
		return fmt.Errorf("helper %s is not the recognised least-significant-bit function: %s", name, got)
	}
	return nil
}

func (t *hT) bindBool(name, expr string) {
	ln := t.fresh(name)
	t.lines = append(t.lines, fmt.Sprintf("  let %s : Bool := %s", ln, expr))
	t.boolCur[name] = ln
}

func (t *hT) bindNat(name, expr string) {
	ln := t.fresh(name)
	t.lines = append(t.lines, fmt.Sprintf("  let %s : Nat := %s", ln, expr))
	t.natCur[name] = ln
}

// callee name of f[FP](..) / pkg.f(..) / pkg.f[FP](..) / f(..); "" if not a translated-function call
func (t *hT) calleeName(fun ast.Expr) string {
	switch v := fun.(type) {
	case *ast.IndexExpr:
		return t.calleeName(v.X)
	case *ast.IndexListExpr:
		return t.calleeName(v.X)
	case *ast.Ident:
		if _, ok := t.g.src.funcs[v.Name]; ok && v.Name != "sgn0" {
			return v.Name
		}
	case *ast.SelectorExpr:
		if id, ok := v.X.(*ast.Ident); ok && t.g.pkgPrefix != "" && id.Name == t.g.pkgPrefix {
			if _, ok := t.g.src.funcs[v.Sel.Name]; ok {
				return v.Sel.Name
			}
		}
	}
	return ""
}

// callFn translates a call of another translated function; returns the Lean name bound to its bool result ("" if none)
func (t *hT) callFn(c *ast.CallExpr, name string) (string, error) {
	d, err := t.g.translate(name)
	if err != nil {
		return "", err
	}
	if len(c.Args) != len(d.goParam) {
		return "", t.errf(c, "call of %s: %d arguments for %d parameters", name, len(c.Args), len(d.goParam))
	}
	var args []string
	for _, cx := range d.ctx {
		t.ctx[cx] = true
		args = append(args, cx)
	}
	outLoc := map[string]string{}
	seen := map[string]string{}
	var natArgs, listArgs, feArgs []string
	for i, p := range d.goParam {
		a := c.Args[i]
		switch p.kind {
		case "params":
			id, ok := a.(*ast.Ident)
			if !ok || t.kind[id.Name] != "params" {
				return "", t.errf(a, "call of %s: params argument expected", name)
			}
		case "nat":
			if id, ok := a.(*ast.Ident); ok && t.kind[id.Name] == "" {
				// package-level uint64 constant
				v, err := t.src.evalUint(id)
				if err != nil {
					return "", t.errf(a, "%v", err)
				}
				if err := t.constSink(id.Name, v); err != nil {
					return "", err
				}
				natArgs = append(natArgs, leanIdent(id.Name))
				break
			}
			s, err := t.natExpr(a)
			if err != nil {
				return "", err
			}
			natArgs = append(natArgs, s)
		case "bytes":
			s, err := t.expArg(a)
			if err != nil {
				return "", err
			}
			natArgs = append(natArgs, s)
		case "list":
			// params.XNum()
			ce, ok := a.(*ast.CallExpr)
			if !ok || len(ce.Args) != 0 {
				return "", t.errf(a, "call of %s: unsupported list argument", name)
			}
			sel, ok := ce.Fun.(*ast.SelectorExpr)
			if !ok {
				return "", t.errf(a, "call of %s: unsupported list argument", name)
			}
			id, ok := sel.X.(*ast.Ident)
			if !ok || t.kind[id.Name] != "params" {
				return "", t.errf(a, "call of %s: unsupported list argument", name)
			}
			cx := lowerFirst(sel.Sel.Name)
			if hCtxType(cx, "Nat") != "List F" {
				return "", t.errf(a, "call of %s: unknown coefficient table %s", name, sel.Sel.Name)
			}
			t.ctx[cx] = true
			listArgs = append(listArgs, cx)
		case "fe":
			l, err := t.loc(a)
			if err != nil {
				return "", err
			}
			if !d.reads[p.name] && !d.writes[p.name] {
				continue
			}
			if prev, dup := seen[l]; dup {
				return "", t.errf(a, "call of %s: location %s passed for both %s and %s (aliasing is not modelled)", name, l, prev, p.name)
			}
			seen[l] = p.name
			if d.reads[p.name] {
				s, err := t.read(a, l)
				if err != nil {
					return "", err
				}
				feArgs = append(feArgs, s)
			}
			if d.writes[p.name] {
				outLoc[p.name] = l
			}
		}
	}
	args = append(args, natArgs...)
	args = append(args, listArgs...)
	args = append(args, feArgs...)
	for i := range args {
		args[i] = paren(args[i])
	}
	*t.counter++
	r := t.fresh(fmt.Sprintf("r%d", *t.counter))
	t.lines = append(t.lines, fmt.Sprintf("  let %s := %s%s %s", r, t.qual, d.lean, strings.Join(args, " ")))
	outs := d.outs()
	boolName := ""
	for i, o := range outs {
		proj := r + tupleProj(i, len(outs))
		if o == "ret" {
			boolName = proj
			continue
		}
		t.write(outLoc[o], proj)
	}
	return boolName, nil
}

func (t *hT) callStmt(c *ast.CallExpr) error {
	if name := t.calleeName(c.Fun); name != "" {
		_, err := t.callFn(c, name)
		return err
	}
	// fieldsImpl.Pow[FP](&r, &b, e)
	if ix, ok := c.Fun.(*ast.IndexExpr); ok && exprString(t.src.fset, ix.X) == "fieldsImpl.Pow" {
		if len(c.Args) != 3 {
			return t.errf(c, "Pow arity")
		}
		dst, err := t.loc(c.Args[0])
		if err != nil {
			return err
		}
		bl, err := t.loc(c.Args[1])
		if err != nil {
			return err
		}
		b, err := t.read(c, bl)
		if err != nil {
			return err
		}
		e, err := t.expArg(c.Args[2])
		if err != nil {
			return err
		}
		t.ctx["fpow"] = true
		t.write(dst, fmt.Sprintf("fpow %s %s", b, e))
		return nil
	}
	sel, ok := c.Fun.(*ast.SelectorExpr)
	if !ok {
		return t.errf(c, "unsupported call %s", exprString(t.src.fset, c))
	}
	m := sel.Sel.Name
	if id, ok := sel.X.(*ast.Ident); ok && t.kind[id.Name] == "params" {
		switch m {
		case "SetZ":
			if len(c.Args) != 1 {
				return t.errf(c, "SetZ arity")
			}
			dst, err := t.loc(c.Args[0])
			if err != nil {
				return err
			}
			t.ctx["setZ"] = true
			t.write(dst, "setZ")
			return nil
		case "MulByA", "MulByB":
			if len(c.Args) != 2 {
				return t.errf(c, "%s arity", m)
			}
			dst, err := t.loc(c.Args[0])
			if err != nil {
				return err
			}
			sl, err := t.loc(c.Args[1])
			if err != nil {
				return err
			}
			a, err := t.read(c, sl)
			if err != nil {
				return err
			}
			t.ctx[lowerFirst(m)] = true
			t.write(dst, lowerFirst(m)+" "+a)
			return nil
		}
		return t.errf(c, "unsupported params method %s in statement position", m)
	}
	dst, err := t.loc(sel.X)
	if err != nil {
		return err
	}
	arg := func(i int) (string, error) {
		l, err := t.loc(c.Args[i])
		if err != nil {
			return "", err
		}
		return t.read(c, l)
	}
	need := func(n int) error {
		if len(c.Args) != n {
			return t.errf(c, "%s expects %d arguments", m, n)
		}
		return nil
	}
	switch m {
	case "SetZero":
		if err := need(0); err != nil {
			return err
		}
		t.write(dst, "0")
	case "SetOne":
		if err := need(0); err != nil {
			return err
		}
		t.write(dst, "1")
	case "SetLimbs":
		// FP(&j).SetLimbs(tbl[:]) — package-level little-endian limb table
		if err := need(1); err != nil {
			return err
		}
		se, ok := c.Args[0].(*ast.SliceExpr)
		if !ok || se.Low != nil || se.High != nil {
			return t.errf(c, "SetLimbs: unsupported argument")
		}
		id, ok := se.X.(*ast.Ident)
		if !ok {
			return t.errf(c, "SetLimbs: unsupported argument")
		}
		in := t.src.varInit(id.Name)
		if in == nil {
			return t.errf(c, "SetLimbs: %s has no initialiser", id.Name)
		}
		v, err := t.src.limbArrayLE(in)
		if err != nil {
			return t.errf(c, "SetLimbs %s: %v", id.Name, err)
		}
		if err := t.constSink(id.Name, v); err != nil {
			return err
		}
		t.ctx["K"] = true
		t.write(dst, "K "+leanIdent(id.Name))
	case "Set", "Neg", "Square", "Double":
		if err := need(1); err != nil {
			return err
		}
		a, err := arg(0)
		if err != nil {
			return err
		}
		switch m {
		case "Set":
			t.write(dst, a)
		case "Neg":
			t.write(dst, "-"+a)
		case "Square":
			t.write(dst, a+" * "+a)
		case "Double":
			t.write(dst, a+" + "+a)
		}
	case "Add", "Sub", "Mul":
		if err := need(2); err != nil {
			return err
		}
		a, err := arg(0)
		if err != nil {
			return err
		}
		b, err := arg(1)
		if err != nil {
			return err
		}
		t.write(dst, a+" "+map[string]string{"Add": "+", "Sub": "-", "Mul": "*"}[m]+" "+b)
	case "Select":
		if err := need(3); err != nil {
			return err
		}
		b, err := t.boolExpr(c.Args[0])
		if err != nil {
			return err
		}
		z, err := arg(1)
		if err != nil {
			return err
		}
		nz, err := arg(2)
		if err != nil {
			return err
		}
		t.write(dst, fmt.Sprintf("if %s then %s else %s", b, nz, z))
	default:
		return t.errf(c, "unsupported field method %s", m)
	}
	return nil
}

func (t *hT) isFieldType(e ast.Expr) bool {
	id, ok := e.(*ast.Ident)
	return ok && t.fieldTys[id.Name]
}

func (t *hT) stmt(s ast.Stmt) error {
	switch v := s.(type) {
	case *ast.DeclStmt:
		gd, ok := v.Decl.(*ast.GenDecl)
		if !ok || gd.Tok != token.VAR {
			return t.errf(s, "unsupported declaration")
		}
		for _, sp := range gd.Specs {
			vs := sp.(*ast.ValueSpec)
			if len(vs.Values) != 0 {
				return t.errf(s, "var with initialiser")
			}
			for _, n := range vs.Names {
				switch {
				case t.isFieldType(vs.Type):
					t.kind[n.Name] = "local"
				case typeName(vs.Type) == "P":
					t.kind[n.Name] = "params"
				default:
					return t.errf(s, "unsupported local type %s", exprString(t.src.fset, vs.Type))
				}
			}
		}
		return nil
	case *ast.ExprStmt:
		c, ok := v.X.(*ast.CallExpr)
		if !ok {
			return t.errf(s, "unsupported expression statement")
		}
		return t.callStmt(c)
	case *ast.AssignStmt:
		if len(v.Lhs) != 1 || len(v.Rhs) != 1 {
			return t.errf(s, "unsupported multi-assignment")
		}
		id, ok := v.Lhs[0].(*ast.Ident)
		if !ok {
			return t.errf(s, "unsupported assignment target")
		}
		if v.Tok != token.DEFINE && v.Tok != token.ASSIGN {
			return t.errf(s, "unsupported assignment operator")
		}
		rhs := v.Rhs[0]
		// _ = FP(x).Div(a, b)
		if id.Name == "_" {
			c, ok := rhs.(*ast.CallExpr)
			if ok {
				if sel, ok := c.Fun.(*ast.SelectorExpr); ok && sel.Sel.Name == "Div" && len(c.Args) == 2 {
					dst, err := t.loc(sel.X)
					if err != nil {
						return err
					}
					al, err := t.loc(c.Args[0])
					if err != nil {
						return err
					}
					a, err := t.read(s, al)
					if err != nil {
						return err
					}
					bl, err := t.loc(c.Args[1])
					if err != nil {
						return err
					}
					b, err := t.read(s, bl)
					if err != nil {
						return err
					}
					t.write(dst, a+" * "+b+"⁻¹")
					return nil
				}
			}
			return t.errf(s, "unsupported discarded expression")
		}
		// integer scalars
		if t.kind[id.Name] == "nat" || (v.Tok == token.DEFINE && t.looksNat(rhs)) {
			e, err := t.natExpr(rhs)
			if err != nil {
				return err
			}
			t.kind[id.Name] = "nat"
			t.bindNat(id.Name, e)
			return nil
		}
		// b := params.SqrtRatio(&y, &u, &v)
		if c, ok := rhs.(*ast.CallExpr); ok {
			if sel, ok := c.Fun.(*ast.SelectorExpr); ok {
				if pid, ok := sel.X.(*ast.Ident); ok && t.kind[pid.Name] == "params" && sel.Sel.Name == "SqrtRatio" {
					if len(c.Args) != 3 {
						return t.errf(s, "SqrtRatio arity")
					}
					dst, err := t.loc(c.Args[0])
					if err != nil {
						return err
					}
					ul, err := t.loc(c.Args[1])
					if err != nil {
						return err
					}
					u, err := t.read(s, ul)
					if err != nil {
						return err
					}
					vl, err := t.loc(c.Args[2])
					if err != nil {
						return err
					}
					vv, err := t.read(s, vl)
					if err != nil {
						return err
					}
					if dst == ul || dst == vl {
						return t.errf(s, "SqrtRatio: output aliases an input")
					}
					t.ctx["sqrtRatio"] = true
					*t.counter++
					r := t.fresh(fmt.Sprintf("r%d", *t.counter))
					t.lines = append(t.lines, fmt.Sprintf("  let %s := sqrtRatio %s %s", r, u, vv))
					t.kind[id.Name] = "bool"
					t.bindBool(id.Name, r+".1")
					t.write(dst, r+".2")
					return nil
				}
			}
			if name := t.calleeName(c.Fun); name != "" {
				b, err := t.callFn(c, name)
				if err != nil {
					return err
				}
				if b == "" {
					return t.errf(s, "%s returns no value", name)
				}
				t.kind[id.Name] = "bool"
				t.bindBool(id.Name, b)
				return nil
			}
		}
		b, err := t.boolExpr(rhs)
		if err != nil {
			return err
		}
		t.kind[id.Name] = "bool"
		t.bindBool(id.Name, b)
		return nil
	case *ast.ForStmt:
		return t.countdownLoop(v)
	case *ast.ReturnStmt:
		if len(v.Results) == 0 {
			return nil
		}
		if len(v.Results) != 1 {
			return t.errf(s, "unsupported return")
		}
		if c, ok := v.Results[0].(*ast.CallExpr); ok {
			if name := t.calleeName(c.Fun); name != "" {
				b, err := t.callFn(c, name)
				if err != nil {
					return err
				}
				if b == "" {
					return t.errf(s, "%s returns no value", name)
				}
				t.ret, t.retBool = b, true
				return nil
			}
		}
		b, err := t.boolExpr(v.Results[0])
		if err != nil {
			return err
		}
		t.ret, t.retBool = b, true
		return nil
	}
	return t.errf(s, "unsupported statement %T", s)
}

func (t *hT) looksNat(e ast.Expr) bool {
	switch v := e.(type) {
	case *ast.Ident:
		return t.kind[v.Name] == "nat"
	case *ast.BasicLit:
		return v.Kind == token.INT
	case *ast.ParenExpr:
		return t.looksNat(v.X)
	case *ast.BinaryExpr:
		return (v.Op == token.SUB || v.Op == token.ADD || v.Op == token.SHL) && t.looksNat(v.X) && t.looksNat(v.Y)
	}
	return false
}

// for i := c; i >= 2; i-- { straight-line }   →  structurally recursive helper `<fn>_loop`
func (t *hT) countdownLoop(f *ast.ForStmt) error {
	init, ok := f.Init.(*ast.AssignStmt)
	if !ok || init.Tok != token.DEFINE || len(init.Lhs) != 1 || len(init.Rhs) != 1 {
		return t.errf(f, "unsupported loop initialisation")
	}
	iv, ok := init.Lhs[0].(*ast.Ident)
	if !ok {
		return t.errf(f, "unsupported loop variable")
	}
	start, ok := init.Rhs[0].(*ast.Ident)
	if !ok || t.kind[start.Name] != "nat" {
		return t.errf(f, "loop must start at a uint64 parameter")
	}
	cond, ok := f.Cond.(*ast.BinaryExpr)
	if !ok || cond.Op != token.GEQ || !isIntLit(cond.Y, "2") {
		return t.errf(f, "loop condition must be `i >= 2`")
	}
	if ci, ok := cond.X.(*ast.Ident); !ok || ci.Name != iv.Name {
		return t.errf(f, "loop condition must test the loop variable")
	}
	post, ok := f.Post.(*ast.IncDecStmt)
	if !ok || post.Tok != token.DEC {
		return t.errf(f, "loop step must be i--")
	}
	if pi, ok := post.X.(*ast.Ident); !ok || pi.Name != iv.Name {
		return t.errf(f, "loop step must decrement the loop variable")
	}
	if _, taken := t.kind[iv.Name]; taken {
		return t.errf(f, "loop variable %s shadows another identifier", iv.Name)
	}
	sub := func(permissive bool, state, free []string) (*hT, error) {
		u := &hT{g: t.g, src: t.src, fname: t.fname + " (loop)", kind: map[string]string{}, cur: map[string]string{}, version: map[string]int{},
			natCur: map[string]string{}, boolCur: map[string]string{}, used: map[string]bool{}, ctx: map[string]bool{}, reads: map[string]bool{}, writes: map[string]bool{},
			fieldTys: t.fieldTys, permissive: permissive, pkgConst: t.pkgConst, counter: t.counter, constSink: t.constSink}
		for k, v := range t.kind {
			if v == "bool" {
				continue // booleans of the enclosing scope are not visible in the loop helper
			}
			if v == "fe" {
				v = "local" // pointer parameters are ordinary state inside the helper
			}
			u.kind[k] = v
		}
		for k := range t.natCur {
			delete(u.kind, k) // enclosing integer variables other than parameters are not passed in
		}
		for _, p := range t.natParams() {
			u.kind[p] = t.kind[p]
			if t.kind[p] == "nat" {
				u.natCur[p] = leanIdent(p)
			}
			u.used[leanIdent(p)] = true
		}
		u.natParamOrder = t.natParamOrder
		u.kind[iv.Name] = "nat"
		u.natCur[iv.Name] = leanIdent(iv.Name)
		u.used[leanIdent(iv.Name)] = true
		u.used["n"] = true
		for _, l := range append(append([]string{}, state...), free...) {
			u.cur[l] = leanIdent(l)
			u.used[leanIdent(l)] = true
		}
		for _, s := range f.Body.List {
			if _, isLoop := s.(*ast.ForStmt); isLoop {
				return nil, t.errf(s, "nested loop")
			}
			if _, isRet := s.(*ast.ReturnStmt); isRet {
				return nil, t.errf(s, "return inside loop")
			}
			if err := u.stmt(s); err != nil {
				return nil, err
			}
		}
		return u, nil
	}
	pre, err := sub(true, nil, nil)
	if err != nil {
		return err
	}
	state := append([]string{}, pre.writeOrder...)
	sort.Strings(state)
	var free []string
	for _, l := range pre.freeReads {
		if !contains(state, l) && !contains(free, l) {
			free = append(free, l)
		}
	}
	body, err := sub(false, state, free)
	if err != nil {
		return err
	}
	// Lean helper
	helper := lowerFirst(t.fname) + "Loop"
	var ctxs []string
	for _, cx := range hCtxOrder {
		if body.ctx[cx] {
			ctxs = append(ctxs, cx)
			t.ctx[cx] = true
		}
	}
	var sb strings.Builder
	fmt.Fprintf(&sb, "/-- the loop `for %s := %s; %s >= 2; %s--` of `%s`: the first argument counts the remaining iterations; the body runs with `%s = n + 2` when `n + 1` remain -/\n", iv.Name, start.Name, iv.Name, iv.Name, t.fname, iv.Name)
	fmt.Fprintf(&sb, "def %s", helper)
	for _, cx := range ctxs {
		fmt.Fprintf(&sb, " (%s : %s)", cx, hCtxType(cx, "Nat"))
	}
	natPs := t.natParams()
	for _, p := range natPs {
		fmt.Fprintf(&sb, " (%s : Nat)", leanIdent(p))
	}
	for _, l := range free {
		fmt.Fprintf(&sb, " (%s : F)", leanIdent(l))
	}
	sb.WriteString(" : Nat")
	for range state {
		sb.WriteString(" → F")
	}
	sb.WriteString(" → " + strings.Repeat("F × ", len(state)-1) + "F\n")
	var names []string
	for _, l := range state {
		names = append(names, leanIdent(l))
	}
	fmt.Fprintf(&sb, "  | 0, %s => (%s)\n", strings.Join(names, ", "), strings.Join(names, ", "))
	fmt.Fprintf(&sb, "  | n + 1, %s =>\n", strings.Join(names, ", "))
	fmt.Fprintf(&sb, "  let %s : Nat := n + 2\n", leanIdent(iv.Name))
	for _, l := range body.lines {
		sb.WriteString(l + "\n")
	}
	var recArgs []string
	recArgs = append(recArgs, ctxs...)
	for _, p := range natPs {
		recArgs = append(recArgs, leanIdent(p))
	}
	for _, l := range free {
		recArgs = append(recArgs, leanIdent(l))
	}
	recArgs = append(recArgs, "n")
	for _, l := range state {
		recArgs = append(recArgs, body.cur[l])
	}
	fmt.Fprintf(&sb, "  %s %s\n\n", helper, strings.Join(recArgs, " "))
	t.g.order = append(t.g.order, "loop:"+helper)
	t.g.defs["loop:"+helper] = &hdef{lean: helper, text: sb.String()}
	// call in the enclosing function
	var args []string
	args = append(args, ctxs...)
	for _, p := range natPs {
		if t.kind[p] == "nat" {
			args = append(args, t.natCur[p])
		} else {
			args = append(args, leanIdent(p))
		}
	}
	for _, l := range free {
		s, err := t.read(f, l)
		if err != nil {
			return err
		}
		args = append(args, s)
	}
	args = append(args, "("+t.natCur[start.Name]+" - 1)")
	for _, l := range state {
		s, ok := t.cur[l]
		if !ok {
			return t.errf(f, "loop state %s is not initialised before the loop", l)
		}
		args = append(args, s)
	}
	*t.counter++
	r := t.fresh(fmt.Sprintf("r%d", *t.counter))
	t.lines = append(t.lines, fmt.Sprintf("  let %s := %s %s", r, helper, strings.Join(args, " ")))
	for i, l := range state {
		t.write(l, r+tupleProj(i, len(state)))
	}
	return nil
}

func (t *hT) natParams() []string { return t.natParamOrder }
