package main

// Generator "RouterFacts" (property C11, "message routing is exact under every delivery order").
//
// Purely syntactic (go/parser + go/ast; /repo is never built).  From pkg/network/router.go it
// extracts the CRITICAL SECTIONS of routerCore — the places where the shared state is written —
// so that Props/C11Facts.lean can compare them with the steps of Model/Router.lean: a changed
// branch structure (e.g. the duplicate test of `deposit` no longer guarding the store path) breaks
// a regenerated obligation even if no test input exhibits a difference.
//
// For every function of the file it records every SITE, i.e. every statement that
//
//   * assigns to / increments / decrements a tracked field (routerCore: boxes, buffered, started,
//     stop, fatal, failed; mailbox: payloads, poison, notify — whatever the receiver is called),
//   * calls delete(..) or close(..) on such a field, or calls signal / failLocked / fail / deposit /
//     readLoop / boxFor / the stop function,
//   * returns from `deposit` (its result tells the reader whether to go on) or from `receiveFrom`
//     (their order is the priority poison > complete set > latched failure > cancellation),
//   * is a `select` (its communication clauses: the non-blocking send of `signal`, the wake-up
//     sources of a parked receive) or creates a channel with `make` (the capacity of `notify`),
//
// with
//
//   fn      enclosing function ("deposit", "receiveFrom", "receiveFrom.defer" for the deferred
//           closure, …)
//   what    the statement, printed, with `.WithMessage(…)` decorations of error values removed
//   guards  the conditions under which it runs, outermost first: `cond` inside the then-branch of
//           `if cond`, `!(cond)` inside the else-branch AND for every statement that follows an
//           `if cond { …; return }` without else in the same block (fall-through), `range X` /
//           `loop` for loops, `case X` for select clauses.  An `if` with an init statement is
//           printed `init; cond`.
//   locked  whether `mu` is held: tracked through `X.mu.Lock()`, `X.mu.Unlock()` and
//           `defer X.mu.Unlock()` in statement order (a branch that unlocks and returns does not
//           affect the code after it)
//
// and the two constants maxReceiveBufferSize and namespaceSeparator.  Anything outside this subset
// (goto, labelled statements, switch in these functions) makes the generator fail loudly.

import (
	"fmt"
	"go/ast"
	"go/parser"
	"go/token"
	"path/filepath"
	"strings"
)

func init() { register("RouterFacts", genRouterFacts) }

type rfSite struct {
	fn, kind, what string
	guards         []string
	locked         bool
}

var rfFields = map[string]bool{
	"boxes": true, "buffered": true, "started": true, "stop": true, "fatal": true, "failed": true,
	"payloads": true, "poison": true, "notify": true,
}

var rfCalls = map[string]bool{
	"signal": true, "failLocked": true, "fail": true, "deposit": true, "readLoop": true, "boxFor": true, "stop": true,
}

type rfWalker struct {
	fset  *token.FileSet
	fn    string
	sites *[]rfSite
	err   error
}

// rfStrip removes `.WithMessage(…)` decorations (also inside receivers and arguments of calls).
func rfStrip(e ast.Expr) ast.Expr {
	c, ok := e.(*ast.CallExpr)
	if !ok {
		return e
	}
	cp := *c
	if s, ok := c.Fun.(*ast.SelectorExpr); ok {
		if s.Sel.Name == "WithMessage" {
			return rfStrip(s.X)
		}
		sp := *s
		sp.X = rfStrip(s.X)
		cp.Fun = &sp
	}
	cp.Args = make([]ast.Expr, len(c.Args))
	for i, a := range c.Args {
		cp.Args[i] = rfStrip(a)
	}
	return &cp
}

// rfTracked: does the expression denote (an element of) a tracked field, `x.field` or `x.field[k]`?
func rfTracked(e ast.Expr) bool {
	switch x := e.(type) {
	case *ast.SelectorExpr:
		_, isIdent := x.X.(*ast.Ident)
		return isIdent && rfFields[x.Sel.Name]
	case *ast.IndexExpr:
		return rfTracked(x.X)
	case *ast.ParenExpr:
		return rfTracked(x.X)
	}
	return false
}

func (w *rfWalker) add(kind, what string, guards []string, locked bool) {
	*w.sites = append(*w.sites, rfSite{fn: w.fn, kind: kind, what: what, guards: append([]string(nil), guards...), locked: locked})
}

// rfField: the tracked field an expression denotes ("" if none)
func rfField(e ast.Expr) string {
	switch x := e.(type) {
	case *ast.SelectorExpr:
		if _, isIdent := x.X.(*ast.Ident); isIdent && rfFields[x.Sel.Name] {
			return x.Sel.Name
		}
	case *ast.IndexExpr:
		return rfField(x.X)
	case *ast.ParenExpr:
		return rfField(x.X)
	}
	return ""
}

func (w *rfWalker) print(n ast.Node) string { return ciPrint(w.fset, n) }

// isMu recognises X.mu.Lock / X.mu.Unlock
func rfMuCall(e ast.Expr) string {
	c, ok := e.(*ast.CallExpr)
	if !ok {
		return ""
	}
	s, ok := c.Fun.(*ast.SelectorExpr)
	if !ok || (s.Sel.Name != "Lock" && s.Sel.Name != "Unlock") {
		return ""
	}
	m, ok := s.X.(*ast.SelectorExpr)
	if !ok || m.Sel.Name != "mu" {
		return ""
	}
	return s.Sel.Name
}

func rfTerminates(b *ast.BlockStmt) bool {
	if b == nil || len(b.List) == 0 {
		return false
	}
	switch s := b.List[len(b.List)-1].(type) {
	case *ast.ReturnStmt:
		return true
	case *ast.BranchStmt:
		return s.Tok == token.CONTINUE || s.Tok == token.BREAK
	case *ast.ExprStmt:
		if c, ok := s.X.(*ast.CallExpr); ok {
			if id, ok := c.Fun.(*ast.Ident); ok && id.Name == "panic" {
				return true
			}
		}
	}
	return false
}

// call records tracked calls inside an expression (not descending into function literals).
func (w *rfWalker) calls(n ast.Node, guards []string, locked bool, prefix string) {
	if n == nil {
		return
	}
	ast.Inspect(n, func(x ast.Node) bool {
		switch c := x.(type) {
		case *ast.FuncLit:
			return false
		case *ast.CallExpr:
			switch f := c.Fun.(type) {
			case *ast.Ident:
				if (f.Name == "delete" || f.Name == "close") && len(c.Args) > 0 && rfTracked(c.Args[0]) {
					w.add(rfField(c.Args[0]), prefix+w.print(c), guards, locked)
				} else if rfCalls[f.Name] {
					w.add("call", prefix+w.print(rfStrip(c)), guards, locked)
				}
			case *ast.SelectorExpr:
				if rfCalls[f.Sel.Name] {
					w.add("call", prefix+w.print(rfStrip(c)), guards, locked)
				}
			}
		}
		return true
	})
}

// block walks the statements; returns whether mu is held afterwards.
func (w *rfWalker) block(stmts []ast.Stmt, guards []string, locked bool) bool {
	guards = append([]string(nil), guards...)
	for _, st := range stmts {
		locked = w.stmt(st, &guards, locked)
	}
	return locked
}

func (w *rfWalker) stmt(st ast.Stmt, guards *[]string, locked bool) bool {
	switch s := st.(type) {
	case *ast.ExprStmt:
		switch rfMuCall(s.X) {
		case "Lock":
			return true
		case "Unlock":
			return false
		}
		w.calls(s.X, *guards, locked, "")
	case *ast.DeferStmt:
		if rfMuCall(s.Call) == "Unlock" {
			return locked // held until the function returns
		}
		if fl, ok := s.Call.Fun.(*ast.FuncLit); ok {
			sub := &rfWalker{fset: w.fset, fn: w.fn + ".defer", sites: w.sites}
			sub.block(fl.Body.List, nil, false)
			if sub.err != nil {
				w.err = sub.err
			}
		} else {
			w.calls(s.Call, *guards, locked, "defer ")
		}
	case *ast.GoStmt:
		w.calls(s.Call, *guards, locked, "go ")
	case *ast.AssignStmt:
		tracked := false
		field := ""
		for _, l := range s.Lhs {
			if rfTracked(l) {
				tracked = true
				field = rfField(l)
			}
		}
		if tracked {
			cp := *s
			cp.Rhs = make([]ast.Expr, len(s.Rhs))
			for i, r := range s.Rhs {
				cp.Rhs[i] = rfStrip(r)
			}
			w.add(field, w.print(&cp), *guards, locked)
		}
		for _, r := range s.Rhs {
			w.calls(r, *guards, locked, "")
			// the capacity of the notify channel is part of the wake-up protocol
			if c, ok := r.(*ast.CallExpr); ok && !tracked {
				if id, ok := c.Fun.(*ast.Ident); ok && id.Name == "make" && len(c.Args) > 0 {
					if _, isChan := c.Args[0].(*ast.ChanType); isChan {
						w.add("chan", w.print(s), *guards, locked)
					}
				}
			}
		}
	case *ast.IncDecStmt:
		if rfTracked(s.X) {
			w.add(rfField(s.X), w.print(s), *guards, locked)
		}
	case *ast.ReturnStmt:
		for _, r := range s.Results {
			w.calls(r, *guards, locked, "")
		}
		if w.fn == "deposit" || w.fn == "receiveFrom" {
			cp := *s
			cp.Results = make([]ast.Expr, len(s.Results))
			for i, r := range s.Results {
				cp.Results[i] = rfStrip(r)
			}
			w.add("return", w.print(&cp), *guards, locked)
		}
	case *ast.IfStmt:
		cond := w.print(s.Cond)
		if s.Init != nil {
			cond = w.print(s.Init) + "; " + cond
			w.calls(s.Init, *guards, locked, "")
		}
		w.calls(s.Cond, *guards, locked, "")
		thenLocked := w.block(s.Body.List, append(append([]string(nil), *guards...), cond), locked)
		after := thenLocked
		if rfTerminates(s.Body) {
			after = locked
		}
		switch e := s.Else.(type) {
		case nil:
			if rfTerminates(s.Body) {
				*guards = append(*guards, "!("+cond+")")
			}
		case *ast.BlockStmt:
			elseLocked := w.block(e.List, append(append([]string(nil), *guards...), "!("+cond+")"), locked)
			if rfTerminates(s.Body) {
				after = elseLocked
				*guards = append(*guards, "!("+cond+")")
			} else if rfTerminates(e) {
				*guards = append(*guards, cond)
			}
		default:
			w.err = fmt.Errorf("%s: else-if chains are outside the subset", w.fn)
		}
		return after
	case *ast.ForStmt:
		g := "loop"
		if s.Cond != nil {
			g = "for " + w.print(s.Cond)
		}
		w.block(s.Body.List, append(append([]string(nil), *guards...), g), locked)
	case *ast.RangeStmt:
		w.block(s.Body.List, append(append([]string(nil), *guards...), "range "+w.print(s.X)), locked)
	case *ast.SelectStmt:
		var comms []string
		for _, cl := range s.Body.List {
			cc := cl.(*ast.CommClause)
			if cc.Comm == nil {
				comms = append(comms, "default")
			} else {
				comms = append(comms, w.print(cc.Comm))
			}
		}
		w.add("select", "select { "+strings.Join(comms, " | ")+" }", *guards, locked)
		for _, cl := range s.Body.List {
			cc := cl.(*ast.CommClause)
			g := "default"
			if cc.Comm != nil {
				g = "case " + w.print(cc.Comm)
			}
			w.block(cc.Body, append(append([]string(nil), *guards...), g), locked)
		}
	case *ast.BlockStmt:
		return w.block(s.List, *guards, locked)
	case *ast.DeclStmt, *ast.BranchStmt, *ast.EmptyStmt:
	case *ast.SwitchStmt, *ast.TypeSwitchStmt, *ast.LabeledStmt:
		w.err = fmt.Errorf("%s: %T is outside the subset", w.fn, st)
	default:
		w.err = fmt.Errorf("%s: statement %T is outside the subset", w.fn, st)
	}
	return locked
}

func rfLeanStr(s string) string {
	s = strings.ReplaceAll(s, `\`, `\\`)
	s = strings.ReplaceAll(s, `"`, `\"`)
	return `rf!"` + s + `"`
}

func genRouterFacts(repo string) (string, error) {
	fset := token.NewFileSet()
	path := filepath.Join(repo, "pkg/network/router.go")
	f, err := parser.ParseFile(fset, path, nil, 0)
	if err != nil {
		return "", err
	}
	var sites []rfSite
	consts := map[string]string{}
	for _, d := range f.Decls {
		switch x := d.(type) {
		case *ast.GenDecl:
			if x.Tok != token.CONST {
				continue
			}
			for _, sp := range x.Specs {
				vs := sp.(*ast.ValueSpec)
				for i, n := range vs.Names {
					if i < len(vs.Values) {
						consts[n.Name] = ciPrint(fset, vs.Values[i])
					}
				}
			}
		case *ast.FuncDecl:
			if x.Body == nil {
				continue
			}
			w := &rfWalker{fset: fset, fn: x.Name.Name, sites: &sites}
			w.block(x.Body.List, nil, false)
			if w.err != nil {
				return "", w.err
			}
		}
	}
	for _, k := range []string{"maxReceiveBufferSize", "namespaceSeparator"} {
		if _, ok := consts[k]; !ok {
			return "", fmt.Errorf("constant %s not found in router.go", k)
		}
	}
	if len(sites) == 0 {
		return "", fmt.Errorf("no critical-section sites found in router.go")
	}
	var b strings.Builder
	b.WriteString("/-! Critical sections of `routerCore` (pkg/network/router.go): every write to the shared state\nwith the conditions under which it runs and whether `mu` is held.  See translator/facts_router.go. -/\n")
	b.WriteString("namespace BronVerif.Gen.RouterFacts\n\n")
	b.WriteString("/-- Text as the list of its code points (kernel-friendly). -/\nabbrev Str := List Nat\n\n")
	b.WriteString("macro:max \"rf!\" s:str : term => do\n  let cs ← s.getString.toList.toArray.mapM fun c => `(nat_lit $(Lean.Syntax.mkNumLit (toString c.toNat)))\n  `([$cs,*])\n\n")
	b.WriteString("structure Site where\n  fn : Str\n  kind : Str\n  what : Str\n  guards : List Str\n  locked : Bool\n  deriving DecidableEq, Repr\n\n")
	b.WriteString("def sites : List Site := [\n")
	for i, s := range sites {
		gs := make([]string, len(s.guards))
		for j, g := range s.guards {
			gs[j] = rfLeanStr(g)
		}
		sep := ","
		if i == len(sites)-1 {
			sep = ""
		}
		fmt.Fprintf(&b, "  ⟨%s, %s, %s, [%s], %v⟩%s\n", rfLeanStr(s.fn), rfLeanStr(s.kind), rfLeanStr(s.what), strings.Join(gs, ", "), s.locked, sep)
	}
	b.WriteString("]\n\n")
	fmt.Fprintf(&b, "def maxReceiveBufferSize : Str := %s\n", rfLeanStr(consts["maxReceiveBufferSize"]))
	fmt.Fprintf(&b, "def namespaceSeparator : Str := %s\n\n", rfLeanStr(consts["namespaceSeparator"]))
	b.WriteString("end BronVerif.Gen.RouterFacts\n")
	return b.String(), nil
}
