package main

// Generator "CommitFacts" (property C18, "commitments open only to what was committed").
//
// From pkg/commitments/{hashcom,pedersencom,intcom,indcpacom,internal}:
//   consts       string constants (scheme names) and numeric constants (hashcom KeySize / DigestSize)
//   hmacFunc     source text of the keyed hash constructor hashcom uses (`blake2b.New256`)
//   event lists (translator/tie_events.go) of
//     internal.GenericOpen                       recompute-and-compare, the one Open of every scheme
//     hashcom   CommitWithWitness / ExtractCommitmentKey   key ‖ message ‖ witness framing, key = extracted bytes
//     pedersencom CommitWithWitness / NewCommitmentKeyUnchecked / ExtractCommitmentKey / Open
//                 TrapdoorKey.CommitWithWitness / Equivocate
//     intcom    CommitWithWitness / newCommitmentKey / ExtractCommitmentKey (label derivation `s_<label>_<n>`)
//     indcpacom CommitWithWitness
// Props/C18Facts.lean compares them with Model/Commit.lean.

import (
	"fmt"
	"strings"
)

func init() { register("CommitFacts", genCommitFacts) }

func genCommitFacts(repo string) (string, error) {
	t := newTieFiles(repo)
	var strs, nums [][2]string
	for _, rel := range []string{
		"pkg/commitments/hashcom/hashcom.go",
		"pkg/commitments/pedersencom/pedersen.go",
		"pkg/commitments/intcom/intcom.go",
	} {
		s, o, err := t.consts(rel)
		if err != nil {
			return "", err
		}
		pkg := strings.Split(rel, "/")[2]
		for _, p := range s {
			strs = append(strs, [2]string{pkg + "." + p[0], p[1]})
		}
		for _, p := range o {
			nums = append(nums, [2]string{pkg + "." + p[0], p[1]})
		}
	}
	if len(strs) == 0 || len(nums) == 0 {
		return "", fmt.Errorf("pkg/commitments: constants not found")
	}
	hm, err := t.packageVar("pkg/commitments/hashcom/hashcom.go", "hmacFunc")
	if err != nil {
		return "", err
	}
	var pre strings.Builder
	pre.WriteString(tiePairs("consts", "string constants (scheme names), `<package>.<name>`", strs))
	pre.WriteString(tiePairs("numConsts", "other constants (source text of the value)", nums))
	fmt.Fprintf(&pre, "/-- the keyed hash constructor of hashcom -/\ndef hmacFunc : String := %s\n\n", leanString(tiePrint(t.fset, hm)))
	return tieModule(repo, "CommitFacts",
		"Constants and statement sequences of `pkg/commitments` (property C18).", pre.String(), t, []tieTarget{
			{"pkg/commitments/internal/open.go", "", "GenericOpen", "genericOpen"},
			{"pkg/commitments/hashcom/key.go", "CommitmentKey", "CommitWithWitness", "hashCommit"},
			{"pkg/commitments/hashcom/key.go", "CommitmentKey", "Open", "hashOpen"},
			{"pkg/commitments/hashcom/key.go", "", "ExtractCommitmentKey", "hashExtractKey"},
			{"pkg/commitments/pedersencom/key.go", "CommitmentKey", "CommitWithWitness", "pedCommit"},
			{"pkg/commitments/pedersencom/key.go", "CommitmentKey", "Open", "pedOpen"},
			{"pkg/commitments/pedersencom/key.go", "", "NewCommitmentKeyUnchecked", "pedNewKey"},
			{"pkg/commitments/pedersencom/key.go", "", "ExtractCommitmentKey", "pedExtractKey"},
			{"pkg/commitments/pedersencom/trapdoor.go", "TrapdoorKey", "CommitWithWitness", "pedTrapdoorCommit"},
			{"pkg/commitments/pedersencom/trapdoor.go", "TrapdoorKey", "Equivocate", "pedEquivocate"},
			{"pkg/commitments/intcom/key.go", "CommitmentKey", "CommitWithWitness", "intCommit"},
			{"pkg/commitments/intcom/key.go", "CommitmentKey", "Open", "intOpen"},
			{"pkg/commitments/intcom/key.go", "", "newCommitmentKey", "intNewKey"},
			{"pkg/commitments/intcom/key.go", "", "ExtractCommitmentKey", "intExtractKey"},
			{"pkg/commitments/intcom/trapdoor.go", "TrapdoorKey", "CommitWithWitness", "intTrapdoorCommit"},
			{"pkg/commitments/indcpacom/key.go", "CommitmentKey", "CommitWithWitness", "indcpaCommit"},
			{"pkg/commitments/indcpacom/key.go", "CommitmentKey", "Open", "indcpaOpen"},
		})
}
