package main

// Generator "Hagrid": the framing constants of pkg/transcripts/hagrid/hagrid.go (tag bytes evaluated with
// Go's iota rules, the cSHAKE customisation prefix) and, per method, the exact sequence of sponge writes
// (receiver and argument expression as source text; loops are bracketed).  Props/C19.lean proves by
// `decide` that the transcribed model constants and write sequences equal the generated ones, so dropping
// a length prefix, a tag byte or the continued/extracted fork, or renumbering the tags, breaks the proof.

import (
	"bytes"
	"fmt"
	"go/ast"
	"go/parser"
	"go/printer"
	"go/token"
	"path/filepath"
	"strconv"
	"strings"
)

func init() { register("Hagrid", genHagrid) }

func exprString(fset *token.FileSet, e ast.Node) string {
	var b bytes.Buffer
	_ = printer.Fprint(&b, fset, e)
	return strings.Join(strings.Fields(b.String()), " ")
}

// evalIotaExpr evaluates the small subset `iota`, integer literal, `a + b` used by the tag block.
func evalIotaExpr(e ast.Expr, iota int) (int, error) {
	switch v := e.(type) {
	case *ast.Ident:
		if v.Name == "iota" {
			return iota, nil
		}
	case *ast.BasicLit:
		if v.Kind == token.INT {
			n, err := strconv.ParseInt(v.Value, 0, 64)
			return int(n), err
		}
	case *ast.ParenExpr:
		return evalIotaExpr(v.X, iota)
	case *ast.BinaryExpr:
		if v.Op == token.ADD {
			a, err := evalIotaExpr(v.X, iota)
			if err != nil {
				return 0, err
			}
			b, err := evalIotaExpr(v.Y, iota)
			return a + b, err
		}
	}
	return 0, fmt.Errorf("unsupported constant expression")
}

func leanString(s string) string {
	var b strings.Builder
	b.WriteByte('"')
	for _, r := range s {
		switch {
		case r == '"' || r == '\\':
			b.WriteByte('\\')
			b.WriteRune(r)
		case r < 0x20 || r > 0x7e:
			fmt.Fprintf(&b, "\\u{%x}", r)
		default:
			b.WriteRune(r)
		}
	}
	b.WriteByte('"')
	return b.String()
}

func genHagrid(repo string) (string, error) {
	path := filepath.Join(repo, "pkg", "transcripts", "hagrid", "hagrid.go")
	fset := token.NewFileSet()
	f, err := parser.ParseFile(fset, path, nil, 0)
	if err != nil {
		return "", err
	}
	var out strings.Builder
	out.WriteString("namespace BronVerif.Gen.Hagrid\n\n")
	nTags := 0
	var tagNames []string
	for _, d := range f.Decls {
		gd, ok := d.(*ast.GenDecl)
		if !ok || gd.Tok != token.CONST {
			continue
		}
		var lastExpr ast.Expr
		lastTyped := false
		for idx, sp := range gd.Specs {
			vs := sp.(*ast.ValueSpec)
			if len(vs.Names) != 1 {
				return "", fmt.Errorf("hagrid.go: multi-name const spec not supported")
			}
			name := vs.Names[0].Name
			if len(vs.Values) == 1 {
				lastExpr = vs.Values[0]
				lastTyped = vs.Type != nil
			} else if len(vs.Values) != 0 {
				return "", fmt.Errorf("hagrid.go: const %s: unsupported value list", name)
			}
			if lastExpr == nil {
				return "", fmt.Errorf("hagrid.go: const %s without expression", name)
			}
			if lit, ok := lastExpr.(*ast.BasicLit); ok && lit.Kind == token.STRING && len(vs.Values) == 1 {
				s, err := strconv.Unquote(lit.Value)
				if err != nil {
					return "", err
				}
				fmt.Fprintf(&out, "def %s : String := %s\n", name, leanString(s))
				continue
			}
			_ = lastTyped
			v, err := evalIotaExpr(lastExpr, idx)
			if err != nil {
				return "", fmt.Errorf("hagrid.go: const %s: %w", name, err)
			}
			if v < 0 || v > 255 {
				return "", fmt.Errorf("hagrid.go: tag %s = %d does not fit a byte", name, v)
			}
			fmt.Fprintf(&out, "def %s : Nat := %d\n", name, v)
			tagNames = append(tagNames, name)
			nTags++
		}
	}
	if nTags == 0 {
		return "", fmt.Errorf("hagrid.go: no tag constants found")
	}
	fmt.Fprintf(&out, "\n/-- all tag constants in declaration order -/\ndef tags : List (String × Nat) := [%s]\n\n",
		strings.Join(func() []string {
			xs := make([]string, len(tagNames))
			for i, n := range tagNames {
				xs[i] = fmt.Sprintf("(%s, %s)", leanString(n), n)
			}
			return xs
		}(), ", "))

	// per-function write sequences
	var fnNames []string
	for _, d := range f.Decls {
		fd, ok := d.(*ast.FuncDecl)
		if !ok || fd.Body == nil {
			continue
		}
		var seq []string
		var walk func(n ast.Node) bool
		walk = func(n ast.Node) bool {
			switch v := n.(type) {
			case *ast.RangeStmt:
				seq = append(seq, "range "+exprString(fset, v.X)+" {")
				ast.Inspect(v.Body, walk)
				seq = append(seq, "}")
				return false
			case *ast.ForStmt:
				seq = append(seq, "for {")
				ast.Inspect(v.Body, walk)
				seq = append(seq, "}")
				return false
			case *ast.IfStmt:
				if v.Init != nil {
					ast.Inspect(v.Init, walk)
				}
				seq = append(seq, "if "+exprString(fset, v.Cond)+" {")
				ast.Inspect(v.Body, walk)
				seq = append(seq, "}")
				if v.Else != nil {
					seq = append(seq, "else {")
					ast.Inspect(v.Else, walk)
					seq = append(seq, "}")
				}
				return false
			case *ast.CallExpr:
				if sel, ok := v.Fun.(*ast.SelectorExpr); ok && sel.Sel.Name == "Write" && len(v.Args) == 1 {
					seq = append(seq, exprString(fset, sel.X)+".Write "+exprString(fset, v.Args[0]))
				}
				if id, ok := v.Fun.(*ast.Ident); ok && id.Name == "cloneShake" {
					seq = append(seq, "cloneShake "+exprString(fset, v.Args[0]))
				}
				if sel, ok := v.Fun.(*ast.SelectorExpr); ok && sel.Sel.Name == "ReadFull" && len(v.Args) == 2 {
					seq = append(seq, "ReadFull "+exprString(fset, v.Args[0]))
				}
				if sel, ok := v.Fun.(*ast.SelectorExpr); ok && strings.HasPrefix(sel.Sel.Name, "NewCSHAKE") {
					seq = append(seq, exprString(fset, v))
				}
			case *ast.ReturnStmt:
				if len(seq) > 0 && len(v.Results) > 0 {
					if id, ok := v.Results[0].(*ast.Ident); ok && id.Name == "nil" {
						seq = append(seq, "return-error")
					}
				}
			}
			return true
		}
		ast.Inspect(fd.Body, walk)
		quoted := make([]string, len(seq))
		for i, s := range seq {
			quoted[i] = leanString(s)
		}
		fmt.Fprintf(&out, "def writes_%s : List String := [%s]\n", fd.Name.Name, strings.Join(quoted, ",\n  "))
		fnNames = append(fnNames, leanString(fd.Name.Name))
	}
	fmt.Fprintf(&out, "\ndef functions : List String := [%s]\n", strings.Join(fnNames, ", "))
	out.WriteString("\nend BronVerif.Gen.Hagrid\n")
	return out.String(), nil
}
