package main

// Second half of generator "H2CMaps" (see formulas_h2c.go): function-level translation, the Horner loop,
// the per-suite constants / mapper-params methods, and the assembly of Gen/H2CMaps.lean.

import (
	"fmt"
	"go/ast"
	"go/token"
	"math/big"
	"path/filepath"
	"sort"
	"strconv"
	"strings"
)

var _ = strconv.Itoa

func paren(s string) string {
	if strings.ContainsAny(s, " ") && !(strings.HasPrefix(s, "(") && strings.HasSuffix(s, ")") && balanced(s[1:len(s)-1])) {
		return "(" + s + ")"
	}
	return s
}

func balanced(s string) bool {
	d := 0
	for _, r := range s {
		switch r {
		case '(':
			d++
		case ')':
			d--
			if d < 0 {
				return false
			}
		}
	}
	return d == 0
}

func newHT(g *hgen, src *hsrc, fname string, fieldTys map[string]bool) *hT {
	c := 0
	used := map[string]bool{"F": true, "ci": true, "c": true, "rest": true, "n": true}
	for _, cx := range hCtxOrder {
		used[cx] = true
	}
	return &hT{g: g, src: src, fname: fname, kind: map[string]string{}, cur: map[string]string{}, version: map[string]int{},
		natCur: map[string]string{}, boolCur: map[string]string{}, used: used, ctx: map[string]bool{}, reads: map[string]bool{}, writes: map[string]bool{},
		fieldTys: fieldTys, counter: &c, constSink: g.addConst}
}

// classify a parameter type: fe (pointer to a field element), params, nat, bytes, list
func classifyParam(t *hT, e ast.Expr) string {
	switch v := e.(type) {
	case *ast.Ident:
		switch v.Name {
		case "FP":
			return "fe"
		case "P":
			return "params"
		case "uint64":
			return "nat"
		}
	case *ast.StarExpr:
		if id, ok := v.X.(*ast.Ident); ok && t.fieldTys[id.Name] {
			return "fe"
		}
	case *ast.ArrayType:
		if v.Len == nil {
			if id, ok := v.Elt.(*ast.Ident); ok {
				if id.Name == "uint8" || id.Name == "byte" {
					return "bytes"
				}
				if t.fieldTys[id.Name] {
					return "list"
				}
			}
		}
	}
	return ""
}

func leanDefName(key string) string {
	return lowerFirst(strings.ReplaceAll(key, ".", ""))
}

func (t *hT) bindParams(fd *ast.FuncDecl) ([]hparam, error) {
	var ps []hparam
	for _, p := range fd.Type.Params.List {
		k := classifyParam(t, p.Type)
		if k == "" {
			return nil, t.errf(p, "unsupported parameter type %s", exprString(t.src.fset, p.Type))
		}
		for _, n := range p.Names {
			if n.Name == "_" {
				return nil, t.errf(p, "blank parameter")
			}
			ps = append(ps, hparam{n.Name, k})
			t.kind[n.Name] = k
			switch k {
			case "nat":
				t.natCur[n.Name] = leanIdent(n.Name)
				t.used[leanIdent(n.Name)] = true
				t.natParamOrder = append(t.natParamOrder, n.Name)
			case "bytes":
				t.used[leanIdent(n.Name)] = true
				t.natParamOrder = append(t.natParamOrder, n.Name)
			case "list":
				t.used[leanIdent(n.Name)] = true
			}
		}
	}
	return ps, nil
}

func checkResults(t *hT, fd *ast.FuncDecl) (bool, error) {
	if fd.Type.Results == nil || len(fd.Type.Results.List) == 0 {
		return false, nil
	}
	if len(fd.Type.Results.List) == 1 && exprString(t.src.fset, fd.Type.Results.List[0].Type) == "ct.Bool" && len(fd.Type.Results.List[0].Names) <= 1 {
		return true, nil
	}
	return false, t.errf(fd, "unsupported result type")
}

// signature text and output tuple
func (t *hT) finish(lean, doc string, ps []hparam, wantBool bool, constType string) (*hdef, error) {
	d := &hdef{lean: lean, goParam: ps, reads: t.reads, writes: t.writes, retBool: t.retBool}
	if wantBool != t.retBool {
		return nil, fmt.Errorf("%s: boolean result declared %v but returned %v", t.fname, wantBool, t.retBool)
	}
	for _, cx := range hCtxOrder {
		if t.ctx[cx] {
			d.ctx = append(d.ctx, cx)
		}
	}
	var sb strings.Builder
	fmt.Fprintf(&sb, "/-- %s -/\n", doc)
	fmt.Fprintf(&sb, "def %s", lean)
	for _, cx := range d.ctx {
		fmt.Fprintf(&sb, " (%s : %s)", cx, hCtxType(cx, constType))
	}
	for _, p := range ps {
		if p.kind == "nat" || p.kind == "bytes" {
			fmt.Fprintf(&sb, " (%s : Nat)", leanIdent(p.name))
		}
	}
	for _, p := range ps {
		if p.kind == "list" {
			fmt.Fprintf(&sb, " (%s : List F)", leanIdent(p.name))
		}
	}
	for _, p := range ps {
		if p.kind == "fe" && t.reads[p.name] {
			fmt.Fprintf(&sb, " (%s : F)", leanIdent(p.name))
		}
	}
	outs := d.outs()
	if len(outs) == 0 {
		return nil, fmt.Errorf("%s: no outputs", t.fname)
	}
	var tys, vals []string
	for _, o := range outs {
		if o == "ret" {
			tys = append(tys, "Bool")
			vals = append(vals, t.ret)
		} else {
			tys = append(tys, "F")
			vals = append(vals, t.cur[o])
		}
	}
	fmt.Fprintf(&sb, " : %s :=\n", strings.Join(tys, " × "))
	for _, l := range t.lines {
		sb.WriteString(l + "\n")
	}
	if len(vals) == 1 {
		sb.WriteString("  " + vals[0] + "\n\n")
	} else {
		sb.WriteString("  (" + strings.Join(vals, ", ") + ")\n\n")
	}
	d.text = sb.String()
	return d, nil
}

func (g *hgen) translate(key string) (d *hdef, err error) {
	if d, ok := g.defs[key]; ok {
		return d, nil
	}
	if g.inflight[key] {
		return nil, fmt.Errorf("recursive call of %s", key)
	}
	fd, ok := g.src.funcs[key]
	if !ok {
		return nil, fmt.Errorf("%s: function %s not found", g.src.rel, key)
	}
	g.inflight[key] = true
	defer delete(g.inflight, key)
	defer func() {
		if e := recover(); e != nil {
			d, err = nil, fmt.Errorf("%v", e)
		}
	}()
	pos := g.src.fset.Position(fd.Pos())
	doc := fmt.Sprintf("`%s` (%s:%d)", key, filepath.Base(pos.Filename), pos.Line)
	if key == "polyEval" {
		d, err = g.translateHorner(fd, doc)
	} else {
		t := newHT(g, g.src, key, map[string]bool{"F": true})
		t.pkgConst = nil
		ps, err := t.bindParams(fd)
		if err != nil {
			return nil, err
		}
		wantBool, err := checkResults(t, fd)
		if err != nil {
			return nil, err
		}
		for _, s := range fd.Body.List {
			if t.retBool {
				return nil, t.errf(s, "statement after return")
			}
			if err := t.stmt(s); err != nil {
				return nil, err
			}
		}
		d, err = t.finish(leanDefName(key), doc, ps, wantBool, "Nat")
		if err != nil {
			return nil, err
		}
	}
	if err != nil {
		return nil, err
	}
	g.defs[key] = d
	g.order = append(g.order, key)
	return d, nil
}

// polyEval: exactly
//   FP(result).Set(&coefficients[len(coefficients)-1])
//   for i := len(coefficients) - 2; i >= 0; i-- { straight-line over result, &coefficients[i], at }
func (g *hgen) translateHorner(fd *ast.FuncDecl, doc string) (*hdef, error) {
	t := newHT(g, g.src, "polyEval", map[string]bool{"F": true})
	ps, err := t.bindParams(fd)
	if err != nil {
		return nil, err
	}
	if len(ps) != 3 || ps[0].kind != "fe" || ps[1].kind != "list" || ps[2].kind != "fe" || (fd.Type.Results != nil && len(fd.Type.Results.List) > 0) {
		return nil, t.errf(fd, "polyEval: unexpected signature")
	}
	res, cs, at := ps[0].name, ps[1].name, ps[2].name
	if len(fd.Body.List) != 2 {
		return nil, t.errf(fd, "polyEval: unexpected shape (want initialisation + one loop)")
	}
	wantInit := fmt.Sprintf("FP(%s).Set(&%s[len(%s)-1])", res, cs, cs)
	if got := strings.ReplaceAll(exprString(g.src.fset, fd.Body.List[0]), " ", ""); got != wantInit {
		return nil, t.errf(fd.Body.List[0], "polyEval: initialisation is %s, want %s", got, wantInit)
	}
	f, ok := fd.Body.List[1].(*ast.ForStmt)
	if !ok {
		return nil, t.errf(fd.Body.List[1], "polyEval: loop expected")
	}
	hdr := strings.ReplaceAll(exprString(g.src.fset, f.Init)+";"+exprString(g.src.fset, f.Cond)+";"+exprString(g.src.fset, f.Post), " ", "")
	wantHdr := fmt.Sprintf("i:=len(%s)-2;i>=0;i--", cs)
	if hdr != wantHdr {
		return nil, t.errf(f, "polyEval: loop header is %s, want %s", hdr, wantHdr)
	}
	t.kind["i"] = "loopindex"
	t.kind[res] = "local"
	t.cur[res] = leanIdent(res)
	t.used[leanIdent(res)] = true
	t.cur["elem:"+cs] = "ci"
	t.used["ci"] = true
	t.used["c"] = true
	t.used["rest"] = true
	for _, s := range f.Body.List {
		if _, isLoop := s.(*ast.ForStmt); isLoop {
			return nil, t.errf(s, "nested loop")
		}
		if _, isRet := s.(*ast.ReturnStmt); isRet {
			return nil, t.errf(s, "return inside loop")
		}
		if err := t.stmt(s); err != nil {
			return nil, err
		}
	}
	if len(t.ctx) != 0 {
		return nil, t.errf(f, "polyEval: loop body uses helpers")
	}
	for l := range t.writes {
		return nil, t.errf(f, "polyEval: loop body writes parameter %s", l)
	}
	if len(t.writeOrder) != 1 || t.writeOrder[0] != res {
		return nil, t.errf(f, "polyEval: loop body must write only %s", res)
	}
	var sb strings.Builder
	fmt.Fprintf(&sb, "/-- %s: Horner evaluation, highest coefficient first (the Go code indexes\n`%s[len-1]` and would panic on an empty table; the translation returns 0 there) -/\n", doc, cs)
	fmt.Fprintf(&sb, "def polyEval (%s : List F) (%s : F) : F :=\n", leanIdent(cs), leanIdent(at))
	fmt.Fprintf(&sb, "  match %s.reverse with\n  | [] => 0\n  | c :: rest => rest.foldl (fun %s ci =>\n", leanIdent(cs), leanIdent(res))
	for _, l := range t.lines {
		sb.WriteString("    " + l + "\n")
	}
	fmt.Fprintf(&sb, "      %s) c\n\n", t.cur[res])
	d := &hdef{lean: "polyEval", goParam: ps, reads: map[string]bool{at: true}, writes: map[string]bool{res: true}, text: sb.String()}
	return d, nil
}

// ---------------------------------------------------------------------------------------------
// suites

type suiteSpec struct {
	lean         string   // Lean namespace
	files        []string // params file(s) (+ files defining referenced integer constants)
	fieldTypes   []string // names of the base-field element types used in the file
	fp2          bool
	mapperParams string // type with MulByA … methods ("" for elligator2)
	hasher       string // type with L / MessageExpander
	mapperAlias  string // type alias of the point mapper
	expanderVar  string
	curveParams  string   // type with ClearCofactor
	suiteConsts  [][3]string // (file, Go constant, Lean name)
}

var h2cSuites = []suiteSpec{
	{lean: "k256", files: []string{"pkg/base/curves/k256/impl/params.go"}, fieldTypes: []string{"Fp"},
		mapperParams: "curveMapperParams", hasher: "CurveHasherParams", mapperAlias: "curveMapper", expanderVar: "curveMessageExpander", curveParams: "curveParams",
		suiteConsts: [][3]string{{"pkg/base/curves/k256/curve.go", "Hash2CurveSuite", "hash2CurveSuite"}, {"pkg/base/curves/k256/curve.go", "Hash2CurveScalarSuite", "hash2CurveScalarSuite"}}},
	{lean: "p256", files: []string{"pkg/base/curves/p256/impl/params.go"}, fieldTypes: []string{"Fp"},
		mapperParams: "curveMapperParams", hasher: "CurveHasherParams", mapperAlias: "curveMapper", expanderVar: "curveMessageExpander", curveParams: "curveParams",
		suiteConsts: [][3]string{{"pkg/base/curves/p256/curve.go", "Hash2CurveSuite", "hash2CurveSuite"}, {"pkg/base/curves/p256/curve.go", "Hash2CurveScalarSuite", "hash2CurveScalarSuite"}}},
	{lean: "pallas", files: []string{"pkg/base/curves/pasta/impl/ep_params.go"}, fieldTypes: []string{"Fp"},
		mapperParams: "pallasCurveMapperParams", hasher: "PallasCurveHasherParams", mapperAlias: "pallasCurveMapper", expanderVar: "pallasMessageExpander", curveParams: "pallasCurveParams",
		suiteConsts: [][3]string{{"pkg/base/curves/pasta/pallas.go", "PallasHash2CurveSuite", "hash2CurveSuite"}}},
	{lean: "vesta", files: []string{"pkg/base/curves/pasta/impl/eq_params.go"}, fieldTypes: []string{"Fq"},
		mapperParams: "vestaCurveMapperParams", hasher: "VestaCurveHasherParams", mapperAlias: "vestaCurveMapper", expanderVar: "vestaCurveMessageExpander", curveParams: "vestaCurveParams",
		suiteConsts: [][3]string{{"pkg/base/curves/pasta/vesta.go", "VestaHash2CurveSuite", "hash2CurveSuite"}}},
	{lean: "bls12381g1", files: []string{"pkg/base/curves/pairable/bls12381/impl/g1_params.go", "pkg/base/curves/pairable/bls12381/impl/bls12381.go"}, fieldTypes: []string{"Fp"},
		mapperParams: "g1CurveMapperParams", hasher: "G1CurveHasherParams", mapperAlias: "g1CurveMapper", expanderVar: "g1CurveMessageExpander", curveParams: "g1CurveParams",
		suiteConsts: [][3]string{{"pkg/base/curves/pairable/bls12381/g1.go", "Hash2CurveSuiteG1", "hash2CurveSuite"}, {"pkg/base/curves/pairable/bls12381/scalar.go", "Hash2CurveScalarSuite", "hash2CurveScalarSuite"}}},
	{lean: "bls12381g2", files: []string{"pkg/base/curves/pairable/bls12381/impl/g2_params.go", "pkg/base/curves/pairable/bls12381/impl/bls12381.go"}, fieldTypes: []string{"Fp2"}, fp2: true,
		mapperParams: "g2CurveMapperParams", hasher: "G2CurveHasherParams", mapperAlias: "g2CurveMapper", expanderVar: "g2CurveMessageExpander", curveParams: "g2CurveParams",
		suiteConsts: [][3]string{{"pkg/base/curves/pairable/bls12381/g2.go", "Hash2CurveSuiteG2", "hash2CurveSuite"}}},
	{lean: "edwards25519", files: []string{"pkg/base/curves/edwards25519/impl/params.go"}, fieldTypes: []string{"Fp"},
		mapperParams: "", hasher: "CurveHasherParams", mapperAlias: "curveMapper", expanderVar: "curveMessageExpander", curveParams: "curveParams",
		suiteConsts: [][3]string{{"pkg/base/curves/edwards25519/curve.go", "Hash2CurveSuite", "hash2CurveSuite"}, {"pkg/base/curves/edwards25519/curve.go", "Hash2CurveScalarSuite", "hash2CurveScalarSuite"},
			{"pkg/base/curves/curve25519/curve.go", "Hash2CurveSuite", "curve25519Hash2CurveSuite"}}},
}

type fieldConst struct {
	arrayLen int // -1: scalar
	vals     map[int][2]*big.Int
}

type suiteGen struct {
	spec      suiteSpec
	src       *hsrc
	sswu      *hgen
	ell       *hgen
	consts    map[string]*fieldConst // from init()
	natDefs   []string               // emitted constant definitions, in order
	natSeen   map[string]string
	constType string
	defs      []string
	methodCtx map[string][]string // suite method (lean name) → its own parameters (K / fpow / lsb …)
}

func (sg *suiteGen) emitNat(name string, v *big.Int) error {
	val := "0x" + v.Text(16)
	if old, ok := sg.natSeen[name]; ok {
		if old != val {
			return fmt.Errorf("%s: constant %s has two values", sg.spec.lean, name)
		}
		return nil
	}
	sg.natSeen[name] = val
	sg.natDefs = append(sg.natDefs, fmt.Sprintf("def %s : Nat := %s", leanIdent(name), val))
	return nil
}

// parse the init() function: X.MustSetHex("…"), X[i].MustSetHex, X.U0.MustSetHex, .SetOne(), .SetZero()
func (sg *suiteGen) parseInit() error {
	sg.consts = map[string]*fieldConst{}
	fd, ok := sg.src.funcs["init"]
	if !ok {
		return fmt.Errorf("%s: no init()", sg.spec.lean)
	}
	isField := map[string]bool{}
	for _, f := range sg.spec.fieldTypes {
		isField[f] = true
	}
	for _, s := range fd.Body.List {
		es, ok := s.(*ast.ExprStmt)
		if !ok {
			continue // other statements are only an error if a referenced constant depends on them (checked below)
		}
		c, ok := es.X.(*ast.CallExpr)
		if !ok {
			continue
		}
		sel, ok := c.Fun.(*ast.SelectorExpr)
		if !ok {
			continue
		}
		var val *big.Int
		switch sel.Sel.Name {
		case "MustSetHex":
			if len(c.Args) != 1 {
				continue
			}
			bl, ok := c.Args[0].(*ast.BasicLit)
			if !ok || bl.Kind != token.STRING {
				return fmt.Errorf("%s: MustSetHex with a non-literal argument", sg.src.fset.Position(c.Pos()))
			}
			str, err := strconv.Unquote(bl.Value)
			if err != nil {
				return err
			}
			v, ok := new(big.Int).SetString(str, 16)
			if !ok {
				return fmt.Errorf("%s: bad hex literal", sg.src.fset.Position(c.Pos()))
			}
			val = v
		case "SetOne":
			val = big.NewInt(1)
		case "SetZero":
			val = big.NewInt(0)
		default:
			// any other method on a package-level field variable makes that variable unusable
			if root := rootIdent(sel.X); root != "" {
				if _, isVar := sg.src.vars[root]; isVar {
					sg.consts[root] = &fieldConst{arrayLen: -2}
				}
			}
			continue
		}
		// target: X | X[i] | X.U0 | X[i].U0
		target := sel.X
		comp := -1
		if se, ok := target.(*ast.SelectorExpr); ok {
			switch se.Sel.Name {
			case "U0":
				comp = 0
			case "U1":
				comp = 1
			default:
				return fmt.Errorf("%s: unsupported component %s", sg.src.fset.Position(c.Pos()), se.Sel.Name)
			}
			target = se.X
		}
		idx := -1
		if ie, ok := target.(*ast.IndexExpr); ok {
			n, err := sg.src.evalUint(ie.Index)
			if err != nil {
				return err
			}
			idx = int(n.Int64())
			target = ie.X
		}
		id, ok := target.(*ast.Ident)
		if !ok {
			return fmt.Errorf("%s: unsupported initialisation target", sg.src.fset.Position(c.Pos()))
		}
		vs, ok := sg.src.vars[id.Name]
		if !ok {
			return fmt.Errorf("%s: %s is not a package-level variable", sg.src.fset.Position(c.Pos()), id.Name)
		}
		alen := -1
		ty := vs.Type
		if at, ok := ty.(*ast.ArrayType); ok {
			n, err := sg.src.evalUint(at.Len)
			if err != nil {
				return err
			}
			alen = int(n.Int64())
			ty = at.Elt
		}
		if tid, ok := ty.(*ast.Ident); !ok || !isField[tid.Name] {
			continue // not a base-field constant of this suite (e.g. scalar-field values)
		}
		if (alen >= 0) != (idx >= 0) {
			return fmt.Errorf("%s: index / array mismatch for %s", sg.src.fset.Position(c.Pos()), id.Name)
		}
		fc := sg.consts[id.Name]
		if fc == nil {
			fc = &fieldConst{arrayLen: alen, vals: map[int][2]*big.Int{}}
			sg.consts[id.Name] = fc
		}
		if fc.arrayLen == -2 {
			continue
		}
		cur := fc.vals[idx]
		if sg.spec.fp2 {
			switch comp {
			case -1:
				if cur[0] != nil || cur[1] != nil {
					return fmt.Errorf("%s: %s assigned twice", sg.src.fset.Position(c.Pos()), id.Name)
				}
				if sel.Sel.Name == "MustSetHex" {
					return fmt.Errorf("%s: MustSetHex on a whole Fp2 element", sg.src.fset.Position(c.Pos()))
				}
				cur = [2]*big.Int{val, big.NewInt(0)}
			default:
				if cur[comp] != nil {
					return fmt.Errorf("%s: %s component assigned twice", sg.src.fset.Position(c.Pos()), id.Name)
				}
				cur[comp] = val
			}
		} else {
			if comp != -1 {
				return fmt.Errorf("%s: component access on a prime-field constant", sg.src.fset.Position(c.Pos()))
			}
			if cur[0] != nil {
				return fmt.Errorf("%s: %s assigned twice", sg.src.fset.Position(c.Pos()), id.Name)
			}
			cur[0] = val
		}
		fc.vals[idx] = cur
	}
	return nil
}

func rootIdent(e ast.Expr) string {
	for {
		switch v := e.(type) {
		case *ast.Ident:
			return v.Name
		case *ast.SelectorExpr:
			e = v.X
		case *ast.IndexExpr:
			e = v.X
		case *ast.UnaryExpr:
			e = v.X
		case *ast.ParenExpr:
			e = v.X
		default:
			return ""
		}
	}
}

func (sg *suiteGen) constLit(v [2]*big.Int) (string, error) {
	if sg.spec.fp2 {
		if v[0] == nil || v[1] == nil {
			return "", fmt.Errorf("component not initialised")
		}
		return fmt.Sprintf("(0x%s, 0x%s)", v[0].Text(16), v[1].Text(16)), nil
	}
	if v[0] == nil {
		return "", fmt.Errorf("not initialised")
	}
	return "0x" + v[0].Text(16), nil
}

// emit a field constant (scalar or table) once; returns its Lean name
func (sg *suiteGen) emitFieldConst(name string) (string, error) {
	ln := leanIdent(name)
	if _, ok := sg.natSeen["field:"+name]; ok {
		return ln, nil
	}
	fc, ok := sg.consts[name]
	if !ok || fc.arrayLen == -2 {
		return "", fmt.Errorf("%s: constant %s is not initialised by recognised statements of init()", sg.spec.lean, name)
	}
	if fc.arrayLen == -1 {
		lit, err := sg.constLit(fc.vals[-1])
		if err != nil {
			return "", fmt.Errorf("%s: %s: %v", sg.spec.lean, name, err)
		}
		sg.natDefs = append(sg.natDefs, fmt.Sprintf("def %s : %s := %s", ln, sg.constType, lit))
	} else {
		var lits []string
		for i := 0; i < fc.arrayLen; i++ {
			v, ok := fc.vals[i]
			if !ok {
				return "", fmt.Errorf("%s: %s[%d] is not initialised", sg.spec.lean, name, i)
			}
			lit, err := sg.constLit(v)
			if err != nil {
				return "", fmt.Errorf("%s: %s[%d]: %v", sg.spec.lean, name, i, err)
			}
			lits = append(lits, lit)
		}
		if len(fc.vals) != fc.arrayLen {
			return "", fmt.Errorf("%s: %s has out-of-range initialisers", sg.spec.lean, name)
		}
		sg.natDefs = append(sg.natDefs, fmt.Sprintf("def %s : List %s :=\n  [%s]", ln, parenType(sg.constType), strings.Join(lits, ",\n   ")))
	}
	sg.natSeen["field:"+name] = "1"
	return ln, nil
}

func parenType(s string) string {
	if strings.Contains(s, " ") {
		return "(" + s + ")"
	}
	return s
}

func (sg *suiteGen) newT(fname string) *hT {
	ft := map[string]bool{}
	for _, f := range sg.spec.fieldTypes {
		ft[f] = true
	}
	t := newHT(sg.sswu, sg.src, sg.spec.lean+"."+fname, ft)
	t.pkgConst = func(name string) (string, error) {
		fc, ok := sg.consts[name]
		if ok && fc.arrayLen >= 0 {
			return "", fmt.Errorf("%s: table %s used as a scalar", sg.spec.lean, name)
		}
		ln, err := sg.emitFieldConst(name)
		if err != nil {
			return "", err
		}
		t.ctx["K"] = true
		return "K " + ln, nil
	}
	t.constSink = sg.emitNat
	t.qual = "H2CMaps."
	return t
}

func (sg *suiteGen) method(name string) (*ast.FuncDecl, error) {
	fd, ok := sg.src.funcs[sg.spec.mapperParams+"."+name]
	if !ok {
		return nil, fmt.Errorf("%s: method %s.%s not found", sg.spec.lean, sg.spec.mapperParams, name)
	}
	return fd, nil
}

// straight-line method (MulByA, MulByB, SetZ, SqrtRatio)
func (sg *suiteGen) straightMethod(name string) error {
	fd, err := sg.method(name)
	if err != nil {
		return err
	}
	t := sg.newT(name)
	ps, err := t.bindParams(fd)
	if err != nil {
		return err
	}
	wantBool, err := checkResults(t, fd)
	if err != nil {
		return err
	}
	for _, s := range fd.Body.List {
		if t.retBool {
			return t.errf(s, "statement after return")
		}
		if err := t.stmt(s); err != nil {
			return err
		}
	}
	pos := sg.src.fset.Position(fd.Pos())
	d, err := t.finish(lowerFirst(name), fmt.Sprintf("`%s.%s` (%s:%d)", sg.spec.mapperParams, name, filepath.Base(pos.Filename), pos.Line), ps, wantBool, sg.constType)
	if err != nil {
		return err
	}
	for _, cx := range d.ctx {
		if cx != "K" && cx != "fpow" {
			return fmt.Errorf("%s.%s: unexpected helper %s", sg.spec.lean, name, cx)
		}
	}
	sg.methodCtx[lowerFirst(name)] = d.ctx
	sg.defs = append(sg.defs, d.text)
	return nil
}

// coefficient table method: `return tbl[:]`
func (sg *suiteGen) tableMethod(name string) error {
	fd, err := sg.method(name)
	if err != nil {
		return err
	}
	bad := fmt.Errorf("%s.%s: body is not `return <table>[:]`", sg.spec.lean, name)
	if len(fd.Body.List) != 1 || len(fd.Type.Params.List) != 0 {
		return bad
	}
	rs, ok := fd.Body.List[0].(*ast.ReturnStmt)
	if !ok || len(rs.Results) != 1 {
		return bad
	}
	se, ok := rs.Results[0].(*ast.SliceExpr)
	if !ok || se.Low != nil || se.High != nil || se.Max != nil {
		return bad
	}
	id, ok := se.X.(*ast.Ident)
	if !ok {
		return bad
	}
	fc, ok := sg.consts[id.Name]
	if !ok || fc.arrayLen < 0 {
		return fmt.Errorf("%s.%s: %s is not an initialised table", sg.spec.lean, name, id.Name)
	}
	ln, err := sg.emitFieldConst(id.Name)
	if err != nil {
		return err
	}
	pos := sg.src.fset.Position(fd.Pos())
	sg.defs = append(sg.defs, fmt.Sprintf("/-- `%s.%s` (%s:%d) -/\ndef %s (K : %s → F) : List F := %s.map K\n\n", sg.spec.mapperParams, name, filepath.Base(pos.Filename), pos.Line, lowerFirst(name), sg.constType, ln))
	sg.methodCtx[lowerFirst(name)] = []string{"K"}
	return nil
}

// Sgn0: boolean combination of least-significant bits and zero tests of the components
func (sg *suiteGen) sgn0Method() error {
	fd, err := sg.method("Sgn0")
	if err != nil {
		return err
	}
	if len(fd.Type.Params.List) != 1 || len(fd.Type.Params.List[0].Names) != 1 {
		return fmt.Errorf("%s.Sgn0: unexpected signature", sg.spec.lean)
	}
	v := fd.Type.Params.List[0].Names[0].Name
	bound := map[string]string{}
	usesZero := false
	comp := func(e ast.Expr) (string, error) {
		switch x := e.(type) {
		case *ast.Ident:
			if x.Name == v && !sg.spec.fp2 {
				return leanIdent(v), nil
			}
		case *ast.SelectorExpr:
			if id, ok := x.X.(*ast.Ident); ok && id.Name == v && sg.spec.fp2 {
				switch x.Sel.Name {
				case "U0":
					return "(u0 " + leanIdent(v) + ")", nil
				case "U1":
					return "(u1 " + leanIdent(v) + ")", nil
				}
			}
		}
		return "", fmt.Errorf("%s.Sgn0: unsupported operand %s", sg.spec.lean, exprString(sg.src.fset, e))
	}
	var bexpr func(e ast.Expr) (string, error)
	bexpr = func(e ast.Expr) (string, error) {
		switch x := e.(type) {
		case *ast.ParenExpr:
			return bexpr(x.X)
		case *ast.Ident:
			if b, ok := bound[x.Name]; ok {
				return b, nil
			}
		case *ast.CallExpr:
			fn := exprString(sg.src.fset, x.Fun)
			if (fn == "ct.Bool" || fn == "uint64") && len(x.Args) == 1 {
				return bexpr(x.Args[0])
			}
			if sel, ok := x.Fun.(*ast.SelectorExpr); ok && sel.Sel.Name == "IsZero" && len(x.Args) == 0 {
				c, err := comp(sel.X)
				if err != nil {
					return "", err
				}
				usesZero = true
				return "isZero " + c, nil
			}
		case *ast.BinaryExpr:
			// X.Bytes()[0] & 0b1
			if x.Op == token.AND {
				if lit, ok := x.Y.(*ast.BasicLit); ok && (lit.Value == "0b1" || lit.Value == "1" || lit.Value == "0x1" || lit.Value == "0x01") {
					if ie, ok := x.X.(*ast.IndexExpr); ok && isIntLit(ie.Index, "0") {
						if ce, ok := ie.X.(*ast.CallExpr); ok && len(ce.Args) == 0 {
							if sel, ok := ce.Fun.(*ast.SelectorExpr); ok && sel.Sel.Name == "Bytes" {
								c, err := comp(sel.X)
								if err != nil {
									return "", err
								}
								return "lsb " + c, nil
							}
						}
					}
				}
			}
			a, err := bexpr(x.X)
			if err != nil {
				return "", err
			}
			b, err := bexpr(x.Y)
			if err != nil {
				return "", err
			}
			switch x.Op {
			case token.AND:
				return "(" + a + " && " + b + ")", nil
			case token.OR:
				return "(" + a + " || " + b + ")", nil
			case token.XOR:
				return "(" + a + " != " + b + ")", nil
			}
		}
		return "", fmt.Errorf("%s: %s.Sgn0: unsupported expression %s", sg.src.fset.Position(e.Pos()), sg.spec.lean, exprString(sg.src.fset, e))
	}
	var lines []string
	ret := ""
	for _, s := range fd.Body.List {
		if ret != "" {
			return fmt.Errorf("%s.Sgn0: statement after return", sg.spec.lean)
		}
		switch x := s.(type) {
		case *ast.AssignStmt:
			if x.Tok != token.DEFINE || len(x.Lhs) != 1 || len(x.Rhs) != 1 {
				return fmt.Errorf("%s.Sgn0: unsupported assignment", sg.spec.lean)
			}
			id, ok := x.Lhs[0].(*ast.Ident)
			if !ok {
				return fmt.Errorf("%s.Sgn0: unsupported assignment", sg.spec.lean)
			}
			if _, dup := bound[id.Name]; dup || id.Name == v {
				return fmt.Errorf("%s.Sgn0: %s redefined", sg.spec.lean, id.Name)
			}
			b, err := bexpr(x.Rhs[0])
			if err != nil {
				return err
			}
			lines = append(lines, fmt.Sprintf("  let %s : Bool := %s", leanIdent(id.Name), b))
			bound[id.Name] = leanIdent(id.Name)
		case *ast.ReturnStmt:
			if len(x.Results) != 1 {
				return fmt.Errorf("%s.Sgn0: unsupported return", sg.spec.lean)
			}
			b, err := bexpr(x.Results[0])
			if err != nil {
				return err
			}
			ret = b
		default:
			return fmt.Errorf("%s: %s.Sgn0: unsupported statement", sg.src.fset.Position(s.Pos()), sg.spec.lean)
		}
	}
	if ret == "" {
		return fmt.Errorf("%s.Sgn0: no return", sg.spec.lean)
	}
	pos := sg.src.fset.Position(fd.Pos())
	var sb strings.Builder
	fmt.Fprintf(&sb, "/-- `%s.Sgn0` (%s:%d); `lsb` = least significant bit of the canonical representative", sg.spec.mapperParams, filepath.Base(pos.Filename), pos.Line)
	if sg.spec.fp2 {
		sb.WriteString(", `u0 u1` = the two components")
	}
	sb.WriteString(" -/\n")
	if sg.spec.fp2 {
		if !usesZero {
			fmt.Fprintf(&sb, "def sgn0 {B : Type} (u0 u1 : F → B) (lsb : B → Bool) (isZero : B → Bool) (%s : F) : Bool :=\n", leanIdent(v))
		} else {
			fmt.Fprintf(&sb, "def sgn0 {B : Type} (u0 u1 : F → B) (lsb : B → Bool) (isZero : B → Bool) (%s : F) : Bool :=\n", leanIdent(v))
		}
		sg.methodCtx["sgn0"] = []string{"u0", "u1", "lsb", "isZero"}
	} else {
		if usesZero {
			return fmt.Errorf("%s.Sgn0: zero test in a prime-field sgn0", sg.spec.lean)
		}
		fmt.Fprintf(&sb, "def sgn0 (lsb : F → Bool) (%s : F) : Bool :=\n", leanIdent(v))
		sg.methodCtx["sgn0"] = []string{"lsb"}
	}
	for _, l := range lines {
		sb.WriteString(l + "\n")
	}
	sb.WriteString("  " + ret + "\n\n")
	sg.defs = append(sg.defs, sb.String())
	return nil
}

// the hasher parameters: L(), optional M(), the expander
func (sg *suiteGen) hasher() error {
	retConst := func(method string, required bool) (*big.Int, error) {
		fd, ok := sg.src.funcs[sg.spec.hasher+"."+method]
		if !ok {
			if required {
				return nil, fmt.Errorf("%s: %s.%s not found", sg.spec.lean, sg.spec.hasher, method)
			}
			return nil, nil
		}
		if len(fd.Body.List) != 1 {
			return nil, fmt.Errorf("%s: %s.%s: body is not a single return", sg.spec.lean, sg.spec.hasher, method)
		}
		rs, ok := fd.Body.List[0].(*ast.ReturnStmt)
		if !ok || len(rs.Results) != 1 {
			return nil, fmt.Errorf("%s: %s.%s: body is not a single return", sg.spec.lean, sg.spec.hasher, method)
		}
		return sg.src.evalUint(rs.Results[0])
	}
	l, err := retConst("L", true)
	if err != nil {
		return err
	}
	sg.natDefs = append(sg.natDefs, fmt.Sprintf("/-- `%s.L` -/\ndef hashL : Nat := %s", sg.spec.hasher, l.String()))
	m, err := retConst("M", false)
	if err != nil {
		return err
	}
	if m != nil {
		sg.natDefs = append(sg.natDefs, fmt.Sprintf("/-- `%s.M` -/\ndef hashM : Nat := %s", sg.spec.hasher, m.String()))
	}
	// MessageExpander() returns the expander variable
	fd, ok := sg.src.funcs[sg.spec.hasher+".MessageExpander"]
	if !ok {
		return fmt.Errorf("%s: %s.MessageExpander not found", sg.spec.lean, sg.spec.hasher)
	}
	if got := exprString(sg.src.fset, fd.Body); got != "{ return "+sg.spec.expanderVar+" }" {
		return fmt.Errorf("%s: MessageExpander body is %s", sg.spec.lean, got)
	}
	in := sg.src.varInit(sg.spec.expanderVar)
	if in == nil {
		return fmt.Errorf("%s: expander variable %s has no initialiser", sg.spec.lean, sg.spec.expanderVar)
	}
	var exp string
	switch got := exprString(sg.src.fset, in); got {
	case "h2c.NewXMDMessageExpander(sha256.New)":
		exp = "xmd:sha256"
	case "h2c.NewXMDMessageExpander(sha512.New)":
		exp = "xmd:sha512"
	case "h2c.NewXMDMessageExpander(func() hash.Hash { h, _ := blake2b.New512(nil); return h })":
		exp = "xmd:blake2b512"
	default:
		return fmt.Errorf("%s: unrecognised expander %s", sg.spec.lean, got)
	}
	sg.natDefs = append(sg.natDefs, fmt.Sprintf("/-- `%s` -/\ndef expander : String := %s", sg.spec.expanderVar, leanString(exp)))
	return nil
}

// ClearCofactor: identity | scalar multiplication by a constant | three doublings | the G2 endomorphism routine
func (sg *suiteGen) clearCofactor() error {
	fd, ok := sg.src.funcs[sg.spec.curveParams+".ClearCofactor"]
	if !ok {
		return fmt.Errorf("%s: %s.ClearCofactor not found", sg.spec.lean, sg.spec.curveParams)
	}
	body := exprString(sg.src.fset, fd.Body)
	kind, scalar := "", (*big.Int)(nil)
	switch body {
	case "{ xOut.Set(xIn) yOut.Set(yIn) zOut.Set(zIn) }":
		kind, scalar = "identity", big.NewInt(1)
	case "{ var out Point out.X.Set(xIn) out.Y.Set(yIn) out.T.Set(tIn) out.Z.Set(zIn) out.Double(&out) out.Double(&out) out.Double(&out) xOut.Set(&out.X) yOut.Set(&out.Y) tOut.Set(&out.T) zOut.Set(&out.Z) }":
		kind, scalar = "double3", big.NewInt(8)
	case "{ var in G1Point in.X.Set(xIn) in.Y.Set(yIn) in.Z.Set(zIn) var out G1Point aimpl.ScalarMulLowLevel(&out, &in, binary.LittleEndian.AppendUint64(nil, X+1)) xOut.Set(&out.X) yOut.Set(&out.Y) zOut.Set(&out.Z) }":
		x, err := sg.src.evalUint(&ast.Ident{Name: "X"})
		if err != nil {
			return fmt.Errorf("%s: ClearCofactor: %v", sg.spec.lean, err)
		}
		kind, scalar = "scalar", new(big.Int).Add(x, big.NewInt(1))
		if scalar.BitLen() > 64 {
			return fmt.Errorf("%s: ClearCofactor: X+1 overflows uint64", sg.spec.lean)
		}
	case "{ var out, in G2Point in.X.Set(xIn) in.Y.Set(yIn) in.Z.Set(zIn) clearCofactorBls12381G2(&out, &in) xOut.Set(&out.X) yOut.Set(&out.Y) zOut.Set(&out.Z) }":
		kind = "bls12381g2-psi"
		txt, err := sg.g2ClearCofactor()
		if err != nil {
			return err
		}
		sg.defs = append(sg.defs, txt)
	default:
		return fmt.Errorf("%s: unrecognised ClearCofactor body: %s", sg.spec.lean, body)
	}
	sg.natDefs = append(sg.natDefs, fmt.Sprintf("/-- shape of `%s.ClearCofactor` -/\ndef clearCofactorKind : String := %s", sg.spec.curveParams, leanString(kind)))
	if scalar != nil {
		sg.natDefs = append(sg.natDefs, fmt.Sprintf("/-- `%s.ClearCofactor` multiplies by this scalar -/\ndef clearCofactorScalar : Nat := 0x%s", sg.spec.curveParams, scalar.Text(16)))
	}
	return nil
}

// clearCofactorBls12381G2 / psi / psi2 / frobenius: point-level straight-line code over an abstract group
// with the coordinate maps as parameters
func (sg *suiteGen) g2ClearCofactor() (string, error) {
	want := map[string]string{
		"frobenius": "{ var a Fp2 a.U0.Set(&in.U0) a.U1.Neg(&in.U1) out.Set(&a) }",
		"psi":       "{ var q G2Point frobenius(&q.X, &in.X) q.X.Mul(&g2PsiC1, &q.X) frobenius(&q.Z, &in.Z) frobenius(&q.Y, &in.Y) q.Y.Mul(&g2PsiC2, &q.Y) out.Set(&q) }",
		"psi2":      "{ var q G2Point q.X.Mul(&g2Psi2C1, &in.X) q.Y.Neg(&in.Y) q.Z.Set(&in.Z) out.Set(&q) }",
		"clearCofactorBls12381G2": "{ var t1, t2, t3, q G2Point aimpl.ScalarMulLowLevel(&t1, in, binary.LittleEndian.AppendUint64(nil, X)) t1.Neg(&t1) psi(&t2, in) t3.Double(in) psi2(&t3, &t3) t3.Sub(&t3, &t2) t2.Add(&t1, &t2) aimpl.ScalarMulLowLevel(&t2, &t2, binary.LittleEndian.AppendUint64(nil, X)) t2.Neg(&t2) t3.Add(&t3, &t2) t3.Sub(&t3, &t1) q.Sub(&t3, in) out.Set(&q) }",
	}
	names := []string{"frobenius", "psi", "psi2", "clearCofactorBls12381G2"}
	for _, n := range names {
		fd, ok := sg.src.funcs[n]
		if !ok {
			return "", fmt.Errorf("%s: %s not found", sg.spec.lean, n)
		}
		if got := exprString(sg.src.fset, fd.Body); got != want[n] {
			return "", fmt.Errorf("%s: %s has changed; the G2 cofactor-clearing routine is transcribed, not translated, and must be re-transcribed: %s", sg.spec.lean, n, got)
		}
	}
	x, err := sg.src.evalUint(&ast.Ident{Name: "X"})
	if err != nil {
		return "", err
	}
	for _, c := range []string{"g2PsiC1", "g2PsiC2", "g2Psi2C1"} {
		if _, err := sg.emitFieldConst(c); err != nil {
			return "", err
		}
	}
	sg.natDefs = append(sg.natDefs, fmt.Sprintf("/-- the BLS parameter |x| (`X`, pairings.go) -/\ndef blsX : Nat := 0x%s", x.Text(16)))
	var sb strings.Builder
	sb.WriteString("/-- `psi` (g2_params.go) on projective coordinates `(X, Y, Z)`: `conj` is `frobenius` (conjugation `u0 - I·u1`) -/\n")
	sb.WriteString("def psi (K : Nat × Nat → F) (conj : F → F) (x y z : F) : F × F × F :=\n  (K g2PsiC1 * conj x, K g2PsiC2 * conj y, conj z)\n\n")
	sb.WriteString("/-- `psi2` (g2_params.go) -/\n")
	sb.WriteString("def psi2 (K : Nat × Nat → F) (x y z : F) : F × F × F :=\n  (K g2Psi2C1 * x, -y, z)\n\n")
	sb.WriteString("/-- `clearCofactorBls12381G2` (g2_params.go) over an abstract group: `smul` is `ScalarMulLowLevel`,\n`psi psi2` the endomorphisms above lifted to points -/\n")
	sb.WriteString("def clearCofactorG2 {P : Type} (add sub : P → P → P) (neg dbl : P → P) (smul : Nat → P → P) (psi psi2 : P → P) (in_ : P) : P :=\n")
	sb.WriteString("  let t1 : P := smul blsX in_\n  let t1_2 : P := neg t1\n  let t2 : P := psi in_\n  let t3 : P := dbl in_\n  let t3_2 : P := psi2 t3\n")
	sb.WriteString("  let t3_3 : P := sub t3_2 t2\n  let t2_2 : P := add t1_2 t2\n  let t2_3 : P := smul blsX t2_2\n  let t2_4 : P := neg t2_3\n")
	sb.WriteString("  let t3_4 : P := add t3_3 t2_4\n  let t3_5 : P := sub t3_4 t1_2\n  let q : P := sub t3_5 in_\n  q\n\n")
	return sb.String(), nil
}

func (sg *suiteGen) mapDef() error {
	alias, ok := sg.src.types[sg.spec.mapperAlias]
	if !ok {
		return fmt.Errorf("%s: type %s not found", sg.spec.lean, sg.spec.mapperAlias)
	}
	txt := exprString(sg.src.fset, alias)
	ft := sg.spec.fieldTypes[0]
	var shared *hgen
	var key string
	switch txt {
	case fmt.Sprintf("sswu.ZeroPointMapper[*%s, %s, %s]", ft, sg.spec.mapperParams, ft):
		shared, key = sg.sswu, "ZeroPointMapper.Map"
	case fmt.Sprintf("sswu.NonZeroPointMapper[*%s, %s, %s]", ft, sg.spec.mapperParams, ft):
		shared, key = sg.sswu, "NonZeroPointMapper.Map"
	case fmt.Sprintf("elligator2.Edwards25519PointMapper[*%s, %s]", ft, ft):
		shared, key = sg.ell, "Edwards25519PointMapper.Map"
	default:
		return fmt.Errorf("%s: unrecognised mapper type %s", sg.spec.lean, txt)
	}
	d, err := shared.translate(key)
	if err != nil {
		return err
	}
	sg.natDefs = append(sg.natDefs, fmt.Sprintf("/-- `type %s = %s` -/\ndef mapperKind : String := %s", sg.spec.mapperAlias, txt, leanString(strings.SplitN(txt, "[", 2)[0])))
	if shared == sg.ell {
		// ctx of the shared definition: K fpow sgn0 (the package's own least-significant-bit helper)
		var args []string
		for _, cx := range d.ctx {
			switch cx {
			case "K", "fpow":
				args = append(args, cx)
			case "sgn0":
				args = append(args, "lsb")
			default:
				return fmt.Errorf("%s: unexpected helper %s of %s", sg.spec.lean, cx, key)
			}
		}
		sg.defs = append(sg.defs, fmt.Sprintf("/-- the suite's map-to-curve function `%s.Map`: `(xn, xd, yn, yd)` -/\ndef map (K : Nat → F) (fpow : F → Nat → F) (lsb : F → Bool) (u : F) : F × F × F × F :=\n  H2CMaps.%s %s u\n\n", sg.spec.mapperAlias, d.lean, strings.Join(args, " ")))
		return nil
	}
	var args []string
	for _, cx := range d.ctx {
		mc, ok := sg.methodCtx[cx]
		if !ok {
			return fmt.Errorf("%s: %s needs %s, which the suite does not define", sg.spec.lean, key, cx)
		}
		if len(mc) == 0 {
			args = append(args, cx)
		} else {
			args = append(args, "("+cx+" "+strings.Join(mc, " ")+")")
		}
	}
	sig := fmt.Sprintf("(K : %s → F) (fpow : F → Nat → F) (lsb : F → Bool)", sg.constType)
	if sg.spec.fp2 {
		sig = fmt.Sprintf("{B : Type} (K : %s → F) (fpow : F → Nat → F) (u0 u1 : F → B) (lsb : B → Bool) (isZero : B → Bool)", sg.constType)
	}
	sg.defs = append(sg.defs, fmt.Sprintf("/-- the suite's map-to-curve function `%s.Map`: `(xn, xd, yn, yd)` -/\ndef map %s (u : F) : F × F × F × F :=\n  H2CMaps.%s %s u\n\n", sg.spec.mapperAlias, sig, d.lean, strings.Join(args, " ")))
	return nil
}

func (sg *suiteGen) run(repo string) (string, error) {
	sg.constType = "Nat"
	if sg.spec.fp2 {
		sg.constType = "Nat × Nat"
	}
	sg.natSeen = map[string]string{}
	sg.methodCtx = map[string][]string{}
	if err := sg.parseInit(); err != nil {
		return "", err
	}
	if err := sg.hasher(); err != nil {
		return "", err
	}
	for _, sc := range sg.spec.suiteConsts {
		v, err := goStringConst(repo, sc[0], sc[1])
		if err != nil {
			return "", err
		}
		sg.natDefs = append(sg.natDefs, fmt.Sprintf("/-- `%s` (%s) -/\ndef %s : String := %s", sc[1], sc[0], sc[2], leanString(v)))
	}
	if sg.spec.mapperParams != "" {
		for _, m := range []string{"SetZ", "MulByA", "MulByB", "SqrtRatio"} {
			if err := sg.straightMethod(m); err != nil {
				return "", err
			}
		}
		if err := sg.sgn0Method(); err != nil {
			return "", err
		}
		if _, isZero := sg.src.funcs[sg.spec.mapperParams+".XNum"]; isZero {
			for _, m := range []string{"XNum", "XDen", "YNum", "YDen"} {
				if err := sg.tableMethod(m); err != nil {
					return "", err
				}
			}
		}
	}
	if err := sg.mapDef(); err != nil {
		return "", err
	}
	if err := sg.clearCofactor(); err != nil {
		return "", err
	}
	var sb strings.Builder
	fmt.Fprintf(&sb, "namespace %s\n\n", sg.spec.lean)
	for _, d := range sg.natDefs {
		sb.WriteString(d + "\n")
	}
	sb.WriteString("\n")
	for _, d := range sg.defs {
		sb.WriteString(d)
	}
	fmt.Fprintf(&sb, "end %s\n\n", sg.spec.lean)
	return sb.String(), nil
}

func goStringConst(repo, rel, name string) (string, error) {
	s, err := loadGoFiles(repo, rel)
	if err != nil {
		return "", err
	}
	in := s.varInit(name)
	if in == nil {
		return "", fmt.Errorf("%s: constant %s not found", rel, name)
	}
	bl, ok := in.(*ast.BasicLit)
	if !ok || bl.Kind != token.STRING {
		return "", fmt.Errorf("%s: constant %s is not a string literal", rel, name)
	}
	return strconv.Unquote(bl.Value)
}

func newHgen(src *hsrc, prefix string) *hgen {
	return &hgen{src: src, defs: map[string]*hdef{}, constSeen: map[string]string{}, inflight: map[string]bool{}, pkgPrefix: prefix}
}

func genH2CMaps(repo string) (text string, err error) {
	defer func() {
		if e := recover(); e != nil {
			text, err = "", fmt.Errorf("%v", e)
		}
	}()
	const base = "pkg/base/curves/impl/rfc9380/mappers"
	ssrc, err := loadGoDir(repo, base+"/sswu")
	if err != nil {
		return "", err
	}
	esrc, err := loadGoDir(repo, base+"/elligator2")
	if err != nil {
		return "", err
	}
	sswu, ell := newHgen(ssrc, "sswu"), newHgen(esrc, "elligator2")
	for _, k := range []string{"sswu", "SqrtRatio3Mod4", "SqrtRatio", "polyEval", "mapIso", "NonZeroPointMapper.Map", "ZeroPointMapper.Map"} {
		if _, err := sswu.translate(k); err != nil {
			return "", err
		}
	}
	for _, k := range []string{"mapToCurveElligator2Curve25519", "mapToCurveElligator2Edwards25519", "Edwards25519PointMapper.Map"} {
		if _, err := ell.translate(k); err != nil {
			return "", err
		}
	}
	// every function of the two packages must have been translated (a new helper would otherwise go unnoticed)
	for _, g := range []*hgen{sswu, ell} {
		var missing []string
		for k := range g.src.funcs {
			if _, ok := g.defs[k]; !ok && k != "sgn0" {
				missing = append(missing, k)
			}
		}
		sort.Strings(missing)
		if len(missing) > 0 {
			return "", fmt.Errorf("%s: functions not covered by the translation: %s", g.src.rel, strings.Join(missing, ", "))
		}
	}
	appTag, err := goStringConst(repo, "pkg/base/constants.go", "Hash2CurveAppTag")
	if err != nil {
		return "", err
	}
	var suiteTexts []string
	for _, sp := range h2cSuites {
		src, err := loadGoFiles(repo, sp.files...)
		if err != nil {
			return "", err
		}
		sg := &suiteGen{spec: sp, src: src, sswu: sswu, ell: ell}
		txt, err := sg.run(repo)
		if err != nil {
			return "", err
		}
		suiteTexts = append(suiteTexts, txt)
	}
	var sb strings.Builder
	sb.WriteString("/-! RFC 9380 map-to-curve formulas and suite constants translated from\n")
	sb.WriteString("`pkg/base/curves/impl/rfc9380/mappers/{sswu,elligator2}` and the per-curve `impl/*params.go` files.\n")
	sb.WriteString("Core-only; generic over the notation classes.  Parameters of the definitions: `K` embeds integer constants,\n")
	sb.WriteString("`fpow b e` is `fieldsImpl.Pow` (exponent = little-endian value of the byte string), `setZ mulByA mulByB\n")
	sb.WriteString("sqrtRatio sgn0 xNum xDen yNum yDen` are the methods of the mapper-params type, `lsb` the least significant bit of\n")
	sb.WriteString("the canonical representative.  `Select(c, z, nz)` is `if c then nz else z`; `Div(a, b)` is `a * b⁻¹`. -/\n")
	sb.WriteString("set_option linter.unusedVariables false\n\n")
	sb.WriteString("namespace BronVerif.Gen.H2CMaps\n\n")
	fmt.Fprintf(&sb, "/-- `base.Hash2CurveAppTag` (pkg/base/constants.go) -/\ndef appTag : String := %s\n\n", leanString(appTag))
	for _, g := range []*hgen{sswu, ell} {
		for _, c := range g.constDefs {
			sb.WriteString(c + "\n")
		}
	}
	sb.WriteString("\nvariable {F : Type} [Add F] [Mul F] [Sub F] [Neg F] [Inv F] [OfNat F 0] [OfNat F 1] [DecidableEq F]\n\n")
	for _, g := range []*hgen{sswu, ell} {
		for _, k := range g.order {
			sb.WriteString(g.defs[k].text)
		}
	}
	for _, t := range suiteTexts {
		sb.WriteString(t)
	}
	sb.WriteString("end BronVerif.Gen.H2CMaps\n")
	return sb.String(), nil
}
