import BronVerif.Model.Util
/-!
# Commitment schemes of `pkg/commitments` — executable model (core-only)

Every scheme of `/repo/pkg/commitments` has the same shape: `CommitWithWitness key m w` is a
deterministic function and `Open` is `internal.GenericOpen`: recompute and compare.  The
homomorphic schemes additionally expose operations on messages, witnesses and commitments
(`commitments.Homomorphic`); `Hom` is that interface, and the four constructors below are the
four implementations, generic over the *core* notation classes so that the driver instantiates them
with runtime curve / modular arithmetic and `Props/C18.lean` with Mathlib structures
(`Module F G`, `CommGroup G`).

* `pedersen g h`      — `pedersencom.CommitmentKey`: `c = m • g + r • h`
* `ringPedersen s t`  — `intcom.CommitmentKey`:      `c = s ^ m * t ^ r`, `m r : Int`
* `elgamal g h`       — `indcpacom` over `elgamal.PublicKey`: `c = (r • g, M + r • h)`
* `paillier N`        — `indcpacom` over `paillier.PublicKey`: `c = (1 + m N) · r^N mod N²`
* `hashCommit H k m w = H k (m ++ w)` — `hashcom.CommitmentKey` for an abstract keyed hash `H`.
-/
namespace BronVerif.Commit

/-- `internal.GenericOpen`: recompute the commitment from `(m, w)` and compare. -/
def genericOpen {M W C : Type} [DecidableEq C] (commit : M → W → C) (c : C) (m : M) (w : W) : Bool :=
  decide (commit m w = c)

/-- `commitments.Homomorphic` together with `CommitWithWitness` (one key). -/
structure Hom (M W C S : Type) where
  commit : M → W → C
  mOp : M → M → M
  mInv : M → M
  mScalar : M → S → M
  wOp : W → W → W
  wInv : W → W
  wScalar : W → S → W
  cOp : C → C → C
  cInv : C → C
  cScalar : C → S → C
  reRandomise : C → W → C
  shift : C → M → C

/-- `CommitmentKey.Open` of a homomorphic scheme -/
def Hom.open {M W C S : Type} [DecidableEq C] (k : Hom M W C S) (c : C) (m : M) (w : W) : Bool :=
  genericOpen k.commit c m w

/-! ## prime-order Pedersen (`pedersencom`) -/
section pedersen
variable {S G : Type} [Add G] [Neg G] [SMul S G] [Add S] [Neg S] [Mul S] [Sub S] [Inv S]

/-- `CommitmentKey.CommitWithWitness`: `g^m · h^r`, written additively -/
def pedCommit (g h : G) (m r : S) : G := m • g + r • h

/-- `TrapdoorKey.CommitWithWitness`: `(m + λ r) • g` -/
def pedTrapdoorCommit (g : G) (lam m r : S) : G := (m + lam * r) • g

/-- `TrapdoorKey.Equivocate`: `r' = r + λ⁻¹ (m − m')` -/
def pedEquivocate (lam m r m' : S) : S := r + lam⁻¹ * (m - m')

/-- accept/reject of `Open (commit m₀ r₀ + dc • g) m r` under the key `(g, λ • g)`, from the scalars:
both sides are multiples of `g` -/
def pedOpenScalars [DecidableEq S] (lam m₀ r₀ dc m r : S) : Bool :=
  decide (m + lam * r = m₀ + lam * r₀ + dc)

/-- `pedersencom.CommitmentKey` as a homomorphic scheme (scalars act on everything) -/
def pedersen (g h : G) : Hom S S G S where
  commit := pedCommit g h
  mOp := (· + ·)
  mInv := (- ·)
  mScalar := (· * ·)
  wOp := (· + ·)
  wInv := (- ·)
  wScalar := (· * ·)
  cOp := (· + ·)
  cInv := (- ·)
  cScalar := fun c k => k • c
  reRandomise := fun c s => c + s • h
  shift := fun c d => c + d • g

/-- validity of a key as enforced by `NewCommitmentKeyUnchecked` (`zero` is the neutral element) -/
def pedKeyValid [DecidableEq G] (zero g h : G) : Bool :=
  !(decide (g = h)) && !(decide (g = zero)) && !(decide (h = zero))

end pedersen

/-! ## ring-Pedersen integer commitments (`intcom`) -/
section ringPedersen
variable {G : Type} [Mul G] [Inv G] [Pow G Int]

/-- `intcom.CommitmentKey.CommitWithWitness`: `s^m · t^r`, `m`, `r` signed integers -/
def intCommit (s t : G) (m r : Int) : G := s ^ m * t ^ r

/-- `intcom.TrapdoorKey.CommitWithWitness`: `t^(λ m + r)` -/
def intTrapdoorCommit (t : G) (lam : Int) (m r : Int) : G := t ^ (m * lam + r)

def ringPedersen (s t : G) : Hom Int Int G Int where
  commit := intCommit s t
  mOp := (· + ·)
  mInv := (- ·)
  mScalar := (· * ·)
  wOp := (· + ·)
  wInv := (- ·)
  wScalar := (· * ·)
  cOp := (· * ·)
  cInv := (·⁻¹)
  cScalar := fun c k => c ^ k
  reRandomise := fun c x => c * t ^ x
  shift := fun c d => c * s ^ d

/-- the raw solution of `TrapdoorKey.Equivocate` before re-randomisation within its class -/
def intEquivocateRaw (lam m r m' : Int) : Int := r + lam * (m - m')

end ringPedersen

/-! ## ElGamal-based IND-CPA commitments (`indcpacom` over `elgamal`) -/
section elgamal
variable {S G : Type} [Add G] [Neg G] [SMul S G] [Add S] [Neg S] [Mul S]

/-- `gift.Encrypt`: `Representative(M) + IdentityNoise(r) = (0, M) + (r•g, r•h)`; `zero + ·`
is kept as in the code (`zero` is the neutral element of the plaintext group) -/
def egEncrypt (zero g h : G) (m : G) (r : S) : G × G := (zero + r • g, m + r • h)

def elgamal (zero g h : G) : Hom G S (G × G) S where
  commit := egEncrypt zero g h
  mOp := (· + ·)
  mInv := (- ·)
  mScalar := fun m k => k • m
  wOp := (· + ·)
  wInv := (- ·)
  wScalar := (· * ·)
  cOp := fun a b => (a.1 + b.1, a.2 + b.2)
  cInv := fun a => (-a.1, -a.2)
  cScalar := fun a k => (k • a.1, k • a.2)
  reRandomise := fun c s => (c.1 + s • g, c.2 + s • h)
  shift := fun c d => (c.1 + zero, c.2 + d)

end elgamal

/-! ## modular arithmetic on naturals (runtime instances; also the Paillier model) -/

def powModAux (N : Nat) : Nat → Nat → Nat → Nat → Nat
  | 0, _, _, acc => acc
  | fuel + 1, b, e, acc =>
    if e = 0 then acc
    else powModAux N fuel (b * b % N) (e / 2) (if e % 2 = 1 then acc * b % N else acc)

/-- `b ^ e mod N` by square-and-multiply -/
def powMod (b e N : Nat) : Nat := powModAux N (e.log2 + 1) (b % N) e (1 % N)

/-- extended Euclid: returns `(g, x)` with `a x ≡ g (mod b)` -/
def egcdAux : Nat → Int → Int → Int → Int → Int × Int
  | 0, r0, _, x0, _ => (r0, x0)
  | fuel + 1, r0, r1, x0, x1 =>
    if r1 = 0 then (r0, x0)
    else
      let q := r0 / r1
      egcdAux fuel r1 (r0 - q * r1) x1 (x0 - q * x1)

/-- inverse of `a` modulo `N` (`0` when `gcd a N ≠ 1`) -/
def invMod (a N : Nat) : Nat :=
  let (g, x) := egcdAux (2 * N.log2 + 4) (a % N : Nat) N 1 0
  if g = 1 then (x % (N : Int)).toNat else 0

/-- `b ^ e mod N` for a signed exponent (`ExpI`): negative exponents invert first -/
def zpowMod (b : Nat) (e : Int) (N : Nat) : Nat :=
  if e < 0 then powMod (invMod b N) e.natAbs N else powMod b e.natAbs N

/-- residues modulo a runtime modulus with the multiplicative notation (units are not enforced) -/
structure ZU (N : Nat) where
  v : Nat
deriving DecidableEq

instance {N : Nat} : Mul (ZU N) := ⟨fun a b => ⟨a.v * b.v % N⟩⟩
instance {N : Nat} : Inv (ZU N) := ⟨fun a => ⟨invMod a.v N⟩⟩
instance {N : Nat} : Pow (ZU N) Int := ⟨fun a e => ⟨zpowMod a.v e N⟩⟩

/-! ## Paillier-based IND-CPA commitments (`indcpacom` over `paillier`) -/

/-- `gift.Encrypt` for Paillier: `Representative(m) · NthResidue(r) = (1 + m N) · r^N mod N²` -/
def paiEncrypt (N : Nat) (m r : Nat) : Nat :=
  ((m * N + 1) % (N * N)) * powMod r N (N * N) % (N * N)

def paillier (N : Nat) : Hom Nat Nat Nat Int where
  commit := paiEncrypt N
  mOp := fun a b => (a + b) % N
  mInv := fun a => (N - a % N) % N
  mScalar := fun a k => ((a : Int) * k % (N : Int)).toNat
  wOp := fun a b => a * b % N
  wInv := fun a => invMod a N
  wScalar := fun a k => zpowMod a k N
  cOp := fun a b => a * b % (N * N)
  cInv := fun a => invMod a (N * N)
  cScalar := fun a k => zpowMod a k (N * N)
  reRandomise := fun c s => c * powMod s N (N * N) % (N * N)
  shift := fun c d => c * ((d * N + 1) % (N * N)) % (N * N)

/-! ## hash commitments (`hashcom`) -/

/-- `hashcom.KeySize`: length of a hash-commitment key in bytes -/
def hashKeySize : Nat := 32
/-- `hashcom.DigestSize`: length of a commitment and of a witness in bytes -/
def hashDigestSize : Nat := 32
/-- the keyed hash `hashcom` instantiates `H` with (the driver uses `Hash.blake2b key input 32`) -/
def hashFunctionName : String := "blake2b.New256"

/-- the string hashed by `hashcom.CommitWithWitness`: `h.Write(message); h.Write(witness[:])` -/
def hashFrame (m w : List UInt8) : List UInt8 := m ++ w

/-- `hashcom.CommitmentKey.CommitWithWitness` for an abstract keyed hash `H key input` -/
def hashCommit {K D : Type} (H : K → List UInt8 → D) (k : K) (m w : List UInt8) : D :=
  H k (hashFrame m w)

def hashOpen {K D : Type} [DecidableEq D] (H : K → List UInt8 → D) (k : K) (c : D)
    (m w : List UInt8) : Bool :=
  genericOpen (hashCommit H k) c m w

/-- What `Open` must answer for a *single-component change* of an honestly produced commitment
`c₀ = H k₀ (m₀ ‖ w₀)`, when the keyed hash is injective on the inputs that occur:
accept iff nothing was changed.  (`none`: more than the opening and the commitment differ in a
way that only the hash itself can decide.) -/
def hashOpenPredict {K D : Type} [DecidableEq K] [DecidableEq D]
    (k₀ : K) (m₀ w₀ : List UInt8) (c₀ : D) (k : K) (c : D) (m w : List UInt8) : Option Bool :=
  if k = k₀ ∧ m = m₀ ∧ w = w₀ then some (decide (c = c₀))
  else if c = c₀ then some false
  else none

/-! ## commitment keys derived from a transcript (`ExtractCommitmentKey`) -/

/-- `pedersencom.ExtractCommitmentKey`: the second generator is the hash-to-group image of the
bytes extracted from the transcript under `label`; the first is the caller's base point.
(`hashcom`: the key *is* the extracted byte string, `toGroup = id`, no base point.) -/
def extractKey {T B G : Type} (extractBytes : T → String → B) (toGroup : B → G)
    (t : T) (label : String) (g : G) : G × G :=
  (g, toGroup (extractBytes t label))

end BronVerif.Commit
