import BronVerif.Model.LinAlg
import BronVerif.Model.Access
/-!
# Linear secret sharing over a span programme, and the concrete schemes (core-only)

`MSP.reconVector` is `msp.MSP.ReconstructionVector` (rows of the selected holders in ascending row
order, `SolveLeft` against the target `e₀`), `MSP.accepts` is `Accepts`; `MSP.deal` is
`kw.NewDealerFunc` (`λ = M·r`), `MSP.reconstruct` is `kw.Scheme.Reconstruct`, `MSP.toAdditive` is
`ConvertShareToAdditive`.  Shamir / additive / ISN / Tassa follow `scheme/{shamir,additive,isn,tassa}`.
-/
namespace BronVerif.Access
open BronVerif.LinAlg

variable {F : Type} [Add F] [Mul F] [Sub F] [Neg F] [Inv F] [OfNat F 0] [OfNat F 1] [DecidableEq F] [NatCast F]

/-- indices (ascending) of the rows owned by a member of `S` -/
def MSP.rowsOf (m : MSP F) (S : List Nat) : List Nat :=
  (m.holders.zipIdx.filter fun (h, _) => S.contains h).map (·.2)

def pick {α} (xs : List α) (idx : List Nat) : List α := idx.filterMap fun i => xs[i]?

def MSP.sub (m : MSP F) (S : List Nat) : Mat F := pick m.mat (m.rowsOf S)

def MSP.target (m : MSP F) : List F := unitVec m.cols 0

/-- `ReconstructionVector`: an ID without rows, or an empty selection, is an error -/
def MSP.reconVector (m : MSP F) (S : List Nat) : Option (List F) :=
  if S.any (fun id => !m.holders.contains id) then none
  else if (m.rowsOf S).isEmpty then none
  else solveLeft (m.sub S) m.cols m.target

def MSP.accepts (m : MSP F) (S : List Nat) : Bool := (m.reconVector S).isSome

/-- `ReconstructionCoefficients holder S`: the entries of the reconstruction vector on the holder's rows -/
def MSP.coefficients (m : MSP F) (S : List Nat) (holder : Nat) : Option (List F) := do
  let c ← m.reconVector S
  let rows := m.rowsOf S
  return (rows.zip c).filterMap fun (i, ci) => if m.holders[i]? = some holder then some ci else none

/-- rank via the same Gauss–Jordan elimination -/
def rank (a : Mat F) (cols : Nat) : Nat := (gaussJordan a cols).k

/-- `e₀ ∈ rowspan M_S`, decided by ranks (independent of `solveLeft`) -/
def MSP.targetInSpan (m : MSP F) (S : List Nat) : Bool :=
  rank (m.sub S) m.cols == rank (m.sub S ++ [m.target]) m.cols

/-- `λ = M·r` -/
def MSP.deal (m : MSP F) (r : List F) : List F := mulVec m.mat r

def MSP.shareOf (m : MSP F) (lam : List F) (id : Nat) : List F := pick lam (m.rowsOf [id])

/-- `Reconstruct` from the shares of `S` (here: the rows of `λ` owned by `S`) -/
def MSP.reconstruct (m : MSP F) (S : List Nat) (lam : List F) : Option F := do
  let c ← m.reconVector S
  return dot c (pick lam (m.rowsOf S))

/-- `ConvertShareToAdditive`: `Σ_{rows of id} cᵢ λᵢ` for the reconstruction vector of the quorum -/
def MSP.toAdditive (m : MSP F) (Q : List Nat) (lam : List F) (id : Nat) : Option F := do
  let co ← m.coefficients Q id
  return dot co (m.shareOf lam id)

end BronVerif.Access

namespace BronVerif.Sharing
open BronVerif.LinAlg BronVerif.Access

variable {F : Type} [Add F] [Mul F] [Sub F] [Neg F] [Inv F] [OfNat F 0] [OfNat F 1] [DecidableEq F] [NatCast F]

def vadd (a b : List F) : List F := List.zipWith (· + ·) a b
def vsmul (k : F) (a : List F) : List F := a.map (k * ·)
def vsum (a : List F) : F := a.foldl (· + ·) 0

/-! ### Shamir -/

/-- Horner evaluation of `Σ cᵢ Xⁱ` -/
def evalPoly (coeffs : List F) (x : F) : F := coeffs.foldr (fun c acc => c + x * acc) 0

/-- Lagrange basis at zero: `ℓᵢ(0) = Π_{j≠i} x_j / (x_j - x_i)` -/
def lagrangeAtZero (nodes : List F) (i : Nat) : F :=
  let xi := nodes.getD i 0
  (nodes.zipIdx.filter fun (_, j) => j ≠ i).foldl (fun acc (xj, _) => acc * (xj * (xj - xi)⁻¹)) 1

def shamirShare (coeffs : List F) (id : Nat) : F := evalPoly coeffs (id : F)

def shamirReconstruct (ids : List Nat) (vals : List F) : F :=
  let nodes : List F := ids.map fun (id : Nat) => (id : F)
  vsum (vals.zipIdx.map fun (y, i) => lagrangeAtZero nodes i * y)

/-! ### Tassa (hierarchical, Birkhoff interpolation) -/

/-- formal derivative -/
def derivative (coeffs : List F) : List F :=
  (coeffs.zipIdx.drop 1).map fun (c, i) => ((i : Nat) : F) * c

def iterDeriv (coeffs : List F) : Nat → List F
  | 0 => coeffs
  | n + 1 => derivative (iterDeriv coeffs n)

def tassaShare (levels : List (Int × List Nat)) (coeffs : List F) (id : Nat) : F :=
  evalPoly (iterDeriv coeffs ((hierRank levels id).getD 0)) (id : F)

def minor (a : Mat F) (r c : Nat) : Mat F :=
  (a.zipIdx.filter fun (_, i) => i ≠ r).map fun (row, _) => (row.zipIdx.filter fun (_, j) => j ≠ c).map (·.1)

/-- `tassa.ConvertShareToAdditive`: `(-1)^i det(minor i 0) · yᵢ / det B` on the sorted quorum -/
def tassaAdditive (levels : List (Int × List Nat)) (Q : List Nat) (share : Nat → F) : Option (List (Nat × F)) :=
  let q := sortedSet Q
  let b : Mat F := birkhoffMatrix (q.map fun id => (id, (hierRank levels id).getD 0)) q.length
  let d := det b
  if d = 0 then none else
  some <| q.zipIdx.map fun (id, i) =>
    let d0 := det (minor b i 0) * share id
    (id, (if i % 2 = 1 then - d0 else d0) * d⁻¹)

/-- number of coefficients up to the last non-zero one (`Degree() + 1`; 0 for the zero polynomial) -/
def polyLen (a : List F) : Nat := (a.reverse.dropWhile (· = 0)).length

/-- `tassa.Reconstruct`: at least two shares, solve the Birkhoff system (unique when it is
non-singular), and insist that the interpolated polynomial has degree exactly `top - 1` -/
def tassaReconstruct (levels : List (Int × List Nat)) (Q : List Nat) (share : Nat → F) : Option F := do
  let q := sortedSet Q
  if q.length < 2 then none
  let b : Mat F := birkhoffMatrix (q.map fun id => (id, (hierRank levels id).getD 0)) q.length
  if det b = 0 then none
  let a ← solveRight b q.length (q.map share)
  if polyLen a ≠ topThreshold levels then none
  a.head?

end BronVerif.Sharing
