import BronVerif.Model.Fp
/-!
# Elliptic-curve group laws (core-only, generic over the field's notation classes)

* `W`: short Weierstrass `y² = x³ + a·x + b`, affine points plus the point at infinity,
  chord-and-tangent law (this is the *mathematical* law; the Go code uses complete projective
  formulas which `Gen/` regenerates and `Props/C14` relates to this law);
* `E`: twisted Edwards `a·x² + y² = 1 + d·x²·y²`, affine unified law;
* double-and-add scalar multiplication and multi-scalar multiplication for both.
-/
namespace BronVerif.Curve

variable {F : Type} [Add F] [Mul F] [Sub F] [Neg F] [Inv F] [OfNat F 0] [OfNat F 1] [DecidableEq F]

/-- affine Weierstrass point -/
inductive WPt (F : Type) where
  | inf
  | aff (x y : F)
deriving DecidableEq

namespace W

def onCurve (a b : F) : WPt F → Bool
  | .inf => true
  | .aff x y => y * y == x * x * x + a * x + b

def neg : WPt F → WPt F
  | .inf => .inf
  | .aff x y => .aff x (-y)

def double (a : F) : WPt F → WPt F
  | .inf => .inf
  | .aff x y =>
    if y = 0 then .inf else
    let l := (x * x + x * x + x * x + a) * (y + y)⁻¹
    let x3 := l * l - x - x
    .aff x3 (l * (x - x3) - y)

def add (a : F) : WPt F → WPt F → WPt F
  | .inf, q => q
  | p, .inf => p
  | .aff x1 y1, .aff x2 y2 =>
    if x1 = x2 then
      if y1 = y2 then double a (.aff x1 y1) else .inf
    else
      let l := (y2 - y1) * (x2 - x1)⁻¹
      let x3 := l * l - x1 - x2
      .aff x3 (l * (x1 - x3) - y1)

def smulAux (a : F) : Nat → Nat → WPt F → WPt F → WPt F
  | 0, _, _, acc => acc
  | fuel + 1, k, base, acc =>
    if k = 0 then acc
    else smulAux a fuel (k / 2) (double a base) (if k % 2 = 1 then add a acc base else acc)

/-- `k • P` by right-to-left double-and-add -/
def smul (a : F) (k : Nat) (P : WPt F) : WPt F := smulAux a (k.log2 + 1) k P .inf

def msm (a : F) (ks : List Nat) (ps : List (WPt F)) : WPt F :=
  (List.zipWith (fun k p => smul a k p) ks ps).foldl (add a) .inf

def sum (a : F) (ps : List (WPt F)) : WPt F := ps.foldl (add a) .inf

end W

/-- affine twisted-Edwards point (the neutral element is `(0, 1)`) -/
structure EPt (F : Type) where
  x : F
  y : F
deriving DecidableEq

namespace E

def zero : EPt F := ⟨0, 1⟩

def onCurve (a d : F) (P : EPt F) : Bool :=
  a * P.x * P.x + P.y * P.y == 1 + d * P.x * P.x * P.y * P.y

def neg (P : EPt F) : EPt F := ⟨-P.x, P.y⟩

def add (a d : F) (P Q : EPt F) : EPt F :=
  let t := d * P.x * Q.x * P.y * Q.y
  ⟨(P.x * Q.y + P.y * Q.x) * (1 + t)⁻¹, (P.y * Q.y - a * P.x * Q.x) * (1 - t)⁻¹⟩

def smulAux (a d : F) : Nat → Nat → EPt F → EPt F → EPt F
  | 0, _, _, acc => acc
  | fuel + 1, k, base, acc =>
    if k = 0 then acc
    else smulAux a d fuel (k / 2) (add a d base base) (if k % 2 = 1 then add a d acc base else acc)

def smul (a d : F) (k : Nat) (P : EPt F) : EPt F := smulAux a d (k.log2 + 1) k P zero

def msm (a d : F) (ks : List Nat) (ps : List (EPt F)) : EPt F :=
  (List.zipWith (fun k p => smul a d k p) ks ps).foldl (add a d) zero

def sum (a d : F) (ps : List (EPt F)) : EPt F := ps.foldl (add a d) zero

end E

end BronVerif.Curve
