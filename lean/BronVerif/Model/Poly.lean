import BronVerif.Model.LinAlg
/-!
# Polynomials and interpolation (core-only, generic over notation classes)

Mirrors `pkg/base/polynomials`:
* `Polynomial.Eval` (Horner), `Polynomial.Derivative` (trims to the degree first),
  `ModuleValuedPolynomial.Eval/Derivative`, `LiftPolynomial`;
* `lagrange.BasisAt / InterpolateAt / InterpolateInExponentAt`;
* `vandermonde.BuildVandermondeMatrix / Interpolate` (via `LinAlg.solveRight`);
* `birkhoff.BuildVandermondeMatrix / Interpolate / InterpolateInExponent` (Cramer's rule, resp.
  cofactor expansion in the exponent; parametrised by the determinant function so that theorems can
  be stated relative to "the determinant routine computes `Matrix.det`");
* `mat.DotProduct` on row/column vectors.
A polynomial is the list of its coefficients in ascending degree order.  Errors are the classes
printed by the harness (`err:length`, `err:div0`, `err:invalid`, `err:dim`, `err:nosolution`,
`err:failed`).
-/
namespace BronVerif.Poly
open BronVerif.LinAlg

variable {F : Type} [Add F] [Mul F] [Sub F] [Neg F] [Inv F] [OfNat F 0] [OfNat F 1] [DecidableEq F]

/-! ## scalar polynomials -/

/-- Horner evaluation, `Polynomial.Eval` (`coeffs[0]` is the constant term) -/
def eval (cs : List F) (x : F) : F := cs.foldr (fun c acc => acc * x + c) 0

/-- `Polynomial.Add`: coefficient-wise on the common prefix, then the tail of the longer one -/
def add : List F → List F → List F
  | [], b => b
  | a, [] => a
  | x :: a, y :: b => (x + y) :: add a b

/-- `Polynomial.ScalarMul` / `ScalarOp`: every coefficient times `s` (on the right, as in the Go code) -/
def smul (cs : List F) (s : F) : List F := cs.map (· * s)

/-- `Polynomial.Mul`: schoolbook product (`len a + len b - 1` coefficients; `[]` if a factor is `[]`) -/
def mulPoly : List F → List F → List F
  | [], _ => []
  | _, [] => []
  | x :: a, b => add (b.map (x * ·)) (0 :: mulPoly a b)

/-- `n • c` by repeated addition (`algebrautils.ScalarMulNative` on the additive monoid) -/
def nsmul : Nat → F → F
  | 0, _ => 0
  | n + 1, c => nsmul n c + c

/-- drop trailing zero coefficients (`Degree()` ignores them) -/
def trim (cs : List F) : List F := (cs.reverse.dropWhile (· = 0)).reverse

/-- formal derivative of the coefficient list, no normalisation: `[c₁, 2c₂, 3c₃, …]` -/
def derivCoeffs (cs : List F) : List F := (cs.drop 1).zipIdx.map fun ci => nsmul (ci.2 + 1) ci.1

/-- `Polynomial.Derivative`: degree ≤ 0 gives `[0]`, else the derivative of the trimmed list -/
def deriv (cs : List F) : List F :=
  let t := trim cs
  if t.length ≤ 1 then [0] else derivCoeffs t

def iterDeriv : Nat → List F → List F
  | 0, cs => cs
  | j + 1, cs => iterDeriv j (deriv cs)

/-! ## Lagrange -/

def prodL (xs : List F) : F := xs.foldl (· * ·) 1

/-- indices `j < n`, `j ≠ i`, in increasing order -/
def othersIdx (n i : Nat) : List Nat := (List.range n).filter (· ≠ i)

/-- `Π_{j≠i} (x - xⱼ)` -/
def basisNum (xs : List F) (x : F) (i : Nat) : F :=
  prodL ((othersIdx xs.length i).map fun j => x - xs.getD j 0)

/-- `Π_{j≠i} (xᵢ - xⱼ)` -/
def basisDen (xs : List F) (i : Nat) : F :=
  prodL ((othersIdx xs.length i).map fun j => xs.getD i 0 - xs.getD j 0)

/-- the Lagrange basis values `ℓᵢ(x) = Π_{j≠i}(x - xⱼ) / Π_{j≠i}(xᵢ - xⱼ)` -/
def basisTerms (xs : List F) (x : F) : List F :=
  (List.range xs.length).map fun i => basisNum xs x i * (basisDen xs i)⁻¹

/-- `lagrange.BasisAt`: `none` = some denominator is zero (two equal nodes; `TryDiv` fails) -/
def basisAt (xs : List F) (x : F) : Option (List F) :=
  if (List.range xs.length).any (fun i => basisDen xs i = 0) then none else some (basisTerms xs x)

/-- `lagrange.InterpolateAt` -/
def interpolateAt (xs ys : List F) (x : F) : Except String F :=
  if xs.length ≠ ys.length then .error "err:length" else
  match basisAt xs x with
  | none => .error "err:div0"
  | some b => .ok (dot b ys)

/-! ## Vandermonde -/

/-- `[1, x, x², …]` (`n` entries) by repeated multiplication -/
def powers (x : F) : Nat → List F
  | 0 => []
  | n + 1 => 1 :: (powers x n).map (· * x)

/-- `vandermonde.BuildVandermondeMatrix` -/
def vandermondeMatrix (xs : List F) (cols : Nat) : Except String (Mat F) :=
  if xs.isEmpty ∨ cols = 0 then .error "err:invalid" else .ok (xs.map fun x => powers x cols)

/-- `vandermonde.Interpolate`: coefficients of the interpolating polynomial via `SolveRight` -/
def vandermondeInterpolate (xs ys : List F) : Except String (List F) :=
  if xs.length ≠ ys.length then .error "err:length" else
  if xs.isEmpty then .error "err:dim" else
  match solveRight (xs.map fun x => powers x xs.length) xs.length ys with
  | none => .error "err:nosolution"
  | some c => .ok c

/-! ## Birkhoff -/

/-- `internal.Phi(t, x, j)`: the `j`-th derivative of `X^t` at `x` -/
def phi (t : Nat) (x : F) (j : Nat) : F :=
  if j > t then 0 else eval (iterDeriv j (List.replicate t (0 : F) ++ [1])) x

/-- `birkhoff.BuildVandermondeMatrix` (rows `(xᵣ, jᵣ)`, entry `(r, c) = Phi(c, xᵣ, jᵣ)`) -/
def birkhoffMatrix (xs : List F) (js : List Nat) (cols : Nat) : Mat F :=
  List.zipWith (fun x j => (List.range cols).map fun c => phi c x j) xs js

/-- replace column `c` of `m` by `col` (`SetColumn`) -/
def setColumn (m : Mat F) (c : Nat) (col : List F) : Mat F :=
  List.zipWith (fun row v => row.set c v) m col

/-- `Minor(r, c)` -/
def minor (m : Mat F) (r c : Nat) : Mat F := (m.eraseIdx r).map (·.eraseIdx c)

/-- `internal.SortNodes`: by `(x as a natural number, j)` -/
def sortNodes {Y : Type} (key : F → Nat) (nodes : List (F × Nat × Y)) : List (F × Nat × Y) :=
  nodes.mergeSort fun a b => key a.1 < key b.1 ∨ (key a.1 = key b.1 ∧ a.2.1 ≤ b.2.1)

/-- `birkhoff.Interpolate` on already sorted nodes, Cramer's rule with determinant routine `detF` -/
def birkhoffSorted (detF : Mat F → F) (xs : List F) (js : List Nat) (ys : List F) :
    Except String (List F) :=
  let a := birkhoffMatrix xs js xs.length
  let den := detF a
  if den = 0 then .error "err:failed" else
  .ok ((List.range xs.length).map fun c => detF (setColumn a c ys) * den⁻¹)

/-- `birkhoff.Interpolate` -/
def birkhoffInterpolate (detF : Mat F → F) (key : F → Nat) (xs : List F) (js : List Nat)
    (ys : List F) : Except String (List F) :=
  if xs.length ≠ js.length ∨ xs.length ≠ ys.length then .error "err:invalid" else
  if xs.isEmpty then .error "err:invalid" else
  let s := sortNodes key (List.zip xs (List.zip js ys))
  birkhoffSorted detF (s.map (·.1)) (s.map (·.2.1)) (s.map (·.2.2))

section Module
variable {G : Type} [Add G] [OfNat G 0] [HSMul F G G]

/-- `ModuleValuedPolynomial.Eval` (Horner in the exponent) -/
def evalG (cs : List G) (x : F) : G := cs.foldr (fun c acc => x • acc + c) 0

/-- `LiftPolynomial` -/
def liftPoly (cs : List F) (g : G) : List G := cs.map fun c => c • g

def nsmulG : Nat → G → G
  | 0, _ => 0
  | n + 1, c => nsmulG n c + c

/-- `ModuleValuedPolynomial.Derivative` (no trimming; a single coefficient gives `[0]`) -/
def derivG (cs : List G) : List G :=
  if cs.length ≤ 1 then [0] else (cs.drop 1).zipIdx.map fun ci => nsmulG (ci.2 + 1) ci.1

/-- `lagrange.InterpolateInExponentAt` -/
def interpolateExpAt (xs : List F) (ys : List G) (x : F) : Except String G :=
  if xs.length ≠ ys.length then .error "err:length" else
  match basisAt xs x with
  | none => .error "err:div0"
  | some b => .ok (gdot b ys)

/-- `birkhoff.InterpolateInExponent` on sorted nodes: cofactor expansion in the exponent -/
def birkhoffExpSorted (detF : Mat F → F) (xs : List F) (js : List Nat) (ys : List G) :
    Except String (List G) :=
  let n := xs.length
  let a := birkhoffMatrix xs js n
  let den := detF a
  if den = 0 then .error "err:failed" else
  let denInv := den⁻¹
  .ok ((List.range n).map fun c =>
    let cof : List F := (List.range n).map fun r =>
      let d := detF (minor a r c)
      if (r + c) % 2 ≠ 0 then -d else d
    denInv • gdot cof ys)

def birkhoffExpInterpolate (detF : Mat F → F) (key : F → Nat) (xs : List F) (js : List Nat)
    (ys : List G) : Except String (List G) :=
  if xs.length ≠ js.length ∨ xs.length ≠ ys.length then .error "err:invalid" else
  if xs.isEmpty then .error "err:invalid" else
  let s := sortNodes key (List.zip xs (List.zip js ys))
  birkhoffExpSorted detF (s.map (·.1)) (s.map (·.2.1)) (s.map (·.2.2))

end Module

/-! ## `mat.DotProduct` -/

/-- vector length of an `r × c` matrix: `none` if it is neither a row nor a column -/
def vectorLength (r c : Nat) : Option Nat := if r = 1 then some c else if c = 1 then some r else none

/-- `mat.DotProduct` on the row-major data of two matrices -/
def dotProduct (ra ca : Nat) (a : List F) (rb cb : Nat) (b : List F) : Except String F :=
  match vectorLength ra ca, vectorLength rb cb with
  | some la, some lb => if la ≠ lb then .error "err:dim" else .ok (dot a b)
  | _, _ => .error "err:dim"

end BronVerif.Poly
