/-!
# Fixed-window scalar multiplication and Pippenger bucket MSM (core-only, executable)

Hand-written but statement-by-statement model of `pkg/base/algebra/impl/mul.go`
(`ScalarMulLowLevel`, `MultiScalarMulLowLevel` and its `getWindow` closure) over an abstract
additive structure `G` (`[Add G] [OfNat G 0]`): the driver instantiates `G` with the runtime curve
points (`Curves.Pt` with `Curves.add`) and with `ℤ/order` (points given as multiples of the
generator); `Props/C14.lean` instantiates it with an arbitrary Mathlib `AddMonoid`/`AddCommMonoid`
and proves `window_digits_sum`, `windowed_smul_spec`, `smul_nibble_spec`, `bucket_msm_spec`.

The constants below (`tableSize`, `nibbleBits`, `naiveMax`, `clampLo`, `clampHi`) and the shapes of
the loops are compared with facts extracted from the Go source by the translator
(`Gen/MulFacts.lean`, theorem `msm_structure_matches_model`).

Scalars are little-endian byte strings (`Array UInt8`, least significant byte first), exactly what
the Go functions receive.
-/
namespace BronVerif.Window

/-! ## constants of the Go code -/

/-- `var precomputed [16]P` -/
def tableSize : Nat := 16
/-- the ladder consumes one nibble per step: four `Double`s, masks `0b1111`, shift `4` -/
def nibbleBits : Nat := 4
/-- `if n <= 7` : naive sum of single scalar multiplications -/
def naiveMax : Nat := 7
/-- `if w < 2 { w = 2 }` -/
def clampLo : Nat := 2
/-- `if w > 16 { w = 16 }` -/
def clampHi : Nat := 16

/-- value of a little-endian byte list -/
def leToNatL : List UInt8 → Nat
  | [] => 0
  | x :: xs => x.toNat + 256 * leToNatL xs

/-- value of a little-endian byte string -/
def leToNat (b : Array UInt8) : Nat := leToNatL b.toList

/-- Go `bits.Len(uint(n))` -/
def bitsLen (n : Nat) : Nat := if n = 0 then 0 else n.log2 + 1

/-- window width of the bucket method: `bits.Len(n)` clamped to `[2, 16]` -/
def msmWidth (n : Nat) : Nat :=
  let w := bitsLen n
  let w := if w < clampLo then clampLo else w
  if w > clampHi then clampHi else w

/-- `(maxBits + w - 1) / w` -/
def numWindows (maxBits w : Nat) : Nat := (maxBits + w - 1) / w

/-- `maxBits`: 8 × the longest scalar -/
def maxBits (scalars : List (Array UInt8)) : Nat :=
  scalars.foldl (fun m b => if b.size * 8 > m then b.size * 8 else m) 0

/-! ## `getWindow` -/

/-- `(b[byteIndex] >> shift) & 1` -/
def bitOf (x : UInt8) (shift : Nat) : Nat := (x.toNat >>> shift) &&& 1

/-- the loop `for k := range w { … }` of `getWindow` with `r` iterations left, including its `break`
when the byte index runs past the scalar -/
def getWindowAux (b : Array UInt8) (start : Nat) : Nat → Nat → Nat → Nat
  | 0, _, acc => acc
  | r + 1, k, acc =>
    let bitIndex := start + k
    let byteIndex := bitIndex / 8
    if byteIndex ≥ b.size then acc
    else getWindowAux b start r (k + 1) (acc ||| (bitOf (b.getD byteIndex 0) (bitIndex % 8) <<< k))

/-- window of `w` bits starting at bit `start` (bit 0 = least significant bit of byte 0) -/
def getWindow (w : Nat) (b : Array UInt8) (start : Nat) : Nat :=
  if b.size = 0 then 0 else getWindowAux b start w 0 0

section group
variable {G : Type} [Add G] [OfNat G 0]

/-- `n` times `x ← x + x` -/
def dblN : Nat → G → G
  | 0, x => x
  | n + 1, x => dblN n (x + x)

/-- windows `m-1, m-2, …, 0` in this order (`for wIdx := m-1; wIdx >= 0; wIdx--`) -/
def ladder (step : G → Nat → G) : Nat → G → G
  | 0, acc => acc
  | m + 1, acc => ladder step m (step acc m)

/-! ## fixed-window scalar multiplication -/

/-- the table loop `for i := 2; i < size; i += 2 { t[i] = Double(t[i/2]); t[i+1] = t[i] + P }`
with `s` iterations left -/
def buildTable (P : G) : Nat → Array G → Array G
  | 0, t => t
  | s + 1, t =>
    let d := t.getD (t.size / 2) 0 + t.getD (t.size / 2) 0
    buildTable P s ((t.push d).push (d + P))

/-- `[0, P, 2P, …, (2^w − 1)P]` built as the Go code builds `precomputed` -/
def table (w : Nat) (P : G) : Array G := buildTable P (2 ^ w / 2 - 1) #[0, P]

/-- **Go-literal model of `ScalarMulLowLevel`**: bytes from the last to the first, high nibble
`(s[i] >> 4) & 0b1111` then low nibble `s[i] & 0b1111`, each after four doublings. -/
def smulNibble (P : G) (s : Array UInt8) : G :=
  let t := table nibbleBits P
  s.toList.foldr (fun x res =>
    let res := dblN nibbleBits res
    let res := res + t.getD ((x.toNat >>> 4) &&& 0b1111) 0
    let res := dblN nibbleBits res
    res + t.getD (x.toNat &&& 0b1111) 0) 0

/-- **generic fixed-window ladder**: table of `2^w` multiples, digits `getWindow w s (w·j)` from
the top window down, `w` doublings then one table addition per window -/
def windowedSmul (w : Nat) (P : G) (s : Array UInt8) : G :=
  let t := table w P
  ladder (fun acc j => dblN w acc + t.getD (getWindow w s (j * w)) 0) (numWindows (s.size * 8) w) 0

/-! ## Pippenger bucket multi-scalar multiplication -/

/-- one pass over the points: `if win == 0 { continue }; buckets[win] += points[i]` -/
def scatter (B : Array G) : List Nat → List G → Array G
  | d :: ds, P :: ps => scatter (if d = 0 then B else B.modify d (· + P)) ds ps
  | _, _ => B

/-- running sum from the highest bucket down; `l` = buckets `1 … size-1`; the state is
`(running, acc)`: `if !IsZero(b) { running += b }; acc += running` -/
def collapse (isz : G → Bool) (l : List G) (acc : G) : G × G :=
  l.foldr (fun b s =>
    let run := if isz b then s.1 else s.1 + b
    (run, s.2 + run)) (0, acc)

/-- body of the window loop -/
def windowStep (isz : G → Bool) (w : Nat) (scalars : List (Array UInt8)) (points : List G) (acc : G) (wIdx : Nat) : G :=
  let acc := dblN w acc
  let B := scatter (Array.replicate (2 ^ w) 0) (scalars.map fun b => getWindow w b (wIdx * w)) points
  (collapse isz (B.toList.drop 1) acc).2

/-- the bucket method with window width `w` over `nw` windows -/
def bucketCore (isz : G → Bool) (w nw : Nat) (scalars : List (Array UInt8)) (points : List G) : G :=
  ladder (windowStep isz w scalars points) nw 0

/-- the naive path `n ≤ 7` -/
def naiveMsm : List (Array UInt8) → List G → G → G
  | b :: bs, P :: ps, acc => naiveMsm bs ps (acc + smulNibble P b)
  | _, _, acc => acc

/-- **model of `MultiScalarMulLowLevel`** (`scalars.length = points.length` is the Go
precondition; it panics otherwise). `isz` is the implementation's `IsZero`. -/
def msm (isz : G → Bool) (scalars : List (Array UInt8)) (points : List G) : G :=
  let n := points.length
  if n = 0 then 0
  else if n ≤ naiveMax then naiveMsm scalars points 0
  else
    let mb := maxBits scalars
    if mb = 0 then 0
    else
      let w := msmWidth n
      bucketCore isz w (numWindows mb w) scalars points

end group

/-! ## the additive group `ℤ/n` as a runtime instance (points given as multiples of a generator) -/

structure ZN (n : Nat) where
  val : Nat
deriving DecidableEq

instance {n : Nat} : Add (ZN n) := ⟨fun a b => ⟨(a.val + b.val) % n⟩⟩
instance {n : Nat} : OfNat (ZN n) 0 := ⟨⟨0⟩⟩

end BronVerif.Window
