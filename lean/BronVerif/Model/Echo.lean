/-!
# Echo broadcast model (C11) — core-only

`pkg/network/echo/rounds.go`: in round 1 every party sends its payload to every other party; in
round 2 every party sends to every other party the digests of all payloads it received; in round 3
a party delivers the payloads it holds iff, for every sender `s` and every echoer `e ∉ {self, s}`,
the digest `e` reported for `s` equals the digest of the payload held for `s` (all or nothing).

`P` payloads, `D` digests, `H : P → D` the digest function (SHA3-256 in the code).  A missing entry
in an echo map is the all-zero digest in Go; here it is simply some value of `D`.
-/
namespace BronVerif.Echo

variable {P D : Type} [DecidableEq D]

/-- the digests an honest party puts into its round-2 message (`Round2`) -/
def honestEcho (H : P → D) (r1 : Nat → P) : Nat → D := fun s => H (r1 s)

/-- the per-sender test of `Round3` at party `self`: `r1 s` is the payload held for `s`,
`echo e s` the digest that echoer `e` reported to `self` for sender `s` -/
def acceptsSender (H : P → D) (quorum : List Nat) (self : Nat) (r1 : Nat → P) (echo : Nat → Nat → D)
    (s : Nat) : Bool :=
  quorum.all fun e => decide (e = self) || decide (e = s) || decide (echo e s = H (r1 s))

/-- `Round3`: deliver everything or fail -/
def round3 (H : P → D) (quorum : List Nat) (self : Nat) (r1 : Nat → P) (echo : Nat → Nat → D) :
    Option (List (Nat × P)) :=
  let senders := quorum.filter (· ≠ self)
  if senders.all (acceptsSender H quorum self r1 echo) then some (senders.map fun s => (s, r1 s))
  else none

end BronVerif.Echo
