/-!
# Single-party signature schemes — executable models (core-only)

Generic over a scalar type `F` and a group type `G` given only by the core notation classes, so that
the driver instantiates them with `Fp n` / runtime curve points (`Drive/C15.lean`) and the theorem
file with any Mathlib `[Field F] [AddCommGroup G] [Module F G]` (`Props/C15.lean`).

The models follow `/repo/pkg/signatures`:
* `ecdsa*`   — `ecdsa.Verifier.Verify`, `RecoverPublicKey`, `Signature.Normalise/IsNormalized`
               (the core check is the one of Go's `crypto/ecdsa`: `u1 = e·s⁻¹`, `u2 = r·s⁻¹`,
               reject the point at infinity, compare `x mod n` with `r`);
* `schnorrVerify` — `schnorrlike.VerifierTrait.Verify` (configurable Schnorr and Mina);
* `bip340Verify`  — `bip340.Verifier.Verify` (x-only, even-y rules);
* `bls*`     — the group-level relations of BLS (the pairing itself is not modelled).
Hashes (message digest, Fiat–Shamir challenge, hash-to-curve) are *arguments* of these functions.
-/
namespace BronVerif.Sig

section
variable {F G : Type}
variable [Add F] [Mul F] [Sub F] [Neg F] [Inv F] [OfNat F 0] [DecidableEq F]
variable [Add G] [Neg G] [OfNat G 0] [SMul F G] [DecidableEq G]

/-! ## ECDSA -/

/-- the nonce point `(e s⁻¹)•g + (r s⁻¹)•pk` recomputed by the verifier -/
def ecdsaPoint (g pk : G) (e r s : F) : G := (e * s⁻¹) • g + (r * s⁻¹) • pk

/-- core ECDSA verification (`crypto/ecdsa.Verify`): `r, s ≠ 0`, the recomputed point is not the
identity and its x-coordinate (as a scalar, `xr`) equals `r` -/
def ecdsaCore (xr : G → F) (g pk : G) (e r s : F) : Bool :=
  decide (r ≠ 0) && decide (s ≠ 0) &&
    (let R := ecdsaPoint g pk e r s
     decide (R ≠ 0) && decide (xr R = r))

/-- signing with nonce `k` and secret `d`: `r = xr (k•g)`, `s = k⁻¹ (e + r d)` -/
def ecdsaSign (xr : G → F) (g : G) (d k e : F) : F × F :=
  let r := xr (k • g)
  (r, k⁻¹ * (e + r * d))

/-- public-key recovery `r⁻¹ • (s•R − e•g) = (r⁻¹ s)•R − (r⁻¹ e)•g` where `R = lift r v` is the point
whose x-coordinate is (`r`, or `r + n` when bit 1 of `v` is set) with the y-parity given by bit 0 of `v`.
Written with two scalar multiplications (the library computes `(s•R − z•G)•r⁻¹`; in a module over the
scalar field the two coincide, `Props.C15.ecdsaRecover_eq`) -/
def ecdsaRecover (lift : F → Nat → Option G) (g : G) (e r s : F) (v : Nat) : Option G :=
  (lift r v).map fun R => (r⁻¹ * s) • R + -((r⁻¹ * e) • g)

/-- `Signature.Normalise`: low-S form, recovery bit flipped when `s` is negated -/
def ecdsaNormalise (low : F → Bool) (sig : F × F × Option Nat) : F × F × Option Nat :=
  if low sig.2.1 then sig else (sig.1, -sig.2.1, sig.2.2.map (· ^^^ 1))

/-- `ecdsa.Verifier.Verify` (`strict` = `VerifyNonMalleably`): optional low-S requirement, the
recovered key must equal `pk` when a recovery id is present, then the core check -/
def ecdsaVerify (xr : G → F) (lift : F → Nat → Option G) (low : F → Bool) (strict : Bool)
    (g pk : G) (e : F) (sig : F × F × Option Nat) : Bool :=
  (!strict || low sig.2.1) &&
  (match sig.2.2 with
    | none => true
    | some v => decide (ecdsaRecover lift g e sig.1 sig.2.1 v = some pk)) &&
  ecdsaCore xr g pk e sig.1 sig.2.1

/-- **crafted triples.**  Anyone can pick `(r, s, v)` freely and present it under the key `Q` that public-key
recovery returns for it.  `ecdsaForge` is what the property demands of the verifier on such an input:
the recovered key `Q`, the verdict of the default verifier (`= ecdsaCore` under `Q`: the textbook
equation decides, *not* the fact that `Q` was recovered from the triple — the two differ exactly when the
lifted x-coordinate does not reduce to `r`, see `Props.C15.ecdsa_recover_eq_not_sufficient`), and the
verdict of the strict verifier (`low s ∧` the former).  `Props.C15.ecdsaForge_spec` relates the three
components to `ecdsaRecover` / `ecdsaVerify`. -/
def ecdsaForge (xr : G → F) (lift : F → Nat → Option G) (low : F → Bool) (g : G) (e r s : F) (v : Nat) :
    Option (G × Bool × Bool) :=
  (ecdsaRecover lift g e r s v).map fun Q =>
    let c := ecdsaCore xr g Q e r s
    (Q, c, low s && c)

/-! ## Schnorr family -/

/-- `VerifierTrait.Verify`: `pk, R ≠ 0`, `s ≠ 0`, `R` in the prime-order subgroup (`tf`), and
`s•g = R ± e•pk` (`negResp` = `ResponseOperatorIsNegative`) -/
def schnorrVerify (tf : G → Bool) (negResp : Bool) (g pk R : G) (e s : F) : Bool :=
  decide (pk ≠ 0) && decide (s ≠ 0) && decide (R ≠ 0) && tf R &&
    decide (s • g = R + (if negResp then -(e • pk) else e • pk))

/-- the nonce commitment an attacker *without* the secret key fabricates from a freely chosen response `s`
and a freely chosen "challenge" `e'`: `R = s•g ∓ e'•pk`.  A verifier that trusted a challenge carried
in the signature would accept it; one that recomputes `e = H(R, pk, m)` accepts iff `(e − e')•pk = 0`
(`Props.C15.schnorr_crafted_iff`). -/
def schnorrCraftR (negResp : Bool) (g pk : G) (e' s : F) : G :=
  s • g + (if negResp then e' • pk else -(e' • pk))

/-- generic response `s = k ± e·x` -/
def schnorrResponse (negResp : Bool) (x k e : F) : F := k + (if negResp then -(e * x) else e * x)

/-- `lift_x` on points: the representative with even y -/
def liftEven (evenY : G → Bool) (P : G) : G := if evenY P then P else -P

/-- scalar companion of `liftEven`: negate `d` when `d•g` has odd y -/
def evenScalar (evenY : G → Bool) (g : G) (d : F) : F := if evenY (d • g) then d else -d

/-- the point recomputed by the BIP-340 verifier: `s•g − e•lift_x(pk)` -/
def bip340Point (evenY : G → Bool) (g pk : G) (e s : F) : G := s • g + -(e • liftEven evenY pk)

/-- `bip340.Verifier.Verify` (standard path): only the x-coordinate `x R` of the signature's `R`
is used; the recomputed point must be non-zero, have even y and the same x -/
def bip340Verify {X : Type} [DecidableEq X] (x : G → X) (evenY : G → Bool) (g pk R : G) (e s : F) : Bool :=
  decide (pk ≠ 0) && decide (R ≠ 0) && decide (s ≠ 0) &&
    (let R' := bip340Point evenY g pk e s
     decide (R' ≠ 0) && evenY R' && decide (x R' = x R))

/-- BIP-340 signing: `d = ±d'` so that `P` is even, `k = ±k'` so that `R` is even, `s = k + e d` -/
def bip340Sign (evenY : G → Bool) (g : G) (d' k' : F) (chal : G → G → F) : G × F :=
  let d := evenScalar evenY g d'
  let k := evenScalar evenY g k'
  let R := k • g
  (R, k + chal R (d • g) * d)

/-! ## BLS (group level) -/

/-- `coreSign`: `σ = sk • H(m)` -/
def blsSign (sk : F) (hm : G) : G := sk • hm

/-- aggregation of signatures / public keys / proofs: the sum -/
def blsAggregate (xs : List G) : G := xs.foldl (· + ·) 0

/-- the admissibility checks of `coreVerify` on one group element: not the identity, in the
prime-order subgroup -/
def blsAdmissible (tf : G → Bool) (P : G) : Bool := decide (P ≠ 0) && tf P

end
end BronVerif.Sig
