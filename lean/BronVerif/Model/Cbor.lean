/-!
# CBOR data model, deterministic encoder and strict decoder (core-only)

The model follows what `pkg/base/serde` configures on fxamacker/cbor (`serde.updateModes`):

* encoder = `CoreDetEncOptions`: shortest heads, definite lengths, map keys sorted bytewise
  lexicographically by their encoded form;
* decoder: *accepts* non-shortest heads and unsorted maps (found by experiment: fxamacker does not
  enforce preferred serialisation on decode), *rejects* trailing bytes, indefinite lengths
  (`IndefLengthForbidden`), reserved additional-information values 28–30, two-byte simple values
  below 32, duplicate map keys (`DupMapKeyEnforcedAPF`), bignum tags 2/3 (`BignumTagForbidden`),
  more than 32 nested arrays/maps/tags (`MaxNestedLevels`; the first tag of a run of consecutive
  tags does not count — `wellformedInternal` in fxamacker's valid.go), more
  than 131072 array elements / map pairs.

A map is stored flattened (`k₀, v₀, k₁, v₁, …`), so that `Item` nests only through `List Item`.
-/
namespace BronVerif.Cbor

abbrev Bytes := List UInt8

inductive Item where
  | uint (n : Nat)
  | nint (n : Nat)            -- the integer `-1 - n`
  | bytes (b : List UInt8)
  | text (b : List UInt8)
  | array (xs : List Item)
  | map (kvs : List Item)     -- flattened key/value pairs, even length
  | tag (t : Nat) (x : Item)
  | simple (n : Nat)          -- 0..23 (20 false, 21 true, 22 null, 23 undefined) and 32..255
  | float (w : Nat) (bits : Nat)   -- w ∈ {2,4,8} bytes; raw IEEE bits
  deriving Repr, Inhabited

mutual
/-- structural equality (shown to decide `=` in `Lemmas/Cbor.lean`) -/
def Item.beq : Item → Item → Bool
  | .uint a, .uint b => a == b
  | .nint a, .nint b => a == b
  | .bytes a, .bytes b => a == b
  | .text a, .text b => a == b
  | .array a, .array b => Item.beqList a b
  | .map a, .map b => Item.beqList a b
  | .tag s a, .tag t b => s == t && Item.beq a b
  | .simple a, .simple b => a == b
  | .float v a, .float w b => v == w && a == b
  | _, _ => false
def Item.beqList : List Item → List Item → Bool
  | [], [] => true
  | a :: as, b :: bs => Item.beq a b && Item.beqList as bs
  | _, _ => false
end

instance : BEq Item := ⟨Item.beq⟩

def maxElems : Nat := 131072
def maxDepth : Nat := 32

/-! ## heads -/

/-- `k` big-endian bytes of `n` (the low `k` bytes) -/
def beBytes : Nat → Nat → Bytes
  | _, 0 => []
  | n, k + 1 => UInt8.ofNat (n / 256 ^ k) :: beBytes (n % 256 ^ k) k

def beVal (bs : Bytes) : Nat := bs.foldl (fun acc b => acc * 256 + b.toNat) 0

/-- shortest-form head of major type `m` with argument `n < 2^64` -/
def head (m n : Nat) : Bytes :=
  if n < 24 then [UInt8.ofNat (m * 32 + n)]
  else if n < 256 then UInt8.ofNat (m * 32 + 24) :: beBytes n 1
  else if n < 65536 then UInt8.ofNat (m * 32 + 25) :: beBytes n 2
  else if n < 4294967296 then UInt8.ofNat (m * 32 + 26) :: beBytes n 4
  else UInt8.ofNat (m * 32 + 27) :: beBytes n 8

def readBE (k : Nat) (bs : Bytes) : Option (Nat × Bytes) :=
  if bs.length < k then none else some (beVal (bs.take k), bs.drop k)

/-- decoded head: major type, additional information, argument, remaining bytes.
Additional information 28–30 (reserved) and 31 (indefinite length / break) are rejected. -/
def decHead : Bytes → Option (Nat × Nat × Nat × Bytes)
  | [] => none
  | b :: rest =>
    let m := b.toNat / 32
    let ai := b.toNat % 32
    if ai < 24 then some (m, ai, ai, rest)
    else if ai = 24 then (readBE 1 rest).map fun (n, r) => (m, ai, n, r)
    else if ai = 25 then (readBE 2 rest).map fun (n, r) => (m, ai, n, r)
    else if ai = 26 then (readBE 4 rest).map fun (n, r) => (m, ai, n, r)
    else if ai = 27 then (readBE 8 rest).map fun (n, r) => (m, ai, n, r)
    else none

/-! ## encoder -/

mutual
/-- encoding in the order given (no sorting) -/
def encRaw : Item → Bytes
  | .uint n => head 0 n
  | .nint n => head 1 n
  | .bytes b => head 2 b.length ++ b
  | .text b => head 3 b.length ++ b
  | .array xs => head 4 xs.length ++ encList xs
  | .map kvs => head 5 (kvs.length / 2) ++ encList kvs
  | .tag t x => head 6 t ++ encRaw x
  | .simple n => if n < 24 then [UInt8.ofNat (224 + n)] else [248, UInt8.ofNat n]
  | .float w bits =>
    if w = 2 then 249 :: beBytes bits 2
    else if w = 4 then 250 :: beBytes bits 4
    else 251 :: beBytes bits 8
def encList : List Item → Bytes
  | [] => []
  | x :: xs => encRaw x ++ encList xs
end

/-- bytewise lexicographic order (a proper prefix is smaller) -/
def bytesLt : Bytes → Bytes → Bool
  | [], [] => false
  | [], _ :: _ => true
  | _ :: _, [] => false
  | a :: as, b :: bs => if a < b then true else if b < a then false else bytesLt as bs

def pairs : List Item → List (Item × Item)
  | k :: v :: rest => (k, v) :: pairs rest
  | _ => []

def unpairs : List (Item × Item) → List Item
  | [] => []
  | (k, v) :: rest => k :: v :: unpairs rest

def keysOf : List Item → List Item
  | k :: _ :: rest => k :: keysOf rest
  | _ => []

def insertPair (p : Item × Item) : List (Item × Item) → List (Item × Item)
  | [] => [p]
  | q :: rest => if bytesLt (encRaw q.1) (encRaw p.1) then q :: insertPair p rest else p :: q :: rest

def sortPairs : List (Item × Item) → List (Item × Item)
  | [] => []
  | p :: rest => insertPair p (sortPairs rest)

mutual
/-- core-deterministic normal form: every map sorted by the encoded bytes of its keys -/
def canon : Item → Item
  | .array xs => .array (canonList xs)
  | .map kvs => .map (unpairs (sortPairs (pairs (canonList kvs))))
  | .tag t x => .tag t (canon x)
  | x => x
def canonList : List Item → List Item
  | [] => []
  | x :: xs => canon x :: canonList xs
end

/-- the deterministic encoder (what `serde.MarshalCBOR` must produce) -/
def encode (x : Item) : Bytes := encRaw (canon x)

/-- strictly ascending encoded keys -/
def keysAscending : List Item → Bool
  | [] => true
  | [_] => true
  | a :: b :: rest => bytesLt (encRaw a) (encRaw b) && keysAscending (b :: rest)

mutual
/-- maps sorted strictly by encoded key, recursively -/
def isCanon : Item → Bool
  | .array xs => isCanonList xs
  | .map kvs => keysAscending (keysOf kvs) && isCanonList kvs
  | .tag _ x => isCanon x
  | _ => true
def isCanonList : List Item → Bool
  | [] => true
  | x :: xs => isCanon x && isCanonList xs
end

/-- strictly ascending naturals (the order of unsigned-integer map keys in a canonical encoding) -/
def ascNat : List Nat → Bool
  | [] => true
  | [_] => true
  | a :: b :: r => decide (a < b) && ascNat (b :: r)

/-! ## strict decoder -/

def noDup : List Item → Bool
  | [] => true
  | x :: xs => !(xs.contains x) && noDup xs

def noDupKeys (kvs : List Item) : Bool := noDup (keysOf kvs)

/-- the next data item is a tag (major type 6) -/
def nextIsTag : Bytes → Bool
  | [] => false
  | b :: _ => b.toNat / 32 = 6

def isTag : Item → Bool
  | .tag _ _ => true
  | _ => false

mutual
/-- `decItem fuel depth bytes`: one data item and the remaining bytes. `depth` is the number of
array/map levels still allowed. -/
def decItem : Nat → Nat → Bytes → Option (Item × Bytes)
  | 0, _, _ => none
  | f + 1, d, bs =>
    match decHead bs with
    | none => none
    | some (m, ai, n, rest) =>
      if m = 0 then some (.uint n, rest)
      else if m = 1 then some (.nint n, rest)
      else if m = 2 then
        if rest.length < n then none else some (.bytes (rest.take n), rest.drop n)
      else if m = 3 then
        if rest.length < n then none else some (.text (rest.take n), rest.drop n)
      else if m = 4 then
        if d = 0 ∨ maxElems < n then none else
        match decItems f (d - 1) n rest with
        | none => none
        | some (xs, r) => some (.array xs, r)
      else if m = 5 then
        if d = 0 ∨ maxElems < n then none else
        match decItems f (d - 1) (2 * n) rest with
        | none => none
        | some (kvs, r) => if noDupKeys kvs then some (.map kvs, r) else none
      else if m = 6 then
        if n = 2 ∨ n = 3 then none else
        -- fxamacker: every tag of a run of consecutive tags except the first costs one level
        if nextIsTag rest ∧ d = 0 then none else
        match decItem f (if nextIsTag rest then d - 1 else d) rest with
        | none => none
        | some (x, r) => some (.tag n x, r)
      else
        if ai < 24 then some (.simple ai, rest)
        else if ai = 24 then (if n < 32 then none else some (.simple n, rest))
        else if ai = 25 then some (.float 2 n, rest)
        else if ai = 26 then some (.float 4 n, rest)
        else some (.float 8 n, rest)
def decItems : Nat → Nat → Nat → Bytes → Option (List Item × Bytes)
  | _, _, 0, bs => some ([], bs)
  | 0, _, _ + 1, _ => none
  | f + 1, d, n + 1, bs =>
    match decItem f d bs with
    | none => none
    | some (x, r) =>
      match decItems f d n r with
      | none => none
      | some (xs, r') => some (x :: xs, r')
end

/-- strict decoding of a complete byte string: exactly one data item, no trailing bytes -/
def decode (bs : Bytes) : Option Item :=
  match decItem (2 * bs.length + 1) maxDepth bs with
  | some (x, []) => some x
  | _ => none

/-! ## well-formedness of items (what the encoder can represent) -/

def two64 : Nat := 18446744073709551616

mutual
def wf : Item → Bool
  | .uint n => n < two64
  | .nint n => n < two64
  | .bytes b => b.length < two64
  | .text b => b.length < two64
  | .array xs => xs.length ≤ maxElems && wfList xs
  | .map kvs => kvs.length % 2 = 0 && kvs.length / 2 ≤ maxElems && noDupKeys kvs && wfList kvs
  | .tag t x => t < two64 && t ≠ 2 && t ≠ 3 && wf x
  | .simple n => n < 24 || (32 ≤ n && n < 256)
  | .float w bits => (w = 2 || w = 4 || w = 8) && bits < 256 ^ w
def wfList : List Item → Bool
  | [] => true
  | x :: xs => wf x && wfList xs
end

mutual
/-- number of nested array/map levels -/
def depth : Item → Nat
  | .array xs => 1 + depthList xs
  | .map kvs => 1 + depthList kvs
  | .tag _ x => (if isTag x then 1 else 0) + depth x
  | _ => 0
def depthList : List Item → Nat
  | [] => 0
  | x :: xs => max (depth x) (depthList xs)
end

mutual
/-- fuel `decItem` needs for the encoding of an item -/
def need : Item → Nat
  | .array xs => 1 + needList xs
  | .map kvs => 1 + needList kvs
  | .tag _ x => 1 + need x
  | _ => 1
def needList : List Item → Nat
  | [] => 0
  | x :: xs => 1 + max (need x) (needList xs)
end

/-! ## what Go's decoding into `any` adds on top of `decode` (mirrors fxamacker, for the
generic stream only) -/

/-- Go's `utf8.Valid` -/
def utf8Valid : Bytes → Bool
  | [] => true
  | b0 :: rest =>
    let c := b0.toNat
    if c < 0x80 then utf8Valid rest
    else if 0xC2 ≤ c ∧ c ≤ 0xDF then
      match rest with
      | b1 :: r => (0x80 ≤ b1.toNat ∧ b1.toNat ≤ 0xBF) && utf8Valid r
      | _ => false
    else if 0xE0 ≤ c ∧ c ≤ 0xEF then
      match rest with
      | b1 :: b2 :: r =>
        let lo := if c = 0xE0 then 0xA0 else 0x80
        let hi := if c = 0xED then 0x9F else 0xBF
        (lo ≤ b1.toNat ∧ b1.toNat ≤ hi) && (0x80 ≤ b2.toNat ∧ b2.toNat ≤ 0xBF) && utf8Valid r
      | _ => false
    else if 0xF0 ≤ c ∧ c ≤ 0xF4 then
      match rest with
      | b1 :: b2 :: b3 :: r =>
        let lo := if c = 0xF0 then 0x90 else 0x80
        let hi := if c = 0xF4 then 0x8F else 0xBF
        (lo ≤ b1.toNat ∧ b1.toNat ≤ hi) && (0x80 ≤ b2.toNat ∧ b2.toNat ≤ 0xBF)
          && (0x80 ≤ b3.toNat ∧ b3.toNat ≤ 0xBF) && utf8Valid r
      | _ => false
    else false

/-- three-valued prediction for decoding into `any` -/
inductive AnyClass where
  | accept | reject | unknown
  deriving DecidableEq, Repr

def AnyClass.and : AnyClass → AnyClass → AnyClass
  | .reject, _ => .reject
  | _, .reject => .reject
  | .unknown, _ => .unknown
  | _, .unknown => .unknown
  | .accept, .accept => .accept

def floatNanInf (w bits : Nat) : Bool :=
  if w = 2 then (bits / 1024) % 32 = 31
  else if w = 4 then (bits / 8388608) % 256 = 255
  else (bits / 4503599627370496) % 2048 = 2047

/-- how fxamacker treats a map key when the target is `map[any]any` -/
def keyClass : Item → AnyClass
  | .uint _ => .accept
  | .nint n => if n < 9223372036854775808 then .accept else .unknown
  | .text _ => .accept
  | .simple n => if n = 20 ∨ n = 21 then .accept else .unknown
  | .bytes _ => .reject          -- MapKeyByteStringForbidden
  | .array _ => .reject          -- unhashable
  | .map _ => .reject
  | .tag _ _ => .unknown
  | .float _ _ => .unknown

def keysClass : List Item → AnyClass
  | k :: _ :: rest => (keyClass k).and (keysClass rest)
  | _ => .accept

mutual
def anyClass : Item → AnyClass
  | .text b => if utf8Valid b then .accept else .reject
  | .array xs => anyClassList xs
  | .map kvs => (keysClass kvs).and (anyClassList kvs)
  | .tag t x =>
    if t = 0 ∨ t = 1 ∨ (5000 ≤ t ∧ t < 6000) then AnyClass.unknown.and (anyClass x)
    else anyClass x
  | .float w bits => if floatNanInf w bits then .reject else .accept
  | _ => .accept
def anyClassList : List Item → AnyClass
  | [] => .accept
  | x :: xs => (anyClass x).and (anyClassList xs)
end

end BronVerif.Cbor
