/-!
# Session setup (pkg/mpc/session), sub-contexts and pseudorandom zero shares — executable model (core-only)

Byte strings are `List UInt8`.  Hash functions are parameters (`Hashes`): the driver instantiates them
with the executable models of SHA3-512 / cSHAKE256 / keyed BLAKE2b-256 (or, for the commitment, with
the table of the honest run), the theorems quantify over them and carry "no collision among the inputs
that occur" as `Set.InjOn` hypotheses.

The byte layouts mirror, field by field,
* `Participant.Round4` (common seed frame, pairwise seed input),
* `NewContext` (sid / transcript initialisation / seed absorption `le64 min ‖ le64 max ‖ seed`),
* `Context.SubContext` (sorted sub-quorum framing, transcript append, seed re-derivation),
* `hagrid` (`AppendBytes`, `ExtractBytes` framing),
* `przs.SampleZeroShare` (sum over the other parties with the sign chosen by ID order),
* `Participant.Round2/3/4` acceptance (message validation, then openings, in sorted ID order;
  the first offender is blamed).
-/
namespace BronVerif.Session

abbrev Bytes := List UInt8

/-- `k` little-endian bytes of `n` (truncating) -/
def leBytes : Nat → Nat → Bytes
  | 0, _ => []
  | k + 1, n => UInt8.ofNat (n % 256) :: leBytes k (n / 256)

/-- `binary.LittleEndian.AppendUint64` -/
def le64 (n : Nat) : Bytes := leBytes 8 n
/-- `binary.BigEndian.AppendUint64` -/
def be64 (n : Nat) : Bytes := (leBytes 8 n).reverse

def ascii (s : String) : Bytes := s.toList.map fun c => UInt8.ofNat c.toNat

/-- `slices.Sort` on IDs -/
def sortIds (l : List Nat) : List Nat := l.mergeSort (fun a b => decide (a ≤ b))

/-! ## Common seed and session identifier -/

/-- what one party contributed in the two broadcast rounds -/
structure Contribution where
  ck : Bytes    -- commitment key            (Round1Broadcast.Ck, 32 bytes)
  com : Bytes   -- common commitment         (Round1Broadcast.CommonCommitment, 32)
  msg : Bytes   -- common contribution       (Round2Broadcast.CommonContribution, 32)
  wit : Bytes   -- its opening witness       (Round2Broadcast.CommonContributionWitness, 32)
deriving DecidableEq, Repr, Inhabited

def sessionDom : Bytes := ascii "BRON_CRYPTO_SESSION-SESSION"
def seedDom : Bytes := ascii "BRON_CRYPTO_SESSION-SEED"

def entryFrame (e : Nat × Contribution) : Bytes :=
  le64 e.1 ++ (e.2.ck ++ (e.2.com ++ (e.2.msg ++ e.2.wit)))

/-- the byte string `commonSeed` of `Round4` for the given (already ordered) list of parties -/
def commonSeedFrame (es : List (Nat × Contribution)) : Bytes :=
  sessionDom ++ (le64 es.length ++ es.flatMap entryFrame)

/-- `Round4`: iterate over the sorted quorum and look every party's values up -/
def commonSeed (quorum : List Nat) (view : Nat → Contribution) : Bytes :=
  commonSeedFrame ((sortIds quorum).map fun i => (i, view i))

/-- the pairwise seed computed by `me` for peer `other`: the two contributions in ID order -/
def pairSeedInput (common : Bytes) (me other : Nat) (mine theirs : Bytes) : Bytes :=
  if me < other then seedDom ++ (common ++ (mine ++ theirs)) else seedDom ++ (common ++ (theirs ++ mine))

/-- what `NewContext` writes into the cSHAKE of the seed shared with `other` -/
def seedAbsorb (me other : Nat) (pairSeed : Bytes) : Bytes :=
  le64 (min me other) ++ (le64 (max me other) ++ pairSeed)

/-- the hash functions the protocol uses -/
structure Hashes where
  /-- SHA3-512 -/
  h512 : Bytes → Bytes
  /-- cSHAKE256 with empty function name: customisation string, message, output length -/
  xof : Bytes → Bytes → Nat → Bytes

/-- session identifier: the first half of SHA3-512 of the common seed -/
def sidOf (H : Hashes) (common : Bytes) : Bytes := (H.h512 common).take 32
/-- the second half initialises the transcript -/
def tinitOf (H : Hashes) (common : Bytes) : Bytes := (H.h512 common).drop 32

/-! ## hagrid transcript framing -/

def hagridName : Bytes := ascii "BRON_CRYPTO_HAGRID_TRANSCRIPT-"
def transcriptName : Bytes := ascii "BRON_CRYPTO_SETUP_TRANSCRIPT-"
def transcriptInitLabel : Bytes := ascii "BRON_CRYPTO_SETUP_TRANSCRIPT_INIT-"
def seedLabel : Bytes := ascii "BRON_CRYPTO_SETUP_SEED_DOMAIN_SEPARATOR-"
def subQuorumLabel : Bytes := ascii "BRON_CRYPTO_SETUP_SUBQUORUM-"
def subContextLabel : Bytes := ascii "BRON_CRYPTO_SETUP_SUBCONTEXT-"

def appendTag : UInt8 := 0xa2
def extractTag : UInt8 := 0xa3
def extractedTag : UInt8 := 0xa4

/-- bytes written by `AppendBytes(label, msg)` (one message) -/
def tAppend (label msg : Bytes) : Bytes :=
  appendTag :: (be64 label.length ++ (label ++ (be64 1 ++ (be64 msg.length ++ msg))))

/-- everything the clone has absorbed when `ExtractBytes(label, n)` reads from it -/
def tExtractInput (log label : Bytes) (n : Nat) : Bytes :=
  log ++ (extractTag :: (be64 label.length ++ (label ++ (be64 n ++ [extractedTag]))))

def tExtract (H : Hashes) (log label : Bytes) (n : Nat) : Bytes :=
  H.xof (hagridName ++ transcriptName) (tExtractInput log label n) n

/-! ## Contexts -/

/-- state of a pairwise seed reader: customisation string and absorbed bytes; `NewContext` and
`SubContext` have already read 32 dummy bytes, so reading starts at offset 32 -/
structure SeedState where
  label : Bytes
  absorbed : Bytes
deriving DecidableEq, Repr

/-- the first `n` bytes a clone of the reader returns -/
def SeedState.read (H : Hashes) (s : SeedState) (n : Nat) : Bytes :=
  (H.xof s.label s.absorbed (32 + n)).drop 32

structure Ctx where
  sid : Bytes
  holder : Nat
  quorum : List Nat                 -- sorted
  tlog : Bytes                      -- bytes absorbed by the transcript
  seeds : List (Nat × SeedState)    -- per other party, in quorum order
deriving DecidableEq, Repr

/-- `NewContext` -/
def newContext (H : Hashes) (id : Nat) (quorum : List Nat) (common : Bytes) (pairSeed : Nat → Bytes) : Ctx :=
  { sid := sidOf H common
    holder := id
    quorum := sortIds quorum
    tlog := tAppend transcriptInitLabel (tinitOf H common)
    seeds := ((sortIds quorum).filter (· != id)).map fun i => (i, ⟨seedLabel, seedAbsorb id i (pairSeed i)⟩) }

/-- `binary.Write(size) ‖ binary.Write(id)…` over the sorted sub-quorum -/
def subQuorumData (sub : List Nat) : Bytes :=
  le64 (sortIds sub).length ++ (sortIds sub).flatMap le64

def subSeedAbsorb (parent32 : Bytes) (sub : List Nat) : Bytes := parent32 ++ subQuorumData sub

/-- `Context.SubContext` (for a `sub ⊆ quorum` containing the holder) -/
def subContext (H : Hashes) (c : Ctx) (sub : List Nat) : Ctx :=
  { c with
    quorum := sortIds sub
    tlog := c.tlog ++ tAppend subQuorumLabel (subQuorumData sub)
    seeds := ((sortIds sub).filter (· != c.holder)).map fun i =>
      (i, ⟨subContextLabel, subSeedAbsorb (((c.seeds.lookup i).getD ⟨[], []⟩).read H 32) sub⟩) }

/-- the context party `id` obtains from an honest run: `view` = the broadcast contributions,
`contrib a b` = the pairwise contribution `a` sent to `b` -/
def honestContext (H : Hashes) (id : Nat) (quorum : List Nat) (view : Nat → Contribution)
    (contrib : Nat → Nat → Bytes) : Ctx :=
  let common := commonSeed quorum view
  newContext H id quorum common fun other => pairSeedInput common id other (contrib id other) (contrib other id)

/-! ## Pseudorandom zero shares -/

/-- `przs.SampleZeroShare`: fold over the other parties in order; the element shared with a peer of
smaller ID is inverted -/
def zeroShareWith {G : Type} (add : G → G → G) (neg : G → G) (zero : G) (me : Nat) (peers : List (Nat × G)) : G :=
  peers.foldl (fun acc jv => add acc (if jv.1 < me then neg jv.2 else jv.2)) zero

def zeroShare {G : Type} [Add G] [Neg G] [OfNat G 0] (me : Nat) (peers : List (Nat × G)) : G :=
  zeroShareWith (· + ·) (- ·) 0 me peers

/-! ## Acceptance of the setup rounds (identifiable abort) -/

inductive Outcome where
  | ok
  | abortBlame (id : Nat)
deriving DecidableEq, Repr

def Outcome.render : Outcome → String
  | .ok => "ok"
  | .abortBlame i => "abort-blame:" ++ String.ofList (Nat.toDigits 16 i)

/-- the messages as delivered to one recipient (`none`: missing) -/
structure View where
  r1 : Nat → Option (Bytes × Bytes)     -- sender ↦ (ck, common commitment)
  r2b : Nat → Option (Bytes × Bytes)    -- sender ↦ (common contribution, witness)
  r2u : Nat → Option Bytes              -- sender ↦ pairwise commitment
  r3u : Nat → Option (Bytes × Bytes)    -- sender ↦ (pairwise contribution, witness)

/-- fixed-size array equal to its zero value (`Validate` rejects those) -/
def isZeroBytes (b : Bytes) : Bool := b.all (· == 0)

/-- the hard-coded `commonCommitmentKey` -/
def commonKey : Bytes := ascii "BRON_CRYPTO_NOTHING_UP_MY_SLEEVE"

/-- `CommitmentKey.Open`: recompute `C key (msg ‖ wit)` and compare -/
def openOk (C : Bytes → Bytes → Bytes) (key com msg wit : Bytes) : Bool := C key (msg ++ wit) == com

def blameFirst (others : List Nat) (bad : Nat → Bool) : Outcome :=
  match others.find? bad with
  | some i => .abortBlame i
  | none => .ok

def Outcome.andThen (a : Outcome) (b : Outcome) : Outcome :=
  match a with
  | .ok => b
  | o => o

/-- `Round2`: `ValidateIncomingMessages` over the round-1 broadcasts -/
def round2 (others : List Nat) (v : View) : Outcome :=
  blameFirst others fun i => match v.r1 i with
    | none => true
    | some (ck, com) => isZeroBytes com || isZeroBytes ck

def badR2b (v : View) (i : Nat) : Bool := match v.r2b i with
  | none => true
  | some (m, w) => isZeroBytes m || isZeroBytes w

def badR2u (v : View) (i : Nat) : Bool := match v.r2u i with
  | none => true
  | some c => isZeroBytes c

def badCommonOpen (C : Bytes → Bytes → Bytes) (v : View) (i : Nat) : Bool :=
  match v.r1 i, v.r2b i with
  | some (_, com), some (m, w) => !openOk C commonKey com m w
  | _, _ => true

/-- `Round3`: validate broadcasts, validate unicasts, then open every common commitment -/
def round3 (C : Bytes → Bytes → Bytes) (others : List Nat) (v : View) : Outcome :=
  (blameFirst others (badR2b v)).andThen <|
  (blameFirst others (badR2u v)).andThen <|
  blameFirst others (badCommonOpen C v)

def badR3u (v : View) (i : Nat) : Bool := match v.r3u i with
  | none => true
  | some (m, w) => isZeroBytes m || isZeroBytes w

def badPairOpen (C : Bytes → Bytes → Bytes) (myck : Bytes) (v : View) (i : Nat) : Bool :=
  match v.r2u i, v.r3u i with
  | some com, some (m, w) => !openOk C myck com m w
  | _, _ => true

/-- `Round4`: validate unicasts, then open every pairwise commitment under the own key -/
def round4 (C : Bytes → Bytes → Bytes) (myck : Bytes) (others : List Nat) (v : View) : Outcome :=
  (blameFirst others (badR3u v)).andThen <| blameFirst others (badPairOpen C myck v)

/-- the whole setup as the harness runs it: every party executes round 2, 3, 4 on its view; the run
stops after the first round in which somebody aborted.  Result: that round and all outcomes. -/
def runSetup (C : Bytes → Bytes → Bytes) (quorum : List Nat) (myck : Nat → Bytes) (view : Nat → View) :
    Nat × List (Nat × Outcome) :=
  let q := sortIds quorum
  let others (me : Nat) := q.filter (· != me)
  let allOk (os : List (Nat × Outcome)) := os.all fun o => o.2 == .ok
  let o2 := q.map fun me => (me, round2 (others me) (view me))
  if !allOk o2 then (2, o2) else
  let o3 := q.map fun me => (me, round3 C (others me) (view me))
  if !allOk o3 then (3, o3) else
  (4, q.map fun me => (me, round4 C (myck me) (others me) (view me)))

end BronVerif.Session
