import BronVerif.Model.Util
/-!
# `Fp p` — executable prime-field model (core-only)

`Fp p` is a copy of `Fin p`; arithmetic is `Nat` arithmetic reduced mod `p` (GMP backed in
compiled code).  The inverse is Fermat's `a^(p-2)` (with `0⁻¹ = 0`), square roots by
Tonelli–Shanks.  `Lemmas/FpField.lean` proves that for prime `p` these operations form a
`Field`, so every theorem stated for an arbitrary Mathlib `[Field F]` applies to what the
driver executes.
-/
namespace BronVerif

def Fp (p : Nat) := Fin p

namespace Fp
variable {p : Nat}

instance : DecidableEq (Fp p) := inferInstanceAs (DecidableEq (Fin p))

def val (a : Fp p) : Nat := Fin.val a

def ofNat (p : Nat) [NeZero p] (n : Nat) : Fp p := Fin.ofNat p n

def ofInt (p : Nat) [NeZero p] (i : Int) : Fp p := Fin.ofNat p (i % (p : Int)).toNat

instance [NeZero p] {n : Nat} : OfNat (Fp p) n := ⟨ofNat p n⟩

instance : Add (Fp p) := ⟨fun a b => Fin.add a b⟩
instance : Mul (Fp p) := ⟨fun a b => Fin.mul a b⟩
instance : Sub (Fp p) := ⟨fun a b => Fin.sub a b⟩
instance [NeZero p] : Neg (Fp p) := ⟨fun a => Fin.sub (Fin.ofNat p 0) a⟩

/-- square-and-multiply on the binary expansion of `e` (structural on fuel = bit length) -/
def powAux [NeZero p] : Nat → Fp p → Nat → Fp p → Fp p
  | 0, _, _, acc => acc
  | fuel + 1, b, e, acc =>
    if e = 0 then acc
    else powAux fuel (b * b) (e / 2) (if e % 2 = 1 then acc * b else acc)

def pow [NeZero p] (a : Fp p) (e : Nat) : Fp p := powAux (e.log2 + 1) a e (ofNat p 1)

def inv [NeZero p] (a : Fp p) : Fp p := if a.val = 0 then ofNat p 0 else pow a (p - 2)

instance [NeZero p] : Inv (Fp p) := ⟨inv⟩
instance [NeZero p] : Div (Fp p) := ⟨fun a b => a * inv b⟩

def isZero (a : Fp p) : Bool := a.val == 0

def toHex (a : Fp p) : String := natToHex a.val

/-- Euler criterion: `a` is a non-zero square mod the odd prime `p` -/
def isSquare [NeZero p] (a : Fp p) : Bool := a.val == 0 || (pow a ((p - 1) / 2)).val == 1

/-- Tonelli–Shanks; returns some root when `a` is a square modulo the odd prime `p` -/
def sqrt? [NeZero p] (a : Fp p) : Option (Fp p) :=
  if a.val = 0 then some a else
  if p = 2 then some a else
  if !(isSquare a) then none else
  if p % 4 = 3 then some (pow a ((p + 1) / 4)) else Id.run do
    -- p - 1 = q * 2^s
    let mut q := p - 1
    let mut s := 0
    while q % 2 = 0 do
      q := q / 2
      s := s + 1
    -- find a non-residue z
    let mut zn := 2
    while isSquare (ofNat p zn) do
      zn := zn + 1
    let mut m := s
    let mut c := pow (ofNat p zn) q
    let mut t := pow a q
    let mut r := pow a ((q + 1) / 2)
    let mut fuel := s * s + 2
    while t.val ≠ 1 ∧ fuel > 0 do
      fuel := fuel - 1
      -- least i with t^(2^i) = 1
      let mut i := 0
      let mut tt := t
      while tt.val ≠ 1 ∧ i < m do
        tt := tt * tt
        i := i + 1
      let b := pow c (2 ^ (m - i - 1))
      m := i
      c := b * b
      t := t * c
      r := r * b
    return some r

end Fp
end BronVerif
