import BronVerif.Model.Util
/-!
# Consumption specification: how much randomness a protocol step must draw (property C07)

Core-only executable model used by `Model/Joint.lean`, `Drive/C07.lean` and `Props/C07.lean`.

The first sentence of the property — *every secret a protocol samples is drawn from the random source
the caller supplied to that party* — is made checkable per party and per executed step (constructor,
round 1, round 2, …): the harness wraps every party's reader in a recorder and reports the multiset of
`Read` sizes of each step; the model states which secrets the step must produce as a function of the
configuration (number of peers, MSP columns, OT batch sizes):

* `Draw.size`  bytes the library reads for one such secret (the *mirror*: a different multiset of reads
  is a correspondence failure, not by itself a violation);
* `Draw.min`   bytes of entropy ANY implementation has to read for it (a 256-bit scalar cannot come out
  of fewer than 32 bytes; `0` for draws whose value is discarded or need not be random).  A step that
  reads fewer bytes in total than `Σ count·min` cannot have drawn all its secrets from the stream
  independently: that is a violation of the property itself;
* `Draw.lower` the library uses rejection sampling there: `size` is only a lower bound.

A step's need is split into the part made **once** and the part made **once per peer**
(`StepNeed.perPeer`, scaled by the number of peers): a per-peer draw that is hoisted out of its loop
keeps the `once` part but loses `(peers − 1)` copies of the per-peer part.
-/
namespace BronVerif.Draws

/-- one kind of secret a step draws -/
structure Draw where
  what : String
  count : Nat
  /-- bytes the library reads per draw -/
  size : Nat
  /-- bytes of entropy any implementation must read per draw -/
  min : Nat
  /-- rejection sampling: `size` is a lower bound per draw -/
  lower : Bool := false
  deriving Repr, DecidableEq

/-- what one executed step of one party must draw -/
structure StepNeed where
  once : List Draw := []
  perPeer : List Draw := []
  deriving Repr

def Draw.scale (k : Nat) (d : Draw) : Draw := { d with count := k * d.count }

/-- all draws of a step for a party with `peers` peers -/
def StepNeed.draws (s : StepNeed) (peers : Nat) : List Draw := s.once ++ s.perPeer.map (Draw.scale peers)

def sumNat (xs : List Nat) : Nat := xs.foldr (· + ·) 0

/-- entropy bytes a list of draws needs at least -/
def minBytes (ds : List Draw) : Nat := sumNat (ds.map fun d => d.count * d.min)

/-- bytes the library reads for a list of draws (a lower bound where `lower` is set) -/
def exactBytes (ds : List Draw) : Nat := sumNat (ds.map fun d => d.count * d.size)

/-- every draw reads at least its entropy -/
def wellFormed (ds : List Draw) : Bool := ds.all fun d => d.min ≤ d.size

/-- an observed multiset of reads: `(size, how many)` sorted by size -/
abbrev Obs := List (Nat × Nat)

def obsBytes (o : Obs) : Nat := sumNat (o.map fun sc => sc.1 * sc.2)

/-- insert `count` reads of `size` into a multiset sorted by size -/
def Obs.add (size count : Nat) : Obs → Obs
  | [] => if count == 0 then [] else [(size, count)]
  | (s, c) :: rest =>
    if count == 0 then (s, c) :: rest
    else if size < s then (size, count) :: (s, c) :: rest
    else if size == s then (s, c + count) :: rest
    else (s, c) :: Obs.add size count rest

/-- the multiset of reads the library is expected to make -/
def expected (ds : List Draw) : Obs := ds.foldl (fun acc d => if d.size == 0 then acc else Obs.add d.size d.count acc) []

def Obs.render (o : Obs) : String :=
  if o.isEmpty then "0" else "+".intercalate (o.map fun sc => s!"{sc.1}x{sc.2}")

/-- `32x3+48x2` / `0` -/
def Obs.parse? (s : String) : Option Obs :=
  if s == "0" then some [] else
  (s.splitOn "+").mapM fun it =>
    match it.splitOn "x" with
    | [a, b] => match a.toNat?, b.toNat? with
      | some a, some b => some (a, b)
      | _, _ => none
    | _ => none

inductive StepVerdict where
  | ok
  /-- fewer bytes than the entropy of the secrets of the step: the property is violated -/
  | below (min observed : Nat)
  /-- the library's reads differ from the mirror (but the entropy bound holds) -/
  | differs (expected : String)
  deriving Repr, DecidableEq

/-- judge the observed reads of one step against its need -/
def judgeStep (need : List Draw) (obs : Obs) : StepVerdict :=
  if obsBytes obs < minBytes need then .below (minBytes need) (obsBytes obs)
  else if need.any (·.lower) then
    (if obsBytes obs < exactBytes need then .differs ("at-least-" ++ toString (exactBytes need) ++ "-bytes") else .ok)
  else if expected need == obs then .ok
  else .differs (expected need).render

/-! ## The round function of the model: taking the draws out of a stream -/

/-- cut consecutive chunks of the given sizes from a byte stream; `none` when the stream is too short -/
def takeDraws : List Nat → List Nat → Option (List (List Nat) × List Nat)
  | [], stream => some ([], stream)
  | n :: sizes, stream =>
    if stream.length < n then none else
    match takeDraws sizes (stream.drop n) with
    | some (chunks, rest) => some (stream.take n :: chunks, rest)
    | none => none

/-- the sizes of the individual reads of a list of draws, in order -/
def readSizes (ds : List Draw) : List Nat := ds.flatMap fun d => List.replicate d.count d.size

/-- session setup, round 2, as a function of the party's stream: for every peer (in order) a 32-byte
    contribution and a 32-byte commitment witness, each a fresh consecutive chunk of the stream.
    Returns what is later opened to each peer `(peer, contribution, witness)` and the remaining stream. -/
def sessionRound2 (peers : List Nat) (stream : List Nat) : Option (List (Nat × List Nat × List Nat) × List Nat) :=
  match peers with
  | [] => some ([], stream)
  | p :: ps =>
    if stream.length < 64 then none else
    match sessionRound2 ps (stream.drop 64) with
    | some (out, rest) => some ((p, stream.take 32, (stream.drop 32).take 32) :: out, rest)
    | none => none

/-- loop of `sessionRound2Hoisted`: only the witness is fresh per peer -/
def sessionRound2HoistedLoop (contribution : List Nat) : List Nat → List Nat → Option (List (Nat × List Nat × List Nat) × List Nat)
  | [], s => some ([], s)
  | p :: ps, s =>
    if s.length < 32 then none else
    match sessionRound2HoistedLoop contribution ps (s.drop 32) with
    | some (out, rest) => some ((p, contribution, s.take 32) :: out, rest)
    | none => none

/-- the same round with the contribution sampled ONCE above the loop (the shape of the defect the
    consumption and distinctness oracles exist for): used only to show that the oracles separate it -/
def sessionRound2Hoisted (peers : List Nat) (stream : List Nat) : Option (List (Nat × List Nat × List Nat) × List Nat) :=
  if stream.length < 32 then none else
  sessionRound2HoistedLoop (stream.take 32) peers (stream.drop 32)

end BronVerif.Draws
