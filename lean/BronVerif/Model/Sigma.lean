/-!
# Sigma protocols (core-only executable model)

* `Grp α`: the operations of a (multiplicatively written) group as *data*, so that the driver can
  instantiate them with curve points / scalars mod `q` / products, and `Lemmas/Sigma.lean` with any
  Mathlib `CommGroup` (`Grp.ofGroup`).
* `Maurer`: the generic one-way-homomorphism protocol of `pkg/proofs/internal/meta/maurer09`
  (`commit`, `respond`, `verify`, `simulate`, `extract` mirror `ComputeProverCommitment`,
  `ComputeProverResponse`, `Verify`, `RunSimulator`, `Extract` statement for statement).
* batch Schnorr (`pkg/proofs/dlog/batch_schnorr`), AND / OR composition (`sigand`, `sigor`),
* the non-interactive compilers as functions of an abstract challenge oracle: Fiat–Shamir
  (`fsVerify`), Fischlin / randomised Fischlin (`fischlinVerify`), and the commit-then-open of the
  interactive ZK compiler (`zkRound4`).
-/
namespace BronVerif.Sigma

/-- group operations as data -/
structure Grp (α : Type) where
  one : α
  mul : α → α → α
  inv : α → α
  pow : α → Nat → α

namespace Grp
variable {α : Type}

/-- integer power as `preImageScalarMulI` computes it: `|k|`-th power of `a` or of `a⁻¹` -/
def zpow (G : Grp α) (a : α) (k : Int) : α :=
  if k < 0 then G.pow (G.inv a) k.natAbs else G.pow a k.natAbs

/-- product of a list -/
def prod (G : Grp α) (xs : List α) : α := xs.foldr G.mul G.one

/-- direct product of two groups -/
def prodGrp {β : Type} (G : Grp α) (K : Grp β) : Grp (α × β) where
  one := (G.one, K.one)
  mul a b := (G.mul a.1 b.1, K.mul a.2 b.2)
  inv a := (G.inv a.1, K.inv a.2)
  pow a n := (G.pow a.1 n, K.pow a.2 n)

/-- direct power (lists of equal length, component-wise) -/
def listGrp (G : Grp α) (n : Nat) : Grp (List α) where
  one := List.replicate n G.one
  mul a b := List.zipWith G.mul a b
  inv a := a.map G.inv
  pow a k := a.map (G.pow · k)

/-- the additive group of integers modulo `q` written multiplicatively (`pow a n = n·a`) -/
def zmod (q : Nat) : Grp Nat where
  one := 0
  mul a b := (a + b) % q
  inv a := (q - a % q) % q
  pow a n := (a * n) % q

end Grp

/-! ## Extended Euclid on integers (used by the extractor; its output is *checked*, not trusted) -/

def xgcdAux : Nat → Int → Int → Int → Int → Int → Int → Int × Int × Int
  | 0, r0, s0, t0, _, _, _ => (r0, s0, t0)
  | fuel + 1, r0, s0, t0, r1, s1, t1 =>
    if r1 = 0 then (r0, s0, t0)
    else
      let q := r0 / r1
      xgcdAux fuel r1 s1 t1 (r0 - q * r1) (s0 - q * s1) (t0 - q * t1)

/-- `(g, α, β)` with `α·a + β·b = g` and `g ≥ 0` -/
def xgcd (a b : Int) : Int × Int × Int :=
  let r := xgcdAux (2 * (a.natAbs.log2 + b.natAbs.log2) + 4) a 1 0 b 0 1
  if r.1 < 0 then (-r.1, -r.2.1, -r.2.2) else r

/-! ## The generic Maurer protocol -/

structure Maurer (H G : Type) where
  dom : Grp H
  cod : Grp G
  phi : H → G
  /-- anchor: `phi (u x) = x ^ ell` -/
  ell : Int
  u : G → H

namespace Maurer
variable {H G : Type} [DecidableEq G] (P : Maurer H G)

def commit (s : H) : G := P.phi s

/-- `z = s · w^e` -/
def respond (w s : H) (e : Nat) : H := P.dom.mul s (P.dom.pow w e)

/-- `phi z = a · x^e` -/
def verify (x a : G) (e : Nat) (z : H) : Bool := P.phi z == P.cod.mul a (P.cod.pow x e)

/-- simulator: for a chosen response `z`, `a = phi z · (x⁻¹)^e` -/
def simulate (x : G) (e : Nat) (z : H) : G := P.cod.mul (P.phi z) (P.cod.pow (P.cod.inv x) e)

/-- the witness computed from Bézout coefficients: `u(x)^α · (z₂⁻¹ z₁)^β` -/
def extractWith (x : G) (z₁ z₂ : H) (α β : Int) : H :=
  P.dom.mul (P.dom.zpow (P.u x) α) (P.dom.zpow (P.dom.mul (P.dom.inv z₂) z₁) β)

/-- `Extract`: both transcripts must verify, `gcd(ℓ, e₁-e₂) = 1` (checked through the Bézout
identity of the computed coefficients) -/
def extract (x a : G) (e₁ e₂ : Nat) (z₁ z₂ : H) : Option H :=
  if P.verify x a e₁ z₁ && P.verify x a e₂ z₂ then
    let d : Int := (e₁ : Int) - (e₂ : Int)
    let r := xgcd P.ell d
    if r.2.1 * P.ell + r.2.2 * d = 1 then some (P.extractWith x z₁ z₂ r.2.1 r.2.2) else none
  else none

end Maurer

/-! ### Instances used by the library -/

/-- Schnorr: `phi s = g^s`, scalars modulo the group order `q`, anchor `(q, 0)` -/
def schnorr {G : Type} (cod : Grp G) (q : Nat) (g : G) : Maurer Nat G where
  dom := Grp.zmod q
  cod := cod
  phi s := cod.pow g s
  ell := q
  u _ := 0

/-- Okamoto: `phi (s₁,…,s_m) = ∏ gᵢ^{sᵢ}` -/
def okamoto {G : Type} (cod : Grp G) (q : Nat) (gs : List G) : Maurer (List Nat) G where
  dom := (Grp.zmod q).listGrp gs.length
  cod := cod
  phi s := cod.prod (List.zipWith cod.pow gs s)
  ell := q
  u _ := List.replicate gs.length 0

/-- ElGamal commitment opening (`elcomop`): `phi (M, λ) = (g^λ, M · pk^λ)` -/
def elcomop {G : Type} (cod : Grp G) (q : Nat) (g pk : G) : Maurer (G × Nat) (G × G) where
  dom := cod.prodGrp (Grp.zmod q)
  cod := cod.prodGrp cod
  phi w := (cod.pow g w.2, cod.mul w.1 (cod.pow pk w.2))
  ell := q
  u _ := (cod.one, 0)

def powModAux (m : Nat) : Nat → Nat → Nat → Nat → Nat
  | 0, _, _, acc => acc
  | fuel + 1, b, k, acc =>
    if k = 0 then acc
    else powModAux m fuel ((b * b) % m) (k / 2) (if k % 2 = 1 then (acc * b) % m else acc)

/-- `a^n mod m` by square-and-multiply -/
def powMod (m a n : Nat) : Nat := powModAux m (n.log2 + 1) (a % m) n (1 % m)

/-- residues modulo `m` under multiplication (`inv` of a unit through extended Euclid) -/
def residues (m : Nat) : Grp Nat where
  one := 1 % m
  mul a b := (a * b) % m
  inv a := ((xgcd (a % m) m).2.1 % (m : Int)).toNat
  pow a n := powMod m a n

/-- Paillier n-th root (`pkg/proofs/paillier/nthroot`): `phi r = r^N mod N²` -/
def nthroot (n : Nat) : Maurer Nat Nat where
  dom := residues (n * n)
  cod := residues (n * n)
  phi r := powMod (n * n) r n
  ell := n
  u x := x % (n * n)

/-! ## Batch Schnorr -/

/-- Horner evaluation in the exponent: `c₀ · (c₁ · (c₂ · …)^e)^e` = `∏ cᵢ^{eⁱ}` -/
def polyEvalExp {G : Type} (cod : Grp G) (cs : List G) (e : Nat) : G :=
  cs.foldr (fun c acc => cod.mul c (cod.pow acc e)) cod.one

/-- `g^z = a · ∏ᵢ xᵢ^{e^i}` (i = 1..k) -/
def batchVerify {G : Type} [DecidableEq G] (cod : Grp G) (g : G) (xs : List G) (a : G) (e z : Nat) : Bool :=
  cod.pow g z == polyEvalExp cod (a :: xs) e

/-- `z = s + Σ wᵢ e^i mod q` (Horner) -/
def batchRespond (q : Nat) (ws : List Nat) (s e : Nat) : Nat :=
  (s :: ws).foldr (fun c acc => (c + acc * e) % q) 0

/-- the verifier of the protocol configured for `k` statements (`len(statement.Xs) != p.k` ⇒ reject) -/
def batchVerifyK {G : Type} [DecidableEq G] (k : Nat) (cod : Grp G) (g : G) (xs : List G) (a : G) (e z : Nat) : Bool :=
  xs.length == k && batchVerify cod g xs a e z

/-! ## AND / OR composition -/

/-- AND: the same challenge for every branch -/
def andVerify {X A Z : Type} (verify : X → A → Nat → Z → Bool) (xs : List X) (as : List A) (e : Nat) (zs : List Z) : Bool :=
  xs.length == as.length && xs.length == zs.length &&
    (List.zip xs (List.zip as zs)).all fun t => verify t.1 t.2.1 e t.2.2

def xorAll (es : List Nat) : Nat := es.foldl Nat.xor 0

/-- OR: the branch challenges XOR to the challenge and every branch verifies under its own -/
def orVerify {X A Z : Type} (verify : X → A → Nat → Z → Bool) (xs : List X) (as : List A) (e : Nat)
    (es : List Nat) (zs : List Z) : Bool :=
  xs.length == as.length && xs.length == zs.length && xs.length == es.length && xorAll es == e &&
    (List.zip xs (List.zip as (List.zip es zs))).all fun t => verify t.1 t.2.1 t.2.2.1 t.2.2.2

/-- AND configured for `n` branches (`sigand.Compose(p, n)`): statement, commitment and response must
each have exactly `n` components -/
def andVerifyN {X A Z : Type} (n : Nat) (verify : X → A → Nat → Z → Bool) (xs : List X) (as : List A) (e : Nat)
    (zs : List Z) : Bool :=
  xs.length == n && andVerify verify xs as e zs

/-- OR configured for `n` branches (`sigor.Compose(p, n)`) -/
def orVerifyN {X A Z : Type} (n : Nat) (verify : X → A → Nat → Z → Bool) (xs : List X) (as : List A) (e : Nat)
    (es : List Nat) (zs : List Z) : Bool :=
  xs.length == n && orVerify verify xs as e es zs

/-! ## Compilers -/

/-- Fiat–Shamir verifier (`zkmodule.Verify`): the challenge in the proof must equal the oracle's
answer on the framed (history, statement, commitment), and the sigma verifier must accept -/
def fsVerify {Hst X A E Z I : Type} [DecidableEq E] (chal : I → E) (frame : Hst → X → A → I)
    (verify : X → A → E → Z → Bool) (h : Hst) (x : X) (π : A × E × Z) : Bool :=
  π.2.1 == chal (frame h x π.1) && verify x π.1 π.2.1 π.2.2

/-- Fiat–Shamir prover (`zkmodule.Prove`) for commitment `a`, with response function `respond` -/
def fsProve {Hst X A E Z I : Type} (chal : I → E) (frame : Hst → X → A → I)
    (respond : E → Z) (h : Hst) (x : X) (a : A) : A × E × Z :=
  let e := chal (frame h x a)
  (a, e, respond e)

/-- indices 0..n-1 paired with the list -/
def withIdx {α : Type} (xs : List α) : List (Nat × α) := List.zip (List.range xs.length) xs

/-- Fischlin / randomised Fischlin verifier: exactly `ρ` repetitions, each meeting the hash target
under the common value derived from the framed (history, statement, all commitments), each a valid
sigma transcript -/
def fischlinVerify {Hst X A E Z C : Type} (ρ : Nat) (common : Hst → X → List A → C)
    (target : C → Nat → E → Z → Bool) (verify : X → A → E → Z → Bool)
    (h : Hst) (x : X) (π : List (A × E × Z)) : Bool :=
  π.length == ρ &&
    ((withIdx π).all fun t => target (common h x (π.map (·.1))) t.1 t.2.2.1 t.2.2.2) &&
    (π.all fun t => verify x t.1 t.2.1 t.2.2)

/-- `⌈log₂ n⌉` (0 for `n ≤ 1`) -/
def ceilLog2 (n : Nat) : Nat := if n ≤ 1 then 0 else (n - 1).log2 + 1

/-- the parameters `(ρ, b, t)` the Fischlin compiler is specified to use for a protocol with special
soundness `ss` (`ρ = 32` for the Paillier n-th-root proof, `16` otherwise):
`b = ⌈128/ρ⌉ + ⌈log₂(ss − 1)⌉`, `t = b + 5` (`b + 6` when `ρ > 64`) -/
def fischlinSpec (nthroot : Bool) (ss : Nat) : Nat × Nat × Nat :=
  let ρ := if nthroot then 32 else 16
  let b := (128 + ρ - 1) / ρ + ceilLog2 (ss - 1)
  (ρ, b, if ρ > 64 then b + 6 else b + 5)

/-- the parameters of randomised Fischlin: `R = λ / L` repetitions of an `L`-bit hash target,
challenges of `T = ⌈log₂ λ⌉ · L` bits -/
def randFischlinSpec (lam l : Nat) : Nat × Nat := (lam / l, ceilLog2 lam * l)

/-- interactive ZK compiler, prover round 4: respond only if the verifier's opening of its
challenge commitment is valid under the transcript-derived key -/
def zkRound4 {K C E R Z : Type} (openC : K → C → E → R → Bool) (respond : E → Z)
    (ck : K) (c : C) (e : E) (r : R) : Option Z :=
  if openC ck c e r then some (respond e) else none

end BronVerif.Sigma
