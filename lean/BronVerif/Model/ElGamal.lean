/-!
# ElGamal over an arbitrary group (core-only executable model)

The group is passed as an explicit record of operations (written multiplicatively) so that the
driver can instantiate it with the runtime curve arithmetic of `Model/Curves.lean` and the theorem
file with any Mathlib `CommGroup`.

A ciphertext is the pair `(g^r, m · h^r)`; the public key is `h = g^a`.
-/
namespace BronVerif.ElGamal

structure Ops (G : Type) where
  mul : G → G → G
  inv : G → G
  pow : G → Nat → G

variable {G : Type} (o : Ops G)

/-- public key of the secret exponent `a` -/
def pub (g : G) (a : Nat) : G := o.pow g a

/-- `Enc(m; r) = (g^r, m · h^r)` -/
def enc (g h m : G) (r : Nat) : G × G := (o.pow g r, o.mul m (o.pow h r))

/-- `Dec(c₁, c₂) = c₂ · (c₁^a)⁻¹` -/
def dec (a : Nat) (c : G × G) : G := o.mul c.2 (o.inv (o.pow c.1 a))

/-- component-wise product of ciphertexts -/
def ctOp (c d : G × G) : G × G := (o.mul c.1 d.1, o.mul c.2 d.2)

def ctInv (c : G × G) : G × G := (o.inv c.1, o.inv c.2)

def ctScalar (c : G × G) (k : Nat) : G × G := (o.pow c.1 k, o.pow c.2 k)

/-- `IdentityNoise(s) = (g^s, h^s)`; re-randomisation multiplies by it -/
def rerand (g h : G) (c : G × G) (s : Nat) : G × G := (o.mul c.1 (o.pow g s), o.mul c.2 (o.pow h s))

/-- the secret-key fast path of `IdentityNoise`: `(g^s, g^(s·a mod n))` -/
def rerandSk (g : G) (n a : Nat) (c : G × G) (s : Nat) : G × G :=
  (o.mul c.1 (o.pow g s), o.mul c.2 (o.pow g (s * a % n)))

/-- `Shift(c, d) = (c₁, c₂ · d)` -/
def shift (c : G × G) (d : G) : G × G := (c.1, o.mul c.2 d)

end BronVerif.ElGamal
