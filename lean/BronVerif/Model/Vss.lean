import BronVerif.Model.LinAlg
/-!
# Feldman / Pedersen verifiable secret sharing over an MSP (core-only model)

Mirrors `pkg/mpc/sharing/vss/feldman` and `pkg/mpc/sharing/vss/pedersen`:

* an MSP is a matrix `M` (list of rows) with a label (holder ID) per row; the share of holder
  `id` is the sub-vector of `λ = M · r` at the rows labelled `id`, in ascending row order
  (`kw.DealerFunc.ShareOf`);
* the verification vector is `V = r • g` (`mat.Lift`), Pedersen: `V = r_g • g + r_h • h`;
* `Scheme.Verify` computes `M_id · V` by the left action of the holder's rows on the column `V`
  (`NewLiftedDealerFunc` → `mat.LeftAction`, which rejects when the number of columns of `M`
  differs from the length of `V`), and compares with the manually lifted share `s • g`
  (`LiftShare`), lengths included (`LiftedShare.Equal`);
* `VerificationVector.Op` adds entrywise and rejects different lengths;
* `ReconstructInTheExponent` is `Σ cᵢ • Λᵢ` over the rows of the presented holders with the
  reconstruction vector `c` (`c · M_S = e₀`, found by `SolveLeft`).

Everything is generic over the core notation classes so that the driver instantiates it with
`Fp n` and runtime curve points, and `Props/C05.lean` with a Mathlib field and module.
-/
namespace BronVerif.Vss
open BronVerif.LinAlg

variable {F : Type} [Add F] [Mul F] [Sub F] [Neg F] [Inv F] [OfNat F 0] [OfNat F 1] [DecidableEq F]

/-- the entries of `xs` whose row label is `id`, in ascending row order -/
def pick {α : Type} (labels : List Nat) (id : Nat) (xs : List α) : List α :=
  ((labels.zip xs).filter (fun p => p.1 == id)).map (·.2)

/-- `DealerFunc.ShareOf`: holder `id`'s part of `λ = M · r` -/
def shareOf (M : Mat F) (labels : List Nat) (r : List F) (id : Nat) : List F :=
  pick labels id (mulVec M r)

/-- sorted, duplicate-free list of the holders that occur as labels -/
def holders (labels : List Nat) : List Nat :=
  let rec ins (x : Nat) : List Nat → List Nat
    | [] => [x]
    | y :: ys => if x < y then x :: y :: ys else if x = y then y :: ys else y :: ins x ys
  labels.foldl (fun acc x => ins x acc) []

section Group
variable {G : Type} [Add G] [OfNat G 0] [HSMul F G G] [DecidableEq G]

/-- `mat.Lift` of a column: `V = r • g` -/
def liftColumn (r : List F) (g : G) : List G := r.map (· • g)

/-- a list of points as a column matrix -/
def asColumn (V : List G) : List (List G) := V.map fun P => [P]

/-- `mat.LeftAction actor V` for a column `V`, read back as a list: `(actor · V)ᵢ = Σₖ actorᵢₖ • Vₖ` -/
def actOnColumn (actor : Mat F) (V : List G) : List G :=
  (leftAction actor (asColumn V)).map (·.headD 0)

/-- pointwise comparison `sᵢ • g = Λᵢ`, lengths included; stops at the first difference -/
def liftedEq (g : G) : List F → List G → Bool
  | [], [] => true
  | s :: ss, P :: Ps => (s • g == P) && liftedEq g ss Ps
  | _, _ => false

/-- `feldman.Scheme.Verify`: dimension check of the left action, membership of the holder,
then `LiftShare(share) = (M_id · V)` -/
def feldmanVerify (M : Mat F) (labels : List Nat) (V : List G) (g : G) (id : Nat) (s : List F) : Bool :=
  numCols M == V.length && labels.contains id &&
    liftedEq g s (actOnColumn (pick labels id M) V)

/-- `feldman.NewVerificationVector(value, msp)`: length must equal the MSP column count -/
def vvLenOk (M : Mat F) (V : List G) : Bool := numCols M == V.length

/-- `VerificationVector.Op`: entrywise sum, rejected when the lengths differ -/
def vvOp (V W : List G) : Option (List G) :=
  if V.length = W.length then some (List.zipWith (· + ·) V W) else none

/-- `kw.Share.Add` (same holder): entrywise sum -/
def shareAdd (s t : List F) : List F := List.zipWith (· + ·) s t

/-- the public (lifted) share of a holder: `LiftedDealerFunc.ShareOf` -/
def liftedShareOf (M : Mat F) (labels : List Nat) (V : List G) (id : Nat) : List G :=
  actOnColumn (pick labels id M) V

/-- rows of `xs` whose label is one of `ids`, ascending row order (`MSP.selectedRows`) -/
def pickSet {α : Type} (labels : List Nat) (ids : List Nat) (xs : List α) : List α :=
  ((labels.zip xs).filter (fun p => ids.contains p.1)).map (·.2)

/-- standard unit row vector `e₀` of length `n` (the MSP target) -/
def e0 (n : Nat) : List F := (List.range n).map fun j => if j = 0 then (1 : F) else 0

/-- `MSP.ReconstructionVector`: `c` with `c · M_S = e₀`, `none` when the set is unqualified or
an ID is unknown -/
def reconVector (M : Mat F) (labels : List Nat) (ids : List Nat) : Option (List F) :=
  if ids.isEmpty || !(ids.all labels.contains) then none
  else solveLeft (pickSet labels ids M) (numCols M) (e0 (numCols M))

/-- `Scheme.ReconstructInTheExponent` on the lifted shares `Λ_S` of the holders `ids` -/
def reconstructInExponent (M : Mat F) (labels : List Nat) (ids : List Nat) (lam : List G) : Option G :=
  (reconVector M labels ids).map fun c => gdot c lam

/-- `kw.Scheme.Reconstruct` on the scalar shares (concatenated in row order) -/
def reconstruct (M : Mat F) (labels : List Nat) (ids : List Nat) (lam : List F) : Option F :=
  (reconVector M labels ids).map fun c => dot c lam

/-- `LiftedDealerFunc.LiftedSecret`: `e₀ · V` -/
def liftedSecret (M : Mat F) (V : List G) : G :=
  (actOnColumn [e0 (F := F) (numCols M)] V).headD 0

/-- `pedersen.LiftShare` + `Equal`: `sᵢ • g + bᵢ • h = Λᵢ` pointwise, lengths included -/
def pedersenLiftedEq (g h : G) : List F → List F → List G → Bool
  | [], [], [] => true
  | s :: ss, b :: bs, P :: Ps => (s • g + b • h == P) && pedersenLiftedEq g h ss bs Ps
  | _, _, _ => false

/-- `pedersen.Scheme.Verify` -/
def pedersenVerify (M : Mat F) (labels : List Nat) (V : List G) (g h : G) (id : Nat)
    (s b : List F) : Bool :=
  numCols M == V.length && labels.contains id &&
    pedersenLiftedEq g h s b (actOnColumn (pick labels id M) V)

/-- Pedersen verification vector `V = r_g • g + r_h • h` -/
def pedersenColumn (rg rh : List F) (g h : G) : List G :=
  List.zipWith (fun a b => a • g + b • h) rg rh

/-! ### Objects with a history

The library's `VerificationVector` is a mutable object: `Value()` hands out the matrix (in-place
setters), `UnmarshalCBOR` overwrites a used object.  `VVObject` is such an object *with everything
that happened to it*; verification of an object is by definition verification of the value it
holds now.  The `@reuse` lines of the C05 stream are checked against exactly this: the driver
gets the current value only and answers as for a fresh object. -/

/-- a verification-vector object: the value it holds now and the values it held (and was used
with) before -/
structure VVObject (G : Type) where
  value : List G
  history : List (List G)

/-- a freshly built object -/
def VVObject.fresh (V : List G) : VVObject G := ⟨V, []⟩

/-- any in-place change (`SetAssign`, `OpAssign`, `UnmarshalCBOR`, …): the new value replaces
the old one, which moves to the history -/
def VVObject.update (o : VVObject G) (V : List G) : VVObject G := ⟨V, o.value :: o.history⟩

/-- `Scheme.Verify` on an object -/
def feldmanVerifyObject (M : Mat F) (labels : List Nat) (o : VVObject G) (g : G) (id : Nat)
    (s : List F) : Bool :=
  feldmanVerify M labels o.value g id s

/-- `pedersen.Scheme.Verify` on an object -/
def pedersenVerifyObject (M : Mat F) (labels : List Nat) (o : VVObject G) (g h : G) (id : Nat)
    (s b : List F) : Bool :=
  pedersenVerify M labels o.value g h id s b

end Group

/-- the extractor of Pedersen binding: from two openings `(s, b)`, `(s', b')` of the same
commitments that differ, `(sᵢ − s'ᵢ) / (b'ᵢ − bᵢ)` at the first coordinate where the blinding
parts differ (this is `log_g h` when both openings verify) -/
def pedersenExtract : List F → List F → List F → List F → Option F
  | s :: ss, b :: bs, s' :: ss', b' :: bs' =>
    if b = b' then pedersenExtract ss bs ss' bs' else some ((s - s') * (b' - b)⁻¹)
  | _, _, _, _ => none

end BronVerif.Vss
