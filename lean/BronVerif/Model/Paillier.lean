/-!
# Textbook Paillier on `Nat` (core-only executable model)

Everything is a small total function on naturals / integers:

* `powMod b e m`            square-and-multiply, `= b ^ e % m` (`Lemmas.Paillier.powMod_eq`)
* `invMod a m`              extended Euclid, `some x` iff `gcd a m = 1` (then `a * x % m = 1 % m`)
* `enc N m r`               `(1+N)^m · r^N mod N²`  — the textbook formula of the property
* `ctMul/ctInv/ctScalar/shift/rerand`  the homomorphic operations on ciphertexts
* `ptAdd/ptNeg/ptScalar`, `nonceMul/nonceInv/nonceScalar`   the matching plaintext / nonce algebra
* `fromSym/toSym/inSymRange` the symmetric plaintext range `[-N/2, N/2)`
* `dec p q c`               λ-based textbook decryption `L(c^λ mod N²)·λ⁻¹ mod N`
* `recoverNonce p q c m`    textbook N-th root `(c·(1+N)^(-m) mod N)^(N⁻¹ mod φ(N)) mod N`
* `decCRT p q c`, `openCRT p q c`   the Fermat-quotient / CRT formulas mirrored from
                            `SecretKey.Decrypt` / `SecretKey.Open`
* `repLin`, `powModSk`, `invModSk`, `ctScalarSk`, `noiseSk`, `encSk`, `rerandSk`, `nonceScalarSk`,
  `nonceMulSk`                the secret-key (CRT-accelerated) operations mirrored from
                            `modular.OddPrimeSquareFactors` / `OddPrimeFactors` and `SecretKey.*`
-/
namespace BronVerif.Paillier

/-- square-and-multiply modular exponentiation (`1 % m` for exponent zero so that `m = 1` gives 0) -/
def powMod (b e m : Nat) : Nat :=
  if h : e = 0 then 1 % m
  else
    let t := powMod b (e / 2) m
    let s := t * t % m
    if e % 2 = 1 then s * (b % m) % m else s
termination_by e
decreasing_by omega

/-- extended Euclid: invariant `sᵢ · a ≡ rᵢ (mod m)`; returns `(gcd, s)` -/
def xgcdAux (r0 r1 : Nat) (s0 s1 : Int) : Nat × Int :=
  if h : r1 = 0 then (r0, s0)
  else xgcdAux r1 (r0 % r1) s1 (s0 - (r0 / r1 : Nat) * s1)
termination_by r1
decreasing_by exact Nat.mod_lt _ (Nat.pos_of_ne_zero h)

/-- modular inverse: `some x` with `x < m` and `a * x ≡ 1 (mod m)` iff `gcd a m = 1` -/
def invMod (a m : Nat) : Option Nat :=
  let (g, s) := xgcdAux m (a % m) 0 1
  if g = 1 then some (s % (m : Int)).toNat else none

/-- modular inverse with `0` as the junk value for non-units -/
def invModD (a m : Nat) : Nat := (invMod a m).getD 0

/-- the plaintext embedding `(1+N)^m mod N²` (textbook) -/
def rep (N m : Nat) : Nat := powMod (1 + N) m (N * N)

/-- the noise `r^N mod N²` -/
def noise (N r : Nat) : Nat := powMod r N (N * N)

/-- textbook Paillier encryption `c = (1+N)^m · r^N mod N²` -/
def enc (N m r : Nat) : Nat := rep N m * noise N r % (N * N)

/-- membership in `Z*_{N²}` of a canonical residue -/
def isCt (N c : Nat) : Bool := decide (c < N * N) && Nat.gcd c N == 1
/-- membership in `Z*_N` of a canonical residue -/
def isNonce (N r : Nat) : Bool := decide (r < N) && Nat.gcd r N == 1
def isPt (N m : Nat) : Bool := decide (m < N)

/-! ### homomorphic operations on ciphertexts (group `Z*_{N²}`) -/
def ctMul (N c1 c2 : Nat) : Nat := c1 * c2 % (N * N)
def ctProd (N : Nat) (cs : List Nat) : Nat := cs.foldl (ctMul N) (1 % (N * N))
def ctInv (N c : Nat) : Nat := invModD c (N * N)
/-- `c^k` for a signed scalar (negative: inverse of the power) -/
def ctScalar (N c : Nat) (k : Int) : Nat :=
  if k < 0 then invModD (powMod c k.natAbs (N * N)) (N * N) else powMod c k.natAbs (N * N)
/-- add `d` to the plaintext: multiply by `(1+N)^d` -/
def shift (N c d : Nat) : Nat := ctMul N c (rep N d)
/-- multiply by the noise of a fresh nonce -/
def rerand (N c s : Nat) : Nat := ctMul N c (noise N s)

/-! ### plaintext algebra (`Z_N`, additive) -/
def ptAdd (N m1 m2 : Nat) : Nat := (m1 + m2) % N
def ptSum (N : Nat) (ms : List Nat) : Nat := ms.foldl (ptAdd N) 0 % N
def ptNeg (N m : Nat) : Nat := (N - m % N) % N
def ptScalar (N m : Nat) (k : Int) : Nat := ((m : Int) * k % (N : Int)).toNat

/-! ### nonce algebra (`Z*_N`, multiplicative) -/
def nonceMul (N r1 r2 : Nat) : Nat := r1 * r2 % N
def nonceProd (N : Nat) (rs : List Nat) : Nat := rs.foldl (nonceMul N) (1 % N)
def nonceInv (N r : Nat) : Nat := invModD r N
def nonceScalar (N r : Nat) (k : Int) : Nat :=
  if k < 0 then invModD (powMod r k.natAbs N) N else powMod r k.natAbs N

/-! ### symmetric plaintext range -/
/-- `-N/2 ≤ x < N/2`, i.e. `-N ≤ 2x < N` -/
def inSymRange (N : Nat) (x : Int) : Bool := decide (-(N : Int) ≤ 2 * x) && decide (2 * x < (N : Int))
/-- signed integer ↦ residue in `[0, N)` -/
def fromSym (N : Nat) (x : Int) : Nat := (x % (N : Int)).toNat
/-- residue ↦ the representative of smallest absolute value (negative one on a tie) -/
def toSym (N m : Nat) : Int :=
  let a := m % N
  if (N - a) % N ≤ a then -(((N - a) % N : Nat) : Int) else (a : Int)

/-! ### textbook decryption -/
/-- `L(u) = (u - 1) / N` -/
def L (N u : Nat) : Nat := (u - 1) / N

/-- decryption with an exponent `lam` that kills `Z*_N` and is invertible mod `N` -/
def decWith (N lam c : Nat) : Nat :=
  L N (powMod c lam (N * N)) * invModD (lam % N) N % N

/-- textbook decryption with `λ = lcm(p-1, q-1)` -/
def dec (p q c : Nat) : Nat := decWith (p * q) (Nat.lcm (p - 1) (q - 1)) c

/-- textbook nonce recovery: `y = c·(1+N)^(-m)` is `r^N`; `r = (y mod N)^(N⁻¹ mod φ) mod N` -/
def recoverNonce (p q c m : Nat) : Nat :=
  let N := p * q
  let phi := (p - 1) * (q - 1)
  let y := ctMul N c (rep N (ptNeg N m))
  powMod (y % N) (invModD (N % phi) phi) N

/-! ### CRT / Fermat-quotient decryption as implemented by `SecretKey.Decrypt` / `Open` -/
/-- Garner recombination `mq + q·((mp − mq)·q⁻¹ mod p)` -/
def crt (p q mp mq : Nat) : Nat :=
  let h := ((mp % p + p - mq % p) % p) * invModD (q % p) p % p
  mq + q * h

/-- Fermat quotient `L_p(x) = ((x^(p-1) mod p²) − 1) / p` -/
def fermatQuot (p x : Nat) : Nat := ((powMod x (p - 1) (p * p) + p * p - 1) % (p * p)) / p

def decCRT (p q c : Nat) : Nat :=
  let negQInv := (p - invModD (q % p) p % p) % p
  let negPInv := (q - invModD (p % q) q % q) % q
  let mp := fermatQuot p c % p * negQInv % p
  let mq := fermatQuot q c % q * negPInv % q
  crt p q mp mq

def openCRT (p q c : Nat) : Nat × Nat :=
  let N := p * q
  let NN := N * N
  let m := decCRT p q c
  let gMInv := (1 + NN - m * N % NN) % NN
  let y := c * gMInv % NN
  let rp := powMod (y % p) (invModD (q % (p - 1)) (p - 1)) p
  let rq := powMod (y % q) (invModD (p % (q - 1)) (q - 1)) q
  (m, crt p q rp rq)

/-! ### secret-key (CRT-accelerated) arithmetic, mirrored from `modular.OddPrimeSquareFactors` /
`modular.OddPrimeFactors` and the `SecretKey` methods that use them -/

/-- `PaillierGroup.Representative` as the library computes it (both key kinds):
`(m·N mod N²) + 1 mod N²` — no exponentiation -/
def repLin (N m : Nat) : Nat := (m * N % (N * N) + 1) % (N * N)

/-- `Shift` through `Representative` -/
def shiftLin (N c d : Nat) : Nat := ctMul N c (repLin N d)

/-- CRT exponentiation modulo `P·Q` as in `OddPrime(Square)Factors.ModExp`: the exponent is reduced
modulo `phiP` (resp. `phiQ`) **only when the base is coprime to the prime** `p` (resp. `q`) — this
`Select(base.Coprime(p), exp, ep)` is the guard the code has for non-units — and the two residues
are recombined by Garner's formula. -/
def powModCRTWith (P Q phiP phiQ p q b e : Nat) : Nat :=
  let ep := if Nat.gcd b p = 1 then e % phiP else e
  let eq := if Nat.gcd b q = 1 then e % phiQ else e
  crt P Q (powMod b ep P) (powMod b eq Q)

/-- the same without the guard (always reduce the exponent): what the guard protects against -/
def powModCRTUnguarded (P Q phiP phiQ b e : Nat) : Nat :=
  crt P Q (powMod b (e % phiP) P) (powMod b (e % phiQ) Q)

/-- `OddPrimeSquareFactors.ModExp`: `b^e mod N²` via `p²`, `q²` with exponents mod `φ(p²)`, `φ(q²)` -/
def powModSk (p q b e : Nat) : Nat :=
  powModCRTWith (p * p) (q * q) ((p - 1) * p) ((q - 1) * q) p q b e

/-- `OddPrimeFactors.ModExp`: `b^e mod N` via `p`, `q` with exponents mod `p−1`, `q−1` (nonce group) -/
def powModSkN (p q b e : Nat) : Nat := powModCRTWith p q (p - 1) (q - 1) p q b e

/-- `ModInv` of the CRT arithmetics: inverses modulo `P` and `Q`, recombined -/
def invModCRT (P Q a : Nat) : Nat := crt P Q (invModD (a % P) P) (invModD (a % Q) Q)

/-- `OddPrimeSquareFactors.ModInv` (modulo `N²`) -/
def invModSk (p q a : Nat) : Nat := invModCRT (p * p) (q * q) a

/-- `SecretKey.CiphertextScalarOp` = `ModExpI`: CRT power of `|k|`, CRT inverse for negative `k` -/
def ctScalarSk (p q c : Nat) (k : Int) : Nat :=
  let x := powModSk p q c k.natAbs
  if k < 0 then invModSk p q x else x

/-- `SecretKey.NonceScalarOp` (nonce group `Z*_N` with known factorisation) -/
def nonceScalarSk (p q r : Nat) (k : Int) : Nat :=
  let x := powModSkN p q r k.natAbs
  if k < 0 then invModCRT p q x else x

/-- `OddPrimeFactors.ModMul` (nonce product under the secret key): residues multiplied mod `p`, `q` -/
def nonceMulSk (p q a b : Nat) : Nat := crt p q ((a % p) * (b % p) % p) ((a % q) * (b % q) % q)

/-- `OddPrimeSquareFactors.ExpToN` (`SecretKey.IdentityNoise`): `r^N mod N²` as
`r^(p·(N mod (p−1))) mod p²` and `r^(q·(N mod (q−1))) mod q²`, recombined -/
def noiseSk (p q r : Nat) : Nat :=
  let N := p * q
  crt (p * p) (q * q) (powMod r (p * (N % (p - 1))) (p * p)) (powMod r (q * (N % (q - 1))) (q * q))

/-- `SecretKey.EncryptWithNonce` = `Representative(m) · IdentityNoise(r)` in `Z*_{N²}` -/
def encSk (p q m r : Nat) : Nat := ctMul (p * q) (repLin (p * q) m) (noiseSk p q r)

/-- `PublicKey.EncryptWithNonce`: the same composition with the generic `r^N mod N²` -/
def encPk (N m r : Nat) : Nat := ctMul N (repLin N m) (noise N r)

/-- `SecretKey.ReRandomise` -/
def rerandSk (p q c s : Nat) : Nat := ctMul (p * q) c (noiseSk p q s)

/-! ### key well-formedness (what can be decided without a primality proof) -/
/-- bit length -/
def bitLen (n : Nat) : Nat := if n = 0 then 0 else Nat.log2 n + 1

/-- one Miller–Rabin round to base `a`: `false` is a proof of compositeness -/
def millerRabinRound (n a : Nat) : Bool :=
  if n < 4 then n == 2 || n == 3 else
  if n % 2 == 0 then false else
  let rec split (fuel d s : Nat) : Nat × Nat :=
    match fuel with
    | 0 => (d, s)
    | fuel + 1 => if d % 2 == 0 then split fuel (d / 2) (s + 1) else (d, s)
  let (d, s) := split (bitLen n) (n - 1) 0
  let x := powMod (a % n) d n
  if x == 1 || x == n - 1 || a % n == 0 then true else
  let rec sq (fuel x : Nat) : Bool :=
    match fuel with
    | 0 => false
    | fuel + 1 =>
      let x' := x * x % n
      if x' == n - 1 then true else if x' == 1 then false else sq fuel x'
  sq (s - 1) x

def probablyPrime (n : Nat) : Bool := [2, 3, 5, 7, 11, 13].all (millerRabinRound n)

end BronVerif.Paillier
