import BronVerif.Model.CheckGraph
/-! # The check graphs of the modelled protocols (C04) — core-only data

One `Graph` per protocol label of the tamper matrix (`harness/c04_scen.go`). Leaves are path prefixes
inside the CBOR encoding of the round message (`harness/c04_tree.go`), named by the library's CBOR
field names. Predicates are listed in the order of the Go round functions; `checks_present`
(`Props/C04.lean`) ties each of them to a guarded error return of that function.

Structural validation (`network.ValidateIncomingMessages` + `Message.Validate`, decoding) is not a
predicate here: it concerns the *shape* of a message (missing fields, vector lengths, wrong share
ID); the driver treats container sites and whole-message replacements as must-reject on their own.
-/
namespace BronVerif.CheckGraph

def b (round : Nat) (path : String) : Leaf := ⟨round, .bcast, path⟩
def u (round : Nat) (path : String) : Leaf := ⟨round, .ucast, path⟩

def recv (name : String) (round : Nat) (tagged : Bool) (binds : List Leaf) : Pred :=
  { name := name, evalRound := round, who := .receivers, tagged := tagged, binds := binds }

def aggr (name : String) (tagged : Bool) (binds : List Leaf) : Pred :=
  { name := name, evalRound := 0, who := .aggregator, tagged := tagged, binds := binds }

/-- a per-row family: one predicate per MSP row owned by the sender (see `Pred.perRow`) -/
def Pred.rows (p : Pred) : Pred := { p with perRow := true }

/-- the aggregate is compared with EVERY sender's claim (see `Pred.everySender`) -/
def Pred.every (p : Pred) : Pred := { p with everySender := true }

/-- session setup (pkg/mpc/session): the commitment key `Ck` is the sender's free choice -/
def session : Graph :=
  { proto := "session"
    leaves := [b 1 "Ck", b 1 "CommonCommitment", b 2 "CommonContribution", b 2 "CommonContributionWitness",
               u 2 "PairwiseContributionCommitment", u 3 "PairwiseContribution", u 3 "PairwiseContributionWitness"]
    preds := [
      recv "common-contribution-opens" 3 true [b 1 "CommonCommitment", b 2 "CommonContribution", b 2 "CommonContributionWitness"],
      recv "pairwise-contribution-opens" 4 true [u 2 "PairwiseContributionCommitment", u 3 "PairwiseContribution", u 3 "PairwiseContributionWitness"]]
    gate := "session id derived from all opened contributions" }

/-- Gennaro DKG (pkg/mpc/dkg/gennaro) -/
def gennaro : Graph :=
  { proto := "gennaro"
    leaves := [b 1 "verificationVector", b 1 "proof", u 1 "share.secret", u 1 "share.blinding", u 1 "share.sharingID",
               b 2 "verificationVector", b 2 "proof"]
    preds := [
      recv "okamoto-pok-of-opening" 2 true [b 1 "verificationVector", b 1 "proof"],
      (recv "pedersen-share-vs-vector" 2 true [b 1 "verificationVector", u 1 "share.secret", u 1 "share.blinding", u 1 "share.sharingID"]).rows,
      recv "batch-schnorr-pok" 3 true [b 2 "verificationVector", b 2 "proof"],
      (recv "feldman-share-vs-vector" 3 true [b 2 "verificationVector", u 1 "share.secret"]).rows]
    gate := "mpc.NewBaseShard: lift(share) = (M·V) rows of the holder"
    vectors := [u 1 "share.secret", u 1 "share.blinding"] }

/-- Canetti DKG (pkg/mpc/dkg/canetti) -/
def canetti : Graph :=
  { proto := "canetti"
    leaves := [b 1 "V", b 2 "Message.SessionID", b 2 "Message.SharingID", b 2 "Message.Rho", b 2 "Message.X", b 2 "Message.A", b 2 "U",
               u 2 "Share.id", u 2 "Share.value", b 3 "Psi.A", b 3 "Psi.E", b 3 "Psi.Z"]
    preds := [
      recv "commitment-opens" 3 true [b 1 "V", b 2 "Message.SessionID", b 2 "Message.SharingID", b 2 "Message.Rho", b 2 "Message.X", b 2 "Message.A", b 2 "U"],
      (recv "share-vs-vector" 3 true [b 2 "Message.X", u 2 "Share.value", u 2 "Share.id"]).rows,
      recv "proof-commitment-is-the-committed-one" 4 true [b 3 "Psi.A", b 2 "Message.A"],
      recv "batch-schnorr-proof" 4 true [b 3 "Psi.Z", b 3 "Psi.E", b 2 "Message.X", b 2 "Message.Rho"]]
    gate := "mpc.NewBaseShard: lift(share) = (M·V) rows of the holder"
    vectors := [u 2 "Share.value"] }

/-- HJKY zero sharing (pkg/mpc/zero/hjky) -/
def hjky : Graph :=
  { proto := "hjky"
    leaves := [b 1 "verificationVector", u 1 "zeroShare.id", u 1 "zeroShare.value"]
    preds := [
      (recv "zero-share-vs-vector" 2 true [b 1 "verificationVector", u 1 "zeroShare.value", u 1 "zeroShare.id"]).rows,
      recv "vector-commits-to-zero" 2 true [b 1 "verificationVector"]]
    gate := "share of zero verified against the summed vector"
    vectors := [u 1 "zeroShare.value"]
    coherent := [⟨"nonzero", ["vector-commits-to-zero"]⟩] }

/-- redistribution / refresh / recovery (pkg/mpc/redistribute), sender a previous shareholder -/
def redistribute : Graph :=
  { proto := "redistribute"
    leaves := [b 1 "ZeroR1", u 1 "ZeroR1",
               b 2 "PrevMSP", b 2 "PrevVerificationVector", b 2 "ZeroVerificationVector", b 2 "NextVerificationVectorContribution",
               u 2 "NextShareContribution.id", u 2 "NextShareContribution.value"]
    preds := [
      recv "hjky-round2" 2 true [b 1 "ZeroR1", u 1 "ZeroR1"],
      (recv "next-share-vs-contribution-vector" 3 true [b 2 "NextVerificationVectorContribution", u 2 "NextShareContribution.value", u 2 "NextShareContribution.id"]).rows,
      recv "agrees-with-own-previous-view" 3 true [b 2 "PrevMSP", b 2 "PrevVerificationVector", b 2 "ZeroVerificationVector"],
      recv "per-sender-partial-public-key" 3 true [b 2 "NextVerificationVectorContribution"],
      (recv "oldPk-equals-newPk" 3 false [b 2 "PrevVerificationVector", b 2 "NextVerificationVectorContribution"]).every,
      recv "aggregated-share-vs-aggregated-vector" 3 false [b 2 "NextVerificationVectorContribution", u 2 "NextShareContribution.value"]]
    gate := "mpc.NewBaseShard after oldPk = newPk (every sender's claim) and the aggregated share check"
    vectors := [u 2 "NextShareContribution.value"]
    -- a newcomer without a trusted anchor has ONLY `oldPk-equals-newPk` to tie the new key to the old one
    coherent := [
      ⟨"input0", ["agrees-with-own-previous-view", "per-sender-partial-public-key", "oldPk-equals-newPk"]⟩,
      ⟨"input", ["agrees-with-own-previous-view", "per-sender-partial-public-key", "oldPk-equals-newPk"]⟩,
      ⟨"nonzero", ["hjky-round2"]⟩,
      ⟨"redeal", ["per-sender-partial-public-key", "oldPk-equals-newPk"]⟩,
      ⟨"claim", ["agrees-with-own-previous-view", "oldPk-equals-newPk"]⟩,
      ⟨"redeal+claim", ["agrees-with-own-previous-view", "oldPk-equals-newPk"]⟩] }

/-- a newcomer deals nothing: its placeholder broadcasts are not read by anybody -/
def redistributeNewcomer : Graph :=
  { proto := "redistribute-newcomer"
    leaves := [b 1 "ZeroR1", b 2 "PrevMSP", b 2 "PrevVerificationVector", b 2 "ZeroVerificationVector", b 2 "NextVerificationVectorContribution"]
    preds := []
    gate := "mpc.NewBaseShard after oldPk = newPk and the aggregated share check" }

/-- Lindell22 threshold Schnorr (pkg/mpc/signatures/schnorr/lindell22/signing); round 3 = partial
signatures to the aggregator -/
def lindell22 : Graph :=
  { proto := "lindell22"
    leaves := [b 1 "bigRCommitment", b 1 "zeroR1", u 1 "zeroR1", b 2 "bigR", b 2 "bigROpening", b 2 "bigRProof",
               b 3 "signature.e", b 3 "signature.r", b 3 "signature.s"]
    preds := [
      recv "hjky-round2" 2 true [b 1 "zeroR1", u 1 "zeroR1"],
      recv "nonce-commitment-opens" 3 true [b 1 "bigRCommitment", b 2 "bigR", b 2 "bigROpening"],
      recv "dlog-pok-of-nonce" 3 true [b 2 "bigR", b 2 "bigRProof"],
      aggr "challenges-agree-and-signature-verifies" false [b 3 "signature.e", b 3 "signature.r", b 3 "signature.s"]]
    gate := "Aggregator.Aggregate verifies the aggregated signature"
    coherent := [
      ⟨"nonzero", ["hjky-round2"]⟩,
      ⟨"input0", ["challenges-agree-and-signature-verifies"]⟩,
      ⟨"input", ["challenges-agree-and-signature-verifies"]⟩] }

/-- DKLs23 with the SoftSpoken multiplier; round 5 = partial signatures to the aggregator.
`psi` (round-4 unicast) is not checked by its recipient: a wrong value only spoils the signature,
which the aggregation gate catches. -/
def dkls23Softspoken : Graph :=
  { proto := "dkls23-softspoken"
    leaves := [u 1 "otR1", u 2 "otR2", b 3 "bigRCommitment", u 3 "mulR1",
               b 4 "bigR", b 4 "bigRWitness", b 4 "pk", u 4 "mulR2", u 4 "gammaU", u 4 "gammaV", u 4 "psi",
               b 5 "r", b 5 "u", b 5 "w"]
    preds := [
      recv "ot-extension-consistency" 4 false [u 1 "otR1", u 2 "otR2", u 3 "mulR1"],
      recv "nonce-commitment-opens" 5 true [b 3 "bigRCommitment", b 4 "bigR", b 4 "bigRWitness"],
      recv "multiplier-mu" 5 false [u 1 "otR1", u 2 "otR2", u 4 "mulR2"],
      recv "gammaU-consistency" 5 true [b 4 "bigR", u 4 "gammaU"],
      recv "gammaV-consistency" 5 true [b 4 "pk", u 4 "gammaV"],
      recv "pk-sum" 5 false [b 4 "pk"],
      aggr "nonce-points-agree-and-signature-verifies" false [b 5 "r", b 5 "u", b 5 "w"]]
    gate := "dkls23.Aggregate verifies the signature"
    coherent := [
      ⟨"input0", ["pk-sum", "nonce-points-agree-and-signature-verifies"]⟩,
      ⟨"input", ["pk-sum", "nonce-points-agree-and-signature-verifies"]⟩] }

/-- DKLs23 with the base-OT multiplier (4 rounds); round 4 = partial signatures to the aggregator -/
def dkls23Bbot : Graph :=
  { proto := "dkls23-bbot"
    leaves := [b 1 "bigRCommitment", u 1 "mulR1", b 2 "bigR", b 2 "bigRWitness", u 2 "mulR2", b 3 "pk",
               u 3 "mulR3", u 3 "gammaU", u 3 "gammaV", u 3 "psi", b 4 "r", b 4 "u", b 4 "w"]
    preds := [
      recv "nonce-commitment-opens" 3 true [b 1 "bigRCommitment", b 2 "bigR", b 2 "bigRWitness"],
      recv "multiplier-mu" 4 false [u 1 "mulR1", u 2 "mulR2", u 3 "mulR3"],
      recv "gammaU-consistency" 4 true [b 2 "bigR", u 3 "gammaU"],
      recv "gammaV-consistency" 4 true [b 3 "pk", u 3 "gammaV"],
      recv "pk-sum" 4 false [b 3 "pk"],
      aggr "nonce-points-agree-and-signature-verifies" false [b 4 "r", b 4 "u", b 4 "w"]]
    gate := "dkls23.Aggregate verifies the signature" }

/-- Boldyreva threshold BLS: the partial signatures are the only messages. A partial signature has one
component per MSP row of its sender; the aggregator verifies EACH component against the public key
share of its own row (`for i, pki := range partialPublicKey`) and recombines the components with the
reconstruction coefficients WITHOUT a final verification: the per-row family is the only gate
(`Props/C04.lean`: `detect_boldyreva_component`, `summed_check_misses_paired_shift`). -/
def boldyreva : Graph :=
  { proto := "boldyreva"
    leaves := [b 1 "sigma_i", b 1 "sigma_pop_i"]
    preds := [
      (aggr "partial-signature-verifies-under-the-senders-key-share" true [b 1 "sigma_i"]).rows,
      (aggr "pop-part-matches-the-rogue-key-mode" true [b 1 "sigma_pop_i"]).rows]
    gate := "Aggregator.Aggregate verifies every component of every partial signature against its row key"
    vectors := [b 1 "sigma_i", b 1 "sigma_pop_i"]
    coherent := [
      ⟨"input0", ["partial-signature-verifies-under-the-senders-key-share"]⟩,
      ⟨"input", ["partial-signature-verifies-under-the-senders-key-share"]⟩] }

def allGraphs : List Graph :=
  [session, gennaro, canetti, hjky, redistribute, redistributeNewcomer, lindell22, dkls23Softspoken, dkls23Bbot, boldyreva]

/-- the aggregate checks that see only sums (nobody can be singled out) -/
def untaggedAllowed : List String :=
  ["oldPk-equals-newPk", "aggregated-share-vs-aggregated-vector", "pk-sum", "multiplier-mu", "ot-extension-consistency"]

def graphOf (proto : String) : Option Graph := allGraphs.find? (·.proto == proto)

end BronVerif.CheckGraph
