import BronVerif.Model.LinAlg
import BronVerif.Model.Vss
/-!
# Epochs of one shared key: refresh, recovery, redistribution (core-only model)

Mirrors the composition of `pkg/mpc/zero/hjky` (a jointly dealt sharing of zero) and
`pkg/mpc/redistribute` (Rounds 1–3) on the key material of `pkg/mpc/base.go`:

* the key material of an epoch is `(M, labels, r)`: the MSP of the current access structure with
  one holder label per row, and the dealt column `r` (`r₀` is the secret); the share of a holder is
  `(M·r)` at its rows, the verification vector is `V = r • g`, the public key `V₀ = r₀ • g`;
* `refresh z` adds a sharing of zero (`hjky`: the column `z` has `z₀ = 0`): `r ↦ r + z`;
* `redistribute Q c ζ M' labels' tails` (`redistribute.Round2`): the previous holders `Q` hold the
  reconstruction vector `c` of their rows (`c · M_Q = e₀`, `ConvertShareToAdditive`), holder `i ∈ Q`
  computes its additive share `aᵢ = Σ_{rows k of i} c_k λ_k`, blinds it with its additive share `ζᵢ` of
  a zero sharing over `Q` (`Σ ζ = 0`) and deals `aᵢ + ζᵢ` under the next MSP `M'` with a fresh
  column `(aᵢ + ζᵢ) :: tailᵢ`; the next holders add up what they receive (`Round3`): the new dealt
  column is the sum of the fresh columns;
* `recover Q c ζ tails` is `redistribute` to the same MSP (holders outside `Q` are the newcomers);
* `sign Q` leaves the key material alone.

`redistAccept` is the conjunction of `Round3`'s acceptance conditions on the messages of round 2.
Everything is generic over the core notation classes (driver: `Fp n` and runtime curve points;
`Props/C06.lean`: a Mathlib field and module).
-/
namespace BronVerif.Epoch
open BronVerif.LinAlg BronVerif.Vss

variable {F : Type} [Add F] [Mul F] [Sub F] [Neg F] [Inv F] [OfNat F 0] [OfNat F 1] [DecidableEq F]

/-- key material of one epoch -/
structure State (F : Type) where
  M : Mat F
  labels : List Nat
  r : List F

/-- the shared secret: the 0-th entry of the dealt column -/
def State.secret (e : State F) : F := e.r.headD 0

/-- all share scalars `λ = M · r`, one per MSP row -/
def State.shares (e : State F) : List F := mulVec e.M e.r

/-- the share of holder `id` (its rows of `λ`, ascending) -/
def State.shareOf (e : State F) (id : Nat) : List F := pick e.labels id e.shares

def vadd (a b : List F) : List F := List.zipWith (· + ·) a b

def fsum (xs : List F) : F := xs.foldl (· + ·) 0

/-- entrywise sum of columns of length `n` -/
def colSum (n : Nat) (cols : List (List F)) : List F := cols.foldl vadd (List.replicate n 0)

/-- `Σ` of the entries of `xs` whose label is `id` -/
def sumAt (labels : List Nat) (id : Nat) (xs : List F) : F := fsum (pick labels id xs)

/-- the rows of the previous holders `Q` (ascending row order) and their labels -/
def State.rowsQ (e : State F) (Q : List Nat) : Mat F := pickSet e.labels Q e.M
def State.labelsQ (e : State F) (Q : List Nat) : List Nat := e.labels.filter fun l => Q.contains l
def State.sharesQ (e : State F) (Q : List Nat) : List F := pickSet e.labels Q e.shares

/-- `ConvertShareToAdditive`: `aᵢ = Σ_{rows k of i within Q} c_k λ_k` for every `i ∈ Q` (in the order of `Q`) -/
def State.additive (e : State F) (Q : List Nat) (c : List F) : List F :=
  let prods := List.zipWith (· * ·) c (e.sharesQ Q)
  Q.map fun id => sumAt (e.labelsQ Q) id prods

/-- the blinded contributions `aᵢ + ζᵢ` that the previous holders re-share -/
def State.contributions (e : State F) (Q : List Nat) (c zeta : List F) : List F :=
  vadd (e.additive Q c) zeta

/-- the fresh columns `(aᵢ + ζᵢ) :: tailᵢ` -/
def freshColumns (d : List F) (tails : List (List F)) : List (List F) :=
  List.zipWith (fun di t => di :: t) d tails

/-- `Round3`: the new dealt column is the sum of the fresh columns -/
def reshare (n : Nat) (d : List F) (tails : List (List F)) : List F := colSum n (freshColumns d tails)

inductive Op (F : Type) where
  | refresh (z : List F)
  | redistribute (Q : List Nat) (c zeta : List F) (M' : Mat F) (labels' : List Nat) (tails : List (List F))
  | recover (Q : List Nat) (c zeta : List F) (tails : List (List F))
  | sign (Q : List Nat)

def step (e : State F) : Op F → State F
  | .refresh z => { e with r := vadd e.r z }
  | .redistribute Q c zeta M' labels' tails =>
    { M := M', labels := labels', r := reshare (numCols M') (e.contributions Q c zeta) tails }
  | .recover Q c zeta tails =>
    { e with r := reshare (numCols e.M) (e.contributions Q c zeta) tails }
  | .sign _ => e

def run (ops : List (Op F)) (e : State F) : State F := ops.foldl step e

/-- `c` is a reconstruction vector for the rows of `Q`: one coefficient per row and `c · M_Q = e₀`
(what `MSP.ReconstructionVector` returns: `Vss.reconVector`, i.e. `solveLeft`) -/
def State.IsReconVector (e : State F) (Q : List Nat) (c : List F) : Prop :=
  c.length = (e.rowsQ Q).length ∧ mulVec (transposeN (e.rowsQ Q) e.r.length) c = Vss.e0 e.r.length

/-- shape invariants of an epoch: every MSP row has one entry per entry of the dealt column, one
label per row, and the column is not empty -/
def State.Shaped (e : State F) : Prop :=
  (∀ row ∈ e.M, row.length = e.r.length) ∧ e.labels.length = e.M.length ∧ 0 < e.r.length

/-- well-formedness of one operation in a state (the honest protocol's preconditions) -/
def OpOk (e : State F) : Op F → Prop
  | .refresh z => z.length = e.r.length ∧ z.headD 0 = 0
  | .redistribute Q c zeta M' labels' tails =>
    Q.Nodup ∧ Q ≠ [] ∧ e.IsReconVector Q c ∧ zeta.length = Q.length ∧ fsum zeta = 0 ∧
      tails.length = Q.length ∧ (∀ t ∈ tails, t.length + 1 = numCols M') ∧
      (∀ row ∈ M', row.length = numCols M') ∧ labels'.length = M'.length ∧ 0 < numCols M'
  | .recover Q c zeta tails =>
    Q.Nodup ∧ Q ≠ [] ∧ e.IsReconVector Q c ∧ zeta.length = Q.length ∧ fsum zeta = 0 ∧
      tails.length = Q.length ∧ (∀ t ∈ tails, t.length + 1 = numCols e.M) ∧ numCols e.M = e.r.length
  | .sign _ => True

/-- well-formedness of a history: every operation is well-formed in the state it is applied to -/
def WellFormed : State F → List (Op F) → Prop
  | _, [] => True
  | e, op :: ops => OpOk e op ∧ WellFormed (step e op) ops

section Group
variable {G : Type} [Add G] [OfNat G 0] [HSMul F G G] [DecidableEq G]

/-- verification vector `V = r • g` -/
def State.vv (e : State F) (g : G) : List G := liftColumn e.r g

/-- public key `r₀ • g` -/
def State.pk (e : State F) (g : G) : G := e.secret • g

/-- the partial public key of previous holder `id` that `Round3` recomputes from the OLD public data:
`Σ_{rows k of id within Q} c_k • (M_k · V)` plus the same for the zero sharing over `Q` -/
def partialPk (labelsQ : List Nat) (c : List F) (liftedQ : List G) (zlabels : List Nat) (cz : List F)
    (zlifted : List G) (id : Nat) : G :=
  gsum (pick labelsQ id (List.zipWith (fun (a : F) (P : G) => a • P) c liftedQ)) +
  gsum (pick zlabels id (List.zipWith (fun (a : F) (P : G) => a • P) cz zlifted))

/-- one sub-share verifies against the sender's broadcast vector (`nextScheme.Verify`) -/
def subShareOk (M' : Mat F) (labels' : List Nat) (g : G) (contribV : List G) (to : Nat) (vals : List F) : Bool :=
  feldmanVerify M' labels' contribV g to vals

/-- entrywise sum of verification-vector contributions of length `n` -/
def vvSum (n : Nat) (vs : List (List G)) : List G :=
  vs.foldl (fun acc v => List.zipWith (· + ·) acc v) (List.replicate n 0)

end Group

/-- reconstruct with coefficients `c` from per-row share scalars where the rows whose label is in
`B` are read from epoch `b` and the others from epoch `a` -/
def mixedShares (labels : List Nat) (B : List Nat) (lamA lamB : List F) : List F :=
  (labels.zip (lamA.zip lamB)).map fun (l, (x, y)) => if B.contains l then y else x

/-- `Σ_{rows k labelled in B} c_k · M_k` as a row vector of length `n` -/
def weightOn (n : Nat) (labels : List Nat) (B : List Nat) (c : List F) (M : Mat F) : List F :=
  mulVec (transposeN M n) ((labels.zip c).map fun (l, ck) => if B.contains l then ck else 0)

end BronVerif.Epoch
