/-! Core-only utilities shared by the executable models and the line-protocol driver. -/
namespace BronVerif

def hexDigit (n : Nat) : Char :=
  if n < 10 then Char.ofNat (48 + n) else Char.ofNat (87 + n)

/-- lower-case hex of a natural number, no prefix, "0" for zero -/
partial def natToHex (n : Nat) : String :=
  if n < 16 then String.singleton (hexDigit n)
  else natToHex (n / 16) ++ String.singleton (hexDigit (n % 16))

def hexVal? (c : Char) : Option Nat :=
  if '0' ≤ c ∧ c ≤ '9' then some (c.toNat - 48)
  else if 'a' ≤ c ∧ c ≤ 'f' then some (c.toNat - 87)
  else if 'A' ≤ c ∧ c ≤ 'F' then some (c.toNat - 55)
  else none

def hexToNat? (s : String) : Option Nat :=
  if s.isEmpty then none else
  s.foldl (fun acc c => match acc, hexVal? c with
    | some a, some v => some (a * 16 + v)
    | _, _ => none) (some 0)

/-- signed hex: optional leading '-' -/
def hexToInt? (s : String) : Option Int :=
  if s.startsWith "-" then (hexToNat? (s.drop 1).toString).map (fun n => - (n : Int))
  else (hexToNat? s).map (fun n => (n : Int))

def intToHex (i : Int) : String :=
  if i < 0 then "-" ++ natToHex i.natAbs else natToHex i.natAbs

def byteToHex (b : UInt8) : String :=
  String.singleton (hexDigit (b.toNat / 16)) ++ String.singleton (hexDigit (b.toNat % 16))

def bytesToHex (bs : ByteArray) : String := Id.run do
  let mut s := ""
  for b in bs do s := s ++ byteToHex b
  if s.isEmpty then "-" else s

/-- hex string (even length) to bytes; "-" denotes the empty string -/
def hexToBytes? (s : String) : Option ByteArray :=
  if s == "-" then some ByteArray.empty else
  let cs := s.toList
  if cs.length % 2 != 0 then none else
  let rec go : List Char → ByteArray → Option ByteArray
    | [], acc => some acc
    | [_], _ => none
    | a :: b :: rest, acc =>
      match hexVal? a, hexVal? b with
      | some x, some y => go rest (acc.push (UInt8.ofNat (x * 16 + y)))
      | _, _ => none
  go cs ByteArray.empty

/-- big-endian bytes to Nat -/
def bytesToNatBE (bs : ByteArray) : Nat := bs.foldl (fun acc b => acc * 256 + b.toNat) 0

/-- Nat to big-endian bytes of exactly `len` bytes (truncating high bytes) -/
def natToBytesBE (n len : Nat) : ByteArray := Id.run do
  let mut out := ByteArray.empty
  for i in [0:len] do
    out := out.push (UInt8.ofNat ((n >>> (8 * (len - 1 - i))) % 256))
  out

def natToBytesLE (n len : Nat) : ByteArray := Id.run do
  let mut out := ByteArray.empty
  for i in [0:len] do
    out := out.push (UInt8.ofNat ((n >>> (8 * i)) % 256))
  out

def bytesToNatLE (bs : ByteArray) : Nat := Id.run do
  let mut acc := 0
  for i in [0:bs.size] do
    acc := acc + (bs.get! i).toNat <<< (8 * i)
  acc

end BronVerif
