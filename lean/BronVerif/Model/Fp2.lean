import BronVerif.Model.Fp
/-! `Fp2 p = Fp p [u] / (u² + 1)` — quadratic extension used by BLS12-381 G2 (core-only). -/
namespace BronVerif

structure Fp2 (p : Nat) where
  c0 : Fp p
  c1 : Fp p
deriving DecidableEq

namespace Fp2
variable {p : Nat} [NeZero p]

instance {n : Nat} : OfNat (Fp2 p) n := ⟨⟨Fp.ofNat p n, Fp.ofNat p 0⟩⟩
instance : Add (Fp2 p) := ⟨fun a b => ⟨a.c0 + b.c0, a.c1 + b.c1⟩⟩
instance : Sub (Fp2 p) := ⟨fun a b => ⟨a.c0 - b.c0, a.c1 - b.c1⟩⟩
instance : Neg (Fp2 p) := ⟨fun a => ⟨-a.c0, -a.c1⟩⟩
instance : Mul (Fp2 p) := ⟨fun a b => ⟨a.c0 * b.c0 - a.c1 * b.c1, a.c0 * b.c1 + a.c1 * b.c0⟩⟩
/-- `(c0 + c1 u)⁻¹ = (c0 - c1 u) / (c0² + c1²)` -/
instance : Inv (Fp2 p) := ⟨fun a =>
  let nrm := (a.c0 * a.c0 + a.c1 * a.c1)⁻¹
  ⟨a.c0 * nrm, (-a.c1) * nrm⟩⟩

def toHex (a : Fp2 p) : String := a.c0.toHex ++ "/" ++ a.c1.toHex

end Fp2
end BronVerif
