import BronVerif.Model.H2C
import BronVerif.Model.Curves
import BronVerif.Gen.H2CMaps
/-!
Executable, core-only model of RFC 9380 §3, §6, §7, §8 (map to curve, cofactor clearing, `hash_to_curve`),
in two versions that the driver compares on every line of the C19 stream:

* `genMap`: the formulas **regenerated from the Go source** (`Gen/H2CMaps.lean`: optimised SSWU with
  `sqrt_ratio`, the isogeny maps with the coefficient tables of the params files, Elligator 2, each suite's
  mapper-params methods), instantiated with the executable fields `Fp p` / `Fp2 p`.  `Props/C19.lean` proves
  its theorems about exactly these generated definitions.
* `refMap`: the *straight-line specification* of RFC 9380 §6.6.2 (simple SWU), §6.6.3 (isogeny map, identity
  when a denominator vanishes), §6.7.1 + App. D.1 (Elligator 2 and the rational map to edwards25519) written
  by hand with `inv0`, `is_square`, `sqrt`, `sgn0`, and the constants of the suites (`rfcSuites`).  The isogeny
  coefficient tables are the only data it takes from the generated side (they are checked by
  `iso_map_on_curve`, by the on-curve test of every output and by the RFC vectors).

`hashToCurve` = `clear_cofactor(map(u0) + map(u1))` with `h_eff` of RFC 9380 §8 in the arithmetic of
`Model/Curves.lean`.
-/
namespace BronVerif.H2C
open BronVerif BronVerif.Curve

/-! ### field helpers -/

def gpowAux {F : Type} [Mul F] : Nat → F → Nat → F → F
  | 0, _, _, acc => acc
  | fuel + 1, b, e, acc =>
    if e = 0 then acc else gpowAux fuel (b * b) (e / 2) (if e % 2 = 1 then acc * b else acc)

/-- square-and-multiply; the `fpow` helper of the generated formulas (`fieldsImpl.Pow`) -/
def gpow {F : Type} [Mul F] [OfNat F 1] (b : F) (e : Nat) : F := gpowAux (e.log2 + 1) b e 1

def withQ {α : Type} (p : Nat) (f : (q : Nat) → [NeZero q] → Option α) : Option α :=
  if h : p = 0 then none else
    haveI : NeZero p := ⟨h⟩
    f p

section fields
variable {p : Nat}

/-- least significant bit of the canonical representative (`v.Bytes()[0] & 1`) -/
def lsbFp (x : Fp p) : Bool := x.val % 2 == 1
def isZeroFp (x : Fp p) : Bool := x.val == 0

variable [NeZero p]

def ofPair (c : Nat × Nat) : Fp2 p := ⟨Fp.ofNat p c.1, Fp.ofNat p c.2⟩

/-- RFC 9380 §4.1 `sgn0` for `m = 2` -/
def sgn0Fp2 (x : Fp2 p) : Bool := lsbFp x.c0 || (isZeroFp x.c0 && lsbFp x.c1)

/-- `is_square` in `Fp2 = Fp[i]/(i² + 1)` (`p ≡ 3 mod 4`): the norm is a square in `Fp` -/
def isSquareFp2 (a : Fp2 p) : Bool := Fp.isSquare (a.c0 * a.c0 + a.c1 * a.c1)

/-- some square root in `Fp2` (complex method), `none` for non-squares -/
def sqrtFp2? (a : Fp2 p) : Option (Fp2 p) :=
  if a.c1.val = 0 then
    match Fp.sqrt? a.c0 with
    | some r => some ⟨r, Fp.ofNat p 0⟩
    | none => (Fp.sqrt? (-a.c0)).map fun r => ⟨Fp.ofNat p 0, r⟩
  else do
    let n ← Fp.sqrt? (a.c0 * a.c0 + a.c1 * a.c1)
    let half : Fp p := (Fp.ofNat p 2)⁻¹
    let d1 := (a.c0 + n) * half
    let d := if Fp.isSquare d1 then d1 else (a.c0 - n) * half
    let x0 ← Fp.sqrt? d
    some ⟨x0, a.c1 * (x0 + x0)⁻¹⟩

end fields

/-! ### the straight-line specification (RFC 9380 §6) -/

/-- what RFC 9380 §4 assumes of the field -/
structure SqrtField (F : Type) where
  isSquare : F → Bool
  /-- some square root of a square (the sign is fixed afterwards with `sgn0`) -/
  sqrt : F → F
  sgn0 : F → Bool

def fpSqrtField (p : Nat) [NeZero p] : SqrtField (Fp p) :=
  ⟨Fp.isSquare, fun a => (Fp.sqrt? a).getD (Fp.ofNat p 0), lsbFp⟩

def fp2SqrtField (p : Nat) [NeZero p] : SqrtField (Fp2 p) :=
  ⟨isSquareFp2, fun a => (sqrtFp2? a).getD ⟨Fp.ofNat p 0, Fp.ofNat p 0⟩, sgn0Fp2⟩

section spec
variable {F : Type} [Add F] [Mul F] [Sub F] [Neg F] [Inv F] [OfNat F 0] [OfNat F 1] [DecidableEq F]

def inv0 (x : F) : F := if x = 0 then 0 else x⁻¹

/-- RFC 9380 §6.6.2 `map_to_curve_simple_swu` for `y² = x³ + A x + B` -/
def refSswu (S : SqrtField F) (A B Z u : F) : F × F :=
  let u2 := u * u
  let tv1 := inv0 (Z * Z * (u2 * u2) + Z * u2)
  let x1 := if tv1 = 0 then B * (Z * A)⁻¹ else (-B) * A⁻¹ * (1 + tv1)
  let gx1 := x1 * x1 * x1 + A * x1 + B
  let x2 := Z * u2 * x1
  let gx2 := x2 * x2 * x2 + A * x2 + B
  let x := if S.isSquare gx1 then x1 else x2
  let y := if S.isSquare gx1 then S.sqrt gx1 else S.sqrt gx2
  let y := if S.sgn0 u != S.sgn0 y then -y else y
  (x, y)

/-- `Σ cᵢ xⁱ`, lowest coefficient first -/
def evalPoly (cs : List F) (x : F) : F := cs.foldr (fun c acc => c + x * acc) 0

/-- RFC 9380 §6.6.3 `iso_map`: `(x_num/x_den, y'·y_num/y_den)`, the identity when a denominator vanishes -/
def refIso (xNum xDen yNum yDen : List F) (P : F × F) : WPt F :=
  let xd := evalPoly xDen P.1
  let yd := evalPoly yDen P.1
  if xd = 0 ∨ yd = 0 then .inf else
  .aff (evalPoly xNum P.1 * xd⁻¹) (P.2 * evalPoly yNum P.1 * yd⁻¹)

/-- RFC 9380 §6.7.1 `map_to_curve_elligator2` for `t² = s³ + J s² + s` (`K = 1`) with `Z = 2` -/
def refElligator2 (S : SqrtField F) (J u : F) : F × F :=
  let two : F := 1 + 1
  let x1 := -J * inv0 (1 + two * (u * u))
  let x1 := if x1 = 0 then -J else x1
  let gx1 := x1 * x1 * x1 + J * (x1 * x1) + x1
  let x2 := -x1 - J
  let gx2 := x2 * x2 * x2 + J * (x2 * x2) + x2
  if S.isSquare gx1 then
    let y := S.sqrt gx1
    (x1, if S.sgn0 y then y else -y)
  else
    let y := S.sqrt gx2
    (x2, if S.sgn0 y then -y else y)

/-- RFC 9380 App. D.1 rational map curve25519 → edwards25519: `(c1·s/t, (s-1)/(s+1))`, exceptional points to
`(0, 1)`; `c1 = sqrt(-486664)` with `sgn0(c1) = 0` -/
def refMontToEdwards (c1 : F) (P : F × F) : EPt F :=
  if P.2 = 0 ∨ P.1 + 1 = 0 then ⟨0, 1⟩ else
  ⟨c1 * P.1 * P.2⁻¹, (P.1 - 1) * (P.1 + 1)⁻¹⟩

/-- a point given by fractions `(xn/xd, yn/yd)` (the generated maps return numerators and denominators);
a vanishing denominator denotes the identity (RFC 9380 §6.6.3) -/
def fracW (r : F × F × F × F) : WPt F :=
  if r.2.1 = 0 ∨ r.2.2.2 = 0 then .inf else .aff (r.1 * r.2.1⁻¹) (r.2.2.1 * r.2.2.2⁻¹)

def fracE (r : F × F × F × F) : EPt F := ⟨r.1 * r.2.1⁻¹, r.2.2.1 * r.2.2.2⁻¹⟩

end spec

/-! ### the suites -/

/-- parameters of a hash-to-curve suite as published (RFC 9380 §8; pasta: zcash/pasta_curves `hashtocurve`) -/
structure RfcSuite where
  curve : String       -- name in `Model/Curves.lean`
  id : String          -- suite ID of the algorithm performed by `HashWithDst`
  m : Nat
  L : Nat
  expander : String
  Z : List Nat         -- components of Z (canonical residues)
  A : List Nat         -- coefficient A of the curve targeted by the map (E' for isogeny suites; J for ELL2)
  B : List Nat
  isogeny : Bool
  hEff : Nat

def rfcSuites : List RfcSuite := [
  { curve := "k256", id := "secp256k1_XMD:SHA-256_SSWU_RO_", m := 1, L := 48, expander := "xmd:sha256",
    Z := [Curves.k256.p - 11],
    A := [0x3f8731abdd661adca08a5558f0f5d272e953d363cb6f0e5d405447c01a444533], B := [1771], isogeny := true, hEff := 1 },
  { curve := "p256", id := "P256_XMD:SHA-256_SSWU_RO_", m := 1, L := 48, expander := "xmd:sha256",
    Z := [Curves.p256.p - 10], A := [Curves.p256.p - 3], B := [Curves.p256.b], isogeny := false, hEff := 1 },
  { curve := "pallas", id := "pallas_XMD:BLAKE2b_SSWU_RO_", m := 1, L := 64, expander := "xmd:blake2b512",
    Z := [Curves.pallas.p - 13],
    A := [0x18354a2eb0ea8c9c49be2d7258370742b74134581a27a59f92bb4b0b657a014b], B := [1265], isogeny := true, hEff := 1 },
  { curve := "vesta", id := "vesta_XMD:BLAKE2b_SSWU_RO_", m := 1, L := 64, expander := "xmd:blake2b512",
    Z := [Curves.vesta.p - 13],
    A := [0x267f9b2ee592271a81639c4d96f787739673928c7d01b212c515ad7242eaa6b1], B := [1265], isogeny := true, hEff := 1 },
  { curve := "bls12381g1", id := "BLS12381G1_XMD:SHA-256_SSWU_RO_", m := 1, L := 64, expander := "xmd:sha256",
    Z := [11],
    A := [0x144698a3b8e9433d693a02c96d4982b0ea985383ee66a8d8e8981aefd881ac98936f8da0e0f97f5cf428082d584c1d],
    B := [0x12e2908d11688030018b12e8753eee3b2016c1f0f24f4070a0b9c14fcef35ef55a23215a316ceaa5d1cc48e98e172be0],
    isogeny := true, hEff := 0xd201000000010001 },
  { curve := "bls12381g2", id := "BLS12381G2_XMD:SHA-256_SSWU_RO_", m := 2, L := 64, expander := "xmd:sha256",
    Z := [Curves.blsP - 2, Curves.blsP - 1], A := [0, 240], B := [1012, 1012], isogeny := true,
    hEff := 0xbc69f08f2ee75b3584c6a0ea91b352888e2a8e9145ad7689986ff031508ffe1329c2f178731db956d82bf015d1212b02ec0ec69d7477c1ae954cbc06689f6a359894c0adebbf6b4e8020005aaa95551 },
  { curve := "ed25519", id := "edwards25519_XMD:SHA-512_ELL2_RO_", m := 1, L := 48, expander := "xmd:sha512",
    Z := [2], A := [486662], B := [1], isogeny := false, hEff := 8 } ]

def rfcSuite? (curve : String) : Option RfcSuite := rfcSuites.find? (·.curve == curve)

/-- what the translator regenerated for a suite (the part the executable model needs) -/
structure GenSuite where
  L : Nat
  m : Nat
  expander : String
  suite : String         -- the suite string appended to `appTag` by `Curve.Hash`
  clearCofactor : Nat    -- scalar of `ClearCofactor` (0: the endomorphism routine of G2)

open Gen.H2CMaps in
def genSuite? : String → Option GenSuite
  | "k256" => some ⟨k256.hashL, 1, k256.expander, k256.hash2CurveSuite, k256.clearCofactorScalar⟩
  | "p256" => some ⟨p256.hashL, 1, p256.expander, p256.hash2CurveSuite, p256.clearCofactorScalar⟩
  | "pallas" => some ⟨pallas.hashL, 1, pallas.expander, pallas.hash2CurveSuite, pallas.clearCofactorScalar⟩
  | "vesta" => some ⟨vesta.hashL, 1, vesta.expander, vesta.hash2CurveSuite, vesta.clearCofactorScalar⟩
  | "bls12381g1" => some ⟨bls12381g1.hashL, bls12381g1.hashM, bls12381g1.expander, bls12381g1.hash2CurveSuite, bls12381g1.clearCofactorScalar⟩
  | "bls12381g2" => some ⟨bls12381g2.hashL, bls12381g2.hashM, bls12381g2.expander, bls12381g2.hash2CurveSuite, 0⟩
  | "ed25519" => some ⟨edwards25519.hashL, 1, edwards25519.expander, edwards25519.hash2CurveSuite, edwards25519.clearCofactorScalar⟩
  | "curve25519" => some ⟨edwards25519.hashL, 1, edwards25519.expander, edwards25519.curve25519Hash2CurveSuite, edwards25519.clearCofactorScalar⟩
  | _ => none

open Gen.H2CMaps in
/-- scalar-field hashing: (modulus, generated suite string, L, expander) by curve -/
def genScalarSuite? : String → Option (String × Nat × String)
  | "k256" => some (k256.hash2CurveScalarSuite, k256.hashL, k256.expander)
  | "p256" => some (p256.hash2CurveScalarSuite, p256.hashL, p256.expander)
  | "bls12381" => some (bls12381g1.hash2CurveScalarSuite, bls12381g1.hashL, bls12381g1.expander)
  | "ed25519" => some (edwards25519.hash2CurveScalarSuite, edwards25519.hashL, edwards25519.expander)
  | _ => none

def xmdByName? : String → Option XmdHash
  | "xmd:sha256" => some xmdSha256
  | "xmd:sha512" => some xmdSha512
  | "xmd:sha3_256" => some xmdSha3_256
  | "xmd:blake2b512" => some xmdBlake2b512
  | _ => none

/-! ### points in the runtime representation of `Model/Curves.lean` -/

def ptW {q : Nat} : WPt (Fp q) → Curves.Pt
  | .inf => .inf
  | .aff x y => ⟨some ([x.val], [y.val])⟩

def ptW2 {q : Nat} : WPt (Fp2 q) → Curves.Pt
  | .inf => .inf
  | .aff x y => ⟨some ([x.c0.val, x.c1.val], [y.c0.val, y.c1.val])⟩

def ptE {q : Nat} (P : EPt (Fp q)) : Curves.Pt := ⟨some ([P.x.val], [P.y.val])⟩

/-! ### the regenerated maps, instantiated -/

open Gen.H2CMaps in
/-- `map_to_curve` of the suite of `curve` as regenerated from the Go source, on the field element with
components `u`; the result is the affine point (before cofactor clearing) -/
def genMap (curve : String) (u : List Nat) : Option Curves.Pt :=
  match curve, u with
  | "k256", [u] => withQ Curves.k256.p fun q =>
      some (ptW (fracW (k256.map (F := Fp q) (Fp.ofNat q) gpow lsbFp (Fp.ofNat q u))))
  | "p256", [u] => withQ Curves.p256.p fun q =>
      some (ptW (fracW (p256.map (F := Fp q) (Fp.ofNat q) gpow lsbFp (Fp.ofNat q u))))
  | "pallas", [u] => withQ Curves.pallas.p fun q =>
      some (ptW (fracW (pallas.map (F := Fp q) (Fp.ofNat q) gpow lsbFp (Fp.ofNat q u))))
  | "vesta", [u] => withQ Curves.vesta.p fun q =>
      some (ptW (fracW (vesta.map (F := Fp q) (Fp.ofNat q) gpow lsbFp (Fp.ofNat q u))))
  | "bls12381g1", [u] => withQ Curves.blsP fun q =>
      some (ptW (fracW (bls12381g1.map (F := Fp q) (Fp.ofNat q) gpow lsbFp (Fp.ofNat q u))))
  | "bls12381g2", [u0, u1] => withQ Curves.blsP fun q =>
      some (ptW2 (fracW (bls12381g2.map (F := Fp2 q) ofPair gpow (·.c0) (·.c1) lsbFp isZeroFp ⟨Fp.ofNat q u0, Fp.ofNat q u1⟩)))
  | "ed25519", [u] => withQ Curves.ed25519.p fun q =>
      some (ptE (fracE (edwards25519.map (F := Fp q) (Fp.ofNat q) gpow lsbFp (Fp.ofNat q u))))
  | _, _ => none

/-! ### the specification maps, instantiated with the published suite constants -/

def fpOfList {q : Nat} [NeZero q] : List Nat → Fp q
  | [a] => Fp.ofNat q a
  | _ => Fp.ofNat q 0

def fp2OfList {q : Nat} [NeZero q] : List Nat → Fp2 q
  | [a, b] => ⟨Fp.ofNat q a, Fp.ofNat q b⟩
  | _ => ⟨Fp.ofNat q 0, Fp.ofNat q 0⟩

/-- the isogeny coefficient tables of a suite (shared with the generated side, see the module comment) -/
structure IsoTables where
  xNum : List (Nat × Nat)
  xDen : List (Nat × Nat)
  yNum : List (Nat × Nat)
  yDen : List (Nat × Nat)

open Gen.H2CMaps in
def isoTables? : String → Option IsoTables
  | "k256" => some ⟨k256.sswuIsogenyXNum.map (·, 0), k256.sswuIsogenyXDen.map (·, 0), k256.sswuIsogenyYNum.map (·, 0), k256.sswuIsogenyYDen.map (·, 0)⟩
  | "pallas" => some ⟨pallas.pallasSswuIsogenyXNum.map (·, 0), pallas.pallasSswuIsogenyXDen.map (·, 0), pallas.pallasSswuIsogenyYNum.map (·, 0), pallas.pallasSswuIsogenyYDen.map (·, 0)⟩
  | "vesta" => some ⟨vesta.vestaSswuIsogenyXNum.map (·, 0), vesta.vestaSswuIsogenyXDen.map (·, 0), vesta.vestaSswuIsogenyYNum.map (·, 0), vesta.vestaSswuIsogenyYDen.map (·, 0)⟩
  | "bls12381g1" => some ⟨bls12381g1.g1SswuIsogenyXNum.map (·, 0), bls12381g1.g1SswuIsogenyXDen.map (·, 0), bls12381g1.g1SswuIsogenyYNum.map (·, 0), bls12381g1.g1SswuIsogenyYDen.map (·, 0)⟩
  | "bls12381g2" => some ⟨bls12381g2.g2SswuIsogenyXNum, bls12381g2.g2SswuIsogenyXDen, bls12381g2.g2SswuIsogenyYNum, bls12381g2.g2SswuIsogenyYDen⟩
  | _ => none

/-- `map_to_curve` of the suite per RFC 9380 (straight-line specification), affine result -/
def refMap (curve : String) (u : List Nat) : Option Curves.Pt := do
  let S ← rfcSuite? curve
  let C ← Curves.byName? curve
  withQ C.p fun q =>
    match C.kind with
    | .weierstrass =>
      let P := refSswu (fpSqrtField q) (fpOfList S.A) (fpOfList S.B) (fpOfList S.Z) (fpOfList (q := q) u)
      if S.isogeny then do
        let T ← isoTables? curve
        let k : Nat × Nat → Fp q := fun c => Fp.ofNat q c.1
        some (ptW (refIso (T.xNum.map k) (T.xDen.map k) (T.yNum.map k) (T.yDen.map k) P))
      else some (ptW (.aff P.1 P.2))
    | .weierstrass2 => do
      let P := refSswu (fp2SqrtField q) (fp2OfList S.A) (fp2OfList S.B) (fp2OfList S.Z) (fp2OfList (q := q) u)
      let T ← isoTables? curve
      let k : Nat × Nat → Fp2 q := ofPair
      some (ptW2 (refIso (T.xNum.map k) (T.xDen.map k) (T.yNum.map k) (T.yDen.map k) P))
    | .edwards =>
      let F := fpSqrtField q
      let P := refElligator2 F (fpOfList S.A) (fpOfList (q := q) u)
      -- c1 = sqrt(-(J + 2)) with sgn0(c1) = 0
      let r := F.sqrt (-(fpOfList S.A + Fp.ofNat q 2))
      let c1 := if F.sgn0 r then -r else r
      some (ptE (refMontToEdwards c1 P))

/-! ### hash_to_curve -/

/-- `clear_cofactor(q0 + q1)` with `h_eff` in model arithmetic -/
def combine (C : Curves.Params) (hEff : Nat) (q0 q1 : Curves.Pt) : Curves.Pt :=
  Curves.smul C hEff (Curves.add C q0 q1)

/-- curve25519 hashes with the edwards25519 map (only its default DST differs) -/
def modelCurve (curve : String) : String := if curve == "curve25519" then "ed25519" else curve

/-- `u = hash_to_field(msg, 2)` of the suite: two elements, each a list of `m` components -/
def h2cFieldElems (curve : String) (dst msg : ByteArray) : Option (List (List Nat)) := do
  let G ← genSuite? curve
  let C ← Curves.byName? (modelCurve curve)
  let X ← xmdByName? G.expander
  hashToFieldM (expandXmd X) C.p G.m G.L 2 dst msg

def defaultDst? (curve : String) : Option ByteArray :=
  (genSuite? curve).map fun G => (Gen.H2CMaps.appTag ++ G.suite).toUTF8

/-! ### the hypotheses of the map theorems, evaluated for the real suites

`Props/C19H2C.lean` proves `sswu_on_curve` / `elligator2_on_curve` under hypotheses on the constants that cannot be
discharged in Lean for 255–381-bit fields without a primality certificate (`¬IsSquare Z`, `IsSquare g(B/(Z·A))`,
`¬IsSquare (-1)` resp. `¬IsSquare 2`).  The driver evaluates them with Euler's criterion in the executable fields
(op `h2chyp`); the constants are those of `rfcSuites`, which `h2c_constants_match_source` ties to the source. -/
def theoremHypotheses (curve : String) : Option (List (String × Bool)) := do
  let S ← rfcSuite? curve
  let C ← Curves.byName? curve
  withQ C.p fun q =>
    match C.kind with
    | .weierstrass =>
      let A : Fp q := fpOfList S.A
      let B : Fp q := fpOfList S.B
      let Z : Fp q := fpOfList S.Z
      let x := B * (Z * A)⁻¹
      some [("A≠0", A.val != 0), ("¬IsSquare Z", !Fp.isSquare Z), ("IsSquare g(B/(Z·A))", Fp.isSquare (x * x * x + A * x + B)),
            ("sqrt_ratio variant", if q % 4 == 3 then !Fp.isSquare (-(Fp.ofNat q 1)) else true)]
    | .weierstrass2 =>
      let A : Fp2 q := fp2OfList S.A
      let B : Fp2 q := fp2OfList S.B
      let Z : Fp2 q := fp2OfList S.Z
      let x := B * (Z * A)⁻¹
      some [("A≠0", A != ⟨Fp.ofNat q 0, Fp.ofNat q 0⟩), ("¬IsSquare Z", !isSquareFp2 Z), ("IsSquare g(B/(Z·A))", isSquareFp2 (x * x * x + A * x + B))]
    | .edwards =>
      some [("¬IsSquare 2", !Fp.isSquare (Fp.ofNat q 2)), ("q ≡ 5 mod 8", q % 8 == 5)]

/-! ### the regenerated suite constants against the published ones

`constantFailures` lists the names of the checks that fail; `Props/C19H2C.lean` proves it empty by `decide`.
Checked per suite: `L`, `m`, the expander, the suite string, `Z`, `A'`, `B'`, the cofactor-clearing scalar against
`h_eff`, and the defining relations of the square-root constants (`4·c1 + 3 = p`, `c2² = -Z` for `q ≡ 3 mod 4`;
2-adicity constants of the generic `sqrt_ratio`; `c3² = -1`, `c2⁴ = -4`, `8·c4 + 5 = p`, `c1² = -(J+2)`,
`d·(J+2) = -(J-2)` for curve25519/edwards25519). -/

open Gen.H2CMaps in
def constantChecks : List (String × Bool) :=
  let sq (x p : Nat) := x * x % p
  let rfc (c : String) (f : RfcSuite → Bool) : Bool := match rfcSuite? c with
    | some S => f S
    | none => false
  let p25519 := Curves.ed25519.p
  [ ("appTag", appTag == "bron_crypto_with-"),
    -- secp256k1
    ("k256.suite", rfc "k256" fun S => S.id == k256.hash2CurveSuite && S.L == k256.hashL && S.expander == k256.expander && S.m == 1),
    ("k256.scalar-suite", k256.hash2CurveScalarSuite == k256.hash2CurveSuite ++ "SC_"),
    ("k256.ZAB", rfc "k256" fun S => S.Z == [k256.sswuZ] && S.A == [k256.sswuIsogenyA] && S.B == [k256.sswuIsogenyB]),
    ("k256.mapper", k256.mapperKind == "sswu.ZeroPointMapper" && (rfc "k256" fun S => S.isogeny && S.hEff == k256.clearCofactorScalar)),
    ("k256.sqrt", 4 * k256.sqrtRatioC1 + 3 == Curves.k256.p && (sq k256.sqrtRatioC2 Curves.k256.p + k256.sswuZ) % Curves.k256.p == 0),
    -- P-256
    ("p256.suite", rfc "p256" fun S => S.id == p256.hash2CurveSuite && S.L == p256.hashL && S.expander == p256.expander && S.m == 1),
    ("p256.scalar-suite", p256.hash2CurveScalarSuite == p256.hash2CurveSuite ++ "SC_"),
    ("p256.ZB", rfc "p256" fun S => S.Z == [p256.sswuZ] && S.B == [p256.curveB]),
    ("p256.mapper", p256.mapperKind == "sswu.NonZeroPointMapper" && (rfc "p256" fun S => !S.isogeny && S.hEff == p256.clearCofactorScalar)),
    ("p256.sqrt", 4 * p256.sqrtRatioC1 + 3 == Curves.p256.p && (sq p256.sqrtRatioC2 Curves.p256.p + p256.sswuZ) % Curves.p256.p == 0),
    -- pallas / vesta
    ("pallas.suite", rfc "pallas" fun S => S.id == pallas.hash2CurveSuite && S.L == pallas.hashL && S.expander == pallas.expander && S.m == 1),
    ("pallas.ZAB", rfc "pallas" fun S => S.Z == [pallas.pallasSswuZ] && S.A == [pallas.pallasSswuIsogenyA] && S.B == [pallas.pallasSswuIsogenyB]),
    ("pallas.mapper", pallas.mapperKind == "sswu.ZeroPointMapper" && (rfc "pallas" fun S => S.isogeny && S.hEff == pallas.clearCofactorScalar)),
    ("pallas.sqrt", (Curves.pallas.p - 1) == 2 ^ pallas.pallasSqrtRatioC1 * (2 * pallas.pallasSqrtRatioC3 + 1)
        && pallas.pallasSqrtRatioC4 + 1 == 2 ^ pallas.pallasSqrtRatioC1 && 2 * pallas.pallasSqrtRatioC5 == 2 ^ pallas.pallasSqrtRatioC1),
    ("vesta.suite", rfc "vesta" fun S => S.id == vesta.hash2CurveSuite && S.L == vesta.hashL && S.expander == vesta.expander && S.m == 1),
    ("vesta.ZAB", rfc "vesta" fun S => S.Z == [vesta.vestaSswuZ] && S.A == [vesta.vestaSswuIsogenyA] && S.B == [vesta.vestaSswuIsogenyB]),
    ("vesta.mapper", vesta.mapperKind == "sswu.ZeroPointMapper" && (rfc "vesta" fun S => S.isogeny && S.hEff == vesta.clearCofactorScalar)),
    ("vesta.sqrt", (Curves.vesta.p - 1) == 2 ^ vesta.vestaSqrtRatioC1 * (2 * vesta.vestaSqrtRatioC3 + 1)
        && vesta.vestaSqrtRatioC4 + 1 == 2 ^ vesta.vestaSqrtRatioC1 && 2 * vesta.vestaSqrtRatioC5 == 2 ^ vesta.vestaSqrtRatioC1),
    -- BLS12-381
    ("g1.suite", rfc "bls12381g1" fun S => S.id == bls12381g1.hash2CurveSuite && S.L == bls12381g1.hashL && S.expander == bls12381g1.expander && S.m == bls12381g1.hashM),
    ("g1.scalar-suite", bls12381g1.hash2CurveScalarSuite == bls12381g1.hash2CurveSuite ++ "SC_"),
    ("g1.ZAB", rfc "bls12381g1" fun S => S.Z == [bls12381g1.g1SswuZ] && S.A == [bls12381g1.g1SswuIsogenyA] && S.B == [bls12381g1.g1SswuIsogenyB]),
    ("g1.mapper", bls12381g1.mapperKind == "sswu.ZeroPointMapper" && bls12381g1.clearCofactorKind == "scalar"
        && (rfc "bls12381g1" fun S => S.isogeny && S.hEff == bls12381g1.clearCofactorScalar)),
    ("g1.sqrt", 4 * bls12381g1.g1SqrtRatioC1 + 3 == Curves.blsP && (sq bls12381g1.g1SqrtRationC2 Curves.blsP + bls12381g1.g1SswuZ) % Curves.blsP == 0),
    ("g2.suite", rfc "bls12381g2" fun S => S.id == bls12381g2.hash2CurveSuite && S.L == bls12381g2.hashL && S.expander == bls12381g2.expander && S.m == bls12381g2.hashM),
    ("g2.ZAB", rfc "bls12381g2" fun S => S.Z == [bls12381g2.g2SswuZ.1, bls12381g2.g2SswuZ.2] && S.A == [bls12381g2.g2SswuIsogenyA.1, bls12381g2.g2SswuIsogenyA.2]
        && S.B == [bls12381g2.g2SswuIsogenyB.1, bls12381g2.g2SswuIsogenyB.2]),
    ("g2.mapper", bls12381g2.mapperKind == "sswu.ZeroPointMapper" && bls12381g2.clearCofactorKind == "bls12381g2-psi"
        && bls12381g2.blsX == 0xd201000000010000 && bls12381g2.blsX + 1 == bls12381g1.clearCofactorScalar
        -- h_eff of G2 (RFC 9380 §8.8.2) = h2·(3x² − 3)
        && (rfc "bls12381g2" fun S => S.isogeny && S.hEff == Curves.bls12381g2.h * (3 * bls12381g2.blsX * bls12381g2.blsX - 3))),
    ("g2.sqrt", (Curves.blsP * Curves.blsP - 1) == 2 ^ bls12381g2.g2SqrtRatioC1 * (2 * bls12381g2.g2SqrtRatioC3 + 1)
        && bls12381g2.g2SqrtRatioC4 + 1 == 2 ^ bls12381g2.g2SqrtRatioC1 && 2 * bls12381g2.g2SqrtRatioC5 == 2 ^ bls12381g2.g2SqrtRatioC1),
    -- edwards25519 / curve25519: the code performs hash_to_curve (two field elements, "_RO_" in RFC 9380 terms) under a
    -- suite string that says "_NU_"; the string only enters the default DST
    ("ed.suite", rfc "ed25519" fun S => S.L == edwards25519.hashL && S.expander == edwards25519.expander && S.m == 1
        && edwards25519.hash2CurveSuite == "edwards25519_XMD:SHA-512_ELL2_NU_" && S.id == "edwards25519_XMD:SHA-512_ELL2_RO_"
        && edwards25519.curve25519Hash2CurveSuite == "curve25519_XMD:SHA-512_ELL2_NU_"),
    ("ed.scalar-suite", edwards25519.hash2CurveScalarSuite == edwards25519.hash2CurveSuite ++ "SC_"),
    ("ed.mapper", edwards25519.mapperKind == "elligator2.Edwards25519PointMapper" && edwards25519.clearCofactorKind == "double3"
        && (rfc "ed25519" fun S => S.hEff == edwards25519.clearCofactorScalar && S.A == [curve25519Elligator2JLimbs])),
    ("ed.consts", (sq curve25519Elligator2C3Limbs p25519 + 1) % p25519 == 0
        && (sq (sq curve25519Elligator2C2Limbs p25519) p25519 + 4) % p25519 == 0
        && 8 * curve25519Elligator2C4 + 5 == p25519
        && (sq edwards25519Elligator2C1Limbs p25519 + curve25519Elligator2JLimbs + 2) % p25519 == 0
        && (Curves.ed25519.b * (curve25519Elligator2JLimbs + 2) + (curve25519Elligator2JLimbs - 2)) % p25519 == 0
        && edwards25519Elligator2C1Limbs % 2 == 0) ]

def constantFailures : List String := (constantChecks.filter fun c => !c.2).map (·.1)

end BronVerif.H2C
