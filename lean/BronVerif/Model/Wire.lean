import BronVerif.Model.Cbor
import BronVerif.Model.Vss
/-!
# Typed wire formats on top of the CBOR model (core-only)

For the serialisable types of `/repo` whose validity the property C12 talks about, this file gives

* a value type `T` (what the Go object denotes),
* `validT : T → Bool` — the rules the Go constructor enforces (written independently of the
  decoder: it is the specification the accepted objects are judged by),
* `encT : T → Item` — the data item `MarshalCBOR` produces (keys in core-deterministic order),
* `decT : Item → Option T` — shape of the canonical item, then `validT`.

`decodeT b = (decode b).bind decT` and `encodeT v = encode (encT v)` are the byte-level functions the
driver runs on the harness lines (`Drive/C12.lean`); `Lemmas/Wire*.lean` / `Props/C12.lean` prove
`decodeT b = some v → validT v` and `validT v → decodeT (encodeT v) = some v`.

Sources: `pkg/mpc/sharing/accessstructures/*/cbor.go` (tags 5050–5054), `pkg/base/mat/cbor.go`,
`pkg/mpc/sharing/scheme/kw/{share.go,msp/cbor.go,msp/msp.go}`, `pkg/mpc/sharing/vss/feldman/
verification_vector.go`, `pkg/mpc/base.go`, `pkg/signatures/ecdsa/signature.go`,
`pkg/encryption/paillier/public.go`, `pkg/base/nt/{znstar,num,numct}/cbor.go`.
-/
namespace BronVerif.Wire
open BronVerif.Cbor BronVerif.LinAlg

/-! ## field names (UTF-8) -/

def kFieldBytes : Bytes := [0x66, 0x69, 0x65, 0x6c, 0x64, 0x42, 0x79, 0x74, 0x65, 0x73]  -- "fieldBytes"
def kCompressedBytes : Bytes := [0x63, 0x6f, 0x6d, 0x70, 0x72, 0x65, 0x73, 0x73, 0x65, 0x64, 0x42, 0x79, 0x74, 0x65, 0x73]  -- "compressedBytes"
def kThreshold : Bytes := [0x74, 0x68, 0x72, 0x65, 0x73, 0x68, 0x6f, 0x6c, 0x64]  -- "threshold"
def kShareholders : Bytes := [0x73, 0x68, 0x61, 0x72, 0x65, 0x68, 0x6f, 0x6c, 0x64, 0x65, 0x72, 0x73]  -- "shareholders"
def kMaximalUnqualifiedSets : Bytes := [0x6d, 0x61, 0x78, 0x69, 0x6d, 0x61, 0x6c, 0x5f, 0x75, 0x6e, 0x71, 0x75, 0x61, 0x6c, 0x69, 0x66, 0x69, 0x65, 0x64, 0x5f, 0x73, 0x65, 0x74, 0x73]  -- "maximal_unqualified_sets"
def kLevels : Bytes := [0x6c, 0x65, 0x76, 0x65, 0x6c, 0x73]  -- "levels"
def kParties : Bytes := [0x70, 0x61, 0x72, 0x74, 0x69, 0x65, 0x73]  -- "parties"
def kRoot : Bytes := [0x72, 0x6f, 0x6f, 0x74]  -- "root"
def kKind : Bytes := [0x6b, 0x69, 0x6e, 0x64]  -- "kind"
def kAttr : Bytes := [0x61, 0x74, 0x74, 0x72]  -- "attr"
def kChildren : Bytes := [0x63, 0x68, 0x69, 0x6c, 0x64, 0x72, 0x65, 0x6e]  -- "children"
def kCols : Bytes := [0x63, 0x6f, 0x6c, 0x73]  -- "cols"
def kData : Bytes := [0x64, 0x61, 0x74, 0x61]  -- "data"
def kRows : Bytes := [0x72, 0x6f, 0x77, 0x73]  -- "rows"
def kMatrix : Bytes := [0x4d, 0x61, 0x74, 0x72, 0x69, 0x78]  -- "Matrix"
def kRowsToHolders : Bytes := [0x52, 0x6f, 0x77, 0x73, 0x54, 0x6f, 0x48, 0x6f, 0x6c, 0x64, 0x65, 0x72, 0x73]  -- "RowsToHolders"
def kVerificationVectorU : Bytes := [0x76, 0x65, 0x72, 0x69, 0x66, 0x69, 0x63, 0x61, 0x74, 0x69, 0x6f, 0x6e, 0x5f, 0x76, 0x65, 0x63, 0x74, 0x6f, 0x72]  -- "verification_vector"
def kMsp : Bytes := [0x6d, 0x73, 0x70]  -- "msp"
def kVerificationVectorC : Bytes := [0x76, 0x65, 0x72, 0x69, 0x66, 0x69, 0x63, 0x61, 0x74, 0x69, 0x6f, 0x6e, 0x56, 0x65, 0x63, 0x74, 0x6f, 0x72]  -- "verificationVector"
def kShare : Bytes := [0x73, 0x68, 0x61, 0x72, 0x65]  -- "share"
def kPublicMaterial : Bytes := [0x70, 0x75, 0x62, 0x6c, 0x69, 0x63, 0x4d, 0x61, 0x74, 0x65, 0x72, 0x69, 0x61, 0x6c]  -- "publicMaterial"
def kId : Bytes := [0x69, 0x64]  -- "id"
def kValue : Bytes := [0x76, 0x61, 0x6c, 0x75, 0x65]  -- "value"
def kR : Bytes := [0x72]  -- "r"
def kS : Bytes := [0x73]  -- "s"
def kV : Bytes := [0x76]  -- "v"
def kGroup : Bytes := [0x67, 0x72, 0x6f, 0x75, 0x70]  -- "group"
def kN : Bytes := [0x6e]  -- "n"
def kNatPlus : Bytes := [0x6e, 0x61, 0x74, 0x50, 0x6c, 0x75, 0x73]  -- "natPlus"
def kNatBytes : Bytes := [0x6e, 0x61, 0x74, 0x42, 0x79, 0x74, 0x65, 0x73]  -- "natBytes"
def kBase : Bytes := [0x62, 0x61, 0x73, 0x65]  -- "base"

/-- CBOR tags of `internal/tags` -/
def tagBoolexpr : Nat := 5050
def tagCNF : Nat := 5051
def tagHierarchical : Nat := 5052
def tagThreshold : Nat := 5053
def tagUnanimity : Nat := 5054
def tagPaillierGroupUnknownOrder : Nat := 5016

/-! ## helpers -/

def mapOpt {α β : Type} (f : α → Option β) : List α → Option (List β)
  | [] => some []
  | x :: xs =>
    match f x with
    | none => none
    | some y =>
      match mapOpt f xs with
      | none => none
      | some ys => some (y :: ys)

/-- sorted insertion without duplicates -/
def insAsc (x : Nat) : List Nat → List Nat
  | [] => [x]
  | y :: ys => if x < y then x :: y :: ys else if x = y then y :: ys else y :: insAsc x ys

/-- the union of the sets, ascending -/
def unionAsc (sets : List (List Nat)) : List Nat :=
  sets.foldl (fun acc s => s.foldl (fun a x => insAsc x a) acc) []

def subset (a b : List Nat) : Bool := a.all b.contains

/-! ## sets of shareholder IDs — `map[ID]bool`, every value `true`, keys ascending -/

def encIdPairs : List Nat → List Item
  | [] => []
  | i :: r => .uint i :: .simple 21 :: encIdPairs r

def decIdPairs : List Item → Option (List Nat)
  | [] => some []
  | .uint i :: .simple 21 :: r =>
    match decIdPairs r with
    | some is => some (i :: is)
    | none => none
  | _ => none

def encIdSet (ids : List Nat) : Item := .map (encIdPairs ids)

def decIdSet : Item → Option (List Nat)
  | .map kvs => decIdPairs kvs
  | _ => none

/-- an ID set as it appears in a canonical encoding: strictly ascending 64-bit values, at most
`maxElems` of them -/
def idSetOk (ids : List Nat) : Bool :=
  ascNat ids && ids.all (fun i => decide (i < two64)) && decide (ids.length ≤ maxElems)

/-- arrays of IDs (`[]ID`) -/
def encIdList (ids : List Nat) : Item := .array (ids.map Item.uint)

def decUint : Item → Option Nat
  | .uint n => some n
  | _ => none

def decIdList : Item → Option (List Nat)
  | .array xs => mapOpt decUint xs
  | _ => none

/-! ## threshold access structure (`threshold.Threshold`, tag 5053) -/

structure Threshold where
  t : Nat
  ps : List Nat
  deriving DecidableEq, Repr

/-- `NewThresholdAccessStructure`: `0 ∉ ps`, `2 ≤ t ≤ |ps|` -/
def validThreshold (v : Threshold) : Bool :=
  idSetOk v.ps && !v.ps.contains 0 && decide (2 ≤ v.t) && decide (v.t ≤ v.ps.length)

def encThreshold (v : Threshold) : Item :=
  .tag tagThreshold (.map [.text kThreshold, .uint v.t, .text kShareholders, encIdSet v.ps])

def decThreshold : Item → Option Threshold
  | .tag tg (.map [.text k1, .uint t, .text k2, m]) =>
    if tg = tagThreshold ∧ k1 = kThreshold ∧ k2 = kShareholders then
      match decIdSet m with
      | some ps => if validThreshold ⟨t, ps⟩ then some ⟨t, ps⟩ else none
      | none => none
    else none
  | _ => none

/-! ## unanimity (`unanimity.Unanimity`, tag 5054) -/

structure Unanimity where
  ps : List Nat
  deriving DecidableEq, Repr

/-- `NewUnanimityAccessStructure`: at least two shareholders, none is 0 -/
def validUnanimity (v : Unanimity) : Bool :=
  idSetOk v.ps && !v.ps.contains 0 && decide (2 ≤ v.ps.length)

def encUnanimity (v : Unanimity) : Item :=
  .tag tagUnanimity (.map [.text kShareholders, encIdSet v.ps])

def decUnanimity : Item → Option Unanimity
  | .tag tg (.map [.text k1, m]) =>
    if tg = tagUnanimity ∧ k1 = kShareholders then
      match decIdSet m with
      | some ps => if validUnanimity ⟨ps⟩ then some ⟨ps⟩ else none
      | none => none
    else none
  | _ => none

/-! ## CNF (`cnf.CNF`, tag 5051) -/

structure CNF where
  shareholders : List Nat
  sets : List (List Nat)
  deriving DecidableEq, Repr

/-- no set is contained in another one (in particular the sets are pairwise distinct) -/
def antichain : List (List Nat) → Bool
  | [] => true
  | s :: r => r.all (fun o => !(subset s o) && !(subset o s)) && antichain r

/-- `NewCNFAccessStructure` (after `normaliseCNF`): a non-empty antichain of non-empty sets without
0; the shareholders are their union, at least two -/
def validCNF (v : CNF) : Bool :=
  decide (1 ≤ v.sets.length) && decide (v.sets.length ≤ maxElems)
    && v.sets.all (fun s => idSetOk s && !s.isEmpty && !s.contains 0)
    && antichain v.sets
    && idSetOk v.shareholders && decide (v.shareholders = unionAsc v.sets)
    && decide (2 ≤ v.shareholders.length)

def encCNF (v : CNF) : Item :=
  .tag tagCNF (.map [.text kShareholders, encIdSet v.shareholders,
    .text kMaximalUnqualifiedSets, .array (v.sets.map encIdSet)])

def decCNF : Item → Option CNF
  | .tag tg (.map [.text k1, m, .text k2, .array xs]) =>
    if tg = tagCNF ∧ k1 = kShareholders ∧ k2 = kMaximalUnqualifiedSets then
      match decIdSet m, mapOpt decIdSet xs with
      | some sh, some sets => if validCNF ⟨sh, sets⟩ then some ⟨sh, sets⟩ else none
      | _, _ => none
    else none
  | _ => none

/-! ## hierarchical conjunctive threshold (tag 5052) -/

structure Level where
  threshold : Nat
  parties : List Nat
  deriving DecidableEq, Repr

structure Hierarchical where
  levels : List Level
  deriving DecidableEq, Repr

/-- `NewHierarchicalConjunctiveThresholdAccessStructure` + `ThresholdLevel.UnmarshalCBOR`:
walking the levels with the previous threshold and the parties seen so far — parties non-empty,
ascending (the constructor stores them sorted), without 0 and disjoint from the earlier levels;
thresholds strictly increasing (the first positive) and at most the cumulative number of parties -/
def validLevels : Nat → List Nat → List Level → Bool
  | _, _, [] => true
  | t0, seen, l :: r =>
    idSetOk l.parties && !l.parties.isEmpty && !l.parties.contains 0
      && decide (t0 < l.threshold)
      && l.parties.all (fun p => !seen.contains p)
      && decide (l.threshold ≤ (seen ++ l.parties).length)
      && validLevels l.threshold (seen ++ l.parties) r

def validHierarchical (v : Hierarchical) : Bool :=
  decide (1 ≤ v.levels.length) && decide (v.levels.length ≤ maxElems) && validLevels 0 [] v.levels

def encLevel (l : Level) : Item :=
  .map [.text kParties, encIdList l.parties, .text kThreshold, .uint l.threshold]

def decLevel : Item → Option Level
  | .map [.text k1, ps, .text k2, .uint t] =>
    if k1 = kParties ∧ k2 = kThreshold then
      match decIdList ps with
      | some p => some ⟨t, p⟩
      | none => none
    else none
  | _ => none

def encHierarchical (v : Hierarchical) : Item :=
  .tag tagHierarchical (.map [.text kLevels, .array (v.levels.map encLevel)])

def decHierarchical : Item → Option Hierarchical
  | .tag tg (.map [.text k1, .array xs]) =>
    if tg = tagHierarchical ∧ k1 = kLevels then
      match mapOpt decLevel xs with
      | some ls => if validHierarchical ⟨ls⟩ then some ⟨ls⟩ else none
      | none => none
    else none
  | _ => none

/-! ## threshold-gate trees (`boolexpr.ThresholdGateAccessStructure`, tag 5050)

The tree is kept as the data item itself (`{"attr": id, "kind": 2}` for a leaf,
`{"kind": 1, "children": [...], "threshold": t}` for a gate); the predicates recurse with fuel
(a tree inside a decodable item has at most `maxDepth / 2` gate levels). -/

/-- the attribute of a leaf item -/
def leafAttr? : Item → Option Nat
  | .map [.text k1, .uint a, .text k2, .uint kd] => if k1 = kAttr ∧ k2 = kKind ∧ kd = 2 then some a else none
  | _ => none

/-- no two *leaf* children carry the same attribute -/
def distinctLeafKids : List Item → Bool
  | [] => true
  | x :: r =>
    (match leafAttr? x with
     | some a => r.all (fun y => leafAttr? y != some a)
     | none => true) && distinctLeafKids r

/-- `checkTree` + `Node.UnmarshalCBOR`: leaves have a non-zero attribute; gates have at least one
child, `1 ≤ threshold ≤ #children`, and no duplicate attribute among their leaf children -/
def nodeOk : Nat → Item → Bool
  | 0, _ => false
  | f + 1, x =>
    match x with
    | .map [.text k1, .uint a, .text k2, .uint kd] =>
      decide (k1 = kAttr) && decide (k2 = kKind) && decide (kd = 2) && decide (a ≠ 0) && decide (a < two64)
    | .map [.text k1, .uint kd, .text k2, .array kids, .text k3, .uint t] =>
      decide (k1 = kKind) && decide (kd = 1) && decide (k2 = kChildren) && decide (k3 = kThreshold)
        && decide (1 ≤ t) && decide (t ≤ kids.length) && decide (kids.length ≤ maxElems)
        && distinctLeafKids kids && kids.all (nodeOk f)
    | _ => false

/-- the attributes at the leaves, left to right -/
def leaves : Nat → Item → List Nat
  | 0, _ => []
  | f + 1, x =>
    match x with
    | .map [.text _, .uint a, .text _, .uint _] => [a]
    | .map [.text _, .uint _, .text _, .array kids, .text _, .uint _] => (kids.map (leaves f)).flatten
    | _ => []

structure BoolAS where
  root : Item
  shareholders : List Nat

def treeFuel : Nat := 40

/-- `ThresholdGateAccessStructure.UnmarshalCBOR`: a valid tree and exactly its leaves as the
shareholder map (the last three conjuncts say that the tree is an encodable canonical item) -/
def validBoolAS (v : BoolAS) : Bool :=
  nodeOk treeFuel v.root && idSetOk v.shareholders
    && decide (v.shareholders = unionAsc [leaves treeFuel v.root])
    && wf v.root && isCanon v.root && decide (depth v.root + 1 ≤ maxDepth)

def encBoolAS (v : BoolAS) : Item :=
  .tag tagBoolexpr (.map [.text kRoot, v.root, .text kShareholders, encIdSet v.shareholders])

def decBoolAS : Item → Option BoolAS
  | .tag tg (.map [.text k1, root, .text k2, m]) =>
    if tg = tagBoolexpr ∧ k1 = kRoot ∧ k2 = kShareholders then
      match decIdSet m with
      | some sh => if validBoolAS ⟨root, sh⟩ then some ⟨root, sh⟩ else none
      | none => none
    else none
  | _ => none

/-! ## scalars, points, matrices — over abstract element codecs -/

/-- byte codec of a scalar field / prime-order group (`FromBytes` / `Bytes`, `FromCompressed` /
`ToCompressed`); the theorems assume `dec (enc x) = some x` -/
structure ElemIO (α : Type) where
  dec : Bytes → Option α
  enc : α → Bytes

section elems
variable {α : Type}

def encScalar (io : ElemIO α) (s : α) : Item := .map [.text kFieldBytes, .bytes (io.enc s)]

def decScalar (io : ElemIO α) : Item → Option α
  | .map [.text k, .bytes b] => if k = kFieldBytes then io.dec b else none
  | _ => none

def encPoint (io : ElemIO α) (p : α) : Item := .map [.text kCompressedBytes, .bytes (io.enc p)]

def decPoint (io : ElemIO α) : Item → Option α
  | .map [.text k, .bytes b] => if k = kCompressedBytes then io.dec b else none
  | _ => none

/-- `mat.Matrix` / `mat.ModuleValuedMatrix`: row-major data -/
structure MatW (α : Type) where
  rows : Nat
  cols : Nat
  data : List α

/-- `Matrix.UnmarshalCBOR`: positive dimensions, `len(data) = rows · cols` -/
def validMatW (m : MatW α) : Bool :=
  decide (0 < m.rows) && decide (0 < m.cols) && decide (m.data.length = m.rows * m.cols)
    && decide (m.data.length ≤ maxElems)

def encMatW (encE : α → Item) (m : MatW α) : Item :=
  .map [.text kCols, .uint m.cols, .text kData, .array (m.data.map encE), .text kRows, .uint m.rows]

def decMatW (decE : Item → Option α) : Item → Option (MatW α)
  | .map [.text k1, .uint c, .text k2, .array xs, .text k3, .uint r] =>
    if k1 = kCols ∧ k2 = kData ∧ k3 = kRows then
      match mapOpt decE xs with
      | some d => if validMatW ⟨r, c, d⟩ then some ⟨r, c, d⟩ else none
      | none => none
    else none
  | _ => none

/-- the rows of a row-major matrix -/
def toRows : Nat → Nat → List α → List (List α)
  | 0, _, _ => []
  | r + 1, c, xs => xs.take c :: toRows r c (xs.drop c)

def MatW.toMat (m : MatW α) : Mat α := toRows m.rows m.cols m.data

end elems

/-! ## KW share (`kw.Share` = `feldman.Share`) -/

structure ShareW (F : Type) where
  id : Nat
  value : List F

/-- `kw.NewShare`: non-zero ID, at least one component -/
def validShareW {F : Type} (s : ShareW F) : Bool :=
  decide (s.id ≠ 0) && decide (s.id < two64) && !s.value.isEmpty && decide (s.value.length ≤ maxElems)

def encShareW {F : Type} (io : ElemIO F) (s : ShareW F) : Item :=
  .map [.text kId, .uint s.id, .text kValue, .array (s.value.map (encScalar io))]

def decShareW {F : Type} (io : ElemIO F) : Item → Option (ShareW F)
  | .map [.text k1, .uint i, .text k2, .array xs] =>
    if k1 = kId ∧ k2 = kValue then
      match mapOpt (decScalar io) xs with
      | some v => if validShareW ⟨i, v⟩ then some ⟨i, v⟩ else none
      | none => none
    else none
  | _ => none

/-! ## MSP (`msp.MSP`): matrix + row labels `{0: id₀, 1: id₁, …}` -/

structure MSPW (F : Type) where
  matrix : MatW F
  labels : List Nat

/-- `msp.NewMSP`: a label for exactly the rows `0 … rows-1`, none of them 0 -/
def validMSPW {F : Type} (m : MSPW F) : Bool :=
  validMatW m.matrix && decide (m.labels.length = m.matrix.rows) && !m.labels.contains 0
    && m.labels.all (fun i => decide (i < two64))

def encLabels : Nat → List Nat → List Item
  | _, [] => []
  | i, l :: r => .uint i :: .uint l :: encLabels (i + 1) r

def decLabels : Nat → List Item → Option (List Nat)
  | _, [] => some []
  | i, .uint k :: .uint l :: r =>
    if k = i then
      match decLabels (i + 1) r with
      | some ls => some (l :: ls)
      | none => none
    else none
  | _, _ => none

def encMSPW {F : Type} (io : ElemIO F) (m : MSPW F) : Item :=
  .map [.text kMatrix, encMatW (encScalar io) m.matrix, .text kRowsToHolders, .map (encLabels 0 m.labels)]

def decMSPW {F : Type} (io : ElemIO F) : Item → Option (MSPW F)
  | .map [.text k1, mx, .text k2, .map kvs] =>
    if k1 = kMatrix ∧ k2 = kRowsToHolders then
      match decMatW (decScalar io) mx, decLabels 0 kvs with
      | some m, some ls => if validMSPW ⟨m, ls⟩ then some ⟨m, ls⟩ else none
      | _, _ => none
    else none
  | _ => none

/-! ## Feldman verification vector: a column of group elements -/

/-- `NewVerificationVector(value, nil)`: a column vector (at least one entry) -/
def validVV {G : Type} (V : List G) : Bool := decide (0 < V.length) && decide (V.length ≤ maxElems)

def encVV {G : Type} (io : ElemIO G) (V : List G) : Item :=
  .map [.text kVerificationVectorU, encMatW (encPoint io) ⟨V.length, 1, V⟩]

def decVV {G : Type} (io : ElemIO G) : Item → Option (List G)
  | .map [.text k, m] =>
    if k = kVerificationVectorU then
      match decMatW (decPoint io) m with
      | some mw => if mw.cols = 1 then some mw.data else none
      | none => none
    else none
  | _ => none

/-! ## `mpc.BasePublicMaterial` and `mpc.BaseShard` -/

structure PMW (F G : Type) where
  msp : MSPW F
  vv : List G

/-- `NewBasePublicMaterial`: valid parts and `len V = D` (the MSP's column count) -/
def validPMW {F G : Type} (p : PMW F G) : Bool :=
  validMSPW p.msp && validVV p.vv && decide (p.vv.length = p.msp.matrix.cols)

def encPMW {F G : Type} (fio : ElemIO F) (gio : ElemIO G) (p : PMW F G) : Item :=
  .map [.text kMsp, encMSPW fio p.msp, .text kVerificationVectorC, encVV gio p.vv]

def decPMW {F G : Type} (fio : ElemIO F) (gio : ElemIO G) : Item → Option (PMW F G)
  | .map [.text k1, m, .text k2, v] =>
    if k1 = kMsp ∧ k2 = kVerificationVectorC then
      match decMSPW fio m, decVV gio v with
      | some ms, some vv => if validPMW ⟨ms, vv⟩ then some ⟨ms, vv⟩ else none
      | _, _ => none
    else none
  | _ => none

structure ShardW (F G : Type) where
  share : ShareW F
  pm : PMW F G

section shard
variable {F : Type} [Add F] [Mul F] [Sub F] [Neg F] [Inv F] [OfNat F 0] [OfNat F 1] [DecidableEq F]
variable {G : Type} [Add G] [OfNat G 0] [HSMul F G G] [DecidableEq G]

/-- the private share matches the public data: the holder labels a row, and every component of
`share • g` equals the corresponding row of `M` applied to `V` (`Vss.feldmanVerify`:
`numCols M = len V`, `id ∈ labels`, `sₖ • g = (M_{rows(id)} · V)ₖ` for every `k`, lengths included) -/
def shareMatches (g : G) (sh : ShardW F G) : Bool :=
  Vss.feldmanVerify sh.pm.msp.matrix.toMat sh.pm.msp.labels sh.pm.vv g sh.share.id sh.share.value

/-- `NewBaseShard` -/
def validShardW (g : G) (sh : ShardW F G) : Bool :=
  validShareW sh.share && validPMW sh.pm && shareMatches g sh

def encShardW (fio : ElemIO F) (gio : ElemIO G) (sh : ShardW F G) : Item :=
  .map [.text kShare, encShareW fio sh.share, .text kPublicMaterial, encPMW fio gio sh.pm]

def decShardW (fio : ElemIO F) (gio : ElemIO G) (g : G) : Item → Option (ShardW F G)
  | .map [.text k1, s, .text k2, p] =>
    if k1 = kShare ∧ k2 = kPublicMaterial then
      match decShareW fio s, decPMW fio gio p with
      | some sw, some pw => if validShardW g ⟨sw, pw⟩ then some ⟨sw, pw⟩ else none
      | _, _ => none
    else none
  | _ => none

end shard

/-! ## ECDSA signature (`ecdsa.Signature`): `{"r", "s", "v"}` with `v` null or 0…3 -/

structure SigW (F : Type) where
  r : F
  s : F
  v : Option Nat

/-- `ecdsa.NewSignature`: `r, s ≠ 0`, recovery id absent or in `0 … 3` -/
def validSigW {F : Type} [OfNat F 0] [DecidableEq F] (x : SigW F) : Bool :=
  decide (x.r ≠ 0) && decide (x.s ≠ 0) && (match x.v with | none => true | some v => decide (v ≤ 3))

def encRecId : Option Nat → Item
  | none => .simple 22
  | some v => .uint v

def decRecId : Item → Option (Option Nat)
  | .simple 22 => some none
  | .uint v => some (some v)
  | _ => none

def encSigW {F : Type} (io : ElemIO F) (x : SigW F) : Item :=
  .map [.text kR, encScalar io x.r, .text kS, encScalar io x.s, .text kV, encRecId x.v]

def decSigW {F : Type} [OfNat F 0] [DecidableEq F] (io : ElemIO F) : Item → Option (SigW F)
  | .map [.text k1, r, .text k2, s, .text k3, v] =>
    if k1 = kR ∧ k2 = kS ∧ k3 = kV then
      match decScalar io r, decScalar io s, decRecId v with
      | some r', some s', some v' => if validSigW ⟨r', s', v'⟩ then some ⟨r', s', v'⟩ else none
      | _, _, _ => none
    else none
  | _ => none

/-! ## Paillier public key (`paillier.PublicKey`):
`{"group": 5016({"n": {"natPlus": {"natBytes": h'…'}}})}`, the modulus as big-endian bytes -/

structure PaillierPK where
  nBytes : Bytes
  deriving DecidableEq, Repr

/-- `base.IFCKeyLength` -/
def ifcKeyLength : Nat := 3072

/-- `paillier.NewPublicKey`: the modulus has at least `IFCKeyLength` bits (`N.TrueLen() ≥ 3072`,
i.e. `2^3071 ≤ N`) -/
def validPaillierPK (v : PaillierPK) : Bool :=
  decide (2 ^ (ifcKeyLength - 1) ≤ beVal v.nBytes) && decide (v.nBytes.length < two64)

def encPaillierPK (v : PaillierPK) : Item :=
  .map [.text kGroup, .tag tagPaillierGroupUnknownOrder
    (.map [.text kN, .map [.text kNatPlus, .map [.text kNatBytes, .bytes v.nBytes]]])]

def decPaillierPK : Item → Option PaillierPK
  | .map [.text k1, .tag tg (.map [.text k2, .map [.text k3, .map [.text k4, .bytes b]]])] =>
    if k1 = kGroup ∧ tg = tagPaillierGroupUnknownOrder ∧ k2 = kN ∧ k3 = kNatPlus ∧ k4 = kNatBytes then
      if validPaillierPK ⟨b⟩ then some ⟨b⟩ else none
    else none
  | _ => none

/-! ## byte level -/

def decodeWith {T : Type} (dec : Item → Option T) (b : Bytes) : Option T := (decode b).bind dec
def encodeWith {T : Type} (enc : T → Item) (v : T) : Bytes := encode (enc v)

end BronVerif.Wire
