/-!
# Router model (C11) — core-only

A pure state machine for `routerCore` of `pkg/network/router.go`.  One model step is one critical
section of the Go code (a region executed while `mu` is held), or one atomic event outside the lock
(consuming the notify token in `select`, a context being cancelled).  Every interleaving that the
mutex permits is therefore a `List Step`, and the theorems in `Props/C11.lean` are proved by
induction over *arbitrary* step lists.

Representation.  Go keeps `boxes : map[cid]*mailbox` with `payloads : map[sender][]byte`,
`poison`, `notify`.  The model flattens the payload maps of all boxes into one association list
`entries : List ((cid × sender) × payload)` (the disjoint union of the per-box maps, so that
`buffered = Σ_box |payloads|` is `buffered = entries.length`), and keeps `poison` and the attached
waiter as functions of the correlation ID.  Whether an (empty, unpoisoned, unattached) box object
exists is not observable and not modelled.

What the model does not exhibit: the Go scheduler, the memory model, channel implementation
details (the 1-buffered `notify` channel is the Boolean `token`; `failed`/`ctx.Done()` are the
enabling conditions of `wakeFailed`/`wakeCtx`).
-/
namespace BronVerif.Router

/-! ## association lists -/
section Assoc
variable {K V : Type} [DecidableEq K]

def lookupE (k : K) : List (K × V) → Option V
  | [] => none
  | (k', v) :: l => if k' = k then some v else lookupE k l

/-- `delete(map, k)` -/
def eraseKey (k : K) : List (K × V) → List (K × V)
  | [] => []
  | (k', v) :: l => if k' = k then l else (k', v) :: eraseKey k l

end Assoc

/-- `hashset.NewComparable(froms...)`: the requested senders as a duplicate-free list -/
def dedup : List Nat → List Nat
  | [] => []
  | a :: l => if a ∈ dedup l then dedup l else a :: dedup l

/-- a finite partial map (the per-mailbox fields `poison`, `notify` of all mailboxes, keyed by the
correlation ID); applied like a function, absent keys are `none`.  (A list rather than a closure
so that the driver's cost per step does not grow with the age of the router.) -/
structure Tab (C α : Type) where
  l : List (C × α) := []

def Tab.get {C α : Type} [DecidableEq C] (t : Tab C α) (c : C) : Option α := lookupE c t.l

instance {C α : Type} [DecidableEq C] : CoeFun (Tab C α) (fun _ => C → Option α) := ⟨Tab.get⟩

def upd {C α : Type} [DecidableEq C] (f : Tab C α) (c : C) (v : Option α) : Tab C α :=
  ⟨v.toList.map (fun a => (c, a)) ++ f.l.filter (fun e => decide (e.1 ≠ c))⟩

/-- which failure was latched in `fatal` -/
inductive Fatal where
  | closed | full | decode | transport
  deriving DecidableEq, Repr

inductive Phase where
  /-- between two critical sections, about to take the lock and scan -/
  | running
  /-- blocked in `select { <-notify; <-ctx.Done(); <-failed }` -/
  | parked
  /-- the scan has decided the outcome; the deferred detach has not run yet -/
  | returning
  deriving DecidableEq, Repr

inductive Result (P : Type) where
  | complete (m : List (Nat × P))
  | poisoned (blame : Nat)
  | fatal (k : Fatal)
  | cancelled
  | concurrent
  deriving DecidableEq

/-- an attached `ReceiveFrom` call (`box.notify != nil`) -/
structure Waiter where
  exp : List Nat
  token : Bool
  phase : Phase
  cancelled : Bool
  deriving DecidableEq

structure Config where
  members : List Nat
  bound : Nat

structure State (C P : Type) where
  entries : List ((C × Nat) × P) := []
  buffered : Nat := 0
  poison : Tab C Nat := {}
  waiter : Tab C Waiter := {}
  fatal : Option Fatal := none
  /-- the reader goroutine has returned from `readLoop` -/
  stopped : Bool := false
  /-- ghost: outcome of every `ReceiveFrom`, newest first -/
  log : List (C × Result P) := []

def init {C P : Type} : State C P := {}

inductive Step (C P : Type) where
  /-- reader: `Delivery.Receive` returned a well-formed message; quorum filter, then `deposit` -/
  | deliver (sender : Nat) (cid : C) (p : P)
  /-- reader: `Delivery.Receive` returned bytes that do not decode -/
  | garbage (sender : Nat)
  /-- reader: `Delivery.Receive` returned an error (also: the reader's context was cancelled) -/
  | transportErr
  /-- `receiveFrom`: first critical section -/
  | attach (cid : C) (exp : List Nat)
  /-- `receiveFrom`: the locked scan in the loop -/
  | scan (cid : C)
  | wakeToken (cid : C)
  | wakeCtx (cid : C)
  | wakeFailed (cid : C)
  /-- `receiveFrom`: the deferred critical section -/
  | detach (cid : C)
  /-- the context of the receive attached to `cid` is cancelled -/
  | cancel (cid : C)
  /-- `shutdown` -/
  | close
  deriving DecidableEq

section Machine
variable {C P : Type} [DecidableEq C] [DecidableEq P]

def get (s : State C P) (cid : C) (id : Nat) : Option P := lookupE (cid, id) s.entries

/-- `mailbox.signal` -/
def signal (s : State C P) (cid : C) : State C P :=
  match s.waiter cid with
  | some w => { s with waiter := upd s.waiter cid (some { w with token := true }) }
  | none => s

/-- `failLocked` -/
def failWith (s : State C P) (k : Fatal) : State C P :=
  match s.fatal with
  | some _ => s
  | none => { s with fatal := some k }

/-- `readLoop` body for a decodable message: quorum filter + `deposit` -/
def deposit (cfg : Config) (s : State C P) (sender : Nat) (cid : C) (p : P) : State C P :=
  if s.stopped then s else
  if sender ∈ cfg.members then
    match get s cid sender with
    | some q =>
      if q = p then s
      else signal { s with poison := upd s.poison cid (some sender) } cid
    | none =>
      if cfg.bound ≤ s.buffered then { (failWith s .full) with stopped := true }
      else signal { s with entries := ((cid, sender), p) :: s.entries, buffered := s.buffered + 1 } cid
  else s

def garbageStep (cfg : Config) (s : State C P) (sender : Nat) : State C P :=
  if s.stopped then s else
  if sender ∈ cfg.members then { (failWith s .decode) with stopped := true } else s

def transportStep (s : State C P) : State C P :=
  if s.stopped then s else { (failWith s .transport) with stopped := true }

def attach (s : State C P) (cid : C) (exp : List Nat) : State C P :=
  match s.fatal with
  | some k => { s with log := (cid, .fatal k) :: s.log }
  | none =>
    match s.waiter cid with
    | some _ => { s with log := (cid, .concurrent) :: s.log }
    | none =>
      let w : Waiter := { exp := dedup exp, token := false, phase := .running, cancelled := false }
      { s with waiter := upd s.waiter cid (some w) }

def isComplete (s : State C P) (cid : C) (exp : List Nat) : Bool :=
  exp.all fun id => (get s cid id).isSome

def collected (s : State C P) (cid : C) (exp : List Nat) : List (Nat × P) :=
  exp.filterMap fun id => (get s cid id).map fun p => (id, p)

/-- `for from := range expected.Iter() { delete(box.payloads, from) }` -/
def removeAll (cid : C) (exp : List Nat) (l : List ((C × Nat) × P)) : List ((C × Nat) × P) :=
  exp.foldl (fun l id => eraseKey (cid, id) l) l

def finish (s : State C P) (cid : C) (w : Waiter) (r : Result P) : State C P :=
  { s with waiter := upd s.waiter cid (some { w with phase := .returning }), log := (cid, r) :: s.log }

/-- the locked scan: poison, then a complete set, then a latched failure, then cancellation -/
def scan (s : State C P) (cid : C) : State C P :=
  match s.waiter cid with
  | none => s
  | some w =>
    if w.phase = .running then
      match s.poison cid with
      | some b => finish s cid w (.poisoned b)
      | none =>
        if isComplete s cid w.exp then
          finish { s with entries := removeAll cid w.exp s.entries,
                          buffered := s.buffered - w.exp.length } cid w
            (.complete (collected s cid w.exp))
        else
          match s.fatal with
          | some k => finish s cid w (.fatal k)
          | none =>
            if w.cancelled then finish s cid w .cancelled
            else { s with waiter := upd s.waiter cid (some { w with phase := .parked }) }
    else s

def wake (s : State C P) (cid : C) (enabled : Waiter → Bool) (consume : Bool) : State C P :=
  match s.waiter cid with
  | none => s
  | some w =>
    if w.phase = .parked ∧ enabled w = true then
      let w' : Waiter := { w with phase := .running, token := if consume then false else w.token }
      { s with waiter := upd s.waiter cid (some w') }
    else s

def detach (s : State C P) (cid : C) : State C P :=
  match s.waiter cid with
  | none => s
  | some w => if w.phase = .returning then { s with waiter := upd s.waiter cid none } else s

def cancelStep (s : State C P) (cid : C) : State C P :=
  match s.waiter cid with
  | none => s
  | some w => { s with waiter := upd s.waiter cid (some { w with cancelled := true }) }

def step (cfg : Config) (s : State C P) : Step C P → State C P
  | .deliver sender cid p => deposit cfg s sender cid p
  | .garbage sender => garbageStep cfg s sender
  | .transportErr => transportStep s
  | .attach cid exp => attach s cid exp
  | .scan cid => scan s cid
  | .wakeToken cid => wake s cid (fun w => w.token) true
  | .wakeCtx cid => wake s cid (fun w => w.cancelled) false
  | .wakeFailed cid => wake s cid (fun _ => s.fatal.isSome) false
  | .detach cid => detach s cid
  | .cancel cid => cancelStep s cid
  | .close => failWith s .closed

def run (cfg : Config) (tr : List (Step C P)) (s : State C P) : State C P := tr.foldl (step cfg) s

/-- the payload the property demands: the first one `id` (a member) sent under exactly `cid` -/
def firstDeposit (cfg : Config) (tr : List (Step C P)) (cid : C) (id : Nat) : Option P :=
  tr.findSome? fun
    | .deliver sender c p => if sender = id ∧ c = cid ∧ id ∈ cfg.members then some p else none
    | _ => none

/-- does the locked scan of the receive attached to `cid`, taken in state `s`, collect the payload
of sender `id`? -/
def collects (s : State C P) (cid : C) (id : Nat) : Bool :=
  match s.waiter cid with
  | some w => decide (w.phase = .running) && (s.poison cid).isNone && isComplete s cid w.exp && decide (id ∈ w.exp)
  | none => false

/-- ghost: the first payload `id` (a member) deposited under exactly `cid` since the last
completed collection of `(cid, id)`; `s` is the state in which the step is taken -/
def sinceStep (cfg : Config) (cid : C) (id : Nat) (s : State C P) (acc : Option P) : Step C P → Option P
  | .deliver sender c p =>
    if sender = id ∧ c = cid ∧ id ∈ cfg.members then
      (match acc with
       | some q => some q
       | none => some p)
    else acc
  | .scan c => if c = cid ∧ collects s cid id = true then none else acc
  | _ => acc

def sinceRun (cfg : Config) (cid : C) (id : Nat) (tr : List (Step C P)) : State C P × Option P :=
  tr.foldl (fun sa st => (step cfg sa.1 st, sinceStep cfg cid id sa.1 sa.2 st)) (init, none)

/-- the payload the property demands without the one-exchange hypothesis -/
def firstSince (cfg : Config) (tr : List (Step C P)) (cid : C) (id : Nat) : Option P :=
  (sinceRun cfg cid id tr).2

/-! ### mailbox objects (`boxes : map[string]*mailbox`)

Which keys the Go map `boxes` holds is not part of `State` (no result of `ReceiveFrom` depends on
it); it is tracked beside the state by `boxesStep`, which mirrors the three sites of `router.go`
that touch the map: `boxFor` in `deposit` (after the quorum filter, before anything else),
`boxFor` in the first critical section of `receiveFrom` (after the `fatal` check), and the
`delete` in the deferred section (`len(box.payloads) == 0 && box.poison == nil`). -/

def hasEntries (s : State C P) (cid : C) : Bool := s.entries.any fun e => decide (e.1.1 = cid)

def addBox (cid : C) (b : List C) : List C := if cid ∈ b then b else cid :: b

/-- the key set of `boxes` after the step `st` taken in state `s` -/
def boxesStep (cfg : Config) (s : State C P) (b : List C) : Step C P → List C
  | .deliver sender cid _ => if s.stopped then b else if sender ∈ cfg.members then addBox cid b else b
  | .attach cid _ =>
    match s.fatal with
    | some _ => b
    | none => addBox cid b
  | .detach cid =>
    match s.waiter cid with
    | some w =>
      if w.phase = .returning ∧ hasEntries s cid = false ∧ s.poison cid = none then b.erase cid else b
    | none => b
  | _ => b

/-- state and mailbox keys after a step sequence -/
def runBoxes (cfg : Config) (tr : List (Step C P)) (sb : State C P × List C) : State C P × List C :=
  tr.foldl (fun sb st => (step cfg sb.1 st, boxesStep cfg sb.1 sb.2 st)) sb

/-- no `ReceiveFrom` on `cid` has collected yet ("each correlation identifier is used for one exchange") -/
def noCollect (s : State C P) (cid : C) : Prop :=
  ∀ m, (cid, Result.complete m) ∉ s.log

end Machine

/-! ## Namespacing: `Router.Namespaced` prefixes `namespace ++ "/"` -/

def sep : Char := '/'

/-- the correlation ID on the wire of a view nested in namespaces `path` (outermost first) -/
def wire : List (List Char) → List Char → List Char
  | [], cid => cid
  | ns :: rest, cid => ns ++ sep :: wire rest cid

/-! ## Harness linearisation

The harness drives the real router one event at a time and waits for quiescence (every goroutine
durably blocked) before the next event.  `Sched` reproduces that discipline on the model: it only
ever applies `step`, and records the list of steps it applied, so that the final state is
`run cfg steps init` (re-checked by the driver at run time). -/
namespace Sched
variable {C P : Type} [DecidableEq C] [DecidableEq P]

inductive Item (C P : Type) where
  | msg (sender : Nat) (cid : C) (p : P)
  | garbage (sender : Nat)
  | err

inductive Event (C P : Type) where
  | enqueue (items : List (Item C P))
  | recv (rid : Nat) (cid : C) (exp : List Nat) (pre : Bool)
  /-- a receive that the harness holds between its first scan (unlock) and its `select`: no
  wake-up transition of it is scheduled until `release` -/
  | recvHeld (rid : Nat) (cid : C) (exp : List Nat)
  | release (rid : Nat)
  | cancel (rid : Nat)
  | close

structure L2 (C P : Type) where
  core : State C P := {}
  steps : List (Step C P) := []          -- newest first
  queue : List (Item C P) := []
  started : Bool := false
  active : List (Nat × C) := []
  results : List (Nat × Nat × Result P) := []   -- rid, index of the event, outcome; newest first
  /-- receives held before their `select` -/
  held : List Nat := []
  /-- keys of the Go map `boxes` (see `boxesStep`) -/
  boxes : List C := []
  /-- `(buffered, number of mailbox objects)` after every event; newest first -/
  obs : List (Nat × Nat) := []
  /-- index of the event during which `ErrReceiveBufferFull` was latched -/
  fullAt : Option Nat := none

def doStep (cfg : Config) (l : L2 C P) (st : Step C P) : L2 C P :=
  { l with core := step cfg l.core st, steps := st :: l.steps, boxes := boxesStep cfg l.core l.boxes st }

def isReturning (l : L2 C P) (cid : C) : Bool :=
  match l.core.waiter cid with
  | some w => w.phase = .returning
  | none => false

/-- after a scan: if the outcome is decided, record it, run the deferred detach -/
def harvest (cfg : Config) (k rid : Nat) (cid : C) (l : L2 C P) : L2 C P :=
  if isReturning l cid then
    match l.core.log with
    | (_, r) :: _ =>
      let l := doStep cfg l (.detach cid)
      { l with results := (rid, k, r) :: l.results, active := l.active.filter (fun a => a.1 ≠ rid) }
    | [] => l
  else l

def settleOne (cfg : Config) (k : Nat) (l : L2 C P) (a : Nat × C) : L2 C P :=
  if a.1 ∈ l.held then l else
  match l.core.waiter a.2 with
  | some w =>
    if w.phase = .parked then
      let wk : Option (Step C P) :=
        if w.token then some (.wakeToken a.2)
        else if w.cancelled then some (.wakeCtx a.2)
        else if l.core.fatal.isSome then some (.wakeFailed a.2)
        else none
      match wk with
      | some wk => harvest cfg k a.1 a.2 (doStep cfg (doStep cfg l wk) (.scan a.2))
      | none => l
    else l
  | none => l

def settle (cfg : Config) (k : Nat) (l : L2 C P) : L2 C P := l.active.foldl (settleOne cfg k) l

def readerStep : Item C P → Step C P
  | .msg sender cid p => .deliver sender cid p
  | .garbage sender => .garbage sender
  | .err => .transportErr

def pump (cfg : Config) (k : Nat) : Nat → L2 C P → L2 C P
  | 0, l => l
  | fuel + 1, l =>
    let l := settle cfg k l
    if l.started ∧ l.core.stopped = false then
      match l.queue with
      | [] => l
      | it :: q => pump cfg k fuel (doStep cfg { l with queue := q } (readerStep it))
    else l

def pumpAll (cfg : Config) (k : Nat) (l : L2 C P) : L2 C P := pump cfg k (l.queue.length + 1) l

def recvEvent (cfg : Config) (k : Nat) (l : L2 C P) (rid : Nat) (cid : C) (exp : List Nat) (pre hold : Bool) : L2 C P :=
  let n0 := l.core.log.length
  let fatal0 := l.core.fatal
  let l1 := doStep cfg l (.attach cid exp)
  let l1 := { l1 with started := l.started || fatal0.isNone }
  if l1.core.log.length > n0 then
    match l1.core.log with
    | (_, r) :: _ => pumpAll cfg k { l1 with results := (rid, k, r) :: l1.results }
    | [] => l1
  else
    let l2 := { l1 with active := l1.active ++ [(rid, cid)], held := if hold then rid :: l1.held else l1.held }
    let l2 := if pre then doStep cfg l2 (.cancel cid) else l2
    let l2 := harvest cfg k rid cid (doStep cfg l2 (.scan cid))
    pumpAll cfg k l2

def event (cfg : Config) (k : Nat) (l : L2 C P) : Event C P → L2 C P
  | .enqueue items => pumpAll cfg k { l with queue := l.queue ++ items }
  | .recv rid cid exp pre => recvEvent cfg k l rid cid exp pre false
  | .recvHeld rid cid exp => recvEvent cfg k l rid cid exp false true
  | .release rid => pumpAll cfg k { l with held := l.held.filter (· ≠ rid) }
  | .cancel rid =>
    match l.active.find? (fun a => a.1 = rid) with
    | some a => pumpAll cfg k (doStep cfg l (.cancel a.2))
    | none => l
  | .close =>
    let l1 := doStep cfg l .close
    let l1 := if l1.started ∧ l1.core.stopped = false then doStep cfg l1 .transportErr else l1
    pumpAll cfg k l1

def runEvents (cfg : Config) (evs : List (Event C P)) : L2 C P :=
  (evs.foldl (fun (acc : Nat × L2 C P) ev =>
    let l := event cfg acc.1 acc.2 ev
    let fullAt := match l.fullAt with
      | some k => some k
      | none => if l.core.fatal = some .full then some acc.1 else none
    (acc.1 + 1, { l with obs := (l.core.buffered, l.boxes.length) :: l.obs, fullAt := fullAt })) (0, {})).2

end Sched

end BronVerif.Router
