import BronVerif.Model.Util
/-!
# Big-number conventions and number-theoretic algorithms (core-only)

Lean's `Nat` and `Int` *are* the specification of C17: `+ - * / % gcd lcm` on them are the mathematical
values.  This file only fixes the **conventions** of the Go API (package `numct`/`num`):

* capacity: a `numct.Nat` created or computed with announced capacity `cap` holds its value modulo
  `2^cap` (`trunc`); default capacities of results are `max+1` (add), `max` (sub, bitwise), sum (mul),
  `cap ± shift` (shifts);
* `Int.Div`/`DivVarTime` are *truncated* division (`Int.tdiv`/`Int.tmod`, remainder has the sign of the
  numerator); `Int.EuclideanDiv*` are *Euclidean* (`Int.ediv`/`Int.emod`, `0 ≤ r < |d|`);
* byte strings are big-endian; `Int.Bytes` is sign-magnitude (`00`/`01` prefix), two's complement on
  `announced+1` bits rounded up to bytes;

and gives the algorithms whose results are compared: `powMod` (square-and-multiply), `powModI` (signed
exponent), `invMod` (extended Euclid), `gcdBin`/`lcmBin` (the binary gcd of `numct/internal/gcd.go` round by
round, `numct.LCM`), `tdivFromAbs`/`edivFromAbs` (the magnitude-and-sign derivations of `numct.Int.Div` /
`EuclideanDiv`), `ratFloor`/`ratCeil`, `symMod`, `isqrt`, `isQR`/`sqrtMod` (Euler criterion, Tonelli–Shanks),
`jacobi`/`jacobiChecked` (the binary Kronecker algorithm of `nt/jacobi_purego.go`, with the *signed*
reduction of a negative numerator, and its even-denominator guard), `crt2`, Miller–Rabin.  Everything is structural recursion on fuel so that `Props/C17.lean` can reason
about the very definitions the driver executes.
-/
namespace BronVerif.BigNum

/-- the capacity convention: keep `cap` low bits (`cap ≤ 0` keeps nothing) -/
def trunc (n : Nat) (cap : Int) : Nat := n % 2 ^ cap.toNat

/-- sign-magnitude truncation of an integer (the sign is kept, the magnitude truncated) -/
def truncI (i : Int) (cap : Int) : Int :=
  if i < 0 then - ((trunc i.natAbs cap : Nat) : Int) else ((trunc i.natAbs cap : Nat) : Int)

/-- number of bits of `n` (`0` for `0`) -/
def bitLen (n : Nat) : Nat := if n = 0 then 0 else n.log2 + 1

/-! ### division conventions -/

/-- truncated division (Go `Int.Div`): quotient rounded towards zero, remainder with the sign of `a` -/
def tdivmod (a b : Int) : Int × Int := (Int.tdiv a b, Int.tmod a b)
/-- Euclidean division (Go `Int.EuclideanDiv`): `0 ≤ r < |b|` -/
def edivmod (a b : Int) : Int × Int := (a / b, a % b)

/-- the way `numct.Int.Div` computes the truncated division: divide the magnitudes, then give the quotient
the sign `sign a ⊕ sign b` and the remainder the sign of `a` -/
def tdivFromAbs (a b : Int) : Int × Int :=
  let q : Int := ((a.natAbs / b.natAbs : Nat) : Int)
  let r : Int := ((a.natAbs % b.natAbs : Nat) : Int)
  (if decide (a < 0) != decide (b < 0) then -q else q, if a < 0 then -r else r)

/-- the way `numct.Int.EuclideanDiv` derives the Euclidean division from the division of the magnitudes
(`sa`, `sb` the signs, `z` = remainder of the magnitudes is zero) -/
def edivFromAbs (a b : Int) : Int × Int :=
  let qq : Int := ((a.natAbs / b.natAbs : Nat) : Int)
  let rr : Int := ((a.natAbs % b.natAbs : Nat) : Int)
  let qa : Int := if ¬ a < 0 then qq else if rr = 0 then -qq else -qq - 1
  let r : Int := if ¬ a < 0 then rr else if rr = 0 then 0 else (b.natAbs : Int) - rr
  (if b < 0 then -qa else qa, r)

/-- `num.Rat.Floor` / `Ceil` of `a / d` (`d > 0`): Euclidean quotient, plus one when the remainder is not zero -/
def ratFloor (a : Int) (d : Nat) : Int := (edivFromAbs a d).1
def ratCeil (a : Int) (d : Nat) : Int := if (edivFromAbs a d).2 = 0 then (edivFromAbs a d).1 else (edivFromAbs a d).1 + 1

/-- `Modulus.ModSymmetric`: the representative of `x mod m` in `[-m/2, m/2)` -/
def symMod (x : Int) (m : Nat) : Int := let r := x % (m : Int); if 2 * r ≥ m then r - m else r

/-! ### modular exponentiation -/

def powModAux (m : Nat) : Nat → Nat → Nat → Nat → Nat
  | 0, _, _, acc => acc
  | fuel + 1, b, e, acc =>
    if e = 0 then acc
    else powModAux m fuel (b * b % m) (e / 2) (if e % 2 = 1 then acc * b % m else acc)

/-- square-and-multiply; `powMod b e m = b ^ e % m` (`Props.C17.powMod_eq`) -/
def powMod (b e m : Nat) : Nat := powModAux m (e.log2 + 1) (b % m) e (1 % m)

/-! ### modular inverse by the extended Euclidean algorithm -/

/-- invariant: `r0 ≡ s0 * a`, `r1 ≡ s1 * a (mod m)`; returns `(gcd, s)` with `gcd ≡ s * a` -/
def xgcdAux : Nat → Int → Int → Int → Int → Int × Int
  | 0, r0, _, s0, _ => (r0, s0)
  | fuel + 1, r0, r1, s0, s1 =>
    if r1 = 0 then (r0, s0)
    else xgcdAux fuel r1 (r0 % r1) s1 (s0 - (r0 / r1) * s1)

/-- `some x` with `a * x % m = 1` exactly when `gcd a m = 1` (for `m > 1`); modulus `0`/`1`: `none`
(convention of `ModInv`: the inverse is recognised by `x * a ≡ 1`, unsatisfiable as a residue for `m = 1`) -/
def invMod (a m : Nat) : Option Nat :=
  if m ≤ 1 then none else
  let r := xgcdAux (m + 1) (m : Int) ((a % m : Nat) : Int) 0 1
  if r.1 = 1 then some (r.2 % (m : Int)).toNat else none

/-- `x^e mod m` for a signed exponent (`ModExpI`, `Zn.ExpI`): a negative exponent is the power of the
inverse, undefined (`none`) when `x` is not a unit; modulo 1 everything is 0 -/
def powModI (x : Nat) (e : Int) (m : Nat) : Option Nat :=
  if e ≥ 0 then some (powMod x e.toNat m) else
  if m = 1 then some 0 else
  (invMod x m).map fun xi => powMod xi e.natAbs m

/-! ### gcd and lcm: the binary (Stein) algorithm of `numct/internal/gcd.go`, `numct.LCM` -/

/-- one round of `internal.GCD` on `(u, v, shift)`: halve the even ones (doubling `shift` when both are),
order them so that `u ≤ v`, subtract when both are odd -/
def gcdStep (u v sh : Nat) : Nat × Nat × Nat :=
  let u1 := if u % 2 = 0 then u / 2 else u
  let v1 := if v % 2 = 0 then v / 2 else v
  let sh1 := if u % 2 = 0 ∧ v % 2 = 0 then 2 * sh else sh
  let u2 := if v1 < u1 then v1 else u1
  let v2 := if v1 < u1 then u1 else v1
  let v3 := if u2 % 2 = 1 ∧ v2 % 2 = 1 then v2 - u2 else v2
  (u2, v3, sh1)

def gcdLoop : Nat → Nat → Nat → Nat → Nat × Nat × Nat
  | 0, u, v, sh => (u, v, sh)
  | n + 1, u, v, sh => let r := gcdStep u v sh; gcdLoop n r.1 r.2.1 r.2.2

/-- `internal.GCD` at capacity `cap = max` of the announced lengths: `2·cap` rounds on the operands
truncated to `cap` bits, result `v · shift` on `cap` bits.  `Props.C17.gcd_eq`: this is `Nat.gcd`, for
every capacity at least the true lengths. -/
def gcdBin (cap x y : Nat) : Nat :=
  let r := gcdLoop (2 * cap) (x % 2 ^ cap) (y % 2 ^ cap) 1
  (r.2.1 * r.2.2) % 2 ^ cap

/-- `numct.LCM`: `0` when an operand is `0`, else `a·b / gcd(a, b)` -/
def lcmBin (cap a b : Nat) : Nat := if a = 0 ∨ b = 0 then 0 else a * b / gcdBin cap a b

/-! ### integer square root -/

def isqrtAux : Nat → Nat → Nat → Nat
  | 0, _, x => x
  | fuel + 1, n, x =>
    let y := (x + n / x) / 2
    if y < x then isqrtAux fuel n y else x

/-- floor of the square root (Newton iteration from above, started at `2^⌈bitLen n / 2⌉ > √n`).
The fuel is the start value itself (every productive round lowers the guess by at least one; the loop
stops long before, after `O(log n)` rounds): `Props.C17.isqrt_spec`. -/
def isqrt (n : Nat) : Nat :=
  if n = 0 then 0 else isqrtAux (2 ^ ((bitLen n + 1) / 2) + 1) n (2 ^ ((bitLen n + 1) / 2))

/-- `some r` with `r * r = n` for perfect squares -/
def sqrtExact? (n : Nat) : Option Nat := let r := isqrt n; if r * r = n then some r else none

/-! ### quadratic residues and square roots modulo a prime -/

/-- Euler's criterion (for an odd prime `p`): `a` is a square modulo `p` -/
def isQR (a p : Nat) : Bool := a % p == 0 || powMod a ((p - 1) / 2) p == 1

/-- remove factors of two: `(s, q)` with `n = 2^s * q`, `q` odd (for `n > 0`) -/
def twoAdic : Nat → Nat → Nat × Nat
  | 0, n => (0, n)
  | fuel + 1, n => if n % 2 = 0 ∧ n ≠ 0 then let r := twoAdic fuel (n / 2); (r.1 + 1, r.2) else (0, n)

def findNonResidue : Nat → Nat → Nat → Nat
  | 0, _, z => z
  | fuel + 1, p, z => if powMod z ((p - 1) / 2) p == p - 1 then z else findNonResidue fuel p (z + 1)

def tsInner : Nat → Nat → Nat → Nat → Nat   -- least i with t^(2^i) = 1
  | 0, _, _, i => i
  | fuel + 1, p, t, i => if t == 1 then i else tsInner fuel p (t * t % p) (i + 1)

def tsLoop : Nat → Nat → Nat → Nat → Nat → Nat → Nat
  | 0, _, _, _, _, r => r
  | fuel + 1, p, m, c, t, r =>
    if t == 1 then r else
    let i := tsInner m p t 0
    if i ≥ m then r else
    let b := powMod c (2 ^ (m - i - 1)) p
    tsLoop fuel p i (b * b % p) (t * (b * b % p) % p) (r * b % p)

/-- Tonelli–Shanks candidate root modulo an odd prime `p` -/
def sqrtCandidate (a p : Nat) : Nat :=
  if p % 4 = 3 then powMod a ((p + 1) / 4) p else
  let sq := twoAdic (bitLen p) (p - 1)
  let z := findNonResidue p p 2   -- fuel `p`: the search stops at the least non-residue ≥ 2
  tsLoop (sq.1 + 1) p sq.1 (powMod z sq.2 p) (powMod a sq.2 p) (powMod a ((sq.2 + 1) / 2) p)

/-- a root is only ever returned after squaring it back (as `modSqrtPrime` does) -/
def sqrtMod (a p : Nat) : Option Nat :=
  let r := sqrtCandidate (a % p) p
  if r * r % p = a % p then some r else none

/-! ### Jacobi symbol: the binary (Kronecker) algorithm of `nt/jacobi_purego.go` -/

/-- `(-1)^((b²-1)/8)` for odd `b` (the table `jacobiTab`) -/
def jacobiTab (b : Nat) : Int :=
  match b % 8 with
  | 1 => 1 | 3 => -1 | 5 => -1 | 7 => 1 | _ => 0

/-- the loop of `nt.Jacobi`: strip the twos of `a`, apply the supplementary law and reciprocity,
replace `(a, b)` by `(b mod a, a)` -/
def jacobiLoop : Nat → Nat → Nat → Int → Int
  | 0, _, _, _ => 0
  | fuel + 1, a, b, ret =>
    if a = 0 then (if b = 1 then ret else 0) else
    let ia := twoAdic (bitLen a) a
    let a' := ia.2
    let ret := if ia.1 % 2 = 1 then ret * jacobiTab b else ret
    let ret := if a' % 4 = 3 ∧ b % 4 = 3 then -ret else ret
    jacobiLoop fuel (b % a') a' ret

/-- the correct algorithm: a negative numerator is first reduced to `x mod y ∈ [0, y)` -/
def jacobi (x : Int) (y : Nat) : Int :=
  let a : Nat := if x < 0 then (x % (y : Int)).toNat else x.toNat
  jacobiLoop (a + 1) a y 1

/-- `nt.Jacobi` with its guard: an even `y` is refused (`y` is a `NatPlus`, so `y = 0` cannot be passed) -/
def jacobiChecked (x : Int) (y : Nat) : Option Int := if y % 2 = 0 then none else some (jacobi x y)

/-- the purego variant that reduces `|x|` instead of `x` (the defect of DESIGN §9(a)) -/
def jacobiAbsVariant (x : Int) (y : Nat) : Int :=
  let a : Nat := if x < 0 then x.natAbs % y else x.toNat
  jacobiLoop (a + 1) a y 1

/-! ### Chinese remaindering -/

/-- Garner: `mq + q * ((mp - mq) * q⁻¹ mod p)` — the formula of `crt.Params.Recombine` -/
def crt2 (a b p q : Nat) : Option Nat :=
  match invMod (q % p) p with
  | none => if p = 1 then some (b % q) else none
  | some qi =>
    let h := ((a % p + p - b % p) % p) * qi % p
    some (b % q + q * h)   -- for reduced `b`

/-- incremental CRT over a list of (residue, modulus) pairs -/
def crtList : List (Nat × Nat) → Option (Nat × Nat)
  | [] => some (0, 1)
  | (a, m) :: rest =>
    match crtList rest with
    | none => none
    | some (x, n) => (crt2 a x m n).map fun r => (r, m * n)

/-! ### Miller–Rabin -/

def mrLoop : Nat → Nat → Nat → Bool
  | 0, _, _ => false
  | fuel + 1, n, x => if x == n - 1 then true else if x == 1 then false else mrLoop fuel n (x * x % n)

def mrWitnessOk (n s d a : Nat) : Bool :=
  let a := a % n
  if a == 0 then true else
  let x := powMod a d n
  x == 1 || x == n - 1 || mrLoop (s - 1) n (x * x % n)

def mrBases : List Nat :=
  [2, 3, 5, 7, 11, 13, 17, 19, 23, 29, 31, 37, 41, 43, 47, 53, 59, 61, 67, 71, 73, 79, 83, 89, 97,
   101, 103, 107, 109, 113, 127, 131, 137, 139, 149, 151, 157, 163, 167, 173]

/-- Miller–Rabin with the first 40 primes as bases (a *probable*-prime test: see `level_note`) -/
def probablyPrime (n : Nat) : Bool :=
  if n < 2 then false else
  if mrBases.contains n then true else
  if mrBases.any (fun p => n % p == 0) then false else
  let sd := twoAdic (bitLen n) (n - 1)
  mrBases.all (mrWitnessOk n sd.1 sd.2)

/-! ### byte conversions -/

def natToBytes (n len : Nat) : List Nat := (List.range len).map fun i => (n / 256 ^ (len - 1 - i)) % 256
def bytesToNat (bs : List Nat) : Nat := bs.foldl (fun acc b => acc * 256 + b) 0

/-- two's complement of `i` on `8*len` bits -/
def twosEncode (i : Int) (len : Nat) : Nat := (i % (2 ^ (8 * len) : Nat)).toNat
def twosDecode (n len : Nat) : Int :=
  if len = 0 then 0 else if n ≥ 2 ^ (8 * len - 1) then (n : Int) - (2 ^ (8 * len) : Nat) else n

end BronVerif.BigNum
