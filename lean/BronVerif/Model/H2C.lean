import BronVerif.Model.Hash.Keccak
import BronVerif.Model.Hash.Sha2
import BronVerif.Model.Hash.Blake2b
import BronVerif.Model.Util
/-!
Executable, core-only model of RFC 9380 §5: `expand_message_xmd`, `expand_message_xof`, `hash_to_field`,
as implemented in `/repo/pkg/base/curves/impl/rfc9380` (compared byte for byte with the Go expanders and
`ScalarField.Hash`).  The maps to the curves, cofactor clearing and `hash_to_curve` are in `Model/H2CMap.lean`.
-/
namespace BronVerif.H2C
open BronVerif BronVerif.Hash

/-- a fixed-output hash together with its input block size `s_in_bytes` -/
structure XmdHash where
  H : ByteArray → ByteArray
  blockSize : Nat

def xmdSha256 : XmdHash := ⟨sha256, 64⟩
def xmdSha512 : XmdHash := ⟨sha512, 128⟩
def xmdSha3_256 : XmdHash := ⟨sha3_256, 136⟩
def xmdBlake2b512 : XmdHash := ⟨blake2b512, 128⟩

def i2osp (x len : Nat) : ByteArray := natToBytesBE x len

def xorBytes (a b : ByteArray) : ByteArray :=
  Nat.fold a.size (fun i _ o => o.push (a.get! i ^^^ b.get! i)) (ByteArray.emptyWithCapacity a.size)

/-- `expand_message_xmd(msg, DST, len_in_bytes)`; `none` where the RFC aborts (`ell > 255` or
`len_in_bytes > 65535`; the Go code panics there).  The model follows the code in also aborting for
`len_in_bytes = 0` (the Go expander indexes `b[1]` of a one-element slice and panics; the RFC would return
the empty string; no suite ever requests zero bytes). -/
def expandXmd (h : XmdHash) (dst msg : ByteArray) (len : Nat) : Option ByteArray :=
  let dst := if dst.size > 255 then h.H ("H2C-OVERSIZE-DST-".toUTF8 ++ dst) else dst
  let b := (h.H ByteArray.empty).size
  let ell := (len + b - 1) / b
  if ell > 255 || len > 65535 || len = 0 then none else
  let dstPrime := dst ++ i2osp dst.size 1
  let msgPrime := i2osp 0 h.blockSize ++ msg ++ i2osp len 2 ++ i2osp 0 1 ++ dstPrime
  let b0 := h.H msgPrime
  let b1 := h.H (b0 ++ i2osp 1 1 ++ dstPrime)
  let (_, out) := Nat.fold (ell - 1) (fun j _ (st : ByteArray × ByteArray) =>
      let bi := h.H (xorBytes b0 st.1 ++ i2osp (j + 2) 1 ++ dstPrime)
      (bi, st.2 ++ bi)) (b1, b1)
  some (out.extract 0 len)

/-- `expand_message_xof(msg, DST, len_in_bytes)` for an XOF `X msg outLen` and security level `k` bits -/
def expandXof (X : ByteArray → Nat → ByteArray) (k : Nat) (dst msg : ByteArray) (len : Nat) : Option ByteArray :=
  let dst := if dst.size > 255 then X ("H2C-OVERSIZE-DST-".toUTF8 ++ dst) ((2 * k + 7) / 8) else dst
  if len > 65535 then none else
  some (X (msg ++ i2osp len 2 ++ dst ++ i2osp dst.size 1) len)

/-- `hash_to_field` for a prime field (`m = 1`): `count` elements `OS2IP(tv_i) mod p`, `tv_i` the `i`-th
`L`-byte block of the expanded message -/
def hashToField (expand : ByteArray → ByteArray → Nat → Option ByteArray) (p L count : Nat)
    (dst msg : ByteArray) : Option (List Nat) :=
  (expand dst msg (count * L)).map fun u =>
    (List.range count).map fun i => bytesToNatBE (u.extract (L * i) (L * i + L)) % p

/-- `hash_to_field` for extension degree `m`: `count` elements of `m` components each, component `j` of
element `i` being `OS2IP` of the `L` bytes at offset `L * (j + i * m)` reduced mod `p` -/
def hashToFieldM (expand : ByteArray → ByteArray → Nat → Option ByteArray) (p m L count : Nat)
    (dst msg : ByteArray) : Option (List (List Nat)) :=
  (expand dst msg (count * m * L)).map fun u =>
    (List.range count).map fun i => (List.range m).map fun j =>
      bytesToNatBE (u.extract (L * (j + i * m)) (L * (j + i * m) + L)) % p

end BronVerif.H2C
