import BronVerif.Model.CheckGraph
/-! # Per-row predicate families and vector-valued leaves (C04) — core-only

Under a non-ideal access structure a party owns several MSP rows: its share, its sub-shares and its
partial signature are VECTORS with one component per row. A predicate of the check graph marked
`perRow` is a *family*: one predicate per row, evaluated on component `i` of the vector it binds
against the key material of row `i`.

* `Pred.components`, `receiveRows` — the receiver loop over the expanded family
  (`for sender { for pred { for i, key := range keys(sender) { if !check key xs[i] { abort(tag sender) }}}}`).
* `Vec.perComponent` — what the code must do;  `Vec.summed` — the aggregate form a per-row check must
  NOT be weakened to (sum of the components against the sum of the keys);  `Vec.recombine` — the
  linear recombination `Σ cᵢ • xᵢ` an aggregator applies afterwards.

`Props/C04.lean` proves that the per-component family detects every change of a partial signature
(`detect_boldyreva_component`) and exhibits a paired shift that the summed form accepts while the
recombined output is invalid (`summed_check_misses_paired_shift`).
-/
namespace BronVerif.CheckGraph

/-- member `row` of the family of a per-row predicate (row 0 for an ordinary predicate) -/
structure CompPred where
  pred : Pred
  row : Nat
  deriving DecidableEq, Repr, Inhabited

/-- the family of `p` for a sender that owns `rows` MSP rows -/
def Pred.components (p : Pred) (rows : Nat) : List CompPred :=
  if p.perRow then (List.range rows).map fun i => ⟨p, i⟩ else [⟨p, 0⟩]

/-- all component predicates evaluated on the message of a sender owning `rows` rows, in code order -/
def componentsOf (preds : List Pred) (rows : Nat) : List CompPred :=
  preds.flatMap (·.components rows)

/-- the receiver loop with per-row families: first failing component aborts, blaming the sender when
the predicate is tagged -/
def receiveRows {ι : Type} (preds : List Pred) (rows : ι → Nat) (passes : CompPred → ι → Bool) :
    List ι → Verdict ι
  | [] => .accept
  | s :: rest =>
    match (componentsOf preds (rows s)).find? fun c => !passes c s with
    | some c => .reject (if c.pred.tagged then some s else none)
    | none => receiveRows preds rows passes rest

namespace Vec

variable {K X C : Type}

/-- `if len(xs) != len(keys) {abort}; for i, k := range keys { if !check(k, xs[i]) {abort} }` -/
def perComponent (check : K → X → Bool) (keys : List K) (xs : List X) : Bool :=
  keys.length == xs.length && (List.zipWith check keys xs).all id

/-- index of the first failing component -/
def firstFailing (check : K → X → Bool) (keys : List K) (xs : List X) : Option Nat :=
  (List.zipWith check keys xs).findIdx? (fun b => !b)

/-- sum of a vector (left fold, as `AggregateSignatures` / the summed public key do) -/
def total [Add X] [OfNat X 0] (xs : List X) : X := xs.foldl (· + ·) 0

/-- the AGGREGATE form: one check of the summed components against the summed keys -/
def summed [Add K] [OfNat K 0] [Add X] [OfNat X 0] (check : K → X → Bool) (keys : List K) (xs : List X) : Bool :=
  keys.length == xs.length && check (total keys) (total xs)

/-- `Σ cᵢ • xᵢ`: the recombination with the reconstruction coefficients of the rows -/
def recombine [Add X] [OfNat X 0] (smul : C → X → X) (cs : List C) (xs : List X) : X :=
  total (List.zipWith smul cs xs)

/-- paired shift: `xs[i] += d`, `xs[j] -= d` -/
def pairedShift [Add X] [Sub X] (xs : List X) (i j : Nat) (d : X) : List X :=
  match xs[i]?, xs[j]? with
  | some a, some b => (xs.set i (a + d)).set j (b - d)
  | _, _ => xs

end Vec

end BronVerif.CheckGraph
