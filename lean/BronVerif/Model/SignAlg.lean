import BronVerif.Model.LinAlg
import BronVerif.Model.Curves
/-!
# Key-generation and signing algebra (core-only, generic over notation classes)

The relations the C03 / C01 drivers evaluate on the values emitted by the Go harness:
Feldman lift checks against an MSP, summation of dealers' verification vectors, reconstruction
through model `solveLeft` coefficients, additive conversion over a quorum, and the ECDSA / Schnorr /
BLS verification equations with the message digest / challenge as an explicit argument.
`G` is any additive "module" over the scalars `F` given by notation classes; the driver instantiates
`F := Fp n` and `G := GPt C` (runtime curve arithmetic of `Model/Curves`), the theorem files
instantiate Mathlib `[Field F] [AddCommGroup G] [Module F G]`.
-/
namespace BronVerif.SignAlg
open BronVerif BronVerif.LinAlg

section generic
variable {F : Type} [Add F] [Mul F] [Sub F] [Neg F] [Inv F] [OfNat F 0] [OfNat F 1] [DecidableEq F]
variable {G : Type} [Add G] [OfNat G 0] [HSMul F G G] [DecidableEq G]

/-- indices of the MSP rows labelled with holder `id` (in row order) -/
def rowsOf (labels : List Nat) (id : Nat) : List Nat :=
  (List.range labels.length).filter fun k => labels[k]? == some id

/-- indices of the rows labelled with a holder of `S` (in row order) -/
def rowsOfSet (labels : List Nat) (S : List Nat) : List Nat :=
  (List.range labels.length).filter fun k => match labels[k]? with | some l => S.contains l | none => false

/-- component-wise sum of the dealers' verification vectors -/
def vvSum (cols : Nat) (vs : List (List G)) : List G :=
  (List.range cols).map fun j => gsum (vs.map fun v => v.getD j 0)

/-- Feldman check of one row: `s • g = Σ_c M[k][c] • V[c]` -/
def rowLiftOk (g : G) (row : List F) (V : List G) (s : F) : Bool := decide (s • g = gdot row V)

/-- all rows of holder `id`: the share has one scalar per owned row and each lifts correctly -/
def shareLiftOk (M : Mat F) (labels : List Nat) (V : List G) (g : G) (id : Nat) (vals : List F) : Bool :=
  let rs := rowsOf labels id
  rs.length == vals.length && (rs.zip vals).all fun (k, s) => rowLiftOk g (M.getD k []) V s

def e0 (cols : Nat) : List F := (List.range cols).map fun j => if j = 0 then (1 : F) else 0

/-- reconstruction coefficients for a list of row indices: `c · M_rows = e₀` (model `solveLeft`) -/
def reconCoeffs (M : Mat F) (cols : Nat) (rows : List Nat) : Option (List F) :=
  solveLeft (rows.map fun k => M.getD k []) cols (e0 cols)

/-- reconstruct from the per-row share scalars of the holders in `S` -/
def reconstruct (M : Mat F) (cols : Nat) (labels : List Nat) (shareOfRow : Nat → F) (S : List Nat) : Option F :=
  let rows := rowsOfSet labels S
  (reconCoeffs M cols rows).map fun c => dot c (rows.map shareOfRow)

/-- additive share of holder `id` inside quorum `S`: `⟨c|ᵢ, λ|ᵢ⟩` with the quorum's coefficients -/
def additiveShare (M : Mat F) (cols : Nat) (labels : List Nat) (shareOfRow : Nat → F) (S : List Nat) (id : Nat) : Option F :=
  let rows := rowsOfSet labels S
  (reconCoeffs M cols rows).map fun c =>
    dot ((rows.zip c).filterMap fun (k, ck) => if labels[k]? == some id then some ck else none)
        ((rows.filter fun k => labels[k]? == some id).map shareOfRow)

/-- lifted version: `Σ c_k • Λ_k` over the rows of the quorum equals the public key -/
def liftedReconstruct (M : Mat F) (cols : Nat) (labels : List Nat) (liftOfRow : Nat → G) (S : List Nat) : Option G :=
  let rows := rowsOfSet labels S
  (reconCoeffs M cols rows).map fun c => gdot c (rows.map liftOfRow)

/-- ECDSA verification with explicit digest scalar `m`: `R = (m s⁻¹) • g + (r s⁻¹) • pk`, `x(R) = r` -/
def ecdsaVerify (g pk : G) (xOf : G → Option F) (m r s : F) : Bool :=
  decide (r ≠ 0) && decide (s ≠ 0) &&
    (let w := s⁻¹
     xOf ((m * w) • g + (r * w) • pk) == some r)

/-- Schnorr verification with explicit challenge `e`: `s • g = R + e • pk` (`neg = true`: `s • g + e • pk = R`) -/
def schnorrVerify (g pk R : G) (e s : F) (neg : Bool) : Bool :=
  if neg then decide (s • g + e • pk = R) else decide (s • g = R + e • pk)

end generic

/-! ### runtime instance: points of a named curve as a module over `Fp n` -/

structure GPt (C : Curves.Params) where
  pt : Curves.Pt
deriving DecidableEq

instance (C : Curves.Params) : Add (GPt C) := ⟨fun a b => ⟨Curves.add C a.pt b.pt⟩⟩
instance (C : Curves.Params) : OfNat (GPt C) 0 := ⟨⟨Curves.zero C⟩⟩
instance (C : Curves.Params) {q : Nat} : HSMul (Fp q) (GPt C) (GPt C) := ⟨fun k P => ⟨Curves.smul C k.val P.pt⟩⟩

def GPt.gen (C : Curves.Params) : GPt C := ⟨Curves.gen C⟩

/-- affine x-coordinate reduced into the scalar field (ECDSA `r`), `none` for the neutral element -/
def GPt.xScalar (C : Curves.Params) {q : Nat} [NeZero q] (P : GPt C) : Option (Fp q) :=
  if Curves.isZero C P.pt then none else
  match P.pt.coords with
  | some ([x], _) => some (Fp.ofNat q x)
  | _ => none

end BronVerif.SignAlg
