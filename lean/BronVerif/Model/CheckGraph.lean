/-! # Check graphs (C04) — core-only

For each protocol a small *data* description of what the code checks:

* the **leaves** of every round message (round whose output the message is, broadcast/unicast,
  path prefix inside the CBOR encoding);
* the **predicates** a receiver evaluates on the message of one sender, in the order of the code,
  each with the round function that evaluates it, who evaluates it (every receiver, the recipient
  of the unicast, the aggregator), whether the abort is tagged with the sender
  (`errs…WithTag(base.IdentifiableAbortPartyIDTag, sender)`), and the leaves it *binds*
  (ties to an earlier commitment, to public key material, to a proof statement, or to the
  receiver's own state);
* the **gate** through which outputs are released.

The executable part used by the driver and by the theorems of `Props/C04.lean`:

* `Graph.classify`   leaf ↦ bound (by which predicates) / unbound / structural;
* `receive`          the receiver loop of every round function: senders in order, predicates in
                     order, first failure aborts, blaming the sender when the predicate is tagged;
* `release`          outputs leave a party only through the gate.
-/
namespace BronVerif.CheckGraph

inductive Kind where
  | bcast | ucast
  deriving DecidableEq, Repr, Inhabited

/-- a message leaf: round whose output the message is, kind, path prefix (array positions `[*]`) -/
structure Leaf where
  round : Nat
  kind : Kind
  path : String
  deriving DecidableEq, Repr, Inhabited

inductive Who where
  | receivers   -- every party that receives the message
  | aggregator  -- the (possibly external) signature aggregator
  deriving DecidableEq, Repr, Inhabited

/-- one verification step of a round function -/
structure Pred where
  name : String
  evalRound : Nat        -- the round function (1-based) or 0 for the aggregator
  who : Who
  tagged : Bool          -- abort carries the sender as culprit
  binds : List Leaf
  /-- the predicate is a FAMILY: one predicate per MSP row owned by the sender, each evaluated on
      component `i` of the vector-valued leaves it binds (`for i, k := range keys { check k xs[i] }`),
      never on an aggregate of the components (`Model/CheckGraphVec.lean`) -/
  perRow : Bool := false
  /-- the predicate compares an aggregate with the claim of EVERY sender
      (`for s in senders { if claim s ≠ aggregate { abort } }`), never with the claim of one sender
      only (`Model/CheckGraphClaims.lean`) -/
  everySender : Bool := false
  deriving DecidableEq, Repr, Inhabited

/-- a COHERENT deviation (harness/c04_coh.go): the deviator runs the honest code on a substituted
input, deals a consistent sharing of another value, or changes a claim about the past together with
everything derived from it. Its messages are mutually consistent; `caughtBy` names the predicates
that tie them to the other parties' view and must reject. -/
structure Coherent where
  kind : String
  caughtBy : List String
  deriving DecidableEq, Repr, Inhabited

structure Graph where
  proto : String
  leaves : List Leaf          -- every leaf of every message (prefix patterns)
  preds : List Pred
  gate : String               -- the check every released output passes
  /-- the vector-valued leaves: one component per MSP row owned by the sender (shares, sub-shares,
      partial signatures under a non-ideal access structure) -/
  vectors : List Leaf := []
  /-- the coherent deviations the tamper matrix runs against this protocol -/
  coherent : List Coherent := []
  deriving Repr, Inhabited

/-! ## classification of a tampered site -/

/-- normalise array positions: `a[12].b[0]` ↦ `a[*].b[*]` (`[]` stays) -/
def normPath (s : String) : String :=
  let rec go : List Char → Bool → List Char → List Char
    | [], _, acc => acc.reverse
    | '[' :: ']' :: cs, _, acc => go cs false (']' :: '[' :: acc)
    | '[' :: cs, _, acc => go cs true ('*' :: '[' :: acc)
    | ']' :: cs, true, acc => go cs false (']' :: acc)
    | _ :: cs, true, acc => go cs true acc
    | c :: cs, false, acc => go cs false (c :: acc)
  String.ofList (go s.toList false [])

/-- `pat` matches `path` when it is a prefix ending at a component boundary -/
def pathMatches (pat path : String) : Bool :=
  pat == path ||
    (path.startsWith pat &&
      (let rest := (path.drop pat.length).toString
       rest.startsWith "." || rest.startsWith "[" || rest.startsWith "{"))

def Leaf.covers (l : Leaf) (round : Nat) (kind : Kind) (path : String) : Bool :=
  l.round == round && l.kind == kind && pathMatches l.path path

/-- the declared leaf (longest pattern) a concrete path belongs to -/
def Graph.leafOf (g : Graph) (round : Nat) (kind : Kind) (path : String) : Option Leaf :=
  (g.leaves.filter (·.covers round kind path)).foldl
    (fun best l => match best with
      | none => some l
      | some b => if l.path.length > b.path.length then some l else some b) none

def Graph.predsOn (g : Graph) (l : Leaf) : List Pred := g.preds.filter (·.binds.contains l)

def Graph.bound (g : Graph) (l : Leaf) : Bool := !(g.predsOn l).isEmpty

inductive SiteClass where
  | boundLeaf (l : Leaf) (by_ : List Pred)   -- a changed value must be rejected
  | unboundLeaf (l : Leaf)                    -- the sender's free choice: any outcome, outputs valid
  | structural                                -- whole message / container shape: decoding + Validate
  | unknown                                   -- not in the graph (the check is incomplete)
  deriving Repr, Inhabited

def hasMessage (g : Graph) (round : Nat) (kind : Kind) : Bool :=
  g.leaves.any fun l => l.round == round && l.kind == kind

/-- some leaf of the message (round, kind) is bound -/
def Graph.messageBound (g : Graph) (round : Nat) (kind : Kind) : Bool :=
  g.leaves.any fun l => l.round == round && l.kind == kind && g.bound l

/-- `a.b{}` / `a.b[]` ↦ `a.b` (the container a length / field operator acts on) -/
def containerStem (p : String) : String :=
  if p.endsWith "{}" || p.endsWith "[]" then (p.dropEnd 2).toString else p

/-- containers above the declared leaves (the message map itself, `{}`/`[]` of a prefix of a leaf) -/
def Graph.classifyContainer (g : Graph) (round : Nat) (kind : Kind) (path : String) : SiteClass :=
  if containerStem (normPath path) == "" ||
      g.leaves.any (fun l => l.round == round && l.kind == kind && pathMatches (containerStem (normPath path)) l.path)
  then .structural else .unknown

def Graph.classify (g : Graph) (round : Nat) (kind : Kind) (path : String) : SiteClass :=
  if !hasMessage g round kind then .unknown else
  -- a message nobody reads (a newcomer's placeholder): everything in it is the sender's free choice
  if !g.messageBound round kind then .unboundLeaf ⟨round, kind, normPath path⟩ else
  if path == "msg" then .structural else
  match g.leafOf round kind (normPath path) with
  | some l => if g.bound l then .boundLeaf l (g.predsOn l) else .unboundLeaf l
  | none => g.classifyContainer round kind path

/-! ## the receiver loop and the output gate (what every round function does) -/

inductive Verdict (ι : Type) where
  | accept
  | reject (blamed : Option ι)
  deriving DecidableEq, Repr

/-- first failing predicate of one sender's message -/
def firstFail {ι : Type} (preds : List Pred) (passes : Pred → ι → Bool) (s : ι) : Option Pred :=
  preds.find? fun p => !passes p s

/-- `for s in senders { for p in preds { if !p(s) { return abort(tag s?) } } }` -/
def receive {ι : Type} (preds : List Pred) (passes : Pred → ι → Bool) : List ι → Verdict ι
  | [] => .accept
  | s :: rest =>
    match firstFail preds passes s with
    | some p => .reject (if p.tagged then some s else none)
    | none => receive preds passes rest

/-- outputs leave a party only when its receiver loops accepted and the gate holds -/
def release {ι α : Type} (verdicts : List (Verdict ι)) (gate : Bool) (out : α) : Option α :=
  if verdicts.all (fun v => match v with | .accept => true | _ => false) && gate then some out else none

end BronVerif.CheckGraph
