/-!
# Dense linear algebra model (core-only, generic over notation classes)

Mirrors `pkg/base/mat`: `solveAugmented` (Gauss–Jordan with first-non-zero pivot search, row
swap, scaling, elimination from all other rows, consistency test, free variables zero),
`SolveRight`, `SolveLeft`, `Determinant` (forward elimination), `TryInv`, `TryMul`,
`Transpose`, `Lift`, `LeftAction`, `RightAction`, `DotProduct`.
A matrix is a list of rows; the functions are total (short rows read as `0`).
-/
namespace BronVerif.LinAlg

variable {F : Type} [Add F] [Mul F] [Sub F] [Neg F] [Inv F] [OfNat F 0] [OfNat F 1] [DecidableEq F]

abbrev Mat (F : Type) := List (List F)

def entry (m : Mat F) (i j : Nat) : F := (m.getD i []).getD j 0

def numRows (m : Mat F) : Nat := m.length
def numCols (m : Mat F) : Nat := (m.headD []).length

/-- every row has exactly `c` entries -/
def wellShaped (m : Mat F) (c : Nat) : Bool := m.all (fun r => r.length == c)

def dot (a b : List F) : F := (List.zipWith (· * ·) a b).foldl (· + ·) 0

/-- the `n × rows` transpose of a matrix with `n` columns (short rows read as `0`) -/
def transposeN (m : Mat F) (n : Nat) : Mat F :=
  (List.range n).map fun j => m.map fun r => r.getD j 0

def transpose (m : Mat F) : Mat F := transposeN m (numCols m)

def mulVec (m : Mat F) (v : List F) : List F := m.map fun r => dot r v

def vecMul (v : List F) (m : Mat F) : List F := mulVec (transpose m) v

def mul (a b : Mat F) : Mat F :=
  let bt := transpose b
  a.map fun r => bt.map fun c => dot r c

def identity (n : Nat) : Mat F :=
  (List.range n).map fun i => (List.range n).map fun j => if i = j then (1 : F) else 0

/-- index of the first row `r ≥ k` whose entry in column `pc` is non-zero -/
def findPivot (m : Mat F) (k pc : Nat) : Option Nat :=
  ((List.range m.length).filter fun r => k ≤ r ∧ entry m r pc ≠ 0).head?

def swapRows (m : Mat F) (i j : Nat) : Mat F :=
  let ri := m.getD i []
  let rj := m.getD j []
  (m.set i rj).set j ri

def scaleRow (r : List F) (c : F) : List F := r.map (· * c)

/-- `row - f * prow` -/
def elimRow (row prow : List F) (f : F) : List F := List.zipWith (fun a b => a - f * b) row prow

structure GJ (F : Type) where
  rows : Mat F
  k : Nat
  pivots : List Nat

/-- the pivot step shared by `solveAugmented` and `TryInv`: swap rows `k`/`pr`, scale the new row
`k` so that its entry in column `pc` becomes `1`, subtract the multiple `row[pc]` of it from every
other row (rows whose entry is already zero are left untouched, as in the Go code) -/
def pivotStep (rows : Mat F) (k pr pc : Nat) : Mat F :=
  let rows1 := swapRows rows k pr
  let prow := rows1.getD k []
  let prow' := scaleRow prow (prow.getD pc 0)⁻¹
  rows1.mapIdx fun i row =>
    if i = k then prow'
    else
      let f := row.getD pc 0
      if f = 0 then row else elimRow row prow' f

/-- one column step of Gauss–Jordan, exactly the loop body of `solveAugmented` -/
def gjCol (s : GJ F) (pc : Nat) : GJ F :=
  if s.rows.length ≤ s.k then s else
  match findPivot s.rows s.k pc with
  | none => s
  | some pr => { rows := pivotStep s.rows s.k pr pc, k := s.k + 1, pivots := s.pivots ++ [pc] }

def gaussJordan (aug : Mat F) (numVars : Nat) : GJ F :=
  (List.range numVars).foldl gjCol { rows := aug, k := 0, pivots := [] }

/-- value of variable `j` read off the reduced system: the right-hand side of row `i` if `j` is the
`i`-th pivot column, zero for a free variable -/
def pick (s : GJ F) (numVars j : Nat) : F :=
  match s.pivots.idxOf? j with
  | some i => entry s.rows i numVars
  | none => 0

/-- the solution read off the reduced system -/
def extract (s : GJ F) (numVars : Nat) : List F := (List.range numVars).map (pick s numVars)

/-- `solveAugmented`: `none` = inconsistent.  The last column of `aug` is the right-hand side. -/
def solveAugmented (aug : Mat F) (numVars : Nat) : Option (List F) :=
  let s := gaussJordan aug numVars
  if (s.rows.drop s.k).any (fun r => r.getD numVars 0 ≠ 0) then none
  else some (extract s numVars)

/-- `SolveRight`: solve `M x = b` (rows of `M` have `n` entries, `b` has one entry per row) -/
def solveRight (m : Mat F) (n : Nat) (b : List F) : Option (List F) :=
  solveAugmented (List.zipWith (fun r bi => r ++ [bi]) m b) n

/-- `SolveLeft`: solve `x M = r` via the transposed system; `M` is `rows × n` -/
def solveLeft (m : Mat F) (n : Nat) (r : List F) : Option (List F) :=
  solveRight (transposeN m n) m.length r

structure DetState (F : Type) where
  rows : Mat F
  det : F
  sign : F
  singular : Bool

/-- subtract from every row below `k` the multiple of row `k` that clears its entry in column `k` -/
def elimBelow (rows : Mat F) (k : Nat) : Mat F :=
  let prow := rows.getD k []
  let pv := prow.getD k 0
  rows.mapIdx fun i row =>
    if i ≤ k then row
    else elimRow row prow (row.getD k 0 * pv⁻¹)

/-- one step of `Determinant`'s forward elimination at diagonal position `k` -/
def detStep (s : DetState F) (k : Nat) : DetState F :=
  if s.singular then s else
  match findPivot s.rows k k with
  | none => { s with singular := true }
  | some pr =>
    let rows1 := if pr = k then s.rows else swapRows s.rows k pr
    { rows := elimBelow rows1 k, det := s.det * entry rows1 k k,
      sign := if pr = k then s.sign else - s.sign, singular := false }

def det (m : Mat F) : F :=
  let s := (List.range m.length).foldl detStep { rows := m, det := 1, sign := 1, singular := false }
  if s.singular then 0 else s.det * s.sign

/-- one step of `TryInv` at diagonal position `k` (`none` = no pivot in column `k`: singular) -/
def invStep (acc : Option (Mat F)) (k : Nat) : Option (Mat F) :=
  match acc with
  | none => none
  | some rows =>
    match findPivot rows k k with
    | none => none
    | some pr => some (pivotStep rows k pr k)

/-- Gauss–Jordan on `[A | I]` -/
def inverseAug (m : Mat F) : Option (Mat F) :=
  (List.range m.length).foldl invStep (some (List.zipWith (· ++ ·) m (identity m.length)))

/-- `TryInv`: Gauss–Jordan on `[A | I]`, the right half of the result; `none` = singular -/
def inverse (m : Mat F) : Option (Mat F) :=
  (inverseAug m).map fun rows => rows.map (·.drop m.length)

section Module
variable {G : Type} [Add G] [OfNat G 0] [HSMul F G G]

def gsum (xs : List G) : G := xs.foldl (· + ·) 0

/-- `Σ aᵢ • xᵢ` -/
def gdot (a : List F) (x : List G) : G := gsum (List.zipWith (fun c (e : G) => c • e) a x)

def lift (m : Mat F) (g : G) : List (List G) := m.map fun r => r.map fun c => c • g

def gtranspose (x : List (List G)) : List (List G) :=
  (List.range (x.headD []).length).map fun j => x.map fun r => r.getD j 0

/-- `LeftAction actor x = actor · x` (scalar matrix times module-valued matrix) -/
def leftAction (actor : Mat F) (x : List (List G)) : List (List G) :=
  let xt := gtranspose x
  actor.map fun r => xt.map fun c => gdot r c

/-- `RightAction x actor = x · actor` -/
def rightAction (x : List (List G)) (actor : Mat F) : List (List G) :=
  let at' := transpose actor
  x.map fun r => at'.map fun c => gdot c r
end Module

end BronVerif.LinAlg
