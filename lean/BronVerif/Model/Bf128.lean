/-!
# GF(2^128) = GF(2)[X] / (X^128 + X^7 + X^2 + X + 1) — executable model (core-only)

Model of `pkg/base/binaryfields/bf128`.  An element is the natural number whose bit `i` is the
coefficient of `X^i` (this is also the value of the 16 big-endian bytes `FromBytes`/`Bytes` use).
Multiplication is the carry-less (polynomial over GF(2)) product followed by reduction modulo the
field polynomial `X^128 + X^7 + X^2 + X + 1` (`bf128.go`: `Field` doc comment and the `<<7,<<2,<<1,<<0`
folding in `Mul`).  Specification theorems: `Props/C09.lean` (`bf128_mul_spec`).
-/
namespace BronVerif.Bf128

/-- `X^7 + X^2 + X + 1` -/
def polyLow : Nat := 0x87

/-- the field polynomial `X^128 + X^7 + X^2 + X + 1` -/
def poly : Nat := 2 ^ 128 + polyLow

/-- carry-less product of (the low `n` bits of) `a` with `b`: XOR of `b·X^i` over the set bits `i < n` of `a` -/
def clmulAux (a b : Nat) : Nat → Nat
  | 0 => 0
  | n + 1 => if a.testBit n then clmulAux a b n ^^^ (b <<< n) else clmulAux a b n

/-- carry-less product of two elements (128 coefficient bits each) -/
def clmul (a b : Nat) : Nat := clmulAux a b 128

/-- clear the coefficient bits `128+k-1, …, 128` (from the top) by adding `X^j · poly` -/
def reduceAux : Nat → Nat → Nat
  | 0, z => z
  | k + 1, z => reduceAux k (if z.testBit (128 + k) then z ^^^ (poly <<< k) else z)

/-- remainder of a polynomial of degree ≤ 254 modulo the field polynomial -/
def reduce (z : Nat) : Nat := reduceAux 127 z

def mul (a b : Nat) : Nat := reduce (clmul a b)

def add (a b : Nat) : Nat := a ^^^ b

/-- `a^(2^1 + 2^2 + … + 2^n)` -/
def invAux : Nat → Nat → Nat → Nat
  | 0, _, acc => acc
  | n + 1, x, acc => let x2 := mul x x; invAux n x2 (mul acc x2)

/-- Fermat inverse `a^(2^128 - 2)` (`0 ↦ 0`) -/
def inv (a : Nat) : Nat := invAux 127 a 1

/-- wrapper carrying the field operations as core notation-class instances -/
structure BF where
  val : Nat
  deriving DecidableEq, Repr

instance : Add BF := ⟨fun a b => ⟨add a.val b.val⟩⟩
instance : Mul BF := ⟨fun a b => ⟨mul a.val b.val⟩⟩
instance : OfNat BF 0 := ⟨⟨0⟩⟩
instance : OfNat BF 1 := ⟨⟨1⟩⟩

end BronVerif.Bf128
