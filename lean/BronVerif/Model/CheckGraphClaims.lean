/-! # Claims about the past compared with an aggregate (C04) — core-only

In redistribution every previous holder `s` broadcasts, besides its contribution to the NEW
verification vector, what it CLAIMS the old one was; a next holder aggregates the contributions
(`newPk` = sum of their constant terms) and must find `claim s = newPk` for EVERY sender `s`. For a
newcomer without a trusted anchor this is the only tie between the new key and the old one.

* `everyClaim`  what the code must do (`for s in senders { if claim s ≠ newPk { abort } }`);
* `lastClaim`   the weakened form in which only the last sender's claim survives (a flag that is
                assigned in the loop instead of accumulated);
* `aggregate`   the aggregated value (left fold of the contributions).

`Props/C04.lean`: `detect_redistribute_claim`, `last_claim_check_misses_coherent_deviation`.
-/
namespace BronVerif.CheckGraph.Claims

variable {X : Type}

/-- `for s in senders { if claim s ≠ newPk { abort } }` -/
def everyClaim [DecidableEq X] (claims : List X) (newPk : X) : Bool :=
  claims.all fun c => decide (c = newPk)

/-- `mismatch := false; for s in senders { mismatch = (claim s ≠ newPk) }; if mismatch { abort }` -/
def lastClaim [DecidableEq X] (claims : List X) (newPk : X) : Bool :=
  match claims.getLast? with
  | none => true
  | some c => decide (c = newPk)

/-- the aggregate of the senders' contributions -/
def aggregate [Add X] [OfNat X 0] (contribs : List X) : X := contribs.foldl (· + ·) 0

end BronVerif.CheckGraph.Claims
