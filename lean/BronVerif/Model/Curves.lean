import BronVerif.Model.Curve
import BronVerif.Model.Fp2
/-!
# Concrete curve parameters and a uniform runtime interface (core-only)

`Params` describes a curve by name; `Pt` is a curve-independent runtime point (affine coordinates
as lists of naturals: one per base-field component) so the driver can treat every curve alike.
The constants here are cross-checked against `/repo` by the translator (`Gen/Constants.lean`) and
against the Go implementation by the C13/C14 streams.
-/
namespace BronVerif.Curves
open BronVerif BronVerif.Curve

inductive Kind where
  | weierstrass   -- y² = x³ + a x + b over Fp
  | weierstrass2  -- same over Fp2 (b given as c0/c1)
  | edwards       -- a x² + y² = 1 + d x² y² over Fp
deriving DecidableEq

structure Params where
  name : String
  kind : Kind
  p : Nat            -- base field characteristic
  a : Nat
  b : Nat            -- Weierstrass b (c0 for Fp2) / Edwards d
  b1 : Nat := 0      -- Fp2: c1 of b
  gx : List Nat      -- generator affine x (components)
  gy : List Nat
  n : Nat            -- prime order of the generator
  h : Nat            -- cofactor
  coordBytes : Nat   -- byte length of one base-field component

def k256 : Params := {
  name := "k256", kind := .weierstrass,
  p := 0xfffffffffffffffffffffffffffffffffffffffffffffffffffffffefffffc2f, a := 0, b := 7,
  gx := [0x79be667ef9dcbbac55a06295ce870b07029bfcdb2dce28d959f2815b16f81798],
  gy := [0x483ada7726a3c4655da4fbfc0e1108a8fd17b448a68554199c47d08ffb10d4b8],
  n := 0xfffffffffffffffffffffffffffffffebaaedce6af48a03bbfd25e8cd0364141, h := 1, coordBytes := 32 }

def p256 : Params := {
  name := "p256", kind := .weierstrass,
  p := 0xffffffff00000001000000000000000000000000ffffffffffffffffffffffff,
  a := 0xffffffff00000001000000000000000000000000fffffffffffffffffffffffc,
  b := 0x5ac635d8aa3a93e7b3ebbd55769886bc651d06b0cc53b0f63bce3c3e27d2604b,
  gx := [0x6b17d1f2e12c4247f8bce6e563a440f277037d812deb33a0f4a13945d898c296],
  gy := [0x4fe342e2fe1a7f9b8ee7eb4a7c0f9e162bce33576b315ececbb6406837bf51f5],
  n := 0xffffffff00000000ffffffffffffffffbce6faada7179e84f3b9cac2fc632551, h := 1, coordBytes := 32 }

def pallas : Params := {
  name := "pallas", kind := .weierstrass,
  p := 0x40000000000000000000000000000000224698fc094cf91b992d30ed00000001, a := 0, b := 5,
  gx := [1], gy := [0x1b74b5a30a12937c53dfa9f06378ee548f655bd4333d477119cf7a23caed2abb],
  n := 0x40000000000000000000000000000000224698fc0994a8dd8c46eb2100000001, h := 1, coordBytes := 32 }

def vesta : Params := {
  name := "vesta", kind := .weierstrass,
  p := 0x40000000000000000000000000000000224698fc0994a8dd8c46eb2100000001, a := 0, b := 5,
  gx := [1], gy := [0x1943666ea922ae6b13b64e3aae89754cacce3a7f298ba20c4e4389b9b0276a62],
  n := 0x40000000000000000000000000000000224698fc094cf91b992d30ed00000001, h := 1, coordBytes := 32 }

def blsP : Nat := 0x1a0111ea397fe69a4b1ba7b6434bacd764774b84f38512bf6730d2a0f6b0f6241eabfffeb153ffffb9feffffffffaaab
def blsR : Nat := 0x73eda753299d7d483339d80809a1d80553bda402fffe5bfeffffffff00000001

def bls12381g1 : Params := {
  name := "bls12381g1", kind := .weierstrass, p := blsP, a := 0, b := 4,
  gx := [0x17f1d3a73197d7942695638c4fa9ac0fc3688c4f9774b905a14e3a3f171bac586c55e83ff97a1aeffb3af00adb22c6bb],
  gy := [0x08b3f481e3aaa0f1a09e30ed741d8ae4fcf5e095d5d00af600db18cb2c04b3edd03cc744a2888ae40caa232946c5e7e1],
  n := blsR, h := 0x396c8c005555e1568c00aaab0000aaab, coordBytes := 48 }

def bls12381g2 : Params := {
  name := "bls12381g2", kind := .weierstrass2, p := blsP, a := 0, b := 4, b1 := 4,
  gx := [0x024aa2b2f08f0a91260805272dc51051c6e47ad4fa403b02b4510b647ae3d1770bac0326a805bbefd48056c8c121bdb8,
         0x13e02b6052719f607dacd3a088274f65596bd0d09920b61ab5da61bbdc7f5049334cf11213945d57e5ac7d055d042b7e],
  gy := [0x0ce5d527727d6e118cc9cdc6da2e351aadfd9baa8cbdd3a76d429a695160d12c923ac9cc3baca289e193548608b82801,
         0x0606c4a02ea734cc32acd2b02bc28b99cb3e287e85a763af267492ab572e99ab3f370d275cec1da1aaa9075ff05f79be],
  n := blsR, h := 0x5d543a95414e7f1091d50792876a202cd91de4547085abaa68a205b2e5a7ddfa628f1cb4d9e82ef21537e293a6691ae1616ec6e786f0c70cf1c38e31c7238e5, coordBytes := 48 }

def ed25519 : Params := {
  name := "ed25519", kind := .edwards,
  p := 2^255 - 19, a := 2^255 - 20,
  b := 0x52036cee2b6ffe738cc740797779e89800700a4d4141d8ab75eb4dca135978a3,
  gx := [0x216936d3cd6e53fec0a4e231fdd6dc5c692cc7609525a7b2c9562d608f25d51a],
  gy := [0x6666666666666666666666666666666666666666666666666666666666666658],
  n := 2^252 + 27742317777372353535851937790883648493, h := 8, coordBytes := 32 }

def all : List Params := [k256, p256, pallas, vesta, bls12381g1, bls12381g2, ed25519]

def byName? (s : String) : Option Params := all.find? (·.name == s)

/-- curve-independent runtime point: `none` = point at infinity (Weierstrass only);
coordinates are lists of base-field components (1 for Fp, 2 for Fp2) -/
structure Pt where
  coords : Option (List Nat × List Nat)
deriving DecidableEq, Inhabited

def Pt.inf : Pt := ⟨none⟩

def Pt.toString (P : Pt) : String :=
  match P.coords with
  | none => "inf"
  | some (x, y) => "/".intercalate (x.map natToHex) ++ ":" ++ "/".intercalate (y.map natToHex)

def Pt.parse? (s : String) : Option Pt :=
  if s == "inf" then some .inf else
  match s.splitOn ":" with
  | [xs, ys] => do
    let x ← (xs.splitOn "/").mapM hexToNat?
    let y ← (ys.splitOn "/").mapM hexToNat?
    some ⟨some (x, y)⟩
  | _ => none

section ops
variable (C : Params)

private def wOf {q : Nat} [NeZero q] (P : Pt) : WPt (Fp q) :=
  match P.coords with
  | some ([x], [y]) => .aff (Fp.ofNat q x) (Fp.ofNat q y)
  | _ => .inf
private def wTo {q : Nat} (P : WPt (Fp q)) : Pt :=
  match P with
  | .inf => .inf
  | .aff x y => ⟨some ([x.val], [y.val])⟩
private def w2Of {q : Nat} [NeZero q] (P : Pt) : WPt (Fp2 q) :=
  match P.coords with
  | some ([x0, x1], [y0, y1]) => .aff ⟨Fp.ofNat q x0, Fp.ofNat q x1⟩ ⟨Fp.ofNat q y0, Fp.ofNat q y1⟩
  | _ => .inf
private def w2To {q : Nat} (P : WPt (Fp2 q)) : Pt :=
  match P with
  | .inf => .inf
  | .aff x y => ⟨some ([x.c0.val, x.c1.val], [y.c0.val, y.c1.val])⟩
private def eOf {q : Nat} [NeZero q] (P : Pt) : EPt (Fp q) :=
  match P.coords with
  | some ([x], [y]) => ⟨Fp.ofNat q x, Fp.ofNat q y⟩
  | _ => E.zero
private def eTo {q : Nat} (P : EPt (Fp q)) : Pt := ⟨some ([P.x.val], [P.y.val])⟩

private def withP {α} (dflt : α) (f : (q : Nat) → [NeZero q] → α) : α :=
  if h : C.p = 0 then dflt else
    haveI : NeZero C.p := ⟨h⟩
    f C.p

/-- the neutral element in the runtime representation -/
def zero : Pt := match C.kind with
  | .edwards => ⟨some ([0], [1])⟩
  | _ => .inf

def gen : Pt := ⟨some (C.gx, C.gy)⟩

def isZero (P : Pt) : Bool := P == zero C

def onCurve (P : Pt) : Bool := withP C false fun q => match C.kind with
  | .weierstrass => W.onCurve (Fp.ofNat q C.a) (Fp.ofNat q C.b) (wOf (q := q) P)
  | .weierstrass2 => W.onCurve (F := Fp2 q) ⟨Fp.ofNat q C.a, Fp.ofNat q 0⟩ ⟨Fp.ofNat q C.b, Fp.ofNat q C.b1⟩ (w2Of P)
  | .edwards => E.onCurve (Fp.ofNat q C.a) (Fp.ofNat q C.b) (eOf (q := q) P)

def add (P Q : Pt) : Pt := withP C .inf fun q => match C.kind with
  | .weierstrass => wTo (W.add (Fp.ofNat q C.a) (wOf P) (wOf Q))
  | .weierstrass2 => w2To (W.add (F := Fp2 q) ⟨Fp.ofNat q C.a, Fp.ofNat q 0⟩ (w2Of P) (w2Of Q))
  | .edwards => eTo (E.add (Fp.ofNat q C.a) (Fp.ofNat q C.b) (eOf P) (eOf Q))

def neg (P : Pt) : Pt := withP C .inf fun q => match C.kind with
  | .weierstrass => wTo (W.neg (wOf (q := q) P))
  | .weierstrass2 => w2To (W.neg (w2Of (q := q) P))
  | .edwards => eTo (E.neg (eOf (q := q) P))

def sub (P Q : Pt) : Pt := add C P (neg C Q)

def smul (k : Nat) (P : Pt) : Pt := withP C .inf fun q => match C.kind with
  | .weierstrass => wTo (W.smul (Fp.ofNat q C.a) k (wOf P))
  | .weierstrass2 => w2To (W.smul (F := Fp2 q) ⟨Fp.ofNat q C.a, Fp.ofNat q 0⟩ k (w2Of P))
  | .edwards => eTo (E.smul (Fp.ofNat q C.a) (Fp.ofNat q C.b) k (eOf P))

def baseMul (k : Nat) : Pt := smul C k (gen C)

def sum (ps : List Pt) : Pt := ps.foldl (add C) (zero C)

def msm (ks : List Nat) (ps : List Pt) : Pt := sum C (List.zipWith (smul C) ks ps)

/-- in the prime-order subgroup: `n • P = 0` -/
def inSubgroup (P : Pt) : Bool := onCurve C P && isZero C (smul C C.n P)

/-- canonical rendering shared with the Go harness: the neutral element of every curve is `inf` -/
def render (P : Pt) : String := if isZero C P then "inf" else P.toString

def parse? (s : String) : Option Pt := if s == "inf" then some (zero C) else Pt.parse? s

def parseList? (s : String) : Option (List Pt) :=
  if s == "-" || s == "" then some [] else (s.splitOn ",").mapM (parse? C)

end ops
end BronVerif.Curves
