import BronVerif.Model.Curves
/-!
# Element encodings (core-only): per curve family `encode` / `decode` mirroring the Go rules

Byte strings are `List Nat` (each entry a byte value `< 256`; the driver only produces such lists).
A field is seen through a `FieldIO` record: canonical representative, reduction of a natural
number, and a square-root oracle.  The families:

* `Sec1`   — k256, p256: tag byte `02/03 ‖ x` (big endian), `04 ‖ x ‖ y`; the identity is `02 ‖ 0…0`;
             the k256 decoder maps **every** `x = 0` to the identity (`decodeCompressed`), the P-256
             decoder only `02 ‖ 0…0` (`decodeCompressedS`); coordinates `≥ p` are reduced;
* `Pasta`  — pallas, vesta: little-endian `x`, bit 255 = parity of `y`; identity = all zero
             (`x = 0 ∧ sign = 0`);
* `Ed`     — edwards25519: little-endian `y`, bit 255 = parity of `x` (RFC 8032 without the
             canonicity checks); `y ‖ x` uncompressed with both top bits required clear;
* `Mont`   — curve25519: the same group in Edwards representation, encoded by the Montgomery
             `u = (1+y)/(1-y)` (compressed: `u` only) and `v = c·u/x`;
* `Bls`    — BLS12-381 G1/G2 (ZCash flags: compressed, infinity, sort in the top three bits),
             with the subgroup check.
-/
namespace BronVerif.CurveEnc
open BronVerif BronVerif.Curve

/-! ## bytes -/

def leNat : List Nat → Nat
  | [] => 0
  | b :: bs => b + 256 * leNat bs

def leBytes : Nat → Nat → List Nat
  | 0, _ => []
  | len + 1, n => n % 256 :: leBytes len (n / 256)

def beNat (bs : List Nat) : Nat := leNat bs.reverse
def beBytes (len n : Nat) : List Nat := (leBytes len n).reverse

/-- value of the top bit of a `len`-byte string -/
def topBit (len : Nat) : Nat := 2 ^ (8 * len - 1)

/-- the view of a field the codecs need -/
structure FieldIO (F : Type) where
  toNat : F → Nat
  ofNat : Nat → F
  sqrt? : F → Option F

section generic
variable {F : Type} [Add F] [Mul F] [Sub F] [Neg F] [Inv F] [OfNat F 0] [OfNat F 1] [DecidableEq F]

/-- "lexicographically largest": `y > -y` on canonical representatives -/
def isNeg (io : FieldIO F) (y : F) : Bool := decide (io.toNat (-y) < io.toNat y)

/-! ## inversion-free scalar multiplication for the subgroup checks

The mirror decoders decide `n • P = 0` with Jacobian (Weierstrass) / projective (Edwards)
coordinates, as the implementation does, because the affine law of `Model/Curve.lean` costs one
field inversion per step.  The driver additionally re-checks every *accepted* point with the affine
reference law (`Curves.inSubgroup`); the equivalence of the two is not proved here. -/
namespace Fast

/-- Jacobian point `(X : Y : Z)`, `Z = 0` is the point at infinity -/
structure JPt (F : Type) where
  x : F
  y : F
  z : F

def jInf : JPt F := ⟨1, 1, 0⟩

def jDouble (a : F) (P : JPt F) : JPt F :=
  if P.z = 0 ∨ P.y = 0 then jInf else
  let xx := P.x * P.x
  let yy := P.y * P.y
  let yyyy := yy * yy
  let zz := P.z * P.z
  let s0 := P.x * yy
  let s := s0 + s0 + s0 + s0
  let m := xx + xx + xx + a * (zz * zz)
  let x3 := m * m - s - s
  let y8 := yyyy + yyyy + yyyy + yyyy + yyyy + yyyy + yyyy + yyyy
  ⟨x3, m * (s - x3) - y8, (P.y + P.y) * P.z⟩

def jAdd (a : F) (P Q : JPt F) : JPt F :=
  if P.z = 0 then Q else if Q.z = 0 then P else
  let z1z1 := P.z * P.z
  let z2z2 := Q.z * Q.z
  let u1 := P.x * z2z2
  let u2 := Q.x * z1z1
  let s1 := P.y * Q.z * z2z2
  let s2 := Q.y * P.z * z1z1
  if u1 = u2 then (if s1 = s2 then jDouble a P else jInf) else
  let h := u2 - u1
  let r := s2 - s1
  let hh := h * h
  let hhh := h * hh
  let v := u1 * hh
  let x3 := r * r - hhh - v - v
  ⟨x3, r * (v - x3) - s1 * hhh, P.z * Q.z * h⟩

def jSmulAux (a : F) : Nat → Nat → JPt F → JPt F → JPt F
  | 0, _, _, acc => acc
  | fuel + 1, k, base, acc =>
    if k = 0 then acc
    else jSmulAux a fuel (k / 2) (jDouble a base) (if k % 2 = 1 then jAdd a acc base else acc)

/-- `n • P = ∞` for a Weierstrass point -/
def wInSub (a : F) (n : Nat) : WPt F → Bool
  | .inf => true
  | .aff x y => (jSmulAux a (n.log2 + 1) n ⟨x, y, 1⟩ jInf).z == 0

/-- projective twisted-Edwards point `(X : Y : Z)` -/
structure PPt (F : Type) where
  x : F
  y : F
  z : F

def pAdd (a d : F) (P Q : PPt F) : PPt F :=
  let aa := P.z * Q.z
  let b := aa * aa
  let c := P.x * Q.x
  let dd := P.y * Q.y
  let e := d * c * dd
  let f := b - e
  let g := b + e
  ⟨aa * f * ((P.x + P.y) * (Q.x + Q.y) - c - dd), aa * g * (dd - a * c), f * g⟩

def pSmulAux (a d : F) : Nat → Nat → PPt F → PPt F → PPt F
  | 0, _, _, acc => acc
  | fuel + 1, k, base, acc =>
    if k = 0 then acc
    else pSmulAux a d fuel (k / 2) (pAdd a d base base) (if k % 2 = 1 then pAdd a d acc base else acc)

/-- `n • P = (0, 1)` for an Edwards point -/
def eInSub (a d : F) (n : Nat) (P : EPt F) : Bool :=
  let r := pSmulAux a d (n.log2 + 1) n ⟨P.x, P.y, 1⟩ ⟨0, 1, 1⟩
  r.x == 0 && r.y == r.z

end Fast

/-! ## SEC1 (k256, p256) -/
namespace Sec1

def encodeCompressed (io : FieldIO F) (len : Nat) : WPt F → List Nat
  | .inf => 2 :: beBytes len 0
  | .aff x y => (2 + io.toNat y % 2) :: beBytes len (io.toNat x)

def decodeCompressed (io : FieldIO F) (a b : F) (len : Nat) : List Nat → Option (WPt F)
  | [] => none
  | tag :: xs =>
    if xs.length ≠ len then none
    else if tag ≠ 2 ∧ tag ≠ 3 then none
    else
      let x := io.ofNat (beNat xs)
      if x = 0 then some .inf
      else match io.sqrt? (x * x * x + a * x + b) with
        | none => none
        | some y => some (.aff x (if io.toNat y % 2 = tag % 2 then y else -y))

/-- P-256 (since /repo 69efa1d): only `02 ‖ 0…0` is the identity; `03 ‖ 0…0` is the point `(0, y)`
with odd `y` when it exists (k256 keeps `decodeCompressed`: it has no point with `x = 0`) -/
def decodeCompressedS (io : FieldIO F) (a b : F) (len : Nat) : List Nat → Option (WPt F)
  | [] => none
  | tag :: xs =>
    if xs.length ≠ len then none
    else if tag ≠ 2 ∧ tag ≠ 3 then none
    else
      let x := io.ofNat (beNat xs)
      if x = 0 ∧ tag % 2 = 0 then some .inf
      else match io.sqrt? (x * x * x + a * x + b) with
        | none => none
        | some y => some (.aff x (if io.toNat y % 2 = tag % 2 then y else -y))

def encodeUncompressed (io : FieldIO F) (len : Nat) : WPt F → List Nat
  | .inf => 4 :: (beBytes len 0 ++ beBytes len 0)
  | .aff x y => 4 :: (beBytes len (io.toNat x) ++ beBytes len (io.toNat y))

def decodeUncompressed (io : FieldIO F) (a b : F) (len : Nat) : List Nat → Option (WPt F)
  | [] => none
  | tag :: rest =>
    if rest.length ≠ 2 * len then none
    else if tag ≠ 4 then none
    else
      let x := io.ofNat (beNat (rest.take len))
      let y := io.ofNat (beNat (rest.drop len))
      if x = 0 ∧ y = 0 then some .inf
      else if W.onCurve a b (.aff x y) then some (.aff x y) else none

end Sec1

/-- `FromAffine` of every Weierstrass type: the curve equation, nothing else -/
def fromAffineW (a b x y : F) : Option (WPt F) :=
  if W.onCurve a b (.aff x y) then some (.aff x y) else none

/-- `FromAffineX(x, odd)` -/
def fromAffineX (io : FieldIO F) (a b x : F) (odd : Nat) : Option (WPt F) :=
  match io.sqrt? (x * x * x + a * x + b) with
  | none => none
  | some y => some (.aff x (if io.toNat y % 2 = odd then y else -y))

/-! ## Pasta (pallas, vesta) -/
namespace Pasta

def encodeCompressed (io : FieldIO F) (len : Nat) : WPt F → List Nat
  | .inf => leBytes len 0
  | .aff x y => leBytes len (io.toNat x + topBit len * (io.toNat y % 2))

def decodeCompressed (io : FieldIO F) (a b : F) (len : Nat) (bs : List Nat) : Option (WPt F) :=
  if bs.length ≠ len then none else
  let n := leNat bs
  let sign := n / topBit len % 2
  let x := io.ofNat (n % topBit len)
  if x = 0 ∧ sign = 0 then some .inf
  else match io.sqrt? (x * x * x + a * x + b) with
    | none => none
    | some y => some (.aff x (if io.toNat y % 2 = sign then y else -y))

def encodeUncompressed (io : FieldIO F) (len : Nat) : WPt F → List Nat
  | .inf => leBytes len 0 ++ leBytes len 0
  | .aff x y => leBytes len (io.toNat x) ++ leBytes len (io.toNat y)

def decodeUncompressed (io : FieldIO F) (a b : F) (len : Nat) (bs : List Nat) : Option (WPt F) :=
  if bs.length ≠ 2 * len then none else
  let x := io.ofNat (leNat (bs.take len))
  let y := io.ofNat (leNat (bs.drop len))
  if x = 0 ∧ y = 0 then some .inf
  else if W.onCurve a b (.aff x y) then some (.aff x y) else none

end Pasta

/-! ## twisted Edwards (edwards25519 and its prime-order subgroup type) -/
namespace Ed

def encodeCompressed (io : FieldIO F) (len : Nat) (P : EPt F) : List Nat :=
  leBytes len (io.toNat P.y + topBit len * (io.toNat P.x % 2))

/-- `x² = (1 - y²) / (a - d·y²)`; the sign bit selects the parity of `x` (for `x = 0` it is ignored) -/
def decodeCompressed (io : FieldIO F) (a d : F) (len : Nat) (bs : List Nat) : Option (EPt F) :=
  if bs.length ≠ len then none else
  let n := leNat bs
  let sign := n / topBit len % 2
  let y := io.ofNat (n % topBit len)
  let den := a - d * (y * y)
  if den = 0 then none
  else match io.sqrt? ((1 - y * y) * den⁻¹) with
    | none => none
    | some x => some ⟨if io.toNat x % 2 = sign then x else -x, y⟩

def encodeUncompressed (io : FieldIO F) (len : Nat) (P : EPt F) : List Nat :=
  leBytes len (io.toNat P.y) ++ leBytes len (io.toNat P.x)

def decodeUncompressed (io : FieldIO F) (a d : F) (len : Nat) (bs : List Nat) : Option (EPt F) :=
  if bs.length ≠ 2 * len then none else
  let yn := leNat (bs.take len)
  let xn := leNat (bs.drop len)
  if topBit len ≤ yn ∨ topBit len ≤ xn then none else
  let P : EPt F := ⟨io.ofNat xn, io.ofNat yn⟩
  if E.onCurve a d P then some P else none

def fromAffine (a d x y : F) : Option (EPt F) :=
  if E.onCurve a d ⟨x, y⟩ then some ⟨x, y⟩ else none

/-- the prime-subgroup types run the full-curve decoder and then require `n • P = 0` -/
def inSub (a d : F) (n : Nat) (P : EPt F) : Bool := Fast.eInSub a d n P

def subOnly (a d : F) (n : Nat) (r : Option (EPt F)) : Option (EPt F) :=
  match r with
  | some P => if inSub a d n P then some P else none
  | none => none

end Ed

/-! ## curve25519: Edwards representation, Montgomery coordinates on the wire -/
namespace Mont

/-- `u = (1 + y) / (1 - y)`; undefined only at the identity -/
def u? (P : EPt F) : Option F :=
  if (1 : F) - P.y = 0 then none else some (((1 : F) + P.y) * ((1 : F) - P.y)⁻¹)

/-- `v = c · (1 + y) / (x - x·y)`; `x - x·y = 0` holds on the curve only for the identity (no affine
Montgomery coordinates) and for the point of order 2, `(0, -1)`, which is `(u, v) = (0, 0)` -/
def v? (c : F) (P : EPt F) : Option F :=
  let w := P.x - P.x * P.y
  if w = 0 then (if P = E.zero then none else some 0) else some (((1 : F) + P.y) * w⁻¹ * c)

/-- `none` models the encoder's panic -/
def encodeCompressed (io : FieldIO F) (len : Nat) (P : EPt F) : Option (List Nat) :=
  if P = E.zero then some (leBytes len 0) else
  (u? P).map fun u => leBytes len (io.toNat u)

def encodeUncompressed (io : FieldIO F) (c : F) (len : Nat) (P : EPt F) : Option (List Nat) :=
  if P = E.zero then some (leBytes len 0 ++ leBytes len 0) else
  match u? P, v? c P with
  | some u, some v => some (leBytes len (io.toNat u) ++ leBytes len (io.toNat v))
  | _, _ => none

/-- the result is determined up to sign (the implementation's square root decides) -/
def decodeCompressed (io : FieldIO F) (a d : F) (len : Nat) (bs : List Nat) : Option (EPt F) :=
  if bs.length ≠ len then none else
  if bs.all (· == 0) then some E.zero else
  let n := leNat bs
  if topBit len ≤ n then none else
  let u := io.ofNat n
  if u + 1 = 0 then none else
  let y := (u - 1) * (u + 1)⁻¹
  let den := a - d * (y * y)
  if den = 0 then none
  else match io.sqrt? ((1 - y * y) * den⁻¹) with
    | none => none
    | some x => some ⟨x, y⟩

def fromAffine (io : FieldIO F) (a d c : F) (len : Nat) (u v : F) : Option (EPt F) :=
  match decodeCompressed io a d len (leBytes len (io.toNat u)) with
  | none => none
  | some P =>
    if v? c P = some v then some P
    else if v? c (E.neg P) = some v then some (E.neg P)
    else none

def decodeUncompressed (io : FieldIO F) (a d c : F) (len : Nat) (bs : List Nat) : Option (EPt F) :=
  if bs.length ≠ 2 * len then none else
  if bs.all (· == 0) then some E.zero else
  let un := leNat (bs.take len)
  let vn := leNat (bs.drop len)
  if topBit len ≤ un ∨ topBit len ≤ vn then none else
  fromAffine io a d c len (io.ofNat un) (io.ofNat vn)

end Mont

/-! ## BLS12-381 G1 / G2 (ZCash serialization) -/

/-- coordinate view for the BLS codecs: components in wire order (`[x]` for Fp, `[c1, c0]` for Fp2) -/
structure CoordIO (F : Type) where
  comps : Nat
  toNats : F → List Nat
  ofNats : List Nat → F
  sqrt? : F → Option F
  isNeg : F → Bool

namespace Bls

def chunks : Nat → Nat → List Nat → List (List Nat)
  | 0, _, _ => []
  | k + 1, len, bs => bs.take len :: chunks k len (bs.drop len)

def coordBytes (io : CoordIO F) (len : Nat) (x : F) : List Nat :=
  ((io.toNats x).map (beBytes len)).flatten

def setFlags (flags : Nat) : List Nat → List Nat
  | [] => []
  | b :: bs => (b + flags) :: bs

def readCoord (io : CoordIO F) (len : Nat) (bs : List Nat) : F :=
  io.ofNats ((chunks io.comps len bs).map beNat)

def encodeCompressed (io : CoordIO F) (len : Nat) : WPt F → List Nat
  | .inf => setFlags 192 (List.replicate (io.comps * len) 0)
  | .aff x y => setFlags (128 + (if io.isNeg y then 32 else 0)) (coordBytes io len x)

def encodeUncompressed (io : CoordIO F) (len : Nat) : WPt F → List Nat
  | .inf => setFlags 64 (List.replicate (2 * io.comps * len) 0)
  | .aff x y => coordBytes io len x ++ coordBytes io len y

def inSub (a : F) (n : Nat) (P : WPt F) : Bool := Fast.wInSub a n P

def decodeCompressed (io : CoordIO F) (a b : F) (n len : Nat) : List Nat → Option (WPt F)
  | [] => none
  | b0 :: rest =>
    if rest.length + 1 ≠ io.comps * len then none else
    let c := b0 / 128 % 2
    let i := b0 / 64 % 2
    let s := b0 / 32 % 2
    let body := (b0 % 32) :: rest
    if c ≠ 1 then none
    else if i = 1 then
      if s = 1 then none else if body.all (· == 0) then some .inf else none
    else
      let x := readCoord io len body
      match io.sqrt? (x * x * x + a * x + b) with
      | none => none
      | some y0 =>
        let y := if io.isNeg y0 = (s == 1) then y0 else -y0
        if inSub a n (.aff x y) then some (.aff x y) else none

def decodeUncompressed (io : CoordIO F) (a b : F) (n len : Nat) : List Nat → Option (WPt F)
  | [] => none
  | b0 :: rest =>
    if rest.length + 1 ≠ 2 * io.comps * len then none else
    if b0 / 128 % 2 = 1 then none else
    if b0 / 32 % 2 = 1 then none else
    let body := (b0 % 32) :: rest
    if b0 / 64 % 2 = 1 then (if body.all (· == 0) then some .inf else none) else
    let x := readCoord io len (body.take (io.comps * len))
    let y := readCoord io len (body.drop (io.comps * len))
    if W.onCurve a b (.aff x y) && inSub a n (.aff x y) then some (.aff x y) else none

def fromAffine (a b : F) (n : Nat) (x y : F) : Option (WPt F) :=
  if W.onCurve a b (.aff x y) && inSub a n (.aff x y) then some (.aff x y) else none

end Bls
end generic

/-! ## CBOR envelope `{"compressedBytes": h'…'}` (canonical form only) -/
namespace Cbor

def keyBytes : List Nat := [0x63, 0x6f, 0x6d, 0x70, 0x72, 0x65, 0x73, 0x73, 0x65, 0x64, 0x42, 0x79, 0x74, 0x65, 0x73]

def header (n : Nat) : List Nat :=
  if n < 24 then [0x40 + n] else if n < 256 then [0x58, n] else [0x59, n / 256, n % 256]

def wrap (payload : List Nat) : List Nat := [0xa1, 0x6f] ++ keyBytes ++ header payload.length ++ payload

/-- strict parser of the canonical envelope -/
def unwrap? (bs : List Nat) : Option (List Nat) :=
  let pre := [0xa1, 0x6f] ++ keyBytes
  if bs.take pre.length ≠ pre then none else
  match bs.drop pre.length with
  | [] => none
  | h :: rest =>
    if 0x40 ≤ h ∧ h < 0x58 then (if rest.length = h - 0x40 then some rest else none)
    else if h = 0x58 then
      match rest with
      | n :: body => if 24 ≤ n ∧ body.length = n then some body else none
      | [] => none
    else if h = 0x59 then
      match rest with
      | n1 :: n0 :: body => if 256 ≤ n1 * 256 + n0 ∧ body.length = n1 * 256 + n0 then some body else none
      | _ => none
    else none

end Cbor

/-! ## scalars / prime-field elements -/
namespace Scalar

/-- `FromBytes`: exactly `len` big-endian bytes, reduced modulo the order -/
def fromBytes (q len : Nat) (bs : List Nat) : Option Nat :=
  if bs.length ≠ len then none else some (beNat bs % q)

/-- the edwards25519 base field additionally rejects a set top bit -/
def fromBytesClearTop (q len : Nat) (bs : List Nat) : Option Nat :=
  if bs.length ≠ len then none else if topBit len ≤ beNat bs then none else some (beNat bs % q)

def toBytes (len v : Nat) : List Nat := beBytes len v

/-- `FromWideBytes`: at most `wide` big-endian bytes, reduced -/
def fromWideBytes (q wide : Nat) (bs : List Nat) : Option Nat :=
  if wide < bs.length then none else some (beNat bs % q)

/-- `SetBytesWide` of the fiat-crypto fields (`k256/impl/fq.gen.go` and its siblings), called by
`FromWideBytes` on the reversed input: the little-endian string is zero-padded to `2·size` bytes and
split into `d0 ‖ d1`; the result is `d0 + d1·R` with `R = 256^size` (one resp. two `ToMontgomery`
conversions), computed in the field -/
def fromWideSplit (q size : Nat) (bs : List Nat) : Option Nat :=
  if 2 * size < bs.length then none else
  let le := bs.reverse ++ List.replicate (2 * size - bs.length) 0
  let d0 := leNat (le.take size)
  let d1 := leNat (le.drop size)
  some ((d0 % q + d1 % q * (256 ^ size % q)) % q)

end Scalar

/-! ## GT: twelve base-field components, each reduced -/
namespace GT

def decode (p len : Nat) (bs : List Nat) : Option (List Nat) :=
  if bs.length ≠ 12 * len then none else some ((Bls.chunks 12 len bs).map fun c => beNat c % p)

def encode (len : Nat) (cs : List Nat) : List Nat := (cs.map (beBytes len)).flatten

end GT

/-! ## what the bytes of a fixed-length encoding denote, independently of the accept / reject rules

`Layout.canon` re-writes a byte string of the right length with every coordinate reduced modulo `p`
and the flag bits kept.  The driver uses it as the *denotation* oracle of the property ("the element
obtained by reading the bytes modulo the field order"): an implementation that accepts `bs` and
returns `P` reads the bytes as the format says iff `encode P = canon bs`. -/

structure Layout where
  /-- number of tag bytes in front (SEC1: 1) -/
  hdr : Nat
  bigEndian : Bool
  /-- bytes per coordinate -/
  len : Nat
  /-- number of coordinates -/
  chunks : Nat
  /-- flag bits at the top of the first coordinate -/
  flagBits : Nat
  /-- a set top bit in a flag-less coordinate has no meaning (25519 field decoding refuses it) -/
  strictTop : Bool

namespace Layout

def canonAux (L : Layout) (p : Nat) : Bool → List (List Nat) → Option (List Nat)
  | _, [] => some []
  | first, c :: cs =>
    let v := if L.bigEndian then beNat c else leNat c
    let wr := fun (n : Nat) => if L.bigEndian then beBytes L.len n else leBytes L.len n
    let fb := if first then L.flagBits else 0
    let cut := 2 ^ (8 * L.len - fb)
    if fb = 0 ∧ L.strictTop = true ∧ 2 ^ (8 * L.len - 1) ≤ v then none
    else match canonAux L p false cs with
      | none => none
      | some rest => some (wr (v / cut * cut + v % cut % p) ++ rest)

/-- `none`: wrong length, or a coordinate the format gives no meaning to -/
def canon (L : Layout) (p : Nat) (bs : List Nat) : Option (List Nat) :=
  if bs.length ≠ L.hdr + L.chunks * L.len then none
  else (canonAux L p true (Bls.chunks L.chunks L.len (bs.drop L.hdr))).map fun body => bs.take L.hdr ++ body

end Layout

/-! ## the constants the Go encoders hard-code, as the model uses them

`Props/C13.lean` proves `enc_constants_match_source`: the tables below are exactly the constants the
translator extracts from the encoder / decoder functions of /repo (`Gen/EncConsts.lean`), and
`enc_constants_used_by_model`: the model's arithmetic is written with the same constants. -/
namespace Consts

/-- SEC1 tag bytes -/
def tagEven : Nat := 2
def tagOdd : Nat := 3
def tagUncompressed : Nat := 4
/-- `y.Bytes()[0] & 1`: parity of a coordinate -/
def parityMask : Nat := 1
/-- pasta / edwards25519: bit `signShift` of the last byte is the sign flag … -/
def signShift : Nat := 7
/-- … and `coordMask` keeps the coordinate bits of that byte -/
def coordMask : Nat := 0x7f
/-- edwards25519 `Fp.SetBytes` refuses a set top bit -/
def topBitMask : Nat := 0x80
/-- BLS12-381 (ZCash): compressed / infinity / sort flag = bit 7 / 6 / 5 of the first byte -/
def blsC : Nat := 7
def blsI : Nat := 6
def blsS : Nat := 5
/-- the coordinate bits of the first byte -/
def blsBodyMask : Nat := 0x1f
def byteMask : Nat := 0xff
/-- bytes per coordinate -/
def len256 : Nat := 32
def lenBls : Nat := 48

/-- constants of one Go function by role (sorted, without duplicates), as emitted by the translator -/
structure Facts where
  lens : List Nat := []
  cmps : List Nat := []
  masks : List Nat := []
  shifts : List Nat := []
  idx : List Nat := []
  vals : List Nat := []
  sizes : List Nat := []
  deriving DecidableEq, Repr

def sec1FromCompressed : Facts :=
  { lens := [len256 + 1], cmps := [tagEven, tagOdd], masks := [parityMask], idx := [0, 1], sizes := [len256] }
def sec1FromUncompressed : Facts :=
  { lens := [2 * len256 + 1], cmps := [tagUncompressed], idx := [0, 1, len256 + 1], sizes := [len256] }
def sec1ToCompressed : Facts :=
  { masks := [parityMask], idx := [0, 1], vals := [tagEven], sizes := [len256 + 1] }
def sec1ToUncompressed : Facts :=
  { idx := [0, 1, len256 + 1], vals := [tagUncompressed], sizes := [2 * len256 + 1] }

def pastaFromCompressed : Facts :=
  { lens := [len256], masks := [parityMask, coordMask], shifts := [signShift], idx := [0, len256 - 1], sizes := [len256] }
def pastaFromUncompressed : Facts := { lens := [2 * len256], idx := [len256] }
def pastaToCompressed : Facts :=
  { masks := [parityMask], shifts := [signShift], idx := [0, len256 - 1], sizes := [len256] }
def pastaToUncompressed : Facts := { sizes := [2 * len256] }

def edFromCompressed : Facts :=
  { lens := [len256], masks := [coordMask], shifts := [signShift], idx := [len256 - 1], sizes := [len256] }
def edFromUncompressed : Facts := { lens := [2 * len256], idx := [len256] }
def edToCompressed : Facts := { shifts := [signShift], idx := [len256 - 1] }
def edToUncompressed : Facts := {}
def edFpSetBytes : Facts := { lens := [len256], masks := [topBitMask], idx := [len256 - 1], sizes := [len256] }

def montFromCompressed : Facts := { lens := [len256] }
def montFromUncompressed : Facts := { lens := [2 * len256], idx := [len256] }
def montToCompressed : Facts := { sizes := [len256] }
def montToUncompressed : Facts := { sizes := [2 * len256] }

def g1FromCompressed : Facts :=
  { lens := [lenBls], masks := [1, blsBodyMask], shifts := [blsS, blsI, blsC], idx := [0],
    vals := [blsBodyMask, byteMask], sizes := [lenBls] }
def g1FromUncompressed : Facts :=
  { lens := [2 * lenBls], masks := [1, blsBodyMask], shifts := [blsS, blsI, blsC], idx := [0, lenBls],
    vals := [blsBodyMask, byteMask], sizes := [2 * lenBls] }
def g1ToCompressed : Facts := { masks := [1], shifts := [blsS, blsI, blsC], idx := [0] }
def g1ToUncompressed : Facts := { shifts := [blsS, blsI, blsC], idx := [0] }
def g2FromCompressed : Facts :=
  { lens := [2 * lenBls], masks := [1, blsBodyMask], shifts := [blsS, blsI, blsC], idx := [0, lenBls, 2 * lenBls],
    vals := [blsBodyMask, byteMask], sizes := [2 * lenBls] }
def g2FromUncompressed : Facts :=
  { lens := [4 * lenBls], masks := [1, blsBodyMask], shifts := [blsS, blsI, blsC], idx := [0, lenBls, 2 * lenBls, 3 * lenBls],
    vals := [blsBodyMask, byteMask], sizes := [4 * lenBls] }
/-- G2 writes the compressed flag as the constant `1 << 7` -/
def g2ToCompressed : Facts := { masks := [1, 2 ^ blsC], shifts := [blsS, blsI], idx := [0] }
def g2ToUncompressed : Facts := { shifts := [blsI], idx := [0] }

/-- every function the translator reads, with the constants the model expects there -/
def expected : List (String × Facts) := [
  ("k256_FromCompressed", sec1FromCompressed), ("k256_FromUncompressed", sec1FromUncompressed),
  ("k256_ToCompressed", sec1ToCompressed), ("k256_ToUncompressed", sec1ToUncompressed),
  ("p256_FromCompressed", sec1FromCompressed), ("p256_FromUncompressed", sec1FromUncompressed),
  ("p256_ToCompressed", sec1ToCompressed), ("p256_ToUncompressed", sec1ToUncompressed),
  ("pallas_FromCompressed", pastaFromCompressed), ("pallas_FromUncompressed", pastaFromUncompressed),
  ("pallas_ToCompressed", pastaToCompressed), ("pallas_ToUncompressed", pastaToUncompressed),
  ("vesta_FromCompressed", pastaFromCompressed), ("vesta_FromUncompressed", pastaFromUncompressed),
  ("vesta_ToCompressed", pastaToCompressed), ("vesta_ToUncompressed", pastaToUncompressed),
  ("ed25519_FromCompressed", edFromCompressed), ("ed25519_FromUncompressed", edFromUncompressed),
  ("ed25519_ToCompressed", edToCompressed), ("ed25519_ToUncompressed", edToUncompressed),
  ("ed25519_Fp_SetBytes", edFpSetBytes),
  ("curve25519_FromCompressed", montFromCompressed), ("curve25519_FromUncompressed", montFromUncompressed),
  ("curve25519_ToCompressed", montToCompressed), ("curve25519_ToUncompressed", montToUncompressed),
  ("g1_FromCompressed", g1FromCompressed), ("g1_FromUncompressed", g1FromUncompressed),
  ("g1_ToCompressed", g1ToCompressed), ("g1_ToUncompressed", g1ToUncompressed),
  ("g2_FromCompressed", g2FromCompressed), ("g2_FromUncompressed", g2FromUncompressed),
  ("g2_ToCompressed", g2ToCompressed), ("g2_ToUncompressed", g2ToUncompressed)]

end Consts

/-! ## instances over the executable fields -/

def fpIO (q : Nat) [NeZero q] : FieldIO (Fp q) := ⟨Fp.val, Fp.ofNat q, Fp.sqrt?⟩

/-- square root in `Fp2 = Fp[u]/(u²+1)` for `p ≡ 3 (mod 4)` via the norm -/
def fp2Sqrt? {q : Nat} [NeZero q] (a : Fp2 q) : Option (Fp2 q) :=
  let zero := Fp.ofNat q 0
  if a.c1 = zero then
    match Fp.sqrt? a.c0 with
    | some r => some ⟨r, zero⟩
    | none => (Fp.sqrt? (-a.c0)).map fun r => ⟨zero, r⟩
  else
    match Fp.sqrt? (a.c0 * a.c0 + a.c1 * a.c1) with
    | none => none
    | some s =>
      let half := (Fp.ofNat q 2)⁻¹
      let attempt (t : Fp q) : Option (Fp2 q) :=
        match Fp.sqrt? t with
        | none => none
        | some x0 =>
          if x0.val = 0 then none else
          let r : Fp2 q := ⟨x0, a.c1 * (x0 + x0)⁻¹⟩
          if r * r = a then some r else none
      match attempt ((a.c0 + s) * half) with
      | some r => some r
      | none => attempt ((a.c0 - s) * half)

def fpNeg {q : Nat} [NeZero q] (y : Fp q) : Bool := decide ((-y).val < y.val)

def g1IO (q : Nat) [NeZero q] : CoordIO (Fp q) where
  comps := 1
  toNats x := [x.val]
  ofNats xs := Fp.ofNat q (xs.headD 0)
  sqrt? := Fp.sqrt?
  isNeg := fpNeg

def g2IO (q : Nat) [NeZero q] : CoordIO (Fp2 q) where
  comps := 2
  toNats x := [x.c1.val, x.c0.val]
  ofNats xs := ⟨Fp.ofNat q (xs.getD 1 0), Fp.ofNat q (xs.getD 0 0)⟩
  sqrt? := fp2Sqrt?
  isNeg y := fpNeg y.c1 || (y.c1.val == 0 && fpNeg y.c0)

/-- `sqrt(-486664)`, the constant of `curve25519.AffineY` -/
def montC : Nat := 0x0f26edf460a006bbd27b08dc03fc4f7ec5a1d3d14b7d1a82cc6e04aaff457e06

end BronVerif.CurveEnc
