import BronVerif.Model.LinAlg
/-!
# Access structures (core-only)

Policies of the five families of `pkg/mpc/sharing/accessstructures`, their constructor checks,
their meaning (`isQualified`) and the monotone span programme each family induces
(`inducedMSP`, mirroring `threshold.InducedMSP` (Vandermonde), `unanimity.InducedMSP`,
`cnf.InducedMSP` (clause vectors, clauses ordered as the bitmasks of the maximal unqualified sets, compared as descending member lists),
`hierarchical.InducedMSP` (Birkhoff–Vandermonde after `CheckConstraints`) and
`boolexpr.InducedMSP` (Liu–Cao–Wong gate expansion)).
-/
namespace BronVerif.Access
open BronVerif.LinAlg

/-- threshold-gate tree: a leaf names a shareholder, a gate needs `t` satisfied children -/
inductive Tree where
  | leaf (id : Nat)
  | gate (t : Int) (cs : List Tree)
  deriving Inhabited

inductive Policy where
  | threshold (t : Nat) (ids : List Nat)
  | unanimity (ids : List Nat)
  /-- given by unqualified sets in constructor-argument order (not yet normalised) -/
  | cnf (sets : List (List Nat))
  | hier (levels : List (Int × List Nat))
  | tree (root : Tree)
  deriving Inhabited

/-! ### small list utilities -/

def sortNat (xs : List Nat) : List Nat := xs.mergeSort (fun a b => decide (a ≤ b))
def dedup (xs : List Nat) : List Nat := xs.eraseDups
def sortedSet (xs : List Nat) : List Nat := sortNat (dedup xs)
def subset (xs ys : List Nat) : Bool := xs.all ys.contains
def sameSet (xs ys : List Nat) : Bool := subset xs ys && subset ys xs
def inter (xs ys : List Nat) : List Nat := xs.filter ys.contains
def maxOf (xs : List Nat) : Nat := xs.foldl max 0

/-- all sublists (as sets) of `xs`, indexed by bit mask: element `m` selects `xs[i]` for bit `i` of `m` -/
def subsetByMask (xs : List Nat) (m : Nat) : List Nat :=
  (xs.zipIdx.filter fun (_, i) => (m >>> i) % 2 = 1).map (·.1)

/-! ### gate trees -/

mutual
def Tree.eval (S : List Nat) : Tree → Bool
  | .leaf id => S.contains id
  | .gate t cs => decide (t ≤ (Tree.countTrue S cs : Int))
def Tree.countTrue (S : List Nat) : List Tree → Nat
  | [] => 0
  | c :: cs => (if Tree.eval S c then 1 else 0) + Tree.countTrue S cs
end

mutual
def Tree.leaves : Tree → List Nat
  | .leaf id => [id]
  | .gate _ cs => Tree.leavesList cs
def Tree.leavesList : List Tree → List Nat
  | [] => []
  | c :: cs => Tree.leaves c ++ Tree.leavesList cs
end

mutual
def Tree.size : Tree → Nat
  | .leaf _ => 1
  | .gate _ cs => 1 + Tree.sizeList cs
def Tree.sizeList : List Tree → Nat
  | [] => 0
  | c :: cs => Tree.size c + Tree.sizeList cs
end

def Tree.isLeaf : Tree → Bool
  | .leaf _ => true
  | .gate _ _ => false

def Tree.attrChildren (cs : List Tree) : List Nat :=
  cs.filterMap fun c => match c with | .leaf id => some id | .gate _ _ => none

mutual
/-- `checkTree`: positive id at leaves; `0 < t ≤ #children`; no repeated leaf under one gate -/
def Tree.valid : Tree → Bool
  | .leaf id => id != 0
  | .gate t cs =>
    decide (0 < t) && decide (t ≤ (cs.length : Int)) &&
    ((Tree.attrChildren cs).eraseDups.length == (Tree.attrChildren cs).length) &&
    Tree.validList cs
def Tree.validList : List Tree → Bool
  | [] => true
  | c :: cs => Tree.valid c && Tree.validList cs
end

/-! ### constructors' checks, shareholders, meaning -/

/-- `normaliseCNF`: distinct sets in order of first appearance, then only the maximal ones -/
def cnfNormalise (sets : List (List Nat)) : List (List Nat) :=
  let uniq := sets.foldl (fun acc s => if acc.any (sameSet s) then acc else acc ++ [sortedSet s]) []
  uniq.zipIdx.filterMap fun (s, i) =>
    if uniq.zipIdx.any (fun (s', j) => i != j && subset s s') then none else some s

def hierCumulative (levels : List (Int × List Nat)) : List (Int × List Nat) :=
  (levels.foldl (fun (acc : List (Int × List Nat) × List Nat) l =>
      let cum := dedup (acc.2 ++ l.2)
      (acc.1 ++ [(l.1, cum)], cum)) ([], [])).1

/-- the constructor of the family: `ok` or the class of the error it returns -/
def Policy.validate : Policy → Except String Unit
  | .threshold t ids =>
    if ids.contains 0 then .error "err:membership"
    else if t < 2 then .error "err:value"
    else if t > (dedup ids).length then .error "err:value"
    else .ok ()
  | .unanimity ids =>
    if (dedup ids).length < 2 then .error "err:value"
    else if ids.contains 0 then .error "err:membership"
    else .ok ()
  | .cnf sets =>
    if sets.isEmpty then .error "err:value" else
    -- per set, in order: empty → value, contains 0 → membership
    match sets.findSome? (fun s => if s.isEmpty then some "err:value" else if s.contains 0 then some "err:membership" else none) with
    | some e => .error e
    | none =>
      if (dedup (cnfNormalise sets).flatten).length < 2 then .error "err:membership" else .ok ()
  | .hier levels =>
    if levels.isEmpty then .error "err:value" else
    let step (acc : Except String (Int × List Nat)) (l : Int × List Nat) : Except String (Int × List Nat) := do
      let (cur, cum) ← acc
      if l.2.contains 0 then throw "err:value"
      if l.1 ≤ cur then throw "err:value"
      if !(inter cum l.2).isEmpty then throw "err:value"
      let cum' := dedup (cum ++ l.2)
      if (cum'.length : Int) < l.1 then throw "err:value"
      return (l.1, cum')
    match levels.foldl step (.ok (0, [])) with
    | .error e => .error e
    | .ok _ => .ok ()
  | .tree root => if root.valid then .ok () else .error "err:value"

/-- shareholders, sorted ascending -/
def Policy.shareholders : Policy → List Nat
  | .threshold _ ids => sortedSet ids
  | .unanimity ids => sortedSet ids
  | .cnf sets => sortedSet (cnfNormalise sets).flatten
  | .hier levels => sortedSet (levels.map (·.2)).flatten
  | .tree root => sortedSet root.leaves

/-- The meaning of the policy: is the set `S` of shareholder IDs qualified?
For IDs outside the shareholders the families differ exactly as the Go code does
(threshold/CNF/unanimity reject, hierarchical and gate trees ignore them). -/
def Policy.isQualified (p : Policy) (S0 : List Nat) : Bool :=
  let S := dedup S0
  match p with
  | .threshold t ids => decide (t ≤ S.length) && subset S ids
  | .unanimity ids => sameSet S ids
  | .cnf sets =>
    subset S (cnfNormalise sets).flatten && (cnfNormalise sets).all fun u => !subset S u
  | .hier levels => (hierCumulative levels).all fun (t, cum) => decide (t ≤ ((inter cum S).length : Int))
  | .tree root => root.eval S

/-- maximal unqualified subsets of the shareholders (as ascending lists) -/
def Policy.maximalUnqualified (p : Policy) : List (List Nat) :=
  let U := p.shareholders
  let all := (List.range (2 ^ U.length)).map (subsetByMask U)
  let unq := all.filter fun s => !s.isEmpty && !p.isQualified s
  unq.filter fun s => !unq.any fun s' => s'.length > s.length && subset s s'

/-- bitmask of a set of IDs in `[1,64]` as `bitset.ImmutableBitSet` stores it -/
def idMask (s : List Nat) : Nat := (dedup s).foldl (fun acc id => acc + 2 ^ (id - 1)) 0

/-! ### induced span programmes -/

section MSP
variable {F : Type} [Add F] [Mul F] [Sub F] [Neg F] [Inv F] [OfNat F 0] [OfNat F 1] [DecidableEq F] [NatCast F]

/-- monotone span programme: matrix (`cols` columns), row `i` is owned by `holders[i]`; target `e₀` -/
structure MSP (F : Type) where
  mat : Mat F
  cols : Nat
  holders : List Nat

/-- `[1, x, x², …]` of length `n` by repeated multiplication -/
def powers (x : F) : Nat → List F
  | 0 => []
  | n + 1 => 1 :: (powers x n).map (· * x)

def unitVec (n i : Nat) : List F := (List.range n).map fun j => if j = i then (1 : F) else 0

def thresholdMSP (t : Nat) (ids : List Nat) : MSP F :=
  let hs := sortedSet ids
  { mat := hs.map fun (id : Nat) => powers (id : F) t, cols := t, holders := hs }

def unanimityMSP (ids : List Nat) : MSP F :=
  let hs := sortedSet ids
  let n := hs.length
  { mat := (List.range n).map fun i =>
      if i + 1 < n then unitVec n (i + 1)
      else (List.range n).map fun j => if j = 0 then (1 : F) else -1,
    cols := n, holders := hs }

/-- clause vectors: clause `i < m-1` ↦ `e_{i+1}`; the last clause ↦ `e₀ - e₁ - … - e_{m-1}` -/
def cnfClauseVector (m i : Nat) : List F :=
  if i + 1 < m then unitVec m (i + 1)
  else (List.range m).map fun j => if j = 0 then (1 : F) else -1

/-- members in descending order -/
def descSorted (s : List Nat) : List Nat := (dedup s).mergeSort fun a b => decide (b ≤ a)

/-- lexicographic `≤` on lists of naturals (a proper prefix is smaller) -/
def lexLe : List Nat → List Nat → Bool
  | [], _ => true
  | _ :: _, [] => false
  | a :: as, b :: bs => if a < b then true else if b < a then false else lexLe as bs

/-- the order `cnf.InducedMSP` gives the maximal unqualified sets: that of the sets read as bit masks
(bit `id-1` for every member), i.e. the lexicographic order of the member lists sorted descending
(no bound on the IDs; for IDs ≤ 64 it is the order of `idMask`) -/
def cnfSetLe (a b : List Nat) : Bool := lexLe (descSorted a) (descSorted b)

def cnfMSP (sets : List (List Nat)) : MSP F :=
  let mus := cnfNormalise sets
  let hs := sortedSet mus.flatten
  let sorted := mus.mergeSort cnfSetLe
  let m := sorted.length
  let rows := sorted.zipIdx.flatMap fun (u, i) =>
    (hs.filter fun id => !u.contains id).map fun id => ((cnfClauseVector m i : List F), id)
  { mat := rows.map (·.1), cols := m, holders := rows.map (·.2) }

/-- falling factorial `c (c-1) … (c-j+1)` -/
def fallingFact (c j : Nat) : Nat := (List.range j).foldl (fun acc k => acc * (c - k)) 1

/-- `Phi(c, x, j)`: the `j`-th derivative of `X^c` at `x` -/
def birkhoffEntry (c : Nat) (x : F) (j : Nat) : F :=
  if j > c then 0 else ((fallingFact c j : Nat) : F) * (powers x (c - j + 1)).getLastD 1

def birkhoffMatrix (nodes : List (Nat × Nat)) (cols : Nat) : Mat F :=
  nodes.map fun (id, j) => (List.range cols).map fun c => birkhoffEntry c (id : F) j

/-- `Rank(id)`: 0 on the first level, otherwise the threshold of the previous level -/
def hierRank (levels : List (Int × List Nat)) (id : Nat) : Option Nat :=
  let rec go (prev : Int) : List (Int × List Nat) → Option Nat
    | [] => none
    | l :: ls => if l.2.contains id then some prev.toNat else go l.1 ls
  go 0 levels

def topThreshold (levels : List (Int × List Nat)) : Nat :=
  match levels.getLast? with
  | some l => l.1.toNat
  | none => 0

def factorial : Nat → Nat
  | 0 => 1
  | n + 1 => (n + 1) * factorial n

/-- `hierarchical.CheckConstraints` for a field of order `q` -/
def hierCheck (q : Nat) (levels : List (Int × List Nat)) : Except String Unit :=
  let step (acc : Except String (Nat × List Nat)) (l : Int × List Nat) : Except String (Nat × List Nat) := do
    let (prevMax, cum) ← acc
    if l.2.any (fun id => id ≤ prevMax) then throw "err:membership"
    let cum' := cum ++ l.2
    return (maxOf cum', cum')
  match levels.foldl step (.ok (0, [])) with
  | .error e => .error e
  | .ok (prevMax, _) =>
    let n := (prevMax + 1) % 2 ^ 64
    let k := (topThreshold levels) + 1
    if k > 20 then .error "err:failed" else
    let kf := k.toFloat
    let alpha := Float.pow 2.0 (2.0 - kf) * Float.pow (kf - 1.0) ((kf - 1.0) / 2.0) * (factorial (k - 1)).toFloat
    if alpha * Float.pow n.toFloat ((kf - 1.0) * (kf - 2.0) / 2.0) ≥ q.toFloat then .error "err:failed" else .ok ()

def hierMSP (levels : List (Int × List Nat)) : MSP F :=
  let hs := sortedSet (levels.map (·.2)).flatten
  let top := (topThreshold levels)
  { mat := birkhoffMatrix (hs.map fun id => (id, (hierRank levels id).getD 0)) top, cols := top, holders := hs }

/-- one Liu–Cao–Wong insertion step: the first gate of the frontier is replaced by its children -/
def lcwStep (st : List (List F × Tree) × Nat) : Option (List (List F × Tree) × Nat) :=
  let (front, d) := st
  match front.findIdx? (fun e => !e.2.isLeaf) with
  | none => none
  | some z =>
    match front[z]? with
    | some (prow, .gate t cs) =>
      let d2 := t.toNat
      let pad : List F := List.replicate (d2 - 1) 0
      let before := (front.take z).map fun (e : List F × Tree) => (e.1 ++ pad, e.2)
      let after := (front.drop (z + 1)).map fun (e : List F × Tree) => (e.1 ++ pad, e.2)
      let mid := cs.zipIdx.map fun ((ch, i) : Tree × Nat) =>
        let x : F := ((i + 1 : Nat) : F)
        (prow ++ (powers x d2).drop 1, ch)
      some (before ++ mid ++ after, d + d2 - 1)
    | _ => none

def lcwRun : Nat → List (List F × Tree) × Nat → List (List F × Tree) × Nat
  | 0, st => st
  | fuel + 1, st => match lcwStep st with
    | none => st
    | some st' => lcwRun fuel st'

def treeMSP (root : Tree) : MSP F :=
  let (front, d) := lcwRun root.size ([([(1 : F)], root)], 1)
  { mat := front.map (·.1), cols := d,
    holders := front.map fun (_, nd) => match nd with | .leaf id => id | .gate _ _ => 0 }

/-- `accessstructures.InducedMSP` over the field of order `q` (`q` only matters for the
hierarchical field-size condition): the programme or the class of the error -/
def inducedMSP (q : Nat) (p : Policy) : Except String (MSP F) :=
  let finish (m : MSP F) : Except String (MSP F) :=
    if m.mat.isEmpty then .error "err:dimension" else .ok m
  match p with
  | .threshold t ids => finish (thresholdMSP t ids)
  | .unanimity ids => finish (unanimityMSP ids)
  | .cnf sets => finish (cnfMSP sets)
  | .hier levels => do
    hierCheck q levels
    finish (hierMSP levels)
  | .tree root => finish (treeMSP root)

end MSP
end BronVerif.Access
