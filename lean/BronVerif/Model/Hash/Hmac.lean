/-!
Generic HMAC (RFC 2104) and HKDF (RFC 5869) over any hash given as a function on `ByteArray`
together with its block size in bytes.  Core-only.
-/
namespace BronVerif.Hash

def xorPad (key : ByteArray) (blockSize : Nat) (c : UInt8) : ByteArray :=
  Nat.fold blockSize (fun i _ o => o.push ((if i < key.size then key.get! i else 0) ^^^ c))
    (ByteArray.emptyWithCapacity blockSize)

/-- `HMAC_H(key, msg)`; keys longer than a block are hashed first -/
def hmac (H : ByteArray → ByteArray) (blockSize : Nat) (key msg : ByteArray) : ByteArray :=
  let k := if key.size > blockSize then H key else key
  H (xorPad k blockSize 0x5c ++ H (xorPad k blockSize 0x36 ++ msg))

/-- `HKDF-Extract(salt, ikm) = HMAC(salt, ikm)`; an empty salt is `hashLen` zero bytes
(equivalent under HMAC key padding) -/
def hkdfExtract (H : ByteArray → ByteArray) (blockSize : Nat) (salt ikm : ByteArray) : ByteArray :=
  hmac H blockSize salt ikm

/-- `HKDF-Expand(prk, info, L)`: `T(i) = HMAC(prk, T(i-1) ‖ info ‖ i)`, `i = 1..⌈L/hashLen⌉ ≤ 255` -/
def hkdfExpand (H : ByteArray → ByteArray) (blockSize : Nat) (prk info : ByteArray) (outLen : Nat) : ByteArray :=
  let hashLen := (H ByteArray.empty).size
  let n := if hashLen = 0 then 0 else (outLen + hashLen - 1) / hashLen
  let (_, out) := Nat.fold n (fun i _ (to : ByteArray × ByteArray) =>
      let t := hmac H blockSize prk ((to.1 ++ info).push (UInt8.ofNat (i + 1)))
      (t, to.2 ++ t)) (ByteArray.empty, ByteArray.empty)
  out.extract 0 outLen

end BronVerif.Hash
