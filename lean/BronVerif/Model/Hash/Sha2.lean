import BronVerif.Model.Hash.Hmac
/-!
Executable, core-only model of SHA-224/256 and SHA-384/512 (FIPS 180-4) and HMAC over them.
Validated byte-for-byte against Go's crypto/sha256, crypto/sha512, crypto/hmac by the C19 `hash` stream.
-/
namespace BronVerif.Hash

def k256 : Array UInt32 := #[
  0x428a2f98, 0x71374491, 0xb5c0fbcf, 0xe9b5dba5, 0x3956c25b, 0x59f111f1, 0x923f82a4, 0xab1c5ed5,
  0xd807aa98, 0x12835b01, 0x243185be, 0x550c7dc3, 0x72be5d74, 0x80deb1fe, 0x9bdc06a7, 0xc19bf174,
  0xe49b69c1, 0xefbe4786, 0x0fc19dc6, 0x240ca1cc, 0x2de92c6f, 0x4a7484aa, 0x5cb0a9dc, 0x76f988da,
  0x983e5152, 0xa831c66d, 0xb00327c8, 0xbf597fc7, 0xc6e00bf3, 0xd5a79147, 0x06ca6351, 0x14292967,
  0x27b70a85, 0x2e1b2138, 0x4d2c6dfc, 0x53380d13, 0x650a7354, 0x766a0abb, 0x81c2c92e, 0x92722c85,
  0xa2bfe8a1, 0xa81a664b, 0xc24b8b70, 0xc76c51a3, 0xd192e819, 0xd6990624, 0xf40e3585, 0x106aa070,
  0x19a4c116, 0x1e376c08, 0x2748774c, 0x34b0bcb5, 0x391c0cb3, 0x4ed8aa4a, 0x5b9cca4f, 0x682e6ff3,
  0x748f82ee, 0x78a5636f, 0x84c87814, 0x8cc70208, 0x90befffa, 0xa4506ceb, 0xbef9a3f7, 0xc67178f2]

def iv256 : List UInt32 := [0x6a09e667, 0xbb67ae85, 0x3c6ef372, 0xa54ff53a, 0x510e527f, 0x9b05688c, 0x1f83d9ab, 0x5be0cd19]
def iv224 : List UInt32 := [0xc1059ed8, 0x367cd507, 0x3070dd17, 0xf70e5939, 0xffc00b31, 0x68581511, 0x64f98fa7, 0xbefa4fa4]

def k512 : Array UInt64 := #[
  0x428a2f98d728ae22, 0x7137449123ef65cd, 0xb5c0fbcfec4d3b2f, 0xe9b5dba58189dbbc,
  0x3956c25bf348b538, 0x59f111f1b605d019, 0x923f82a4af194f9b, 0xab1c5ed5da6d8118,
  0xd807aa98a3030242, 0x12835b0145706fbe, 0x243185be4ee4b28c, 0x550c7dc3d5ffb4e2,
  0x72be5d74f27b896f, 0x80deb1fe3b1696b1, 0x9bdc06a725c71235, 0xc19bf174cf692694,
  0xe49b69c19ef14ad2, 0xefbe4786384f25e3, 0x0fc19dc68b8cd5b5, 0x240ca1cc77ac9c65,
  0x2de92c6f592b0275, 0x4a7484aa6ea6e483, 0x5cb0a9dcbd41fbd4, 0x76f988da831153b5,
  0x983e5152ee66dfab, 0xa831c66d2db43210, 0xb00327c898fb213f, 0xbf597fc7beef0ee4,
  0xc6e00bf33da88fc2, 0xd5a79147930aa725, 0x06ca6351e003826f, 0x142929670a0e6e70,
  0x27b70a8546d22ffc, 0x2e1b21385c26c926, 0x4d2c6dfc5ac42aed, 0x53380d139d95b3df,
  0x650a73548baf63de, 0x766a0abb3c77b2a8, 0x81c2c92e47edaee6, 0x92722c851482353b,
  0xa2bfe8a14cf10364, 0xa81a664bbc423001, 0xc24b8b70d0f89791, 0xc76c51a30654be30,
  0xd192e819d6ef5218, 0xd69906245565a910, 0xf40e35855771202a, 0x106aa07032bbd1b8,
  0x19a4c116b8d2d0c8, 0x1e376c085141ab53, 0x2748774cdf8eeb99, 0x34b0bcb5e19b48a8,
  0x391c0cb3c5c95a63, 0x4ed8aa4ae3418acb, 0x5b9cca4f7763e373, 0x682e6ff3d6b2b8a3,
  0x748f82ee5defb2fc, 0x78a5636f43172f60, 0x84c87814a1f0ab72, 0x8cc702081a6439ec,
  0x90befffa23631e28, 0xa4506cebde82bde9, 0xbef9a3f7b2c67915, 0xc67178f2e372532b,
  0xca273eceea26619c, 0xd186b8c721c0c207, 0xeada7dd6cde0eb1e, 0xf57d4f7fee6ed178,
  0x06f067aa72176fba, 0x0a637dc5a2c898a6, 0x113f9804bef90dae, 0x1b710b35131c471b,
  0x28db77f523047d84, 0x32caab7b40c72493, 0x3c9ebe0a15c9bebc, 0x431d67c49c100d4c,
  0x4cc5d4becb3e42b6, 0x597f299cfc657e2a, 0x5fcb6fab3ad6faec, 0x6c44198c4a475817]

def iv512 : List UInt64 := [
  0x6a09e667f3bcc908, 0xbb67ae8584caa73b, 0x3c6ef372fe94f82b, 0xa54ff53a5f1d36f1,
  0x510e527fade682d1, 0x9b05688c2b3e6c1f, 0x1f83d9abfb41bd6b, 0x5be0cd19137e2179]
def iv384 : List UInt64 := [
  0xcbbb9d5dc1059ed8, 0x629a292a367cd507, 0x9159015a3070dd17, 0x152fecd8f70e5939,
  0x67332667ffc00b31, 0x8eb44a8768581511, 0xdb0c2e0d64f98fa7, 0x47b5481dbefa4fa4]

/-- Merkle–Damgård padding tail: the bytes after the last full block of `msg`, then `0x80`, zeros and
the bit length as `lenBytes` big-endian bytes, to a multiple of `blockSize` -/
def mdTail (blockSize lenBytes : Nat) (msg : ByteArray) : ByteArray :=
  let nfull := msg.size / blockSize
  let rem := (msg.extract (nfull * blockSize) msg.size).push 0x80
  let total := if rem.size + lenBytes ≤ blockSize then blockSize else 2 * blockSize
  let rem := Nat.fold (total - lenBytes - rem.size) (fun _ _ o => o.push 0) rem
  let bits := 8 * msg.size
  Nat.fold lenBytes (fun i _ o => o.push (UInt8.ofNat ((bits >>> (8 * (lenBytes - 1 - i))) % 256))) rem

/-! ### SHA-256 -/

structure St32 where
  (a b c d e f g h : UInt32)

@[inline] def rotr32 (x : UInt32) (n : UInt32) : UInt32 := (x >>> n) ||| (x <<< (32 - n))

@[inline] def be32 (bs : ByteArray) (off : Nat) : UInt32 :=
  ((bs.get! off).toUInt32 <<< 24) ||| ((bs.get! (off + 1)).toUInt32 <<< 16)
  ||| ((bs.get! (off + 2)).toUInt32 <<< 8) ||| (bs.get! (off + 3)).toUInt32

def schedule256 (bs : ByteArray) (off : Nat) : Array UInt32 :=
  let w := Nat.fold 16 (fun i _ w => w.push (be32 bs (off + 4 * i))) (Array.mkEmpty 64)
  Nat.fold 48 (fun j _ (w : Array UInt32) =>
    let w15 := w[j + 1]!
    let w2 := w[j + 14]!
    let s0 := rotr32 w15 7 ^^^ rotr32 w15 18 ^^^ (w15 >>> 3)
    let s1 := rotr32 w2 17 ^^^ rotr32 w2 19 ^^^ (w2 >>> 10)
    w.push (w[j]! + s0 + w[j + 9]! + s1)) w

def compress256 (h : St32) (bs : ByteArray) (off : Nat) : St32 :=
  let w := schedule256 bs off
  let r := Nat.fold 64 (fun i _ (s : St32) =>
    let s1 := rotr32 s.e 6 ^^^ rotr32 s.e 11 ^^^ rotr32 s.e 25
    let ch := (s.e &&& s.f) ^^^ ((~~~ s.e) &&& s.g)
    let t1 := s.h + s1 + ch + k256[i]! + w[i]!
    let s0 := rotr32 s.a 2 ^^^ rotr32 s.a 13 ^^^ rotr32 s.a 22
    let maj := (s.a &&& s.b) ^^^ (s.a &&& s.c) ^^^ (s.b &&& s.c)
    let t2 := s0 + maj
    { a := t1 + t2, b := s.a, c := s.b, d := s.c, e := s.d + t1, f := s.e, g := s.f, h := s.g }) h
  { a := h.a + r.a, b := h.b + r.b, c := h.c + r.c, d := h.d + r.d,
    e := h.e + r.e, f := h.f + r.f, g := h.g + r.g, h := h.h + r.h }

@[inline] def push32 (o : ByteArray) (w : UInt32) : ByteArray :=
  (((o.push (w >>> 24).toUInt8).push (w >>> 16).toUInt8).push (w >>> 8).toUInt8).push w.toUInt8

def St32.ofList : List UInt32 → St32
  | [a, b, c, d, e, f, g, h] => ⟨a, b, c, d, e, f, g, h⟩
  | _ => ⟨0, 0, 0, 0, 0, 0, 0, 0⟩

def St32.bytes (s : St32) : ByteArray :=
  [s.a, s.b, s.c, s.d, s.e, s.f, s.g, s.h].foldl push32 (ByteArray.emptyWithCapacity 32)

def sha256Core (iv : List UInt32) (msg : ByteArray) : ByteArray :=
  let nfull := msg.size / 64
  let s := Nat.fold nfull (fun i _ s => compress256 s msg (64 * i)) (St32.ofList iv)
  let tail := mdTail 64 8 msg
  let s := Nat.fold (tail.size / 64) (fun i _ s => compress256 s tail (64 * i)) s
  s.bytes

def sha256 (msg : ByteArray) : ByteArray := sha256Core iv256 msg
def sha224 (msg : ByteArray) : ByteArray := (sha256Core iv224 msg).extract 0 28

/-! ### SHA-512 -/

structure St64 where
  (a b c d e f g h : UInt64)

@[inline] def rotr64 (x : UInt64) (n : UInt64) : UInt64 := (x >>> n) ||| (x <<< (64 - n))

@[inline] def be64 (bs : ByteArray) (off : Nat) : UInt64 :=
  ((bs.get! off).toUInt64 <<< 56) ||| ((bs.get! (off + 1)).toUInt64 <<< 48)
  ||| ((bs.get! (off + 2)).toUInt64 <<< 40) ||| ((bs.get! (off + 3)).toUInt64 <<< 32)
  ||| ((bs.get! (off + 4)).toUInt64 <<< 24) ||| ((bs.get! (off + 5)).toUInt64 <<< 16)
  ||| ((bs.get! (off + 6)).toUInt64 <<< 8) ||| (bs.get! (off + 7)).toUInt64

def schedule512 (bs : ByteArray) (off : Nat) : Array UInt64 :=
  let w := Nat.fold 16 (fun i _ w => w.push (be64 bs (off + 8 * i))) (Array.mkEmpty 80)
  Nat.fold 64 (fun j _ (w : Array UInt64) =>
    let w15 := w[j + 1]!
    let w2 := w[j + 14]!
    let s0 := rotr64 w15 1 ^^^ rotr64 w15 8 ^^^ (w15 >>> 7)
    let s1 := rotr64 w2 19 ^^^ rotr64 w2 61 ^^^ (w2 >>> 6)
    w.push (w[j]! + s0 + w[j + 9]! + s1)) w

def compress512 (h : St64) (bs : ByteArray) (off : Nat) : St64 :=
  let w := schedule512 bs off
  let r := Nat.fold 80 (fun i _ (s : St64) =>
    let s1 := rotr64 s.e 14 ^^^ rotr64 s.e 18 ^^^ rotr64 s.e 41
    let ch := (s.e &&& s.f) ^^^ ((~~~ s.e) &&& s.g)
    let t1 := s.h + s1 + ch + k512[i]! + w[i]!
    let s0 := rotr64 s.a 28 ^^^ rotr64 s.a 34 ^^^ rotr64 s.a 39
    let maj := (s.a &&& s.b) ^^^ (s.a &&& s.c) ^^^ (s.b &&& s.c)
    let t2 := s0 + maj
    { a := t1 + t2, b := s.a, c := s.b, d := s.c, e := s.d + t1, f := s.e, g := s.f, h := s.g }) h
  { a := h.a + r.a, b := h.b + r.b, c := h.c + r.c, d := h.d + r.d,
    e := h.e + r.e, f := h.f + r.f, g := h.g + r.g, h := h.h + r.h }

@[inline] def push64 (o : ByteArray) (w : UInt64) : ByteArray :=
  (((((((o.push (w >>> 56).toUInt8).push (w >>> 48).toUInt8).push (w >>> 40).toUInt8).push
    (w >>> 32).toUInt8).push (w >>> 24).toUInt8).push (w >>> 16).toUInt8).push (w >>> 8).toUInt8).push w.toUInt8

def St64.ofList : List UInt64 → St64
  | [a, b, c, d, e, f, g, h] => ⟨a, b, c, d, e, f, g, h⟩
  | _ => ⟨0, 0, 0, 0, 0, 0, 0, 0⟩

def St64.bytes (s : St64) : ByteArray :=
  [s.a, s.b, s.c, s.d, s.e, s.f, s.g, s.h].foldl push64 (ByteArray.emptyWithCapacity 64)

def sha512State (iv : St64) (msg : ByteArray) : St64 :=
  let nfull := msg.size / 128
  let s := Nat.fold nfull (fun i _ s => compress512 s msg (128 * i)) iv
  let tail := mdTail 128 16 msg
  Nat.fold (tail.size / 128) (fun i _ s => compress512 s tail (128 * i)) s

def sha512 (msg : ByteArray) : ByteArray := (sha512State (St64.ofList iv512) msg).bytes
def sha384 (msg : ByteArray) : ByteArray := ((sha512State (St64.ofList iv384) msg).bytes).extract 0 48

/-- SHA-512/t IV generation (FIPS 180-4 §5.3.6): SHA-512 with `H⁽⁰⁾ ⊕ a5…a5` applied to `"SHA-512/t"` -/
def sha512tIV (name : String) : St64 :=
  let m : UInt64 := 0xa5a5a5a5a5a5a5a5
  let iv := St64.ofList (iv512.map (· ^^^ m))
  sha512State iv name.toUTF8

def sha512_256 (msg : ByteArray) : ByteArray := ((sha512State (sha512tIV "SHA-512/256") msg).bytes).extract 0 32
def sha512_224 (msg : ByteArray) : ByteArray := ((sha512State (sha512tIV "SHA-512/224") msg).bytes).extract 0 28

/-! ### HMAC / HKDF instances -/

def hmacSha256 (key msg : ByteArray) : ByteArray := hmac sha256 64 key msg
def hmacSha512 (key msg : ByteArray) : ByteArray := hmac sha512 128 key msg
def hkdfExtractSha256 (salt ikm : ByteArray) : ByteArray := hkdfExtract sha256 64 salt ikm
def hkdfExpandSha256 (prk info : ByteArray) (outLen : Nat) : ByteArray := hkdfExpand sha256 64 prk info outLen

end BronVerif.Hash
