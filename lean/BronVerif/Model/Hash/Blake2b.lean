/-!
Executable, core-only model of BLAKE2b (RFC 7693; keyed, any digest length ≤ 64) and the BLAKE2Xb
extendable-output function as implemented by golang.org/x/crypto/blake2b (`NewXOF`).
Validated byte-for-byte against x/crypto by the C19 `hash` stream.
-/
namespace BronVerif.Hash

structure V16 where
  (v0 v1 v2 v3 v4 v5 v6 v7 v8 v9 v10 v11 v12 v13 v14 v15 : UInt64)

structure H8 where
  (h0 h1 h2 h3 h4 h5 h6 h7 : UInt64)

@[inline] def rotr64' (x : UInt64) (n : UInt64) : UInt64 := (x >>> n) ||| (x <<< (64 - n))

/-- the BLAKE2b IV (= SHA-512 IV) -/
def blake2bIV : H8 :=
  ⟨0x6a09e667f3bcc908, 0xbb67ae8584caa73b, 0x3c6ef372fe94f82b, 0xa54ff53a5f1d36f1,
   0x510e527fade682d1, 0x9b05688c2b3e6c1f, 0x1f83d9abfb41bd6b, 0x5be0cd19137e2179⟩

/-- the message-word schedule in the order the round consumes it (x/crypto `precomputed`:
σ-row entries 0,2,4,6 / 1,3,5,7 / 8,10,12,14 / 9,11,13,15) -/
def blake2bSchedule : List ByteArray := [
  ⟨#[0, 2, 4, 6, 1, 3, 5, 7, 8, 10, 12, 14, 9, 11, 13, 15]⟩,
  ⟨#[14, 4, 9, 13, 10, 8, 15, 6, 1, 0, 11, 5, 12, 2, 7, 3]⟩,
  ⟨#[11, 12, 5, 15, 8, 0, 2, 13, 10, 3, 7, 9, 14, 6, 1, 4]⟩,
  ⟨#[7, 3, 13, 11, 9, 1, 12, 14, 2, 5, 4, 15, 6, 10, 0, 8]⟩,
  ⟨#[9, 5, 2, 10, 0, 7, 4, 15, 14, 11, 6, 3, 1, 12, 8, 13]⟩,
  ⟨#[2, 6, 0, 8, 12, 10, 11, 3, 4, 7, 15, 1, 13, 5, 14, 9]⟩,
  ⟨#[12, 1, 14, 4, 5, 15, 13, 10, 0, 6, 9, 8, 7, 3, 2, 11]⟩,
  ⟨#[13, 7, 12, 3, 11, 14, 1, 9, 5, 15, 8, 2, 0, 4, 6, 10]⟩,
  ⟨#[6, 14, 11, 0, 15, 9, 3, 8, 12, 13, 1, 10, 2, 7, 4, 5]⟩,
  ⟨#[10, 8, 7, 1, 2, 4, 6, 5, 15, 9, 3, 13, 11, 14, 12, 0]⟩,
  ⟨#[0, 2, 4, 6, 1, 3, 5, 7, 8, 10, 12, 14, 9, 11, 13, 15]⟩,
  ⟨#[14, 4, 9, 13, 10, 8, 15, 6, 1, 0, 11, 5, 12, 2, 7, 3]⟩]

/-- one BLAKE2b round: column step then diagonal step, each a pair of half-`G`s -/
@[inline] def blake2bRound (m : Array UInt64) (v : V16) (s : ByteArray) : V16 :=
  let v0 := v.v0
  let v1 := v.v1
  let v2 := v.v2
  let v3 := v.v3
  let v4 := v.v4
  let v5 := v.v5
  let v6 := v.v6
  let v7 := v.v7
  let v8 := v.v8
  let v9 := v.v9
  let v10 := v.v10
  let v11 := v.v11
  let v12 := v.v12
  let v13 := v.v13
  let v14 := v.v14
  let v15 := v.v15
  let v0 := v0 + m[(s.get! 0).toNat]! + v4
  let v12 := rotr64' (v12 ^^^ v0) 32
  let v8 := v8 + v12
  let v4 := rotr64' (v4 ^^^ v8) 24
  let v1 := v1 + m[(s.get! 1).toNat]! + v5
  let v13 := rotr64' (v13 ^^^ v1) 32
  let v9 := v9 + v13
  let v5 := rotr64' (v5 ^^^ v9) 24
  let v2 := v2 + m[(s.get! 2).toNat]! + v6
  let v14 := rotr64' (v14 ^^^ v2) 32
  let v10 := v10 + v14
  let v6 := rotr64' (v6 ^^^ v10) 24
  let v3 := v3 + m[(s.get! 3).toNat]! + v7
  let v15 := rotr64' (v15 ^^^ v3) 32
  let v11 := v11 + v15
  let v7 := rotr64' (v7 ^^^ v11) 24
  let v0 := v0 + m[(s.get! 4).toNat]! + v4
  let v12 := rotr64' (v12 ^^^ v0) 16
  let v8 := v8 + v12
  let v4 := rotr64' (v4 ^^^ v8) 63
  let v1 := v1 + m[(s.get! 5).toNat]! + v5
  let v13 := rotr64' (v13 ^^^ v1) 16
  let v9 := v9 + v13
  let v5 := rotr64' (v5 ^^^ v9) 63
  let v2 := v2 + m[(s.get! 6).toNat]! + v6
  let v14 := rotr64' (v14 ^^^ v2) 16
  let v10 := v10 + v14
  let v6 := rotr64' (v6 ^^^ v10) 63
  let v3 := v3 + m[(s.get! 7).toNat]! + v7
  let v15 := rotr64' (v15 ^^^ v3) 16
  let v11 := v11 + v15
  let v7 := rotr64' (v7 ^^^ v11) 63
  let v0 := v0 + m[(s.get! 8).toNat]! + v5
  let v15 := rotr64' (v15 ^^^ v0) 32
  let v10 := v10 + v15
  let v5 := rotr64' (v5 ^^^ v10) 24
  let v1 := v1 + m[(s.get! 9).toNat]! + v6
  let v12 := rotr64' (v12 ^^^ v1) 32
  let v11 := v11 + v12
  let v6 := rotr64' (v6 ^^^ v11) 24
  let v2 := v2 + m[(s.get! 10).toNat]! + v7
  let v13 := rotr64' (v13 ^^^ v2) 32
  let v8 := v8 + v13
  let v7 := rotr64' (v7 ^^^ v8) 24
  let v3 := v3 + m[(s.get! 11).toNat]! + v4
  let v14 := rotr64' (v14 ^^^ v3) 32
  let v9 := v9 + v14
  let v4 := rotr64' (v4 ^^^ v9) 24
  let v0 := v0 + m[(s.get! 12).toNat]! + v5
  let v15 := rotr64' (v15 ^^^ v0) 16
  let v10 := v10 + v15
  let v5 := rotr64' (v5 ^^^ v10) 63
  let v1 := v1 + m[(s.get! 13).toNat]! + v6
  let v12 := rotr64' (v12 ^^^ v1) 16
  let v11 := v11 + v12
  let v6 := rotr64' (v6 ^^^ v11) 63
  let v2 := v2 + m[(s.get! 14).toNat]! + v7
  let v13 := rotr64' (v13 ^^^ v2) 16
  let v8 := v8 + v13
  let v7 := rotr64' (v7 ^^^ v8) 63
  let v3 := v3 + m[(s.get! 15).toNat]! + v4
  let v14 := rotr64' (v14 ^^^ v3) 16
  let v9 := v9 + v14
  let v4 := rotr64' (v4 ^^^ v9) 63
  { v0 := v0, v1 := v1, v2 := v2, v3 := v3, v4 := v4, v5 := v5, v6 := v6, v7 := v7, v8 := v8, v9 := v9, v10 := v10, v11 := v11, v12 := v12, v13 := v13, v14 := v14, v15 := v15 }

@[inline] def le64 (bs : ByteArray) (off : Nat) : UInt64 :=
  (bs.get! off).toUInt64 ||| ((bs.get! (off + 1)).toUInt64 <<< 8)
  ||| ((bs.get! (off + 2)).toUInt64 <<< 16) ||| ((bs.get! (off + 3)).toUInt64 <<< 24)
  ||| ((bs.get! (off + 4)).toUInt64 <<< 32) ||| ((bs.get! (off + 5)).toUInt64 <<< 40)
  ||| ((bs.get! (off + 6)).toUInt64 <<< 48) ||| ((bs.get! (off + 7)).toUInt64 <<< 56)

/-- compression function `F(h, m, t, f)`: block at `bs[off..off+128)` (bytes past the end read as 0),
byte counter `t = (t0, t1)`, finalisation flag word `f0` -/
def blake2bCompress (h : H8) (bs : ByteArray) (off : Nat) (t0 t1 f0 : UInt64) : H8 :=
  let m := Nat.fold 16 (fun i _ (m : Array UInt64) => m.push (le64 bs (off + 8 * i))) (Array.mkEmpty 16)
  let iv := blake2bIV
  let v : V16 := ⟨h.h0, h.h1, h.h2, h.h3, h.h4, h.h5, h.h6, h.h7,
    iv.h0, iv.h1, iv.h2, iv.h3, iv.h4 ^^^ t0, iv.h5 ^^^ t1, iv.h6 ^^^ f0, iv.h7⟩
  let v := blake2bSchedule.foldl (blake2bRound m) v
  ⟨h.h0 ^^^ v.v0 ^^^ v.v8, h.h1 ^^^ v.v1 ^^^ v.v9, h.h2 ^^^ v.v2 ^^^ v.v10, h.h3 ^^^ v.v3 ^^^ v.v11,
   h.h4 ^^^ v.v4 ^^^ v.v12, h.h5 ^^^ v.v5 ^^^ v.v13, h.h6 ^^^ v.v6 ^^^ v.v14, h.h7 ^^^ v.v7 ^^^ v.v15⟩

@[inline] def pushLE64 (o : ByteArray) (w : UInt64) : ByteArray :=
  ((((((((o.push w.toUInt8).push (w >>> 8).toUInt8).push (w >>> 16).toUInt8).push (w >>> 24).toUInt8).push
    (w >>> 32).toUInt8).push (w >>> 40).toUInt8).push (w >>> 48).toUInt8).push (w >>> 56).toUInt8)

def H8.bytes (h : H8) : ByteArray :=
  [h.h0, h.h1, h.h2, h.h3, h.h4, h.h5, h.h6, h.h7].foldl pushLE64 (ByteArray.emptyWithCapacity 64)

/-- hash `data` (already including a padded key block, if any) from the initial chaining value `h`:
all blocks but the last with `f0 = 0`, the last (zero-padded; a single zero block for empty data) with
`t = |data|` and `f0 = ~0`.  Returns the full 64-byte state. -/
def blake2bRun (h : H8) (data : ByteArray) : ByteArray :=
  let n := data.size
  let nblocks := if n = 0 then 1 else (n + 127) / 128
  let h := Nat.fold (nblocks - 1) (fun i _ h =>
    let t := 128 * (i + 1)
    blake2bCompress h data (128 * i) (UInt64.ofNat t) (UInt64.ofNat (t >>> 64)) 0) h
  let h := blake2bCompress h data (128 * (nblocks - 1)) (UInt64.ofNat n) (UInt64.ofNat (n >>> 64))
    0xffffffffffffffff
  h.bytes

/-- XOR the 64-byte parameter block `p` into the IV -/
def blake2bInit (p : ByteArray) : H8 :=
  let iv := blake2bIV
  ⟨iv.h0 ^^^ le64 p 0, iv.h1 ^^^ le64 p 8, iv.h2 ^^^ le64 p 16, iv.h3 ^^^ le64 p 24,
   iv.h4 ^^^ le64 p 32, iv.h5 ^^^ le64 p 40, iv.h6 ^^^ le64 p 48, iv.h7 ^^^ le64 p 56⟩

def keyBlock (key : ByteArray) : ByteArray :=
  if key.size = 0 then ByteArray.empty
  else Nat.fold (128 - key.size) (fun _ _ o => o.push 0) key

/-- BLAKE2b with optional key (`|key| ≤ 64`) and digest length `1 ≤ outLen ≤ 64`
(sequential mode: fanout = depth = 1, no salt/personalisation) -/
def blake2b (key msg : ByteArray) (outLen : Nat) : ByteArray :=
  let p := ((((ByteArray.emptyWithCapacity 64).push (UInt8.ofNat outLen)).push (UInt8.ofNat key.size)).push 1).push 1
  (blake2bRun (blake2bInit p) (keyBlock key ++ msg)).extract 0 outLen

def blake2b256 (msg : ByteArray) : ByteArray := blake2b ByteArray.empty msg 32
def blake2b512 (msg : ByteArray) : ByteArray := blake2b ByteArray.empty msg 64

def le32Bytes (x : Nat) : ByteArray :=
  ⟨#[UInt8.ofNat x, UInt8.ofNat (x >>> 8), UInt8.ofNat (x >>> 16), UInt8.ofNat (x >>> 24)]⟩

/-- BLAKE2Xb as in x/crypto `blake2b.NewXOF(xofLen, key)` followed by reading `outLen` bytes:
`xofLen = 0` means "length unknown" (encoded as `2³²−1`; then any `outLen` may be read), otherwise at
most `xofLen` bytes are produced.  Root hash `H0 = BLAKE2b-512(key, msg)` with the XOF length in the
parameter block; output block `i` is `BLAKE2b(H0)` with node offset `i`, leaf length 64, inner length 64,
fanout = depth = 0, digest length `min(64, remaining)`. -/
def blake2xb (key msg : ByteArray) (xofLen outLen : Nat) : ByteArray :=
  let len := if xofLen = 0 then 0xffffffff else xofLen
  let total := if xofLen = 0 then outLen else min outLen xofLen
  let p0 := ((((ByteArray.emptyWithCapacity 64).push 64).push (UInt8.ofNat key.size)).push 1).push 1
  let p0 := p0 ++ le32Bytes 0 ++ le32Bytes 0 ++ le32Bytes len
  let root := blake2bRun (blake2bInit p0) (keyBlock key ++ msg)
  let nblocks := (total + 63) / 64
  let out := Nat.fold nblocks (fun i _ (out : ByteArray) =>
    let remaining := if xofLen = 0 then 64 else min 64 (xofLen - 64 * i)
    let p := ((((ByteArray.emptyWithCapacity 64).push (UInt8.ofNat remaining)).push 0).push 0).push 0
    let p := p ++ le32Bytes 64 ++ le32Bytes i ++ le32Bytes len ++ (ByteArray.empty.push 0).push 64
    out ++ (blake2bRun (blake2bInit p) root).extract 0 remaining) ByteArray.empty
  out.extract 0 total

end BronVerif.Hash
