/-!
Executable, core-only model of Keccak-f[1600] and the FIPS 202 / SP 800-185 functions built on it
(SHA3-256/512, SHAKE128/256, cSHAKE128/256, KMAC128/256).  All functions are total, written with
structural recursion / folds over `UInt64` lanes held in a structure (unboxed in compiled code).
Validated byte-for-byte against Go's crypto/sha3 by the C19 `hash` stream.
-/
namespace BronVerif.Hash

/-- the 25 lanes `A[x + 5y]` of the Keccak state -/
structure KState where
  (a0 a1 a2 a3 a4 a5 a6 a7 a8 a9 a10 a11 a12 a13 a14 a15 a16 a17 a18 a19 a20 a21 a22 a23 a24 : UInt64)

def KState.zero : KState :=
  { a0 := 0, a1 := 0, a2 := 0, a3 := 0, a4 := 0, a5 := 0, a6 := 0, a7 := 0, a8 := 0, a9 := 0, a10 := 0, a11 := 0, a12 := 0, a13 := 0, a14 := 0, a15 := 0, a16 := 0, a17 := 0, a18 := 0, a19 := 0, a20 := 0, a21 := 0, a22 := 0, a23 := 0, a24 := 0 }

@[inline] def rotl64 (x : UInt64) (n : UInt64) : UInt64 := (x <<< n) ||| (x >>> (64 - n))

/-- one round of Keccak-f[1600] with round constant `rc` -/
@[inline] def keccakRound (s : KState) (rc : UInt64) : KState :=
  let c0 := s.a0 ^^^ s.a5 ^^^ s.a10 ^^^ s.a15 ^^^ s.a20
  let c1 := s.a1 ^^^ s.a6 ^^^ s.a11 ^^^ s.a16 ^^^ s.a21
  let c2 := s.a2 ^^^ s.a7 ^^^ s.a12 ^^^ s.a17 ^^^ s.a22
  let c3 := s.a3 ^^^ s.a8 ^^^ s.a13 ^^^ s.a18 ^^^ s.a23
  let c4 := s.a4 ^^^ s.a9 ^^^ s.a14 ^^^ s.a19 ^^^ s.a24
  let d0 := c4 ^^^ rotl64 c1 1
  let d1 := c0 ^^^ rotl64 c2 1
  let d2 := c1 ^^^ rotl64 c3 1
  let d3 := c2 ^^^ rotl64 c4 1
  let d4 := c3 ^^^ rotl64 c0 1
  let b0 := (s.a0 ^^^ d0)
  let b16 := rotl64 (s.a5 ^^^ d0) 36
  let b7 := rotl64 (s.a10 ^^^ d0) 3
  let b23 := rotl64 (s.a15 ^^^ d0) 41
  let b14 := rotl64 (s.a20 ^^^ d0) 18
  let b10 := rotl64 (s.a1 ^^^ d1) 1
  let b1 := rotl64 (s.a6 ^^^ d1) 44
  let b17 := rotl64 (s.a11 ^^^ d1) 10
  let b8 := rotl64 (s.a16 ^^^ d1) 45
  let b24 := rotl64 (s.a21 ^^^ d1) 2
  let b20 := rotl64 (s.a2 ^^^ d2) 62
  let b11 := rotl64 (s.a7 ^^^ d2) 6
  let b2 := rotl64 (s.a12 ^^^ d2) 43
  let b18 := rotl64 (s.a17 ^^^ d2) 15
  let b9 := rotl64 (s.a22 ^^^ d2) 61
  let b5 := rotl64 (s.a3 ^^^ d3) 28
  let b21 := rotl64 (s.a8 ^^^ d3) 55
  let b12 := rotl64 (s.a13 ^^^ d3) 25
  let b3 := rotl64 (s.a18 ^^^ d3) 21
  let b19 := rotl64 (s.a23 ^^^ d3) 56
  let b15 := rotl64 (s.a4 ^^^ d4) 27
  let b6 := rotl64 (s.a9 ^^^ d4) 20
  let b22 := rotl64 (s.a14 ^^^ d4) 39
  let b13 := rotl64 (s.a19 ^^^ d4) 8
  let b4 := rotl64 (s.a24 ^^^ d4) 14
  { a0 := b0 ^^^ ((~~~ b1) &&& b2) ^^^ rc,
    a1 := b1 ^^^ ((~~~ b2) &&& b3),
    a2 := b2 ^^^ ((~~~ b3) &&& b4),
    a3 := b3 ^^^ ((~~~ b4) &&& b0),
    a4 := b4 ^^^ ((~~~ b0) &&& b1),
    a5 := b5 ^^^ ((~~~ b6) &&& b7),
    a6 := b6 ^^^ ((~~~ b7) &&& b8),
    a7 := b7 ^^^ ((~~~ b8) &&& b9),
    a8 := b8 ^^^ ((~~~ b9) &&& b5),
    a9 := b9 ^^^ ((~~~ b5) &&& b6),
    a10 := b10 ^^^ ((~~~ b11) &&& b12),
    a11 := b11 ^^^ ((~~~ b12) &&& b13),
    a12 := b12 ^^^ ((~~~ b13) &&& b14),
    a13 := b13 ^^^ ((~~~ b14) &&& b10),
    a14 := b14 ^^^ ((~~~ b10) &&& b11),
    a15 := b15 ^^^ ((~~~ b16) &&& b17),
    a16 := b16 ^^^ ((~~~ b17) &&& b18),
    a17 := b17 ^^^ ((~~~ b18) &&& b19),
    a18 := b18 ^^^ ((~~~ b19) &&& b15),
    a19 := b19 ^^^ ((~~~ b15) &&& b16),
    a20 := b20 ^^^ ((~~~ b21) &&& b22),
    a21 := b21 ^^^ ((~~~ b22) &&& b23),
    a22 := b22 ^^^ ((~~~ b23) &&& b24),
    a23 := b23 ^^^ ((~~~ b24) &&& b20),
    a24 := b24 ^^^ ((~~~ b20) &&& b21) }

def keccakRC : List UInt64 := [
  0x0000000000000001,
  0x0000000000008082,
  0x800000000000808a,
  0x8000000080008000,
  0x000000000000808b,
  0x0000000080000001,
  0x8000000080008081,
  0x8000000000008009,
  0x000000000000008a,
  0x0000000000000088,
  0x0000000080008009,
  0x000000008000000a,
  0x000000008000808b,
  0x800000000000008b,
  0x8000000000008089,
  0x8000000000008003,
  0x8000000000008002,
  0x8000000000000080,
  0x000000000000800a,
  0x800000008000000a,
  0x8000000080008081,
  0x8000000000008080,
  0x0000000080000001,
  0x8000000080008008]


/-- Keccak-f[1600]: 24 rounds -/
def keccakF (s : KState) : KState := keccakRC.foldl keccakRound s

/-- little-endian 64-bit lane at byte offset `off` (bytes past the end read as 0) -/
@[inline] def lane (bs : ByteArray) (off : Nat) : UInt64 :=
  (bs.get! off).toUInt64 ||| ((bs.get! (off + 1)).toUInt64 <<< 8)
  ||| ((bs.get! (off + 2)).toUInt64 <<< 16) ||| ((bs.get! (off + 3)).toUInt64 <<< 24)
  ||| ((bs.get! (off + 4)).toUInt64 <<< 32) ||| ((bs.get! (off + 5)).toUInt64 <<< 40)
  ||| ((bs.get! (off + 6)).toUInt64 <<< 48) ||| ((bs.get! (off + 7)).toUInt64 <<< 56)

/-- XOR the first `lanes` 64-bit little-endian lanes of `bs` (from byte offset `off`) into the state -/
def xorBlock (s : KState) (bs : ByteArray) (off lanes : Nat) : KState :=
  { a0 := if 0 < lanes then s.a0 ^^^ lane bs (off + 0) else s.a0,
    a1 := if 1 < lanes then s.a1 ^^^ lane bs (off + 8) else s.a1,
    a2 := if 2 < lanes then s.a2 ^^^ lane bs (off + 16) else s.a2,
    a3 := if 3 < lanes then s.a3 ^^^ lane bs (off + 24) else s.a3,
    a4 := if 4 < lanes then s.a4 ^^^ lane bs (off + 32) else s.a4,
    a5 := if 5 < lanes then s.a5 ^^^ lane bs (off + 40) else s.a5,
    a6 := if 6 < lanes then s.a6 ^^^ lane bs (off + 48) else s.a6,
    a7 := if 7 < lanes then s.a7 ^^^ lane bs (off + 56) else s.a7,
    a8 := if 8 < lanes then s.a8 ^^^ lane bs (off + 64) else s.a8,
    a9 := if 9 < lanes then s.a9 ^^^ lane bs (off + 72) else s.a9,
    a10 := if 10 < lanes then s.a10 ^^^ lane bs (off + 80) else s.a10,
    a11 := if 11 < lanes then s.a11 ^^^ lane bs (off + 88) else s.a11,
    a12 := if 12 < lanes then s.a12 ^^^ lane bs (off + 96) else s.a12,
    a13 := if 13 < lanes then s.a13 ^^^ lane bs (off + 104) else s.a13,
    a14 := if 14 < lanes then s.a14 ^^^ lane bs (off + 112) else s.a14,
    a15 := if 15 < lanes then s.a15 ^^^ lane bs (off + 120) else s.a15,
    a16 := if 16 < lanes then s.a16 ^^^ lane bs (off + 128) else s.a16,
    a17 := if 17 < lanes then s.a17 ^^^ lane bs (off + 136) else s.a17,
    a18 := if 18 < lanes then s.a18 ^^^ lane bs (off + 144) else s.a18,
    a19 := if 19 < lanes then s.a19 ^^^ lane bs (off + 152) else s.a19,
    a20 := if 20 < lanes then s.a20 ^^^ lane bs (off + 160) else s.a20,
    a21 := if 21 < lanes then s.a21 ^^^ lane bs (off + 168) else s.a21,
    a22 := if 22 < lanes then s.a22 ^^^ lane bs (off + 176) else s.a22,
    a23 := if 23 < lanes then s.a23 ^^^ lane bs (off + 184) else s.a23,
    a24 := if 24 < lanes then s.a24 ^^^ lane bs (off + 192) else s.a24 }

@[inline] def pushLane (o : ByteArray) (w : UInt64) : ByteArray :=
  ((((((((o.push w.toUInt8).push (w >>> 8).toUInt8).push (w >>> 16).toUInt8).push (w >>> 24).toUInt8).push
    (w >>> 32).toUInt8).push (w >>> 40).toUInt8).push (w >>> 48).toUInt8).push (w >>> 56).toUInt8)

/-- the 200 state bytes (lanes little-endian) -/
def stateBytes (s : KState) : ByteArray :=
  let o := ByteArray.emptyWithCapacity 200
  let o := pushLane o s.a0
  let o := pushLane o s.a1
  let o := pushLane o s.a2
  let o := pushLane o s.a3
  let o := pushLane o s.a4
  let o := pushLane o s.a5
  let o := pushLane o s.a6
  let o := pushLane o s.a7
  let o := pushLane o s.a8
  let o := pushLane o s.a9
  let o := pushLane o s.a10
  let o := pushLane o s.a11
  let o := pushLane o s.a12
  let o := pushLane o s.a13
  let o := pushLane o s.a14
  let o := pushLane o s.a15
  let o := pushLane o s.a16
  let o := pushLane o s.a17
  let o := pushLane o s.a18
  let o := pushLane o s.a19
  let o := pushLane o s.a20
  let o := pushLane o s.a21
  let o := pushLane o s.a22
  let o := pushLane o s.a23
  let o := pushLane o s.a24
  o

/-- `n` zero bytes -/
def zeros (n : Nat) : ByteArray := Nat.fold n (fun _ _ o => o.push 0) (ByteArray.emptyWithCapacity n)

/-- The sponge `Keccak[c](msg ‖ suffix-bits, outLen)` with rate `rate` bytes (`rate` a multiple of 8,
`8 ≤ rate ≤ 200`) and domain-separation/padding byte `ds`
(`0x06` SHA-3, `0x1f` SHAKE, `0x04` cSHAKE, `0x01` legacy Keccak). -/
def keccakSponge (rate : Nat) (ds : UInt8) (msg : ByteArray) (outLen : Nat) : ByteArray :=
  let lanes := rate / 8
  let nfull := msg.size / rate
  let s := Nat.fold nfull (fun i _ s => keccakF (xorBlock s msg (i * rate) lanes)) KState.zero
  let rem := msg.extract (nfull * rate) msg.size
  let last := (rem.push ds) ++ zeros (rate - 1 - rem.size)
  let last := last.set! (rate - 1) (last.get! (rate - 1) ||| 0x80)
  let s := keccakF (xorBlock s last 0 lanes)
  let nblocks := (outLen + rate - 1) / rate
  let out := (stateBytes s).extract 0 rate
  let (_, out) := Nat.fold (nblocks - 1) (fun _ _ (so : KState × ByteArray) =>
      let s' := keccakF so.1
      (s', so.2 ++ (stateBytes s').extract 0 rate)) (s, out)
  out.extract 0 outLen

def sha3_224 (msg : ByteArray) : ByteArray := keccakSponge 144 0x06 msg 28
def sha3_256 (msg : ByteArray) : ByteArray := keccakSponge 136 0x06 msg 32
def sha3_384 (msg : ByteArray) : ByteArray := keccakSponge 104 0x06 msg 48
def sha3_512 (msg : ByteArray) : ByteArray := keccakSponge 72 0x06 msg 64
def shake128 (msg : ByteArray) (outLen : Nat) : ByteArray := keccakSponge 168 0x1f msg outLen
def shake256 (msg : ByteArray) (outLen : Nat) : ByteArray := keccakSponge 136 0x1f msg outLen
/-- legacy (pre-FIPS) Keccak-256 as used by Ethereum -/
def keccak256 (msg : ByteArray) : ByteArray := keccakSponge 136 0x01 msg 32

/-! ### SP 800-185 encodings -/

/-- big-endian bytes of `x` without leading zeros, at least one byte; `fuel` bounds the length -/
def natBytesBE (x : Nat) : ByteArray :=
  let rec go (fuel : Nat) (x : Nat) (acc : List UInt8) : List UInt8 :=
    match fuel with
    | 0 => acc
    | fuel + 1 => if x < 256 then UInt8.ofNat x :: acc else go fuel (x / 256) (UInt8.ofNat (x % 256) :: acc)
  ByteArray.mk (go (x.log2 / 8 + 2) x []).toArray

/-- `left_encode(x)`: number of bytes, then `x` big-endian -/
def leftEncode (x : Nat) : ByteArray :=
  let b := natBytesBE x
  (ByteArray.empty.push (UInt8.ofNat b.size)) ++ b

/-- `right_encode(x)`: `x` big-endian, then number of bytes -/
def rightEncode (x : Nat) : ByteArray :=
  let b := natBytesBE x
  b.push (UInt8.ofNat b.size)

/-- `encode_string(S) = left_encode(8·|S|) ‖ S` -/
def encodeString (s : ByteArray) : ByteArray := leftEncode (8 * s.size) ++ s

/-- `bytepad(X, w) = left_encode(w) ‖ X ‖ 0…` to a multiple of `w` bytes -/
def bytepad (x : ByteArray) (w : Nat) : ByteArray :=
  let b := leftEncode w ++ x
  b ++ zeros ((w - b.size % w) % w)

/-- cSHAKE with rate `rate`: SHAKE when `N` and `S` are both empty (SP 800-185 §3.3) -/
def cshake (rate : Nat) (N S msg : ByteArray) (outLen : Nat) : ByteArray :=
  if N.size == 0 && S.size == 0 then keccakSponge rate 0x1f msg outLen
  else keccakSponge rate 0x04 (bytepad (encodeString N ++ encodeString S) rate ++ msg) outLen

def cshake128 (N S msg : ByteArray) (outLen : Nat) : ByteArray := cshake 168 N S msg outLen
def cshake256 (N S msg : ByteArray) (outLen : Nat) : ByteArray := cshake 136 N S msg outLen

/-- KMAC (SP 800-185 §4): `cSHAKE(bytepad(encode_string(K), rate) ‖ X ‖ right_encode(8·L), L, "KMAC", S)` -/
def kmac (rate : Nat) (key S msg : ByteArray) (outLen : Nat) : ByteArray :=
  cshake rate "KMAC".toUTF8 S (bytepad (encodeString key) rate ++ msg ++ rightEncode (8 * outLen)) outLen

def kmac128 (key S msg : ByteArray) (outLen : Nat) : ByteArray := kmac 168 key S msg outLen
def kmac256 (key S msg : ByteArray) (outLen : Nat) : ByteArray := kmac 136 key S msg outLen

/-- TupleHash (SP 800-185 §5): `cSHAKE(encode_string(X₁) ‖ … ‖ right_encode(8·L), L, "TupleHash", S)` -/
def tupleHash (rate : Nat) (S : ByteArray) (xs : List ByteArray) (outLen : Nat) : ByteArray :=
  cshake rate "TupleHash".toUTF8 S
    (xs.foldl (fun acc x => acc ++ encodeString x) ByteArray.empty ++ rightEncode (8 * outLen)) outLen

end BronVerif.Hash
