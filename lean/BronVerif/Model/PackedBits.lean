/-!
# `pkg/ot/bits.go` at the byte level (core-only)

`PackedBits` is a byte vector; bit `i` is bit `i % 8` of byte `i / 8`.  Bytes are `Nat`s `< 256`.
This file follows the Go code statement by statement where it mutates bytes:

* `get` / `set` / `clear` / `swap` — `PackedBits.Get/Set/Clear/Swap`;
* `orBit` — the statement `v[k/8] |= bit << (k%8)` that `Pack`, `Repeat` and the slow transposition use;
* `repeatBits` — `PackedBits.Repeat`: the two nested loops with the running `nextBit` counter;
* `transposeSlow` — `transposePackedBitsSlow` (output row `j` is filled by OR-ing input bit `(i,j)` into
  bit `i`; the Go loop nest visits the same `(i,j)` pairs in another order);
* `transpose64` / `transposeFast` — the 64×64 butterfly of `transpose64` and the block loop of
  `transposePackedBitsFast` (little-endian 8-byte words);
* `transposePacked` — the dispatch and the shape checks of `TransposePackedBits` (`none` = error).

Theorems: `Props/C09Bits.lean`.  (`Model/OT.lean` keeps the unpacked `List Bool` view used by the
SoftSpoken handlers; the driver compares the Go result with both.)
-/
namespace BronVerif.PackedBits

/-- `l[k] := f l[k]` (nothing happens beyond the end; Go would panic there) -/
def modifyAt (f : Nat → Nat) : List Nat → Nat → List Nat
  | [], _ => []
  | x :: xs, 0 => f x :: xs
  | x :: xs, k + 1 => x :: modifyAt f xs k

/-- `PackedBits.Get` -/
def get (pb : List Nat) (i : Nat) : Bool := (pb.getD (i / 8) 0).testBit (i % 8)

/-- `pb[i/8] |= bit << (i%8)` -/
def orBit (pb : List Nat) (i : Nat) (bit : Bool) : List Nat :=
  modifyAt (fun b => b ||| (bit.toNat <<< (i % 8))) pb (i / 8)

/-- `PackedBits.Set` -/
def set (pb : List Nat) (i : Nat) : List Nat := orBit pb i true

/-- `PackedBits.Clear`: `pb[i/8] &^= 1 << (i%8)` on a byte -/
def clear (pb : List Nat) (i : Nat) : List Nat :=
  modifyAt (fun b => b &&& (255 ^^^ (1 <<< (i % 8)))) pb (i / 8)

/-- `PackedBits.Swap`, statement by statement -/
def swap (pb : List Nat) (i j : Nat) : List Nat :=
  let iBit := get pb i
  let jBit := get pb j
  let pb := clear pb i
  let pb := orBit pb i jBit
  let pb := clear pb j
  orBit pb j iBit

/-- the bits of a packed vector in order (`Unpack`) -/
def bits (pb : List Nat) : List Bool := (List.range (8 * pb.length)).map (get pb)

/-- `Pack` of already-binary input: OR bit `i` into a zero vector of `⌈n/8⌉` bytes -/
def packLoop (out : List Nat) : List Bool → Nat → List Nat
  | [], _ => out
  | b :: bs, i => packLoop (orBit out i b) bs (i + 1)

def pack (bs : List Bool) : List Nat := packLoop (List.replicate ((bs.length + 7) / 8) 0) bs 0

/-- inner loop of `Repeat`: `for range n { vOut[next/8] |= bit << (next%8); next++ }` -/
def orRun (out : List Nat) (bit : Bool) (next : Nat) : Nat → List Nat
  | 0 => out
  | n + 1 => orRun (orBit out next bit) bit (next + 1) n

/-- outer loop of `Repeat` over the input bits, with the running `nextBit` -/
def repeatLoop (n : Nat) : List Bool → List Nat → Nat → List Nat
  | [], out, _ => out
  | b :: bs, out, next => repeatLoop n bs (orRun out b next n) (next + n)

/-- `PackedBits.Repeat(n)` -/
def repeatBits (pb : List Nat) (n : Nat) : List Nat :=
  repeatLoop n (bits pb) (List.replicate (pb.length * n) 0) 0

/-- OR `f i` into bit `i` for every `i < n` -/
def orFill (f : Nat → Bool) (out : List Nat) : Nat → List Nat
  | 0 => out
  | n + 1 => orBit (orFill f out n) n (f n)

/-- row `j` of the transposed matrix: bit `i` is bit `j` of input row `i`; `R` output bytes -/
def transposeRow (m : List (List Nat)) (R j : Nat) : List Nat :=
  orFill (fun i => get (m.getD i []) j) (List.replicate R 0) (8 * R)

/-- `transposePackedBitsSlow` on a matrix with `8·R` rows of `C` bytes: `8·C` rows of `R` bytes -/
def transposeSlow (m : List (List Nat)) (R C : Nat) : List (List Nat) :=
  (List.range (8 * C)).map (transposeRow m R)

/-! ### fast path -/

def mask64 : Nat := 2 ^ 64 - 1

def masks : List Nat :=
  [0x5555555555555555, 0x3333333333333333, 0x0f0f0f0f0f0f0f0f,
   0x00ff00ff00ff00ff, 0x0000ffff0000ffff, 0x00000000ffffffff]

def setAt (l : List Nat) (k v : Nat) : List Nat := modifyAt (fun _ => v) l k

/-- one pair update of `transpose64` on `uint64`s -/
def butterfly (block : List Nat) (lo hi shift mask : Nat) : List Nat :=
  let a := block.getD lo 0
  let b := block.getD hi 0
  let block := setAt block lo ((a &&& mask) ||| (((b &&& mask) <<< shift) &&& mask64))
  setAt block hi (((a >>> shift) &&& mask) ||| (b &&& (mask64 ^^^ mask)))

/-- one stage: for `base = 0, 2·step, …` and `i < step`, pair `(base+i, base+i+step)`; the pairs are
exactly the indices `k < 64` whose bit `stage` is clear -/
def stage64 (block : List Nat) (stage : Nat) : List Nat :=
  let step := 1 <<< stage
  let mask := masks.getD stage 0
  (List.range 64).foldl (fun blk k => if k.testBit stage then blk else butterfly blk k (k + step) step mask) block

/-- `transpose64` -/
def transpose64 (block : List Nat) : List Nat := (List.range 6).foldl stage64 block

/-- `binary.LittleEndian.Uint64` of 8 bytes -/
def le64 (bs : List Nat) : Nat := bs.foldr (fun b acc => b + 256 * acc) 0

/-- `binary.LittleEndian.PutUint64` -/
def putLe64 (w : Nat) : List Nat := (List.range 8).map fun i => (w >>> (8 * i)) % 256

/-- the 64 words of the block at bit-row `rb`, byte-column `cb` -/
def loadBlock (m : List (List Nat)) (rb cb : Nat) : List Nat :=
  (List.range 64).map fun i => le64 (((m.getD (rb + i) []).drop cb).take 8)

/-- `transposePackedBitsFast` on `64·Rb` rows of `8·Cb` bytes: output row `64·c + i` is the
concatenation over row blocks `r` of word `i` of the transposed block `(r, c)` -/
def transposeFast (m : List (List Nat)) (Rb Cb : Nat) : List (List Nat) :=
  (List.range Cb).flatMap fun c =>
    let blocks := (List.range Rb).map fun r => transpose64 (loadBlock m (64 * r) (8 * c))
    (List.range 64).map fun i => blocks.flatMap fun blk => putLe64 (blk.getD i 0)

/-- which path `TransposePackedBits` takes -/
def fastPath (m : List (List Nat)) : Bool := m.length % 64 == 0 && m.all fun r => r.length % 8 == 0

/-- `TransposePackedBits` with its shape checks (`none` = the Go function returns an error) -/
def transposePacked (m : List (List Nat)) : Option (List (List Nat)) :=
  let C := (m.headD []).length
  if fastPath m then
    if m.length == 0 then none
    else if C == 0 then none
    else if m.any (fun r => r.length != C) then none
    else some (transposeFast m (m.length / 64) (C / 8))
  else
    if m.length % 8 != 0 || m.length == 0 then none
    else if m.any (fun r => r.length != C) then none
    else some (transposeSlow m (m.length / 8) C)

end BronVerif.PackedBits
